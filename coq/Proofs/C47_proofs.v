(* Lemmas about Model/Handshake.v (C47). *)
From Coq Require Import ZArith List Bool Lia.
From Verif Require Import Handshake.
Import ListNotations.
Local Open Scope Z_scope.

Ltac break_goal := match goal with
  | |- context[match ?x with _ => _ end] => destruct x eqn:?
  end.
Ltac break_hyp := match goal with
  | H : context[match ?x with _ => _ end] |- _ => destruct x eqn:?
  end.
Ltac break := repeat (first [break_goal | break_hyp]; cbn in * ).
Ltac destr_state s := destruct s as [p pc c d ck sl cn df cl le]; cbn in *.
Ltac projs := cbn [fst snd pending pcomp comp decomp cksum seglz4 connected defunct closed last_error
                   f_kind f_compressed f_checksummed f_segcomp] in *.
Ltac unf := unfold step, handle_options, handle_startup, handle_auth, send, enable, set_connected, stage, clear_pending,
                   do_defunct, do_close, reported_ready, mk_frame in *.

Lemma memZ_In : forall x l, memZ x l = true <-> In x l.
Proof.
  induction l as [|y l IH]; cbn; split; intro H; try discriminate; try tauto.
  - apply orb_true_iff in H. destruct H as [H|H]; [left; apply Z.eqb_eq in H; auto | right; apply IH; auto].
  - apply orb_true_iff. destruct H as [H|H]; [left; apply Z.eqb_eq; auto | right; apply IH; auto].
Qed.

(* ------------------------------------------------------------------ negotiation *)
Lemma negotiate_some : forall cfg remote a,
  negotiate cfg remote = NegoSome a ->
  In a (c_local cfg) /\ In a remote /\ c_comp cfg <> CompOff /\ (forall n, c_comp cfg = CompName n -> a = n)
  /\ ((a =? snappy) && has_cs (c_version cfg) = false).
Proof.
  intros cfg remote a H. unfold negotiate in H.
  destruct (c_comp cfg) eqn:Ec; try discriminate.
  - destruct (filter (fun k => memZ k remote) (c_local cfg)) as [|first rest] eqn:Ef; try discriminate.
    destruct ((first =? snappy) && has_cs (c_version cfg)) eqn:Es; try discriminate.
    destruct (memZ first (c_local cfg)) eqn:Em; try discriminate.
    inversion H; subst a.
    assert (Hin : In first (filter (fun k => memZ k remote) (c_local cfg))) by (rewrite Ef; left; auto).
    apply filter_In in Hin. destruct Hin as [Hl Hr]. apply memZ_In in Hr.
    repeat split; auto; try discriminate.
  - destruct (filter (fun k => memZ k remote) (c_local cfg)) as [|first rest] eqn:Ef; try discriminate.
    destruct (memZ n remote) eqn:Er; try discriminate.
    destruct ((n =? snappy) && has_cs (c_version cfg)) eqn:Es; try discriminate.
    destruct (memZ n (c_local cfg)) eqn:Em; try discriminate.
    inversion H; subst a. apply memZ_In in Er. apply memZ_In in Em.
    repeat split; auto; try discriminate. intros n0 E; inversion E; auto.
Qed.

Lemma negotiate_fail : forall cfg remote e, negotiate cfg remote = NegoFail e -> e <> EAuthFailed.
Proof.
  intros cfg remote e H. unfold negotiate in H.
  repeat (break_hyp; try discriminate); inversion H; subst; try discriminate;
    match goal with E : inr _ = inr _ |- _ => inversion E; subst; discriminate
                  | E : inl _ = inr _ |- _ => discriminate E
                  | E : _ = inr ?x |- _ => try (inversion E; subst; discriminate) end.
Qed.

(* ------------------------------------------------------------------ global invariant *)
Record Inv (s : state) : Prop := mkInv {
  inv_err : last_error s <> None -> connected s = true /\ (defunct s = true \/ closed s = true);
  inv_defunct : defunct s = true -> closed s = true /\ last_error s <> None;
  inv_closed : closed s = true -> connected s = true;
  inv_conn : connected s = true <-> pending s = None
}.

Lemma inv_init : Inv init_state.
Proof. constructor; cbn; intuition congruence. Qed.

Ltac inv_solve := constructor; projs; intuition (try congruence).

Lemma inv_step : forall cfg s r, Inv s -> Inv (fst (step cfg s r)).
Proof.
  intros cfg s r [I1 I2 I3 I4].
  destr_state s.
  destruct cn, df, cl; try (exfalso; intuition congruence); destruct p as [p|]; try (exfalso; intuition congruence).
  all: destruct r; unf; cbn; repeat (break_goal; cbn); inv_solve.
Qed.

Lemma run_from_app : forall cfg rs1 rs2 s,
  run_from cfg s (rs1 ++ rs2) =
  let '(s1, o1) := run_from cfg s rs1 in let '(s2, o2) := run_from cfg s1 rs2 in (s2, o1 ++ o2).
Proof.
  induction rs1 as [|r rs1 IH]; intros rs2 s; cbn [run_from app].
  - destruct (run_from cfg s rs2); reflexivity.
  - destruct (step cfg s r) as [s1 o1] eqn:E1. rewrite IH.
    destruct (run_from cfg s1 rs1) as [s2 o2]. destruct (run_from cfg s2 rs2) as [s3 o3].
    rewrite app_assoc. reflexivity.
Qed.

Lemma inv_run_from : forall cfg rs s, Inv s -> Inv (fst (run_from cfg s rs)).
Proof.
  induction rs as [|r rs IH]; intros s H; cbn [run_from]; auto.
  pose proof (inv_step cfg s r H) as H1. destruct (step cfg s r) as [s1 o1]. cbn [fst] in H1.
  specialize (IH s1 H1). destruct (run_from cfg s1 rs) as [s2 o2]. exact IH.
Qed.

(* ------------------------------------------------------------------ errors are final *)
Lemma error_final_step : forall cfg s r e, Inv s -> last_error s = Some e -> last_error (fst (step cfg s r)) = Some e.
Proof.
  intros cfg s r e [I1 I2 I3 I4] He.
  assert (Hc : connected s = true /\ (defunct s = true \/ closed s = true)) by (apply I1; congruence).
  destruct Hc as [Hc Hd]. assert (Hp : pending s = None) by (apply I4; auto).
  assert (Hcl : closed s = true) by (destruct Hd as [Hd|Hd]; auto; apply I2; auto).
  destr_state s. subst. destruct r; try destruct k; unf; cbn; rewrite ?orb_true_r; auto.
Qed.

Lemma error_final : forall cfg rs s e, Inv s -> last_error s = Some e -> last_error (fst (run_from cfg s rs)) = Some e.
Proof.
  induction rs as [|r rs IH]; intros s e HI He; cbn [run_from]; auto.
  pose proof (inv_step cfg s r HI) as H1. pose proof (error_final_step cfg s r e HI He) as H2.
  destruct (step cfg s r) as [s1 o1]. cbn [fst] in *.
  specialize (IH s1 e H1 H2). destruct (run_from cfg s1 rs) as [s2 o2]. exact IH.
Qed.

(* ------------------------------------------------------------------ ready only after READY / AUTH_SUCCESS *)
Lemma ready_step : forall cfg s r, c_guard cfg = true ->
  reported_ready (fst (step cfg s r)) = true -> reported_ready s = true \/ r = RReady \/ r = RAuthSuccess.
Proof.
  intros cfg s r Hg H. destr_state s.
  destruct r; auto; unf; rewrite ?Hg in *; cbn in *;
  destruct p as [[| |]|]; cbn in *; auto;
  repeat (break_hyp; cbn in * ); auto; try discriminate;
  destruct cn; cbn in *; auto; try discriminate.
Qed.

Lemma ready_run_from : forall cfg rs s, c_guard cfg = true ->
  reported_ready (fst (run_from cfg s rs)) = true -> reported_ready s = true \/ In RReady rs \/ In RAuthSuccess rs.
Proof.
  induction rs as [|r rs IH]; intros s Hg H; cbn [run_from] in H; auto.
  pose proof (ready_step cfg s r Hg) as Hs.
  destruct (step cfg s r) as [s1 o1]. cbn [fst] in Hs.
  specialize (IH s1 Hg). destruct (run_from cfg s1 rs) as [s2 o2]. cbn [fst] in *.
  destruct (IH H) as [H1|[H1|H1]].
  - destruct (Hs H1) as [H2|[H2|H2]]; auto; subst; right; [left|right]; left; auto.
  - right; left; right; auto.
  - right; right; right; auto.
Qed.

(* the first reply must be SUPPORTED *)
Lemma first_not_supported : forall cfg r, (forall rem, r <> RSupported rem) ->
  let s := fst (step cfg init_state r) in last_error s <> None \/ (r = RDisconnect /\ c_guard cfg = false).
Proof.
  intros cfg r H. destruct r; try (exfalso; eapply H; reflexivity); cbn; try (left; congruence).
  - destruct k; cbn; left; congruence.
  - destruct (c_guard cfg); cbn; [left; congruence | right; auto].
Qed.

(* ------------------------------------------------------------------ compression: algorithm known to both sides *)
Definition names_ok (local remote : list Z) (s : state) : Prop :=
  forall a, pcomp s = Some a \/ comp s = Some a \/ decomp s = Some a -> In a local /\ In a remote.

Definition frames_ok (local remote : list Z) (o : list frame) : Prop :=
  forall f a, In f o -> f_kind f = MStartup (Some a) -> In a local /\ In a remote.

Lemma names_step_later : forall cfg local remote s r, pending s <> Some CbOptions ->
  names_ok local remote s ->
  names_ok local remote (fst (step cfg s r)) /\ pending (fst (step cfg s r)) <> Some CbOptions
  /\ frames_ok local remote (snd (step cfg s r)).
Proof.
  intros cfg local remote s r Hp Hn. unfold names_ok, frames_ok in *. destr_state s.
  destruct p as [[| |]|]; try congruence;
  destruct r; unf; cbn; repeat (break_goal; cbn);
  (split; [intros a Ha; apply Hn; intuition (try congruence) | split; [congruence|]]);
  intros f a Hin Hk; cbn in Hin; try tauto; destruct Hin as [Hin|[]]; subst f; cbn in Hk; congruence.
Qed.

Lemma names_run_later : forall cfg local remote rs s, pending s <> Some CbOptions ->
  names_ok local remote s ->
  names_ok local remote (fst (run_from cfg s rs)) /\ frames_ok local remote (snd (run_from cfg s rs)).
Proof.
  induction rs as [|r rs IH]; intros s Hp Hn; cbn [run_from].
  - split; auto. intros f a [].
  - destruct (names_step_later cfg local remote s r Hp Hn) as [H1 [H2 H3]].
    destruct (step cfg s r) as [s1 o1]. cbn [fst snd] in *.
    destruct (IH s1 H2 H1) as [H4 H5]. destruct (run_from cfg s1 rs) as [s2 o2]. cbn [fst snd] in *.
    split; auto. intros f a Hin Hk. apply in_app_or in Hin. destruct Hin; [eapply H3|eapply H5]; eauto.
Qed.

Lemma names_first_supported : forall cfg remote,
  let x := step cfg init_state (RSupported remote) in
  names_ok (c_local cfg) remote (fst x) /\ pending (fst x) <> Some CbOptions /\ frames_ok (c_local cfg) remote (snd x).
Proof.
  intros cfg remote. cbn [step init_state pending clear_pending handle_options pcomp comp decomp cksum seglz4 connected defunct closed last_error].
  destruct (negotiate cfg remote) as [|a|e] eqn:En.
  - unfold names_ok, frames_ok. unf. cbn. repeat split; try congruence.
    + intuition congruence. + intuition congruence.
    + destruct H as [H|[]]; subst f; cbn in H0; congruence.
    + destruct H as [H|[]]; subst f; cbn in H0; congruence.
  - apply negotiate_some in En. destruct En as [Hl [Hr _]].
    unfold names_ok, frames_ok. unf. cbn. repeat split; try congruence.
    + intuition congruence. + intuition congruence.
    + destruct H as [H|[]]; subst f; cbn in H0; congruence.
    + destruct H as [H|[]]; subst f; cbn in H0; congruence.
  - unfold names_ok, frames_ok. unf. cbn. repeat split; try congruence; try tauto; intuition congruence.
Qed.

Lemma names_first_other : forall cfg r, (forall rem, r <> RSupported rem) ->
  let x := step cfg init_state r in
  names_ok [] [] (fst x) /\ pending (fst x) <> Some CbOptions /\ frames_ok [] [] (snd x).
Proof.
  intros cfg r H. destruct r; try (exfalso; eapply H; reflexivity); try destruct k; unfold names_ok, frames_ok; cbn;
    repeat split; try congruence; try tauto; intuition congruence.
Qed.

(* ------------------------------------------------------------------ nothing compressed before the server accepts *)
Definition is_accept (r : reply) : bool := match r with RReady | RAuthenticate => true | _ => false end.

Definition pre_accept (s : state) : Prop :=
  comp s = None /\ cksum s = false /\
  (pending s = None \/ pending s = Some CbOptions \/ pending s = Some (CbStartup false)).

Definition plain (f : frame) : Prop := f_compressed f = false /\ f_segcomp f = false /\ f_checksummed f = false.

Lemma pre_accept_step : forall cfg s r, is_accept r = false -> pre_accept s ->
  pre_accept (fst (step cfg s r)) /\ Forall plain (snd (step cfg s r)).
Proof.
  intros cfg s r Hr [H1 [H2 H3]]. unfold pre_accept, plain. destr_state s. subst.
  destruct H3 as [H3|[H3|H3]]; subst;
  destruct r; try discriminate; unf; cbn; repeat (break_goal; cbn);
    repeat split; auto; try (repeat constructor; cbn; auto; fail);
    try (right; right; reflexivity); try (left; reflexivity).
Qed.

Lemma pre_accept_run : forall cfg rs s, forallb (fun r => negb (is_accept r)) rs = true -> pre_accept s ->
  pre_accept (fst (run_from cfg s rs)) /\ Forall plain (snd (run_from cfg s rs)).
Proof.
  induction rs as [|r rs IH]; intros s Hall Hp; cbn [run_from].
  - split; [exact Hp | constructor].
  - cbn in Hall. apply andb_true_iff in Hall. destruct Hall as [Hr Hall]. apply negb_true_iff in Hr.
    destruct (pre_accept_step cfg s r Hr Hp) as [H1 H2].
    destruct (step cfg s r) as [s1 o1]. cbn [fst snd] in *.
    destruct (IH s1 Hall H1) as [H3 H4]. destruct (run_from cfg s1 rs) as [s2 o2]. cbn [fst snd] in *.
    split; auto. apply Forall_app; auto.
Qed.

(* ------------------------------------------------------------------ checksumming exactly for the checksumming versions *)
Definition authphase (s : state) : Prop := pending s = Some CbAuth \/ pending s = Some (CbStartup true).

Record CkInv (v : Z) (s : state) : Prop := mkCk {
  ck_only : cksum s = true -> has_cs v = true;
  ck_ready : reported_ready s = true -> cksum s = has_cs v;
  ck_auth : authphase s -> cksum s = has_cs v
}.

Lemma ck_step : forall cfg s r, c_guard cfg = true -> CkInv (c_version cfg) s ->
  CkInv (c_version cfg) (fst (step cfg s r))
  /\ Forall (fun f => f_checksummed f = true -> has_cs (c_version cfg) = true) (snd (step cfg s r)).
Proof.
  intros cfg s r Hg [K1 K2 K3]. unfold authphase in *.
  destr_state s. unfold reported_ready in *. cbn in *.
  destruct (has_cs (c_version cfg)) eqn:Hv;
    destruct r; destruct p as [[| |]|]; unf; cbn; rewrite ?Hg, ?Hv; cbn; repeat (break_goal; cbn);
    (split; [constructor; unfold authphase, reported_ready; cbn; rewrite ?Hv; intros; try reflexivity;
             try (intuition congruence); try (destruct ck; intuition congruence);
             try (destruct cn; cbn in *; intuition congruence)
            | repeat constructor; cbn; rewrite ?Hv; auto; try (destruct ck; intuition congruence)]).
Qed.

(* ------------------------------------------------------------------ authentication failures *)
Lemma authfailed_step : forall cfg s r,
  last_error (fst (step cfg s r)) = Some EAuthFailed ->
  last_error s = Some EAuthFailed \/ (r = RAuthenticate /\ c_auth cfg = ANone) \/ (exists k, r = RError k /\ authphase s).
Proof.
  intros cfg s r. unfold authphase. destr_state s.
  destruct r; destruct p as [[| |]|]; unf; cbn; repeat (break_goal; cbn); intro H; try discriminate; auto;
    try (right; left; split; auto; fail);
    try (right; right; eexists; split; [reflexivity|]; auto; fail).
  exfalso. inversion H; subst. eapply negotiate_fail; eauto.
Qed.

Lemma authphase_step : forall cfg s r, authphase (fst (step cfg s r)) -> r = RAuthenticate \/ authphase s.
Proof.
  intros cfg s r. unfold authphase in *. destr_state s.
  destruct r; auto; destruct p as [[| |]|]; unf; cbn; repeat (break_goal; cbn); intros [H|H]; try discriminate; auto.
Qed.

Lemma authfailed_run_from : forall cfg rs s,
  last_error (fst (run_from cfg s rs)) = Some EAuthFailed ->
  last_error s = Some EAuthFailed
  \/ (In RAuthenticate rs /\ (c_auth cfg = ANone \/ exists k, In (RError k) rs))
  \/ (authphase s /\ exists k, In (RError k) rs).
Proof.
  induction rs as [|r rs IH]; intros s H; cbn [run_from] in H; auto.
  pose proof (authfailed_step cfg s r) as Hs. pose proof (authphase_step cfg s r) as Hp.
  destruct (step cfg s r) as [s1 o1]. cbn [fst] in *.
  specialize (IH s1). destruct (run_from cfg s1 rs) as [s2 o2]. cbn [fst] in *.
  destruct (IH H) as [H1|[[H1 H2]|[H1 [k H2]]]].
  - destruct (Hs H1) as [H3|[[H3 H4]|[k [H3 H4]]]]; auto.
    + right; left; subst; split; [left; auto | left; auto].
    + right; right; split; auto. exists k; left; auto.
  - right; left; split; [right; auto|]. destruct H2 as [H2|[k H2]]; auto. right; exists k; right; auto.
  - destruct (Hp H1) as [H3|H3].
    + right; left; subst; split; [left; auto|]. right; exists k; right; auto.
    + right; right; split; auto. exists k; right; auto.
Qed.

(* a live connection with an outstanding request *)
Lemma inv_pending_live : forall s c0, Inv s -> pending s = Some c0 ->
  defunct s = false /\ closed s = false /\ last_error s = None /\ connected s = false.
Proof.
  intros s c0 [I1 I2 I3 I4] Hp. destr_state s. subst.
  destruct cn; [exfalso; destruct I4 as [I4 _]; specialize (I4 eq_refl); discriminate|].
  destruct cl; [exfalso; specialize (I3 eq_refl); discriminate|].
  destruct df; [exfalso; destruct (I2 eq_refl); discriminate|].
  destruct le; [exfalso; destruct I1 as [I1 _]; congruence|]. auto.
Qed.

Lemma authenticate_without_authenticator : forall cfg s did, Inv s -> pending s = Some (CbStartup did) -> c_auth cfg = ANone ->
  last_error (fst (step cfg s RAuthenticate)) = Some EAuthFailed.
Proof.
  intros cfg s did HI Hp Ha. destruct (inv_pending_live s _ HI Hp) as [Hd [Hc [He Hn]]].
  destr_state s. subst. unf. cbn. rewrite Ha. reflexivity.
Qed.

Lemma credentials_rejected : forall cfg s, Inv s -> authphase s ->
  last_error (fst (step cfg s (RError EkAuth))) = Some EAuthFailed.
Proof.
  intros cfg s HI [Hp|Hp]; destruct (inv_pending_live s _ HI Hp) as [Hd [Hc [He Hn]]];
    destr_state s; subst; reflexivity.
Qed.

(* once the handshake is over, protocol replies change nothing *)
Lemma connected_replies_dropped : forall cfg s r, Inv s -> connected s = true -> r <> RDisconnect -> r <> RSockErr ->
  step cfg s r = (s, []).
Proof.
  intros cfg s r [I1 I2 I3 I4] Hc H1 H2. apply I4 in Hc.
  destruct r; try congruence; unfold step; rewrite Hc; reflexivity.
Qed.
