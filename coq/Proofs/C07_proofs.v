(* C07 (murmur3 part): the C-semantics model of cmurmur3.c equals the Java-semantics spec, hence (C08) the
   pure-Python implementation, for every key. *)
From Coq Require Import ZArith List Bool Lia ZifyBool.
From Verif Require Import PyBase ByteWords Murmur3Spec Murmur3C Murmur3Gen Murmur3Ext Bits64 C08_proofs.
Import ListNotations.
Local Open Scope Z_scope.

Lemma i64_eqm x : eqm64 (i64 x) x.
Proof.
  unfold i64, sext64. change (2 ^ 64) with W64. destruct (x mod W64 <? 2 ^ 63); [apply eqm64_mod|].
  unfold eqm64. replace (x mod W64 - W64) with (x mod W64 + (-1) * W64) by ring.
  rewrite Z.mod_add by (unfold W64; lia). apply Z.mod_mod. unfold W64; lia.
Qed.

Lemma u64_eqm x : eqm64 (u64 x) x. Proof. apply eqm64_mod. Qed.
Lemma u64_of_eqm x s : eqm64 x s -> 0 <= s < W64 -> u64 x = s.
Proof. intros E Hs. unfold u64. change (2 ^ 64) with W64. unfold eqm64 in E. rewrite E. apply Z.mod_small. assumption. Qed.

Lemma c_mul_congr a b x y : eqm64 a x -> eqm64 b y -> eqm64 (c_mul a b) (mul64 x y).
Proof. intros. unfold c_mul. eapply eqm64_trans; [apply i64_eqm|]. apply eqm64_mul64; assumption. Qed.
Lemma c_add_congr a b x y : eqm64 a x -> eqm64 b y -> eqm64 (c_add a b) (add64 x y).
Proof. intros. unfold c_add. eapply eqm64_trans; [apply i64_eqm|]. apply eqm64_add64; assumption. Qed.
Lemma c_xor_congr a b x y : eqm64 a x -> eqm64 b y -> eqm64 (c_xor a b) (Z.lxor x y).
Proof.
  intros Ha Hb. unfold c_xor. eapply eqm64_trans; [apply i64_eqm|].
  apply eqm64_lxor; (eapply eqm64_trans; [apply u64_eqm|assumption]).
Qed.
Lemma c_shl_congr a k : 0 <= k -> eqm64 (c_shl a k) (Z.shiftl a k).
Proof. intros Hk. unfold c_shl. rewrite Z.shiftl_mul_pow2 by assumption. apply i64_eqm. Qed.

Lemma c_rotl_congr x s r : 0 < r < 64 -> eqm64 x s -> 0 <= s < W64 -> eqm64 (c_rotl x r) (rotl64s s r).
Proof.
  intros Hr E Hs. unfold c_rotl, rotl64s. rewrite M64_W64.
  eapply eqm64_trans; [apply i64_eqm|]. eapply eqm64_trans; [|apply eqm64_sym, eqm64_mod].
  rewrite (u64_of_eqm x s E Hs).
  apply eqm64_bits. intros i Hi. rewrite !Z.lor_spec. f_equal.
  apply eqm64_testbit; [|assumption].
  eapply eqm64_trans; [apply u64_eqm|]. eapply eqm64_trans; [apply c_shl_congr; lia|].
  apply eqm64_shiftl; [lia|assumption].
Qed.

Lemma cC1_congr : eqm64 cC1 C1. Proof. apply i64_eqm. Qed.
Lemma cC2_congr : eqm64 cC2 C2. Proof. apply eqm64_refl. Qed.

Lemma c_mixk1 k w : eqm64 k w -> eqm64 (c_mul (c_rotl (c_mul k cC1) 31) cC2) (mix_k1 w).
Proof.
  intros E. unfold mix_k1. apply c_mul_congr; [|apply cC2_congr].
  apply c_rotl_congr; [lia| |apply mul64_range]. apply c_mul_congr; [assumption|apply cC1_congr].
Qed.
Lemma c_mixk2 k w : eqm64 k w -> eqm64 (c_mul (c_rotl (c_mul k cC2) 33) cC1) (mix_k2 w).
Proof.
  intros E. unfold mix_k2. apply c_mul_congr; [|apply cC1_congr].
  apply c_rotl_congr; [lia| |apply mul64_range]. apply c_mul_congr; [assumption|apply cC2_congr].
Qed.

Lemma sext64_eqm w : eqm64 (sext64 w) w.
Proof.
  unfold sext64. destruct (w <? 2 ^ 63); [apply eqm64_refl|].
  unfold eqm64. replace (w - 2 ^ 64) with (w + (-1) * W64) by (unfold W64; ring). apply Z.mod_add. unfold W64; lia.
Qed.

Lemma c_round_congr h1 h2 k1 k2 s1 s2 w1 w2 :
  eqm64 h1 s1 -> eqm64 h2 s2 -> eqm64 k1 w1 -> eqm64 k2 w2 -> 0 <= s1 < W64 -> 0 <= s2 < W64 ->
  eqm64 (fst (c_round (h1, h2) k1 k2)) (fst (round (s1, s2) w1 w2)) /\
  eqm64 (snd (c_round (h1, h2) k1 k2)) (snd (round (s1, s2) w1 w2)).
Proof.
  intros E1 E2 K1 K2 R1 R2. unfold c_round, round. cbv zeta. cbn [fst snd].
  assert (A : eqm64 (c_add (c_mul (c_add (c_rotl (c_xor h1 (c_mul (c_rotl (c_mul k1 cC1) 31) cC2)) 27) h2) 5) 1390208809)
                    (add64 (mul64 (add64 (rotl64s (Z.lxor s1 (mix_k1 w1)) 27) s2) 5) 1390208809)).
  { apply c_add_congr; [|apply eqm64_refl]. apply c_mul_congr; [|apply eqm64_refl]. apply c_add_congr; [|assumption].
    apply c_rotl_congr; [lia| |apply lxor_range; [assumption|apply mix_k1_range]].
    apply c_xor_congr; [assumption|apply c_mixk1; assumption]. }
  split; [exact A|].
  apply c_add_congr; [|apply eqm64_refl]. apply c_mul_congr; [|apply eqm64_refl]. apply c_add_congr; [|exact A].
  apply c_rotl_congr; [lia| |apply lxor_range; [assumption|apply mix_k2_range]].
  apply c_xor_congr; [assumption|apply c_mixk2; assumption].
Qed.

Lemma round_range s1 s2 w1 w2 : 0 <= fst (round (s1, s2) w1 w2) < W64 /\ 0 <= snd (round (s1, s2) w1 w2) < W64.
Proof. unfold round. cbv zeta. cbn [fst snd]. split; apply add64_range. Qed.

Lemma c_rounds_cons2 w1 w2 ws h : c_rounds (w1 :: w2 :: ws) h = c_rounds ws (c_round h (sext64 w1) (sext64 w2)).
Proof. reflexivity. Qed.
Lemma rounds_cons2 w1 w2 ws h : rounds (w1 :: w2 :: ws) h = rounds ws (round h w1 w2).
Proof. reflexivity. Qed.

(* keep the round functions folded: unifying `fst (c_round ...)` with a variable must not unfold them *)
Local Opaque c_round round.

Lemma c_rounds_congr_n : forall (n : nat) ws h1 h2 s1 s2, (length ws <= n)%nat ->
  eqm64 h1 s1 -> eqm64 h2 s2 -> 0 <= s1 < W64 -> 0 <= s2 < W64 ->
  eqm64 (fst (c_rounds ws (h1, h2))) (fst (rounds ws (s1, s2))) /\
  eqm64 (snd (c_rounds ws (h1, h2))) (snd (rounds ws (s1, s2))) /\
  0 <= fst (rounds ws (s1, s2)) < W64 /\ 0 <= snd (rounds ws (s1, s2)) < W64.
Proof.
  induction n as [|n IH]; intros ws h1 h2 s1 s2 Hn E1 E2 R1 R2.
  - destruct ws as [|w1 ws1]; [|cbn [length] in Hn; exfalso; exact (Nat.nle_succ_0 _ Hn)].
    cbn [c_rounds rounds fst snd]. split; [exact E1|]. split; [exact E2|]. split; [exact R1|exact R2].
  - destruct ws as [|w1 ws1].
    { cbn [c_rounds rounds fst snd]. split; [exact E1|]. split; [exact E2|]. split; [exact R1|exact R2]. }
    destruct ws1 as [|w2 ws'].
    { cbn [c_rounds rounds fst snd]. split; [exact E1|]. split; [exact E2|]. split; [exact R1|exact R2]. }
    rewrite c_rounds_cons2, rounds_cons2.
    pose proof (c_round_congr h1 h2 (sext64 w1) (sext64 w2) s1 s2 w1 w2 E1 E2 (sext64_eqm w1) (sext64_eqm w2) R1 R2) as AB.
    pose proof (round_range s1 s2 w1 w2) as RAB.
    rewrite (surjective_pairing (c_round (h1, h2) (sext64 w1) (sext64 w2))).
    rewrite (surjective_pairing (round (s1, s2) w1 w2)).
    assert (Hl : (length ws' <= n)%nat).
    { cbn [length] in Hn. apply le_S_n in Hn. apply Nat.le_trans with (S (length ws')); [apply Nat.le_succ_diag_r|exact Hn]. }
    exact (IH ws' _ _ _ _ Hl (proj1 AB) (proj2 AB) (proj1 RAB) (proj2 RAB)).
Qed.

Lemma c_rounds_congr ws h1 h2 s1 s2 :
  eqm64 h1 s1 -> eqm64 h2 s2 -> 0 <= s1 < W64 -> 0 <= s2 < W64 ->
  eqm64 (fst (c_rounds ws (h1, h2))) (fst (rounds ws (s1, s2))) /\
  eqm64 (snd (c_rounds ws (h1, h2))) (snd (rounds ws (s1, s2))) /\
  0 <= fst (rounds ws (s1, s2)) < W64 /\ 0 <= snd (rounds ws (s1, s2)) < W64.
Proof. apply (c_rounds_congr_n (length ws)). apply le_n. Qed.

Local Transparent c_round round.

Lemma down_c_down n : c_down n = down n.
Proof. induction n as [|n IH]; [reflexivity|]. cbn. rewrite IH. reflexivity. Qed.

Lemma c_tail_congr : forall L bs k s, eqm64 k s -> eqm64 (c_tail_word L bs k) (tail_word L bs s).
Proof.
  induction L as [|i L IH]; intros bs k s E; [exact E|]. cbn [c_tail_word tail_word]. apply IH.
  apply c_xor_congr; [assumption|]. eapply eqm64_trans; [apply c_shl_congr; lia|]. apply eqm64_M64mod.
Qed.

Lemma c_fstep k s : eqm64 k s -> 0 <= s < W64 ->
  eqm64 (c_xor k (Z.shiftr (u64 k) 33)) (Z.lxor s (Z.shiftr s 33)) /\ 0 <= Z.lxor s (Z.shiftr s 33) < W64.
Proof.
  intros E Hs. split; [|apply lxor_range; [assumption|apply shiftr_range; [assumption|lia]]].
  rewrite (u64_of_eqm k s E Hs). apply c_xor_congr; [assumption|apply eqm64_refl].
Qed.

Lemma c_fmix_congr k s : eqm64 k s -> 0 <= s < W64 -> eqm64 (c_fmix k) (fmix64 s).
Proof.
  intros E Hs. unfold c_fmix, fmix64. cbv zeta.
  destruct (c_fstep k s E Hs) as [E1 R1].
  pose proof (c_mul_congr _ (i64 18397679294719823053) _ 18397679294719823053 E1 (i64_eqm _)) as E2.
  destruct (c_fstep _ _ E2 (mul64_range _ _)) as [E3 R3].
  pose proof (c_mul_congr _ (i64 14181476777654086739) _ 14181476777654086739 E3 (i64_eqm _)) as E4.
  destruct (c_fstep _ _ E4 (mul64_range _ _)) as [E5 R5]. exact E5.
Qed.

Lemma i64_fix x s : eqm64 x s -> 0 <= s < W64 -> i64 x = sext64 s.
Proof. intros E Hs. unfold i64. f_equal. change (2 ^ 64) with W64. unfold eqm64 in E. rewrite E. apply Z.mod_small. assumption. Qed.

Lemma murmur3_c_correct key : murmur3_c key = murmur3_long key.
Proof.
  unfold murmur3_c, murmur3_long, murmur3_h1. cbv zeta.
  set (nb := (length key / 16)%nat). set (ws := words (2 * nb) key). set (T := skipn (16 * nb) key). set (tl := length T).
  assert (R0 : 0 <= 0 < W64) by (unfold W64; lia).
  destruct (c_rounds_congr ws 0 0 0 0 (eqm64_refl 0) (eqm64_refl 0) R0 R0) as (E1 & E2 & G1 & G2).
  destruct (c_rounds ws (0, 0)) as [h1 h2]. destruct (rounds ws (0, 0)) as [a b]. cbn [fst snd] in *.
  rewrite !down_c_down.
  set (h2' := if (8 <? tl)%nat then c_xor h2 _ else h2).
  set (b' := if (8 <? tl)%nat then Z.lxor b _ else b).
  set (h1' := if (0 <? tl)%nat then c_xor h1 _ else h1).
  set (a' := if (0 <? tl)%nat then Z.lxor a _ else a).
  assert (EB : eqm64 h2' b' /\ 0 <= b' < W64).
  { unfold h2', b'. destruct (8 <? tl)%nat; [|split; assumption]. split.
    - apply c_xor_congr; [assumption|]. apply c_mixk2. apply c_tail_congr. apply eqm64_refl.
    - apply lxor_range; [assumption|apply mix_k2_range]. }
  assert (EA : eqm64 h1' a' /\ 0 <= a' < W64).
  { unfold h1', a'. destruct (0 <? tl)%nat; [|split; assumption]. split.
    - apply c_xor_congr; [assumption|]. apply c_mixk1. apply c_tail_congr. apply eqm64_refl.
    - apply lxor_range; [assumption|apply mix_k1_range]. }
  destruct EA as [EA RA]. destruct EB as [EB RB].
  assert (X1 : eqm64 (c_xor h1' (Z.of_nat (length key))) (Z.lxor a' (Z.of_nat (length key) mod M64)))
    by (apply c_xor_congr; [assumption|apply eqm64_M64mod]).
  assert (X2 : eqm64 (c_xor h2' (Z.of_nat (length key))) (Z.lxor b' (Z.of_nat (length key) mod M64)))
    by (apply c_xor_congr; [assumption|apply eqm64_M64mod]).
  pose proof (c_add_congr _ _ _ _ X1 X2) as S1.
  pose proof (c_add_congr _ _ _ _ X2 S1) as S2.
  pose proof (c_fmix_congr _ _ S1 (add64_range _ _)) as F1.
  pose proof (c_fmix_congr _ _ S2 (add64_range _ _)) as F2.
  unfold c_add at 1. apply i64_fix; [|apply add64_range].
  apply eqm64_add64; assumption.
Qed.

Theorem murmur3_c_eq_py key : Forall is_byte key -> murmur3_py key = Ok (murmur3_c key).
Proof. intros H. rewrite murmur3_c_correct. apply murmur3_py_correct. assumption. Qed.
