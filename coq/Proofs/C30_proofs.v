(* Lemmas for C30 (Model/Bind.v, Model/CompositeSpec.v). *)
From Coq Require Import ZArith List Bool Lia Arith.
From Verif Require Import CompositeSpec Bind.
Import ListNotations.
Local Open Scope Z_scope.

Lemma dict_get_skip : forall {A} (d : list (Z * A)) k k' v, k <> k' -> dict_get ((k', v) :: d) k = dict_get d k.
Proof. intros A d k k' v Hne. cbn [dict_get]. destruct (Z.eqb_spec k k'); [contradiction|reflexivity]. Qed.

Lemma map_opt_Forall2 : forall {A B} (f : A -> option B) l r,
  map_opt f l = Some r <-> Forall2 (fun a b => f a = Some b) l r.
Proof.
  intros A B f l. induction l as [|a l IH]; intros r; cbn [map_opt].
  - split; intros H. + inversion H. constructor. + inversion H. reflexivity.
  - destruct (f a) eqn:Ha.
    + destruct (map_opt f l) eqn:Hl.
      * split; intros H.
        -- inversion H; subst. constructor; [exact Ha|]. apply IH. reflexivity.
        -- inversion H; subst. apply IH in H4. rewrite Ha in H2. inversion H2; subst.
           inversion H4; subst. reflexivity.
      * split; intros H; [discriminate|]. inversion H; subst. apply IH in H4. discriminate.
    + split; intros H; [discriminate|]. inversion H; subst. rewrite Ha in H2. discriminate.
Qed.

Lemma Forall2_len : forall {A B} (P : A -> B -> Prop) l r, Forall2 P l r -> length l = length r.
Proof. intros A B P l r H. induction H; cbn; congruence. Qed.

Section BindProofs.
  Variable V : Type.
  Variable ser : nat -> V -> option (list Z).
  Variable names : list Z.
  Variable pk_idx : list nat.
  Variable pv : Z.

  Notation is_rk := (is_rk pk_idx).
  Notation append_unset := (append_unset pk_idx).
  Notation bind_one := (bind_one V ser pk_idx pv).
  Notation bind_loop := (bind_loop V ser pk_idx pv).
  Notation fill_unset := (fill_unset pk_idx).
  Notation bind_values := (bind_values V ser names pk_idx pv).
  Notation bind := (bind V ser names pk_idx pv).
  Notation dict_to_list := (dict_to_list V pv).
  Notation routing_key := (routing_key pk_idx).

  (* ------------------------------------------------------------------ the bind loop *)
  Lemma bind_loop_length : forall vs i ws, bind_loop i vs = inr ws -> length ws = length vs.
  Proof.
    induction vs as [|v vs IH]; intros i ws H; cbn [Bind.bind_loop] in H.
    - inversion H. reflexivity.
    - destruct (bind_one i v); [discriminate|]. destruct (bind_loop (S i) vs) eqn:E; [discriminate|].
      inversion H; subst. cbn [length]. f_equal. eapply IH; eauto.
  Qed.

  Lemma bind_loop_nth : forall vs i ws k v, bind_loop i vs = inr ws -> nth_error vs k = Some v ->
    exists w, nth_error ws k = Some w /\ bind_one (i + k) v = inr w.
  Proof.
    induction vs as [|v0 vs IH]; intros i ws k v H Hk; cbn [Bind.bind_loop] in H.
    - destruct k; discriminate.
    - destruct (bind_one i v0) eqn:E1; [discriminate|]. destruct (bind_loop (S i) vs) eqn:E; [discriminate|].
      inversion H; subst. destruct k as [|k]; cbn [nth_error] in *.
      + inversion Hk; subst. exists w. rewrite Nat.add_0_r. auto.
      + destruct (IH _ _ _ _ E Hk) as [w' [H1 H2]]. exists w'. split; [exact H1|].
        replace (i + S k)%nat with (S i + k)%nat by lia. exact H2.
  Qed.

  Lemma bind_loop_nth_inv : forall vs i ws k w, bind_loop i vs = inr ws -> nth_error ws k = Some w ->
    exists v, nth_error vs k = Some v /\ bind_one (i + k) v = inr w.
  Proof.
    intros vs i ws k w H Hk. pose proof (bind_loop_length _ _ _ H) as Hl.
    destruct (nth_error vs k) eqn:Ev.
    - destruct (bind_loop_nth _ _ _ _ _ H Ev) as [w' [H1 H2]]. rewrite Hk in H1. inversion H1; subst. eauto.
    - apply nth_error_None in Ev. assert (nth_error ws k <> None) by congruence.
      apply nth_error_Some in H0. lia.
  Qed.

  Lemma bind_loop_app : forall a b i,
    bind_loop i (a ++ b) =
    match bind_loop i a with
    | inl e => inl e
    | inr ws => match bind_loop (i + length a) b with inl e => inl e | inr us => inr (ws ++ us) end
    end.
  Proof.
    induction a as [|v a IH]; intros b i; cbn [app Bind.bind_loop length].
    - rewrite Nat.add_0_r. destruct (bind_loop i b); reflexivity.
    - destruct (bind_one i v); [reflexivity|]. rewrite IH.
      replace (S i + length a)%nat with (i + S (length a))%nat by lia.
      destruct (bind_loop (S i) a); [reflexivity|].
      destruct (bind_loop (i + S (length a)) b); reflexivity.
  Qed.

  Lemma bind_loop_unsets : forall n i, 4 <= pv -> bind_loop i (repeat BUnset n) = fill_unset i n.
  Proof.
    induction n as [|n IH]; intros i Hpv; cbn [repeat Bind.bind_loop Bind.fill_unset]; [reflexivity|].
    unfold Bind.bind_one. destruct (Z.leb_spec 4 pv); [|lia].
    destruct (append_unset i); [reflexivity|]. rewrite IH by assumption. reflexivity.
  Qed.

  Lemma fill_unset_ok : forall n i us, fill_unset i n = inr us ->
    us = repeat WUnset n /\ forall k, (k < n)%nat -> is_rk (i + k) = false.
  Proof.
    induction n as [|n IH]; intros i us H; cbn [Bind.fill_unset] in H.
    - inversion H. split; [reflexivity|]. intros; lia.
    - unfold Bind.append_unset in H. destruct (is_rk i) eqn:Ei; [discriminate|].
      destruct (fill_unset (S i) n) eqn:E; [discriminate|]. inversion H; subst.
      destruct (IH _ _ E) as [H1 H2]. split; [cbn; f_equal; exact H1|].
      intros k Hk. destruct k; [rewrite Nat.add_0_r; exact Ei|].
      replace (i + S k)%nat with (S i + k)%nat by lia. apply H2. lia.
  Qed.

  (* ------------------------------------------------------------------ dict -> ordered list *)
  Lemma dict_to_list_skip : forall ns d k v, ~ In k ns -> dict_to_list ((k, v) :: d) ns = dict_to_list d ns.
  Proof.
    induction ns as [|n ns IH]; intros d k v Hni; cbn [Bind.dict_to_list]; [reflexivity|].
    rewrite dict_get_skip by (intro; subst; apply Hni; left; reflexivity).
    rewrite IH by (intro; apply Hni; right; assumption). reflexivity.
  Qed.

  Lemma dict_to_list_none : forall ns, 4 <= pv -> dict_to_list [] ns = inr (repeat BUnset (length ns)).
  Proof.
    induction ns as [|n ns IH]; intros Hpv; cbn [Bind.dict_to_list length repeat dict_get]; [reflexivity|].
    destruct (Z.leb_spec 4 pv); [|lia]. rewrite IH by assumption. reflexivity.
  Qed.

  Lemma dict_to_list_combine : forall ns vs, NoDup ns -> (length vs <= length ns)%nat ->
    (length vs = length ns \/ 4 <= pv) ->
    dict_to_list (combine ns vs) ns = inr (vs ++ repeat BUnset (length ns - length vs)).
  Proof.
    induction ns as [|n ns IH]; intros vs Hnd Hle Hc.
    - destruct vs; [reflexivity|cbn in Hle; lia].
    - destruct vs as [|v vs].
      + destruct Hc as [Hc|Hc]; [cbn in Hc; lia|]. cbn [combine]. rewrite dict_to_list_none by assumption. reflexivity.
      + cbn [combine Bind.dict_to_list dict_get]. rewrite Z.eqb_refl. inversion Hnd; subst.
        rewrite dict_to_list_skip by assumption. cbn [length] in *.
        rewrite IH; [reflexivity|assumption|lia|destruct Hc; [left; lia|right; assumption]].
  Qed.

  Lemma dict_to_list_nth : forall ns d l k n, dict_to_list d ns = inr l -> nth_error ns k = Some n ->
    nth_error l k = Some (match dict_get d n with Some v => v | None => BUnset end)
    /\ (dict_get d n = None -> 4 <= pv).
  Proof.
    induction ns as [|n0 ns IH]; intros d l k n H Hk; cbn [Bind.dict_to_list] in H.
    - destruct k; discriminate.
    - destruct k as [|k]; cbn [nth_error] in Hk.
      + inversion Hk; subst. destruct (dict_get d n) eqn:Eg.
        * destruct (dict_to_list d ns); [discriminate|]. inversion H; subst. split; [reflexivity|discriminate].
        * destruct (Z.leb_spec 4 pv); [|discriminate]. destruct (dict_to_list d ns); [discriminate|].
          inversion H; subst. split; [reflexivity|auto].
      + destruct (dict_get d n0).
        * destruct (dict_to_list d ns) eqn:E; [discriminate|]. inversion H; subst. cbn [nth_error]. eapply IH; eauto.
        * destruct (4 <=? pv); [|discriminate]. destruct (dict_to_list d ns) eqn:E; [discriminate|].
          inversion H; subst. cbn [nth_error]. eapply IH; eauto.
  Qed.

  Lemma dict_to_list_length : forall ns d l, dict_to_list d ns = inr l -> length l = length ns.
  Proof.
    induction ns as [|n ns IH]; intros d l H; cbn [Bind.dict_to_list] in H.
    - inversion H; reflexivity.
    - destruct (dict_get d n).
      + destruct (dict_to_list d ns) eqn:E; [discriminate|]. inversion H; subst. cbn. f_equal. eauto.
      + destruct (4 <=? pv); [|discriminate]. destruct (dict_to_list d ns) eqn:E; [discriminate|].
        inversion H; subst. cbn. f_equal. eauto.
  Qed.

  (* ------------------------------------------------------------------ bind_values: shape of a successful result *)
  Lemma bind_values_ok : forall vs ws, bind_values vs = inr ws ->
    (length vs <= length names)%nat /\
    exists ws1, bind_loop 0 vs = inr ws1 /\
      ((pv < 4 /\ ws = ws1) \/
       (4 <= pv /\ ws = ws1 ++ repeat WUnset (length names - length vs) /\
        forall k, (k < length names - length vs)%nat -> is_rk (length vs + k) = false)).
  Proof.
    intros vs ws H. unfold Bind.bind_values in H.
    destruct (Nat.ltb_spec (length names) (length vs)); [discriminate|]. split; [assumption|].
    match type of H with (if ?c then _ else _) = _ => destruct c end; [discriminate|].
    destruct (bind_loop 0 vs) as [e|ws1] eqn:E; [discriminate|]. exists ws1. split; [reflexivity|].
    destruct (Z.leb_spec 4 pv).
    - right. destruct (fill_unset (length vs) (length names - length vs)) eqn:Ef; [discriminate|].
      inversion H; subst. destruct (fill_unset_ok _ _ _ Ef) as [Hf1 Hf2]. subst. auto.
    - left. inversion H; subst. auto.
  Qed.

  Lemma bind_values_padded : forall vs k, 4 <= pv -> (length vs + k = length names)%nat ->
    bind_values (vs ++ repeat BUnset k) = bind_values vs.
  Proof.
    intros vs k Hpv Hlen. unfold Bind.bind_values.
    rewrite app_length, repeat_length.
    destruct (Nat.ltb_spec (length names) (length vs + k)); [lia|].
    destruct (Nat.ltb_spec (length names) (length vs)); [lia|].
    destruct (Z.ltb_spec pv 4); [lia|]. cbn [andb].
    rewrite bind_loop_app, Nat.add_0_l, bind_loop_unsets by assumption.
    destruct (Z.leb_spec 4 pv); [|lia].
    replace (length names - (length vs + k))%nat with 0%nat by lia.
    replace (length names - length vs)%nat with k by lia.
    destruct (bind_loop 0 vs); [reflexivity|].
    destruct (fill_unset (length vs) k); [reflexivity|]. cbn [Bind.fill_unset]. rewrite app_nil_r. reflexivity.
  Qed.

  (* ------------------------------------------------------------------ C30_pos_eq_named *)
  Lemma pos_eq_named : forall vs, NoDup names -> (length vs <= length names)%nat ->
    (length vs = length names \/ 4 <= pv) ->
    bind (InDict (combine names vs)) = bind (InList vs).
  Proof.
    intros vs Hnd Hle Hc. cbn [Bind.bind]. rewrite dict_to_list_combine by assumption.
    destruct Hc as [Hc|Hc].
    - rewrite Hc, Nat.sub_diag. cbn [repeat]. rewrite app_nil_r. reflexivity.
    - apply bind_values_padded; [assumption|lia].
  Qed.

  Lemma extra_names_ignored : forall d k v, ~ In k names -> bind (InDict ((k, v) :: d)) = bind (InDict d).
  Proof. intros. cbn [Bind.bind]. rewrite dict_to_list_skip by assumption. reflexivity. Qed.

  (* ------------------------------------------------------------------ C30_unset_v4_only *)
  Lemma bind_one_unset : forall i v, bind_one i v = inr WUnset -> v = BUnset /\ 4 <= pv /\ is_rk i = false.
  Proof.
    intros i v H. destruct v; cbn [Bind.bind_one] in H; try discriminate.
    - destruct (Z.leb_spec 4 pv); [|discriminate]. unfold Bind.append_unset in H.
      destruct (is_rk i); [discriminate|]. auto.
    - destruct (ser i v); discriminate.
  Qed.

  Lemma unset_only_v4 : forall vs ws, pv < 4 -> bind_values vs = inr ws -> ~ In WUnset ws.
  Proof.
    intros vs ws Hpv H Hin. destruct (bind_values_ok _ _ H) as [_ [ws1 [Hl [[_ Heq]|[Hge _]]]]]; [|lia].
    subst. apply In_nth_error in Hin. destruct Hin as [k Hk].
    destruct (bind_loop_nth_inv _ _ _ _ _ Hl Hk) as [v [_ Hb]]. apply bind_one_unset in Hb. lia.
  Qed.

  Lemma unset_only_v4_input : forall inp ws, pv < 4 -> bind inp = inr ws -> ~ In WUnset ws.
  Proof.
    intros [vs|d] ws Hpv H; cbn [Bind.bind] in H; [eapply unset_only_v4; eauto|].
    destruct (dict_to_list d names); [discriminate|]. eapply unset_only_v4; eauto.
  Qed.

  Lemma short_list_v3 : forall vs ws, pv < 4 -> bind_values vs = inr ws -> length ws = length vs.
  Proof.
    intros vs ws Hpv H. destruct (bind_values_ok _ _ H) as [_ [ws1 [Hl [[_ Heq]|[Hge _]]]]]; [|lia].
    subst. eapply bind_loop_length; eauto.
  Qed.

  Lemma missing_trailing_unset_v4 : forall vs ws, 4 <= pv -> bind_values vs = inr ws ->
    length ws = length names /\
    forall k, (length vs <= k < length names)%nat -> nth_error ws k = Some WUnset.
  Proof.
    intros vs ws Hpv H. destruct (bind_values_ok _ _ H) as [Hle [ws1 [Hl [[Hlt _]|[_ [Heq _]]]]]]; [lia|].
    pose proof (bind_loop_length _ _ _ Hl) as Hlen. subst. split.
    - rewrite app_length, repeat_length. lia.
    - intros k Hk. rewrite nth_error_app2 by lia. rewrite Hlen.
      apply nth_error_repeat. lia.
  Qed.

  Lemma missing_name_unset_v4 : forall d ws k n, bind (InDict d) = inr ws ->
    nth_error names k = Some n -> dict_get d n = None -> 4 <= pv /\ nth_error ws k = Some WUnset.
  Proof.
    intros d ws k n H Hk Hg. cbn [Bind.bind] in H. destruct (dict_to_list d names) as [e|l] eqn:E; [discriminate|].
    destruct (dict_to_list_nth _ _ _ _ _ E Hk) as [Hn Hpv]. rewrite Hg in Hn. specialize (Hpv Hg). split; [assumption|].
    destruct (bind_values_ok _ _ H) as [Hle [ws1 [Hl [[Hlt _]|[_ [Heq _]]]]]]; [lia|].
    destruct (bind_loop_nth _ _ _ _ _ Hl Hn) as [w [Hw Hb]]. subst ws.
    rewrite nth_error_app1 by (apply nth_error_Some; congruence). rewrite Hw. f_equal.
    cbn [Bind.bind_one] in Hb. destruct (4 <=? pv); [|discriminate]. unfold Bind.append_unset in Hb.
    destruct (is_rk (0 + k)); [discriminate|]. inversion Hb. reflexivity.
  Qed.

  (* ------------------------------------------------------------------ C30_pk_unset_rejected *)
  Lemma no_unset_at_pk : forall vs ws k, bind_values vs = inr ws -> nth_error ws k = Some WUnset -> is_rk k = false.
  Proof.
    intros vs ws k H Hk. destruct (bind_values_ok _ _ H) as [Hle [ws1 [Hl [[_ Heq]|[_ [Heq Hf]]]]]]; subst.
    - destruct (bind_loop_nth_inv _ _ _ _ _ Hl Hk) as [v [_ Hb]]. apply bind_one_unset in Hb. tauto.
    - pose proof (bind_loop_length _ _ _ Hl) as Hlen.
      destruct (Nat.lt_ge_cases k (length ws1)) as [Hlt|Hge].
      + rewrite nth_error_app1 in Hk by assumption.
        destruct (bind_loop_nth_inv _ _ _ _ _ Hl Hk) as [v [_ Hb]]. apply bind_one_unset in Hb. tauto.
      + assert (k < length (ws1 ++ repeat WUnset (length names - length vs)))%nat as Hb
          by (apply nth_error_Some; congruence).
        rewrite app_length, repeat_length in Hb.
        replace k with (length vs + (k - length vs))%nat by lia. apply Hf. lia.
  Qed.

  Lemma is_rk_In : forall k, In k pk_idx -> is_rk k = true.
  Proof. intros k Hin. unfold Bind.is_rk. apply existsb_exists. exists k. split; [assumption|apply Nat.eqb_refl]. Qed.

  Lemma pk_unset_rejected_list : forall vs k, In k pk_idx -> (k < length names)%nat ->
    (nth_error vs k = Some BUnset \/ (4 <= pv /\ (length vs <= k)%nat)) -> exists e, bind_values vs = inl e.
  Proof.
    intros vs k Hin Hk Hc. destruct (bind_values vs) as [e|ws] eqn:E; [eauto|exfalso].
    apply is_rk_In in Hin. destruct Hc as [Hu|[Hpv Hlen]].
    - destruct (bind_values_ok _ _ E) as [Hle [ws1 [Hl _]]].
      destruct (bind_loop_nth _ _ _ _ _ Hl Hu) as [w [_ Hb]]. cbn [Bind.bind_one] in Hb.
      destruct (4 <=? pv); [|discriminate]. unfold Bind.append_unset in Hb. cbn [Nat.add] in Hb.
      rewrite Hin in Hb. discriminate.
    - destruct (missing_trailing_unset_v4 _ _ Hpv E) as [_ Hm]. specialize (Hm k (conj Hlen Hk)).
      apply (no_unset_at_pk _ _ _ E) in Hm. congruence.
  Qed.

  Lemma pk_unset_rejected_dict : forall d k n, In k pk_idx -> nth_error names k = Some n ->
    (dict_get d n = None \/ dict_get d n = Some BUnset) -> exists e, bind (InDict d) = inl e.
  Proof.
    intros d k n Hin Hk Hc. destruct (bind (InDict d)) as [e|ws] eqn:E; [eauto|exfalso].
    assert (nth_error ws k = Some WUnset) as Hu.
    { destruct Hc as [Hc|Hc]; [eapply missing_name_unset_v4; eauto|].
      cbn [Bind.bind] in E. destruct (dict_to_list d names) as [e|l] eqn:El; [discriminate|].
      destruct (dict_to_list_nth _ _ _ _ _ El Hk) as [Hn _]. rewrite Hc in Hn.
      destruct (bind_values_ok _ _ E) as [Hle [ws1 [Hl _]]].
      destruct (bind_loop_nth _ _ _ _ _ Hl Hn) as [w [_ Hb]]. cbn [Bind.bind_one] in Hb.
      apply is_rk_In in Hin. destruct (4 <=? pv); [|discriminate]. unfold Bind.append_unset in Hb.
      cbn [Nat.add] in Hb. rewrite Hin in Hb. discriminate. }
    cbn [Bind.bind] in E. destruct (dict_to_list d names); [discriminate|].
    apply (no_unset_at_pk _ _ _ E) in Hu. apply is_rk_In in Hin. congruence.
  Qed.

  Lemma unset_rejected_v3 : forall vs, pv < 4 -> In BUnset vs -> exists e, bind_values vs = inl e.
  Proof.
    intros vs Hpv Hin. destruct (bind_values vs) as [e|ws] eqn:E; [eauto|exfalso].
    destruct (bind_values_ok _ _ E) as [_ [ws1 [Hl _]]]. apply In_nth_error in Hin. destruct Hin as [k Hk].
    destruct (bind_loop_nth _ _ _ _ _ Hl Hk) as [w [_ Hb]]. cbn [Bind.bind_one] in Hb.
    destruct (Z.leb_spec 4 pv); [lia|discriminate].
  Qed.

  Lemma missing_name_rejected_v3 : forall d k n, pv < 4 -> nth_error names k = Some n -> dict_get d n = None ->
    exists e, bind (InDict d) = inl e.
  Proof.
    intros d k n Hpv Hk Hg. destruct (bind (InDict d)) as [e|ws] eqn:E; [eauto|exfalso].
    destruct (missing_name_unset_v4 _ _ _ _ E Hk Hg). lia.
  Qed.

  (* ------------------------------------------------------------------ C30_extra_rejected *)
  Lemma extra_rejected : forall vs, (length names < length vs)%nat -> bind (InList vs) = inl ETooMany.
  Proof.
    intros vs H. cbn [Bind.bind]. unfold Bind.bind_values. destruct (Nat.ltb_spec (length names) (length vs)); [reflexivity|lia].
  Qed.

  (* ------------------------------------------------------------------ values are the serialized inputs *)
  Definition pk_component (vs : list (bval V)) (i : nat) (b : list Z) : Prop :=
    exists v, nth_error vs i = Some (BVal v) /\ ser i v = Some b.

  Lemma values_serialized : forall vs ws k b, bind_values vs = inr ws ->
    (nth_error ws k = Some (WBytes b) <-> pk_component vs k b).
  Proof.
    intros vs ws k b H. destruct (bind_values_ok _ _ H) as [Hle [ws1 [Hl Hc]]].
    pose proof (bind_loop_length _ _ _ Hl) as Hlen. split.
    - intros Hk. assert (nth_error ws1 k = Some (WBytes b)) as Hk1.
      { destruct Hc as [[_ Heq]|[_ [Heq _]]]; subst; [assumption|].
        destruct (Nat.lt_ge_cases k (length ws1)); [rewrite nth_error_app1 in Hk; assumption|].
        rewrite nth_error_app2 in Hk by assumption. apply nth_error_In, repeat_spec in Hk. discriminate. }
      destruct (bind_loop_nth_inv _ _ _ _ _ Hl Hk1) as [v [Hv Hb]]. cbn [Nat.add] in Hb.
      destruct v; cbn [Bind.bind_one] in Hb.
      + discriminate.
      + destruct (4 <=? pv); [|discriminate]. unfold Bind.append_unset in Hb. destruct (is_rk k); discriminate.
      + exists v. destruct (ser k v); [|discriminate]. inversion Hb; subst. auto.
    - intros [v [Hv Hs]]. destruct (bind_loop_nth _ _ _ _ _ Hl Hv) as [w [Hw Hb]]. cbn [Nat.add Bind.bind_one] in Hb.
      rewrite Hs in Hb. inversion Hb; subst.
      destruct Hc as [[_ Heq]|[_ [Heq _]]]; subst; [assumption|].
      rewrite nth_error_app1 by (apply nth_error_Some; congruence). assumption.
  Qed.

  (* ------------------------------------------------------------------ routing key = Cassandra's composite encoding *)
  Lemma u16_bytes : forall l, 0 <= l < 65536 -> [Z.land (Z.shiftr l 8) 255; Z.land l 255] = u16_be l.
  Proof.
    intros l Hl. unfold u16_be. change 255 with (Z.ones 8).
    rewrite !Z.land_ones by lia. rewrite Z.shiftr_div_pow2 by lia. change (2 ^ 8) with 256.
    f_equal. apply Z.mod_small. split; [apply Z.div_pos; lia|apply Z.div_lt_upper_bound; lia].
  Qed.

  Lemma key_part_spec : forall ws i p, key_part ws i = Some p <->
    exists b, nth_error ws i = Some (WBytes b) /\ component_ok b = true /\ p = composite_component b.
  Proof.
    intros ws i p. unfold key_part, component_ok, composite_component. split.
    - intros H. destruct (nth_error ws i) as [[| |b]|]; try discriminate.
      destruct (Z.ltb_spec (Z.of_nat (length b)) 65536); [|discriminate]. inversion H; subst.
      exists b. split; [reflexivity|]. split; [apply Z.ltb_lt; assumption|].
      change ([?a; ?c] ++ ?r) with (a :: c :: r). rewrite <- u16_bytes by lia. reflexivity.
    - intros [b [Hn [Hok Hp]]]. rewrite Hn. rewrite Hok. subst. f_equal.
      apply Z.ltb_lt in Hok. rewrite <- u16_bytes by lia. reflexivity.
  Qed.

  Definition at_bytes (ws : list wval) (i : nat) (b : list Z) : Prop := nth_error ws i = Some (WBytes b).

  Lemma key_parts_spec : forall ws idx parts, map_opt (key_part ws) idx = Some parts <->
    exists bs, Forall2 (at_bytes ws) idx bs /\ forallb component_ok bs = true /\ parts = map composite_component bs.
  Proof.
    intros ws idx. induction idx as [|i idx IH]; intros parts.
    - cbn [map_opt]. split.
      + intros H. inversion H. exists []. repeat split. constructor.
      + intros [bs [H [_ Hp]]]. inversion H; subst. reflexivity.
    - rewrite map_opt_Forall2. split.
      + intros H. inversion H as [|? ? ? ? Hk Hr]; subst. apply map_opt_Forall2, IH in Hr.
        destruct Hr as [bs [Hf [Hok Hp]]]. apply key_part_spec in Hk. destruct Hk as [b [Hn [Hb Hy]]].
        exists (b :: bs). split; [constructor; assumption|]. split; [cbn; rewrite Hb, Hok; reflexivity|].
        subst. reflexivity.
      + intros [bs [Hf [Hok Hp]]]. inversion Hf as [|? b ? bs' Hn Hr]; subst. cbn [forallb] in Hok.
        apply andb_prop in Hok. destruct Hok as [Hb Hok]. cbn [map]. constructor.
        * apply key_part_spec. eauto.
        * apply map_opt_Forall2, IH. eauto.
  Qed.

  Lemma composite_spec_multi : forall bs, (2 <= length bs)%nat ->
    composite_spec bs = concat (map composite_component bs).
  Proof. intros [|a [|b r]] H; cbn in H; try lia. reflexivity. Qed.

  Lemma routing_key_complete : forall ws bs, pk_idx <> [] -> Forall2 (at_bytes ws) pk_idx bs ->
    forallb component_ok bs = true \/ length pk_idx = 1%nat ->
    routing_key ws = RkBytes (composite_spec bs).
  Proof.
    intros ws bs Hne Hf Hok. unfold Bind.routing_key. destruct pk_idx as [|i [|j idx]] eqn:Ei; [congruence| |].
    - inversion Hf as [|? b ? ? Hn Hr]; subst. inversion Hr; subst. unfold at_bytes in Hn. rewrite Hn. reflexivity.
    - destruct Hok as [Hok|Hok]; [|cbn in Hok; lia].
      assert (map_opt (key_part ws) (i :: j :: idx) = Some (map composite_component bs)) as Hm
        by (apply key_parts_spec; eauto).
      rewrite Hm. rewrite composite_spec_multi; [reflexivity|].
      apply Forall2_len in Hf. cbn in Hf. lia.
  Qed.

  Lemma routing_key_sound : forall ws rk, routing_key ws = RkBytes rk ->
    exists bs, Forall2 (at_bytes ws) pk_idx bs /\ rk = composite_spec bs.
  Proof.
    intros ws rk H. unfold Bind.routing_key in H. destruct pk_idx as [|i [|j idx]] eqn:Ei; [discriminate| |].
    - destruct (nth_error ws i) as [[| |b]|] eqn:En; try discriminate. injection H as Hb.
      exists [b]. split; [repeat constructor; exact En|subst; reflexivity].
    - destruct (map_opt (key_part ws) (i :: j :: idx)) as [parts|] eqn:Em; [|discriminate]. inversion H; subst.
      apply key_parts_spec in Em. destruct Em as [bs [Hf [_ Hp]]]. exists bs. split; [assumption|].
      subst. rewrite composite_spec_multi; [reflexivity|]. apply Forall2_len in Hf. cbn in Hf. lia.
  Qed.

  Lemma Forall2_impl2 : forall {A B} (P Q : A -> B -> Prop) l r, (forall a b, P a b -> Q a b) -> Forall2 P l r -> Forall2 Q l r.
  Proof. intros A B P Q l r HPQ H. induction H; constructor; auto. Qed.

  Lemma routing_key_of_bind : forall vs ws bs, bind_values vs = inr ws -> pk_idx <> [] ->
    Forall2 (pk_component vs) pk_idx bs ->
    forallb component_ok bs = true \/ length pk_idx = 1%nat ->
    routing_key ws = RkBytes (composite_spec bs).
  Proof.
    intros vs ws bs H Hne Hf Hok. apply routing_key_complete; [assumption| |assumption].
    eapply Forall2_impl2; [|exact Hf]. intros i b Hc. apply (values_serialized _ _ i b H). exact Hc.
  Qed.

  Lemma routing_key_never_wrong : forall vs ws rk, bind_values vs = inr ws -> routing_key ws = RkBytes rk ->
    exists bs, Forall2 (pk_component vs) pk_idx bs /\ rk = composite_spec bs.
  Proof.
    intros vs ws rk H Hr. destruct (routing_key_sound _ _ Hr) as [bs [Hf Heq]]. exists bs. split; [|assumption].
    eapply Forall2_impl2; [|exact Hf]. intros i b Hc. apply (values_serialized _ _ i b H). exact Hc.
  Qed.
End BindProofs.

(* ------------------------------------------------------------------ from_message *)
Lemma last_index_from_spec : forall n ns s acc i, last_index_from n ns s acc = Some i ->
  acc = Some i \/ exists k, i = (s + k)%nat /\ nth_error ns k = Some n.
Proof.
  intros n ns. induction ns as [|m ns IH]; intros s acc i H; cbn [last_index_from] in H; [left; assumption|].
  apply IH in H. destruct H as [H|[k [Hi Hk]]].
  - destruct (Z.eqb_spec m n); [|left; assumption]. inversion H; subst. right. exists 0%nat.
    split; [lia|reflexivity].
  - right. exists (S k). split; [lia|exact Hk].
Qed.

Lemma last_index_from_found : forall n ns s acc, In n ns -> exists i, last_index_from n ns s acc = Some i.
Proof.
  intros n ns. induction ns as [|m ns IH]; intros s acc Hin; [destruct Hin|]. cbn [last_index_from].
  destruct Hin as [Heq|Hin]; [|apply IH; assumption]. subst. rewrite Z.eqb_refl.
  clear IH. generalize (S s) as s'. generalize s. induction ns as [|m ns IH]; intros s0 s'; cbn [last_index_from]; [eauto|].
  destruct (m =? n); apply IH.
Qed.

Lemma statement_index_spec : forall ns n i, statement_index ns n = Some i -> nth_error ns i = Some n.
Proof.
  intros ns n i H. apply last_index_from_spec in H. destruct H as [H|[k [Hi Hk]]]; [discriminate|]. subst. exact Hk.
Qed.

Lemma derive_indexes_table : forall ns pkn l, derive_indexes ns [] (Some pkn) = l -> l <> [] ->
  Forall2 (fun i n => nth_error ns i = Some n) l pkn.
Proof.
  intros ns pkn l H Hne. unfold derive_indexes in H. destruct ns as [|n0 ns]; [congruence|].
  destruct (map_opt (statement_index (n0 :: ns)) pkn) as [l'|] eqn:Em; [|congruence]. subst.
  apply map_opt_Forall2 in Em. clear Hne. induction Em; constructor; auto. apply statement_index_spec. assumption.
Qed.

Lemma derive_indexes_complete : forall ns pkn, ns <> [] -> (forall n, In n pkn -> In n ns) ->
  length (derive_indexes ns [] (Some pkn)) = length pkn.
Proof.
  intros ns pkn Hne Hall. unfold derive_indexes. destruct ns as [|n0 ns]; [congruence|].
  assert (exists l, map_opt (statement_index (n0 :: ns)) pkn = Some l) as [l Hl].
  { induction pkn as [|p pkn IH]; [exists []; reflexivity|]. cbn [map_opt].
    destruct (last_index_from_found p (n0 :: ns) 0%nat None (Hall p (or_introl eq_refl))) as [i Hi].
    unfold statement_index at 1. rewrite Hi. destruct IH as [l Hl]; [intros; apply Hall; right; assumption|].
    rewrite Hl. eauto. }
  rewrite Hl. apply map_opt_Forall2, Forall2_len in Hl. lia.
Qed.

Lemma derive_indexes_server : forall ns i idx tpk, ns <> [] -> derive_indexes ns (i :: idx) tpk = i :: idx.
Proof. intros [|n ns] i idx tpk H; [congruence|reflexivity]. Qed.
