From Coq Require Import ZArith List Bool Lia.
From Verif Require Import Options.
Import ListNotations.
Local Open Scope Z_scope.

(* the resolved (statement-independent of message kind) options *)
Definition eff_cl m st pr se := match s_cl st with Some v => v | None => match m with Legacy => d_cl se | Profiles => p_cl pr end end.
Definition eff_serial m st pr se := match s_serial st with Some v => Some v | None => match m with Legacy => d_serial se | Profiles => p_serial pr end end.
Definition eff_retry m st pr se := match s_retry st with Some v => v | None => match m with Legacy => d_retry se | Profiles => p_retry pr end end.
Definition eff_timeout m t pr se := match t with TSet v => v | TNotSet => match m with Legacy => d_timeout se | Profiles => p_timeout pr end end.

Lemma effective_some m k st pr se t pg pv : (k = Batch -> 2 <= pv) -> exists f, effective m k st pr se t pg pv = Some f.
Proof.
  intros H. destruct k; cbn; eauto. destruct (pv <? 2) eqn:E; eauto. specialize (H eq_refl). lia.
Qed.

Lemma effective_common m k st pr se t pg pv f : effective m k st pr se t pg pv = Some f ->
  m_cl f = eff_cl m st pr se /\ m_serial f = eff_serial m st pr se /\ f_retry f = eff_retry m st pr se
  /\ f_timeout f = eff_timeout m t pr se
  /\ f_rowf f = match m with Legacy => d_rowf se | Profiles => p_rowf pr end
  /\ f_lbp f = match m with Legacy => d_lbp se | Profiles => p_lbp pr end
  /\ m_ts f = (if (3 <=? pv) && d_use_ts se then Some (d_ts se) else None).
Proof.
  destruct k; cbn; [| |destruct (pv <? 2); [discriminate|]]; intros H; inversion H; subst; cbn; repeat split.
Qed.

Lemma effective_fetch m k st pr se t pg pv f : effective m k st pr se t pg pv = Some f -> k <> Batch ->
  m_fetch f = match s_fetch st with
              | FUnset => if 2 <=? pv then d_fetch se else None
              | FSet v => if pv =? 1 then None else v
              end
  /\ m_paging f = pg.
Proof. destruct k; cbn; intros H N; try congruence; inversion H; subst; cbn; split; reflexivity. Qed.

Lemma effective_keyspace m k st pr se t pg pv f : effective m k st pr se t pg pv = Some f ->
  m_keyspace f = match k with Bound => None | _ => if uses_keyspace_flag pv then s_keyspace st else None end.
Proof. destruct k; cbn; [| |destruct (pv <? 2); [discriminate|]]; intros H; inversion H; subst; reflexivity. Qed.

Lemma effective_spec m k st pr se t pg pv f : effective m k st pr se t pg pv = Some f ->
  f_spec f = match m with
             | Legacy => None
             | Profiles => if s_idem st then Some (p_spec pr, or_else (s_keyspace st) (d_keyspace se)) else None
             end.
Proof. destruct k, m; cbn; try (destruct (pv <? 2); [discriminate|]); intros H; inversion H; subst; reflexivity. Qed.
