(* C06: every single-bit flip of an encoded segment is reported as a CRC mismatch, whatever the chunking. *)
From Coq Require Import ZArith List Bool Lia.
From Verif Require Import Crc Stream Segment Crc_proofs C05_proofs Seg_bytes C06_proofs.
Import ListNotations.
Local Open Scope Z_scope.

Lemma flip_bit_app_l : forall a b k, (k < 8 * length a)%nat -> flip_bit k (a ++ b) = flip_bit k a ++ b.
Proof.
  induction a as [|x a IH]; intros b k H; [simpl in H; lia|].
  simpl. destruct (k <? 8)%nat eqn:E; [reflexivity|]. apply Nat.ltb_ge in E.
  simpl. f_equal. apply IH. simpl in H. lia.
Qed.

Lemma flip_bit_app_r : forall a b k, (8 * length a <= k)%nat -> flip_bit k (a ++ b) = a ++ flip_bit (k - 8 * length a) b.
Proof.
  induction a as [|x a IH]; intros b k H.
  - simpl. rewrite Nat.sub_0_r. reflexivity.
  - simpl length in *. simpl app. simpl flip_bit.
    assert (E : (k <? 8)%nat = false) by (apply Nat.ltb_ge; lia). rewrite E.
    f_equal. rewrite IH by lia. f_equal. f_equal. lia.
Qed.

Lemma pow2_small : forall k : nat, (k < 8)%nat -> 0 < 2 ^ Z.of_nat k < 2 ^ 8.
Proof. intros. split; [apply Z.pow_pos_nonneg; lia|apply Z.pow_lt_mono_r; lia]. Qed.

Lemma lxor_pow2_ne : forall x k, 0 <= k -> Z.lxor x (2 ^ k) <> x.
Proof.
  intros x k Hk E. assert (H : 2 ^ k = 0).
  { apply (lxor_cancel_l _ _ x). rewrite E. symmetry. apply Z.lxor_0_r. }
  pose proof (Z.pow_pos_nonneg 2 k). lia.
Qed.

Lemma flip_bit_split : forall l k, (k < 8 * length l)%nat -> Forall byte_ok l ->
  exists pre b post b', l = pre ++ b :: post /\ flip_bit k l = pre ++ b' :: post /\ b <> b' /\ byte_ok b /\ byte_ok b'.
Proof.
  induction l as [|x l IH]; intros k Hk Hb; [simpl in Hk; lia|].
  inversion Hb; subst. simpl flip_bit. destruct (k <? 8)%nat eqn:E.
  - apply Nat.ltb_lt in E. exists [], x, l, (Z.lxor x (2 ^ Z.of_nat k)).
    pose proof (pow2_small k E) as Hp.
    assert (Hb' : byte_ok (Z.lxor x (2 ^ Z.of_nat k))).
    { unfold byte_ok in *. change 256 with (2 ^ 8). apply (lxor_range 8); [lia|change (2 ^ 8) with 256; lia|lia]. }
    split; [reflexivity|]. split; [reflexivity|]. split; [|split; assumption].
    intro F. symmetry in F. revert F. apply lxor_pow2_ne. lia.
  - apply Nat.ltb_ge in E. destruct (IH (k - 8)%nat) as (pre & b & post & b' & A & B & C & D1 & D2); [simpl in Hk; lia|assumption|].
    exists (x :: pre), b, post, b'. simpl. rewrite <- A, B. auto.
Qed.

Lemma le_val_flip_ne : forall bs k, (k < 8 * length bs)%nat -> le_val (flip_bit k bs) <> le_val bs.
Proof. intros bs k H. rewrite le_val_flip by assumption. apply lxor_pow2_ne. lia. Qed.

Lemma app_prefix_long : forall (q x a b : list Z), q ++ x = a ++ b -> (length a <= length q)%nat -> exists l, q = a ++ l /\ l ++ x = b.
Proof.
  intros q x a b H Hl. apply app_eq_app in H. destruct H as [l [[A B]|[A B]]].
  - exists l. auto.
  - assert (l = []). { apply (f_equal (@length Z)) in A. rewrite app_length in A. destruct l; [reflexivity|simpl in A; lia]. }
    subst l. rewrite app_nil_r in A. subst a. exists []. rewrite app_nil_r. auto.
Qed.

Section Flip.
  Variable compression : bool.
  Variable compress : list Z -> list Z.
  Variable decompress : list Z -> Z -> list Z.
  Hypothesis decompress_compress : forall x, decompress (compress x) (blen x) = x.
  Hypothesis compress_bytes : forall x, Forall byte_ok x -> Forall byte_ok (compress x).

  Notation parse_seg := (parse_seg compression decompress).
  Notation encode_segment := (encode_segment compression compress).
  Notation hlc := (hlc compression).

  Definition hl : nat := if compression then 5%nat else 3%nat.

  Lemma parse_seg_short : forall q, (length q < hlc)%nat -> parse_seg q = SNeed.
  Proof.
    intros q H. unfold Segment.parse_seg. cbv zeta. unfold header_length_with_crc, header_length, CRC24_LENGTH.
    assert (E : blen q <? (if compression then 5 else 3) + 3 = true).
    { apply Z.ltb_lt. unfold blen, C06_proofs.hlc in *. destruct compression; lia. }
    rewrite E. reflexivity.
  Qed.

  Lemma parse_seg_bad_header : forall HD C3 rest, length HD = hl -> length C3 = 3%nat ->
    compute_crc24 (le_val HD) hl <> le_val C3 -> parse_seg (HD ++ C3 ++ rest) = SBad.
  Proof.
    intros HD C3 rest H1 H2 Hne. unfold Segment.parse_seg. cbv zeta.
    unfold header_length_with_crc, header_length, CRC24_LENGTH. unfold hl in *.
    assert (E : blen (HD ++ C3 ++ rest) <? (if compression then 5 else 3) + 3 = false).
    { apply Z.ltb_ge. unfold blen. rewrite !app_length. destruct compression; lia. }
    rewrite E.
    replace (Z.to_nat (if compression then 5 else 3)) with (if compression then 5%nat else 3%nat) by (destruct compression; reflexivity).
    rewrite (firstn_exact _ HD) by assumption. rewrite (skipn_exact _ HD) by assumption.
    rewrite (firstn_exact 3 C3) by assumption.
    assert (E2 : compute_crc24 (le_val HD) (if compression then 5%nat else 3%nat) =? le_val C3 = false) by (apply Z.eqb_neq; assumption).
    rewrite E2. reflexivity.
  Qed.

  Lemma header_split : forall pl ul sc, 0 <= pl <= MAX_PAYLOAD_LENGTH -> 0 <= ul <= MAX_PAYLOAD_LENGTH ->
    exists hd, 0 <= hd /\
      encode_header compression pl ul sc = le_bytes hl hd ++ le_bytes 3 (compute_crc24 hd hl) /\
      le_val (le_bytes hl hd) = hd /\ le_val (le_bytes 3 (compute_crc24 hd hl)) = compute_crc24 hd hl.
  Proof.
    intros pl ul sc Hp Hu. unfold MAX_PAYLOAD_LENGTH in *. exists (header_data compression pl ul sc).
    unfold encode_header, header_length, hl.
    assert (Hc : forall hd n, le_val (le_bytes 3 (compute_crc24 hd n)) = compute_crc24 hd n).
    { intros. apply le_val_le_bytes. change (256 ^ Z.of_nat 3) with (2 ^ 24). apply crc24_range. }
    destruct compression.
    - destruct (header_compressed pl ul sc Hp Hu) as (Hhd & _). cbv zeta in Hhd.
      change (Z.to_nat 5) with 5%nat. repeat split; auto; try lia. apply le_val_le_bytes. exact Hhd.
    - destruct (header_plain pl ul sc Hp) as (Hhd & _). cbv zeta in Hhd.
      change (Z.to_nat 3) with 3%nat. repeat split; auto; try lia. apply le_val_le_bytes. exact Hhd.
  Qed.

  Lemma hl_cases : (hl = 3 \/ hl = 5)%nat.
  Proof. unfold hl. destruct compression; auto. Qed.

  Lemma hlc_hl : hlc = (hl + 3)%nat.
  Proof. unfold C06_proofs.hlc, hl. destruct compression; reflexivity. Qed.

  (* no prefix of a stream that starts with a corrupted segment is ever accepted *)
  Lemma doomed : forall p sc k more q x, seg_ok p -> (k < 8 * length (encode_segment p sc))%nat ->
    q ++ x = flip_bit k (encode_segment p sc) ++ more ->
    parse_seg q = SBad \/ (parse_seg q = SNeed /\ (length q < length (encode_segment p sc))%nat).
  Proof.
    intros p sc k more q x Hok Hk Hq.
    pose proof (encoded_payload_facts compression compress decompress decompress_compress compress_bytes p Hok) as Hf.
    pose proof (encode_segment_shape compression compress p sc) as Hs.
    pose proof (encode_segment_length compression compress decompress decompress_compress compress_bytes p sc) as Hlen.
    destruct (encoded_payload compression compress p) as [enc ul]. destruct Hf as (Hb & Hl & Hu & Hbody). simpl fst in Hlen.
    rewrite Hs in Hq. rewrite Hlen in *. clear Hs.
    destruct (Nat.lt_ge_cases (length q) hlc) as [Hshort|Hlong].
    { right. split; [apply parse_seg_short; assumption|lia]. }
    destruct (header_split (blen enc) ul sc Hl Hu) as (hd & Hhd0 & HH & Hv1 & Hv2).
    pose proof (encode_header_length compression (blen enc) ul sc) as HHlen.
    set (C4 := le_bytes 4 (compute_crc32 enc CRC32_INITIAL)) in *.
    assert (HC4 : length C4 = 4%nat) by apply le_bytes_length.
    assert (Hcrc4 : le_val C4 = compute_crc32 enc CRC32_INITIAL).
    { apply le_val_le_bytes. apply (crc32_fits enc Hb). }
    destruct (Nat.lt_ge_cases k (8 * hlc)) as [Khead|Kbody].
    - (* the flipped bit is in the header or its crc24 *)
      left. rewrite flip_bit_app_l in Hq by (rewrite HHlen; assumption).
      rewrite <- app_assoc in Hq.
      destruct (app_prefix_long q x _ _ Hq) as (l & Hql & _). { rewrite flip_bit_length, HHlen. assumption. }
      subst q. rewrite HH. rewrite hlc_hl in *.
      destruct (Nat.lt_ge_cases k (8 * hl)) as [K1|K2].
      + rewrite flip_bit_app_l by (rewrite le_bytes_length; assumption). rewrite <- app_assoc.
        apply parse_seg_bad_header; [rewrite flip_bit_length; apply le_bytes_length|apply le_bytes_length|].
        rewrite le_val_flip by (rewrite le_bytes_length; assumption). rewrite Hv1, Hv2.
        apply crc24_flip; [exact hl_cases|assumption|lia].
      + rewrite flip_bit_app_r by (rewrite le_bytes_length; assumption). rewrite <- app_assoc. rewrite le_bytes_length.
        apply parse_seg_bad_header; [apply le_bytes_length|rewrite flip_bit_length; apply le_bytes_length|].
        rewrite Hv1. intro E. symmetry in E. revert E. rewrite <- Hv2 at 2. apply le_val_flip_ne. rewrite le_bytes_length. lia.
    - (* the flipped bit is in the payload or its crc32 *)
      rewrite flip_bit_app_r in Hq by (rewrite HHlen; assumption). rewrite HHlen in Hq.
      rewrite <- app_assoc in Hq.
      destruct (app_prefix_long q x _ _ Hq) as (l & Hql & Hlx). { rewrite HHlen. assumption. }
      subst q. rewrite (parse_seg_header compression compress decompress decompress_compress compress_bytes) by assumption.
      destruct (blen l <? blen enc + 4) eqn:El.
      + right. split; [reflexivity|]. rewrite app_length, HHlen. apply Z.ltb_lt in El. unfold blen in El. lia.
      + left. apply Z.ltb_ge in El. cbv zeta.
        set (k' := (k - 8 * hlc)%nat) in *.
        assert (Hk' : (k' < 8 * (length enc + 4))%nat) by (unfold k'; lia).
        destruct (app_prefix_long l x _ _ Hlx) as (l2 & Hl2 & _).
        { rewrite flip_bit_length, app_length, HC4. unfold blen in El. lia. }
        replace (Z.to_nat (blen enc)) with (length enc) by (unfold blen; symmetry; apply Nat2Z.id).
        destruct (Nat.lt_ge_cases k' (8 * length enc)) as [K1|K2].
        * rewrite flip_bit_app_l in Hl2 by assumption. subst l. rewrite <- app_assoc.
          rewrite (firstn_exact (length enc)) by apply flip_bit_length.
          rewrite (skipn_exact (length enc)) by apply flip_bit_length.
          rewrite (firstn_exact 4) by assumption. rewrite Hcrc4.
          destruct (flip_bit_split enc k' K1 Hb) as (pre & b & post & b' & A & B & C & D1 & D2).
          assert (Hpre : Forall byte_ok pre /\ Forall byte_ok post).
          { rewrite A in Hb. apply Forall_app in Hb. destruct Hb as [Hb1 Hb2]. inversion Hb2; subst. auto. }
          assert (E : compute_crc32 (flip_bit k' enc) CRC32_INITIAL =? compute_crc32 enc CRC32_INITIAL = false).
          { apply Z.eqb_neq. rewrite B. rewrite A. unfold compute_crc32. intro F. symmetry in F. revert F.
            apply crc32_detects; try tauto; try assumption. exact crc32_initial_range. }
          rewrite E. reflexivity.
        * rewrite flip_bit_app_r in Hl2 by assumption. subst l. rewrite <- app_assoc.
          rewrite (firstn_exact (length enc)) by reflexivity.
          rewrite (skipn_exact (length enc)) by reflexivity.
          rewrite (firstn_exact 4) by (rewrite flip_bit_length; assumption).
          assert (E : compute_crc32 enc CRC32_INITIAL =? le_val (flip_bit (k' - 8 * length enc) C4) = false).
          { apply Z.eqb_neq. rewrite <- Hcrc4. intro F. symmetry in F. revert F. apply le_val_flip_ne. rewrite HC4. lia. }
          rewrite E. reflexivity.
  Qed.

  Notation cloop := (cloop compression decompress).
  Notation cfeed := (cfeed compression decompress).
  Notation run_cfeed := (run_cfeed compression decompress).

  Lemma run_dead : forall chunks, run_cfeed CDead chunks = (CDead, []).
  Proof. induction chunks as [|c cs IH]; [reflexivity|]. simpl. rewrite IH. reflexivity. Qed.

  Lemma run_cons : forall st c cs,
    run_cfeed st (c :: cs) = let '(st1, e1) := cfeed st c in let '(st2, e2) := run_cfeed st1 cs in (st2, e1 ++ e2).
  Proof. reflexivity. Qed.

  Lemma cloop_nonempty : forall f io fb c, io <> [] -> parse_seg io = SNeed -> cloop (S f) io fb c = (CLive io fb false, []).
  Proof. intros f io fb c H E. destruct io; [congruence|]. simpl. rewrite E. reflexivity. Qed.

  Lemma cloop_nonempty_bad : forall f io fb c, io <> [] -> parse_seg io = SBad -> cloop (S f) io fb c = (CDead, [Defunct R_CRC]).
  Proof. intros f io fb c H E. destruct io; [congruence|]. simpl. rewrite E. reflexivity. Qed.

  Lemma cloop_empty : forall f fb c, parse1 fb = NeedMore -> cloop (S f) [] fb c = (CLive [] fb c, []).
  Proof. intros f fb c H. simpl. destruct c; [|reflexivity]. rewrite (parse_all_needmore _ H). reflexivity. Qed.

  Lemma run_doomed : forall (T : list Z) (n : nat) chunks io fb c,
    (forall q x, q ++ x = T -> parse_seg q = SBad \/ (parse_seg q = SNeed /\ (length q < n)%nat)) ->
    parse1 fb = NeedMore ->
    (io = [] \/ parse_seg io = SNeed) ->
    io ++ concat chunks = T ->
    run_cfeed (CLive io fb c) chunks = (CDead, [Defunct R_CRC]) \/
    (exists c', run_cfeed (CLive io fb c) chunks = (CLive T fb c', [])) /\ (T = [] \/ parse_seg T = SNeed).
  Proof.
    intros T n chunks. induction chunks as [|c0 cs IH]; intros io fb c Hd Hfb Hio HT.
    - simpl in HT. rewrite app_nil_r in HT. subst io. right. split; [exists c; reflexivity|assumption].
    - simpl in HT. rewrite app_assoc in HT. rewrite run_cons.
      change (cfeed (CLive io fb c) c0) with (cloop (S (length (io ++ c0))) (io ++ c0) fb c).
      destruct (io ++ c0) as [|z l] eqn:E.
      + rewrite cloop_empty by assumption.
        destruct (IH [] fb c Hd Hfb (or_introl eq_refl) HT) as [A|[(c' & A) B]].
        * left. rewrite A. reflexivity.
        * right. split; [exists c'; rewrite A; reflexivity|assumption].
      + assert (Hne : z :: l <> []) by discriminate.
        destruct (Hd (z :: l) (concat cs) HT) as [Bad|[Need _]].
        * left. rewrite (cloop_nonempty_bad _ _ _ _ Hne Bad). rewrite run_dead. reflexivity.
        * rewrite (cloop_nonempty _ _ _ _ Hne Need).
          destruct (IH (z :: l) fb false Hd Hfb (or_intror Need) HT) as [A|[(c' & A) B]].
          -- left. rewrite A. reflexivity.
          -- right. split; [exists c'; rewrite A; reflexivity|assumption].
  Qed.

  (* a connection idle at a frame boundary receives, in any chunking, a stream that starts with a segment with one flipped bit *)
  Theorem flip_detected : forall p sc k more chunks fb c,
    seg_ok p -> (k < 8 * length (encode_segment p sc))%nat -> parse1 fb = NeedMore ->
    concat chunks = flip_bit k (encode_segment p sc) ++ more ->
    run_cfeed (CLive [] fb c) chunks = (CDead, [Defunct R_CRC]).
  Proof.
    intros p sc k more chunks fb c Hok Hk Hfb Hc.
    set (T := flip_bit k (encode_segment p sc) ++ more) in *.
    assert (Hd : forall q x, q ++ x = T -> parse_seg q = SBad \/ (parse_seg q = SNeed /\ (length q < length (encode_segment p sc))%nat)).
    { intros q x Hq. eapply doomed; eassumption. }
    destruct (run_doomed T _ chunks [] fb c Hd Hfb (or_introl eq_refl) Hc) as [A|[_ B]]; [exact A|exfalso].
    assert (HT : (length (encode_segment p sc) <= length T)%nat) by (unfold T; rewrite app_length, flip_bit_length; lia).
    destruct B as [B|B].
    - rewrite B in HT. simpl in HT. lia.
    - destruct (Hd T [] (app_nil_r T)) as [Bad|[_ Hlt]]; [congruence|lia].
  Qed.
End Flip.
