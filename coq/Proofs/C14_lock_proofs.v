From Coq Require Import List Bool Arith Lia.
From Verif Require Import FutureCbLock.
Import ListNotations.

Definition LkInv (s : lstate) : Prop :=
  (lfinal s = false -> ltotal s = 0) /\
  (lfinal s = true -> lreg s = true -> ltotal s = 1) /\
  (lfinal s = true -> lreg s = false -> ltotal s = 0) /\
  (lreg s = false <-> lpc s = AIdle) /\
  lpc s <> AUndecided.

Lemma LkInv_init : LkInv linit.
Proof. unfold LkInv, ltotal; cbn. repeat split; intros; try reflexivity; try discriminate. Qed.

Ltac spec_hyps := repeat match goal with
  | H : ?a = ?a -> _ |- _ => specialize (H eq_refl)
  | H : true = false -> _ |- _ => clear H
  | H : false = true -> _ |- _ => clear H
  end.

Lemma LkInv_step s o : LkInv s -> LkInv (lstep true s o).
Proof.
  destruct s as [f r p pc n]. unfold LkInv, ltotal. cbn [lfinal lreg lpend lpc lruns].
  intros (I1 & I2 & I3 & (I4 & I4') & I5).
  destruct o, f, r, pc as [|[|]| |]; try destruct p as [|p]; cbn in *; spec_hyps;
    try discriminate; try (exfalso; congruence);
    repeat split; intros; try discriminate; try congruence; try lia.
Qed.

Lemma LkInv_run : forall h s, LkInv s -> LkInv (fold_left (lstep true) h s).
Proof. induction h as [|o h IH]; intros s H; [exact H|]. cbn. apply IH, LkInv_step, H. Qed.

Lemma lock_protocol_once h :
  let s := lrun true h in
  lruns s <= 1 /\ (lfinal s = true -> lpc s = ADone -> lpend s = 0 -> lruns s = 1) /\ (lfinal s = false -> lruns s = 0).
Proof.
  intros s. destruct (LkInv_run h linit LkInv_init) as (I1 & I2 & I3 & (I4 & I4') & I5). fold (lrun true h) in *. fold s in I1, I2, I3, I4, I4', I5.
  unfold ltotal in *. repeat split.
  - destruct (lfinal s) eqn:Ef; [destruct (lreg s) eqn:Er|].
    + specialize (I2 eq_refl eq_refl). lia.
    + specialize (I3 eq_refl eq_refl). lia.
    + specialize (I1 eq_refl). lia.
  - intros Hf Hpc Hp. destruct (lreg s) eqn:Er.
    + specialize (I2 Hf eq_refl). rewrite Hpc, Hp in I2. lia.
    + specialize (I4 eq_refl). congruence.
  - intros Hf. specialize (I1 Hf). lia.
Qed.
