(* T-layer for cassandra/util.py (C34): laws of the GENERATED Time field arithmetic and of the integer tail of
   uuid_from_time (Gen/UtilTimeGen.v, regenerated from the working tree on every run). *)
From Coq Require Import ZArith List Bool Lia ZifyBool.
From Verif Require Import PyBase UtilTimeConsts UtilTimeGen UuidFields BytesBE.
Import ListNotations.
Local Open Scope Z_scope.
Ltac Zify.zify_post_hook ::= Z.to_euclidean_division_equations.

(* ------------------------------------------------------------------ Time *)
(* the four fields always recompose to the stored value -- for EVERY integer (floor semantics), also negative ones *)
Theorem time_fields_recompose : forall nt,
  time_hour nt * TIME_HOUR + time_minute nt * TIME_MINUTE + time_second nt * TIME_SECOND + time_nanosecond nt = nt.
Proof.
  intros nt. unfold time_hour, time_minute, time_second, time_nanosecond, TIME_HOUR, TIME_MINUTE, TIME_SECOND.
  cbv zeta. lia.
Qed.

Theorem time_fields_range : forall nt,
  0 <= time_minute nt < 60 /\ 0 <= time_second nt < 60 /\ 0 <= time_nanosecond nt < TIME_SECOND /\
  (0 <= time_hour nt < 24 <-> 0 <= nt < TIME_DAY).
Proof.
  intros nt. unfold time_hour, time_minute, time_second, time_nanosecond, TIME_SECOND, TIME_DAY. cbv zeta.
  repeat split; lia.
Qed.

(* fields -> nanoseconds -> fields *)
Theorem time_fields_roundtrip : forall h m s n, 0 <= m < 60 -> 0 <= s < 60 -> 0 <= n < TIME_SECOND ->
  let nt := h * TIME_HOUR + m * TIME_MINUTE + s * TIME_SECOND + n in
  time_hour nt = h /\ time_minute nt = m /\ time_second nt = s /\ time_nanosecond nt = n.
Proof.
  intros h m s n Hm Hs Hn. cbv zeta.
  unfold time_hour, time_minute, time_second, time_nanosecond, TIME_HOUR, TIME_MINUTE, TIME_SECOND in *. cbv zeta.
  repeat split; lia.
Qed.

(* microsecond truncation used by Time.time(): nanosecond // MICRO is a valid datetime microsecond *)
Theorem time_microsecond_range : forall nt, 0 <= time_nanosecond nt / TIME_MICRO < 1000000.
Proof. intros nt. unfold time_nanosecond, TIME_MICRO. lia. Qed.

(* Time(int): what the code accepts.  Since the repair of finding C34-1 (Time(-1) used to be stored unchanged: only the
   upper bound was checked; the statement below was then REFUTED with witness t = -1) the generated function rejects
   exactly the integers outside [0, DAY), so the full statement is now a theorem of the regenerated source. *)
Theorem time_from_timestamp_spec : forall t old,
  time_from_timestamp t old = if (t <? 0) || (t >=? TIME_DAY) then Raise else Ok (tt, t).
Proof.
  intros t old. unfold time_from_timestamp, TIME_DAY. destruct (t <? 0); [reflexivity|].
  destruct (t >=? 86400000000000); reflexivity.
Qed.

Definition time_accepts_full_statement : Prop :=
  forall t old, (exists nt, time_from_timestamp t old = Ok (tt, nt)) <-> 0 <= t < TIME_DAY.

Theorem time_accepts_full : time_accepts_full_statement.
Proof.
  intros t old. rewrite time_from_timestamp_spec. unfold TIME_DAY.
  destruct (t <? 0) eqn:E0; destruct (t >=? 86400000000000) eqn:E1; cbn [orb]; split.
  all: try (intros [nt Hn]; discriminate).
  all: try lia.
  intros _. eexists. reflexivity.
Qed.

(* the accepted value is stored unchanged *)
Theorem time_accepts_stores : forall t old nt, time_from_timestamp t old = Ok (tt, nt) -> nt = t /\ 0 <= t < TIME_DAY.
Proof.
  intros t old nt H. rewrite time_from_timestamp_spec in H. unfold TIME_DAY in *.
  destruct (t <? 0) eqn:E0; destruct (t >=? 86400000000000) eqn:E1; cbn [orb] in H; try discriminate.
  injection H as H. split; lia.
Qed.

(* ------------------------------------------------------------------ uuid_from_time: integer tail *)
Lemma land_ones' x k m : 0 <= k -> m = Z.ones k -> Z.land x m = x mod 2 ^ k.
Proof. intros Hk ->. apply Z.land_ones. exact Hk. Qed.

Theorem uuid_tail_spec : forall node cs iv,
  uuid_from_time_tail node cs iv =
  if cs >? 16383 then Raise
  else Ok ((iv mod 2 ^ 32, (iv / 2 ^ 32) mod 2 ^ 16, (iv / 2 ^ 48) mod 2 ^ 12,
            128 + (cs / 2 ^ 8) mod 2 ^ 6, cs mod 2 ^ 8, node), 1).
Proof.
  intros node cs iv. unfold uuid_from_time_tail. cbv zeta. destruct (cs >? 16383); [reflexivity|].
  rewrite (land_ones' iv 32 4294967295), (land_ones' _ 16 65535), (land_ones' _ 12 4095),
          (land_ones' cs 8 255), (land_ones' _ 6 63) by (lia || reflexivity).
  rewrite !Z.shiftr_div_pow2 by lia.
  assert (Hl : Z.lor 128 ((cs / 2 ^ 8) mod 2 ^ 6) = 128 + (cs / 2 ^ 8) mod 2 ^ 6).
  { rewrite Z.lor_comm. change 128 with (2 * 2 ^ 6). rewrite (lor_disjoint_add _ 2 6) by lia. lia. }
  rewrite Hl. reflexivity.
Qed.

(* the three time fields recompose to the low 60 bits of the interval count, for every integer *)
Theorem uuid_tail_time_fields : forall node cs iv, cs <= 16383 ->
  exists tl tm thv csh csl, uuid_from_time_tail node cs iv = Ok ((tl, tm, thv, csh, csl, node), 1) /\
  tl + tm * 2 ^ 32 + thv * 2 ^ 48 = iv mod 2 ^ 60 /\
  0 <= tl < 2 ^ 32 /\ 0 <= tm < 2 ^ 16 /\ 0 <= thv < 2 ^ 12 /\ 128 <= csh < 192 /\ 0 <= csl < 256 /\
  (0 <= cs -> (csh - 128) * 2 ^ 8 + csl = cs).
Proof.
  intros node cs iv Hc. rewrite uuid_tail_spec. destruct (cs >? 16383) eqn:E; [lia|].
  do 5 eexists. split; [reflexivity|]. repeat split; lia.
Qed.

Theorem uuid_tail_rejects : forall node cs iv, 16383 < cs -> uuid_from_time_tail node cs iv = Raise.
Proof. intros node cs iv Hc. rewrite uuid_tail_spec. destruct (cs >? 16383) eqn:E; [reflexivity|lia]. Qed.

(* with valid node / clock_seq, uuid.UUID accepts the fields and UUID.time gives back the interval count *)
Theorem uuid_tail_time : forall node cs iv, 0 <= node < 2 ^ 48 -> cs <= 16383 ->
  exists f i, uuid_from_time_tail node cs iv = Ok (f, 1) /\ py_uuid_int f 1 = Some i /\
              py_uuid_time i = iv mod 2 ^ 60.
Proof.
  intros node cs iv Hn Hc. rewrite uuid_tail_spec. destruct (cs >? 16383) eqn:E; [lia|].
  set (tl := iv mod 2 ^ 32). set (tm := (iv / 2 ^ 32) mod 2 ^ 16). set (thv := (iv / 2 ^ 48) mod 2 ^ 12).
  set (csh := 128 + (cs / 2 ^ 8) mod 2 ^ 6). set (csl := cs mod 2 ^ 8).
  exists (tl, tm, thv, csh, csl, node). eexists. split; [reflexivity|].
  assert (Htl : 0 <= tl < 2 ^ 32) by (unfold tl; lia). assert (Htm : 0 <= tm < 2 ^ 16) by (unfold tm; lia).
  assert (Hthv : 0 <= thv < 2 ^ 12) by (unfold thv; lia). assert (Hcsh : 128 <= csh < 192) by (unfold csh; lia).
  assert (Hcsl : 0 <= csl < 256) by (unfold csl; lia).
  assert (Hok : uuid_fields_ok (tl, tm, thv, csh, csl, node) = true) by (unfold uuid_fields_ok; lia).
  unfold py_uuid_int. rewrite Hok. cbn [andb Z.leb Z.compare]. split; [reflexivity|].
  assert (Hsum : tl + tm * 2 ^ 32 + thv * 2 ^ 48 = iv mod 2 ^ 60) by (unfold tl, tm, thv; lia).
  rewrite <- Hsum. unfold py_uuid_time. cbv zeta.
  set (lowpart := (csh mod 2 ^ 6 + 2 ^ 7) * 2 ^ 56 + csl * 2 ^ 48 + node).
  assert (Hlow : 0 <= lowpart < 2 ^ 64) by (unfold lowpart; lia).
  set (thv' := thv mod 2 ^ 12 + 1 * 2 ^ 12).
  assert (Hthv' : thv' = thv + 2 ^ 12) by (unfold thv'; lia).
  replace (tl * 2 ^ 96 + tm * 2 ^ 80 + thv' * 2 ^ 64 + (csh mod 2 ^ 6 + 2 ^ 7) * 2 ^ 56 + csl * 2 ^ 48 + node)
    with (((tl * 2 ^ 16 + tm) * 2 ^ 16 + thv') * 2 ^ 64 + lowpart) by (unfold lowpart; lia).
  clearbody tl tm thv csh csl lowpart thv'. subst thv'.
  set (A := (tl * 2 ^ 16 + tm) * 2 ^ 16 + (thv + 2 ^ 12)).
  assert (H64 : (A * 2 ^ 64 + lowpart) / 2 ^ 64 = A).
  { rewrite Z.div_add_l by lia. rewrite (Z.div_small lowpart) by lia. lia. }
  assert (H80 : (A * 2 ^ 64 + lowpart) / 2 ^ 80 = tl * 2 ^ 16 + tm).
  { change (2 ^ 80) with (2 ^ 64 * 2 ^ 16). rewrite <- Z.div_div by lia. rewrite H64. unfold A.
    rewrite Z.div_add_l by lia. rewrite (Z.div_small (thv + 2 ^ 12)) by lia. lia. }
  assert (H96 : (A * 2 ^ 64 + lowpart) / 2 ^ 96 = tl).
  { change (2 ^ 96) with (2 ^ 80 * 2 ^ 16). rewrite <- Z.div_div by lia. rewrite H80.
    rewrite Z.div_add_l by lia. rewrite (Z.div_small tm) by lia. lia. }
  rewrite H64, H80, H96.
  assert (HA : A mod 2 ^ 16 = thv + 2 ^ 12).
  { unfold A. rewrite Z.add_comm, Z.mod_add by lia. apply Z.mod_small. lia. }
  assert (Hm : (tl * 2 ^ 16 + tm) mod 2 ^ 16 = tm).
  { rewrite Z.add_comm, Z.mod_add by lia. apply Z.mod_small. lia. }
  rewrite HA, Hm.
  assert (Ht : (thv + 2 ^ 12) mod 2 ^ 12 = thv).
  { replace (thv + 2 ^ 12) with (thv + 1 * 2 ^ 12) by lia. rewrite Z.mod_add by lia. apply Z.mod_small. lia. }
  rewrite Ht. lia.
Qed.

Ltac Zify.zify_post_hook ::= idtac.

Print Assumptions time_fields_recompose.
Print Assumptions time_fields_range.
Print Assumptions time_fields_roundtrip.
Print Assumptions time_from_timestamp_spec.
Print Assumptions time_accepts_full.
Print Assumptions time_accepts_stores.
Print Assumptions uuid_tail_spec.
Print Assumptions uuid_tail_time_fields.
Print Assumptions uuid_tail_time.
