(* Lemmas for C38 (Model/CompositeMapper.v). *)
From Coq Require Import ZArith List Bool Lia Arith.
From Verif Require Import CompositeSpec CompositeMapper C30_proofs.
Import ListNotations.
Local Open Scope Z_scope.

Lemma nth_error_ext_eq : forall {A} (a b : list A), (forall j, nth_error a j = nth_error b j) -> a = b.
Proof.
  intros A a. induction a as [|x a IH]; intros b H.
  - destruct b; [reflexivity|]. specialize (H 0%nat). discriminate.
  - destruct b as [|y b]; [specialize (H 0%nat); discriminate|].
    pose proof (H 0%nat) as H0. cbn in H0. inversion H0; subst. f_equal. apply IH. intros j. exact (H (S j)).
Qed.

Section MapperProofs.
  Variable T : Type.
  Notation pcol := (pcol T).
  Notation cdef := (cdef T).
  Notation mstate := (mstate T).

  (* ------------------------------------------------------------------ association lists *)
  Lemma lookup_upd_same : forall {A} n (v : A) l, lookup n (upd n v l) = Some v.
  Proof.
    intros A n v l. induction l as [|[k x] l IH]; cbn [upd lookup].
    - rewrite Z.eqb_refl. reflexivity.
    - destruct (Z.eqb_spec k n); cbn [lookup].
      + subst. rewrite Z.eqb_refl. reflexivity.
      + destruct (Z.eqb_spec k n); [contradiction|]. exact IH.
  Qed.

  Lemma lookup_upd_other : forall {A} n m (v : A) l, m <> n -> lookup m (upd n v l) = lookup m l.
  Proof.
    intros A n m v l Hne. induction l as [|[k x] l IH]; cbn [upd lookup].
    - destruct (Z.eqb_spec n m); [congruence|reflexivity].
    - destruct (Z.eqb_spec k n); cbn [lookup].
      + subst. destruct (Z.eqb_spec n m); [congruence|reflexivity].
      + destruct (Z.eqb_spec k m); [reflexivity|exact IH].
  Qed.

  Lemma upd_absent : forall {A} n (v : A) l, lookup n l = None -> upd n v l = l ++ [(n, v)].
  Proof.
    intros A n v l. induction l as [|[k x] l IH]; intros H; cbn [upd lookup app] in *; [reflexivity|].
    destruct (Z.eqb_spec k n); [discriminate|]. rewrite IH by assumption. reflexivity.
  Qed.

  Definition pr (e : Z * pcol) : bool * nat := (p_part T (snd e), p_pidx T (snd e)).

  Lemma proj_upd_present : forall n (v p : pcol) l, lookup n l = Some p ->
    p_part T v = p_part T p -> p_pidx T v = p_pidx T p -> map pr (upd n v l) = map pr l.
  Proof.
    intros n v p l. induction l as [|[k x] l IH]; intros H Hp Hi; cbn [upd lookup map] in *; [discriminate|].
    destruct (Z.eqb_spec k n).
    - inversion H; subst. cbn [map]. f_equal. unfold pr. cbn [snd]. rewrite Hp, Hi. reflexivity.
    - cbn [map]. f_equal. apply IH; assumption.
  Qed.

  (* ------------------------------------------------------------------ the metaclass invariant *)
  Definition dense (s : mstate) : Prop := map snd (filter fst (map pr (s_pks T s))) = seq 0 (s_counter T s).

  Definition inv2 (s : mstate) : Prop := forall n o, lookup n (s_cols T s) = Some o -> p_part T o = true ->
    exists p, lookup n (s_pks T s) = Some p /\ p_part T p = true /\ p_pidx T p = p_pidx T o.

  Definition inv3 (s : mstate) : Prop := forall n p, lookup n (s_pks T s) = Some p ->
    exists o, lookup n (s_cols T s) = Some o /\ p_part T o = p_part T p /\ p_pidx T o = p_pidx T p.

  Definition inv (s : mstate) : Prop := dense s /\ inv2 s /\ inv3 s.

  Lemma inv_init : forall defs, inv (init_state T defs).
  Proof.
    intros defs. unfold inv, dense, inv2, inv3, init_state. cbn. repeat split; intros; discriminate.
  Qed.

  Lemma seq_snoc : forall n, seq 0 (S n) = seq 0 n ++ [n].
  Proof. intros n. rewrite seq_S. reflexivity. Qed.

  Lemma inv_step : forall s d, inv s -> inv (process_def T s d).
  Proof.
    intros s d [Hd [H2 H3]]. unfold process_def.
    set (n := d_name T d). destruct (lookup n (s_cols T s)) as [o|] eqn:Eo.
    - (* overriding *)
      set (c := mkpcol T (d_dbf T d) (p_part T o) (p_pidx T o) (d_prim T d) (d_type T d)).
      unfold inv, dense, inv2, inv3. cbn [s_pks s_cols s_counter]. split; [|split].
      + destruct (d_prim T d); [|exact Hd].
        destruct (lookup n (s_pks T s)) as [p|] eqn:Ep.
        * destruct (H3 _ _ Ep) as [o' [Eo' [Hp Hi]]]. rewrite Eo in Eo'. inversion Eo'; subst o'.
          rewrite (proj_upd_present n c p) by (cbn; congruence). exact Hd.
        * rewrite upd_absent by assumption. rewrite map_app, filter_app. cbn [map filter pr snd p_part fst].
          destruct (p_part T o) eqn:Epo.
          -- destruct (H2 _ _ Eo Epo) as [p [Ep' _]]. congruence.
          -- cbn. rewrite app_nil_r. exact Hd.
      + intros m o' Hl Hpart. destruct (Z.eq_dec m n) as [->|Hne].
        * rewrite lookup_upd_same in Hl. inversion Hl; subst o'. cbn [p_part p_pidx c] in *.
          destruct (H2 _ _ Eo Hpart) as [p [Ep [Hpp Hpi]]].
          destruct (d_prim T d).
          -- exists c. rewrite lookup_upd_same. cbn. auto.
          -- exists p. auto.
        * rewrite lookup_upd_other in Hl by assumption. destruct (H2 _ _ Hl Hpart) as [p [Ep Hrest]].
          exists p. split; [|exact Hrest]. destruct (d_prim T d); [rewrite lookup_upd_other by assumption|]; exact Ep.
      + intros m p Hl. destruct (Z.eq_dec m n) as [->|Hne].
        * rewrite lookup_upd_same. exists c. split; [reflexivity|].
          destruct (d_prim T d).
          -- rewrite lookup_upd_same in Hl. inversion Hl; subst. auto.
          -- destruct (H3 _ _ Hl) as [o' [Eo' [Hp Hi]]]. rewrite Eo in Eo'. inversion Eo'; subst o'. cbn. auto.
        * rewrite lookup_upd_other by assumption.
          assert (lookup m (s_pks T s) = Some p) as Hl'
            by (destruct (d_prim T d); [rewrite lookup_upd_other in Hl by assumption|]; exact Hl).
          exact (H3 _ _ Hl').
    - (* a new column *)
      set (auto := negb (s_has_pk T s) && d_prim T d).
      set (part1 := d_pkflag T d || auto).
      set (c := mkpcol T (d_dbf T d) part1 (s_counter T s) (d_prim T d) (d_type T d)).
      assert (lookup n (s_pks T s) = None) as Ep.
      { destruct (lookup n (s_pks T s)) as [p|] eqn:Ep; [|reflexivity].
        destruct (H3 _ _ Ep) as [o [Eo' _]]. congruence. }
      assert (part1 = true -> d_prim T d = true) as Hprim.
      { unfold part1, auto, d_prim. destruct (d_pkflag T d), (d_primflag T d), (s_has_pk T s); cbn; auto. }
      unfold inv, dense, inv2, inv3. cbn [s_pks s_cols s_counter]. split; [|split].
      + destruct (d_prim T d) eqn:Edp.
        * rewrite upd_absent by assumption. rewrite map_app, filter_app. cbn [map filter pr snd p_part p_pidx fst c].
          destruct part1.
          -- cbn [map filter fst snd]. rewrite map_app. cbn [map snd]. rewrite Hd, seq_snoc. reflexivity.
          -- cbn. rewrite app_nil_r. exact Hd.
        * destruct part1; [specialize (Hprim eq_refl); discriminate|exact Hd].
      + intros m o' Hl Hpart. destruct (Z.eq_dec m n) as [->|Hne].
        * rewrite lookup_upd_same in Hl. inversion Hl; subst o'. cbn [p_part c] in Hpart.
          rewrite (Hprim Hpart). exists c. rewrite lookup_upd_same. cbn. auto.
        * rewrite lookup_upd_other in Hl by assumption. destruct (H2 _ _ Hl Hpart) as [p [Ep' Hrest]].
          exists p. split; [|exact Hrest]. destruct (d_prim T d); [rewrite lookup_upd_other by assumption|]; exact Ep'.
      + intros m p Hl. destruct (Z.eq_dec m n) as [->|Hne].
        * rewrite lookup_upd_same. exists c. split; [reflexivity|].
          destruct (d_prim T d); [rewrite lookup_upd_same in Hl; inversion Hl; subst; auto|congruence].
        * rewrite lookup_upd_other by assumption.
          assert (lookup m (s_pks T s) = Some p) as Hl'
            by (destruct (d_prim T d); [rewrite lookup_upd_other in Hl by assumption|]; exact Hl).
          exact (H3 _ _ Hl').
  Qed.

  Lemma inv_fold : forall defs s, inv s -> inv (fold_left (process_def T) defs s).
  Proof. induction defs as [|d defs IH]; intros s H; [exact H|]. cbn. apply IH, inv_step, H. Qed.

  Lemma dense_partition_keys : forall l : list (Z * pcol),
    map snd (filter fst (map pr l)) = map (p_pidx T) (filter (p_part T) (map snd l)).
  Proof.
    induction l as [|[k x] l IH]; [reflexivity|]. cbn [map filter pr snd fst].
    destruct (p_part T x); cbn [map snd]; rewrite IH; reflexivity.
  Qed.

  (* the indexes of the partition key columns are 0,1,2,... in partition-key (= table) order: no gap, no swap *)
  Lemma index_dense : forall defs,
    let pks := partition_keys T (run_meta_with T (process_def T) defs) in
    map (p_pidx T) pks = seq 0 (length pks).
  Proof.
    intros defs pks. pose proof (inv_fold defs _ (inv_init defs)) as [Hd _].
    unfold dense in Hd. rewrite dense_partition_keys in Hd. fold (run_meta_with T (process_def T) defs) in Hd.
    unfold pks, partition_keys. rewrite Hd. f_equal.
    rewrite <- (map_length (p_pidx T)), Hd, seq_length. reflexivity.
  Qed.

  (* ------------------------------------------------------------------ the index map *)
  Definition entry (c : pcol) : Z * nat := (p_dbf T c, p_pidx T c).

  Lemma lookup_none_notin : forall {A} n (l : list (Z * A)), lookup n l = None <-> ~ In n (map fst l).
  Proof.
    intros A n l. induction l as [|[k x] l IH]; cbn [lookup map fst In]; [tauto|].
    destruct (Z.eqb_spec k n); [split; [discriminate|intros H; exfalso; apply H; left; assumption]|].
    rewrite IH. tauto.
  Qed.

  Lemma index_map_fold : forall pks acc, NoDup (map fst acc ++ map (p_dbf T) pks) ->
    fold_left (fun m c => upd (p_dbf T c) (p_pidx T c) m) pks acc = acc ++ map entry pks.
  Proof.
    induction pks as [|c pks IH]; intros acc Hnd; cbn [fold_left map]; [rewrite app_nil_r; reflexivity|].
    cbn [map] in Hnd. rewrite upd_absent.
    - rewrite IH.
      + rewrite <- app_assoc. reflexivity.
      + rewrite map_app. cbn [map fst]. rewrite <- app_assoc. exact Hnd.
    - apply lookup_none_notin. apply NoDup_remove_2 in Hnd. intros Hin. apply Hnd. apply in_or_app. left. exact Hin.
  Qed.

  Lemma index_map_eq : forall pks, NoDup (map (p_dbf T) pks) -> pk_index_map T pks = map entry pks.
  Proof. intros pks H. unfold pk_index_map. rewrite index_map_fold; [reflexivity|exact H]. Qed.

  Lemma lookup_entries : forall pks k f i, NoDup (map (p_dbf T) pks) ->
    map (p_pidx T) pks = seq k (length pks) ->
    (lookup f (map entry pks) = Some i <-> exists c, nth_error pks (i - k) = Some c /\ p_dbf T c = f /\ (k <= i)%nat).
  Proof.
    induction pks as [|c pks IH]; intros k f i Hnd Hseq.
    - cbn. split; [discriminate|]. intros [c [H _]]. destruct (i - k)%nat; discriminate.
    - cbn [map length seq] in Hseq. injection Hseq as Hk Hrest. cbn [map] in Hnd. apply NoDup_cons_iff in Hnd. destruct Hnd as [H1 H2].
      cbn [map entry lookup]. fold (entry c). destruct (Z.eqb_spec (p_dbf T c) f) as [He|Hne].
      + split.
        * intros H. inversion H; subst i. exists c. rewrite Hk, Nat.sub_diag. auto.
        * intros [c' [Hn [Hf Hle]]]. destruct (i - k)%nat as [|j] eqn:Ej.
          -- f_equal. lia.
          -- cbn in Hn. apply nth_error_In in Hn. exfalso. apply H1. rewrite He, <- Hf. apply in_map. exact Hn.
      + rewrite (IH (S k) f i H2 Hrest). split.
        * intros [c' [Hn [Hf Hle]]]. exists c'. replace (i - k)%nat with (S (i - S k)) by lia. cbn. auto with arith.
        * intros [c' [Hn [Hf Hle]]]. destruct (i - k)%nat as [|j] eqn:Ej.
          -- cbn in Hn. inversion Hn; subst. contradiction.
          -- exists c'. replace (i - S k)%nat with j by lia. cbn in Hn. split; [exact Hn|]. split; [exact Hf|lia].
  Qed.

  (* ------------------------------------------------------------------ partition_key_values *)
  Variable V : Type.
  Variable ser : T -> V -> option (list Z).
  Notation clause := (clause V).

  Fixpoint last_value (P : clause -> bool) (cs : list clause) (cur : option V) : option V :=
    match cs with
    | [] => cur
    | c :: r => last_value P r (if P c then c_value V c else cur)
    end.

  (* the value the statement fixes for a column: its last equality clause / assignment *)
  Definition bound_value (cs : list clause) (f : Z) : option V := last_value (fun c => c_field V c =? f) cs None.

  Lemma last_value_ext : forall P Q cs cur, (forall c, P c = Q c) -> last_value P cs cur = last_value Q cs cur.
  Proof. intros P Q cs. induction cs as [|c cs IH]; intros cur H; cbn; [reflexivity|]. rewrite H. apply IH, H. Qed.

  Lemma set_nth_spec : forall {A} (l : list A) i v, (i < length l)%nat ->
    exists l', set_nth i v l = Some l' /\ length l' = length l /\ nth_error l' i = Some v /\
               forall j, j <> i -> nth_error l' j = nth_error l j.
  Proof.
    intros A l. induction l as [|x l IH]; intros i v Hi; [cbn in Hi; lia|].
    destruct i as [|i]; cbn [set_nth].
    - exists (v :: l). repeat split. intros [|j] Hj; [congruence|reflexivity].
    - destruct (IH i v ltac:(cbn in Hi; lia)) as [l' [Hs [Hl [Hn Ho]]]]. rewrite Hs. exists (x :: l').
      repeat split; cbn; auto. intros [|j] Hj; [reflexivity|]. apply Ho. congruence.
  Qed.

  Definition hits (m : list (Z * nat)) (j : nat) (c : clause) : bool :=
    match lookup (c_field V c) m with Some i => Nat.eqb i j | None => false end.

  Lemma update_parts_spec : forall m cs parts0, (forall f i, lookup f m = Some i -> (i < length parts0)%nat) ->
    exists parts, update_parts V m cs parts0 = Some parts /\ length parts = length parts0 /\
      forall j x, nth_error parts0 j = Some x -> nth_error parts j = Some (last_value (hits m j) cs x).
  Proof.
    intros m cs. induction cs as [|c cs IH]; intros parts0 Hb; cbn [update_parts last_value].
    - exists parts0. auto.
    - destruct (lookup (c_field V c) m) as [i|] eqn:El.
      + destruct (set_nth_spec parts0 i (c_value V c) (Hb _ _ El)) as [p1 [Hs [Hl [Hn Ho]]]]. rewrite Hs.
        destruct (IH p1 ltac:(intros f k Hk; rewrite Hl; eauto)) as [parts [Hu [Hlen Hnth]]].
        exists parts. split; [exact Hu|]. split; [congruence|]. intros j x Hx.
        destruct (Nat.eqb_spec i j) as [->|Hne].
        * apply Hnth. unfold hits. rewrite El, Nat.eqb_refl. exact Hn.
        * apply Hnth. unfold hits. rewrite El. destruct (Nat.eqb_spec i j); [contradiction|].
          rewrite Ho by congruence. exact Hx.
      + destruct (IH parts0 Hb) as [parts [Hu [Hlen Hnth]]]. exists parts. split; [exact Hu|]. split; [exact Hlen|].
        intros j x Hx. unfold hits at 2. rewrite El. apply Hnth. exact Hx.
  Qed.

  (* ------------------------------------------------------------------ serialization and packing *)
  Lemma zip_ser_spec : forall ts vs bs, Forall2 (fun tv b => ser (fst tv) (snd tv) = Some b) (combine ts vs) bs ->
    length ts = length vs -> zip_ser T V ser ts (map Some vs) = Some bs.
  Proof.
    induction ts as [|t ts IH]; intros vs bs H Hl; destruct vs as [|v vs]; try (cbn in Hl; lia).
    - inversion H. reflexivity.
    - cbn [combine] in H. inversion H; subst. cbn [map zip_ser]. cbn [fst snd] in H2. rewrite H2.
      rewrite (IH vs l'); [reflexivity|assumption|cbn in Hl; lia].
  Qed.

  Lemma pack_all_spec : forall bs, forallb component_ok bs = true ->
    pack_all bs = Some (concat (map composite_component bs)).
  Proof.
    induction bs as [|b bs IH]; intros H; [reflexivity|]. cbn [forallb] in H. apply andb_prop in H. destruct H as [Hb Hr].
    cbn [pack_all map concat]. rewrite IH by assumption. unfold pack_part. unfold component_ok in Hb. rewrite Hb.
    apply Z.ltb_lt in Hb. unfold composite_component. rewrite <- u16_bytes by lia. reflexivity.
  Qed.

  Lemma set_routing_key_spec : forall bs, bs <> [] -> forallb component_ok bs = true \/ length bs = 1%nat ->
    set_routing_key bs = RBytes (composite_spec bs).
  Proof.
    intros bs Hne Hok. destruct bs as [|a [|b r]]; [congruence|reflexivity|].
    destruct Hok as [Hok|Hok]; [|cbn in Hok; lia].
    unfold set_routing_key. rewrite pack_all_spec by assumption. reflexivity.
  Qed.

  (* ------------------------------------------------------------------ C38_routing *)
  Lemma routing : forall defs wheres assigns vs bs,
    let s := run_meta_with T (process_def T) defs in
    let pks := partition_keys T s in
    let cs := filter (c_eq V) wheres ++ assigns in
    pks <> [] -> NoDup (map (p_dbf T) pks) ->
    Forall2 (fun c v => bound_value cs (p_dbf T c) = Some v) pks vs ->
    Forall2 (fun tv b => ser (fst tv) (snd tv) = Some b) (combine (map (p_type T) pks) vs) bs ->
    forallb component_ok bs = true \/ length pks = 1%nat ->
    execute T V ser s wheres assigns = RBytes (composite_spec bs).
  Proof.
    intros defs wheres assigns vs bs s pks cs Hne Hnd Hbound Hser Hok.
    pose proof (index_dense defs) as Hdense. cbn zeta in Hdense. fold s in Hdense. fold pks in Hdense.
    unfold execute. fold pks. rewrite (index_map_eq pks Hnd).
    destruct (map entry pks) as [|e0 m0] eqn:Em; [destruct pks; [congruence|discriminate]|]. rewrite <- Em.
    unfold partition_key_values. fold cs. rewrite map_length.
    assert (forall f i, lookup f (map entry pks) = Some i -> (i < length (repeat (@None V) (length pks)))%nat) as Hb.
    { intros f i Hl. rewrite repeat_length. apply (lookup_entries pks 0 f i Hnd Hdense) in Hl.
      destruct Hl as [c [Hn _]]. rewrite Nat.sub_0_r in Hn. apply nth_error_Some. congruence. }
    destruct (update_parts_spec (map entry pks) cs _ Hb) as [parts [Hu [Hlen Hnth]]]. rewrite Hu.
    rewrite repeat_length in Hlen.
    pose proof (Forall2_len _ _ _ Hbound) as Hlv.
    assert (parts = map Some vs) as Hparts.
    { apply nth_error_ext_eq. intros j. destruct (Nat.lt_ge_cases j (length pks)) as [Hj|Hj].
      - rewrite (Hnth j None) by (apply nth_error_repeat; exact Hj).
        destruct (nth_error pks j) as [c|] eqn:Ec; [|apply nth_error_None in Ec; lia].
        destruct (nth_error vs j) as [v|] eqn:Ev; [|apply nth_error_None in Ev; lia].
        rewrite nth_error_map, Ev. cbn. f_equal.
        assert (bound_value cs (p_dbf T c) = Some v) as Hbv.
        { clear - Hbound Ec Ev. revert j Ec Ev. induction Hbound; intros j Ec Ev; destruct j; try discriminate; cbn in *.
          - inversion Ec; inversion Ev; subst. assumption.
          - eapply IHHbound; eauto. }
        rewrite <- Hbv. unfold bound_value. apply last_value_ext. intros cl. unfold hits.
        destruct (lookup (c_field V cl) (map entry pks)) as [i|] eqn:El.
        + apply (lookup_entries pks 0 _ i Hnd Hdense) in El. destruct El as [c' [Hn [Hf _]]]. rewrite Nat.sub_0_r in Hn.
          destruct (Nat.eqb_spec i j) as [->|Hij].
          * rewrite Ec in Hn. inversion Hn; subst c'. symmetry. apply Z.eqb_eq. symmetry. exact Hf.
          * symmetry. apply Z.eqb_neq. intros Heq.
            assert (lookup (c_field V cl) (map entry pks) = Some j) as Hj2.
            { apply (lookup_entries pks 0 _ j Hnd Hdense). exists c. rewrite Nat.sub_0_r. repeat split; [exact Ec|congruence|lia]. }
            assert (lookup (c_field V cl) (map entry pks) = Some i) as Hi2.
            { apply (lookup_entries pks 0 _ i Hnd Hdense). exists c'. rewrite Nat.sub_0_r. repeat split; [exact Hn|exact Hf|lia]. }
            congruence.
        + symmetry. apply Z.eqb_neq. intros Heq.
          assert (lookup (c_field V cl) (map entry pks) = Some j) as Hj2.
          { apply (lookup_entries pks 0 _ j Hnd Hdense). exists c. rewrite Nat.sub_0_r. repeat split; [exact Ec|congruence|lia]. }
          congruence.
      - rewrite (proj2 (nth_error_None parts j)) by lia. symmetry. apply nth_error_None. rewrite map_length. lia. }
    rewrite Hparts.
    assert (existsb (fun p : option V => match p with None => true | Some _ => false end) (map Some vs) = false) as Hex.
    { clear. induction vs as [|v vs IH]; [reflexivity|exact IH]. }
    rewrite Hex. rewrite (zip_ser_spec _ _ _ Hser) by (rewrite map_length; exact Hlv).
    apply set_routing_key_spec.
    - apply Forall2_len in Hser. rewrite combine_length, map_length, <- Hlv, Nat.min_id in Hser.
      destruct bs; [destruct pks; [congruence|discriminate]|discriminate].
    - destruct Hok as [Hok|Hok]; [left; exact Hok|right].
      apply Forall2_len in Hser. rewrite combine_length, map_length, <- Hlv, Nat.min_id in Hser. lia.
  Qed.
End MapperProofs.
