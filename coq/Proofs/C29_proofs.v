(* Lemmas for C29: every supported value is emitted as exactly one CQL term denoting the prepared-path value. *)
From Coq Require Import String Ascii.
From Coq Require Import ZArith List Bool Lia.
From Verif Require Import CqlKeywords CqlLex EncoderTable Encoder C27_proofs.
Import ListNotations.
Local Open Scope Z_scope.

(* ---------- delimiters and heads ---------- *)
Lemma delim_facts : forall c, is_delim c = true ->
  is_digit c = false /\ is_ident_char c = false /\ is_hex c = false /\ (c =? 46) = false /\ (c =? 101) = false /\
  (c =? 69) = false /\ (c =? 45) = false /\ (c =? SQ) = false /\ (c =? 120) = false /\ (c =? 88) = false.
Proof.
  intros c H. unfold is_delim in H.
  repeat (apply orb_true_iff in H; destruct H as [H|H]); apply Z.eqb_eq in H; subst c; vm_compute; repeat split; reflexivity.
Qed.

Lemma ends_stops_digit : forall r, ends_ok r = true -> stops is_digit r.
Proof. intros [|c r] H; [exact I|]. cbn in *. apply delim_facts in H. tauto. Qed.
Lemma ends_stops_ident : forall r, ends_ok r = true -> stops is_ident_char r.
Proof. intros [|c r] H; [exact I|]. cbn in *. apply delim_facts in H. tauto. Qed.
Lemma ends_stops_hex : forall r, ends_ok r = true -> stops is_hex r.
Proof. intros [|c r] H; [exact I|]. cbn in *. apply delim_facts in H. tauto. Qed.
Lemma ends_stops_sq : forall r, ends_ok r = true -> stops (Z.eqb SQ) r.
Proof.
  intros [|c r] H; [exact I|]. unfold stops. unfold ends_ok in H. apply delim_facts in H.
  destruct H as (_ & _ & _ & _ & _ & _ & _ & H & _). rewrite Z.eqb_sym. exact H.
Qed.

(* first character of a literal: not a space, not a closer/separator, not an opener unless it is a collection *)
Definition head_ok (s : str) : bool :=
  match s with
  | c :: _ => negb (is_space c) && negb (c =? 93) && negb (c =? 41) && negb (c =? 125) && negb (c =? 44) && negb (c =? 58)
  | [] => false
  end.
Definition scalar_head (s : str) : bool :=
  match s with
  | c :: _ => negb (c =? 91) && negb (c =? 40) && negb (c =? 123)
  | [] => false
  end.

Lemma head_ok_app : forall s r, head_ok s = true -> head_ok (s ++ r) = true.
Proof. intros [|c s] r H; [discriminate|exact H]. Qed.

Lemma skip_head : forall s, head_ok s = true -> skip_spaces s = s.
Proof.
  intros [|c s] H; [discriminate|]. unfold skip_spaces. cbn in *.
  destruct (is_space c); [discriminate|reflexivity].
Qed.

Lemma expect_hit : forall c r, is_space c = false -> expect c (c :: r) = Some r.
Proof. intros c r H. unfold expect, skip_spaces. cbn. rewrite H. cbn. rewrite Z.eqb_refl. reflexivity. Qed.

Lemma expect_miss : forall c s, head_ok s = true ->
  (c = 93 \/ c = 41 \/ c = 125 \/ c = 44 \/ c = 58) -> expect c s = None.
Proof.
  intros c s H Hc. unfold expect. rewrite (skip_head s H). destruct s as [|x s]; [reflexivity|].
  cbn in H. repeat (apply andb_true_iff in H; destruct H as [H ?]).
  destruct (x =? c) eqn:E; [|reflexivity]. apply Z.eqb_eq in E. subst x.
  destruct Hc as [-> |[-> |[-> |[-> | ->]]]]; discriminate.
Qed.

Lemma expect_other : forall c x r, is_space x = false -> (x =? c) = false -> expect c (x :: r) = None.
Proof. intros c x r H E. unfold expect, skip_spaces. cbn. rewrite H. cbn. rewrite E. reflexivity. Qed.

(* ---------- hex ---------- *)
Lemma unhex_hexd : forall x, 0 <= x < 16 -> unhex (hexd x) = Some x.
Proof.
  intros x H.
  assert (x = 0 \/ x = 1 \/ x = 2 \/ x = 3 \/ x = 4 \/ x = 5 \/ x = 6 \/ x = 7 \/ x = 8 \/ x = 9 \/ x = 10 \/ x = 11 \/
          x = 12 \/ x = 13 \/ x = 14 \/ x = 15) as Hx by lia.
  repeat (destruct Hx as [-> |Hx]; [reflexivity|]). subst; reflexivity.
Qed.

Lemma is_hex_hexd : forall x, 0 <= x < 16 -> is_hex (hexd x) = true.
Proof. intros x H. unfold is_hex. rewrite unhex_hexd by assumption. reflexivity. Qed.

Lemma byte_nibbles : forall b, is_byte b = true -> 0 <= b / 16 < 16 /\ 0 <= b mod 16 < 16 /\ 16 * (b / 16) + b mod 16 = b.
Proof.
  intros b H. unfold is_byte in H. apply andb_true_iff in H. destruct H as [H1 H2]. apply Z.leb_le in H1. apply Z.ltb_lt in H2.
  pose proof (Z.div_mod b 16). pose proof (Z.mod_pos_bound b 16).
  assert (0 <= b / 16) by (apply Z.div_pos; lia). assert (b / 16 < 16) by (apply Z.div_lt_upper_bound; lia). lia.
Qed.

Lemma unhex_hexlify : forall bs, forallb is_byte bs = true -> unhex_pairs (hexlify bs) = Some bs.
Proof.
  induction bs as [|b bs IH]; intros H; [reflexivity|]. cbn in H. apply andb_true_iff in H. destruct H as [Hb Hbs].
  destruct (byte_nibbles b Hb) as (H1 & H2 & H3).
  unfold hexlify. cbn [flat_map hex_byte app]. fold (hexlify bs). cbn [unhex_pairs].
  rewrite (unhex_hexd _ H1), (unhex_hexd _ H2), (IH Hbs), H3. reflexivity.
Qed.

Lemma hexlify_all_hex : forall bs, forallb is_byte bs = true -> forallb is_hex (hexlify bs) = true.
Proof.
  induction bs as [|b bs IH]; intros H; [reflexivity|]. cbn in H. apply andb_true_iff in H. destruct H as [Hb Hbs].
  destruct (byte_nibbles b Hb) as (H1 & H2 & _).
  unfold hexlify. cbn [flat_map hex_byte app forallb]. fold (hexlify bs).
  rewrite (is_hex_hexd _ H1), (is_hex_hexd _ H2), (IH Hbs). reflexivity.
Qed.

(* ---------- uuid ---------- *)
Lemma all_hex_app : forall n s r rest, all_hex_n n s = Some r -> all_hex_n n (s ++ rest) = Some (r ++ rest).
Proof.
  induction n as [|n IH]; intros s r rest H; cbn in *.
  - injection H as <-. reflexivity.
  - destruct s as [|c s]; [discriminate|]. cbn. destruct (is_hex c); [|discriminate]. apply IH. assumption.
Qed.

Lemma dash_app : forall o r rest, dash o = Some r -> dash (match o with Some s => Some (s ++ rest) | None => None end) = Some (r ++ rest).
Proof.
  intros [[|c s]|] r rest H; cbn in *; try discriminate. destruct (c =? 45); [|discriminate]. injection H as <-. reflexivity.
Qed.

Lemma all_hex_len : forall n s r, all_hex_n n s = Some r -> length s = (n + length r)%nat.
Proof.
  induction n as [|n IH]; intros s r H; cbn in *.
  - injection H as <-. reflexivity.
  - destruct s as [|c s]; [discriminate|]. destruct (is_hex c); [|discriminate]. cbn. rewrite (IH _ _ H). reflexivity.
Qed.

Lemma dash_len : forall o r, dash o = Some r -> exists s, o = Some s /\ length s = S (length r).
Proof.
  intros [[|c s]|] r H; cbn in *; try discriminate. destruct (c =? 45); [|discriminate]. injection H as <-.
  eexists; split; reflexivity.
Qed.

Lemma uuid_split_app : forall text rest, uuid_split text = Some [] ->
  uuid_split (text ++ rest) = Some rest /\ length text = 36%nat.
Proof.
  intros text rest H. unfold uuid_split, obind in *.
  destruct (dash (all_hex_n 8 text)) as [s1|] eqn:D1; [|discriminate].
  destruct (dash (all_hex_n 4 s1)) as [s2|] eqn:D2; [|discriminate].
  destruct (dash (all_hex_n 4 s2)) as [s3|] eqn:D3; [|discriminate].
  destruct (dash (all_hex_n 4 s3)) as [s4|] eqn:D4; [|discriminate].
  split.
  - destruct (all_hex_n 8 text) as [a1|] eqn:A1; [|discriminate].
    rewrite (all_hex_app _ _ _ rest A1). pose proof (dash_app (Some a1) s1 rest D1) as E1. cbn [dash] in E1 |- *. rewrite E1.
    destruct (all_hex_n 4 s1) as [a2|] eqn:A2; [|discriminate].
    rewrite (all_hex_app _ _ _ rest A2). pose proof (dash_app (Some a2) s2 rest D2) as E2. cbn [dash] in E2 |- *. rewrite E2.
    destruct (all_hex_n 4 s2) as [a3|] eqn:A3; [|discriminate].
    rewrite (all_hex_app _ _ _ rest A3). pose proof (dash_app (Some a3) s3 rest D3) as E3. cbn [dash] in E3 |- *. rewrite E3.
    destruct (all_hex_n 4 s3) as [a4|] eqn:A4; [|discriminate].
    rewrite (all_hex_app _ _ _ rest A4). pose proof (dash_app (Some a4) s4 rest D4) as E4. cbn [dash] in E4 |- *. rewrite E4.
    rewrite (all_hex_app _ _ _ rest H). reflexivity.
  - apply dash_len in D1, D2, D3, D4.
    destruct D1 as (a1 & A1 & L1), D2 as (a2 & A2 & L2), D3 as (a3 & A3 & L3), D4 as (a4 & A4 & L4).
    apply all_hex_len in A1, A2, A3, A4, H. cbn [length] in H. lia.
Qed.

Lemma uuid_head : forall text, uuid_split text = Some [] -> exists c r, text = c :: r /\ is_hex c = true.
Proof.
  intros text H. unfold uuid_split, obind in H. destruct text as [|c r]; [discriminate|].
  exists c, r. split; [reflexivity|]. cbn in H. destruct (is_hex c); [reflexivity|discriminate].
Qed.

Lemma hex_head_facts : forall c, is_hex c = true ->
  (c =? SQ) = false /\ (c =? 91) = false /\ (c =? 40) = false /\ (c =? 123) = false /\ is_space c = false /\
  (c =? 93) = false /\ (c =? 41) = false /\ (c =? 125) = false /\ (c =? 44) = false /\ (c =? 58) = false.
Proof.
  intros c H. unfold is_hex, unhex, is_digit in H.
  assert (48 <= c <= 57 \/ 97 <= c <= 102 \/ 65 <= c <= 70) as Hr.
  { destruct ((48 <=? c) && (c <=? 57)) eqn:E1; [apply andb_true_iff in E1; destruct E1 as [A B]; apply Z.leb_le in A, B; lia|].
    destruct ((97 <=? c) && (c <=? 102)) eqn:E2; [apply andb_true_iff in E2; destruct E2 as [A B]; apply Z.leb_le in A, B; lia|].
    destruct ((65 <=? c) && (c <=? 70)) eqn:E3; [apply andb_true_iff in E3; destruct E3 as [A B]; apply Z.leb_le in A, B; lia|].
    discriminate. }
  unfold is_space, SQ. repeat split; try (apply Z.eqb_neq; lia).
  repeat (apply orb_false_iff; split); apply Z.eqb_neq; lia.
Qed.

(* a run of digits followed by a delimiter is not a UUID *)
Lemma all_hex_digits : forall n l rest, forallb is_digit l = true -> ends_ok rest = true ->
  all_hex_n n (l ++ rest) = None \/ exists l2, all_hex_n n (l ++ rest) = Some (l2 ++ rest) /\ forallb is_digit l2 = true.
Proof.
  induction n as [|n IH]; intros l rest Hl Hr.
  - right. exists l. split; [reflexivity|assumption].
  - destruct l as [|a l].
    + left. cbn. destruct rest as [|c r]; [reflexivity|]. cbn in Hr. apply delim_facts in Hr.
      destruct Hr as (_ & _ & Hh & _). rewrite Hh. reflexivity.
    + cbn in Hl. apply andb_true_iff in Hl. destruct Hl as [Ha Hl]. cbn [app all_hex_n].
      assert (is_hex a = true) as ->. { unfold is_hex, unhex. rewrite Ha. reflexivity. }
      apply IH; assumption.
Qed.

Lemma uuid_split_digits : forall l rest, forallb is_digit l = true -> ends_ok rest = true -> uuid_split (l ++ rest) = None.
Proof.
  intros l rest Hl Hr. unfold uuid_split.
  destruct (all_hex_digits 8 l rest Hl Hr) as [E|(l2 & E & H2)]; rewrite E; [reflexivity|].
  assert (dash (Some (l2 ++ rest)) = None) as ->; [|reflexivity].
  destruct l2 as [|d l2]; cbn.
  - destruct rest as [|c r]; [reflexivity|]. cbn in Hr. apply delim_facts in Hr. destruct Hr as (_ & _ & _ & _ & _ & _ & H45 & _).
    rewrite H45. reflexivity.
  - cbn in H2. apply andb_true_iff in H2. destruct H2 as [Hd _]. unfold is_digit in Hd. apply andb_true_iff in Hd.
    destruct Hd as [A B]. apply Z.leb_le in A, B. assert ((d =? 45) = false) as -> by (apply Z.eqb_neq; lia). reflexivity.
Qed.

(* ---------- integers through the scalar parser ---------- *)
Lemma digit_facts : forall c, is_digit c = true ->
  (c =? 45) = false /\ (c =? SQ) = false /\ is_letter c = false /\ (c =? 91) = false /\ (c =? 40) = false /\ (c =? 123) = false /\
  is_space c = false /\ (c =? 93) = false /\ (c =? 41) = false /\ (c =? 125) = false /\ (c =? 44) = false /\ (c =? 58) = false.
Proof.
  intros c H. unfold is_digit in H. apply andb_true_iff in H. destruct H as [A B]. apply Z.leb_le in A, B.
  unfold is_letter, is_upper, is_lower, is_space, SQ. repeat split; try (apply Z.eqb_neq; lia).
  - apply orb_false_iff; split; apply andb_false_iff; left; apply Z.leb_gt; lia.
  - repeat (apply orb_false_iff; split); apply Z.eqb_neq; lia.
Qed.

Lemma lex_number_tail : forall rest, ends_ok rest = true ->
  (match rest with
   | c :: s' => if c =? 46 then let '(d, r) := span is_digit s' in (46 :: d, r) else ([], rest)
   | [] => ([], rest)
   end) = ([], rest) /\
  (match rest with
   | e :: s' =>
       if (e =? 101) || (e =? 69) then
         let '(sg, s'') := match s' with
                           | x :: t => if (x =? 43) || (x =? 45) then ([x], t) else ([], s')
                           | [] => ([], s')
                           end in
         let '(d, r) := span is_digit s'' in
         match d with [] => ([], rest) | _ => (e :: sg ++ d, r) end
       else ([], rest)
   | [] => ([], rest)
   end) = ([] : str, rest).
Proof.
  intros [|c r] H; [split; reflexivity|]. cbn in H. apply delim_facts in H.
  destruct H as (_ & _ & _ & H46 & H101 & H69 & _). rewrite H46, H101, H69. split; reflexivity.
Qed.

Lemma lex_number_str_int : forall z rest, ends_ok rest = true ->
  lex_number (str_int z ++ rest) = Some (false, str_int z, rest).
Proof.
  intros z rest Hr. destruct (lex_number_tail rest Hr) as [T1 T2].
  unfold str_int. destruct (z <? 0) eqn:Hneg.
  - apply Z.ltb_lt in Hneg. unfold lex_number. cbn [app]. change (45 =? 45) with true. cbv iota.
    rewrite (span_app _ _ _ (str_nat_digits (- z) ltac:(lia)) (ends_stops_digit _ Hr)).
    pose proof (str_nat_nonempty (- z)) as Hne. destruct (str_nat (- z)) as [|d ds] eqn:E; [contradiction|].
    rewrite T1, T2. cbn [is_nil andb negb app]. rewrite app_nil_r. reflexivity.
  - apply Z.ltb_ge in Hneg. destruct (str_nat_head z Hneg) as (c & r & E & Hc).
    pose proof (str_nat_digits z Hneg) as Hd. rewrite E in *. destruct (digit_facts c Hc) as (H45 & _).
    unfold lex_number. cbn [app]. rewrite H45.
    change (c :: r ++ rest) with ((c :: r) ++ rest). rewrite (span_app _ _ _ Hd (ends_stops_digit _ Hr)).
    rewrite T1, T2. cbn [is_nil andb negb app]. rewrite app_nil_r. reflexivity.
Qed.

Lemma str_int_head : forall z, exists c r, str_int z = c :: r /\ (is_digit c = true \/ (c = 45 /\ exists d r', r = d :: r' /\ is_digit d = true)).
Proof.
  intros z. unfold str_int. destruct (z <? 0) eqn:Hneg.
  - apply Z.ltb_lt in Hneg. destruct (str_nat_head (- z) ltac:(lia)) as (d & r' & E & Hd).
    exists 45, (str_nat (- z)). split; [reflexivity|]. right. split; [reflexivity|]. exists d, r'. split; assumption.
  - apply Z.ltb_ge in Hneg. destruct (str_nat_head z Hneg) as (c & r & E & Hc). exists c, r. split; [assumption|left; assumption].
Qed.

Lemma uuid_split_str_int : forall z rest, ends_ok rest = true -> uuid_split (str_int z ++ rest) = None.
Proof.
  intros z rest Hr. unfold str_int. destruct (z <? 0) eqn:Hneg.
  - reflexivity.
  - apply Z.ltb_ge in Hneg. apply uuid_split_digits; [apply str_nat_digits; assumption|assumption].
Qed.

Lemma parse_scalar_int : forall z rest, ends_ok rest = true -> parse_scalar (str_int z ++ rest) = Some (TInt z, rest).
Proof.
  intros z rest Hr.
  pose proof (uuid_split_str_int z rest Hr) as Hu. pose proof (lex_number_str_int z rest Hr) as Hn.
  pose proof (lex_integer_str_int_app z rest (ends_stops_digit _ Hr)) as Hi.
  destruct (str_int_head z) as (c & r & E & Hc). rewrite E in *. cbn [app] in *.
  unfold parse_scalar. rewrite Hu, Hn, Hi, Hr.
  destruct Hc as [Hc|(-> & d & r' & -> & Hd)].
  - destruct (digit_facts c Hc) as (H45 & Hsq & Hlet & _). rewrite Hsq, Hlet, H45. reflexivity.
  - destruct (digit_facts d Hd) as (_ & _ & Hlet & _). cbn [app]. rewrite Hlet. reflexivity.
Qed.

(* ---------- words ---------- *)
Lemma lex_word_app : forall w rest, forallb is_ident_char w = true -> ends_ok rest = true ->
  lex_word (w ++ rest) = (map to_lower w, rest).
Proof. intros w rest Hw Hr. unfold lex_word. rewrite (span_app _ _ _ Hw (ends_stops_ident _ Hr)). reflexivity. Qed.

Lemma parse_scalar_null : forall rest, ends_ok rest = true -> parse_scalar (codes "NULL" ++ rest) = Some (TNull, rest).
Proof.
  intros rest Hr. pose proof (lex_word_app (codes "NULL") rest eq_refl Hr) as Hw.
  change (codes "NULL") with [78; 85; 76; 76] in *. cbn [app] in *. unfold parse_scalar. rewrite Hw. reflexivity.
Qed.

Lemma parse_scalar_true : forall rest, ends_ok rest = true -> parse_scalar (codes "True" ++ rest) = Some (TBool true, rest).
Proof.
  intros rest Hr. pose proof (lex_word_app (codes "True") rest eq_refl Hr) as Hw.
  change (codes "True") with [84; 114; 117; 101] in *. cbn [app] in *. unfold parse_scalar. rewrite Hw. reflexivity.
Qed.

Lemma parse_scalar_false : forall rest, ends_ok rest = true -> parse_scalar (codes "False" ++ rest) = Some (TBool false, rest).
Proof.
  intros rest Hr. pose proof (lex_word_app (codes "False") rest eq_refl Hr) as Hw.
  change (codes "False") with [70; 97; 108; 115; 101] in *. cbn [app] in *. unfold parse_scalar. rewrite Hw. reflexivity.
Qed.

Lemma parse_scalar_nan : forall rest, ends_ok rest = true -> parse_scalar (codes "NaN" ++ rest) = Some (TNan, rest).
Proof.
  intros rest Hr. pose proof (lex_word_app (codes "NaN") rest eq_refl Hr) as Hw.
  change (codes "NaN") with [78; 97; 78] in *. cbn [app] in *. unfold parse_scalar. rewrite Hw. reflexivity.
Qed.

Lemma parse_scalar_inf : forall rest, ends_ok rest = true -> parse_scalar (codes "Infinity" ++ rest) = Some (TInf false, rest).
Proof.
  intros rest Hr. pose proof (lex_word_app (codes "Infinity") rest eq_refl Hr) as Hw.
  change (codes "Infinity") with [73; 110; 102; 105; 110; 105; 116; 121] in *. cbn [app] in *. unfold parse_scalar. rewrite Hw. reflexivity.
Qed.

Lemma parse_scalar_neginf : forall rest, ends_ok rest = true -> parse_scalar (codes "-Infinity" ++ rest) = Some (TInf true, rest).
Proof.
  intros rest Hr. pose proof (lex_word_app (codes "Infinity") rest eq_refl Hr) as Hw.
  change (codes "-Infinity") with (45 :: [73; 110; 102; 105; 110; 105; 116; 121]).
  change (codes "Infinity") with [73; 110; 102; 105; 110; 105; 116; 121] in *. cbn [app] in *. unfold parse_scalar.
  change (45 =? SQ) with false. cbv iota.
  assert (uuid_split (45 :: 73 :: 110 :: 102 :: 105 :: 110 :: 105 :: 116 :: 121 :: rest) = None) as -> by reflexivity.
  change (is_letter 45) with false. cbv iota. change ((45 =? 45) && is_letter 73) with true. cbv iota.
  rewrite Hw. reflexivity.
Qed.

(* ---------- strings, blobs, uuids ---------- *)
Lemma parse_scalar_str : forall s rest, ends_ok rest = true -> parse_scalar (cql_quote s ++ rest) = Some (TStr s, rest).
Proof.
  intros s rest Hr. pose proof (lex_string_cql_quote_app s rest (ends_stops_sq _ Hr)) as H.
  unfold cql_quote, lex_string in *. cbn [app] in *. unfold parse_scalar. rewrite Z.eqb_refl in *. rewrite H. reflexivity.
Qed.

Lemma lex_quoted_raw : forall text rest, no_quote text = true -> stops (Z.eqb SQ) rest ->
  lex_quoted_body SQ (text ++ SQ :: rest) = Some (text, rest).
Proof.
  intros text rest Hn Hst. rewrite <- (lex_quoted_body_esc SQ text rest Hst). f_equal. f_equal.
  unfold double_q. induction text as [|c t IH]; [reflexivity|]. cbn in Hn. apply andb_true_iff in Hn. destruct Hn as [Hc Ht].
  cbn [flat_map]. apply negb_true_iff in Hc. rewrite Hc. cbn [app]. f_equal. apply IH. assumption.
Qed.

Lemma parse_scalar_quoted : forall text rest, no_quote text = true -> ends_ok rest = true ->
  parse_scalar (quoted_raw text ++ rest) = Some (TStr text, rest).
Proof.
  intros text rest Hn Hr. unfold quoted_raw. cbn [app]. rewrite <- app_assoc. cbn [app]. unfold parse_scalar.
  rewrite Z.eqb_refl. rewrite (lex_quoted_raw _ _ Hn (ends_stops_sq _ Hr)). reflexivity.
Qed.

Lemma parse_scalar_blob : forall bs rest, forallb is_byte bs = true -> ends_ok rest = true ->
  parse_scalar (hex_blob bs ++ rest) = Some (THex bs, rest).
Proof.
  intros bs rest Hb Hr. unfold hex_blob. cbn [app]. unfold parse_scalar.
  change (48 =? SQ) with false. cbv iota.
  assert (uuid_split (48 :: 120 :: hexlify bs ++ rest) = None) as -> by reflexivity.
  change (is_letter 48) with false. cbv iota. change ((48 =? 45) && _) with false. cbv iota.
  assert (lex_number (48 :: 120 :: hexlify bs ++ rest) = Some (false, [48], 120 :: hexlify bs ++ rest)) as -> by reflexivity.
  change (ends_ok (120 :: hexlify bs ++ rest)) with false. cbv iota.
  change ((48 =? 48) && ((120 =? 120) || (120 =? 88))) with true. cbv iota. cbn [tl].
  rewrite (span_app _ _ _ (hexlify_all_hex bs Hb) (ends_stops_hex _ Hr)). rewrite (unhex_hexlify bs Hb). reflexivity.
Qed.

Lemma firstn_len_app : forall (text rest : str) n, length text = n -> firstn n (text ++ rest) = text.
Proof.
  intros text rest n H. subst n. rewrite firstn_app, Nat.sub_diag, firstn_all. cbn [firstn]. apply app_nil_r.
Qed.

Lemma parse_scalar_uuid : forall text rest, uuid_shape text = true -> parse_scalar (text ++ rest) = Some (TUuid text, rest).
Proof.
  intros text rest H. unfold uuid_shape in H. destruct (uuid_split text) as [[|x y]|] eqn:E; try discriminate.
  destruct (uuid_split_app text rest E) as [Hs Hl]. destruct (uuid_head text E) as (c & r & Et & Hc).
  destruct (hex_head_facts c Hc) as (Hsq & _).
  pose proof (firstn_len_app text rest 36 Hl) as Hf.
  rewrite Et in *. cbn [app] in *. unfold parse_scalar. rewrite Hsq, Hs, Hf. reflexivity.
Qed.

(* ====================================================================== *)
Section Enc.
Variable F : Type.
Variable repr_float : F -> str.
Variable read_float : str -> option F.
Variable str_decimal : bool -> Z -> Z -> str.
Variable dec_to_float : bool -> Z -> Z -> fval F.

(* assumed laws of Python's printing (checked on every generated float / Decimal by checks/C29.py):
   repr(float) of a finite float is read by the term parser as one FLOAT token with the same text, and
   Double.parseDouble gives the float back; str(Decimal) likewise is one INTEGER (exponent 0) or FLOAT token from which
   BigDecimal(String) recovers (unscaled, scale). *)
Hypothesis float_parses : forall f fuel rest, ends_ok rest = true ->
  parse_term (S fuel) (repr_float f ++ rest) = Some (TFloat (repr_float f), rest).
Hypothesis float_reads : forall f, read_float (repr_float f) = Some f.
Hypothesis float_head : forall f, head_ok (repr_float f) = true.
Hypothesis decimal_parses : forall neg c e fuel rest, 0 <= c -> ends_ok rest = true ->
  parse_term (S fuel) (str_decimal neg c e ++ rest) =
  Some (if e =? 0 then TInt (if neg then - c else c) else TFloat (str_decimal neg c e), rest).
Hypothesis decimal_reads : forall neg c e, 0 <= c -> e <> 0 ->
  read_decimal (str_decimal neg c e) = Some (if neg then - c else c, - e).
Hypothesis decimal_head : forall neg c e, 0 <= c -> head_ok (str_decimal neg c e) = true.

Notation pv := (pv F).
Notation pvs := (pvs F).
Notation pvm := (pvm F).
Notation enc := (encode F repr_float str_decimal dec_to_float false false).
Notation enc_elems := (encode_elems F repr_float str_decimal dec_to_float false false).
Notation enc_entries := (encode_entries F repr_float str_decimal dec_to_float false false).
Notation tm := (term_of F repr_float str_decimal).
Notation tms := (terms_of F repr_float str_decimal).
Notation tmm := (tmap_of F repr_float str_decimal).

Scheme pv_ind' := Induction for Encoder.pv Sort Prop
  with pvs_ind' := Induction for Encoder.pvs Sort Prop
  with pvm_ind' := Induction for Encoder.pvm Sort Prop.
Combined Scheme pv_mutind from pv_ind', pvs_ind', pvm_ind'.

(* a scalar literal through parse_term *)
Lemma parse_term_scalar : forall fuel s t rest, scalar_head s = true -> ends_ok rest = true ->
  parse_scalar (s ++ rest) = Some (t, rest) -> parse_term (S fuel) (s ++ rest) = Some (t, rest).
Proof.
  intros fuel s t rest Hh Hr Hp. destruct s as [|c s]; [discriminate|]. cbn [app] in *. cbn in Hh.
  repeat (apply andb_true_iff in Hh; destruct Hh as [Hh ?]). apply negb_true_iff in Hh, H, H0.
  cbn [parse_term]. rewrite Hh, H0, H. rewrite Hp, Hr. reflexivity.
Qed.

Lemma scalar_head_of_digit_or_minus : forall c r, (is_digit c = true \/ c = 45) -> scalar_head (c :: r) = true /\ head_ok (c :: r) = true.
Proof.
  intros c r [H| ->]; [|split; reflexivity]. destruct (digit_facts c H) as (_ & _ & _ & A & B & C & D & E1 & E2 & E3 & E4 & E5).
  cbn. rewrite A, B, C, D, E1, E2, E3, E4, E5. split; reflexivity.
Qed.

Lemma str_int_heads : forall z, scalar_head (str_int z) = true /\ head_ok (str_int z) = true.
Proof.
  intros z. destruct (str_int_head z) as (c & r & -> & [H|(-> & _)]); apply scalar_head_of_digit_or_minus; [left; assumption|right; reflexivity].
Qed.

(* head of every literal *)
Lemma enc_head : forall v, supported F v = true -> head_ok (enc v) = true.
Proof.
  intros v Hs. destruct v; cbn [encode andb]; try reflexivity.
  - destruct b; reflexivity.
  - apply str_int_heads.
  - destruct f as [|[|]|f]; try reflexivity. apply float_head.
  - cbn in Hs. apply decimal_head. apply Z.leb_le. assumption.
  - cbn in Hs. unfold uuid_shape in Hs. destruct (uuid_split text) as [[|x y]|] eqn:E; try discriminate.
    destruct (uuid_head text E) as (c & r & -> & Hc). destruct (hex_head_facts c Hc) as (_ & _ & _ & _ & A & B & C & D & E1 & E2).
    cbn. rewrite A, B, C, D, E1, E2. reflexivity.
  - apply str_int_heads.
  - apply str_int_heads.
  - destruct k; reflexivity.
Qed.

Lemma enc_elems_head : forall v l, supported F v = true -> head_ok (enc_elems (PCons v l)) = true.
Proof. intros v l Hs. cbn [encode_elems]. destruct l; [apply enc_head; assumption|apply head_ok_app, enc_head; assumption]. Qed.

Lemma enc_entries_head : forall k v l, supported F k = true -> head_ok (enc_entries (MCons k v l)) = true.
Proof. intros k v l Hs. cbn [encode_entries]. destruct l; apply head_ok_app, enc_head; assumption. Qed.

Definition closes (rest : str) : Prop := exists c r, rest = c :: r /\ (c = 93 \/ c = 41 \/ c = 125).

Lemma closes_ends : forall rest, closes rest -> ends_ok rest = true.
Proof. intros rest (c & r & -> & [-> |[-> | ->]]); reflexivity. Qed.

Lemma closes_no_comma : forall rest, closes rest -> expect 44 rest = None.
Proof. intros rest (c & r & -> & [-> |[-> | ->]]); reflexivity. Qed.

(* unfolding equations stated with the constants (cbn would expose the inner mutual fix) *)
Lemma enc_set : forall sub l, enc (VSet sub l) = 123 :: enc_elems l ++ [125].
Proof. reflexivity. Qed.
Lemma enc_map : forall sub l, enc (VMap sub l) = 123 :: enc_entries l ++ [125].
Proof. reflexivity. Qed.
Lemma enc_elems_1 : forall v, enc_elems (PCons v PNil) = enc v.
Proof. reflexivity. Qed.
Lemma enc_elems_2 : forall v v2 l2, enc_elems (PCons v (PCons v2 l2)) = enc v ++ sep ++ enc_elems (PCons v2 l2).
Proof. reflexivity. Qed.
Lemma enc_entries_1 : forall k v, enc_entries (MCons k v MNil) = enc k ++ kvsep ++ enc v.
Proof. reflexivity. Qed.
Lemma enc_entries_2 : forall k v k2 v2 l2, enc_entries (MCons k v (MCons k2 v2 l2)) = enc k ++ kvsep ++ enc v ++ sep ++ enc_entries (MCons k2 v2 l2).
Proof. reflexivity. Qed.

Lemma needs_cons : forall v l, needs F (PCons v l) = S (Nat.max (need F v) (needs F l)).
Proof. reflexivity. Qed.
Lemma needm_cons : forall k v l, needm F (MCons k v l) = S (Nat.max (need F k) (Nat.max (need F v) (needm F l))).
Proof. reflexivity. Qed.

Lemma closes_no_colon : forall rest, closes rest -> expect 58 rest = None.
Proof. intros rest (c & r & -> & [-> |[-> | ->]]); reflexivity. Qed.

Lemma skip_space_cons : forall X, skip_spaces (32 :: X) = skip_spaces X.
Proof. intros X. unfold skip_spaces. cbn [span]. change (is_space 32) with true. cbv iota. destruct (span is_space X). reflexivity. Qed.

(* the main lemma *)
Definition P_v (v : pv) : Prop :=
  supported F v = true -> forall fuel rest, (need F v <= fuel)%nat -> ends_ok rest = true ->
  parse_term fuel (enc v ++ rest) = Some (tm v, rest).
Definition P_s (l : pvs) : Prop :=
  supporteds F l = true -> l <> PNil -> forall fuel rest, (needs F l <= fuel)%nat -> closes rest ->
  parse_elems fuel (enc_elems l ++ rest) = Some (tms l, rest) /\ parse_entries fuel (enc_elems l ++ rest) = None.
Definition P_m (l : pvm) : Prop :=
  supportedm F l = true -> l <> MNil -> forall fuel rest, (needm F l <= fuel)%nat -> closes rest ->
  parse_entries fuel (enc_entries l ++ rest) = Some (tmm l, rest).

Lemma parse_enc : (forall v, P_v v) /\ (forall l, P_s l) /\ (forall l, P_m l).
Proof.
  apply pv_mutind; unfold P_v, P_s, P_m.
  - (* VNone *) intros _ fuel rest Hf Hr. destruct fuel as [|fuel]; [cbn in Hf; lia|].
    apply parse_term_scalar; [reflexivity|assumption|apply parse_scalar_null; assumption].
  - (* VBool *) intros b _ fuel rest Hf Hr. destruct fuel as [|fuel]; [cbn in Hf; lia|]. destruct b; cbn [encode term_of].
    + apply parse_term_scalar; [reflexivity|assumption|apply parse_scalar_true; assumption].
    + apply parse_term_scalar; [reflexivity|assumption|apply parse_scalar_false; assumption].
  - (* VInt *) intros sub z _ fuel rest Hf Hr. destruct fuel as [|fuel]; [cbn in Hf; lia|]. cbn [encode term_of].
    apply parse_term_scalar; [apply str_int_heads|assumption|apply parse_scalar_int; assumption].
  - (* VFloat *) intros sub f _ fuel rest Hf Hr. destruct fuel as [|fuel]; [cbn in Hf; lia|]. cbn [encode term_of andb].
    destruct f as [|[|]|f]; cbn [encode_float].
    + apply parse_term_scalar; [reflexivity|assumption|apply parse_scalar_nan; assumption].
    + apply parse_term_scalar; [reflexivity|assumption|apply parse_scalar_neginf; assumption].
    + apply parse_term_scalar; [reflexivity|assumption|apply parse_scalar_inf; assumption].
    + apply float_parses; assumption.
  - (* VDecimal *) intros sub neg c e Hs fuel rest Hf Hr. destruct fuel as [|fuel]; [cbn in Hf; lia|]. cbn [encode term_of andb orb negb].
    cbn in Hs. apply Z.leb_le in Hs. apply decimal_parses; assumption.
  - (* VStr *) intros sub s _ fuel rest Hf Hr. destruct fuel as [|fuel]; [cbn in Hf; lia|]. cbn [encode term_of andb].
    apply parse_term_scalar; [reflexivity|assumption|apply parse_scalar_str; assumption].
  - (* VBytes *) intros sub bs Hs fuel rest Hf Hr. destruct fuel as [|fuel]; [cbn in Hf; lia|]. cbn [encode term_of andb].
    apply parse_term_scalar; [reflexivity|assumption|apply parse_scalar_blob; assumption].
  - (* VUuid *) intros sub text Hs fuel rest Hf Hr. destruct fuel as [|fuel]; [cbn in Hf; lia|]. cbn [encode term_of]. cbn in Hs.
    apply parse_term_scalar; [|assumption|apply parse_scalar_uuid; assumption].
    unfold uuid_shape in Hs. destruct (uuid_split text) as [[|x y]|] eqn:E; try discriminate.
    destruct (uuid_head text E) as (c & r & -> & Hc). destruct (hex_head_facts c Hc) as (_ & A & B & C & _). cbn. rewrite A, B, C. reflexivity.
  - (* VQuoted *) intros sub k text Hs fuel rest Hf Hr. destruct fuel as [|fuel]; [cbn in Hf; lia|]. cbn [encode term_of andb].
    apply parse_term_scalar; [reflexivity|assumption|apply parse_scalar_quoted; assumption].
  - (* VTimestamp *) intros sub ms _ fuel rest Hf Hr. destruct fuel as [|fuel]; [cbn in Hf; lia|]. cbn [encode term_of andb].
    apply parse_term_scalar; [apply str_int_heads|assumption|apply parse_scalar_int; assumption].
  - (* VDateExt *) intros d _ fuel rest Hf Hr. destruct fuel as [|fuel]; [cbn in Hf; lia|]. cbn [encode term_of].
    apply parse_term_scalar; [apply str_int_heads|assumption|apply parse_scalar_int; assumption].
  - (* VSeq *) intros sub k l IH Hs fuel rest Hf Hr. cbn in Hs. cbn in Hf. destruct fuel as [|fuel]; [lia|]. assert (Hfl : forall n, (S n <= S fuel)%nat -> (n <= fuel)%nat) by (intros; lia). apply Hfl in Hf.
    cbn [encode andb].
    assert (forall (o cl : Z) (mk : terms -> term), o = 91 /\ cl = 93 /\ mk = TList \/ o = 40 /\ cl = 41 /\ mk = TTuple ->
              parse_term (S fuel) ((o :: enc_elems l ++ [cl]) ++ rest) = Some (mk (tms l), rest)) as Hgen.
    { intros o cl mk Hk. rewrite <- app_comm_cons, <- app_assoc. cbn [app].
      destruct l as [|v l'].
      - cbn [encode_elems terms_of app]. destruct Hk as [(-> & -> & ->)|(-> & -> & ->)]; cbn [parse_term];
          [change (91 =? 91) with true|change (40 =? 91) with false; change (40 =? 40) with true]; cbv iota;
          rewrite expect_hit by reflexivity; reflexivity.
      - assert (Hh : head_ok (enc_elems (PCons v l') ++ cl :: rest) = true).
        { apply head_ok_app, enc_elems_head. cbn in Hs. apply andb_true_iff in Hs. tauto. }
        assert (Hcl : closes (cl :: rest)). { exists cl, rest. split; [reflexivity|]. destruct Hk as [(_ & -> & _)|(_ & -> & _)]; tauto. }
        destruct (IH Hs ltac:(discriminate) fuel (cl :: rest) Hf Hcl) as [IHe _].
        destruct Hk as [(-> & -> & ->)|(-> & -> & ->)]; cbn [parse_term];
          [change (91 =? 91) with true|change (40 =? 91) with false; change (40 =? 40) with true]; cbv iota;
          (rewrite expect_miss by (try exact Hh; auto 10)); rewrite (skip_head _ Hh), IHe; rewrite expect_hit by reflexivity; reflexivity. }
    destruct k; cbn [term_of].
    + apply Hgen. left. tauto.
    + apply Hgen. left. tauto.
    + apply Hgen. right. tauto.
  - (* VSet *) intros sub l IH Hs fuel rest Hf Hr. cbn in Hs. cbn in Hf. destruct fuel as [|fuel]; [lia|]. assert (Hfl : forall n, (S n <= S fuel)%nat -> (n <= fuel)%nat) by (intros; lia). apply Hfl in Hf.
    rewrite enc_set. rewrite <- app_comm_cons, <- app_assoc. cbn [app].
    destruct l as [|v l'].
    + cbn [encode_elems terms_of app parse_term].
      change (123 =? 91) with false. change (123 =? 40) with false. change (123 =? 123) with true. cbv iota.
      rewrite expect_hit by reflexivity. reflexivity.
    + assert (Hsv : supported F v = true) by (cbn in Hs; apply andb_true_iff in Hs; tauto).
      assert (Hh : head_ok (enc_elems (PCons v l') ++ 125 :: rest) = true) by (apply head_ok_app, enc_elems_head; assumption).
      assert (Hcl : closes (125 :: rest)) by (exists 125, rest; tauto).
      destruct (IH Hs ltac:(discriminate) fuel (125 :: rest) Hf Hcl) as [IHe IHn].
      set (E := enc_elems (PCons v l')) in *. clearbody E.
      cbn [parse_term].
      change (123 =? 91) with false. change (123 =? 40) with false. change (123 =? 123) with true. cbv iota.
      rewrite expect_miss by (try exact Hh; auto 10). rewrite (skip_head _ Hh), IHn, IHe.
      rewrite expect_hit by reflexivity. reflexivity.
  - (* VMap *) intros sub l IH Hs fuel rest Hf Hr. cbn in Hs. cbn in Hf. destruct fuel as [|fuel]; [lia|]. assert (Hfl : forall n, (S n <= S fuel)%nat -> (n <= fuel)%nat) by (intros; lia). apply Hfl in Hf.
    rewrite enc_map. rewrite <- app_comm_cons, <- app_assoc. cbn [app].
    destruct l as [|k v l'].
    + cbn [encode_entries term_of app parse_term].
      change (123 =? 91) with false. change (123 =? 40) with false. change (123 =? 123) with true. cbv iota.
      rewrite expect_hit by reflexivity. reflexivity.
    + assert (Hsk : supported F k = true) by (cbn in Hs; apply andb_true_iff in Hs; destruct Hs as [Hs _]; apply andb_true_iff in Hs; tauto).
      assert (Hh : head_ok (enc_entries (MCons k v l') ++ 125 :: rest) = true) by (apply head_ok_app, enc_entries_head; assumption).
      assert (Hcl : closes (125 :: rest)) by (exists 125, rest; tauto).
      pose proof (IH Hs ltac:(discriminate) fuel (125 :: rest) Hf Hcl) as IHe.
      set (E := enc_entries (MCons k v l')) in *. clearbody E.
      cbn [parse_term].
      change (123 =? 91) with false. change (123 =? 40) with false. change (123 =? 123) with true. cbv iota.
      rewrite expect_miss by (try exact Hh; auto 10). rewrite (skip_head _ Hh), IHe.
      rewrite expect_hit by reflexivity. reflexivity.
  - (* PNil *) intros _ Hne. contradiction.
  - (* PCons *) intros v IHv l IHl Hs _ fuel rest Hf Hcl. cbn in Hs. apply andb_true_iff in Hs. destruct Hs as [Hsv Hsl].
    rewrite needs_cons in Hf. destruct fuel as [|f]; [lia|].
    assert (Hfv : (need F v <= f)%nat) by lia. assert (Hfl : (needs F l <= f)%nat) by lia.
    destruct l as [|v2 l2].
    + rewrite enc_elems_1. cbn [parse_elems parse_entries].
      rewrite (IHv Hsv f rest Hfv (closes_ends _ Hcl)). rewrite (closes_no_comma _ Hcl), (closes_no_colon _ Hcl). split; reflexivity.
    + rewrite enc_elems_2.
      set (X := enc_elems (PCons v2 l2) ++ rest).
      assert (E : (enc v ++ sep ++ enc_elems (PCons v2 l2)) ++ rest = enc v ++ 44 :: 32 :: X).
      { unfold X, sep. rewrite <- !app_assoc. reflexivity. }
      rewrite E. cbn [parse_elems parse_entries].
      rewrite (IHv Hsv f (44 :: 32 :: X) Hfv eq_refl).
      rewrite expect_hit by reflexivity. rewrite (expect_other 58 44) by reflexivity.
      assert (HhX : head_ok X = true). { unfold X. apply head_ok_app, enc_elems_head. cbn in Hsl. apply andb_true_iff in Hsl. tauto. }
      rewrite skip_space_cons, (skip_head _ HhX).
      destruct (IHl Hsl ltac:(discriminate) f rest Hfl Hcl) as [IHe _]. unfold X. rewrite IHe. split; reflexivity.
  - (* MNil *) intros _ Hne. contradiction.
  - (* MCons *) intros k IHk v IHv l IHl Hs _ fuel rest Hf Hcl. cbn in Hs.
    apply andb_true_iff in Hs. destruct Hs as [Hs Hsl]. apply andb_true_iff in Hs. destruct Hs as [Hsk Hsv].
    rewrite needm_cons in Hf. destruct fuel as [|f]; [lia|].
    assert (Hfk : (need F k <= f)%nat) by lia. assert (Hfv : (need F v <= f)%nat) by lia. assert (Hfl : (needm F l <= f)%nat) by lia.
    destruct l as [|k2 v2 l2].
    + rewrite enc_entries_1.
      set (Y := enc v ++ rest).
      assert (E : (enc k ++ kvsep ++ enc v) ++ rest = enc k ++ 58 :: 32 :: Y). { unfold Y, kvsep. rewrite <- !app_assoc. reflexivity. }
      rewrite E. cbn [parse_entries]. rewrite (IHk Hsk f (58 :: 32 :: Y) Hfk eq_refl). rewrite expect_hit by reflexivity.
      assert (HhY : head_ok Y = true) by (unfold Y; apply head_ok_app, enc_head; assumption).
      rewrite skip_space_cons, (skip_head _ HhY). unfold Y. rewrite (IHv Hsv f rest Hfv (closes_ends _ Hcl)).
      rewrite (closes_no_comma _ Hcl). reflexivity.
    + rewrite enc_entries_2.
      set (Z0 := enc_entries (MCons k2 v2 l2) ++ rest). set (Y := enc v ++ 44 :: 32 :: Z0).
      assert (E : (enc k ++ kvsep ++ enc v ++ sep ++ enc_entries (MCons k2 v2 l2)) ++ rest = enc k ++ 58 :: 32 :: Y).
      { unfold Y, Z0, kvsep, sep. rewrite <- !app_assoc. reflexivity. }
      rewrite E. cbn [parse_entries]. rewrite (IHk Hsk f (58 :: 32 :: Y) Hfk eq_refl). rewrite expect_hit by reflexivity.
      assert (HhY : head_ok Y = true) by (unfold Y; apply head_ok_app, enc_head; assumption).
      rewrite skip_space_cons, (skip_head _ HhY). unfold Y. rewrite (IHv Hsv f (44 :: 32 :: Z0) Hfv eq_refl).
      rewrite expect_hit by reflexivity.
      assert (HhZ : head_ok Z0 = true).
      { unfold Z0. apply head_ok_app, enc_entries_head. cbn in Hsl. apply andb_true_iff in Hsl. destruct Hsl as [Hsl _]. apply andb_true_iff in Hsl. tauto. }
      rewrite skip_space_cons, (skip_head _ HhZ). unfold Z0. rewrite (IHl Hsl ltac:(discriminate) f rest Hfl Hcl). reflexivity.
Qed.

End Enc.

(* ====================================================================== *)
Section Enc2.
Variable F : Type.
Variable repr_float : F -> str.
Variable read_float : str -> option F.
Variable str_decimal : bool -> Z -> Z -> str.
Variable dec_to_float : bool -> Z -> Z -> fval F.
Hypothesis float_reads : forall f, read_float (repr_float f) = Some f.
Hypothesis float_head : forall f, head_ok (repr_float f) = true.
Hypothesis decimal_reads : forall neg c e, 0 <= c -> e <> 0 ->
  read_decimal (str_decimal neg c e) = Some (if neg then - c else c, - e).
Hypothesis decimal_head : forall neg c e, 0 <= c -> head_ok (str_decimal neg c e) = true.

Notation enc := (encode F repr_float str_decimal dec_to_float false false).
Notation enc_elems := (encode_elems F repr_float str_decimal dec_to_float false false).
Notation enc_entries := (encode_entries F repr_float str_decimal dec_to_float false false).
Notation tm := (term_of F repr_float str_decimal).
Notation tms := (terms_of F repr_float str_decimal).
Notation tmm := (tmap_of F repr_float str_decimal).
Notation den := (denote F read_float).
Notation den_list := (denote_list F read_float).
Notation den_map := (denote_map F read_float).

(* the denotation of the expected term is the prepared-path value *)
Lemma denote_term_of :
  (forall v : pv F, supported F v = true -> den (kind_of F v) (tm v) = Some (prepared F v)) /\
  (forall l : pvs F, supporteds F l = true -> den_list (kinds_of F l) (tms l) = Some (prepared_list F l)) /\
  (forall l : pvm F, supportedm F l = true -> den_map (kmap_of F l) (tmm l) = Some (prepared_map F l)).
Proof.
  apply pv_mutind; try (intros; reflexivity).
  - (* VFloat *) intros sub [|n|f] _; try reflexivity. cbn. rewrite float_reads. reflexivity.
  - (* VDecimal *) intros sub neg c e Hs. cbn in Hs. apply Z.leb_le in Hs. cbn [kind_of term_of prepared].
    destruct (e =? 0) eqn:E.
    + apply Z.eqb_eq in E. subst e. reflexivity.
    + apply Z.eqb_neq in E. cbn [denote]. rewrite (decimal_reads neg c e Hs E). reflexivity.
  - (* VSeq *) intros sub k l IH Hs. cbn in Hs. specialize (IH Hs). destruct k.
    + change (den (kind_of F (VSeq sub SList l)) (tm (VSeq sub SList l))) with
        (match den_list (kinds_of F l) (tms l) with Some l0 => Some (CList l0) | None => None end). rewrite IH. reflexivity.
    + change (den (kind_of F (VSeq sub STuple l)) (tm (VSeq sub STuple l))) with
        (match den_list (kinds_of F l) (tms l) with Some l0 => Some (CList l0) | None => None end). rewrite IH. reflexivity.
    + change (den (kind_of F (VSeq sub SValueSeq l)) (tm (VSeq sub SValueSeq l))) with
        (match den_list (kinds_of F l) (tms l) with Some l0 => Some (CTuple l0) | None => None end). rewrite IH. reflexivity.
  - (* VSet *) intros sub l IH Hs. cbn in Hs. specialize (IH Hs).
    change (den (kind_of F (VSet sub l)) (tm (VSet sub l))) with
        (match den_list (kinds_of F l) (tms l) with Some l0 => Some (CSet l0) | None => None end). rewrite IH. reflexivity.
  - (* VMap *) intros sub l IH Hs. cbn in Hs. specialize (IH Hs). destruct l as [|k v l']; [reflexivity|].
    change (den (kind_of F (VMap sub (MCons k v l'))) (tm (VMap sub (MCons k v l')))) with
        (match den_map (kmap_of F (MCons k v l')) (tmm (MCons k v l')) with Some l0 => Some (CMap l0) | None => None end).
    rewrite IH. reflexivity.
  - (* PCons *) intros v IHv l IHl Hs. cbn in Hs. apply andb_true_iff in Hs. destruct Hs as [Hv Hl].
    change (den_list (kinds_of F (PCons v l)) (tms (PCons v l))) with
      (match den (kind_of F v) (tm v), den_list (kinds_of F l) (tms l) with Some c, Some l0 => Some (c :: l0) | _, _ => None end).
    rewrite (IHv Hv), (IHl Hl). reflexivity.
  - (* MCons *) intros k IHk v IHv l IHl Hs. cbn in Hs. apply andb_true_iff in Hs. destruct Hs as [Hs Hl].
    apply andb_true_iff in Hs. destruct Hs as [Hk Hv].
    change (den_map (kmap_of F (MCons k v l)) (tmm (MCons k v l))) with
      (match den (kind_of F k) (tm k), den (kind_of F v) (tm v), den_map (kmap_of F l) (tmm l) with
       | Some a, Some b, Some l0 => Some ((a, b) :: l0) | _, _, _ => None end).
    rewrite (IHk Hk), (IHv Hv), (IHl Hl). reflexivity.
Qed.

(* fuel: the length of the literal is enough *)
Lemma head_len : forall s, head_ok s = true -> (1 <= length s)%nat.
Proof. intros [|c s] H; [discriminate|cbn; lia]. Qed.

Lemma need_le_len :
  (forall v : pv F, supported F v = true -> (need F v <= length (enc v))%nat) /\
  (forall l : pvs F, supporteds F l = true -> (needs F l <= S (length (enc_elems l)))%nat) /\
  (forall l : pvm F, supportedm F l = true -> (needm F l <= S (length (enc_entries l)))%nat).
Proof.
  apply pv_mutind.
  1-11: intros; apply head_len;
    match goal with |- head_ok (encode _ _ _ _ _ _ ?v) = true => apply (enc_head F repr_float str_decimal dec_to_float float_head decimal_head v); assumption end.
  - (* VSeq *) intros sub k l IH Hs. cbn in Hs. specialize (IH Hs).
    change (need F (VSeq sub k l)) with (S (needs F l)).
    destruct k.
    + change (enc (VSeq sub SList l)) with (91 :: enc_elems l ++ [93]). cbn [length]. rewrite app_length. cbn [length]. lia.
    + change (enc (VSeq sub STuple l)) with (91 :: enc_elems l ++ [93]). cbn [length]. rewrite app_length. cbn [length]. lia.
    + change (enc (VSeq sub SValueSeq l)) with (40 :: enc_elems l ++ [41]). cbn [length]. rewrite app_length. cbn [length]. lia.
  - intros sub l IH Hs. cbn in Hs. specialize (IH Hs). change (need F (VSet sub l)) with (S (needs F l)).
    rewrite enc_set. cbn [length]. rewrite app_length. cbn [length]. lia.
  - intros sub l IH Hs. cbn in Hs. specialize (IH Hs). change (need F (VMap sub l)) with (S (needm F l)).
    rewrite enc_map. cbn [length]. rewrite app_length. cbn [length]. lia.
  - intros _. cbn. lia.
  - intros v IHv l IHl Hs. cbn in Hs. apply andb_true_iff in Hs. destruct Hs as [Hv Hl]. specialize (IHv Hv). specialize (IHl Hl).
    rewrite needs_cons. destruct l as [|v2 l2].
    + rewrite enc_elems_1. change (needs F PNil) with O. lia.
    + rewrite enc_elems_2. rewrite !app_length. unfold sep. cbn [length]. lia.
  - intros _. cbn. lia.
  - intros k IHk v IHv l IHl Hs. cbn in Hs. apply andb_true_iff in Hs. destruct Hs as [Hs Hl].
    apply andb_true_iff in Hs. destruct Hs as [Hk Hv]. specialize (IHk Hk). specialize (IHv Hv). specialize (IHl Hl).
    rewrite needm_cons. destruct l as [|k2 v2 l2].
    + rewrite enc_entries_1. rewrite !app_length. unfold kvsep. cbn [length]. change (needm F MNil) with O. lia.
    + rewrite enc_entries_2. rewrite !app_length. unfold kvsep, sep. cbn [length]. lia.
Qed.

End Enc2.

Section Enc3.
Variable F : Type.
Variable repr_float : F -> str.
Variable str_decimal : bool -> Z -> Z -> str.
Variable dec_to_float : bool -> Z -> Z -> fval F.
Notation encode_with := (encode F repr_float str_decimal dec_to_float).

(* without subclass instances the exact-type dispatch and the MRO dispatch emit the same text *)
Lemma exact_same :
  (forall v, no_sub F v = true -> encode_with true false v = encode_with false false v) /\
  (forall l, no_subs F l = true -> encode_elems F repr_float str_decimal dec_to_float true false l = encode_elems F repr_float str_decimal dec_to_float false false l) /\
  (forall l, no_subm F l = true -> encode_entries F repr_float str_decimal dec_to_float true false l = encode_entries F repr_float str_decimal dec_to_float false false l).
Proof.
  apply pv_mutind; try (intros; reflexivity).
  - intros sub f H. cbn in H. apply negb_true_iff in H. subst. reflexivity.
  - intros sub neg c e H. cbn in H. apply negb_true_iff in H. subst. reflexivity.
  - intros sub s H. cbn in H. apply negb_true_iff in H. subst. reflexivity.
  - intros sub bs H. cbn in H. apply negb_true_iff in H. subst. reflexivity.
  - intros sub k text H. cbn in H. apply negb_true_iff in H. subst. reflexivity.
  - intros sub ms H. cbn in H. apply negb_true_iff in H. subst. reflexivity.
  - intros sub k l IH H. cbn in H. apply andb_true_iff in H. destruct H as [H Hl]. apply negb_true_iff in H. subst.
    specialize (IH Hl). destruct k.
    + change (encode_with true false (VSeq false SList l)) with (91 :: encode_elems F repr_float str_decimal dec_to_float true false l ++ [93]). rewrite IH. reflexivity.
    + change (encode_with true false (VSeq false STuple l)) with (91 :: encode_elems F repr_float str_decimal dec_to_float true false l ++ [93]). rewrite IH. reflexivity.
    + change (encode_with true false (VSeq false SValueSeq l)) with (40 :: encode_elems F repr_float str_decimal dec_to_float true false l ++ [41]). rewrite IH. reflexivity.
  - intros sub l IH H. cbn in H. apply andb_true_iff in H. destruct H as [H Hl]. apply negb_true_iff in H. subst.
    change (encode_with true false (VSet false l)) with (123 :: encode_elems F repr_float str_decimal dec_to_float true false l ++ [125]). rewrite (IH Hl). reflexivity.
  - intros sub l IH H. cbn in H. apply andb_true_iff in H. destruct H as [H Hl]. apply negb_true_iff in H. subst.
    change (encode_with true false (VMap false l)) with (123 :: encode_entries F repr_float str_decimal dec_to_float true false l ++ [125]). rewrite (IH Hl). reflexivity.
  - intros v IHv l IHl H. cbn in H. apply andb_true_iff in H. destruct H as [Hv Hl]. specialize (IHv Hv). specialize (IHl Hl).
    destruct l as [|v2 l2].
    + change (encode_elems F repr_float str_decimal dec_to_float true false (PCons v PNil)) with (encode_with true false v). rewrite IHv. reflexivity.
    + change (encode_elems F repr_float str_decimal dec_to_float true false (PCons v (PCons v2 l2))) with
        (encode_with true false v ++ sep ++ encode_elems F repr_float str_decimal dec_to_float true false (PCons v2 l2)).
      rewrite IHv, IHl. reflexivity.
  - intros k IHk v IHv l IHl H. cbn in H. apply andb_true_iff in H. destruct H as [H Hl]. apply andb_true_iff in H. destruct H as [Hk Hv].
    specialize (IHk Hk). specialize (IHv Hv). specialize (IHl Hl). destruct l as [|k2 v2 l2].
    + change (encode_entries F repr_float str_decimal dec_to_float true false (MCons k v MNil)) with
        (encode_with true false k ++ kvsep ++ encode_with true false v). rewrite IHk, IHv. reflexivity.
    + change (encode_entries F repr_float str_decimal dec_to_float true false (MCons k v (MCons k2 v2 l2))) with
        (encode_with true false k ++ kvsep ++ encode_with true false v ++ sep ++ encode_entries F repr_float str_decimal dec_to_float true false (MCons k2 v2 l2)).
      rewrite IHk, IHv, IHl. reflexivity.
Qed.


End Enc3.
