(* Bit-level lemmas for 64-bit wrap-around reasoning on unbounded Z (used by C08). *)
From Coq Require Import ZArith Lia Bool.
Local Open Scope Z_scope.

Definition W64 : Z := 2 ^ 64.
Definition eqm64 (a b : Z) : Prop := a mod W64 = b mod W64.

Lemma W64_pos : 0 < W64. Proof. reflexivity. Qed.

Lemma eqm64_refl a : eqm64 a a. Proof. reflexivity. Qed.
Lemma eqm64_sym a b : eqm64 a b -> eqm64 b a. Proof. unfold eqm64; congruence. Qed.
Lemma eqm64_trans a b c : eqm64 a b -> eqm64 b c -> eqm64 a c. Proof. unfold eqm64; congruence. Qed.
Lemma eqm64_mod a : eqm64 (a mod W64) a. Proof. unfold eqm64. apply Z.mod_mod. unfold W64; lia. Qed.

Lemma eqm64_add a b c d : eqm64 a b -> eqm64 c d -> eqm64 (a + c) (b + d).
Proof. unfold eqm64. intros H1 H2. rewrite (Z.add_mod a c), (Z.add_mod b d), H1, H2 by (unfold W64; lia). reflexivity. Qed.
Lemma eqm64_mul a b c d : eqm64 a b -> eqm64 c d -> eqm64 (a * c) (b * d).
Proof. unfold eqm64. intros H1 H2. rewrite (Z.mul_mod a c), (Z.mul_mod b d), H1, H2 by (unfold W64; lia). reflexivity. Qed.

(* testbit characterisation of congruence mod 2^64 *)
Lemma eqm64_bits a b : (forall i, 0 <= i < 64 -> Z.testbit a i = Z.testbit b i) -> eqm64 a b.
Proof.
  intros H. unfold eqm64, W64. apply Z.bits_inj'. intros i Hi.
  destruct (Z_lt_dec i 64).
  - rewrite !Z.mod_pow2_bits_low by lia. apply H. lia.
  - rewrite !Z.mod_pow2_bits_high by lia. reflexivity.
Qed.

Lemma eqm64_testbit a b i : eqm64 a b -> 0 <= i < 64 -> Z.testbit a i = Z.testbit b i.
Proof.
  unfold eqm64, W64. intros H Hi.
  rewrite <- (Z.mod_pow2_bits_low a 64 i), <- (Z.mod_pow2_bits_low b 64 i) by lia. rewrite H. reflexivity.
Qed.

Lemma eqm64_lxor a b c d : eqm64 a b -> eqm64 c d -> eqm64 (Z.lxor a c) (Z.lxor b d).
Proof.
  intros H1 H2. apply eqm64_bits. intros i Hi. rewrite !Z.lxor_spec.
  rewrite (eqm64_testbit a b i H1 Hi), (eqm64_testbit c d i H2 Hi). reflexivity.
Qed.

Lemma eqm64_shiftl a b r : 0 <= r -> eqm64 a b -> eqm64 (Z.shiftl a r) (Z.shiftl b r).
Proof. intros Hr H. rewrite !Z.shiftl_mul_pow2 by assumption. apply eqm64_mul; [assumption|apply eqm64_refl]. Qed.

Lemma mod64_range a : 0 <= a mod W64 < W64.
Proof. apply Z.mod_pos_bound. apply W64_pos. Qed.

Lemma testbit_high_false x i : 0 <= x < W64 -> 64 <= i -> Z.testbit x i = false.
Proof.
  intros Hx Hi. destruct (Z.eq_dec x 0) as [->|Hn]; [apply Z.bits_0|].
  apply Z.bits_above_log2; [lia|]. assert (Z.log2 x < 64); [|lia].
  apply Z.log2_lt_pow2; [lia|]. unfold W64 in Hx. lia.
Qed.

(* true 64-bit rotation of a value in [0, 2^64) *)
Definition rotl_spec (x r : Z) : Z := (Z.lor (Z.shiftl x r) (Z.shiftr x (64 - r))) mod W64.

(* Python: mask = 2**r - 1; (x << r) | ((x >> 64 - r) & mask)  -- leaves high bits; congruent to the true rotation *)
Lemma rotl_py_congr x r :
  0 < r < 64 ->
  eqm64 (Z.lor (Z.shiftl x r) (Z.land (Z.shiftr x (64 - r)) (2 ^ r - 1))) (rotl_spec (x mod W64) r).
Proof.
  intros Hr. unfold rotl_spec. apply eqm64_sym. eapply eqm64_trans; [apply eqm64_mod|].
  apply eqm64_bits. intros i Hi.
  rewrite !Z.lor_spec, Z.land_spec, !Z.shiftl_spec, !Z.shiftr_spec by lia.
  replace (2 ^ r - 1) with (Z.ones r) by (rewrite Z.ones_equiv; lia).
  destruct (Z_lt_dec i r) as [Hlt|Hge].
  - rewrite Z.ones_spec_low by lia. rewrite andb_true_r.
    rewrite (Z.testbit_neg_r (x mod W64) (i - r)) by lia. rewrite (Z.testbit_neg_r x (i - r)) by lia. cbn [orb].
    unfold W64. apply Z.mod_pow2_bits_low. lia.
  - rewrite Z.ones_spec_high by lia. rewrite andb_false_r, orb_false_r.
    rewrite (testbit_high_false (x mod W64) (i + (64 - r))) by (try apply mod64_range; lia).
    rewrite orb_false_r. unfold W64. apply Z.mod_pow2_bits_low. lia.
Qed.

(* fmix step, Python: k ^ ((k >> 33) & 0x7fffffff);  spec: k' ^ (k' >>> 33) on k' = k mod 2^64 *)
Lemma fmix_step_congr k :
  eqm64 (Z.lxor k (Z.land (Z.shiftr k 33) 2147483647)) (Z.lxor (k mod W64) (Z.shiftr (k mod W64) 33)).
Proof.
  apply eqm64_bits. intros i Hi. rewrite !Z.lxor_spec, Z.land_spec, !Z.shiftr_spec by lia.
  change 2147483647 with (Z.ones 31).
  replace (Z.testbit (k mod W64) i) with (Z.testbit k i) by (symmetry; unfold W64; apply Z.mod_pow2_bits_low; lia).
  f_equal. destruct (Z_lt_dec i 31).
  - rewrite Z.ones_spec_low by lia. rewrite andb_true_r. symmetry. unfold W64. apply Z.mod_pow2_bits_low. lia.
  - rewrite Z.ones_spec_high by lia. rewrite andb_false_r. symmetry. apply testbit_high_false; [apply mod64_range|lia].
Qed.

Lemma lxor_range a b : 0 <= a < W64 -> 0 <= b < W64 -> 0 <= Z.lxor a b < W64.
Proof.
  intros Ha Hb. split; [apply Z.lxor_nonneg; lia|].
  destruct (Z.eq_dec (Z.lxor a b) 0) as [->|Hn]; [reflexivity|].
  assert (H0 : 0 <= Z.lxor a b) by (apply Z.lxor_nonneg; lia).
  unfold W64. apply Z.log2_lt_pow2; [lia|].
  destruct (Z_lt_dec (Z.log2 (Z.lxor a b)) 64) as [|Hge]; [assumption|exfalso].
  assert (Hb1 : Z.testbit (Z.lxor a b) (Z.log2 (Z.lxor a b)) = true) by (apply Z.bit_log2; lia).
  rewrite Z.lxor_spec in Hb1.
  rewrite (testbit_high_false a) in Hb1 by lia. rewrite (testbit_high_false b) in Hb1 by lia. discriminate.
Qed.

(* signed interpretation of a 64-bit word, and Python's truncate_int64 *)
Definition signed64 (x : Z) : Z := let y := x mod W64 in if y <? 2 ^ 63 then y else y - W64.

Lemma signed64_congr a b : eqm64 a b -> signed64 a = signed64 b.
Proof. unfold signed64, eqm64. intros ->. reflexivity. Qed.

Lemma signed64_range x : - 2 ^ 63 <= signed64 x < 2 ^ 63.
Proof. unfold signed64. pose proof (mod64_range x) as H. unfold W64 in *. destruct (x mod 2 ^ 64 <? 2 ^ 63) eqn:E; lia. Qed.

Lemma signed64_eqm x : eqm64 (signed64 x) x.
Proof.
  unfold signed64. destruct (x mod W64 <? 2 ^ 63); [apply eqm64_mod|].
  unfold eqm64. replace (x mod W64 - W64) with (x mod W64 + (-1) * W64) by ring.
  rewrite Z.mod_add by (unfold W64; lia). apply Z.mod_mod. unfold W64; lia.
Qed.
