(* Per-function transition facts of the FutB model, lifted to `step` (used by C16/C17/C19 proofs). *)
From Coq Require Import ZArith List Bool Lia.
From Verif Require Import PyBase FutbProto FutB FutB_lemmas.
Import ListNotations.
Local Open Scope Z_scope.

Definition in_cons (s : state) : host -> Prop := fun x => In x (consumed s).
Definition is_consult_ev (e : event) : bool := match e with Consult _ _ _ _ _ _ _ _ => true | _ => false end.

(* a transition that only moves hosts from the plan to `consumed`, announces plan sends in order, and mentions only
   consumed hosts afterwards if it did before *)
Section WithK.
Variable K : Prop.   (* a premise under which the host h of the current attempt/task is known to be consumed *)

Definition ok_trans (s s' : state) (ev : list event) : Prop :=
  plan_move s s' ev /\ (K -> all_in (hosts_of s []) (in_cons s) -> all_in (hosts_of s' ev) (in_cons s')).

Lemma map_host_mark_done i l : map a_host (mark_done i l) = map a_host l.
Proof. revert i. induction l as [|a l IH]; intros [|i]; cbn; auto. rewrite IH. reflexivity. Qed.

Lemma in_remove_nth {A} (x : A) k l : In x (remove_nth k l) -> In x l.
Proof. revert k. induction l as [|a l IH]; intros [|k]; cbn; auto. intros [H|H]; auto. right. eapply IH; eauto. Qed.

Lemma nth_error_host_in i l a : nth_error l i = Some a -> In (a_host a) (map a_host l).
Proof. intros H. apply in_map. eapply nth_error_In; eauto. Qed.

Lemma nth_error_task_in k (q : list task) t : nth_error q k = Some t -> In (task_host t) (map task_host q).
Proof. intros H. apply in_map. eapply nth_error_In; eauto. Qed.

Lemma hosts_nil_split s x :
  In x (hosts_of s []) <-> In x (map a_host (attempts s)) \/ In x (map task_host (queue s)) \/ In x (keys (errors s)).
Proof. rewrite hosts_of_in. cbn. tauto. Qed.

Lemma hosts_compose s1 s2 ev1 ev2 (X X' : host -> Prop) :
  all_in (hosts_of s1 ev1) X -> (all_in (hosts_of s1 []) X -> all_in (hosts_of s2 ev2) X') -> (forall x, X x -> X' x) ->
  all_in (hosts_of s2 (ev1 ++ ev2)) X'.
Proof.
  intros A1 A2 M x Hx. apply hosts_of_in in Hx. rewrite sent_hosts_app, in_app_iff in Hx.
  assert (A1' : all_in (hosts_of s1 []) X).
  { intros y Hy. apply A1. apply hosts_of_in. apply hosts_nil_split in Hy. tauto. }
  specialize (A2 A1').
  destruct Hx as [Hx|[Hx|[Hx|[Hx|Hx]]]]; try (apply A2, hosts_of_in; tauto).
  apply M, A1, hosts_of_in. tauto.
Qed.

(* pre-updates: a state whose plan/consumed are those of s and which mentions at most the hosts of s and h *)
Definition pre_of (s s1 : state) (h : host) : Prop :=
  plan s1 = plan s /\ consumed s1 = consumed s /\
  (forall x, In x (hosts_of s1 []) -> x = h \/ In x (hosts_of s [])).

Lemma pre_ok s s1 h ev : pre_of s s1 h -> (K -> in_cons s h) ->
  plan_sends ev = [] -> sent_hosts ev = [] -> ok_trans s s1 ev.
Proof.
  intros (P & C & M) Hh E1 E2. split; [apply plan_move_id; assumption|].
  intros HK A x Hx. unfold in_cons. rewrite C. apply hosts_of_in in Hx. rewrite E2 in Hx.
  assert (Hx' : In x (hosts_of s1 [])) by (apply hosts_nil_split; cbn in Hx; tauto).
  apply M in Hx'. destruct Hx' as [->|Hx']; [apply Hh, HK|apply A, Hx'].
Qed.

Lemma ok_trans_trans s1 s2 s3 ev1 ev2 : ok_trans s1 s2 ev1 -> ok_trans s2 s3 ev2 -> ok_trans s1 s3 (ev1 ++ ev2).
Proof.
  intros [M1 H1] [M2 H2]. split; [eapply plan_move_trans; eauto|].
  intros HK A. apply (hosts_compose s2 s3 ev1 ev2 (in_cons s2) (in_cons s3)); auto.
  destruct M2 as [e C _ _]. intros x Hx. unfold in_cons in *. rewrite C, in_app_iff. auto.
Qed.

Lemma send_request_ok s b s' ev : send_request s b = (s', ev) -> ok_trans s s' ev.
Proof.
  intros W. split; [eapply send_request_move; eauto|].
  intros _ A. unfold send_request in W. apply (walk_hosts _ _ _ _ _ (in_cons s') W).
  - pose proof (send_request_move s b s' ev W) as [e C _ _].
    intros x Hx. unfold in_cons. rewrite C, in_app_iff. left. apply A, Hx.
  - intros x Hx. exact Hx.
Qed.

Lemma query_ok s h m c s' ev ok : query s h m c = (s', ev, ok) -> c <> CPlan ->
  (K -> in_cons s h) -> ok_trans s s' ev.
Proof.
  intros Q Nc Hh. split.
  - rewrite query_eq in Q. destruct (reason (pool_of s h)); inversion Q; subst; apply plan_move_id; try reflexivity.
    cbn. destruct c; try reflexivity. congruence.
  - intros HK A. assert (C : consumed s' = consumed s).
    { rewrite query_eq in Q. destruct (reason (pool_of s h)); inversion Q; subst; reflexivity. }
    unfold in_cons. rewrite C. eapply query_hosts; eauto. apply Hh, HK.
Qed.

Lemma query_or_next_ok s h m c s' ev : query_or_next s h m c = (s', ev) -> c <> CPlan ->
  (K -> in_cons s h) -> ok_trans s s' ev.
Proof.
  unfold query_or_next. intros H Nc Hh.
  destruct (query s h m c) as [[s1 ev1] ok] eqn:Q. pose proof (query_ok _ _ _ _ _ _ _ Q Nc Hh) as O1.
  destruct ok.
  - inversion H; subst. exact O1.
  - destruct (send_request s1 true) as [s2 ev2] eqn:W. inversion H; subst.
    eapply ok_trans_trans; [exact O1|eapply send_request_ok; eauto].
Qed.

(* simple setters are pre-updates *)
Ltac pre_simple :=
  split; [reflexivity|split; [reflexivity|]]; intros x Hx; right; exact Hx.

Lemma pre_refl s h : pre_of s s h.
Proof. pre_simple. Qed.

Lemma pre_set_exc s s1 h x : pre_of s s1 h -> pre_of s (set_exc s1 x) h.
Proof. intros (P & C & M). split; [exact P|split; [exact C|]]. intros y Hy. apply M. exact Hy. Qed.

Lemma pre_set_res s s1 h r : pre_of s s1 h -> pre_of s (set_res s1 r) h.
Proof. intros (P & C & M). split; [exact P|split; [exact C|]]. intros y Hy. apply M. exact Hy. Qed.

Lemma pre_same s s1 s2 h : same_but_outcome s1 s2 -> pre_of s s1 h -> pre_of s s2 h.
Proof.
  intros F (P & C & M). destruct F. split; [congruence|split; [congruence|]]. intros y Hy. apply M.
  apply hosts_nil_split in Hy. apply hosts_nil_split. rewrite sbo_att, sbo_queue, sbo_errors in Hy. exact Hy.
Qed.

Lemma pre_fail_with s s1 h x : pre_of s s1 h -> pre_of s (fail_with s1 x) h.
Proof. apply pre_same, fail_with_same. Qed.

Lemma pre_finish_with s s1 h r : pre_of s s1 h -> pre_of s (finish_with s1 r) h.
Proof. apply pre_same, finish_with_same. Qed.

Lemma pre_finish_rows s s1 h b : pre_of s s1 h -> pre_of s (finish_rows s1 b) h.
Proof. apply pre_same, finish_rows_same. Qed.

Lemma pre_set_spec s s1 h a l : pre_of s s1 h -> pre_of s (set_spec s1 a l) h.
Proof. intros (P & C & M). split; [exact P|split; [exact C|]]. intros y Hy. apply M. exact Hy. Qed.

Lemma pre_tick s s1 h : pre_of s s1 h -> pre_of s (tick_consult s1) h.
Proof. intros (P & C & M). split; [exact P|split; [exact C|]]. intros y Hy. apply M. exact Hy. Qed.

Lemma pre_set_env s s1 h p k : pre_of s s1 h -> pre_of s (set_env s1 p k) h.
Proof. intros (P & C & M). split; [exact P|split; [exact C|]]. intros y Hy. apply M. exact Hy. Qed.

Lemma pre_set_err s s1 h e : pre_of s s1 h -> pre_of s (set_err s1 h e) h.
Proof.
  intros (P & C & M). split; [exact P|split; [exact C|]]. intros y Hy.
  apply hosts_nil_split in Hy. cbn [attempts queue errors set_err] in Hy. rewrite keys_upd in Hy.
  destruct Hy as [Hy|[Hy|[Hy|Hy]]]; auto; apply M, hosts_nil_split; tauto.
Qed.

Lemma pre_push s s1 h t : task_host t = h -> pre_of s s1 h -> pre_of s (push_task s1 t) h.
Proof.
  intros T (P & C & M). split; [exact P|split; [exact C|]]. intros y Hy.
  apply hosts_nil_split in Hy. cbn [attempts queue errors push_task] in Hy. rewrite map_app, in_app_iff in Hy. cbn in Hy.
  destruct Hy as [Hy|[[Hy|[Hy|[]]]|Hy]]; auto; try (apply M, hosts_nil_split; tauto). left. congruence.
Qed.

Lemma pre_submit s s1 h t : task_host t = h -> pre_of s s1 h -> pre_of s (submit s1 t) h.
Proof. intros T P. unfold submit. destruct (session_shut s1); [apply pre_fail_with; exact P|apply pre_push; assumption]. Qed.

Lemma pre_bump_counters s s1 h dcl : pre_of s s1 h -> pre_of s (bump_counters s1 dcl) h.
Proof. intros (P & C & M). split; [exact P|split; [exact C|]]. intros y Hy. apply M. exact Hy. Qed.

Lemma pre_bump s s1 h dcl t : task_host t = h -> pre_of s s1 h -> pre_of s (bump_retry s1 dcl t) h.
Proof.
  intros T P. unfold bump_retry. destruct (is_some (fin_exc s1)); [apply pre_bump_counters; exact P|].
  apply pre_submit; [exact T|apply pre_bump_counters; exact P].
Qed.

Lemma pre_set_attempts_done s i h : pre_of s (set_attempts s (mark_done i (attempts s))) h.
Proof.
  split; [reflexivity|split; [reflexivity|]]. intros y Hy. right.
  apply hosts_nil_split in Hy. cbn [attempts queue errors set_attempts] in Hy. rewrite map_host_mark_done in Hy.
  apply hosts_nil_split. exact Hy.
Qed.

Lemma pre_set_queue_deq s k h : pre_of s (set_queue s (remove_nth k (queue s))) h.
Proof.
  split; [reflexivity|split; [reflexivity|]]. intros y Hy. right.
  apply hosts_nil_split in Hy. cbn [attempts queue errors set_queue] in Hy.
  apply hosts_nil_split. destruct Hy as [Hy|[Hy|Hy]]; auto. right; left.
  apply in_map_iff in Hy. destruct Hy as (t & <- & Ht). apply in_map. eapply in_remove_nth; eauto.
Qed.

Lemma pre_trans s s1 s2 h : pre_of s s1 h -> pre_of s1 s2 h -> pre_of s s2 h.
Proof.
  intros (P1 & C1 & M1) (P2 & C2 & M2). split; [congruence|split; [congruence|]].
  intros y Hy. apply M2 in Hy. destruct Hy as [->|Hy]; auto.
Qed.

(* an ok transition out of a pre-update of s is an ok transition out of s *)
Lemma ok_after_pre s s1 s' h ev : pre_of s s1 h -> (K -> in_cons s h) ->
  ok_trans s1 s' ev -> ok_trans s s' ev.
Proof.
  intros Pre Hh O.
  pose proof (pre_ok s s1 h [] Pre Hh eq_refl eq_refl) as O1.
  exact (ok_trans_trans _ _ _ [] ev O1 O).
Qed.

Lemma ok_trans_post s s1 s2 ev : ok_trans s s1 ev -> plan s2 = plan s1 -> consumed s2 = consumed s1 ->
  (forall e, hosts_of s2 e = hosts_of s1 e) -> ok_trans s s2 ev.
Proof.
  intros [[e C P S] H] P2 C2 H2. split.
  - apply (Build_plan_move _ _ _ e); [rewrite C2; exact C|rewrite P2; exact P|exact S].
  - intros HK A. unfold in_cons. rewrite C2, H2. apply H; assumption.
Qed.

(* ------------------------------------------------------------------ _set_result never sends and never moves the plan *)
Lemma set_result_pre c s s0 h r s' ev : pre_of s s0 h -> set_result c s0 h r = (s', ev) ->
  pre_of s s' h /\ plan_sends ev = [] /\ sent_hosts ev = [].
Proof.
  intros Pre H. destruct r; cbn [set_result] in H.
  - inversion H; subst. split; [apply pre_finish_rows; assumption|auto].
  - inversion H; subst. split; [apply pre_finish_with; assumption|auto].
  - inversion H; subst. split; [apply pre_finish_rows; assumption|auto].
  - inversion H; subst. split; [apply pre_finish_with; assumption|auto].
  - destruct (pol c (nconsult s0) k tag (retries s0) (if request_error_kind k then msg_cl s0 else None)) as [d dcl].
    unfold handle_decision in H. inversion H; subst; clear H. split; [|auto].
    apply pre_set_err. destruct d.
    + apply pre_bump; [reflexivity|apply pre_tick; assumption].
    + apply pre_fail_with, pre_tick; assumption.
    + apply pre_finish_with, pre_tick; assumption.
    + apply pre_bump; [reflexivity|apply pre_tick; assumption].
  - unfold unprepared in H.
    assert (G : forall ps, unprep_go c s0 h ps = (s', ev) -> pre_of s s' h /\ plan_sends ev = [] /\ sent_hosts ev = []).
    { intros [[pid qs] ks] G. unfold unprep_go in G.
      destruct (negb (uses_ks c) && is_some ks && negb (opt_eqb (conn_ks s0) ks)); inversion G; subst.
      - split; [apply pre_fail_with; assumption|auto].
      - split; [apply pre_submit; [reflexivity|assumption]|auto]. }
    destruct (fut_ps c) as [[[pid pqs] pks]|].
    + destruct (negb (pid =? id)).
      * inversion H; subst. split; [apply pre_fail_with; assumption|auto].
      * destruct (lookup (known c) id); apply G in H; exact H.
    + destruct (lookup (known c) id).
      * apply G in H; exact H.
      * inversion H; subst. split; [apply pre_fail_with; assumption|auto].
  - inversion H; subst. split; [apply pre_fail_with; assumption|auto].
  - inversion H; subst. split; [apply pre_fail_with; assumption|auto].
  - inversion H; subst. split; [apply pre_fail_with; assumption|auto].
Qed.

Lemma after_prepare_ok c s s0 h r s' ev : pre_of s s0 h -> (K -> in_cons s h) -> after_prepare c s0 h r = (s', ev) ->
  ok_trans s s' ev.
Proof.
  intros Pre Hh H. unfold after_prepare in H.
  assert (Hh0 : forall s1, pre_of s s1 h -> K -> in_cons s1 h).
  { intros s1 (_ & C1 & _) HK. unfold in_cons. rewrite C1. apply Hh, HK. }
  assert (Kpre : forall s1, pre_of s s1 h -> ok_trans s s1 []).
  { intros s1 P1. apply (pre_ok s s1 h []); auto. }
  assert (Kq : forall s1 m cz s2 e2, pre_of s s1 h -> cz <> CPlan -> query_or_next s1 h m cz = (s2, e2) -> ok_trans s s2 e2).
  { intros s1 m cz s2 e2 P1 Nc Q.
    apply (ok_trans_trans s s1 s2 [] e2 (Kpre s1 P1)).
    apply (query_or_next_ok _ _ _ _ _ _ Q Nc). apply Hh0, P1. }
  destruct (is_some (fin_exc s0)); [inversion H; subst; apply Kpre; assumption|].
  destruct r.
  - inversion H; subst. apply Kpre, pre_fail_with; assumption.
  - inversion H; subst. apply Kpre, pre_fail_with; assumption.
  - inversion H; subst. apply Kpre, pre_fail_with; assumption.
  - destruct (fut_ps c) as [[[pid pqs] pks]|].
    + destruct (negb (pid =? id)).
      * inversion H; subst. apply Kpre, pre_fail_with; assumption.
      * eapply Kq; eauto. discriminate.
    + eapply Kq; eauto. discriminate.
  - destruct (is_conn_kind k).
    + destruct (send_request (set_err s0 h (EResp k tag)) true) as [s2 ev2] eqn:W. inversion H; subst.
      assert (P1 : pre_of s (set_err s0 h (EResp k tag)) h) by (apply pre_set_err; assumption).
      apply (ok_trans_trans s (set_err s0 h (EResp k tag)) s' [ErrSet h (EResp k tag)] ev2).
      * apply (pre_ok s _ h); auto.
      * eapply send_request_ok; eauto.
    + inversion H; subst. apply Kpre, pre_fail_with; assumption.
  - inversion H; subst. apply Kpre, pre_fail_with; assumption.
  - inversion H; subst. apply Kpre, pre_fail_with; assumption.
  - inversion H; subst. apply Kpre, pre_fail_with; assumption.
  - inversion H; subst. apply Kpre, pre_fail_with; assumption.
Qed.

Lemma run_task_ok c s s0 t s' ev : pre_of s s0 (task_host t) -> (K -> in_cons s (task_host t)) ->
  run_task c s0 t = (s', ev) -> ok_trans s s' ev.
Proof.
  intros Pre Hh H.
  assert (Hh0 : K -> in_cons s0 (task_host t)).
  { destruct Pre as (_ & C1 & _). intros HK. unfold in_cons. rewrite C1. apply Hh, HK. }
  assert (Kpre : ok_trans s s0 []) by (apply (pre_ok s s0 (task_host t) []); auto).
  destruct t as [reuse h|h qs ks|h r]; cbn [run_task task_host] in *.
  - destruct (is_some (fin_exc s0)); [inversion H; subst; exact Kpre|].
    destruct reuse.
    + apply (ok_trans_trans s s0 s' [] ev Kpre). eapply query_or_next_ok; eauto. discriminate.
    + apply (ok_trans_trans s s0 s' [] ev Kpre). eapply send_request_ok; eauto.
  - apply (ok_trans_trans s s0 s' [] ev Kpre). eapply query_or_next_ok; eauto. discriminate.
  - eapply after_prepare_ok; eauto.
Qed.

Lemma hosts_of_set_spec s a l e : hosts_of (set_spec s a l) e = hosts_of s e.
Proof. reflexivity. Qed.

Lemma ok_same s s1 : plan s1 = plan s -> consumed s1 = consumed s -> (forall e, hosts_of s1 e = hosts_of s e) ->
  ok_trans s s1 [].
Proof.
  intros P C Hs. split; [apply plan_move_id; auto|]. intros _ A. unfold in_cons. rewrite C, Hs. exact A.
Qed.

Lemma on_timeout_cover s : plan (on_timeout s) = plan s /\ consumed (on_timeout s) = consumed s /\
  (forall e, hosts_of (on_timeout s) e = hosts_of s e).
Proof.
  destruct (on_timeout_same s) as [[_ F]|[_ E]]; [|rewrite E; auto].
  destruct F. repeat split; auto. intros e. unfold hosts_of. rewrite sbo_att, sbo_queue, sbo_errors. reflexivity.
Qed.

Lemma spec_fire_ok s s' ev : spec_fire s = (s', ev) -> ok_trans s s' ev.
Proof.
  unfold spec_fire. intros H.
  destruct (negb (spec_armed s)); [inversion H; subst; apply ok_same; reflexivity|].
  destruct (completed (set_spec s false (spec_left s))); [inversion H; subst; apply ok_same; reflexivity|].
  destruct (attempts (set_spec s false (spec_left s))) eqn:Att; [inversion H; subst; apply ok_same; reflexivity|].
  destruct (elapsed (set_spec s false (spec_left s))).
  { inversion H; subst. destruct (on_timeout_cover (set_spec s false (spec_left s))) as (P & C & Hh). apply ok_same; assumption. }
  destruct (send_request (set_spec s false (spec_left s)) false) as [s1 ev1] eqn:W. inversion H; subst.
  apply send_request_ok in W.
  assert (O : ok_trans s s1 ev).
  { destruct W as [[e C P S] Hx]. split; [apply (Build_plan_move _ _ _ e); assumption|]. exact Hx. }
  unfold start_timer. destruct (spec_armed s1); [exact O|]. destruct (0 <? spec_left s1); [|exact O].
  eapply ok_trans_post; [exact O|reflexivity|reflexivity|reflexivity].
Qed.
End WithK.

(* ------------------------------------------------------------------ the executor-first schedule of a retry *)
Definition retry_dec (reuse : bool) : decision := if reuse then DRetry else DNextHost.

Lemma resp_current_cases c s0 h r s' ev : resp_current c s0 h r = (s', ev) ->
  set_result c s0 h r = (s', ev) \/
  exists k tag dcl reuse s2 ev2, r = RRetryable k tag /\ inline_retry c = true /\
    pol c (nconsult s0) k tag (retries s0) (if request_error_kind k then msg_cl s0 else None) = (retry_dec reuse, dcl) /\
    fin_exc s0 = None /\ session_shut s0 = false /\
    run_task c (bump_counters (tick_consult s0) dcl) (TRetry reuse h) = (s2, ev2) /\
    s' = set_err s2 h (EResp k tag) /\
    ev = Consult (nconsult s0) h k tag (retries s0) (if request_error_kind k then msg_cl s0 else None) (retry_dec reuse) dcl
         :: ev2 ++ [ErrSet h (EResp k tag)].
Proof.
  intros H. destruct r; cbn [resp_current] in H; auto.
  destruct (inline_retry c) eqn:I; auto. unfold retry_inline in H.
  destruct (pol c (nconsult s0) k tag (retries s0) (if request_error_kind k then msg_cl s0 else None)) as [d dcl] eqn:P.
  destruct d; try (left; exact H).
  - destruct (fin_exc s0) eqn:F; cbn [is_some orb] in H; [left; exact H|].
    destruct (session_shut s0) eqn:Sh; [left; exact H|].
    destruct (run_task c (bump_counters (tick_consult s0) dcl) (TRetry true h)) as [s2 ev2] eqn:R.
    inversion H; subst. right. exists k, tag, dcl, true, s2, ev2. repeat split; auto.
  - destruct (fin_exc s0) eqn:F; cbn [is_some orb] in H; [left; exact H|].
    destruct (session_shut s0) eqn:Sh; [left; exact H|].
    destruct (run_task c (bump_counters (tick_consult s0) dcl) (TRetry false h)) as [s2 ev2] eqn:R.
    inversion H; subst. right. exists k, tag, dcl, false, s2, ev2. repeat split; auto.
Qed.

(* prefixing a consultation and appending the late _errors write keeps an ok transition ok *)
Section Wrap.
Variable K : Prop.
Lemma ok_trans_wrap s s2 ev2 h e (cons : event) : is_consult_ev cons = true ->
  ok_trans K s s2 ev2 -> (K -> in_cons s h) -> ok_trans K s (set_err s2 h e) (cons :: ev2 ++ [ErrSet h e]).
Proof.
  intros Hc [[ex C P S] Hx] Hh. split.
  - apply (Build_plan_move _ _ _ ex); [exact C|exact P|].
    change (cons :: ev2 ++ [ErrSet h e]) with ([cons] ++ ev2 ++ [ErrSet h e]). rewrite !plan_sends_app.
    destruct cons; try discriminate. cbn. rewrite app_nil_r. exact S.
  - intros HK A x Hy. apply hosts_of_in in Hy. cbn [attempts queue errors set_err] in Hy. rewrite keys_upd in Hy.
    assert (Sh : sent_hosts (cons :: ev2 ++ [ErrSet h e]) = sent_hosts ev2).
    { change (cons :: ev2 ++ [ErrSet h e]) with ([cons] ++ ev2 ++ [ErrSet h e]). rewrite !sent_hosts_app.
      destruct cons; try discriminate. cbn. apply app_nil_r. }
    rewrite Sh in Hy. unfold in_cons. cbn [consumed set_err].
    destruct Hy as [Hy|[Hy|[[->|Hy]|Hy]]]; try (apply (Hx HK A), hosts_of_in; tauto).
    rewrite C. apply in_app_iff. left. apply Hh, HK.
Qed.
End Wrap.

(* ------------------------------------------------------------------ every step is an ok transition *)
Definition all_consumed (s : state) : Prop := all_in (hosts_of s []) (in_cons s).

Definition is_next_page (o : op) : bool := match o with NextPage _ => true | _ => false end.

Lemma step_ok c s o s' ev : is_next_page o = false -> step c s o = (s', ev) -> ok_trans (all_consumed s) s s' ev.
Proof.
  intros NP H. destruct o as [|i r|k| |h p|k|pp]; cbn [step] in H; [| | | | | |discriminate].
  - eapply send_request_ok; eauto.
  - destruct (nth_error (attempts s) i) as [a|] eqn:N; [|inversion H; subst; apply ok_same; reflexivity].
    destruct (a_done a); [inversion H; subst; apply ok_same; reflexivity|].
    assert (Hh : all_consumed s -> in_cons s (a_host a)).
    { intros A. apply A, hosts_nil_split. left. eapply nth_error_host_in; eauto. }
    assert (P0 : pre_of s (set_attempts s (mark_done i (attempts s))) (a_host a)) by apply pre_set_attempts_done.
    destruct (a_prep a).
    + inversion H; subst. apply (pre_ok _ s _ (a_host a)); auto. apply pre_submit; [reflexivity|exact P0].
    + destruct (Nat.eqb (a_page a) (page_no s)); [|inversion H; subst; apply (pre_ok _ s _ (a_host a)); auto].
      destruct (resp_current_cases _ _ _ _ _ _ H) as [H'|(k & tag & dcl & reuse & s2 & ev2 & -> & I & Pl & F & Sh & R & -> & ->)].
      * destruct (set_result_pre _ _ _ _ _ _ _ P0 H') as (P1 & E1 & E2). apply (pre_ok _ s _ (a_host a)); auto.
      * apply ok_trans_wrap; [reflexivity| |exact Hh].
        eapply (run_task_ok (all_consumed s) c s _ (TRetry reuse (a_host a))); [|exact Hh|exact R].
        apply pre_bump_counters, pre_tick. exact P0.
  - destruct (nth_error (queue s) k) as [t|] eqn:N; [|inversion H; subst; apply ok_same; reflexivity].
    eapply run_task_ok; [apply pre_set_queue_deq| |exact H].
    intros A. apply A, hosts_nil_split. right; left. eapply nth_error_task_in; eauto.
  - apply spec_fire_ok. exact H.
  - inversion H; subst. apply ok_same; reflexivity.
  - inversion H; subst. apply ok_same; reflexivity.
Qed.

(* history invariant: the plan is consumed front to back, plan sends follow that order, and every host ever mentioned
   (attempt, task, error entry, message) was taken from the plan *)
Definition HInv (P0 : list host) (s : state) (evs : list event) : Prop :=
  consumed s ++ plan s = P0 /\ subseq (plan_sends evs) (consumed s) /\ all_in (hosts_of s evs) (in_cons s).

Lemma hinv_ok_trans P0 s evs s' ev : HInv P0 s evs -> ok_trans (all_consumed s) s s' ev -> HInv P0 s' (evs ++ ev).
Proof.
  intros (I1 & I2 & I3) [[e C P S] Hx].
  assert (A : all_consumed s).
  { intros x Hy. apply I3, hosts_of_in. apply hosts_nil_split in Hy. tauto. }
  split; [|split].
  - rewrite C, <- app_assoc, <- P. exact I1.
  - rewrite plan_sends_app, C. apply subseq_app; assumption.
  - apply (hosts_compose s s' evs ev (in_cons s) (in_cons s')); auto.
    intros x Hy. unfold in_cons in *. rewrite C, in_app_iff. auto.
Qed.

(* the plan the invariant speaks about: replaced by a fresh one when a further page is fetched *)
Definition plan_after (c : config) (o : op) (s : state) (P0 : list host) : list host :=
  match o with
  | NextPage p => if paging s then consumed s ++ make_plan p (tgt c) else P0
  | _ => P0
  end.

Lemma page_start_fields c s p :
  plan (page_start c s p) = make_plan p (tgt c) /\ consumed (page_start c s p) = consumed s /\
  (forall e, hosts_of (page_start c s p) e = hosts_of s e) /\ fin_res (page_start c s p) = None /\ fin_exc (page_start c s p) = None
  /\ pools (page_start c s p) = pools s /\ msg_cl (page_start c s p) = msg_cl s
  /\ retries (page_start c s p) = retries s /\ nconsult (page_start c s p) = nconsult s /\ queue (page_start c s p) = queue s
  /\ errors (page_start c s p) = errors s /\ attempts (page_start c s p) = attempts s.
Proof.
  unfold page_start, start_timer. cbn [spec_armed spec_left].
  destruct (0 <? spec_left s); cbn; repeat split; reflexivity.
Qed.

Lemma step_hinv c P0 s evs o s' ev : HInv P0 s evs -> step c s o = (s', ev) -> HInv (plan_after c o s P0) s' (evs ++ ev).
Proof.
  intros I H. destruct (is_next_page o) eqn:NP.
  - destruct o; try discriminate. cbn [step plan_after] in *. destruct (paging s).
    + destruct (page_start_fields c s p) as (Pp & Pc & Ph & _).
      assert (I0 : HInv (consumed s ++ make_plan p (tgt c)) (page_start c s p) evs).
      { destruct I as (I1 & I2 & I3). split; [rewrite Pp, Pc; reflexivity|split; [rewrite Pc; exact I2|]].
        intros x Hx. unfold in_cons. rewrite Pc. apply I3. rewrite <- Ph. exact Hx. }
      apply (hinv_ok_trans _ _ _ _ _ I0). exact (send_request_ok (all_consumed (page_start c s p)) _ _ _ _ H).
    + inversion H; subst. rewrite app_nil_r. exact I.
  - assert (E : plan_after c o s P0 = P0) by (destruct o; try reflexivity; discriminate). rewrite E.
    apply (hinv_ok_trans P0 s evs s' ev I). exact (step_ok c s o s' ev NP H).
Qed.

Fixpoint plan_after_ops (c : config) (s : state) (ops : list op) (P0 : list host) : list host :=
  match ops with
  | [] => P0
  | o :: rest => plan_after_ops c (fst (step c s o)) rest (plan_after c o s P0)
  end.

Lemma exec_hinv c : forall ops P0 s evs s' ev, HInv P0 s evs -> exec c s ops = (s', ev) ->
  HInv (plan_after_ops c s ops P0) s' (evs ++ ev).
Proof.
  induction ops as [|o ops IH]; intros P0 s evs s' ev I H; cbn [exec plan_after_ops] in *.
  - inversion H; subst. rewrite app_nil_r. exact I.
  - destruct (step c s o) as [s1 ev1] eqn:S. destruct (exec c s1 ops) as [s2 ev2] eqn:E. inversion H; subst.
    rewrite app_assoc. cbn [fst]. eapply IH; [|exact E]. eapply step_hinv; eauto.
Qed.

Definition no_page (ops : list op) : bool := forallb (fun o => negb (is_next_page o)) ops.

Lemma plan_after_ops_no_page c : forall ops s P0, no_page ops = true -> plan_after_ops c s ops P0 = P0.
Proof.
  induction ops as [|o ops IH]; intros s P0 N; [reflexivity|].
  cbn [no_page forallb] in N. apply andb_prop in N. destruct N as [N1 N2]. cbn [plan_after_ops].
  rewrite IH by exact N2. destruct o; try reflexivity. discriminate.
Qed.

Lemma init_hinv lb target pl cl idem hasp maxa ks :
  HInv (make_plan lb target) (init lb target pl cl idem hasp maxa ks) [].
Proof.
  unfold init, start_timer. cbn [spec_armed spec_left].
  destruct (0 <? spec_gate idem hasp maxa); (split; [reflexivity|split; [constructor|intros x []]]).
Qed.

Lemma subseq_app_r {A} (a b c : list A) : subseq a b -> subseq a (b ++ c).
Proof. intros H. rewrite <- (app_nil_r a). apply subseq_app; [exact H|apply subseq_nil_l]. Qed.
