From Coq Require Import ZArith List Bool Lia ZifyBool.
From Verif Require Import PyBase Timestamps Timestamp.
Import ListNotations.
Local Open Scope Z_scope.

(* bridge: what the generated function computes *)
Lemma call_spec last now :
  call last now = (if now >? last then (now, now) else (last + 1, last + 1)).
Proof. unfold call, next_timestamp. destruct (now >? last); reflexivity. Qed.

Lemma call_gt last now : last < fst (call last now) /\ now <= fst (call last now) /\ snd (call last now) = fst (call last now).
Proof. rewrite call_spec. destruct (now >? last) eqn:E; cbn; lia. Qed.

Lemma run_cons last now rest :
  run last (now :: rest) = fst (call last now) :: run (snd (call last now)) rest.
Proof. cbn [run]. destruct (call last now); reflexivity. Qed.

Lemma run_all_gt : forall clock last x, In x (run last clock) -> last < x.
Proof.
  induction clock as [|now rest IH]; intros last x H; [inversion H|].
  rewrite run_cons in H. destruct (call_gt last now) as (H1 & _ & H3).
  destruct H as [<-|H]; [assumption|].
  apply IH in H. rewrite H3 in H. lia.
Qed.

Lemma run_head_gt clock last : match run last clock with [] => True | x :: _ => last < x end.
Proof.
  destruct clock as [|now rest]; [exact I|]. rewrite run_cons. apply call_gt.
Qed.

Lemma si_cons a b t : strictly_increasing (a :: b :: t) = (a <? b) && strictly_increasing (b :: t).
Proof. reflexivity. Qed.

Lemma run_strict : forall clock last, strictly_increasing (run last clock) = true.
Proof.
  induction clock as [|now rest IH]; intros last; [reflexivity|].
  rewrite run_cons. specialize (IH (snd (call last now))).
  pose proof (run_head_gt rest (snd (call last now))) as Hh.
  destruct (run (snd (call last now)) rest) as [|b t] eqn:R; [reflexivity|].
  rewrite si_cons, IH.
  destruct (call_gt last now) as (_ & _ & H3). rewrite H3 in Hh.
  apply andb_true_intro. split; [lia|reflexivity].
Qed.

(* pairwise form: any two returned values, the earlier is strictly smaller *)
Lemma strict_pairwise : forall l, strictly_increasing l = true ->
  forall i j a b, (i < j)%nat -> nth_error l i = Some a -> nth_error l j = Some b -> a < b.
Proof.
  induction l as [|x l IH]; intros Hs i j a b Hij Hi Hj; [destruct i; discriminate|].
  assert (Hl : strictly_increasing l = true).
  { destruct l; [reflexivity|]. rewrite si_cons in Hs. apply andb_prop in Hs. tauto. }
  assert (Hx : forall k c, nth_error l k = Some c -> x < c).
  { clear -Hs Hl. revert x Hs Hl. induction l as [|y l IHl]; intros x Hs Hl k c Hk; [destruct k; discriminate|].
    rewrite si_cons in Hs. apply andb_prop in Hs. destruct Hs as [Hxy Hs].
    destruct k; cbn in Hk.
    - inversion Hk; subst. lia.
    - assert (y < c).
      { apply (IHl y Hs) with (k := k); [|assumption].
        destruct l; [reflexivity|]. rewrite si_cons in Hs. apply andb_prop in Hs. tauto. }
      lia. }
  destruct i, j; try lia; cbn in Hi, Hj.
  - inversion Hi; subst. eapply Hx; eassumption.
  - apply (IH Hl i j); [lia|assumption|assumption].
Qed.

Lemma run_not_behind : forall clock last i now r,
  nth_error clock i = Some now -> nth_error (run last clock) i = Some r -> now <= r.
Proof.
  induction clock as [|n0 rest IH]; intros last i now r Hc Hr; [destruct i; discriminate|].
  rewrite run_cons in Hr. destruct i; cbn in Hc, Hr.
  - inversion Hc; inversion Hr; subst. apply call_gt.
  - eapply IH; eassumption.
Qed.

Lemma run_length : forall clock last, length (run last clock) = length clock.
Proof. induction clock as [|n rest IH]; intros; [reflexivity|]. rewrite run_cons. cbn. rewrite IH. reflexivity. Qed.
