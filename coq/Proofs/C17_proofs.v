(* C17 -- hosts are tried in query-plan order and exhaustion is reported: lemmas. *)
From Coq Require Import ZArith List Bool Lia.
From Verif Require Import PyBase FutbProto FutB FutB_lemmas FutB_steps FutB_origin.
Import ListNotations.
Local Open Scope Z_scope.

Lemma in_errset_for x e ev : In (ErrSet x e) ev -> errset_for x ev = true.
Proof.
  unfold errset_for. intros H. apply existsb_exists. exists (ErrSet x e). split; [exact H|apply Z.eqb_refl].
Qed.

Lemma send_request_order s b s' ev : send_request s b = (s', ev) ->
  walked s (plan s) b s' ev /\ (forall x e, In (ErrSet x e) ev -> lookup (errors s') x = reason (pool_of s x)).
Proof.
  intros H. split; [apply walk_walked; exact H|].
  intros x e Hin. eapply walk_lookup; eauto. eapply in_errset_for; eauto.
Qed.

(* ------------------------------------------------------------------ one page fetch, from ANY state *)
Lemma exec_plan_move c : forall ops s s' evs, no_page ops = true -> exec c s ops = (s', evs) -> plan_move s s' evs.
Proof.
  induction ops as [|o ops IH]; intros s s' evs N H; cbn [exec] in H.
  - inversion H; subst. apply plan_move_id; reflexivity.
  - cbn [no_page forallb] in N. apply andb_prop in N. destruct N as [N1 N2]. apply negb_true_iff in N1.
    destruct (step c s o) as [s1 ev1] eqn:S. destruct (exec c s1 ops) as [s2 ev2] eqn:E. inversion H; subst.
    eapply plan_move_trans; [exact (proj1 (step_ok c s o s1 ev1 N1 S))|eapply IH; eauto].
Qed.

Lemma subseq_prefix {A} (a e r : list A) : subseq a e -> subseq a (e ++ r).
Proof. apply subseq_app_r. Qed.

Lemma page_no_repeat c ops s s' evs : no_page ops = true -> exec c s ops = (s', evs) -> NoDup (plan s) -> NoDup (plan_sends evs).
Proof.
  intros N H D. destruct (exec_plan_move c ops s s' evs N H) as [e C P S]. rewrite P in D.
  eapply subseq_nodup; [apply subseq_app_r; exact S|exact D].
Qed.

Lemma replan_master_ok m p : NoDup p -> NoDup (replan_master m p) /\ (forall x, In x (replan_master m p) <-> x = m \/ In x p).
Proof.
  intros D. unfold replan_master. split.
  - constructor.
    + intros Hin. apply filter_In in Hin. destruct Hin as [_ E]. rewrite Z.eqb_refl in E. discriminate.
    + apply NoDup_filter. exact D.
  - intros x. cbn. rewrite filter_In. split.
    + intros [E|[Hin _]]; auto.
    + intros [E|Hin]; [left; congruence|]. destruct (Z.eq_dec x m) as [->|Nm]; [left; reflexivity|].
      right. split; [exact Hin|]. apply negb_true_iff. apply Z.eqb_neq. exact Nm.
Qed.

(* all_consumed is an invariant of every step, page fetches included *)
Lemma all_consumed_step c s o s' ev : all_consumed s -> step c s o = (s', ev) -> all_consumed s' /\
  all_in (hosts_of s' ev) (in_cons s').
Proof.
  intros A H.
  assert (I : HInv (consumed s ++ plan s) s []).
  { split; [reflexivity|split; [apply subseq_nil_l|]]. intros x Hx. apply A. exact Hx. }
  destruct (step_hinv c _ _ _ _ _ _ I H) as (_ & _ & I3). cbn [app] in I3. split; [|exact I3].
  intros x Hx. apply I3, hosts_of_in. apply hosts_nil_split in Hx. tauto.
Qed.

Section History.
Variables (c : config) (lb : list host) (target : option host) (pl : list (host * pstate)) (cl : option Z)
          (idem hasp : bool) (maxa : Z) (ks : option Z).
Let s0 := init lb target pl cl idem hasp maxa ks.
Let P0 := make_plan lb target.

Lemma history_inv ops s evs : exec c s0 ops = (s, evs) -> HInv (plan_after_ops c s0 ops P0) s evs.
Proof. intros H. exact (exec_hinv c ops P0 s0 [] s evs (init_hinv lb target pl cl idem hasp maxa ks) H). Qed.

Lemma history_inv_first_page ops s evs : no_page ops = true -> exec c s0 ops = (s, evs) -> HInv P0 s evs.
Proof. intros N H. rewrite <- (plan_after_ops_no_page c ops s0 P0 N). apply history_inv. exact H. Qed.

Lemma order_history ops s evs : no_page ops = true -> exec c s0 ops = (s, evs) ->
  consumed s ++ plan s = P0 /\ subseq (plan_sends evs) (consumed s) /\ subseq (plan_sends evs) P0.
Proof.
  intros N H. destruct (history_inv_first_page _ _ _ N H) as (I1 & I2 & _). split; [exact I1|split; [exact I2|]].
  rewrite <- I1. apply subseq_app_r. exact I2.
Qed.

Lemma no_repeat ops s evs : no_page ops = true -> exec c s0 ops = (s, evs) -> NoDup P0 -> NoDup (plan_sends evs).
Proof. intros Np H N. destruct (order_history _ _ _ Np H) as (_ & _ & S). eapply subseq_nodup; eauto. Qed.

Lemma mentioned_consumed ops s evs x : exec c s0 ops = (s, evs) -> In x (hosts_of s evs) -> In x (consumed s).
Proof. intros H Hx. destruct (history_inv _ _ _ H) as (_ & _ & I3). apply I3, Hx. Qed.

Lemma mentioned_in_plan ops s evs x : no_page ops = true -> exec c s0 ops = (s, evs) -> In x (hosts_of s evs) -> In x P0.
Proof.
  intros N H Hx. destruct (history_inv_first_page _ _ _ N H) as (I1 & _ & I3). rewrite <- I1. apply in_app_iff. left. apply I3, Hx.
Qed.
End History.

(* explicit target: over every history, page fetches included, only that host is ever mentioned *)
Definition TInv (h : host) (s : state) (evs : list event) : Prop :=
  Forall (eq h) (consumed s ++ plan s) /\ HInv (consumed s ++ plan s) s evs.

Lemma tinv_step c h s evs o s' ev : tgt c = Some h -> TInv h s evs -> step c s o = (s', ev) -> TInv h s' (evs ++ ev).
Proof.
  intros T (F & I) H. pose proof (step_hinv c _ _ _ _ _ _ I H) as I'.
  destruct I' as (I1 & I2 & I3). unfold TInv. rewrite I1. split; [|split; [exact I1|split; [exact I2|exact I3]]].
  destruct o; cbn [plan_after]; try exact F. destruct (paging s); [|exact F].
  apply Forall_app. split; [apply Forall_app in F; apply F|]. rewrite T. cbn. constructor; [reflexivity|constructor].
Qed.

Lemma target_only c lb pl cl idem hasp maxa ks h ops s evs : tgt c = Some h ->
  exec c (init lb (Some h) pl cl idem hasp maxa ks) ops = (s, evs) -> forall h' m cz, In (Sent h' m cz) evs -> h' = h.
Proof.
  intros Tg H h' m cz Hin.
  assert (G : forall ops0 s1 e1 s2 e2, TInv h s1 e1 -> exec c s1 ops0 = (s2, e2) -> TInv h s2 (e1 ++ e2)).
  { induction ops0 as [|o ops0 IH]; intros s1 e1 s2 e2 T E; cbn [exec] in E.
    - inversion E; subst. rewrite app_nil_r. exact T.
    - destruct (step c s1 o) as [sa ea] eqn:S. destruct (exec c sa ops0) as [sb eb] eqn:E2. inversion E; subst.
      rewrite app_assoc. eapply IH; [|exact E2]. eapply tinv_step; eauto. }
  assert (T0 : TInv h (init lb (Some h) pl cl idem hasp maxa ks) []).
  { pose proof (init_hinv lb (Some h) pl cl idem hasp maxa ks) as I.
    assert (E1 : consumed (init lb (Some h) pl cl idem hasp maxa ks) ++ plan (init lb (Some h) pl cl idem hasp maxa ks) = [h]).
    { unfold init, start_timer. cbn [spec_armed spec_left]. destruct (0 <? spec_gate idem hasp maxa); reflexivity. }
    unfold TInv. rewrite E1. split; [constructor; [reflexivity|constructor]|exact I]. }
  destruct (G ops _ [] s evs T0 H) as (F & (_ & _ & I3)). cbn [app] in I3.
  assert (Hc : In h' (consumed s)).
  { apply I3, hosts_of_in. right; right; right. eapply in_sent_hosts; eauto. }
  rewrite Forall_forall in F. symmetry. apply F. apply in_app_iff. left. exact Hc.
Qed.

(* ------------------------------------------------------------------ exhaustion *)
Definition exc_step (s0 s' : state) : Prop :=
  fin_exc s' = fin_exc s0 \/ (exists x, fin_exc s' = Some x /\ x <> XNoHost)
  \/ (fin_exc s' = Some XNoHost /\ plan s' = []).

Lemma walk_exc s b s' ev : send_request s b = (s', ev) -> exc_step s s'.
Proof.
  intros W. apply walk_walked in W.
  destruct W as [sk h rest Hp Hsk Hh Hplan Hcons Hev Hatt Hexc Harm | Hsk Hplan Hcons Hev Hatt Hexc Harm
                | sk rest Hp Hne Hsk Hplan Hcons Hev Hatt Hel Hexc Harm].
  - left. exact Hexc.
  - destruct b; [|left; exact Hexc]. cbn [andb] in Hexc. destruct (completed s); cbn [negb] in Hexc; [left; exact Hexc|].
    right; right. split; [exact Hexc|]. rewrite Hplan. destruct (plan s); reflexivity.
  - destruct (borrowed s' && negb (completed s)); [|left; exact Hexc].
    right; left. exists XTimeout. split; [exact Hexc|discriminate].
Qed.

Lemma on_timeout_exc_step s : exc_step s (on_timeout s).
Proof.
  destruct (on_timeout_exc s) as (E & _). destruct (borrowed s && negb (completed s)); [|left; exact E].
  right; left. exists XTimeout. split; [exact E|discriminate].
Qed.

Lemma exc_step_post s0 s1 s2 : fin_exc s2 = fin_exc s1 -> plan s2 = plan s1 -> exc_step s0 s1 -> exc_step s0 s2.
Proof. intros E P [G|[(x & G & N)|(G & Q)]]; [left; congruence|right; left; exists x; split; [congruence|exact N]|right; right; split; congruence]. Qed.

Lemma query_exc s h m cz s1 ev ok : query s h m cz = (s1, ev, ok) -> fin_exc s1 = fin_exc s.
Proof. rewrite query_eq. destruct (reason (pool_of s h)); intros H; inversion H; subst; reflexivity. Qed.

Lemma exc_step_pre s0 s1 s' : fin_exc s1 = fin_exc s0 -> exc_step s1 s' -> exc_step s0 s'.
Proof. intros E [H|H]; [left; congruence|right; exact H]. Qed.

Lemma qon_exc s h m cz s' ev : query_or_next s h m cz = (s', ev) -> exc_step s s'.
Proof.
  unfold query_or_next. intros H. destruct (query s h m cz) as [[s1 ev1] ok] eqn:Q. apply query_exc in Q.
  destruct ok; [inversion H; subst; left; exact Q|].
  destruct (send_request s1 true) as [s2 ev2] eqn:W. inversion H; subst.
  eapply exc_step_pre; [exact Q|eapply walk_exc; eauto].
Qed.

Lemma fail_with_exc_step s x : x <> XNoHost -> exc_step s (fail_with s x).
Proof.
  intros N. destruct (fail_with_exc s x) as [E _]. destruct (completed s).
  - left. exact E.
  - right; left. exists x. auto.
Qed.

Lemma finish_with_exc_step s r : exc_step s (finish_with s r).
Proof. left. apply finish_with_res. Qed.

Definition exc2 (e0 : option fexc) (s' : state) : Prop :=
  fin_exc s' = e0 \/ (exists x, fin_exc s' = Some x /\ x <> XNoHost).

Lemma exc2_step s s' : exc2 (fin_exc s) s' -> exc_step s s'.
Proof. intros [E|E]; [left; exact E|right; left; exact E]. Qed.

Lemma submit_exc2 s t : exc2 (fin_exc s) (submit s t).
Proof.
  unfold submit. destruct (session_shut s); [|left; reflexivity].
  destruct (fail_with_exc s XShutdown) as [E _]. destruct (completed s); [left; exact E|].
  right. exists XShutdown. split; [exact E|discriminate].
Qed.

Lemma bump_exc2 s dcl t : exc2 (fin_exc s) (bump_retry s dcl t).
Proof.
  unfold bump_retry. destruct (is_some (fin_exc s)); [left; reflexivity|].
  exact (submit_exc2 (bump_counters s dcl) t).
Qed.

Lemma submit_exc_step s t : exc_step s (submit s t).
Proof. apply exc2_step, submit_exc2. Qed.

Ltac other_exc := first [apply fail_with_exc_step; discriminate | apply finish_with_exc_step
                         | left; exact (proj2 (finish_rows_res _ _))].

Lemma set_result_exc c s h r s' ev : set_result c s h r = (s', ev) -> exc_step s s'.
Proof.
  intros H. destruct r; cbn [set_result] in H; try (inversion H; subst; other_exc).
  - destruct (pol c (nconsult s) k tag (retries s) (if request_error_kind k then msg_cl s else None)) as [d dcl].
    unfold handle_decision in H. inversion H; subst; clear H.
    destruct d.
    + apply exc2_step. exact (bump_exc2 (tick_consult s) dcl (TRetry true h)).
    + destruct (fail_with_exc (tick_consult s) (XResp k tag)) as [E _].
      change (completed (tick_consult s)) with (completed s) in E.
      destruct (completed s); [left; exact E|]. right; left. exists (XResp k tag). split; [exact E|discriminate].
    + left. exact (proj2 (finish_with_res (tick_consult s) FNone)).
    + apply exc2_step. exact (bump_exc2 (tick_consult s) dcl (TRetry false h)).
  - unfold unprepared in H.
    assert (G : forall ps, unprep_go c s h ps = (s', ev) -> exc_step s s').
    { intros [[pid qs] ks0] G. unfold unprep_go in G.
      destruct (negb (uses_ks c) && is_some ks0 && negb (opt_eqb (conn_ks s) ks0)); inversion G; subst;
        [other_exc|apply submit_exc_step]. }
    destruct (fut_ps c) as [[[pid pqs] pks]|].
    + destruct (negb (pid =? id)); [inversion H; subst; other_exc|].
      destruct (lookup (known c) id); eapply G; eauto.
    + destruct (lookup (known c) id); [eapply G; eauto|inversion H; subst; other_exc].
Qed.

Lemma after_prepare_exc c s h r s' ev : after_prepare c s h r = (s', ev) -> exc_step s s'.
Proof.
  unfold after_prepare. intros H.
  destruct (is_some (fin_exc s)); [inversion H; subst; left; reflexivity|].
  destruct r; try (inversion H; subst; other_exc).
  - destruct (fut_ps c) as [[[pid pqs] pks]|].
    + destruct (negb (pid =? id)); [inversion H; subst; other_exc|eapply qon_exc; eauto].
    + eapply qon_exc; eauto.
  - destruct (is_conn_kind k); [|inversion H; subst; other_exc].
    destruct (send_request (set_err s h (EResp k tag)) true) as [s2 ev2] eqn:W. inversion H; subst.
    eapply exc_step_pre; [|eapply walk_exc; eauto]. reflexivity.
Qed.

Lemma run_task_exc c s t s' ev : run_task c s t = (s', ev) -> exc_step s s'.
Proof.
  intros H. destruct t as [reuse h|h qs ks0|h r]; cbn [run_task] in H.
  - destruct (is_some (fin_exc s)); [inversion H; subst; left; reflexivity|].
    destruct reuse; [eapply qon_exc; eauto|eapply walk_exc; eauto].
  - eapply qon_exc; eauto.
  - eapply after_prepare_exc; eauto.
Qed.

Lemma step_exc c s o s' ev : is_next_page o = false -> step c s o = (s', ev) -> exc_step s s'.
Proof.
  intros NP H. destruct o as [|i r|k| |h0 p|k|pp]; cbn [step] in H; [| | | | | |discriminate].
  - eapply walk_exc; eauto.
  - destruct (nth_error (attempts s) i) as [a|]; [|inversion H; subst; left; reflexivity].
    destruct (a_done a); [inversion H; subst; left; reflexivity|].
    destruct (a_prep a); [inversion H; subst; exact (submit_exc_step (set_attempts s (mark_done i (attempts s))) _)|].
    destruct (Nat.eqb (a_page a) (page_no s)); [|inversion H; subst; left; reflexivity].
    destruct (resp_current_cases _ _ _ _ _ _ H) as [H'|(k & tag & dcl & reuse & s2 & ev2 & -> & I & Pl & F & Sh & R & -> & ->)].
    + apply set_result_exc in H'. eapply exc_step_pre; [|exact H']. reflexivity.
    + apply run_task_exc in R. apply (exc_step_post s s2); [reflexivity|reflexivity|].
      eapply exc_step_pre; [|exact R]. reflexivity.
  - destruct (nth_error (queue s) k) as [t|]; [|inversion H; subst; left; reflexivity].
    assert (G : exc_step (set_queue s (remove_nth k (queue s))) s').
    { destruct t as [reuse h|h qs ks0|h r]; cbn [run_task] in H.
      - destruct (is_some (fin_exc (set_queue s (remove_nth k (queue s))))); [inversion H; subst; left; reflexivity|].
        destruct reuse; [eapply qon_exc; eauto|eapply walk_exc; eauto].
      - eapply qon_exc; eauto.
      - eapply after_prepare_exc; eauto. }
    eapply exc_step_pre; [|exact G]. reflexivity.
  - unfold spec_fire in H.
    destruct (negb (spec_armed s)); [inversion H; subst; left; reflexivity|].
    destruct (completed (set_spec s false (spec_left s))); [inversion H; subst; left; reflexivity|].
    destruct (attempts (set_spec s false (spec_left s))); [inversion H; subst; left; reflexivity|].
    destruct (elapsed (set_spec s false (spec_left s))).
    { inversion H; subst. apply (exc_step_pre s (set_spec s false (spec_left s))); [reflexivity|apply on_timeout_exc_step]. }
    destruct (send_request (set_spec s false (spec_left s)) false) as [s1 ev1] eqn:W. inversion H; subst.
    apply walk_exc in W. apply (exc_step_pre s (set_spec s false (spec_left s))); [reflexivity|].
    apply (exc_step_post _ s1); [| |exact W];
      unfold start_timer; destruct (spec_armed s1); try destruct (0 <? spec_left s1); reflexivity.
  - inversion H; subst. left; reflexivity.
  - inversion H; subst. left; reflexivity.
Qed.

(* NoHostAvailable appears only when a send_request ran off the end of the plan, and carries _errors as of then *)
Lemma nohost_only_when_exhausted c s o s' ev : step c s o = (s', ev) -> fin_exc s' = Some XNoHost ->
  fin_exc s = Some XNoHost \/ plan s' = [].
Proof.
  intros H E. destruct (is_next_page o) eqn:NP.
  - destruct o; try discriminate. cbn [step] in H. destruct (paging s); [|inversion H; subst; left; exact E].
    destruct (page_start_fields c s p) as (_ & _ & _ & _ & E0 & _).
    destruct (walk_exc _ _ _ _ H) as [G|[(x & G & N)|(G & P)]].
    + congruence.
    + exfalso. rewrite G in E. inversion E; subst. apply N; reflexivity.
    + right. exact P.
  - destruct (step_exc _ _ _ _ _ NP H) as [G|[(x & G & N)|(G & P)]].
    + left. congruence.
    + exfalso. rewrite G in E. inversion E; subst. apply N; reflexivity.
    + right. exact P.
Qed.
