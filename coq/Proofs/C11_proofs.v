(* Lemmas about Model/Push.v (C11). *)
From Coq Require Import ZArith List Bool Arith Lia.
From Verif Require Import Push.
Import ListNotations.

(* ------------------------------------------------------------------ chunking *)
Lemma split_every_ok : forall fuel n m, (0 < n)%nat -> (length m <= fuel)%nat ->
  exists cs, split_every fuel n m = Some cs /\ concat cs = m
             /\ Forall (fun c => (length c <= n)%nat /\ c <> []) cs.
Proof.
  induction fuel as [|f IH]; intros n m Hn Hlen.
  - destruct m as [|x m']; [|cbn in Hlen; lia]. exists []. cbn. repeat split; constructor.
  - destruct m as [|x m'].
    + exists []. cbn. repeat split; constructor.
    + assert (Hs : (length (skipn n (x :: m')) <= f)%nat).
      { rewrite skipn_length. cbn [length] in *. lia. }
      destruct (IH n (skipn n (x :: m')) Hn Hs) as [cs [H1 [H2 H3]]].
      exists (firstn n (x :: m') :: cs). cbn [split_every]. rewrite H1. repeat split.
      * cbn [concat]. rewrite H2. apply firstn_skipn.
      * constructor; auto. split; [apply firstn_le_length|].
        destruct n; [lia|]. cbn. discriminate.
Qed.

Lemma chunks_ok : forall n m, (0 < n)%nat ->
  exists cs, chunks n m = Some cs /\ concat cs = m /\ Forall (fun c => (length c <= n)%nat) cs /\ cs <> [].
Proof.
  intros n m Hn. unfold chunks.
  destruct (length m <=? n)%nat eqn:E.
  - exists [m]. apply Nat.leb_le in E. repeat split; cbn; try rewrite app_nil_r; auto; discriminate.
  - apply Nat.leb_gt in E. destruct (n =? 0)%nat eqn:E0; [apply Nat.eqb_eq in E0; lia|].
    destruct (split_every_ok (length m) n m Hn (le_n _)) as [cs [H1 [H2 H3]]].
    exists cs. repeat split; auto.
    + eapply Forall_impl; [|exact H3]. cbn. intros a [Ha _]. exact Ha.
    + intro Hc. subst cs. cbn in H2. subst m. cbn in E. lia.
Qed.

Lemma chunks_zero_raises : forall m, (0 < length m)%nat -> chunks 0 m = None.
Proof. intros m H. unfold chunks. destruct m; cbn in *; [lia|reflexivity]. Qed.

Lemma chunks_mode_ok : forall md m, mode_ok md -> exists cs, chunks_mode md m = Some cs /\ concat cs = m.
Proof.
  intros [n|] m H; cbn in *.
  - destruct (chunks_ok n m H) as [cs [H1 [H2 _]]]. eauto.
  - exists [m]. cbn. rewrite app_nil_r. auto.
Qed.

(* ------------------------------------------------------------------ the invariant *)
Definition pending_bytes (ts : list task) : list Z := concat (map (fun tk => concat (t_chunks tk)) ts).

Record Inv (prog : nat -> list msg) (s : pstate) : Prop := mkInv {
  inv_tasks : Forall (fun tk => concat (t_chunks tk) = t_msg tk) (tasks s);
  inv_bytes : wire s ++ concat (queue s) ++ pending_bytes (tasks s) = concat (map snd (order s));
  inv_threads : forall t, thread_part t (order s) ++ todo s t = prog t
}.

Lemma inv_init : forall prog, Inv prog (init prog).
Proof. intro prog. constructor; cbn; auto. Qed.

Lemma thread_part_app : forall t a b, thread_part t (a ++ b) = thread_part t a ++ thread_part t b.
Proof. intros. unfold thread_part. rewrite filter_app, map_app. reflexivity. Qed.

Lemma inv_step : forall md prog s o, mode_ok md -> Inv prog s -> Inv prog (step md s o).
Proof.
  intros md prog s o Hmd [I1 I2 I3]. destruct o as [t| |]; cbn [step].
  - destruct (todo s t) as [|m rest] eqn:Et; [constructor; auto|].
    destruct (chunks_mode_ok md m Hmd) as [cs [Hc Hcat]]. rewrite Hc.
    constructor; cbn [todo tasks queue wire order].
    + apply Forall_app. split; [exact I1|]. constructor; [exact Hcat | constructor].
    + unfold pending_bytes in *. rewrite !map_app, !concat_app. cbn. rewrite !app_nil_r, Hcat.
      rewrite <- I2. rewrite !app_assoc. reflexivity.
    + intro u. rewrite thread_part_app. cbn. destruct (Nat.eqb u t) eqn:E.
      * apply Nat.eqb_eq in E. subst u. rewrite Nat.eqb_refl. cbn.
        rewrite <- app_assoc. cbn. rewrite <- Et. apply I3.
      * rewrite Nat.eqb_sym, E. cbn. rewrite app_nil_r. apply I3.
  - destruct (tasks s) as [|tk rest] eqn:Et; [constructor; auto; rewrite Et; auto|].
    constructor; cbn [todo tasks queue wire order]; auto.
    + inversion I1; auto.
    + rewrite <- I2. unfold pending_bytes. cbn. rewrite concat_app, <- !app_assoc. reflexivity.
  - destruct (queue s) as [|c rest] eqn:Eq; [constructor; auto; rewrite Eq; auto|].
    constructor; cbn [todo tasks queue wire order]; auto.
    rewrite <- I2. cbn. rewrite <- !app_assoc. reflexivity.
Qed.

Lemma inv_run : forall md prog ops, mode_ok md -> Inv prog (run md prog ops).
Proof.
  intros md prog ops Hmd. unfold run.
  assert (H : forall s, Inv prog s -> Inv prog (fold_left (step md) ops s)).
  { induction ops as [|o ops IH]; intros s Hs; cbn; auto. apply IH. apply inv_step; auto. }
  apply H. apply inv_init.
Qed.

Lemma pending_bytes_msgs : forall ts, Forall (fun tk => concat (t_chunks tk) = t_msg tk) ts ->
  pending_bytes ts = concat (map t_msg ts).
Proof.
  induction ts as [|tk ts IH]; intro H; cbn; auto. inversion H; subst.
  unfold pending_bytes in *. cbn. rewrite IH; auto. congruence.
Qed.

Lemma order_main : forall md prog ops, mode_ok md ->
  let s := run md prog ops in
  wire s ++ concat (queue s) ++ concat (map t_msg (tasks s)) = concat (map snd (order s))
  /\ (forall t, thread_part t (order s) ++ todo s t = prog t)
  /\ (tasks s = [] -> queue s = [] -> wire s = concat (map snd (order s)))
  /\ Forall (fun tk => concat (t_chunks tk) = t_msg tk) (tasks s).
Proof.
  intros md prog ops Hmd s. destruct (inv_run md prog ops Hmd) as [I1 I2 I3]. fold s in I1, I2, I3.
  rewrite (pending_bytes_msgs _ I1) in I2. repeat split; auto.
  intros Ht Hq. rewrite Ht, Hq in I2. cbn in I2. rewrite app_nil_r in I2. exact I2.
Qed.
