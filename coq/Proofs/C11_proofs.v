(* Lemmas about Model/Push.v (C11). *)
From Coq Require Import ZArith List Bool Arith Lia.
From Verif Require Import Push.
Import ListNotations.

(* ------------------------------------------------------------------ chunking *)
Lemma split_every_ok : forall fuel n m, (0 < n)%nat -> (length m <= fuel)%nat ->
  exists cs, split_every fuel n m = Some cs /\ concat cs = m
             /\ Forall (fun c => (length c <= n)%nat /\ c <> []) cs.
Proof.
  induction fuel as [|f IH]; intros n m Hn Hlen.
  - destruct m as [|x m']; [|cbn in Hlen; lia]. exists []. cbn. repeat split; constructor.
  - destruct m as [|x m'].
    + exists []. cbn. repeat split; constructor.
    + assert (Hs : (length (skipn n (x :: m')) <= f)%nat).
      { rewrite skipn_length. cbn [length] in *. lia. }
      destruct (IH n (skipn n (x :: m')) Hn Hs) as [cs [H1 [H2 H3]]].
      exists (firstn n (x :: m') :: cs). cbn [split_every]. rewrite H1. repeat split.
      * cbn [concat]. rewrite H2. apply firstn_skipn.
      * constructor; auto. split; [apply firstn_le_length|].
        destruct n; [lia|]. cbn. discriminate.
Qed.

Lemma chunks_ok : forall n m, (0 < n)%nat ->
  exists cs, chunks n m = Some cs /\ concat cs = m /\ Forall (fun c => (length c <= n)%nat) cs /\ cs <> [].
Proof.
  intros n m Hn. unfold chunks.
  destruct (length m <=? n)%nat eqn:E.
  - exists [m]. apply Nat.leb_le in E. repeat split; cbn; try rewrite app_nil_r; auto; discriminate.
  - apply Nat.leb_gt in E. destruct (n =? 0)%nat eqn:E0; [apply Nat.eqb_eq in E0; lia|].
    destruct (split_every_ok (length m) n m Hn (le_n _)) as [cs [H1 [H2 H3]]].
    exists cs. repeat split; auto.
    + eapply Forall_impl; [|exact H3]. cbn. intros a [Ha _]. exact Ha.
    + intro Hc. subst cs. cbn in H2. subst m. cbn in E. lia.
Qed.

Lemma chunks_zero_raises : forall m, (0 < length m)%nat -> chunks 0 m = None.
Proof. intros m H. unfold chunks. destruct m; cbn in *; [lia|reflexivity]. Qed.

Lemma chunks_mode_ok : forall md m, mode_ok md -> exists cs, chunks_mode md m = Some cs /\ concat cs = m.
Proof.
  intros [n|] m H; cbn in *.
  - destruct (chunks_ok n m H) as [cs [H1 [H2 _]]]. eauto.
  - exists [m]. cbn. rewrite app_nil_r. auto.
Qed.

(* ------------------------------------------------------------------ the invariant *)
Definition entry_task (e : entry) : task := match e with EHandoff tk => tk | EStep tk => tk end.

Record Inv (c : pcfg) (prog : nat -> list msg) (s : pstate) : Prop := mkInv {
  inv_tasks : Forall (fun e => concat (t_chunks (entry_task e)) = t_msg (entry_task e)) (ready s);
  inv_direct : Forall (fun e => match e with EHandoff tk => p_direct c (t_thread tk) = false | EStep _ => True end) (ready s);
  inv_bytes : wire s ++ cur s ++ concat (queue s) = concat (map snd (order s));
  inv_threads : forall t, thread_part t (order s) ++ steps_of t (ready s) ++ handoffs_of t (ready s) ++ todo s t = prog t
}.

Lemma inv_init : forall c prog, Inv c prog (init prog).
Proof. intros c prog. constructor; cbn; auto. Qed.

Lemma thread_part_app : forall t a b, thread_part t (a ++ b) = thread_part t a ++ thread_part t b.
Proof. intros. unfold thread_part. rewrite filter_app, map_app. reflexivity. Qed.

Lemma steps_of_app : forall t a b, steps_of t (a ++ b) = steps_of t a ++ steps_of t b.
Proof.
  induction a as [|[tk|tk] a IH]; intro b; cbn; auto.
  destruct (Nat.eqb (t_thread tk) t); cbn; rewrite IH; reflexivity.
Qed.

Lemma handoffs_of_app : forall t a b, handoffs_of t (a ++ b) = handoffs_of t a ++ handoffs_of t b.
Proof.
  induction a as [|[tk|tk] a IH]; intro b; cbn; auto.
  destruct (Nat.eqb (t_thread tk) t); cbn; rewrite IH; reflexivity.
Qed.

Lemma handoffs_direct_nil : forall c t l, p_direct c t = true ->
  Forall (fun e => match e with EHandoff tk => p_direct c (t_thread tk) = false | EStep _ => True end) l ->
  handoffs_of t l = [].
Proof.
  induction l as [|[tk|tk] l IH]; intros Hd HF; cbn; auto; inversion HF; subst; auto.
  destruct (Nat.eqb (t_thread tk) t) eqn:E; auto.
  apply Nat.eqb_eq in E. subst t. congruence.
Qed.

Ltac lists := cbn; rewrite ?app_nil_r; rewrite <- ?app_assoc; cbn; rewrite ?app_nil_r; try reflexivity.

Lemma inv_step : forall c prog s o, mode_ok (p_mode c) -> p_keep_rest c = true -> Inv c prog s -> Inv c prog (step c s o).
Proof.
  intros c prog s o Hmd Hk [I1 I2 I3 I4]. destruct o as [t| |k]; cbn [step].
  - (* Push *)
    destruct (todo s t) as [|m rest] eqn:Et; [constructor; auto|].
    destruct (chunks_mode_ok (p_mode c) m Hmd) as [cs [Hc Hcat]]. rewrite Hc.
    constructor; cbn [todo ready queue cur wire order]; auto.
    + apply Forall_app. split; [exact I1|]. constructor; [|constructor]. destruct (p_direct c t); cbn; exact Hcat.
    + apply Forall_app. split; [exact I2|]. constructor; [|constructor]. destruct (p_direct c t) eqn:Ed; cbn; auto.
    + intro u. rewrite steps_of_app, handoffs_of_app. destruct (Nat.eqb u t) eqn:E.
      * apply Nat.eqb_eq in E. subst u. specialize (I4 t). rewrite Et in I4. rewrite <- I4.
        destruct (p_direct c t) eqn:Ed; cbn; rewrite Nat.eqb_refl.
        -- rewrite (handoffs_direct_nil c t (ready s) Ed I2). lists.
        -- lists.
      * specialize (I4 u). rewrite <- I4.
        assert (Hne : Nat.eqb t u = false) by (rewrite Nat.eqb_sym; exact E).
        destruct (p_direct c t); cbn; rewrite Hne; lists.
  - (* RunReady *)
    destruct (ready s) as [|[tk|tk] rest] eqn:Er; [constructor; auto; rewrite ?Er; auto| |].
    + (* handoff -> task step at the end of the queue *)
      try rewrite Er in I1; try rewrite Er in I2; inversion I1; subst; inversion I2; subst.
      constructor; cbn [todo ready queue cur wire order]; auto.
      * apply Forall_app. split; auto.
      * apply Forall_app. split; auto.
      * intro u. specialize (I4 u). try rewrite Er in I4. cbn in I4. rewrite steps_of_app, handoffs_of_app. cbn.
        destruct (Nat.eqb (t_thread tk) u); cbn in *; rewrite <- I4; lists.
    + (* task step: all chunks of the message enter the write queue *)
      try rewrite Er in I1; try rewrite Er in I2; inversion I1; subst; inversion I2; subst.
      constructor; cbn [todo ready queue cur wire order]; auto.
      * rewrite map_app, !concat_app. cbn. rewrite app_nil_r. cbn in H1. rewrite H1. rewrite <- I3, <- !app_assoc. reflexivity.
      * intro u. specialize (I4 u). try rewrite Er in I4. cbn in I4. rewrite thread_part_app. cbn.
        destruct (Nat.eqb (t_thread tk) u); cbn in *; rewrite <- I4; lists.
  - (* SendPart *)
    rewrite Hk. destruct (cur s) as [|x cu] eqn:Ec.
    + destruct (queue s) as [|ch rest] eqn:Eq; [constructor; auto; rewrite ?Ec, ?Eq; auto|].
      constructor; cbn [todo ready queue cur wire order]; auto.
      rewrite <- I3. cbn. rewrite <- !app_assoc. rewrite (app_assoc (firstn k ch)), firstn_skipn. reflexivity.
    + constructor; cbn [todo ready queue cur wire order]; auto.
      rewrite <- I3. rewrite <- !app_assoc. rewrite (app_assoc (firstn k (x :: cu))), firstn_skipn. reflexivity.
Qed.

Lemma inv_run : forall c prog ops, mode_ok (p_mode c) -> p_keep_rest c = true -> Inv c prog (run c prog ops).
Proof.
  intros c prog ops Hmd Hk. unfold run.
  assert (H : forall s, Inv c prog s -> Inv c prog (fold_left (step c) ops s)).
  { induction ops as [|o ops IH]; intros s Hs; cbn; auto. apply IH. apply inv_step; auto. }
  apply H. apply inv_init.
Qed.

Lemma order_main : forall c prog ops, mode_ok (p_mode c) -> p_keep_rest c = true ->
  let s := run c prog ops in
  wire s ++ cur s ++ concat (queue s) = concat (map snd (order s))
  /\ (forall t, thread_part t (order s) ++ steps_of t (ready s) ++ handoffs_of t (ready s) ++ todo s t = prog t)
  /\ (drained s -> wire s = concat (map snd (order s)) /\ forall t, thread_part t (order s) ++ todo s t = prog t).
Proof.
  intros c prog ops Hmd Hk s. destruct (inv_run c prog ops Hmd Hk) as [I1 I2 I3 I4]. fold s in I1, I2, I3, I4.
  repeat split; auto.
  - destruct H as [Hr [Hq Hc]]. rewrite Hq, Hc in I3. cbn in I3. rewrite app_nil_r in I3. exact I3.
  - intro t. destruct H as [Hr [Hq Hc]]. specialize (I4 t). rewrite Hr in I4. cbn in I4. exact I4.
Qed.

(* ------------------------------------------------------------------ protocol v5 send path *)
Lemma prefix_of_map : forall {A B} (f : A -> B) (l : list A) (a b : list B),
  a ++ b = map f l -> a = map f (firstn (length a) l).
Proof.
  intros A B f l a b H.
  assert (H1 : firstn (length a) (a ++ b) = a) by (rewrite firstn_app, Nat.sub_diag, firstn_all; cbn; apply app_nil_r).
  rewrite H in H1. rewrite firstn_map in H1. symmetry. exact H1.
Qed.

Lemma send_v5_main : forall enc maxp c frames ops, mode_ok (p_mode c) -> p_keep_rest c = true ->
  let s := run c (send_prog enc maxp frames) ops in
  drained s ->
  wire s = concat (map snd (order s))
  /\ forall t, exists k, thread_part t (order s) = map (encode_v5_or_nil enc maxp) (firstn k (frames t)).
Proof.
  intros enc maxp c frames ops Hmd Hk s Hd.
  destruct (order_main c (send_prog enc maxp frames) ops Hmd Hk) as [_ [H2 H3]]. fold s in H2, H3.
  destruct (H3 Hd) as [Hw Ht]. split; [exact Hw|].
  intro t. exists (length (thread_part t (order s))). eapply prefix_of_map. apply Ht.
Qed.
