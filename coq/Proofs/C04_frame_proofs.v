(* C04 proofs, part 2: EVENT, SUPPORTED, message bodies, frame level, exception table. *)
From Coq Require Import ZArith List Bool Lia ZifyBool String Ascii.
From Verif Require Import Response ResponseSpec C04_proofs.
Import ListNotations.
Local Open Scope Z_scope.

(* ------------------------------------------------------------------ EVENT, SUPPORTED, message bodies *)
Lemma rt_event : forall pv e rest, wf_event pv e = true ->
  rd_event pv (enc_event pv e ++ rest)
  = Some ((event_name e, match e with
                         | EvTopologyChange c a p | EvStatusChange c a p => EaNode c a p
                         | EvSchemaChange sc => EaSchema (exact_schema sc)
                         end), rest).
Proof.
  intros pv e rest W. unfold rd_event, enc_event.
  destruct e; cbn [wf_event event_name] in *; bsplit; repeat rewrite <- app_assoc; step' rt_string.
  - change (ascii_upper (zs "TOPOLOGY_CHANGE")) with (zs "TOPOLOGY_CHANGE"). lit_test. cbn [orb].
    step' rt_string. step' rt_inet. reflexivity.
  - change (ascii_upper (zs "STATUS_CHANGE")) with (zs "STATUS_CHANGE"). lit_test. cbn [orb].
    step' rt_string. step' rt_inet. reflexivity.
  - change (ascii_upper (zs "SCHEMA_CHANGE")) with (zs "SCHEMA_CHANGE"). lit_test. cbn [orb].
    step' rt_schema. reflexivity.
Qed.

Lemma rt_stringmultimap : forall o rest,
  (len o <? 65536) = true -> nodup (map fst o) = true ->
  forallb (fun kv => wf_string (fst kv) && wf_string_list (snd kv)) o = true ->
  rd_stringmultimap (enc_string_multimap o ++ rest) = Some (o, rest).
Proof.
  intros o rest L N F. unfold rd_stringmultimap, enc_string_multimap. rewrite <- app_assoc. step' rt_short.
  erewrite pbind_some.
  2:{ apply (rt_count _ _ (fun c => c)). intros [k v] r Hin. cbn [fst snd]. rewrite <- app_assoc.
      pose proof (forallb_In _ _ _ F Hin) as Wp. cbn [fst snd] in Wp. bsplit. step' rt_string. step' rt_stringlist. reflexivity. }
  rewrite map_id. pnorm. rewrite dict_of_nodup by assumption. reflexivity.
Qed.

Lemma rt_bytesmap : forall o rest,
  (len o <? 65536) = true -> nodup (map fst o) = true ->
  forallb (fun kv => wf_string (fst kv) && wf_obytes (snd kv)) o = true ->
  rd_bytesmap (enc_bytes_map o ++ rest) = Some (o, rest).
Proof.
  intros o rest L N F. unfold rd_bytesmap, enc_bytes_map. rewrite <- app_assoc. step' rt_short.
  erewrite pbind_some.
  2:{ apply (rt_count _ _ (fun c => c)). intros [k v] r Hin. cbn [fst snd]. rewrite <- app_assoc.
      pose proof (forallb_In _ _ _ F Hin) as Wp. cbn [fst snd] in Wp. bsplit. step' rt_string. step' rt_value. reflexivity. }
  rewrite map_id. pnorm. rewrite dict_of_nodup by assumption. reflexivity.
Qed.

Definition body_supported (b : rbody) : bool :=
  match b with
  | RAuthSuccess (Some t) => utf8_valid t
  | RError e _ => err_supported e
  | _ => true
  end.

Lemma driver_gap_supported : forall r, driver_gap r = negb (body_supported (rs_body r)).
Proof.
  intros [t w p b]. unfold driver_gap. cbn [rs_body]. destruct b; try reflexivity.
  - destruct e; try reflexivity. destruct contentions; reflexivity.
  - destruct token; [cbn; destruct (utf8_valid b); reflexivity|reflexivity].
Qed.

(* the message body is the last thing in the frame: decoded with nothing left over *)
Lemma rt_body : forall pv rm b, wf_rbody pv rm b = true -> body_supported b = true ->
  rd_body pv rm (spec_opcode (mkresp None None None b)) (enc_rbody pv b) = Some (exact_body pv rm b, []).
Proof.
  intros pv rm b W S. unfold spec_opcode. cbn [rs_body].
  destruct b; cbn [wf_rbody enc_rbody exact_body body_supported] in *; unfold rd_body; ctest.
  - bsplit. rewrite <- (app_nil_r (enc_err e)). apply rt_error; assumption.
  - reflexivity.
  - rewrite <- (app_nil_r (enc_string authenticator)). step' rt_string. reflexivity.
  - bsplit. rewrite <- (app_nil_r (enc_string_multimap options)). step' rt_stringmultimap.
    match goal with Hn : nodup _ = true, Hm : mem _ _ = true |- _ => destruct (dict_pop_spec _ _ Hn Hm) as [v [G Pp]] end.
    rewrite Pp, G. reflexivity.
  - rewrite <- (app_nil_r (enc_result pv r)). step' rt_result. reflexivity.
  - rewrite <- (app_nil_r (enc_event pv e)). step' rt_event. reflexivity.
  - destruct token as [t|]; cbn [null_as_empty].
    + rewrite <- (app_nil_r (enc_bytes (Some t))). step' rt_blong. reflexivity.
    + reflexivity.
  - destruct token as [t|]; cbn [null_as_empty].
    + rewrite <- (app_nil_r (enc_bytes (Some t))). unfold rd_longstring. step' rt_blong. unfold rd_utf8. rewrite S. reflexivity.
    + reflexivity.
Qed.

(* ------------------------------------------------------------------ frame level *)
Lemma frame_flags_has : forall t p w,
  let f := b2z t 2 + b2z p 4 + b2z w 8 in
  has f 1 = false /\ has f 2 = t /\ has f 4 = p /\ has f 8 = w.
Proof. intros [] [] []; vm_compute; repeat split; reflexivity. Qed.

Lemma decode_exact : forall pv rm stream r,
  wf_response pv rm r = true ->
  decode_message pv rm stream (spec_flags r) (spec_opcode r) (spec_body pv r) = Some (exact pv rm stream r).
Proof.
  intros pv rm stream [tr wa pa b] W. unfold wf_response in W. apply andb_prop in W. destruct W as [W G].
  rewrite driver_gap_supported in G. rewrite negb_involutive in G. cbn [rs_body] in G.
  unfold wf_spec in W. cbn [rs_trace rs_warnings rs_payload rs_body] in W. bsplit.
  unfold decode_message, spec_flags, spec_body, exact. cbn [rs_trace rs_warnings rs_payload rs_body].
  destruct (frame_flags_has (is_some tr) (is_some pa) (is_some wa)) as [F1 [F2 [F4 F8]]]. cbv zeta in *.
  rewrite F1, F2, F4, F8. rewrite andb_false_r.
  assert (OP : spec_opcode (mkresp tr wa pa b) = spec_opcode (mkresp None None None b)) by reflexivity.
  rewrite OP.
  assert (E : (trace <- rd_opt (is_some tr) rd_uuid ;;
               warnings <- rd_opt (is_some wa) rd_stringlist ;;
               payload <- rd_opt (is_some pa) rd_bytesmap ;;
               b0 <- rd_body pv rm (spec_opcode (mkresp None None None b)) ;;
               ret (mkmsg stream trace warnings payload b0))
              (match tr with Some t => t | None => [] end
               ++ match wa with Some w => enc_string_list w | None => [] end
               ++ match pa with Some p => enc_bytes_map p | None => [] end ++ enc_rbody pv b)
            = Some (mkmsg stream tr wa pa (exact_body pv rm b), [])).
  { destruct tr as [t|]; cbn [is_some].
    - pnorm. unfold rd_uuid at 1. pnorm.
      match goal with H : (len t =? 16) = true |- _ => apply Z.eqb_eq in H; rewrite <- H end.
      step' rt_n. rewrite Z.eqb_refl. pnorm.
      destruct wa as [w|]; cbn [is_some]; [step' rt_stringlist|pnorm; rewrite app_nil_l];
        (destruct pa as [p|]; cbn [is_some]; [bsplit; step' rt_bytesmap|pnorm; rewrite app_nil_l]);
        step' rt_body; reflexivity.
    - pnorm. rewrite app_nil_l.
      destruct wa as [w|]; cbn [is_some]; [step' rt_stringlist|pnorm; rewrite app_nil_l];
        (destruct pa as [p|]; cbn [is_some]; [bsplit; step' rt_bytesmap|pnorm; rewrite app_nil_l]);
        step' rt_body; reflexivity. }
  rewrite E. reflexivity.
Qed.

(* ------------------------------------------------------------------ exceptions *)
Lemma exceptions_table : forall pv rm e m,
  wf_rbody pv rm (RError e m) = true -> err_supported e = true ->
  to_exception (exact_body pv rm (RError e m)) = Some (documented_exception e m).
Proof.
  intros pv rm e m W S. cbn [exact_body wf_rbody] in *. apply andb_prop in W. destruct W as [_ W].
  destruct e; cbn [err_supported] in S; try discriminate; try reflexivity.
  cbn [wf_err] in W. cbn in W.
  repeat (apply orb_prop in W; destruct W as [W|W]; [apply Z.eqb_eq in W; subst code; reflexivity|]).
  discriminate.
Qed.
