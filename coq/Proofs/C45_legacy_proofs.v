(* C45, legacy HostConnectionPool (Model/LegacyPool.v): every connection the pool opened is in _connections, in the trash
   or closed; once shut down everything in _connections and in the trash is closed; a shut-down pool opens nothing. *)
From Coq Require Import List Bool Arith Lia.
From Verif Require Import LegacyPool.
Import ListNotations.

Definition LI (s : ls) : Prop :=
  (forall c, c < lnconn s -> In c (lclosed s) \/ In c (lconns s) \/ In c (ltrash s)) /\
  (lshut s = true -> forall c, In c (lconns s) \/ In c (ltrash s) -> In c (lclosed s)).

Lemma In_remove_nth {A} (k : nat) (l : list A) x : In x (remove_nth k l) -> In x l.
Proof. revert k; induction l; intros k Hin; destruct k; simpl in *; auto. destruct Hin; eauto. Qed.

Lemma nth_or_removed {A} (k : nat) (l : list A) c x : nth_error l k = Some c -> In x l -> x = c \/ In x (remove_nth k l).
Proof.
  revert k; induction l; intros k Hk Hin; destruct k; simpl in *; try discriminate.
  - inversion Hk; subst. destruct Hin; auto.
  - destruct Hin as [-> | Hin]; auto. destruct (IHl k Hk Hin); auto.
Qed.

Lemma LI_init : LI linit.
Proof. split; simpl; [|discriminate]. intros c Hc. right; left. simpl. lia. Qed.

(* changes that keep the three lists and the flag, or only enlarge closed *)
Lemma LI_same s s' : lnconn s' = lnconn s -> (forall c, In c (lclosed s) -> In c (lclosed s')) -> lconns s' = lconns s ->
  ltrash s' = ltrash s -> lshut s' = lshut s -> LI s -> LI s'.
Proof.
  intros E1 E2 E3 E4 E5 (A & B). split.
  - intros c Hc. rewrite E1 in Hc. rewrite E3, E4. destruct (A c Hc) as [H | H]; auto.
  - rewrite E5, E3, E4. intros Hs c Hc. auto.
Qed.

Lemma LI_submit s t : LI s -> LI (l_submit s t).
Proof. intros H. unfold l_submit. destruct (lsess_down s); auto. Qed.

Lemma LI_sess_flag s : LI s -> LI (sess_flag s).
Proof. intros H. eapply LI_same; [| | | | | exact H]; auto. Qed.

Lemma LI_pool_shutdown s : LI s -> LI (pool_shutdown s) /\ lshut (pool_shutdown s) = true.
Proof.
  intros (A & B). unfold pool_shutdown. destruct (lshut s) eqn:E; [split; [split; auto | auto]|].
  split; [|reflexivity]. split; simpl.
  - intros c Hc. destruct (A c Hc) as [H | [H | H]]; auto.
    left. apply in_or_app. right. apply in_or_app. auto.
  - intros _ c [H | H]; apply in_or_app; [right; apply in_or_app; auto | auto].
Qed.

Lemma LI_shutdown s : LI s -> LI (shutdown s).
Proof. intros H. apply LI_pool_shutdown. apply LI_sess_flag. exact H. Qed.

(* s1: right after the connect of the new connection c = lnconn s1 - 1, which is not accounted for yet *)
Lemma LI_add_conn_ok s1 c d :
  (forall x, x < c -> In x (lclosed s1) \/ In x (lconns s1) \/ In x (ltrash s1)) ->
  (lshut s1 = true -> forall x, In x (lconns s1) \/ In x (ltrash s1) -> In x (lclosed s1)) ->
  lnconn s1 = S c -> LI (fst (add_conn_ok s1 c d)).
Proof.
  intros A1 B1 E1. unfold add_conn_ok.
  set (s2 := if (d =? 1) || (d =? 2) then shutdown s1 else s1).
  assert (H2 : (forall x, x < c -> In x (lclosed s2) \/ In x (lconns s2) \/ In x (ltrash s2)) /\
               (lshut s2 = true -> forall x, In x (lconns s2) \/ In x (ltrash s2) -> In x (lclosed s2)) /\ lnconn s2 = S c).
  { unfold s2. destruct ((d =? 1) || (d =? 2)); [|auto].
    unfold shutdown, pool_shutdown, sess_flag. cbn [lshut]. destruct (lshut s1) eqn:Es; cbn [lnconn lclosed lconns ltrash lshut].
    - repeat split; auto.
    - repeat split; auto.
      + intros x Hx. destruct (A1 x Hx) as [H | [H | H]]; auto. left. apply in_or_app. right. apply in_or_app. auto.
      + intros _ x [H | H]; apply in_or_app; [right; apply in_or_app; auto | auto]. }
  destruct H2 as (A & B & En). clearbody s2. destruct (lshut s2) eqn:E2; cbn [fst].
  - split; cbn [lnconn lclosed lconns ltrash lshut].
    + intros x Hx. rewrite En in Hx. assert (x < c \/ x = c) as [Hl | ->] by lia; [|left; left; reflexivity].
      destruct (A x Hl) as [H | H]; auto. left. right. exact H.
    + intros _ x Hx. right. apply B; auto.
  - split; cbn [lnconn lclosed lconns ltrash lshut].
    + intros x Hx. rewrite En in Hx. assert (x < c \/ x = c) as [Hl | ->] by lia.
      * destruct (A x Hl) as [H | [H | H]]; auto. right; left. apply in_or_app; auto.
      * right; left. apply in_or_app. right. simpl. auto.
    + intros Hf. try rewrite E2 in Hf. discriminate Hf.
Qed.

Lemma LI_add_conn s ok d : LI s -> LI (fst (add_conn s ok d)).
Proof.
  intros H. unfold add_conn. destruct (lshut s) eqn:Es; [exact H|]. destruct (maxc <=? lopen s); [exact H|].
  destruct ok; [|eapply LI_same; [| | | | | exact H]; auto].
  destruct H as (A & B). apply LI_add_conn_ok; [exact A | cbn; discriminate | reflexivity].
Qed.

Lemma LI_run_lt s t ok d : LI s -> LI (run_lt s t ok d).
Proof.
  intros H. pose proof (LI_add_conn s ok d H) as H1. destruct t; simpl; destruct (add_conn s ok d) as [s1 r]; simpl in H1.
  - eapply LI_same; [| | | | | exact H1]; auto.
  - destruct r; auto. apply LI_submit; auto.
Qed.

Lemma LI_pop s k : LI s -> LI (pop_task s k).
Proof. intros H. eapply LI_same; [| | | | | exact H]; auto. Qed.

Lemma LI_step s o : LI s -> LI (lstep s o).
Proof.
  intros H. destruct o; cbn [lstep].
  - destruct ((1 <=? lsched s) || (maxc <=? lopen s)); auto. apply LI_submit. eapply LI_same; [| | | | | exact H]; auto.
  - destruct (nth_error (lqueue s) k); auto. apply LI_run_lt. apply LI_pop; auto.
  - apply LI_shutdown; auto.
  - destruct (nth_error (lqueue s) k); auto. destruct (lsess_down s); auto.
    apply LI_pool_shutdown. apply LI_run_lt. apply LI_pop. apply LI_sess_flag; auto.
  - destruct (nth_error (lconns s) i) as [c|] eqn:Ei; auto. destruct (core <? lopen s); auto.
    destruct H as (A & B). destruct busy; split; simpl.
    + intros x Hx. destruct (A x Hx) as [Hc | [Hc | Hc]]; auto.
      destruct (nth_or_removed i _ c x Ei Hc) as [-> | Hr]; auto.
    + intros Hs x [Hx | [-> | Hx]]; apply (B Hs); auto.
      * left. eapply In_remove_nth; eauto.
      * left. eapply nth_error_In; eauto.
    + intros x Hx. destruct (A x Hx) as [Hc | [Hc | Hc]]; auto.
      destruct (nth_or_removed i _ c x Ei Hc) as [-> | Hr]; auto.
    + intros Hs x [Hx | Hx]; right; apply (B Hs); auto. left. eapply In_remove_nth; eauto.
  - destruct (nth_error (lconns s) i) as [c|] eqn:Ei; auto. apply LI_submit.
    destruct H as (A & B). split; simpl.
    + intros x Hx. destruct (A x Hx) as [Hc | [Hc | Hc]]; auto.
      destruct (nth_or_removed i _ c x Ei Hc) as [-> | Hr]; auto.
    + intros Hs x [Hx | Hx]; right; apply (B Hs); auto. left. eapply In_remove_nth; eauto.
  - destruct (nth_error (ltrash s) i) as [c|] eqn:Ei; auto. destruct (existsb (Nat.eqb c) (lclosed s)); auto.
    destruct H as (A & B). split; simpl.
    + intros x Hx. destruct (A x Hx) as [Hc | [Hc | Hc]]; auto.
      destruct (nth_or_removed i _ c x Ei Hc) as [-> | Hr]; auto.
    + intros Hs x [Hx | Hx]; right; apply (B Hs); auto. right. eapply In_remove_nth; eauto.
Qed.

Lemma LI_run os : forall s, LI s -> LI (lrun s os).
Proof. induction os; simpl; intros s H; auto. apply IHos. apply LI_step; auto. Qed.

Lemma legacy_all_closed s : LI s -> lshut s = true -> forall c, c < lnconn s -> In c (lclosed s).
Proof. intros (A & B) Hs c Hc. destruct (A c Hc) as [H | H]; auto. Qed.

(* a shut-down pool stays shut down and opens no connection, whatever runs afterwards *)
Lemma shut_add_conn s ok d : lshut s = true -> add_conn s ok d = (s, true).
Proof. intros H. unfold add_conn. rewrite H. reflexivity. Qed.

Lemma shut_step s o : lshut s = true -> lnconn (lstep s o) = lnconn s /\ lshut (lstep s o) = true.
Proof.
  intros H. destruct o; cbn [lstep].
  - destruct ((1 <=? lsched s) || (maxc <=? lopen s)); auto. unfold l_submit; simpl. destruct (lsess_down s); auto.
  - destruct (nth_error (lqueue s) k) as [t|]; auto.
    assert (Hp : lshut (pop_task s k) = true) by exact H.
    destruct t; simpl; rewrite (shut_add_conn _ ok d Hp); simpl; auto.
  - unfold shutdown, pool_shutdown, sess_flag. simpl. rewrite H. auto.
  - destruct (nth_error (lqueue s) k) as [t|]; auto. destruct (lsess_down s); auto.
    assert (Hp : lshut (pop_task (sess_flag s) k) = true) by exact H.
    unfold pool_shutdown. destruct t; simpl; rewrite (shut_add_conn _ true 0 Hp); simpl; rewrite H; auto.
  - destruct (nth_error (lconns s) i); auto. destruct (core <? lopen s); auto. destruct busy; simpl; auto.
  - destruct (nth_error (lconns s) i); auto. unfold l_submit; simpl. destruct (lsess_down s); auto.
  - destruct (nth_error (ltrash s) i) as [c|]; auto. destruct (existsb (Nat.eqb c) (lclosed s)); auto.
Qed.
