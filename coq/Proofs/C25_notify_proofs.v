(* C25: a step that marks a host up emits exactly one listener notification (on_up or on_add) for it *)
From Coq Require Import ZArith List Bool Arith Lia.
From Verif Require Import HostState.
Import ListNotations.

Definition isl (h : nat) (n : note) : bool :=
  match n with NL 0 h' => h' =? h | NL 2 h' => h' =? h | _ => false end.
Definition lc (h : nat) (l : list note) : nat := length (filter (isl h) l).
Definition upof (s : st) (h : nat) : nat := up (hosts s h).

(* Q: nobody becomes up, no listener up/add note is added *)
Definition Q (s s' : st) : Prop :=
  (forall h, upof s' h = 1 -> upof s h = 1) /\ (forall h, lc h (out s') = lc h (out s)).
(* G: whoever becomes up gets exactly one more listener note *)
Definition G (s s' : st) : Prop :=
  forall h, upof s h <> 1 -> upof s' h = 1 -> lc h (out s') = S (lc h (out s)).

Lemma Q_refl s : Q s s. Proof. split; auto. Qed.
Lemma Q_trans a b c : Q a b -> Q b c -> Q a c.
Proof. intros [A1 A2] [B1 B2]. split; intros h; [auto | rewrite B2; auto]. Qed.
Lemma Q_G s s' : Q s s' -> G s s'.
Proof. intros [A1 A2] h Hn Hu. exfalso. auto. Qed.
Lemma G_Q a b c : G a b -> Q b c -> G a c.
Proof. intros HG [B1 B2] h Hn Hu. rewrite B2. apply HG; auto. Qed.
Lemma Q_G_trans a b c : Q a b -> G b c -> G a c.
Proof. intros [A1 A2] HG h Hn Hu. rewrite <- A2. apply HG; auto. Qed.

(* ---- quiet primitives *)
Definition nomark (f : hst -> hst) : Prop := forall x, up (f x) = 1 -> up x = 1.

Lemma Q_updh s h f : nomark f -> Q s (updh s h f).
Proof.
  intros Hf. split.
  - intros x. unfold upof, updh; simpl. destruct (x =? h) eqn:E; auto.
  - intros x. reflexivity.
Qed.
Lemma Q_same s s' : hosts s' = hosts s -> out s' = out s -> Q s s'.
Proof. intros E1 E2. unfold Q, upof. rewrite E1, E2. auto. Qed.
Lemma Q_emit s n : (forall h, isl h n = false) -> Q s (emit s n).
Proof. intros Hn. split; [auto|]. intros h. unfold lc, emit; simpl. rewrite Hn. reflexivity. Qed.

Lemma nm_reg v : nomark (h_reg v). Proof. intros x; auto. Qed.
Lemma nm_handling v : nomark (h_handling v). Proof. intros x; auto. Qed.
Lemma nm_present v : nomark (h_present v). Proof. intros x; auto. Qed.
Lemma nm_up0 : nomark (h_up 0). Proof. intros x; simpl; discriminate. Qed.
Lemma nm_up2 : nomark (h_up 2). Proof. intros x; simpl; discriminate. Qed.
Lemma nm_comp f g : nomark f -> nomark g -> nomark (fun x => f (g x)).
Proof. intros Hf Hg x H. auto. Qed.

Lemma Q_cancel_opt s o : Q s (cancel_opt s o).
Proof. destruct o; simpl; [apply Q_same; reflexivity | apply Q_refl]. Qed.
Lemma Q_enq s ts : Q s (enq s ts). Proof. apply Q_same; reflexivity. Qed.
Lemma Q_remove_pools s h cb : Q s (remove_pools s h cb).
Proof. unfold remove_pools. eapply Q_trans; [apply (Q_same s (upd_pools s h (fun _ => 0))); reflexivity | apply Q_enq]. Qed.
Lemma Q_add_pools s h a g : Q s (add_pools s h a g).
Proof. unfold add_pools. destruct (ignd s h); [apply Q_refl | apply Q_enq]. Qed.
Lemma Q_ucp_one s sid : Q s (ucp_one s sid).
Proof. unfold ucp_one. eapply Q_trans; [apply (Q_same s (set_epools s (ucp_pools s sid))); reflexivity | apply Q_enq]. Qed.
Lemma Q_ucp_fold l : forall s, Q s (fold_left ucp_one l s).
Proof. induction l; simpl; intros s; [apply Q_refl|]. eapply Q_trans; [apply Q_ucp_one | apply IHl]. Qed.
Lemma Q_ucp_all s : Q s (ucp_all s). Proof. apply Q_ucp_fold. Qed.

Lemma Q_start s h a : Q s (start_reconnector s h a).
Proof.
  unfold start_reconnector. destruct (ignd s h); [apply Q_refl|].
  destruct (negb (present (hosts s h) =? 1)); [apply Q_refl|].
  eapply Q_trans; [| apply Q_same; reflexivity].
  eapply Q_trans; [| apply Q_cancel_opt].
  eapply Q_trans; [| apply Q_updh, nm_reg]. apply Q_same; reflexivity.
Qed.

(* ---- the three marking sites *)
Lemma lc_cons_hit h l k : (k = 0 \/ k = 2) -> lc h (NL k h :: l) = S (lc h l).
Proof. intros [-> | ->]; unfold lc; simpl; rewrite Nat.eqb_refl; reflexivity. Qed.
Lemma lc_cons_miss h h' l k : h' <> h -> lc h (NL k h' :: l) = lc h l.
Proof.
  intros Hn. apply Nat.eqb_neq in Hn. unfold lc; simpl.
  destruct k as [|[|[|k]]]; simpl; rewrite ?Hn; reflexivity.
Qed.

Lemma G_mark s h k f : (k = 0 \/ k = 2) -> (forall x, up (f x) = up x) ->
  G s (updh (emit (updh s h (h_up 1)) (NL k h)) h f).
Proof.
  intros Hk Hf x Hn Hu. unfold upof, updh, emit in *; simpl in *.
  destruct (x =? h) eqn:E; rewrite ?E in *.
  - apply Nat.eqb_eq in E; subst. apply lc_cons_hit; auto.
  - contradiction.
Qed.

Lemma G_mark2 s h k F : (k = 0 \/ k = 2) -> G s (emit (updh s h F) (NL k h)).
Proof.
  intros Hk x Hn Hu. unfold upof, updh, emit in *; simpl in *.
  destruct (x =? h) eqn:E; rewrite ?E in *.
  - apply Nat.eqb_eq in E; subst. apply lc_cons_hit; auto.
  - contradiction.
Qed.

Lemma G_emit_only s n : G s (emit s n).
Proof. intros x Hn Hu. exfalso. apply Hn. exact Hu. Qed.

Lemma Q_set_nextg s v : Q s (set_nextg s v). Proof. apply Q_same; reflexivity. Qed.
Lemma Q_set_gfail s v : Q s (set_gfail s v). Proof. apply Q_same; reflexivity. Qed.
Lemma Q_set_order s v : Q s (set_order s v). Proof. apply Q_same; reflexivity. Qed.
Lemma Q_set_queue s v : Q s (set_queue s v). Proof. apply Q_same; reflexivity. Qed.
Lemma Q_set_timers s v : Q s (set_timers s v). Proof. apply Q_same; reflexivity. Qed.
Lemma Q_set_nrecs s v : Q s (set_nrecs s v). Proof. apply Q_same; reflexivity. Qed.
Lemma Q_updr s r f : Q s (updr s r f). Proof. apply Q_same; reflexivity. Qed.
Lemma Q_set_probes s v : Q s (set_probes s v). Proof. apply Q_same; reflexivity. Qed.
Lemma Q_set_epools s v : Q s (set_epools s v). Proof. apply Q_same; reflexivity. Qed.
Lemma Q_set_eign s v : Q s (set_eign s v). Proof. apply Q_same; reflexivity. Qed.
Lemma Q_upd_pools s h f : Q s (upd_pools s h f). Proof. apply Q_same; reflexivity. Qed.

Ltac nm := first [apply nm_reg | apply nm_handling | apply nm_present | apply nm_up0 | apply nm_up2
                 | apply nm_comp; first [apply nm_reg | apply nm_handling | apply nm_up0 | apply nm_up2 | apply nm_present] ].
Ltac qstep l := eapply Q_trans; [| apply l].
Ltac q := lazymatch goal with
  | |- Q ?s ?s => apply Q_refl
  | |- Q _ (add_pools _ _ _ _) => qstep Q_add_pools; q
  | |- Q _ (remove_pools _ _ _) => qstep Q_remove_pools; q
  | |- Q _ (ucp_all _) => qstep Q_ucp_all; q
  | |- Q _ (cancel_opt _ _) => qstep Q_cancel_opt; q
  | |- Q _ (start_reconnector _ _ _) => qstep Q_start; q
  | |- Q _ (enq _ _) => qstep Q_enq; q
  | |- Q _ (emit _ _) => eapply Q_trans; [| apply Q_emit; intros ?; reflexivity]; q
  | |- Q _ (updh _ _ _) => eapply Q_trans; [| apply Q_updh; nm]; q
  | |- Q _ (set_nextg _ _) => qstep Q_set_nextg; q
  | |- Q _ (set_gfail _ _) => qstep Q_set_gfail; q
  | |- Q _ (set_order _ _) => qstep Q_set_order; q
  | |- Q _ (set_queue _ _) => qstep Q_set_queue; q
  | |- Q _ (set_timers _ _) => qstep Q_set_timers; q
  | |- Q _ (set_nrecs _ _) => qstep Q_set_nrecs; q
  | |- Q _ (updr _ _ _) => qstep Q_updr; q
  | |- Q _ (set_probes _ _) => qstep Q_set_probes; q
  | |- Q _ (set_epools _ _) => qstep Q_set_epools; q
  | |- Q _ (set_eign _ _) => qstep Q_set_eign; q
  | |- Q _ (upd_pools _ _ _) => qstep Q_upd_pools; q
  | |- Q _ (ucp_one _ _) => qstep Q_ucp_one; q
  end.

Lemma G_on_up s h : G s (on_up s h).
Proof.
  unfold on_up. destruct (handling (hosts s h)); [apply Q_G, Q_refl|].
  destruct (up (hosts s h) =? 1); [apply Q_G, Q_refl|].
  match goal with |- G s (if ?c then ?a else ?b) => assert (Ha : Q s a) end.
  { q. }
  match goal with |- G s (if ?c then _ else _) => destruct c end.
  - apply Q_G; exact Ha.
  - eapply Q_G_trans; [exact Ha|]. apply G_mark2; auto.
Qed.

Lemma G_finalize_add s h b : G s (finalize_add s h b).
Proof.
  unfold finalize_add. eapply G_Q; [| apply Q_ucp_all]. destruct b.
  - apply G_mark2; auto.
  - apply G_emit_only.
Qed.

Lemma G_on_add s h : G s (on_add s h).
Proof.
  unfold on_add.
  assert (H0 : Q s (emit s (NP 2 h))) by q.
  destruct (ignd (emit s (NP 2 h)) h).
  - eapply Q_G_trans; [exact H0 | apply G_finalize_add].
  - match goal with |- G s (if ?c then ?a else _) => assert (Ha : Q s a) by q; destruct c end.
    + apply Q_G; exact Ha.
    + eapply Q_G_trans; [exact Ha | apply G_finalize_add].
Qed.

Lemma Q_on_remove s h : Q s (on_remove s h).
Proof. unfold on_remove. q. Qed.

Lemma Q_on_down_task s h a e : Q s (on_down_task s h a e).
Proof.
  unfold on_down_task. destruct (negb (ignd s h) && connected s h); [apply Q_refl|].
  match goal with |- Q s (if ?c then _ else _) => destruct c end; q.
Qed.

Lemma Q_cleanup s h : Q s (cleanup s h).
Proof. unfold cleanup. q. Qed.

Lemma G_grp_done s h g res : G s (grp_done s h g res).
Proof.
  unfold grp_done. destruct g.
  - apply Q_G, Q_refl.
  - set (s1 := if res then s else set_gfail s (g :: gfail s)).
    assert (H1 : Q s s1) by (unfold s1; destruct res; q).
    destruct (existsb _ (queue s1)); [apply Q_G; exact H1|].
    destruct (gfailed s1 g).
    + apply Q_G. eapply Q_trans; [exact H1|]. eapply Q_trans; [apply (Q_cleanup s1 h)|]. q.
    + eapply Q_G_trans; [exact H1|]. eapply G_Q; [| apply Q_ucp_all]. apply G_mark. auto. intros x; reflexivity.
  - set (s1 := if res then s else set_gfail s (g :: gfail s)).
    assert (H1 : Q s s1) by (unfold s1; destruct res; q).
    destruct (existsb _ (queue s1)); [apply Q_G; exact H1|].
    destruct (gfailed s1 g); [apply Q_G; exact H1|].
    eapply Q_G_trans; [exact H1 | apply G_finalize_add].
Qed.

Lemma G_run_task s t o : G s (run_task s t o).
Proof.
  destruct t; simpl.
  - apply Q_G, Q_on_down_task.
  - unfold run_addpool. destruct o; (eapply Q_G_trans; [| apply G_grp_done]); q.
  - destruct cb; apply Q_G; q.
Qed.

Lemma G_probe_finish s r o : G s (probe_finish s r o).
Proof.
  unfold probe_finish. destruct o.
  - destruct (rcanc (recs s r)); [apply Q_G, Q_refl|].
    eapply G_Q; [| apply Q_updh, nm_reg].
    destruct (radd (recs s r)); [apply G_on_add | apply G_on_up].
  - apply Q_G. destruct (rleft (recs s r)) as [[|n]|]; q.
  - apply Q_G. q.
Qed.

Lemma G_reconnect s r o : G s (reconnect s r o).
Proof.
  unfold reconnect. destruct (rcanc (recs s r)); [apply Q_G, Q_refl|].
  eapply Q_G_trans; [| apply G_probe_finish]. q.
Qed.

Lemma Q_probe_start s r : Q s (probe_start s r).
Proof. unfold probe_start. destruct (rcanc (recs s r)); q. Qed.

Lemma G_step_ s e : G s (step_ s e).
Proof.
  destruct e as [h|h|h|h|h|k o|k o|k|j o|e0 b]; simpl.
  - destruct (known s h); apply Q_G; q.
  - destruct (known s h); apply Q_G; q.
  - destruct (known s h); [apply G_on_up | apply Q_G, Q_refl].
  - destruct ((present (hosts s h) =? 0) && ((h <? neps s) || (present (hosts s (h - neps s)) =? 2))); [| apply Q_G, Q_refl].
    eapply Q_G_trans; [| apply G_on_add]. q.
  - destruct (present (hosts s h) =? 1); apply Q_G; [apply Q_on_remove | apply Q_refl].
  - destruct (nth_error (timers s) k); [| apply Q_G, Q_refl].
    eapply Q_G_trans; [| apply G_reconnect]. q.
  - destruct (nth_error (queue s) k); [| apply Q_G, Q_refl].
    eapply Q_G_trans; [| apply G_run_task]. q.
  - destruct (nth_error (timers s) k); [| apply Q_G, Q_refl].
    apply Q_G. eapply Q_trans; [| apply Q_probe_start]. q.
  - destruct (nth_error (probes s) j); [| apply Q_G, Q_refl].
    eapply Q_G_trans; [| apply G_probe_finish]. q.
  - apply Q_G. q.
Qed.

Lemma lc_rev h l : lc h (rev l) = lc h l.
Proof.
  unfold lc. induction l; simpl; auto. rewrite filter_app, app_length. simpl.
  destruct (isl h a); simpl; rewrite IHl; lia.
Qed.

(* the step-local theorem: whatever the state, a step that takes a host from "not up" to "up" notifies the listeners
   exactly once for that host (on_up or on_add) *)
Lemma marked_up_notified_once s e h :
  up (hosts s h) <> 1 -> up (hosts (fst (step s e)) h) = 1 -> lc h (snd (step s e)) = 1.
Proof.
  intros Hn Hu. unfold step in *; simpl in *. rewrite lc_rev.
  pose proof (G_step_ (set_out s []) e h) as HG. apply HG; auto.
Qed.
