(* C47: once the server has accepted STARTUP, the negotiated compression IS what the connection applies (lemmas). *)
From Coq Require Import ZArith List Bool Lia.
From Verif Require Import Handshake C47_proofs.
Import ListNotations.
Local Open Scope Z_scope.

(* ------------------------------------------------------------------ the negotiated compression IS applied once accepted *)
Definition post_accept (s : state) : Prop := authphase s \/ reported_ready s = true.

Record ApInv (v : Z) (s : state) : Prop := mkAp {
  ap_comp : comp s = None \/ comp s = pcomp s;
  ap_pending : pending s <> Some CbOptions;
  ap_ck : cksum s = true -> has_cs v = true;
  ap_applied : post_accept s -> comp s = pcomp s /\ cksum s = has_cs v /\ (cksum s = true -> seglz4 s = is_some (pcomp s))
}.

Definition auth_frame_ok (v : Z) (pc : option Z) (f : frame) : Prop :=
  (f_kind f = MAuthResponse \/ f_kind f = MCredentials) ->
  f_compressed f = is_some pc && negb (has_cs v) /\ f_checksummed f = has_cs v /\ f_segcomp f = has_cs v && is_some pc.

Lemma ap_step : forall cfg s r, c_guard cfg = true -> ApInv (c_version cfg) s ->
  pcomp (fst (step cfg s r)) = pcomp s /\ ApInv (c_version cfg) (fst (step cfg s r))
  /\ Forall (auth_frame_ok (c_version cfg) (pcomp s)) (snd (step cfg s r)).
Proof.
  intros cfg s r Hg [A1 A2 A4 A3]. unfold post_accept, authphase, reported_ready, auth_frame_ok in *.
  destr_state s.
  destruct (has_cs (c_version cfg)) eqn:Hv;
  [| destruct ck; [specialize (A4 eq_refl); discriminate|] ];
  (destruct p as [[|[|]|]|]; try congruence;
   try (destruct A3 as [E1 [E2 E3]]; [left; auto; fail|]; subst; try specialize (E3 eq_refl); subst));
  destruct r; unf; cbn; rewrite ?Hg, ?Hv; cbn; repeat (break_goal; cbn);
  (split; [reflexivity|]);
  (split; [constructor; unfold post_accept, authphase, reported_ready; cbn; rewrite ?Hv;
           try (intuition congruence);
           try (destruct A1 as [A1|A1]; subst; cbn; intuition congruence);
           try (destruct cn; cbn in *; intuition congruence);
           try (destruct A1 as [A1|A1]; subst; destruct cn; cbn in *; intuition congruence)
          | repeat constructor; cbn; rewrite ?Hv; intros; cbn; rewrite ?andb_true_r, ?andb_false_r;
            try (intuition congruence);
            try (destruct A1 as [A1|A1]; subst; cbn; intuition congruence)]).
Qed.

Lemma ap_run : forall cfg rs s, c_guard cfg = true -> ApInv (c_version cfg) s ->
  pcomp (fst (run_from cfg s rs)) = pcomp s /\ ApInv (c_version cfg) (fst (run_from cfg s rs))
  /\ Forall (auth_frame_ok (c_version cfg) (pcomp s)) (snd (run_from cfg s rs)).
Proof.
  induction rs as [|r rs IH]; intros s Hg HA; cbn [run_from].
  - split; [reflexivity | split; [exact HA | constructor]].
  - destruct (ap_step cfg s r Hg HA) as [H1 [H2 H3]].
    destruct (step cfg s r) as [s1 o1]. cbn [fst snd] in *.
    destruct (IH s1 Hg H2) as [H4 [H5 H6]]. destruct (run_from cfg s1 rs) as [s2 o2]. cbn [fst snd] in *.
    split; [congruence | split; [exact H5 |]]. apply Forall_app. split; auto. rewrite <- H1. exact H6.
Qed.

Definition announces (o : list frame) (a : Z) : Prop := exists f, In f o /\ f_kind f = MStartup (Some a).

Ltac ap_inv_now := constructor; unfold post_accept, authphase, reported_ready; cbn; intuition congruence.

Lemma ap_first : forall cfg r, c_guard cfg = true ->
  let x := step cfg init_state r in
  ApInv (c_version cfg) (fst x)
  /\ Forall (auth_frame_ok (c_version cfg) (pcomp (fst x))) (snd x)
  /\ (forall a, pcomp (fst x) = Some a -> announces (snd x) a).
Proof.
  intros cfg r Hg. unfold auth_frame_ok, announces.
  destruct r as [remote| | | | |k| | |]; try destruct k; cbn; rewrite ?Hg; cbn.
  2-11: (split; [ap_inv_now | split; [constructor | intros a H; discriminate]]).
  unfold handle_options. destruct (negotiate cfg remote) as [|a0|e]; unf; cbn.
  - split; [ap_inv_now | split; [constructor; [cbn; intros [H|H]; discriminate | constructor] | intros a H; discriminate]].
  - split; [ap_inv_now | split; [constructor; [cbn; intros [H|H]; discriminate | constructor] |]].
    intros a H. inversion H; subst. eexists. split; [left; reflexivity | reflexivity].
  - split; [ap_inv_now | split; [constructor | intros a H; discriminate]].
Qed.

Lemma applied_main : forall cfg rs, c_guard cfg = true ->
  let s := fst (run cfg rs) in
  (authphase s \/ reported_ready s = true ->
     comp s = pcomp s /\ cksum s = has_cs (c_version cfg) /\ (cksum s = true -> seglz4 s = is_some (pcomp s)))
  /\ (forall f, In f (snd (run cfg rs)) -> f_kind f = MAuthResponse \/ f_kind f = MCredentials ->
        f_compressed f = is_some (pcomp s) && negb (has_cs (c_version cfg))
        /\ f_checksummed f = has_cs (c_version cfg)
        /\ f_segcomp f = has_cs (c_version cfg) && is_some (pcomp s))
  /\ (forall a, pcomp s = Some a -> announces (snd (run cfg rs)) a).
Proof.
  intros cfg rs Hg. unfold run. destruct rs as [|r rest].
  { cbn. split; [intros [[H|H]|H]; discriminate|]. split.
    - intros f [H|[]] K; subst f; cbn in K; destruct K; discriminate.
    - intros a H; discriminate. }
  cbn [run_from].
  destruct (ap_first cfg r Hg) as [F1 [F2 F3]].
  destruct (step cfg init_state r) as [s1 o1]. cbn [fst snd] in *.
  destruct (ap_run cfg rest s1 Hg F1) as [R1 [R2 R3]].
  destruct (run_from cfg s1 rest) as [s2 o2]. cbn [fst snd] in *.
  destruct R2 as [A1 A2 A4 A3]. split; [exact A3|]. split.
  - intros f Hin Hk. rewrite R1. apply in_app_or in Hin. destruct Hin as [Hin|Hin].
    + cbn in Hin. destruct Hin as [Hin|[]]. subst f. destruct Hk; discriminate.
    + apply in_app_or in Hin. rewrite Forall_forall in F2, R3. destruct Hin as [Hin|Hin]; [apply F2 | apply R3]; auto.
  - intros a Ha. rewrite R1 in Ha. destruct (F3 a Ha) as [f [Hin Hk]].
    exists f. split; auto. apply in_or_app. right. apply in_or_app. left. exact Hin.
Qed.
