(* C33: OrderedMap -- index/items consistency and refinement of an insertion-ordered association list. *)
From Coq Require Import ZArith List Bool Arith Lia.
From Verif Require Import OrderedMap.
Import ListNotations.

Lemma bytes_eqb_spec : forall a b, bytes_eqb a b = true <-> a = b.
Proof.
  induction a as [|x a IH]; intros [|y b]; cbn; try (split; discriminate); [tauto|].
  rewrite andb_true_iff, Z.eqb_eq, IH. split; [intros [-> ->]; reflexivity|intro H; injection H; auto].
Qed.
Lemma bytes_eqb_refl : forall a, bytes_eqb a a = true.
Proof. intro a. apply bytes_eqb_spec. reflexivity. Qed.
Lemma bytes_eqb_neq : forall a b, a <> b -> bytes_eqb a b = false.
Proof. intros a b H. destruct (bytes_eqb a b) eqn:E; [apply bytes_eqb_spec in E; contradiction|reflexivity]. Qed.
Lemma bytes_eqb_sym : forall a b, bytes_eqb a b = bytes_eqb b a.
Proof.
  intros a b. destruct (bytes_eqb a b) eqn:E.
  - apply bytes_eqb_spec in E. subst. symmetry. apply bytes_eqb_refl.
  - destruct (bytes_eqb b a) eqn:E2; [|reflexivity]. apply bytes_eqb_spec in E2. subst. rewrite bytes_eqb_refl in E. discriminate.
Qed.

Section MapProofs.
  Variable K V : Type.
  Variable serialize : K -> list Z.
  Variable key_eqb : K -> K -> bool.
  Variable val_eqb : V -> V -> bool.

  Notation omap := (omap K V).
  Notation wf := (wf K V serialize).
  Notation keys_of := (keys_of K V serialize).
  Notation step := (step K V serialize key_eqb val_eqb).
  Notation a_step := (a_step K V serialize key_eqb val_eqb).
  Notation insert := (insert K V serialize).
  Notation a_insert := (a_insert K V serialize).

  (* ---------------------------------------------------------------- the dict *)
  Lemma idx_get_del : forall d k k', idx_get (idx_del d k) k' = if bytes_eqb k k' then None else idx_get d k'.
  Proof.
    unfold idx_del. induction d as [|[k0 i] d IH]; intros k k'; cbn [filter idx_get fst].
    - destruct (bytes_eqb k k'); reflexivity.
    - destruct (bytes_eqb k0 k) eqn:E0; cbn [negb idx_get].
      + apply bytes_eqb_spec in E0. subst k0. rewrite IH. destruct (bytes_eqb k k'); reflexivity.
      + rewrite IH. destruct (bytes_eqb k0 k') eqn:E1; [|reflexivity].
        apply bytes_eqb_spec in E1. subst k0. rewrite bytes_eqb_sym, E0. reflexivity.
  Qed.

  Lemma idx_get_set : forall d k i k', idx_get (idx_set d k i) k' = if bytes_eqb k k' then Some i else idx_get d k'.
  Proof.
    intros. unfold idx_set. cbn. destruct (bytes_eqb k k') eqn:E; [reflexivity|]. rewrite idx_get_del, E. reflexivity.
  Qed.

  Lemma idx_get_map : forall (f : nat -> nat) d k,
    idx_get (map (fun p => (fst p, f (snd p))) d) k = option_map f (idx_get d k).
  Proof.
    intros f. induction d as [|[k0 i] d IH]; intro k; cbn; [reflexivity|].
    destruct (bytes_eqb k0 k); [reflexivity|apply IH].
  Qed.

  (* ---------------------------------------------------------------- positions of keys *)
  Lemma find_pos_None : forall fk ks, find_pos fk ks = None <-> ~ In fk ks.
  Proof.
    intros fk. induction ks as [|k ks IH]; cbn; [tauto|].
    destruct (bytes_eqb k fk) eqn:E.
    - apply bytes_eqb_spec in E. subst. split; [discriminate|]. intro H. exfalso. apply H. left. reflexivity.
    - destruct (find_pos fk ks) eqn:F; cbn.
      + split; [discriminate|]. intro H. exfalso. apply H. right.
        destruct (in_dec (list_eq_dec Z.eq_dec) fk ks) as [Hin|Hin]; [exact Hin|]. apply IH in Hin. discriminate.
      + split; [|reflexivity]. intros _ [H|H]; [subst; rewrite bytes_eqb_refl in E; discriminate|].
        apply (proj1 IH); [reflexivity|exact H].
  Qed.

  Lemma find_pos_split : forall fk ks i, find_pos fk ks = Some i ->
    exists l1 l2, ks = l1 ++ fk :: l2 /\ length l1 = i /\ ~ In fk l1.
  Proof.
    intros fk. induction ks as [|k ks IH]; intros i H; cbn in H; [discriminate|].
    destruct (bytes_eqb k fk) eqn:E.
    - apply bytes_eqb_spec in E. subst k. injection H as <-. exists [], ks. repeat split. intros [].
    - destruct (find_pos fk ks) as [j|] eqn:F; cbn in H; [|discriminate]. injection H as <-.
      destruct (IH j eq_refl) as [l1 [l2 [-> [Hl Hn]]]]. exists (k :: l1), l2. cbn. repeat split; [lia|].
      intros [H|H]; [subst; rewrite bytes_eqb_refl in E; discriminate|contradiction].
  Qed.

  Lemma find_pos_app : forall fk l1 l2,
    find_pos fk (l1 ++ l2) = match find_pos fk l1 with
                             | Some i => Some i
                             | None => option_map (fun j => length l1 + j) (find_pos fk l2)
                             end.
  Proof.
    intros fk. induction l1 as [|k l1 IH]; intro l2; cbn.
    - destruct (find_pos fk l2); reflexivity.
    - destruct (bytes_eqb k fk); [reflexivity|]. rewrite IH. destruct (find_pos fk l1); cbn; [reflexivity|].
      destruct (find_pos fk l2); reflexivity.
  Qed.

  Lemma find_pos_first : forall fk l1 l2, ~ In fk l1 -> find_pos fk (l1 ++ fk :: l2) = Some (length l1).
  Proof.
    intros fk l1 l2 H. rewrite find_pos_app. apply find_pos_None in H. rewrite H. cbn.
    rewrite bytes_eqb_refl. cbn. f_equal. lia.
  Qed.

  Lemma find_pos_lt : forall fk ks i, find_pos fk ks = Some i -> i < length ks /\ nth_error ks i = Some fk.
  Proof.
    intros fk ks i H. destruct (find_pos_split _ _ _ H) as [l1 [l2 [-> [Hl _]]]]. subst i.
    rewrite app_length. cbn. split; [lia|]. rewrite nth_error_app2 by lia. rewrite Nat.sub_diag. reflexivity.
  Qed.

  Lemma keys_of_app : forall l1 l2, keys_of (l1 ++ l2) = keys_of l1 ++ keys_of l2.
  Proof. intros. unfold OrderedMap.keys_of. apply map_app. Qed.

  Lemma set_nth_same : forall (T : Type) (l : list T) i x, nth_error l i = Some x ->
    firstn i l ++ x :: skipn (S i) l = l.
  Proof.
    induction l as [|a l IH]; intros [|i] x H; cbn in *; try discriminate.
    - injection H as ->. reflexivity.
    - f_equal. apply IH. exact H.
  Qed.

  Lemma keys_of_set_nth : forall l i k v, nth_error (keys_of l) i = Some (serialize k) ->
    keys_of (set_nth i (k, v) l) = keys_of l.
  Proof.
    intros l i k v H. unfold set_nth, OrderedMap.keys_of in *.
    rewrite map_app. cbn [map fst]. rewrite <- firstn_map, <- skipn_map.
    apply set_nth_same. exact H.
  Qed.

  Lemma keys_of_remove_nth : forall l i, keys_of (remove_nth i l) = firstn i (keys_of l) ++ skipn (S i) (keys_of l).
  Proof.
    intros. unfold remove_nth, OrderedMap.keys_of. rewrite map_app, <- firstn_map, <- skipn_map. reflexivity.
  Qed.

  Lemma remove_split : forall (T : Type) (l1 : list T) x l2,
    firstn (length l1) (l1 ++ x :: l2) ++ skipn (S (length l1)) (l1 ++ x :: l2) = l1 ++ l2.
  Proof.
    intros. rewrite firstn_app, Nat.sub_diag, firstn_all. change (firstn 0 (x :: l2)) with (@nil T).
    rewrite app_nil_r. f_equal.
    replace (S (length l1)) with (length (l1 ++ [x])) by (rewrite app_length; cbn; lia).
    replace (l1 ++ x :: l2) with ((l1 ++ [x]) ++ l2) by (rewrite <- app_assoc; reflexivity).
    rewrite skipn_app, Nat.sub_diag, skipn_all. reflexivity.
  Qed.

  Lemma NoDup_snoc : forall (T : Type) (l : list T) x, NoDup l -> ~ In x l -> NoDup (l ++ [x]).
  Proof.
    induction l as [|a l IH]; intros x ND H; cbn; [constructor; [intros []|constructor]|].
    inversion ND; subst. constructor.
    - rewrite in_app_iff. cbn. intros [Hin|[->|[]]]; [contradiction|]. apply H. left. reflexivity.
    - apply IH; [assumption|]. intro Hin. apply H. right. exact Hin.
  Qed.

  (* ---------------------------------------------------------------- single operations *)
  Lemma wf_empty : wf (empty K V).
  Proof. split; [constructor|reflexivity]. Qed.

  Lemma insert_refines : forall m k v, wf m ->
    wf (fst (insert m k v)) /\ items (fst (insert m k v)) = a_insert (items m) k v /\ snd (insert m k v) = XNone.
  Proof.
    intros m k v [ND HX]. unfold OrderedMap.insert, OrderedMap.a_insert. rewrite HX.
    destruct (find_pos (serialize k) (keys_of (items m))) as [i|] eqn:F.
    - destruct (find_pos_lt _ _ _ F) as [Hlt Hn]. unfold OrderedMap.keys_of in Hlt. rewrite map_length in Hlt.
      apply Nat.ltb_lt in Hlt. rewrite Hlt. cbn [fst snd items index]. split; [|split; reflexivity].
      split; cbn [items index]; rewrite (keys_of_set_nth _ _ _ _ Hn); assumption.
    - cbn [fst snd items index]. split; [|split; reflexivity]. split; cbn [items index].
      + rewrite keys_of_app. cbn. apply find_pos_None in F. apply NoDup_snoc; assumption.
      + intro fk. rewrite idx_get_set, keys_of_app, find_pos_app, <- HX. cbn.
        destruct (bytes_eqb (serialize k) fk) eqn:E.
        * apply bytes_eqb_spec in E. subst fk. rewrite HX, F. cbn. unfold OrderedMap.keys_of. rewrite map_length.
          f_equal. lia.
        * rewrite HX. destruct (find_pos fk (keys_of (items m))); reflexivity.
  Qed.

  Lemma insert_unchecked_refines : forall m k v, wf m -> find_pos (serialize k) (keys_of (items m)) = None ->
    wf (insert_unchecked K V m k (serialize k) v).
  Proof.
    intros m k v [ND HX] F. unfold insert_unchecked. split; cbn [items index].
    - rewrite keys_of_app. cbn. apply find_pos_None in F. apply NoDup_snoc; assumption.
    - intro fk. rewrite idx_get_set, keys_of_app, find_pos_app, HX. cbn.
      destruct (bytes_eqb (serialize k) fk) eqn:E.
      + apply bytes_eqb_spec in E. subst fk. rewrite F. cbn. unfold OrderedMap.keys_of. rewrite map_length. f_equal. lia.
      + destruct (find_pos fk (keys_of (items m))); reflexivity.
  Qed.

  Lemma delitem_refines : forall m k, wf m ->
    wf (fst (delitem K V serialize m k)) /\
    (items (fst (delitem K V serialize m k)), snd (delitem K V serialize m k)) = a_step (items m) (MDel k).
  Proof.
    intros m k [ND HX]. unfold delitem. cbn [OrderedMap.a_step]. rewrite HX.
    destruct (find_pos (serialize k) (keys_of (items m))) as [ix|] eqn:F.
    - destruct (find_pos_lt _ _ _ F) as [Hlt Hn]. unfold OrderedMap.keys_of in Hlt. rewrite map_length in Hlt.
      pose proof Hlt as Hlt'. apply Nat.ltb_lt in Hlt'. rewrite Hlt'. cbn [fst snd items index].
      split; [|reflexivity]. destruct (find_pos_split _ _ _ F) as [l1 [l2 [E [Hl Hn1]]]].
      split; cbn [items index]; rewrite keys_of_remove_nth, E; subst ix; rewrite remove_split.
      + rewrite E in ND. apply NoDup_remove_1 in ND. exact ND.
      + intro fk. rewrite (idx_get_map (fun i => if i <? length l1 then i else i - 1)), idx_get_del, HX, E.
        rewrite E in ND. apply NoDup_remove_2 in ND. rewrite in_app_iff in ND.
        destruct (bytes_eqb (serialize k) fk) eqn:Ek.
        * apply bytes_eqb_spec in Ek. subst fk. cbn. symmetry. apply find_pos_None. rewrite in_app_iff. exact ND.
        * rewrite !find_pos_app. destruct (find_pos fk l1) as [i|] eqn:F1; cbn [option_map find_pos].
          -- destruct (find_pos_lt _ _ _ F1) as [Hi _]. apply Nat.ltb_lt in Hi. rewrite Hi. reflexivity.
          -- rewrite Ek. destruct (find_pos fk l2) as [j|]; cbn [option_map]; [|reflexivity].
             assert (length l1 + S j <? length l1 = false) as -> by (apply Nat.ltb_ge; lia). f_equal. lia.
    - cbn [fst snd]. split; [split; assumption|reflexivity].
  Qed.

  Lemma popitem_refines : forall m, wf m ->
    wf (fst (popitem K V serialize m)) /\
    (items (fst (popitem K V serialize m)), snd (popitem K V serialize m)) = a_step (items m) MPopItem.
  Proof.
    intros m [ND HX]. unfold popitem. cbn [OrderedMap.a_step].
    destruct (rev (items m)) as [|kv r] eqn:E.
    - cbn [fst snd]. split; [split; assumption|reflexivity].
    - apply (f_equal (@rev _)) in E. rewrite rev_involutive in E. cbn in E.
      rewrite HX. rewrite E, keys_of_app in *. cbn [OrderedMap.keys_of map] in *.
      fold (keys_of (rev r)) in *.
      assert (~ In (serialize (fst kv)) (keys_of (rev r))) as Hn.
      { apply NoDup_remove_2 in ND. rewrite app_nil_r in ND. exact ND. }
      rewrite (find_pos_first _ _ [] Hn). cbn [fst snd items index]. split; [|reflexivity].
      split; cbn [items index].
      + apply NoDup_remove_1 in ND. rewrite app_nil_r in ND. exact ND.
      + intro fk. rewrite idx_get_del, HX, find_pos_app.
        destruct (bytes_eqb (serialize (fst kv)) fk) eqn:Ek.
        * apply bytes_eqb_spec in Ek. subst fk. symmetry. apply find_pos_None. exact Hn.
        * destruct (find_pos fk (keys_of (rev r))); [reflexivity|]. cbn. rewrite Ek. reflexivity.
  Qed.

  Lemma of_pairs_refines : forall l m, wf m ->
    wf (fold_left (fun m kv => fst (insert m (fst kv) (snd kv))) l m) /\
    items (fold_left (fun m kv => fst (insert m (fst kv) (snd kv))) l m) =
    fold_left (fun a kv => a_insert a (fst kv) (snd kv)) l (items m).
  Proof.
    induction l as [|[k v] l IH]; intros m W; cbn [fold_left]; [split; [exact W|reflexivity]|].
    destruct (insert_refines m k v W) as [W' [E _]]. cbn [fst snd]. destruct (IH _ W') as [W'' E'].
    split; [exact W''|]. rewrite E', E. reflexivity.
  Qed.

  Lemma getitem_refines : forall m k, wf m -> getitem K V serialize m k = snd (a_step (items m) (MGet k)).
  Proof. intros m k [ND HX]. unfold getitem. cbn. rewrite HX. reflexivity. Qed.

  Lemma step_refines : forall m o, wf m -> op_pre K V serialize (items m) o ->
    wf (fst (step m o)) /\ items (fst (step m o)) = fst (a_step (items m) o) /\ snd (step m o) = snd (a_step (items m) o).
  Proof.
    intros m o W P. destruct o; cbn [OrderedMap.step].
    - destruct (insert_refines m k v W) as [W' [E1 E2]]. cbn [OrderedMap.a_step fst snd]. split; [exact W'|split; [exact E1|exact E2]].
    - cbn in P. destruct P as [-> F]. cbn [OrderedMap.a_step fst snd]. split; [|split; reflexivity].
      apply insert_unchecked_refines; assumption.
    - cbn [fst snd]. split; [exact W|]. split; [reflexivity|]. apply getitem_refines. exact W.
    - destruct (delitem_refines m k W) as [W' E]. rewrite <- E. cbn [fst snd]. split; [exact W'|split; reflexivity].
    - destruct (popitem_refines m W) as [W' E]. rewrite <- E. cbn [fst snd]. split; [exact W'|split; reflexivity].
    - cbn [OrderedMap.a_step fst snd]. split; [exact W|split; reflexivity].
    - cbn [OrderedMap.a_step fst snd]. split; [exact W|split; reflexivity].
    - cbn [OrderedMap.a_step fst snd]. split; [exact W|split; reflexivity].
    - cbn [OrderedMap.a_step fst snd]. split; [exact W|]. split; [reflexivity|].
      unfold of_pairs. destruct (of_pairs_refines other (empty K V) wf_empty) as [_ E].
      fold insert. rewrite E. reflexivity.
  Qed.

  Lemma run_refines_all : forall ops m, wf m -> run_refines K V serialize key_eqb val_eqb m ops.
  Proof.
    induction ops as [|o ops IH]; intros m W; cbn [run_refines]; [exact I|].
    intro P. destruct (step_refines m o W P) as [W' [E1 E2]].
    split; [exact W'|]. split; [exact E1|]. split; [exact E2|]. apply IH. exact W'.
  Qed.

  (* ---------------------------------------------------------------- the association list behaves as a mapping *)
  Lemma a_insert_keys_present : forall l k v i, find_pos (serialize k) (keys_of l) = Some i ->
    keys_of (a_insert l k v) = keys_of l /\ nth_error (a_insert l k v) i = Some (k, v).
  Proof.
    intros l k v i F. unfold OrderedMap.a_insert. rewrite F. destruct (find_pos_lt _ _ _ F) as [Hlt Hn].
    split; [apply keys_of_set_nth; exact Hn|].
    unfold OrderedMap.keys_of in Hlt. rewrite map_length in Hlt. unfold set_nth.
    rewrite nth_error_app2; rewrite firstn_length; [|lia].
    replace (i - Nat.min i (length l)) with 0 by lia. reflexivity.
  Qed.

  Lemma a_insert_new : forall l k v, find_pos (serialize k) (keys_of l) = None -> a_insert l k v = l ++ [(k, v)].
  Proof. intros l k v F. unfold OrderedMap.a_insert. rewrite F. reflexivity. Qed.

  Lemma set_nth_other : forall (T : Type) (l : list T) i j x, i < length l -> j <> i ->
    nth_error (firstn i l ++ x :: skipn (S i) l) j = nth_error l j.
  Proof.
    induction l as [|a l IH]; intros i j x L H; cbn in L; [lia|].
    destruct i as [|i]; destruct j as [|j]; cbn; try reflexivity; try congruence.
    apply IH; [lia|congruence].
  Qed.

  Definition a_lookup (l : list (K * V)) (fk : list Z) : option V :=
    match find_pos fk (keys_of l) with
    | Some i => match nth_error l i with Some (_, v) => Some v | None => None end
    | None => None
    end.

  Lemma lookup_insert : forall l k v fk, NoDup (keys_of l) ->
    a_lookup (a_insert l k v) fk = if bytes_eqb (serialize k) fk then Some v else a_lookup l fk.
  Proof.
    intros l k v fk ND. unfold a_lookup.
    destruct (find_pos (serialize k) (keys_of l)) as [i|] eqn:F.
    - destruct (a_insert_keys_present l k v i F) as [EK EN]. rewrite EK.
      destruct (bytes_eqb (serialize k) fk) eqn:E.
      + apply bytes_eqb_spec in E. subst fk. rewrite F, EN. reflexivity.
      + destruct (find_pos fk (keys_of l)) as [j|] eqn:Fj; [|reflexivity].
        assert (j <> i) as Hne.
        { intros ->. destruct (find_pos_lt _ _ _ F) as [_ H1]. destruct (find_pos_lt _ _ _ Fj) as [_ H2].
          rewrite H1 in H2. injection H2 as H2. rewrite H2, bytes_eqb_refl in E. discriminate. }
        unfold OrderedMap.a_insert. rewrite F. unfold set_nth. destruct (find_pos_lt _ _ _ F) as [Hlt _]. unfold OrderedMap.keys_of in Hlt. rewrite map_length in Hlt.
        rewrite set_nth_other by assumption. reflexivity.
    - rewrite (a_insert_new l k v F), keys_of_app, find_pos_app. cbn.
      destruct (bytes_eqb (serialize k) fk) eqn:E.
      + apply bytes_eqb_spec in E. subst fk. rewrite F. cbn.
        rewrite nth_error_app2; unfold OrderedMap.keys_of; rewrite map_length; [|lia].
        replace (length l + 0 - length l) with 0 by lia. reflexivity.
      + destruct (find_pos fk (keys_of l)) as [j|] eqn:Fj; cbn; [|reflexivity].
        destruct (find_pos_lt _ _ _ Fj) as [Hlt _]. unfold OrderedMap.keys_of in Hlt. rewrite map_length in Hlt.
        rewrite nth_error_app1 by exact Hlt. reflexivity.
  Qed.
End MapProofs.
