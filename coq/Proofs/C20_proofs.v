From Coq Require Import ZArith List Bool Lia Arith.
From Verif Require Import Pool Pool_base Keyspace.
Import ListNotations.
Local Open Scope Z_scope.

Lemma nth_error_upd {A} i j (f : A -> A) l :
  nth_error (upd i f l) j = if Nat.eqb j i then option_map f (nth_error l j) else nth_error l j.
Proof.
  revert i j; induction l as [|x l IH]; intros i j.
  - destruct i, j; simpl; try reflexivity; destruct (Nat.eqb j i); reflexivity.
  - destruct i, j; simpl; try reflexivity. apply IH.
Qed.

Lemma pending_from_spec l : forall k i,
  In i (pending_from k l) <-> (k <= i)%nat /\ exists p, nth_error l (i - k) = Some p /\ k_pending p = true.
Proof.
  induction l as [|q l IH]; intros k i; simpl.
  - split; [tauto|]. intros [_ (p&H&_)]. destruct (i - k)%nat; discriminate.
  - destruct (k_pending q) eqn:E; simpl; rewrite ?IH.
    + split.
      * intros [<-|[Hk (p&Hp&Hq)]].
        -- split; [lia|]. exists q. rewrite Nat.sub_diag. auto.
        -- split; [lia|]. exists p. replace (i - k)%nat with (S (i - S k)) by lia. auto.
      * intros [Hk (p&Hp&Hq)]. destruct (Nat.eq_dec k i) as [->|N]; [left; reflexivity|right].
        split; [lia|]. exists p. replace (i - k)%nat with (S (i - S k)) in Hp by lia. auto.
    + split.
      * intros [Hk (p&Hp&Hq)]. split; [lia|]. exists p. replace (i - k)%nat with (S (i - S k)) by lia. auto.
      * intros [Hk (p&Hp&Hq)]. destruct (Nat.eq_dec k i) as [->|N].
        -- rewrite Nat.sub_diag in Hp. simpl in Hp. injection Hp as <-. congruence.
        -- split; [lia|]. exists p. replace (i - k)%nat with (S (i - S k)) in Hp by lia. auto.
Qed.

Lemma In_eins i e l x : In x (map fst (eins i e l)) <-> x = i \/ In x (map fst l).
Proof.
  induction l as [|[j f] l IH]; simpl; [intuition congruence|].
  destruct (Nat.ltb i j); simpl; [intuition congruence|]. rewrite IH. intuition congruence.
Qed.

Definition KInv (s : kstate) : Prop :=
  if started s then
    (forall i, In i (remaining s) <-> exists p, nth_error (pools s) i = Some p /\ k_pending p = true) /\
    (forall p, In p (pools s) -> k_ks p = 2 /\
       (k_pending p = false -> k_has p = true -> k_shut p = false -> k_connks p = 2 \/ k_failed p = true)) /\
    (forall i p, nth_error (pools s) i = Some p -> k_failed p = true -> In i (map fst (errors s))) /\
    ((remaining s <> [] /\ calls s = []) \/ (remaining s = [] /\ calls s = [errors s]))
  else
    calls s = [] /\ remaining s = [] /\ forall p, In p (pools s) -> k_pending p = false /\ k_failed p = false.

Lemma KInv_init outs : KInv (kinit outs).
Proof.
  unfold KInv, kinit; simpl. repeat split; auto.
  - apply in_map_iff in H. destruct H as (o&<-&_). destruct o; reflexivity.
  - apply in_map_iff in H. destruct H as (o&<-&_). destruct o; reflexivity.
Qed.

Lemma start_pool_ok p : k_failed p = false ->
  k_ks (start_pool p) = 2 /\ k_failed (start_pool p) = false /\
  (k_pending (start_pool p) = false -> k_has (start_pool p) = true -> k_shut (start_pool p) = false -> k_connks (start_pool p) = 2).
Proof.
  intros Hf. unfold start_pool.
  destruct (k_shut p) eqn:S, (k_has p) eqn:Hh; simpl; try (repeat split; auto; intros; congruence).
  destruct (k_connks p =? 2) eqn:E; simpl; repeat split; auto; intros; try congruence.
Qed.

Lemma KInv_step s o : KInv s -> KInv (kstep s o).
Proof.
  intros H. destruct o as [|i]; simpl.
  - (* KStart *)
    unfold KInv in H. destruct (started s) eqn:St; [unfold KInv; rewrite St; exact H|].
    destruct H as (Hc&Hr&Hp). unfold KInv; simpl. repeat split.
    + intros Hi. apply pending_from_spec in Hi. destruct Hi as [_ Hi]. rewrite Nat.sub_0_r in Hi. exact Hi.
    + intros Hi. apply pending_from_spec. split; [lia|]. rewrite Nat.sub_0_r. exact Hi.
    + apply in_map_iff in H. destruct H as (q&<-&Hq). apply start_pool_ok. apply Hp, Hq.
    + apply in_map_iff in H. destruct H as (q&<-&Hq). intros. left. apply start_pool_ok; auto. apply Hp, Hq.
    + intros j p Hn Hf. rewrite nth_error_map in Hn. destruct (nth_error (pools s) j) eqn:E; [|discriminate].
      injection Hn as <-. apply nth_error_In in E. destruct (start_pool_ok k (proj2 (Hp k E))) as (_&Hx&_). congruence.
    + destruct (pending_from 0 (map start_pool (pools s))); [right; auto|left; split; [discriminate|reflexivity]].
  - (* KComplete *)
    destruct (nth_error (pools s) i) as [p|] eqn:En; [|exact H].
    destruct (k_pending p) eqn:Ep; [|exact H].
    destruct (complete_pool p) as [p' err] eqn:Ec.
    unfold KInv in *. simpl. destruct (started s) eqn:St.
    2:{ destruct H as (_&_&Hp). apply nth_error_In in En. destruct (Hp p En). congruence. }
    destruct H as (Ha&Hb&Hcc&Hd).
    assert (Hp' : k_pending p' = false /\ k_ks p' = k_ks p /\
                  (k_has p' = true -> k_shut p' = false -> k_connks p' = 2 \/ k_failed p' = true) /\
                  (k_failed p' = true -> err <> None \/ k_failed p = true)).
    { unfold complete_pool in Ec. destruct (k_out p); injection Ec as <- <-; simpl; repeat split; auto; intros; try discriminate; auto; left; discriminate. }
    destruct Hp' as (P1&P2&P3&P4).
    assert (Hi : In i (remaining s)) by (apply Ha; eauto).
    repeat split.
    + intros Hj. apply In_del in Hj. destruct Hj as [N Hj]. apply Ha in Hj. destruct Hj as (q&Hq&Hqp).
      exists q. rewrite nth_error_upd. apply Nat.eqb_neq in N. rewrite N. auto.
    + intros (q&Hq&Hqp). rewrite nth_error_upd in Hq. destruct (Nat.eqb i0 i) eqn:E.
      * rewrite (proj1 (Nat.eqb_eq _ _) E), En in Hq. simpl in Hq. injection Hq as <-. congruence.
      * apply In_del. apply Nat.eqb_neq in E. split; [assumption|]. apply Ha. eauto.
    + destruct (In_nth_error _ _ H) as (j&Hj). rewrite nth_error_upd in Hj. destruct (Nat.eqb j i) eqn:E.
      * rewrite (proj1 (Nat.eqb_eq _ _) E), En in Hj. simpl in Hj. injection Hj as <-. rewrite P2.
        apply nth_error_In in En. apply Hb, En.
      * apply nth_error_In in Hj. apply Hb, Hj.
    + destruct (In_nth_error _ _ H) as (j&Hj). rewrite nth_error_upd in Hj. destruct (Nat.eqb j i) eqn:E.
      * rewrite (proj1 (Nat.eqb_eq _ _) E), En in Hj. simpl in Hj. injection Hj as <-. intros _. apply P3.
      * apply nth_error_In in Hj. apply Hb, Hj.
    + intros j q Hq Hf. rewrite nth_error_upd in Hq. destruct (Nat.eqb j i) eqn:E.
      * apply Nat.eqb_eq in E. subst j. rewrite En in Hq. simpl in Hq. injection Hq as <-.
        destruct err as [e|]; [apply In_eins; left; reflexivity|].
        destruct (P4 Hf) as [N|Hfp]; [congruence|]. apply (Hcc i p En Hfp).
      * destruct err as [e|]; [apply In_eins; right|]; apply (Hcc j q Hq Hf).
    + destruct Hd as [[_ Hcl]|[Hre _]]; [|rewrite Hre in Hi; destruct Hi].
      rewrite Hcl. destruct (del i (remaining s)); [right; split; reflexivity|left; split; [discriminate|reflexivity]].
Qed.

Lemma KInv_run ops : forall s, KInv s -> KInv (krun s ops).
Proof. unfold krun. induction ops as [|o r IH]; intros s H; simpl; [exact H|]. apply IH, KInv_step, H. Qed.

Lemma calls_started s : KInv s -> calls s <> [] -> started s = true.
Proof. unfold KInv. destruct (started s); [reflexivity|]. intros (H&_) N. congruence. Qed.

Lemma k_success s : KInv s -> In [] (calls s) ->
  forall p, In p (pools s) -> k_shut p = false ->
  (k_has p = true -> k_connks p = 2) /\ (k_has p = false -> k_ks p = 2).
Proof.
  intros H Hin p Hp Hs. pose proof (calls_started s H ltac:(intros E; rewrite E in Hin; destruct Hin)) as St.
  unfold KInv in H. rewrite St in H. destruct H as (Ha&Hb&Hc&Hd).
  destruct Hd as [[_ E]|[Hr E]]; [rewrite E in Hin; destruct Hin|].
  rewrite E in Hin. destruct Hin as [He|[]].
  destruct (Hb p Hp) as [Hk Hq]. split; [|intros; exact Hk].
  intros Hh. destruct (In_nth_error _ _ Hp) as (j&Hj).
  assert (k_pending p = false).
  { destruct (k_pending p) eqn:E2; [|reflexivity]. assert (In j (remaining s)) by (apply Ha; eauto). rewrite Hr in H. destruct H. }
  destruct (Hq H Hh Hs) as [?|Hf]; [assumption|].
  specialize (Hc j p Hj Hf). rewrite He in Hc. destruct Hc.
Qed.

Lemma k_error_reported s : KInv s -> forall i p, nth_error (pools s) i = Some p -> k_failed p = true ->
  forall a, In a (calls s) -> In i (map fst a).
Proof.
  intros H i p Hn Hf a Hin. pose proof (calls_started s H ltac:(intros E; rewrite E in Hin; destruct Hin)) as St.
  unfold KInv in H. rewrite St in H. destruct H as (_&_&Hc&Hd).
  destruct Hd as [[_ E]|[_ E]]; rewrite E in Hin; [destruct Hin|destruct Hin as [<-|[]]]. eauto.
Qed.

Lemma k_completes s : KInv s -> started s = true ->
  (length (calls s) <= 1)%nat /\
  ((forall p, In p (pools s) -> k_pending p = false) -> length (calls s) = 1%nat).
Proof.
  intros H St. unfold KInv in H. rewrite St in H. destruct H as (Ha&_&_&Hd). split.
  - destruct Hd as [[_ E]|[_ E]]; rewrite E; simpl; lia.
  - intros Hall. destruct Hd as [[N _]|[_ E]]; [|rewrite E; reflexivity].
    destruct (remaining s) as [|j r] eqn:R; [congruence|].
    destruct (proj1 (Ha j) (or_introl eq_refl)) as (p&Hp&Hq). apply nth_error_In in Hp. rewrite (Hall p Hp) in Hq. discriminate.
Qed.

Lemma started_after_start ops s : started (krun (kstep s KStart) ops) = true.
Proof.
  assert (forall ops s, started s = true -> started (krun s ops) = true).
  { unfold krun. induction ops0 as [|o r IH]; intros s0 H; simpl; [exact H|]. apply IH.
    destruct o; simpl; [rewrite H; exact H|].
    destruct (nth_error (pools s0) i); [|exact H]. destruct (k_pending k); [|exact H]. destruct (complete_pool k). exact H. }
  apply H. simpl. destruct (started s) eqn:E; [exact E|reflexivity].
Qed.

Lemma catchup_eq rounds : forall pool sess n, fst (fst (catchup pool sess n rounds)) = snd (fst (catchup pool sess n rounds)).
Proof.
  induction rounds as [|r rest IH]; intros pool sess n; simpl.
  - destruct (pool =? sess) eqn:E; simpl; [apply Z.eqb_eq, E|reflexivity].
  - destruct (pool =? sess) eqn:E; simpl; [apply Z.eqb_eq, E|apply IH].
Qed.
