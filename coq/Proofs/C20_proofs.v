From Coq Require Import ZArith List Bool Lia Arith.
From Verif Require Import Pool Pool_base Keyspace.
Import ListNotations.
Local Open Scope Z_scope.

Lemma nth_error_upd {A} i j (f : A -> A) l :
  nth_error (upd i f l) j = if Nat.eqb j i then option_map f (nth_error l j) else nth_error l j.
Proof.
  revert i j; induction l as [|x l IH]; intros i j.
  - destruct i, j; simpl; try reflexivity; destruct (Nat.eqb j i); reflexivity.
  - destruct i, j; simpl; try reflexivity. apply IH.
Qed.

Lemma pending_from_spec l : forall k i,
  In i (pending_from k l) <-> (k <= i)%nat /\ exists p, nth_error l (i - k) = Some p /\ k_pending p = true.
Proof.
  induction l as [|q l IH]; intros k i; simpl.
  - split; [tauto|]. intros [_ (p&H&_)]. destruct (i - k)%nat; discriminate.
  - destruct (k_pending q) eqn:E; simpl; rewrite ?IH.
    + split.
      * intros [<-|[Hk (p&Hp&Hq)]].
        -- split; [lia|]. exists q. rewrite Nat.sub_diag. auto.
        -- split; [lia|]. exists p. replace (i - k)%nat with (S (i - S k)) by lia. auto.
      * intros [Hk (p&Hp&Hq)]. destruct (Nat.eq_dec k i) as [->|N]; [left; reflexivity|right].
        split; [lia|]. exists p. replace (i - k)%nat with (S (i - S k)) in Hp by lia. auto.
    + split.
      * intros [Hk (p&Hp&Hq)]. split; [lia|]. exists p. replace (i - k)%nat with (S (i - S k)) by lia. auto.
      * intros [Hk (p&Hp&Hq)]. destruct (Nat.eq_dec k i) as [->|N].
        -- rewrite Nat.sub_diag in Hp. simpl in Hp. injection Hp as <-. congruence.
        -- split; [lia|]. exists p. replace (i - k)%nat with (S (i - S k)) in Hp by lia. auto.
Qed.

Lemma In_eins i e l x : In x (map fst (eins i e l)) <-> x = i \/ In x (map fst l).
Proof.
  induction l as [|[j f] l IH]; simpl; [intuition congruence|].
  destruct (Nat.ltb i j); simpl; [intuition congruence|]. rewrite IH. intuition congruence.
Qed.

Definition KInv (s : kstate) : Prop :=
  (forall p, In p (pools s) -> k_connks p = k_srv p) /\
  if started s then
    sess_ks s = 2 /\
    (forall i, In i (remaining s) <-> exists p, nth_error (pools s) i = Some p /\ k_pending p = true) /\
    (forall p, In p (pools s) -> (k_ks p = 2 \/ k_legacy p = true) /\
       (k_pending p = false -> k_has p = true -> k_shut p = false -> k_connks p = 2 \/ k_failed p = true)) /\
    (forall i p, nth_error (pools s) i = Some p -> k_failed p = true -> In i (map fst (errors s))) /\
    ((remaining s <> [] /\ calls s = []) \/ (remaining s = [] /\ calls s = [errors s]))
  else
    calls s = [] /\ remaining s = [] /\ forall p, In p (pools s) -> k_pending p = false /\ k_failed p = false.

(* well-formed starting point of a switch *)
Definition kwf (s : kstate) : Prop :=
  started s = false /\ calls s = [] /\ remaining s = [] /\
  forall p, In p (pools s) -> k_pending p = false /\ k_failed p = false /\ k_connks p = k_srv p.

Lemma KInv_wf s : kwf s -> KInv s.
Proof. intros (St&Hc&Hr&Hp). unfold KInv. rewrite St. split; [intros p H; apply Hp, H|]. repeat split; auto; apply Hp; assumption. Qed.

Lemma kwf_init outs : kwf (kinit outs).
Proof.
  unfold kwf, kinit; simpl. repeat split; auto;
  apply in_map_iff in H; destruct H as (o&<-&_); destruct o; reflexivity.
Qed.

Lemma KInv_init outs : KInv (kinit outs).
Proof. apply KInv_wf, kwf_init. Qed.

Lemma In_reset_pools ps : forall outs q, In q (reset_pools ps outs) -> exists p o, In p ps /\ q = reset_pool p o.
Proof.
  induction ps as [|p ps IH]; intros outs q H; [destruct outs; destruct H|].
  destruct outs as [|o outs]; simpl in H; destruct H as [<-|H].
  - exists p, (k_out p). split; [left|]; reflexivity.
  - destruct (IH _ _ H) as (p'&o'&Hp&Hq). exists p', o'. split; [right|]; assumption.
  - exists p, o. split; [left|]; reflexivity.
  - destruct (IH _ _ H) as (p'&o'&Hp&Hq). exists p', o'. split; [right|]; assumption.
Qed.

Lemma kwf_reinit s outs : KInv s -> kwf (reinit s outs).
Proof.
  intros [G _]. unfold kwf, reinit; simpl. repeat split; auto;
  destruct (In_reset_pools _ _ _ H) as (q&o&Hq&->); simpl; auto.
Qed.

Lemma start_pool_ok p : k_failed p = false -> k_connks p = k_srv p ->
  (k_ks (start_pool p) = 2 \/ k_legacy (start_pool p) = true) /\ k_failed (start_pool p) = false /\
  k_connks (start_pool p) = k_srv (start_pool p) /\
  (k_pending (start_pool p) = false -> k_has (start_pool p) = true -> k_shut (start_pool p) = false -> k_connks (start_pool p) = 2).
Proof.
  intros Hf Hs. unfold start_pool.
  destruct (k_legacy p) eqn:L, (k_has p) eqn:Hh, (k_shut p) eqn:S; simpl;
    try (repeat split; auto; intros; congruence);
    destruct (k_connks p =? 2) eqn:E; simpl; repeat split; auto; intros; try congruence;
    apply Z.eqb_eq in E; congruence.
Qed.

Lemma KInv_step s o : KInv s -> KInv (kstep s o).
Proof.
  intros [G H]. destruct o as [|i|i]; simpl.
  - (* KStart *)
    destruct (started s) eqn:St; [split; [exact G|rewrite St; exact H]|].
    destruct H as (Hc&Hr&Hp).
    assert (SP : forall q, In q (pools s) -> (k_ks (start_pool q) = 2 \/ k_legacy (start_pool q) = true) /\ k_failed (start_pool q) = false /\
                  k_connks (start_pool q) = k_srv (start_pool q) /\
                  (k_pending (start_pool q) = false -> k_has (start_pool q) = true -> k_shut (start_pool q) = false -> k_connks (start_pool q) = 2)).
    { intros q Hq. apply start_pool_ok; [apply Hp, Hq|apply G, Hq]. }
    unfold KInv; simpl. split.
    { intros p Hin. apply in_map_iff in Hin. destruct Hin as (q&<-&Hq). apply (SP q Hq). }
    repeat split.
    + intros Hi. apply pending_from_spec in Hi. destruct Hi as [_ Hi]. rewrite Nat.sub_0_r in Hi. exact Hi.
    + intros Hi. apply pending_from_spec. split; [lia|]. rewrite Nat.sub_0_r. exact Hi.
    + apply in_map_iff in H. destruct H as (q&<-&Hq). apply (SP q Hq).
    + apply in_map_iff in H. destruct H as (q&<-&Hq). intros. left. apply (SP q Hq); assumption.
    + intros j p Hn Hf. rewrite nth_error_map in Hn. destruct (nth_error (pools s) j) eqn:E; [|discriminate].
      injection Hn as <-. apply nth_error_In in E. destruct (SP k E) as (_&Hx&_). congruence.
    + destruct (pending_from 0 (map start_pool (pools s))); [right; auto|left; split; [discriminate|reflexivity]].
  - (* KComplete *)
    destruct (nth_error (pools s) i) as [p|] eqn:En; [|split; assumption].
    destruct (k_pending p) eqn:Ep; [|split; assumption].
    destruct (complete_pool p) as [p' err] eqn:Ec.
    assert (Hp' : k_pending p' = false /\ k_ks p' = k_ks p /\ k_legacy p' = k_legacy p /\
                  (k_connks p = k_srv p -> k_connks p' = k_srv p') /\
                  (k_has p' = true -> k_shut p' = false -> k_connks p' = 2 \/ k_failed p' = true) /\
                  (k_failed p' = true -> err <> None \/ k_failed p = true)).
    { unfold complete_pool in Ec. destruct (k_out p); injection Ec as <- <-; simpl; repeat split; auto; intros; try discriminate; auto; left; discriminate. }
    destruct Hp' as (P1&P2&PL&PS&P3&P4).
    unfold KInv in *. simpl. split.
    { intros q Hq. destruct (In_nth_error _ _ Hq) as (j&Hj). rewrite nth_error_upd in Hj. destruct (Nat.eqb j i) eqn:E.
      - rewrite (proj1 (Nat.eqb_eq _ _) E), En in Hj. simpl in Hj. injection Hj as <-. apply PS, G. apply nth_error_In in En. exact En.
      - apply nth_error_In in Hj. apply G, Hj. }
    destruct (started s) eqn:St.
    2:{ destruct H as (_&_&Hp). apply nth_error_In in En. destruct (Hp p En). congruence. }
    destruct H as (Hk&Ha&Hb&Hcc&Hd).
    assert (Hi : In i (remaining s)) by (apply Ha; eauto).
    split; [exact Hk|]. repeat split.
    + intros Hj. apply In_del in Hj. destruct Hj as [N Hj]. apply Ha in Hj. destruct Hj as (q&Hq&Hqp).
      exists q. rewrite nth_error_upd. apply Nat.eqb_neq in N. rewrite N. auto.
    + intros (q&Hq&Hqp). rewrite nth_error_upd in Hq. destruct (Nat.eqb i0 i) eqn:E.
      * rewrite (proj1 (Nat.eqb_eq _ _) E), En in Hq. simpl in Hq. injection Hq as <-. congruence.
      * apply In_del. apply Nat.eqb_neq in E. split; [assumption|]. apply Ha. eauto.
    + destruct (In_nth_error _ _ H) as (j&Hj). rewrite nth_error_upd in Hj. destruct (Nat.eqb j i) eqn:E.
      * rewrite (proj1 (Nat.eqb_eq _ _) E), En in Hj. simpl in Hj. injection Hj as <-. rewrite P2, PL.
        apply nth_error_In in En. apply Hb, En.
      * apply nth_error_In in Hj. apply Hb, Hj.
    + destruct (In_nth_error _ _ H) as (j&Hj). rewrite nth_error_upd in Hj. destruct (Nat.eqb j i) eqn:E.
      * rewrite (proj1 (Nat.eqb_eq _ _) E), En in Hj. simpl in Hj. injection Hj as <-. intros _. apply P3.
      * apply nth_error_In in Hj. apply Hb, Hj.
    + intros j q Hq Hf. rewrite nth_error_upd in Hq. destruct (Nat.eqb j i) eqn:E.
      * apply Nat.eqb_eq in E. subst j. rewrite En in Hq. simpl in Hq. injection Hq as <-.
        destruct err as [e|]; [apply In_eins; left; reflexivity|].
        destruct (P4 Hf) as [N|Hfp]; [congruence|]. apply (Hcc i p En Hfp).
      * destruct err as [e|]; [apply In_eins; right|]; apply (Hcc j q Hq Hf).
    + destruct Hd as [[_ Hcl]|[Hre _]]; [|rewrite Hre in Hi; destruct Hi].
      rewrite Hcl. destruct (del i (remaining s)); [right; split; reflexivity|left; split; [discriminate|reflexivity]].
  - (* KReconnect *)
    destruct (nth_error (pools s) i) as [p|] eqn:En; [|split; assumption].
    destruct (negb (k_has p) && negb (k_shut p) && negb (k_pending p)) eqn:Eg; [|split; assumption].
    apply andb_prop in Eg. destruct Eg as [Eg Epn]. apply andb_prop in Eg. destruct Eg as [Eh Es].
    apply negb_true_iff in Eh, Es, Epn.
    set (p' := reconnect_pool (sess_ks s) p).
    assert (Hsame : forall j q, nth_error (upd i (fun _ => p') (pools s)) j = Some q -> (j = i /\ q = p') \/ (j <> i /\ nth_error (pools s) j = Some q)).
    { intros j q Hq. rewrite nth_error_upd in Hq. destruct (Nat.eqb j i) eqn:E.
      - apply Nat.eqb_eq in E. subst j. rewrite En in Hq. simpl in Hq. injection Hq as <-. left; auto.
      - apply Nat.eqb_neq in E. right; auto. }
    unfold KInv in *. simpl. split.
    { intros q Hq. destruct (In_nth_error _ _ Hq) as (j&Hj). destruct (Hsame _ _ Hj) as [[_ ->]|[_ Hj']]; [reflexivity|].
      apply nth_error_In in Hj'. apply G, Hj'. }
    destruct (started s) eqn:St.
    + destruct H as (Hk&Ha&Hb&Hcc&Hd). split; [exact Hk|]. repeat split.
      * intros Hj. apply Ha in Hj. destruct Hj as (q&Hq&Hqp). exists q. rewrite nth_error_upd.
        destruct (Nat.eqb i0 i) eqn:E; [|auto]. apply Nat.eqb_eq in E. subst i0. congruence.
      * intros (q&Hq&Hqp). destruct (Hsame _ _ Hq) as [[_ ->]|[_ Hq']]; [discriminate|]. apply Ha. eauto.
      * destruct (In_nth_error _ _ H) as (j&Hj). destruct (Hsame _ _ Hj) as [[_ ->]|[_ Hj']].
        -- simpl. apply nth_error_In in En. apply Hb, En.
        -- apply nth_error_In in Hj'. apply Hb, Hj'.
      * destruct (In_nth_error _ _ H) as (j&Hj). destruct (Hsame _ _ Hj) as [[_ ->]|[_ Hj']].
        -- intros _ _ _. left. simpl. apply nth_error_In in En. destruct (proj1 (Hb p En)) as [K|L]; [|rewrite L; exact Hk].
           destruct (k_legacy p); [exact Hk|exact K].
        -- apply nth_error_In in Hj'. apply Hb, Hj'.
      * intros j q Hq Hf. destruct (Hsame _ _ Hq) as [[-> ->]|[_ Hq']]; [apply (Hcc i p En Hf)|apply (Hcc j q Hq' Hf)].
      * exact Hd.
    + destruct H as (Hc&Hr&Hp). repeat split; auto;
      destruct (In_nth_error _ _ H) as (j&Hj); destruct (Hsame _ _ Hj) as [[_ ->]|[_ Hj']]; simpl;
        try (apply nth_error_In in En; apply Hp, En); try reflexivity; apply nth_error_In in Hj'; apply Hp, Hj'.
Qed.

Lemma KInv_run ops : forall s, KInv s -> KInv (krun s ops).
Proof. unfold krun. induction ops as [|o r IH]; intros s H; simpl; [exact H|]. apply IH, KInv_step, H. Qed.

Lemma calls_started s : KInv s -> calls s <> [] -> started s = true.
Proof. unfold KInv. destruct (started s); [reflexivity|]. intros (_&H&_) N. congruence. Qed.

Lemma k_success s : KInv s -> In [] (calls s) ->
  forall p, In p (pools s) -> k_shut p = false ->
  (k_has p = true -> k_srv p = 2) /\ (k_has p = false -> k_legacy p = false -> k_ks p = 2).
Proof.
  intros H Hin p Hp Hs. pose proof (calls_started s H ltac:(intros E; rewrite E in Hin; destruct Hin)) as St.
  destruct H as [G H]. rewrite St in H. destruct H as (Hk&Ha&Hb&Hc&Hd).
  destruct Hd as [[_ E]|[Hr E]]; [rewrite E in Hin; destruct Hin|].
  rewrite E in Hin. destruct Hin as [He|[]].
  destruct (Hb p Hp) as [Hks Hq]. split; [|intros _ L; destruct Hks; congruence].
  intros Hh. rewrite <- (G p Hp). destruct (In_nth_error _ _ Hp) as (j&Hj).
  assert (k_pending p = false).
  { destruct (k_pending p) eqn:E2; [|reflexivity]. assert (In j (remaining s)) by (apply Ha; eauto). rewrite Hr in H. destruct H. }
  destruct (Hq H Hh Hs) as [?|Hf]; [assumption|].
  specialize (Hc j p Hj Hf). rewrite He in Hc. destruct Hc.
Qed.

Lemma k_error_reported s : KInv s -> forall i p, nth_error (pools s) i = Some p -> k_failed p = true ->
  forall a, In a (calls s) -> In i (map fst a).
Proof.
  intros H i p Hn Hf a Hin. pose proof (calls_started s H ltac:(intros E; rewrite E in Hin; destruct Hin)) as St.
  destruct H as [_ H]. rewrite St in H. destruct H as (_&_&_&Hc&Hd).
  destruct Hd as [[_ E]|[_ E]]; rewrite E in Hin; [destruct Hin|destruct Hin as [<-|[]]]. eauto.
Qed.

Lemma k_completes s : KInv s -> started s = true ->
  (length (calls s) <= 1)%nat /\
  ((forall p, In p (pools s) -> k_pending p = false) -> length (calls s) = 1%nat).
Proof.
  intros [_ H] St. rewrite St in H. destruct H as (_&Ha&_&_&Hd). split.
  - destruct Hd as [[_ E]|[_ E]]; rewrite E; simpl; lia.
  - intros Hall. destruct Hd as [[N _]|[_ E]]; [|rewrite E; reflexivity].
    destruct (remaining s) as [|j r] eqn:R; [congruence|].
    destruct (proj1 (Ha j) (or_introl eq_refl)) as (p&Hp&Hq). apply nth_error_In in Hp. rewrite (Hall p Hp) in Hq. discriminate.
Qed.

Lemma started_after_start ops s : started (krun (kstep s KStart) ops) = true.
Proof.
  assert (forall ops s, started s = true -> started (krun s ops) = true).
  { unfold krun. induction ops0 as [|o r IH]; intros s0 H; simpl; [exact H|]. apply IH.
    destruct o; simpl; [rewrite H; exact H| |].
    - destruct (nth_error (pools s0) i); [|exact H]. destruct (k_pending k); [|exact H]. destruct (complete_pool k). exact H.
    - destruct (nth_error (pools s0) i); [|exact H]. destruct (negb (k_has k) && negb (k_shut k) && negb (k_pending k)); exact H. }
  apply H. simpl. destruct (started s) eqn:E; [exact E|reflexivity].
Qed.

Lemma catchup_eq rounds : forall pool sess n b p s m, catchup pool sess n rounds = (b, p, s, m) -> b = true -> p = s.
Proof.
  induction rounds as [|[f r] rest IH]; intros pool sess n b p s m; simpl.
  - destruct (pool =? sess) eqn:E; intros H _; injection H as <- <- <- <-; [apply Z.eqb_eq, E|reflexivity].
  - destruct (pool =? sess) eqn:E; [intros H _; injection H as <- <- <- <-; apply Z.eqb_eq, E|].
    destruct f; [intros H Hb; injection H as <- _ _ _; discriminate|apply IH].
Qed.
