(* C28 -- lemmas about Model/TypeDesc.v *)
From Coq Require Import List Bool Ascii String NArith Arith Lia.
From Verif Require Import TypeDesc.
Import ListNotations.
Local Open Scope list_scope.

(* ------------------------------------------------------------------ induction on nested type trees *)
Section ty_ind2.
  Variable P : ty -> Prop.
  Hypothesis HS : forall s, P (TSimple s).
  Hypothesis HL : forall a, P a -> P (TList a).
  Hypothesis HSet : forall a, P a -> P (TSet a).
  Hypothesis HM : forall k v, P k -> P v -> P (TMap k v).
  Hypothesis HT : forall ts, Forall P ts -> P (TTuple ts).
  Hypothesis HU : forall ks n fn ft, Forall P ft -> P (TUdt ks n fn ft).
  Hypothesis HV : forall a d, P a -> P (TVector a d).
  Hypothesis HF : forall a, P a -> P (TFrozen a).
  Hypothesis HR : forall a, P a -> P (TReversed a).

  Fixpoint ty_ind2 (t : ty) : P t :=
    let fix all (l : list ty) : Forall P l :=
      match l with
      | [] => Forall_nil P
      | x :: l' => Forall_cons x (ty_ind2 x) (all l')
      end in
    match t with
    | TSimple s => HS s
    | TList a => HL a (ty_ind2 a)
    | TSet a => HSet a (ty_ind2 a)
    | TMap k v => HM k v (ty_ind2 k) (ty_ind2 v)
    | TTuple ts => HT ts (all ts)
    | TUdt ks n fn ft => HU ks n fn ft (all ft)
    | TVector a d => HV a d (ty_ind2 a)
    | TFrozen a => HF a (ty_ind2 a)
    | TReversed a => HR a (ty_ind2 a)
    end.
End ty_ind2.

(* ------------------------------------------------------------------ strings *)
Lemma str_eqb_refl : forall a, str_eqb a a = true.
Proof. induction a; simpl; auto. rewrite Ascii.eqb_refl. auto. Qed.

Lemma str_eqb_eq : forall a b, str_eqb a b = true -> a = b.
Proof.
  induction a; destruct b; simpl; intros H; try discriminate; auto.
  apply andb_true_iff in H. destruct H as [H1 H2]. apply Ascii.eqb_eq in H1. subst. f_equal. auto.
Qed.

Lemma str_eqb_neq : forall a b, a <> b -> str_eqb a b = false.
Proof. intros a b H. destruct (str_eqb a b) eqn:E; auto. apply str_eqb_eq in E. contradiction. Qed.

Lemma join_cons : forall sep x l, join sep (x :: l) = x ++ flat_map (fun y => sep ++ y) l.
Proof.
  intros sep x l. revert x. induction l as [|a l IHl]; intros x.
  - simpl. rewrite app_nil_r. reflexivity.
  - change (join sep (x :: a :: l)) with (x ++ sep ++ join sep (a :: l)).
    rewrite IHl. simpl. rewrite <- app_assoc. reflexivity.
Qed.

Lemma opt_all_map : forall {A B} (f : A -> option B) (g : A -> B) l,
  Forall (fun x => f x = Some (g x)) l -> opt_all (map f l) = Some (map g l).
Proof.
  intros A B f g l H. induction H; simpl; auto. rewrite H, IHForall. reflexivity.
Qed.

Lemma forallb_Forall : forall {A} (f : A -> bool) l, forallb f l = true -> Forall (fun x => f x = true) l.
Proof. intros. apply Forall_forall. apply forallb_forall. assumption. Qed.

(* ------------------------------------------------------------------ the scanner *)
Definition is_word (cl : ascii -> cclass) (w : str) : bool :=
  forallb (fun c => match cl c with KWord => true | _ => false end) w.

Definition delimited (cl : ascii -> cclass) (rest : str) : Prop :=
  match rest with
  | [] => True
  | c :: _ => cl c = KPunct \/ cl c = KSkip
  end.

Lemma lexg_word : forall cl w rest acc, is_word cl w = true -> lexg cl (w ++ rest) acc = lexg cl rest (acc ++ w).
Proof.
  intros cl w. induction w as [|c w IH]; intros rest acc H; simpl.
  - rewrite app_nil_r. reflexivity.
  - simpl in H. apply andb_true_iff in H. destruct H as [Hc Hw].
    destruct (cl c); try discriminate. rewrite IH by assumption. rewrite <- app_assoc. reflexivity.
Qed.

Lemma lexg_flush : forall cl rest acc r, delimited cl rest -> acc <> [] ->
  lexg cl rest [] = Some r -> lexg cl rest acc = Some (acc :: r).
Proof.
  intros cl rest acc r D Hacc H. destruct rest as [|c rest]; simpl in *.
  - inversion H. subst. destruct acc; [contradiction|reflexivity].
  - destruct D as [D|D]; rewrite D in *.
    + destruct (lexg cl rest []); try discriminate. inversion H. subst. destruct acc; [contradiction|reflexivity].
    + destruct (lexg cl rest []); try discriminate. inversion H. subst. destruct acc; [contradiction|reflexivity].
Qed.

Lemma lexg_word_delim : forall cl w rest acc r, is_word cl w = true -> acc ++ w <> [] -> delimited cl rest ->
  lexg cl rest [] = Some r -> lexg cl (w ++ rest) acc = Some ((acc ++ w) :: r).
Proof. intros. rewrite lexg_word by assumption. apply lexg_flush; assumption. Qed.

Lemma lexg_punct : forall cl c rest r, cl c = KPunct -> lexg cl rest [] = Some r -> lexg cl (c :: rest) [] = Some ([c] :: r).
Proof. intros cl c rest r Hc H. simpl. rewrite Hc, H. reflexivity. Qed.

Lemma lexg_skip : forall cl c rest r, cl c = KSkip -> lexg cl rest [] = Some r -> lexg cl (c :: rest) [] = Some r.
Proof. intros cl c rest r Hc H. simpl. rewrite Hc, H. reflexivity. Qed.

Lemma is_word_app : forall cl a b, is_word cl (a ++ b) = is_word cl a && is_word cl b.
Proof. intros. unfold is_word. apply forallb_app. Qed.

(* ------------------------------------------------------------------ hex names *)
Definition is_lhex (c : ascii) : bool := is_digit c || between 97 102 c.

Lemma hexchar_lhex : forall n, (n < 16)%N -> is_lhex (hexchar n) = true.
Proof.
  intros n H.
  assert (Hn : In n (map N.of_nat (seq 0 16))).
  { apply in_map_iff. exists (N.to_nat n). split; [apply N2Nat.id|]. apply in_seq. lia. }
  simpl in Hn. repeat (destruct Hn as [Hn|Hn]; [subst; reflexivity|]). contradiction.
Qed.

Lemma code_lt : forall c, (code c < 256)%N.
Proof. intros c. unfold code. apply N_ascii_bounded. Qed.

Lemma hex_of_lhex : forall s, forallb is_lhex (hex_of s) = true.
Proof.
  induction s as [|c s IH]; simpl; auto.
  rewrite IH. pose proof (code_lt c).
  rewrite !hexchar_lhex; auto.
  - apply N.mod_lt. discriminate.
  - apply N.div_lt_upper_bound; [discriminate|]. simpl. assumption.
Qed.

Lemma lhex_word : forall c, is_lhex c = true -> cass_class c = KWord.
Proof.
  intros c. destruct c as [[] [] [] [] [] [] [] []]; vm_compute; intros; congruence.
Qed.

Lemma lhex_is_word : forall s, forallb is_lhex s = true -> is_word cass_class s = true.
Proof.
  induction s; simpl; auto. intros H. apply andb_true_iff in H. destruct H as [H1 H2].
  rewrite (lhex_word _ H1). auto.
Qed.

Lemma unhex_hexchar : forall n, (n < 16)%N -> unhex_digit (hexchar n) = Some n.
Proof.
  intros n H.
  assert (Hn : In n (map N.of_nat (seq 0 16))).
  { apply in_map_iff. exists (N.to_nat n). split; [apply N2Nat.id|]. apply in_seq. lia. }
  simpl in Hn. repeat (destruct Hn as [Hn|Hn]; [subst; reflexivity|]). contradiction.
Qed.

Lemma ascii_recompose : forall c, ascii_of_N (16 * (code c / 16) + code c mod 16) = c.
Proof. intros c. destruct c as [[] [] [] [] [] [] [] []]; reflexivity. Qed.

Lemma name_from_hex_of : forall s, forallb (fun c => code c <? 128)%N s = true -> name_from_hex (hex_of s) = Some s.
Proof.
  induction s as [|c s IH]; simpl; auto. intros H. apply andb_true_iff in H. destruct H as [Hc Hs].
  apply N.ltb_lt in Hc.
  rewrite !unhex_hexchar.
  - rewrite (IH Hs).
    assert (Hd : (code c / 16 <? 8)%N = true).
    { apply N.ltb_lt. apply N.div_lt_upper_bound; [discriminate|]. simpl. assumption. }
    rewrite Hd. f_equal. f_equal.
    exact (ascii_recompose c).
  - apply N.mod_lt. discriminate.
  - apply N.div_lt_upper_bound; [discriminate|]. pose proof (code_lt c). simpl. assumption.
Qed.

(* ------------------------------------------------------------------ tokens of a printed descriptor *)
Definition LP : str := lit "(".
Definition RP : str := lit ")".

Fixpoint udt_toks (fn : list str) (fs : list (str -> list str)) : list str :=
  match fn, fs with
  | f :: fn', g :: fs' => g (hex_of f ++ lit ":") ++ udt_toks fn' fs'
  | _, _ => []
  end.

Fixpoint toks (t : ty) (acc : str) : list str :=
  match t with
  | TSimple s => [acc ++ prefix ++ marshal_simple s]
  | TList a => (acc ++ full "ListType") :: LP :: toks a [] ++ [RP]
  | TSet a => (acc ++ full "SetType") :: LP :: toks a [] ++ [RP]
  | TMap k v => (acc ++ full "MapType") :: LP :: toks k [] ++ toks v [] ++ [RP]
  | TTuple ts => (acc ++ full "TupleType") :: LP :: flat_map (fun x => toks x []) ts ++ [RP]
  | TUdt ks name fn ft => (acc ++ full "UserType") :: LP :: ks :: hex_of name :: udt_toks fn (map toks ft) ++ [RP]
  | TVector a d => (acc ++ full "VectorType") :: LP :: toks a [] ++ [d; RP]
  | TFrozen a => (acc ++ full "FrozenType") :: LP :: toks a [] ++ [RP]
  | TReversed a => (acc ++ full "ReversedType") :: LP :: toks a [] ++ [RP]
  end.

Lemma alnum_word : forall c, is_alnum_ c = true -> cass_class c = KWord.
Proof. intros c. destruct c as [[] [] [] [] [] [] [] []]; vm_compute; intros; congruence. Qed.

Lemma alnum_is_word : forall s, forallb is_alnum_ s = true -> is_word cass_class s = true.
Proof.
  induction s; simpl; auto. intros H. apply andb_true_iff in H. destruct H as [H1 H2].
  rewrite (alnum_word _ H1). auto.
Qed.

Lemma digit_alnum : forall s, forallb is_digit s = true -> forallb is_alnum_ s = true.
Proof.
  induction s; simpl; auto. intros H. apply andb_true_iff in H. destruct H as [H1 H2].
  unfold is_alnum_. rewrite H1. simpl. auto.
Qed.

Lemma lex_head : forall n body acc R, is_word cass_class n = true -> n <> [] ->
  lexg cass_class body [] = Some R ->
  lexg cass_class (n ++ lit "(" ++ body) acc = Some ((acc ++ n) :: LP :: R).
Proof.
  intros n body acc R Hw Hn HB.
  apply lexg_word_delim; auto.
  - intros E. apply app_eq_nil in E. destruct E. contradiction.
  - simpl. left. reflexivity.
  - apply lexg_punct; auto.
Qed.

Lemma lex_close : forall rest r, lexg cass_class rest [] = Some r -> lexg cass_class (lit ")" ++ rest) [] = Some (RP :: r).
Proof. intros. apply lexg_punct; auto. Qed.

Lemma lex_comma : forall rest r, lexg cass_class rest [] = Some r -> lexg cass_class (comma ++ rest) [] = Some r.
Proof. intros. apply lexg_skip; auto. Qed.

Lemma wf_keyspace_word : forall ks, wf_keyspace ks = true -> is_word cass_class ks = true /\ ks <> [].
Proof.
  intros ks H. unfold wf_keyspace in H. apply andb_true_iff in H. destruct H as [H _].
  apply andb_true_iff in H. destruct H as [H1 H2]. split.
  - apply alnum_is_word. assumption.
  - intros E. subst. discriminate.
Qed.

Lemma wf_dim_word : forall d, wf_dim d = true -> is_word cass_class d = true /\ d <> [].
Proof.
  intros d H. unfold wf_dim in H. apply andb_true_iff in H. destruct H as [H _].
  apply andb_true_iff in H. destruct H as [H1 H2]. split.
  - apply alnum_is_word. apply digit_alnum. assumption.
  - intros E. subst. discriminate.
Qed.

Lemma hex_nonempty : forall n, n <> [] -> hex_of n <> [].
Proof. intros n H. destruct n; [contradiction|]. simpl. discriminate. Qed.

Lemma wf_name_nonempty : forall n, wf_name n = true -> n <> [].
Proof. intros n H E. subst. discriminate. Qed.

Lemma delimited_fields : forall fn ps rest, delimited cass_class (udt_fields fn ps ++ lit ")" ++ rest).
Proof.
  intros fn ps rest. destruct fn as [|f fn]; [simpl; left; reflexivity|].
  destruct ps as [|p ps]; simpl; [left|right]; reflexivity.
Qed.

Lemma wf_udt_inv : forall ks n fn ft, wf (TUdt ks n fn ft) = true ->
  wf_keyspace ks = true /\ wf_name n = true /\ forallb (forallb (fun c => code c <? 128)%N) fn = true
  /\ Nat.eqb (List.length fn) (List.length ft) = true /\ forallb wf ft = true.
Proof.
  intros ks n fn ft H. cbn [wf] in H.
  apply andb_true_iff in H. destruct H as [H H5]. apply andb_true_iff in H. destruct H as [H H4].
  apply andb_true_iff in H. destruct H as [H H3]. apply andb_true_iff in H. destruct H as [H1 H2]. auto.
Qed.

Definition lex_ok (t : ty) : Prop :=
  wf t = true -> forall acc rest r, delimited cass_class rest -> lexg cass_class rest [] = Some r ->
  lexg cass_class (spec_cass_print t ++ rest) acc = Some (toks t acc ++ r).

Lemma lex_unary : forall n a, is_word cass_class (full n) = true -> full n <> [] -> lex_ok a -> wf a = true ->
  forall acc rest r, delimited cass_class rest -> lexg cass_class rest [] = Some r ->
  lexg cass_class ((full n ++ lit "(" ++ spec_cass_print a ++ lit ")") ++ rest) acc
  = Some (((acc ++ full n) :: LP :: toks a [] ++ [RP]) ++ r).
Proof.
  intros n a Hw Hn IH Hwf acc rest r D H.
  rewrite <- !app_assoc. simpl app at 4 5.
  change ((acc ++ full n) :: LP :: (toks a [] ++ [RP]) ++ r) with ((acc ++ full n) :: LP :: ((toks a [] ++ [RP]) ++ r)).
  rewrite <- app_assoc. apply lex_head; auto.
  apply IH; auto.
  - simpl. left. reflexivity.
  - apply lex_close. assumption.
Qed.

Lemma lex_list : forall ts, Forall lex_ok ts -> forallb wf ts = true ->
  forall rest r, lexg cass_class rest [] = Some r ->
  lexg cass_class (join comma (map spec_cass_print ts) ++ lit ")" ++ rest) []
  = Some (flat_map (fun x => toks x []) ts ++ RP :: r).
Proof.
  intros ts H. induction H as [|x l Hx Hl IH]; intros Hwf rest r Hr.
  - simpl. apply lex_close. assumption.
  - simpl in Hwf. apply andb_true_iff in Hwf. destruct Hwf as [Hwx Hwl].
    destruct l as [|y l'].
    + simpl. rewrite app_nil_r. apply Hx; auto.
      * simpl. left. reflexivity.
      * apply lex_close. assumption.
    + change (join comma (map spec_cass_print (x :: y :: l'))) with
        (spec_cass_print x ++ comma ++ join comma (map spec_cass_print (y :: l'))).
      rewrite <- !app_assoc.
      change (flat_map (fun x0 => toks x0 []) (x :: y :: l')) with (toks x [] ++ flat_map (fun x0 => toks x0 []) (y :: l')).
      rewrite <- app_assoc.
      apply Hx; auto.
      * simpl. right. reflexivity.
      * apply lex_comma. apply IH; auto.
Qed.

Lemma lex_fields : forall ft, Forall lex_ok ft -> forallb wf ft = true ->
  forall fn rest r, lexg cass_class rest [] = Some r ->
  lexg cass_class (udt_fields fn (map spec_cass_print ft) ++ lit ")" ++ rest) []
  = Some (udt_toks fn (map toks ft) ++ RP :: r).
Proof.
  intros ft H. induction H as [|x l Hx Hl IH]; intros Hwf fn rest r Hr.
  - destruct fn; simpl; apply lex_close; assumption.
  - simpl in Hwf. apply andb_true_iff in Hwf. destruct Hwf as [Hwx Hwl].
    destruct fn as [|f fn]; [simpl; apply lex_close; assumption|].
    cbn [map udt_fields udt_toks]. rewrite <- !app_assoc.
    apply lex_comma.
    rewrite (app_assoc (hex_of f) (lit ":")).
    rewrite lexg_word.
    2:{ rewrite is_word_app. rewrite (lhex_is_word _ (hex_of_lhex f)). reflexivity. }
    rewrite app_nil_l.
    apply Hx; auto.
    apply delimited_fields.
Qed.

Lemma simple_word : forall s, is_word cass_class (prefix ++ marshal_simple s) = true.
Proof. destruct s; reflexivity. Qed.

Lemma lex_ty : forall t, lex_ok t.
Proof.
  apply ty_ind2; unfold lex_ok.
  - (* simple *) intros s _ acc rest r D H. cbn [spec_cass_print toks].
    change ([acc ++ prefix ++ marshal_simple s] ++ r) with ((acc ++ (prefix ++ marshal_simple s)) :: r).
    apply lexg_word_delim; auto using simple_word.
    intros E. apply app_eq_nil in E. destruct E as [_ E]. destruct s; discriminate.
  - intros a IH Hwf acc rest r D H. cbn [spec_cass_print toks]. apply lex_unary; auto; try reflexivity. discriminate.
  - intros a IH Hwf acc rest r D H. cbn [spec_cass_print toks]. apply lex_unary; auto; try reflexivity. discriminate.
  - (* map *) intros k v IHk IHv Hwf acc rest r D H. cbn [spec_cass_print toks].
    simpl in Hwf. apply andb_true_iff in Hwf. destruct Hwf as [Hk Hv].
    rewrite <- !app_assoc.
    change (((acc ++ full "MapType") :: LP :: toks k [] ++ toks v [] ++ [RP]) ++ r)
      with ((acc ++ full "MapType") :: LP :: ((toks k [] ++ toks v [] ++ [RP]) ++ r)).
    apply lex_head; try reflexivity; try discriminate.
    rewrite <- !app_assoc. apply IHk; auto.
    + simpl. right. reflexivity.
    + apply lex_comma. apply IHv; auto.
      * simpl. left. reflexivity.
      * apply lex_close. assumption.
  - (* tuple *) intros ts IH Hwf acc rest r D H. cbn [spec_cass_print toks].
    simpl in Hwf. rewrite <- !app_assoc.
    change (((acc ++ full "TupleType") :: LP :: flat_map (fun x => toks x []) ts ++ [RP]) ++ r)
      with ((acc ++ full "TupleType") :: LP :: ((flat_map (fun x => toks x []) ts ++ [RP]) ++ r)).
    apply lex_head; try reflexivity; try discriminate.
    rewrite <- app_assoc. apply lex_list; auto.
  - (* udt *) intros ks n fn ft IH Hwf acc rest r D H. cbn [spec_cass_print toks].
    apply wf_udt_inv in Hwf. destruct Hwf as (Hks & Hname & Hfn & Hlen & Hft).
    destruct (wf_keyspace_word _ Hks) as [Hkw Hkn].
    rewrite <- !app_assoc.
    change (((acc ++ full "UserType") :: LP :: ks :: hex_of n :: udt_toks fn (map toks ft) ++ [RP]) ++ r)
      with ((acc ++ full "UserType") :: LP :: ks :: hex_of n :: ((udt_toks fn (map toks ft) ++ [RP]) ++ r)).
    apply lex_head; try reflexivity; try discriminate.
    change (ks :: hex_of n :: (udt_toks fn (map toks ft) ++ [RP]) ++ r)
      with (([] ++ ks) :: hex_of n :: (udt_toks fn (map toks ft) ++ [RP]) ++ r).
    apply lexg_word_delim; auto.
    + simpl. right. reflexivity.
    + apply lex_comma.
      change (hex_of n :: (udt_toks fn (map toks ft) ++ [RP]) ++ r)
        with (([] ++ hex_of n) :: (udt_toks fn (map toks ft) ++ [RP]) ++ r).
      apply lexg_word_delim.
      * apply lhex_is_word. apply hex_of_lhex.
      * simpl. apply hex_nonempty. eapply wf_name_nonempty; eauto.
      * apply delimited_fields.
      * rewrite <- app_assoc. apply lex_fields; auto.
  - (* vector *) intros a d IH Hwf acc rest r D H. cbn [spec_cass_print toks].
    simpl in Hwf. apply andb_true_iff in Hwf. destruct Hwf as [Ha Hd].
    destruct (wf_dim_word _ Hd) as [Hdw Hdn].
    rewrite <- !app_assoc.
    change (((acc ++ full "VectorType") :: LP :: toks a [] ++ [d; RP]) ++ r)
      with ((acc ++ full "VectorType") :: LP :: ((toks a [] ++ [d; RP]) ++ r)).
    apply lex_head; try reflexivity; try discriminate.
    rewrite <- app_assoc. apply IH; auto.
    + simpl. right. reflexivity.
    + change (lit " , " ++ d ++ lit ")" ++ rest) with (" "%char :: ","%char :: " "%char :: (d ++ lit ")" ++ rest)).
      apply lexg_skip; [reflexivity|]. apply lexg_skip; [reflexivity|]. apply lexg_skip; [reflexivity|].
      change ([d; RP] ++ r) with (([] ++ d) :: RP :: r).
      apply lexg_word_delim; auto.
      * simpl. left. reflexivity.
      * apply lex_close. assumption.
  - intros a IH Hwf acc rest r D H. cbn [spec_cass_print toks]. simpl in Hwf. apply andb_true_iff in Hwf. destruct Hwf.
    apply lex_unary; auto; try reflexivity. discriminate.
  - intros a IH Hwf acc rest r D H. cbn [spec_cass_print toks]. apply lex_unary; auto; try reflexivity. discriminate.
Qed.

(* ------------------------------------------------------------------ the token splitter and int() *)
Definition nosepc (c : ascii) : bool := negb (code c =? 58)%N && negb (code c =? 61)%N.
Definition nosepb (w : str) : bool := forallb nosepc w.

Lemma split_nosep : forall w s first cur, nosepb w = true -> split_tok (w ++ s) first cur = split_tok s first (cur ++ w).
Proof.
  induction w as [|c w IH]; intros s first cur H.
  - simpl. rewrite app_nil_r. reflexivity.
  - simpl in H. apply andb_true_iff in H. destruct H as [Hc Hw].
    unfold nosepc in Hc. apply andb_true_iff in Hc. destruct Hc as [H1 H2].
    apply negb_true_iff in H1. apply negb_true_iff in H2.
    simpl. rewrite H1, H2. rewrite IH by assumption. rewrite <- app_assoc. reflexivity.
Qed.

Lemma split_plain : forall w, nosepb w = true -> split_tok w None [] = (None, w).
Proof. intros w H. rewrite <- (app_nil_r w) at 1. rewrite split_nosep by assumption. reflexivity. Qed.

Lemma split_named : forall h w, nosepb h = true -> nosepb w = true -> split_tok ((h ++ lit ":") ++ w) None [] = (Some h, w).
Proof.
  intros h w Hh Hw. rewrite <- app_assoc. rewrite split_nosep by assumption. simpl.
  rewrite <- (app_nil_r w) at 1. rewrite split_nosep by assumption. reflexivity.
Qed.

Definition pre_of (nm : option str) : str := match nm with None => [] | Some h => h ++ lit ":" end.
Definition name_ok (nm : option str) : Prop := match nm with None => True | Some h => forallb is_lhex h = true end.

Lemma lhex_nosepc : forall c, is_lhex c = true -> nosepc c = true.
Proof. intros c. destruct c as [[] [] [] [] [] [] [] []]; vm_compute; intros; congruence. Qed.
Lemma alnum_nosepc : forall c, is_alnum_ c = true -> nosepc c = true.
Proof. intros c. destruct c as [[] [] [] [] [] [] [] []]; vm_compute; intros; congruence. Qed.

Lemma forallb_impl : forall {A} (f g : A -> bool) l, (forall x, f x = true -> g x = true) -> forallb f l = true -> forallb g l = true.
Proof.
  intros A f g l H. induction l; simpl; auto. intros E. apply andb_true_iff in E. destruct E. rewrite H, IHl; auto.
Qed.

Lemma split_pre : forall nm w, name_ok nm -> nosepb w = true -> split_tok (pre_of nm ++ w) None [] = (nm, w).
Proof.
  intros [h|] w Hn Hw; simpl pre_of.
  - apply split_named; auto. unfold nosepb. eapply forallb_impl; [apply lhex_nosepc|assumption].
  - simpl. apply split_plain. assumption.
Qed.

Definition head_ok (n : str) : Prop :=
  nosepb (prefix ++ n) = true /\ int_parse (prefix ++ n) = None /\ lookup_simple (prefix ++ n) = CReg n.

Lemma push_head : forall nm n fr, name_ok nm -> head_ok n ->
  push_tok (pre_of nm ++ prefix ++ n) fr = (CReg n :: fst fr, nm :: snd fr).
Proof.
  intros nm n fr Hn (H1 & H2 & H3). unfold push_tok. rewrite split_pre by assumption. rewrite H2, H3. reflexivity.
Qed.

Definition word_tok (tok : str) : Prop := str_eqb tok LP = false /\ str_eqb tok RP = false.

Lemma run_word : forall tok rest fr st, word_tok tok -> run (tok :: rest) (fr :: st) = run rest (push_tok tok fr :: st).
Proof. intros tok rest fr st [H1 H2]. unfold LP, RP in *. cbn [run]. rewrite H1, H2. reflexivity. Qed.

Lemma str_eqb_length : forall a b, str_eqb a b = true -> List.length a = List.length b.
Proof. intros a b H. apply str_eqb_eq in H. subst. reflexivity. Qed.

Lemma long_word_tok : forall tok, 2 <= List.length tok -> word_tok tok.
Proof.
  intros tok H. split.
  - destruct (str_eqb tok LP) eqn:E; auto. apply str_eqb_length in E. simpl in E. lia.
  - destruct (str_eqb tok RP) eqn:E; auto. apply str_eqb_length in E. simpl in E. lia.
Qed.

Lemma head_word_tok : forall nm n, word_tok (pre_of nm ++ prefix ++ n).
Proof. intros. apply long_word_tok. rewrite !app_length. simpl. lia. Qed.

Lemma word_word_tok : forall w, is_word cass_class w = true -> w <> [] -> word_tok w.
Proof.
  intros w H Hn. destruct w as [|c w]; [contradiction|]. simpl in H. apply andb_true_iff in H. destruct H as [Hc _].
  split; simpl.
  - destruct (Ascii.eqb_spec c "("%char); [subst; discriminate|reflexivity].
  - destruct (Ascii.eqb_spec c ")"%char); [subst; discriminate|reflexivity].
Qed.

Lemma run_open : forall rest st, run (LP :: rest) st = run rest (([], []) :: st).
Proof. reflexivity. Qed.

Lemma run_close : forall rest types names p ptypes pnames st,
  run (RP :: rest) ((types, names) :: (p :: ptypes, pnames) :: st) =
  match apply_params p (rev types) (rev names) with
  | POk c => run rest ((c :: ptypes, pnames) :: st)
  | PValueError => PValueError
  | PEscapes => PEscapes
  end.
Proof. reflexivity. Qed.

(* int() *)
Lemma digits_all : forall s p acc, forallb is_digit s = true -> (s <> [] \/ p = true) -> digits_groups s p acc = Some (acc ++ s).
Proof.
  induction s as [|c s IH]; intros p acc H Hp; simpl.
  - destruct Hp as [Hp|Hp]; [contradiction|]. subst. rewrite app_nil_r. reflexivity.
  - simpl in H. apply andb_true_iff in H. destruct H as [Hc Hs]. rewrite Hc.
    rewrite IH; auto. rewrite <- app_assoc. reflexivity.
Qed.

Lemma int_parse_dim : forall d, wf_dim d = true -> int_parse d = Some d.
Proof.
  intros d H. unfold wf_dim in H. apply andb_true_iff in H. destruct H as [H H3].
  apply andb_true_iff in H. destruct H as [H1 H2].
  unfold int_parse. rewrite digits_all; auto.
  - simpl. apply str_eqb_eq in H3. rewrite H3. reflexivity.
  - left. intros E. subst. discriminate.
Qed.

Lemma lhex_not_us : forall c, is_lhex c = true -> (code c =? 95)%N = false.
Proof. intros c. destruct c as [[] [] [] [] [] [] [] []]; vm_compute; intros; congruence. Qed.

Lemma digits_lhex : forall s p acc d, forallb is_lhex s = true -> digits_groups s p acc = Some d -> d = acc ++ s.
Proof.
  induction s as [|c s IH]; intros p acc d H E; simpl in E.
  - destruct p; inversion E. rewrite app_nil_r. reflexivity.
  - simpl in H. apply andb_true_iff in H. destruct H as [Hc Hs].
    destruct (is_digit c).
    + apply IH in E; auto. rewrite E. rewrite <- app_assoc. reflexivity.
    + rewrite (lhex_not_us _ Hc) in E. simpl in E. discriminate.
Qed.

Lemma strip_zeros_id : forall c s, (code c =? 48)%N = false -> strip_zeros (c :: s) = c :: s.
Proof. intros c s H. destruct s; simpl; auto. rewrite H. reflexivity. Qed.

Lemma int_parse_hex : forall c s d, forallb is_lhex (c :: s) = true -> (code c =? 48)%N = false ->
  int_parse (c :: s) = Some d -> d = c :: s.
Proof.
  intros c s d H Hc E. unfold int_parse in E.
  destruct (digits_groups (c :: s) false []) as [x|] eqn:Ed; [|discriminate].
  apply digits_lhex in Ed; auto. simpl in Ed. subst x. rewrite strip_zeros_id in E by assumption. inversion E. reflexivity.
Qed.

Lemma hexchar_not_zero : forall n, (1 <= n)%N -> (n < 16)%N -> (code (hexchar n) =? 48)%N = false.
Proof.
  intros n H1 H.
  assert (Hn : In n (map N.of_nat (seq 1 15))).
  { apply in_map_iff. exists (N.to_nat n). split; [apply N2Nat.id|]. apply in_seq. lia. }
  simpl in Hn. repeat (destruct Hn as [Hn|Hn]; [subst; reflexivity|]). contradiction.
Qed.

(* ------------------------------------------------------------------ lookups of keyspace and hex-name tokens *)
Lemma is_prefix_app : forall p s, is_prefix p s = true -> exists r, s = p ++ r.
Proof.
  induction p as [|x p IH]; intros s H.
  - exists s. reflexivity.
  - destruct s as [|y s]; [discriminate|]. simpl in H. apply andb_true_iff in H. destruct H as [H1 H2].
    apply Ascii.eqb_eq in H1. subst. destruct (IH _ H2) as [r Hr]. exists r. simpl. rewrite Hr. reflexivity.
Qed.

Lemma no_prefix_alnum : forall ks, forallb is_alnum_ ks = true -> is_prefix prefix ks = false.
Proof.
  intros ks H. destruct (is_prefix prefix ks) eqn:E; auto.
  apply is_prefix_app in E. destruct E as [r Hr]. subst ks. rewrite forallb_app in H.
  apply andb_true_iff in H. destruct H as [H _]. vm_compute in H. discriminate.
Qed.

Definition tok_cls (tok : str) : cls := match int_parse tok with Some d => CInt d | None => lookup_simple tok end.

Lemma push_plain : forall tok fr, nosepb tok = true -> push_tok tok fr = (tok_cls tok :: fst fr, None :: snd fr).
Proof. intros tok fr H. unfold push_tok. rewrite split_plain by assumption. reflexivity. Qed.

Lemma ks_back : forall ks, wf_keyspace ks = true ->
  match tok_cls ks with CInt d => Some d | _ => drv_cass false (tok_cls ks) end = Some ks.
Proof.
  intros ks H. unfold wf_keyspace in H. apply andb_true_iff in H. destruct H as [H H3].
  apply andb_true_iff in H. destruct H as [H1 H2].
  unfold tok_cls. destruct (int_parse ks) as [d|].
  - apply str_eqb_eq in H3. subst. reflexivity.
  - unfold lookup_simple, trim_prefix. rewrite (no_prefix_alnum _ H2).
    destruct (assoc ks registry); reflexivity.
Qed.

Lemma assoc_lhex : forall {A} (l : list (str * A)) c s,
  forallb (fun kv => match fst kv with k0 :: _ => negb (is_lhex k0) | [] => true end) l = true ->
  is_lhex c = true -> assoc (c :: s) l = None.
Proof.
  intros A l c s H Hc. induction l as [|[k v] l IH]; simpl; auto.
  simpl in H. apply andb_true_iff in H. destruct H as [Hk Hl].
  destruct k as [|k0 k]; [apply IH; assumption|].
  destruct (Ascii.eqb_spec c k0).
  - subst. rewrite Hc in Hk. discriminate.
  - simpl. apply IH. assumption.
Qed.

Lemma registry_heads : forallb (fun kv : str * kind => match fst kv with k0 :: _ => negb (is_lhex k0) | [] => true end) registry = true.
Proof. vm_compute. reflexivity. Qed.

Lemma hexname_back : forall n, wf_name n = true ->
  match tok_cls (hex_of n) with CInt d => Some d | _ => cassname_of (tok_cls (hex_of n)) end = Some (hex_of n).
Proof.
  intros n H. destruct n as [|c0 n]; [discriminate|].
  unfold wf_name in H. apply andb_true_iff in H. destruct H as [H1 H2]. apply N.leb_le in H1.
  pose proof (hex_of_lhex (c0 :: n)) as HL.
  change (hex_of (c0 :: n)) with (hexchar (code c0 / 16) :: hexchar (code c0 mod 16) :: hex_of n) in *.
  set (c := hexchar (code c0 / 16)) in *. set (s := hexchar (code c0 mod 16) :: hex_of n) in *.
  assert (Hc : (code c =? 48)%N = false).
  { apply hexchar_not_zero.
    - apply N.div_le_lower_bound; [discriminate|]. simpl. assumption.
    - apply N.div_lt_upper_bound; [discriminate|]. pose proof (code_lt c0). simpl. assumption. }
  assert (Hlc : is_lhex c = true). { simpl in HL. apply andb_true_iff in HL. destruct HL. assumption. }
  unfold tok_cls. destruct (int_parse (c :: s)) as [d|] eqn:E.
  - apply int_parse_hex in E; auto. subst. reflexivity.
  - unfold lookup_simple, trim_prefix.
    assert (Hp : is_prefix prefix (c :: s) = false).
    { destruct (is_prefix prefix (c :: s)) eqn:Ep; auto. apply is_prefix_app in Ep. destruct Ep as [r Hr].
      change prefix with ("o"%char :: tl prefix) in Hr. simpl in Hr. inversion Hr as [[Hco Hs']].
      rewrite Hco in Hlc. discriminate. }
    rewrite Hp. rewrite (assoc_lhex registry c s registry_heads Hlc). reflexivity.
Qed.

Lemma field_names_hex : forall fn, forallb (forallb (fun c => code c <? 128)%N) fn = true ->
  field_names (map (fun f => Some (hex_of f)) fn) = POk fn.
Proof.
  induction fn as [|f fn IH]; simpl; auto. intros H. apply andb_true_iff in H. destruct H as [H1 H2].
  rewrite name_from_hex_of by assumption. rewrite IH by assumption. reflexivity.
Qed.

(* ------------------------------------------------------------------ the class a printed descriptor parses to *)
Fixpoint parsed (t : ty) : cls :=
  match t with
  | TSimple s => CReg (marshal_simple s)
  | TList a => CApp (lit "ListType") [parsed a] [None]
  | TSet a => CApp (lit "SetType") [parsed a] [None]
  | TMap k v => CApp (lit "MapType") [parsed k; parsed v] [None; None]
  | TTuple ts => CApp (lit "TupleType") (map parsed ts) (map (fun _ => None) ts)
  | TUdt ks name fn ft => CUdt ks name fn (map parsed ft)
  | TVector a d => CVec (lit "VectorType(" ++ d ++ lit ")") (parsed a) (CInt d)
  | TFrozen a => CApp (lit "FrozenType") [parsed a] [None]
  | TReversed a => CApp (lit "ReversedType") [parsed a] [None]
  end.

Lemma opt_all_some : forall {A B} (f : A -> option B) l, Forall (fun x => exists v, f x = Some v) l -> exists r, opt_all (map f l) = Some r.
Proof.
  intros A B f l H. induction H as [|x l [v Hv] Hl [r Hr]]; simpl.
  - eexists. reflexivity.
  - rewrite Hv, Hr. eexists. reflexivity.
Qed.

Lemma go_some : forall fl n subs, (exists r, opt_all (map (drv_cass fl) subs) = Some r) ->
  exists s, match subs with
            | [] => Some n
            | _ => match opt_all (map (drv_cass fl) subs) with Some l => Some (n ++ lit "(" ++ join comma_sp l ++ lit ")") | None => None end
            end = Some s.
Proof. intros fl n subs [r Hr]. destruct subs; [eexists; reflexivity|]. rewrite Hr. eexists. reflexivity. Qed.

Lemma parsed_cass : forall t, exists s, drv_cass false (parsed t) = Some s.
Proof.
  apply ty_ind2; intros; cbn [parsed drv_cass andb]; try (eexists; reflexivity).
  - destruct H as [s Hs]. simpl. rewrite Hs. eexists. reflexivity.
  - destruct H as [s Hs]. simpl. rewrite Hs. eexists. reflexivity.
  - destruct H as [s Hs]. destruct H0 as [s0 Hs0]. simpl. rewrite Hs, Hs0. eexists. reflexivity.
  - apply go_some. apply opt_all_some. apply Forall_forall. intros x Hx. apply in_map_iff in Hx. destruct Hx as [y [Hy Hin]].
    subst. rewrite Forall_forall in H. apply H. assumption.
  - apply go_some. apply opt_all_some. apply Forall_forall. intros x Hx. apply in_map_iff in Hx. destruct Hx as [y [Hy Hin]].
    subst. rewrite Forall_forall in H. apply H. assumption.
  - destruct H as [s Hs]. simpl. rewrite Hs. eexists. reflexivity.
  - destruct H as [s Hs]. simpl. rewrite Hs. eexists. reflexivity.
Qed.

Lemma parsed_all_cass : forall ts, exists r, opt_all (map (drv_cass false) (map parsed ts)) = Some r.
Proof.
  intros ts. apply opt_all_some. apply Forall_forall. intros x Hx. apply in_map_iff in Hx. destruct Hx as [y [Hy _]].
  subst. apply parsed_cass.
Qed.

Lemma apply_default_reg : forall n tn ar subs names, assoc n registry = Some (KDefault tn ar) ->
  apply_params (CReg n) subs names = default_apply n ar (CApp n) subs names.
Proof. intros. unfold apply_params. rewrite H. reflexivity. Qed.

Lemma default_ok : forall n ar mk subs names,
  match ar with Some k => Nat.eqb (List.length subs) k | None => true end = true ->
  (exists r, opt_all (map (drv_cass false) subs) = Some r) ->
  default_apply n ar mk subs names = POk (mk subs names).
Proof. intros n ar mk subs names Ha [r Hr]. unfold default_apply. rewrite Ha, Hr. reflexivity. Qed.

Lemma udt_apply_ok : forall k u fts names ks h name fns,
  match k with CInt d => Some d | _ => drv_cass false k end = Some ks ->
  match u with CInt d => Some d | _ => cassname_of u end = Some h ->
  name_from_hex h = Some name -> field_names (skipn 2 names) = POk fns ->
  udt_apply (k :: u :: fts) names = POk (CUdt ks name fns fts).
Proof. intros k u fts names ks h name fns H H0 H1 H2. unfold udt_apply. rewrite H, H0, H1, H2. reflexivity. Qed.

Lemma parsed_not_int : forall t, is_int (parsed t) = false.
Proof. destruct t; reflexivity. Qed.

Definition run_ok (t : ty) : Prop :=
  wf t = true -> forall nm rest fr st, name_ok nm ->
  run (toks t (pre_of nm) ++ rest) (fr :: st) = run rest ((parsed t :: fst fr, nm :: snd fr) :: st).

Lemma head_ok_simple : forall s, head_ok (marshal_simple s).
Proof. destruct s; repeat split; reflexivity. Qed.

(* a parameterised type: head, "(", body, ")" *)
Lemma run_param : forall n body rest fr st nm rs rn c,
  name_ok nm -> head_ok n ->
  (forall rest', run (body ++ rest') (([], []) :: (CReg n :: fst fr, nm :: snd fr) :: st)
                 = run rest' ((rs, rn) :: (CReg n :: fst fr, nm :: snd fr) :: st)) ->
  apply_params (CReg n) (rev rs) (rev rn) = POk c ->
  run (((pre_of nm ++ prefix ++ n) :: LP :: body ++ [RP]) ++ rest) (fr :: st) = run rest ((c :: fst fr, nm :: snd fr) :: st).
Proof.
  intros n body rest fr st nm rs rn c Hn Hh Hbody Happ.
  change (((pre_of nm ++ prefix ++ n) :: LP :: body ++ [RP]) ++ rest)
    with ((pre_of nm ++ prefix ++ n) :: LP :: (body ++ [RP]) ++ rest).
  rewrite run_word by apply head_word_tok. rewrite push_head by assumption.
  rewrite run_open. rewrite <- app_assoc. rewrite Hbody.
  change ([RP] ++ rest) with (RP :: rest). rewrite run_close. rewrite Happ. reflexivity.
Qed.

Lemma run_unary : forall n a tn, head_ok (lit n) -> assoc (lit n) registry = Some (KDefault tn (Some 1%nat)) ->
  run_ok a -> wf a = true -> forall nm rest fr st, name_ok nm ->
  run (((pre_of nm ++ full n) :: LP :: toks a [] ++ [RP]) ++ rest) (fr :: st)
  = run rest ((CApp (lit n) [parsed a] [None] :: fst fr, nm :: snd fr) :: st).
Proof.
  intros n a tn Hh Ha IH Hwf nm rest fr st Hn.
  apply run_param with (rs := [parsed a]) (rn := [None]); auto.
  - intros rest'. apply (IH Hwf None rest' ([], [])). exact I.
  - simpl rev. rewrite (apply_default_reg _ _ _ _ _ Ha). apply default_ok; [reflexivity|].
    destruct (parsed_cass a) as [s Hs]. simpl. rewrite Hs. eexists. reflexivity.
Qed.

Lemma run_seq : forall ts, Forall run_ok ts -> forallb wf ts = true -> forall rest at_ an st,
  run (flat_map (fun x => toks x []) ts ++ rest) ((at_, an) :: st)
  = run rest ((rev (map parsed ts) ++ at_, rev (map (fun _ => @None str) ts) ++ an) :: st).
Proof.
  intros ts H. induction H as [|x l Hx Hl IH]; intros Hwf rest at_ an st.
  - reflexivity.
  - simpl in Hwf. apply andb_true_iff in Hwf. destruct Hwf as [Hwx Hwl].
    cbn [flat_map map rev]. rewrite <- app_assoc.
    rewrite (Hx Hwx None _ (at_, an) st I). cbn [fst snd].
    rewrite IH by assumption. rewrite <- !app_assoc. reflexivity.
Qed.

Lemma run_fields : forall ft, Forall run_ok ft -> forallb wf ft = true -> forall fn rest at_ an st,
  List.length fn = List.length ft ->
  run (udt_toks fn (map toks ft) ++ rest) ((at_, an) :: st)
  = run rest ((rev (map parsed ft) ++ at_, rev (map (fun f => Some (hex_of f)) fn) ++ an) :: st).
Proof.
  intros ft H. induction H as [|x l Hx Hl IH]; intros Hwf fn rest at_ an st Hlen.
  - destruct fn; [reflexivity|discriminate].
  - destruct fn as [|f fn]; [discriminate|]. simpl in Hlen. inversion Hlen as [Hlen'].
    simpl in Hwf. apply andb_true_iff in Hwf. destruct Hwf as [Hwx Hwl].
    cbn [map udt_toks rev]. rewrite <- app_assoc.
    rewrite (Hx Hwx (Some (hex_of f)) _ (at_, an) st (hex_of_lhex f)). cbn [fst snd].
    rewrite IH by assumption. rewrite <- !app_assoc. reflexivity.
Qed.

Lemma run_ty : forall t, run_ok t.
Proof.
  apply ty_ind2; unfold run_ok.
  - (* simple *) intros s _ nm rest fr st Hn. cbn [toks app].
    rewrite run_word by apply head_word_tok. rewrite push_head; auto using head_ok_simple.
  - intros a IH Hwf nm rest fr st Hn. cbn [toks parsed]. eapply run_unary; eauto; try (repeat split; reflexivity).
  - intros a IH Hwf nm rest fr st Hn. cbn [toks parsed]. eapply run_unary; eauto; try (repeat split; reflexivity).
  - (* map *) intros k v IHk IHv Hwf nm rest fr st Hn. cbn [toks parsed].
    simpl in Hwf. apply andb_true_iff in Hwf. destruct Hwf as [Hk Hv].
    rewrite (app_assoc (toks k [])).
    apply run_param with (rs := [parsed v; parsed k]) (rn := [None; None]); auto; try (repeat split; reflexivity).
    + intros rest'. rewrite <- app_assoc. rewrite (IHk Hk None _ ([], []) _ I). cbn [fst snd].
      rewrite (IHv Hv None _ _ _ I). reflexivity.
    + simpl rev. rewrite (apply_default_reg _ (lit "map") (Some 2%nat)) by reflexivity. apply default_ok; [reflexivity|].
      destruct (parsed_cass k) as [s Hs]. destruct (parsed_cass v) as [s0 Hs0]. simpl. rewrite Hs, Hs0. eexists. reflexivity.
  - (* tuple *) intros ts IH Hwf nm rest fr st Hn. cbn [toks parsed]. simpl in Hwf.
    apply run_param with (rs := rev (map parsed ts)) (rn := rev (map (fun _ => @None str) ts)); auto; try (repeat split; reflexivity).
    + intros rest'. rewrite run_seq by assumption. rewrite !app_nil_r. reflexivity.
    + rewrite !rev_involutive. rewrite (apply_default_reg _ (lit "tuple") None) by reflexivity. apply default_ok; [reflexivity|].
      apply parsed_all_cass.
  - (* udt *) intros ks n fn ft IH Hwf nm rest fr st Hn. cbn [toks parsed].
    apply wf_udt_inv in Hwf. destruct Hwf as (Hks & Hname & Hfn & Hlen & Hft).
    destruct (wf_keyspace_word _ Hks) as [Hkw Hkn].
    change (ks :: hex_of n :: udt_toks fn (map toks ft) ++ [RP]) with ((ks :: hex_of n :: udt_toks fn (map toks ft)) ++ [RP]).
    apply run_param with (rs := rev (map parsed ft) ++ [tok_cls (hex_of n); tok_cls ks])
                         (rn := rev (map (fun f => Some (hex_of f)) fn) ++ [None; None]); auto; try (repeat split; reflexivity).
    + intros rest'. cbn [app].
      rewrite run_word by (apply word_word_tok; assumption).
      rewrite push_plain.
      2:{ unfold wf_keyspace in Hks. apply andb_true_iff in Hks. destruct Hks as [Hks _]. apply andb_true_iff in Hks. destruct Hks as [_ Hks].
          unfold nosepb. eapply forallb_impl; [apply alnum_nosepc|assumption]. }
      cbn [fst snd].
      rewrite run_word.
      2:{ apply word_word_tok; [apply lhex_is_word; apply hex_of_lhex|apply hex_nonempty; eapply wf_name_nonempty; eauto]. }
      rewrite push_plain.
      2:{ unfold nosepb. eapply forallb_impl; [apply lhex_nosepc|apply hex_of_lhex]. }
      cbn [fst snd].
      apply run_fields; auto. apply Nat.eqb_eq. assumption.
    + rewrite !rev_app_distr, !rev_involutive. cbn [rev app].
      change (apply_params (CReg (lit "UserType")) (tok_cls ks :: tok_cls (hex_of n) :: map parsed ft)
                (None :: None :: map (fun f => Some (hex_of f)) fn))
        with (udt_apply (tok_cls ks :: tok_cls (hex_of n) :: map parsed ft) (None :: None :: map (fun f => Some (hex_of f)) fn)).
      apply udt_apply_ok with (h := hex_of n).
      * apply ks_back. assumption.
      * apply hexname_back. assumption.
      * apply name_from_hex_of. unfold wf_name in Hname. destruct n; [discriminate|]. apply andb_true_iff in Hname. destruct Hname. assumption.
      * cbn [skipn]. apply field_names_hex. assumption.
  - (* vector *) intros a d IH Hwf nm rest fr st Hn. cbn [toks parsed].
    simpl in Hwf. apply andb_true_iff in Hwf. destruct Hwf as [Ha Hd].
    destruct (wf_dim_word _ Hd) as [Hdw Hdn].
    change (toks a [] ++ [d; RP]) with (toks a [] ++ [d] ++ [RP]). rewrite (app_assoc (toks a [])).
    apply run_param with (rs := [CInt d; parsed a]) (rn := [None; None]); auto; try (repeat split; reflexivity).
    + intros rest'. rewrite <- app_assoc. rewrite (IH Ha None _ ([], []) _ I). cbn [fst snd app].
      rewrite run_word by (apply word_word_tok; assumption).
      rewrite push_plain.
      2:{ unfold wf_dim in Hd. apply andb_true_iff in Hd. destruct Hd as [Hd _]. apply andb_true_iff in Hd. destruct Hd as [_ Hd].
          unfold nosepb. eapply forallb_impl; [apply alnum_nosepc|apply digit_alnum; assumption]. }
      unfold tok_cls. rewrite (int_parse_dim _ Hd). reflexivity.
    + simpl rev. change (apply_params (CReg (lit "VectorType")) [parsed a; CInt d] [None; None])
        with (vector_apply (lit "VectorType") [parsed a; CInt d]).
      unfold vector_apply. rewrite parsed_not_int. reflexivity.
  - intros a IH Hwf nm rest fr st Hn. cbn [toks parsed]. simpl in Hwf. apply andb_true_iff in Hwf. destruct Hwf.
    eapply run_unary; eauto; try (repeat split; reflexivity).
  - intros a IH Hwf nm rest fr st Hn. cbn [toks parsed]. eapply run_unary; eauto; try (repeat split; reflexivity).
Qed.

Theorem cass_parse_spec : forall t, wf t = true -> cass_parse (spec_cass_print t) = POk (parsed t).
Proof.
  intros t Hwf. unfold cass_parse.
  pose proof (lex_ty t Hwf [] [] [] I eq_refl) as HL. rewrite !app_nil_r in HL. rewrite HL.
  pose proof (run_ty t Hwf None [] ([], []) [] I) as HR. change (pre_of None) with (@nil ascii) in HR.
  rewrite (app_nil_r (toks t [])) in HR. etransitivity; [exact HR|reflexivity].
Qed.

(* ------------------------------------------------------------------ CQL name and codec of the parsed class *)
Definition drv_name (t : ty) : str := cql_name_gen vector_class_name comma_sp true t.

Lemma typename_simple : forall s, typename_of (marshal_simple s) = cql_simple s.
Proof. destruct s; reflexivity. Qed.

Lemma by_name_simple : forall s, drv_cql (CReg (marshal_simple s)) = Some (cql_simple s).
Proof. destruct s; reflexivity. Qed.

Lemma parsed_cql : forall t, drv_cql (parsed t) = Some (drv_name t).
Proof.
  apply ty_ind2; unfold drv_name.
  - intros s. apply by_name_simple.
  - intros a IH. cbn [parsed]. simpl. rewrite IH. reflexivity.
  - intros a IH. cbn [parsed]. simpl. rewrite IH. reflexivity.
  - intros k v IHk IHv. cbn [parsed]. simpl. rewrite IHk, IHv. simpl. rewrite <- ?app_assoc. reflexivity.
  - intros ts IH. cbn [parsed cql_name_gen].
    assert (E : opt_all (map drv_cql (map parsed ts)) = Some (map (cql_name_gen vector_class_name comma_sp true) ts)).
    { rewrite map_map. apply opt_all_map. assumption. }
    simpl. rewrite E. simpl. rewrite <- ?app_assoc. reflexivity.
  - intros ks n fn ft IH. reflexivity.
  - intros a d IH. cbn [parsed]. simpl. rewrite IH. simpl. rewrite <- ?app_assoc. reflexivity.
  - intros a IH. cbn [parsed]. simpl. rewrite IH. reflexivity.
  - intros a IH. cbn [parsed]. simpl. rewrite IH. reflexivity.
Qed.

Lemma vector_free_name : forall v1 v2 sep fz t, vector_free t = true -> cql_name_gen v1 sep fz t = cql_name_gen v2 sep fz t.
Proof.
  intros v1 v2 sep fz t. induction t using ty_ind2; cbn [vector_free cql_name_gen]; intros Hv; try reflexivity; try discriminate.
  - rewrite IHt; auto.
  - rewrite IHt; auto.
  - apply andb_true_iff in Hv. destruct Hv. rewrite IHt1, IHt2; auto.
  - assert (E : map (cql_name_gen v1 sep fz) ts = map (cql_name_gen v2 sep fz) ts).
    { apply map_ext_in. intros x Hx. rewrite Forall_forall in H. apply H; auto.
      rewrite forallb_forall in Hv. apply Hv. assumption. }
    rewrite E. reflexivity.
  - rewrite IHt; auto.
  - rewrite IHt; auto.
Qed.

Lemma simple_of_marshal_simple : forall s, simple_of_marshal (marshal_simple s) = Some s.
Proof. destruct s; reflexivity. Qed.

Lemma parsed_codec : forall t, cls_codec (parsed t) = Some (codec t).
Proof.
  apply ty_ind2.
  - intros s. simpl. rewrite simple_of_marshal_simple. reflexivity.
  - intros a IH. cbn [parsed codec]. simpl. rewrite IH. reflexivity.
  - intros a IH. cbn [parsed codec]. simpl. rewrite IH. reflexivity.
  - intros k v IHk IHv. cbn [parsed codec]. simpl. rewrite IHk, IHv. reflexivity.
  - intros ts IH. cbn [parsed codec].
    assert (E : opt_all (map cls_codec (map parsed ts)) = Some (map codec ts)).
    { rewrite map_map. apply opt_all_map. assumption. }
    simpl. rewrite E. reflexivity.
  - intros ks n fn ft IH. cbn [parsed codec].
    assert (E : opt_all (map cls_codec (map parsed ft)) = Some (map codec ft)).
    { rewrite map_map. apply opt_all_map. assumption. }
    simpl. rewrite E. reflexivity.
  - intros a d IH. cbn [parsed codec]. simpl. rewrite IH. reflexivity.
  - intros a IH. cbn [parsed codec]. simpl. rewrite IH. reflexivity.
  - intros a IH. cbn [parsed codec]. simpl. rewrite IH. reflexivity.
Qed.

(* ------------------------------------------------------------------ python lists <-> CQL names *)
Definition cname (fz : bool) (t : ty) : str := cql_name_gen (lit "vector") comma_sp fz t.
Definition pe := py_print_elem.

Lemma pe_list : forall first l, pe first (PList l) = lit "<" ++ py_print_elems l ++ lit ">".
Proof. reflexivity. Qed.

Definition shape (fz : bool) (t : ty) : Prop :=
  exists h tl, to_py fz t = PStr h :: tl /\ h ++ flat_map (pe false) tl = cname fz t.

Lemma shape_print : forall fz t L, shape fz t -> py_print_elems (to_py fz t ++ L) = cname fz t ++ flat_map (pe false) L.
Proof.
  intros fz t L (h & tl & E & H). rewrite E. cbn [app py_print_elems]. fold pe. rewrite flat_map_app.
  simpl. rewrite <- H. rewrite <- app_assoc. reflexivity.
Qed.

Lemma shape_tail : forall fz t, shape fz t -> flat_map (pe false) (to_py fz t) = comma_sp ++ cname fz t.
Proof.
  intros fz t (h & tl & E & H). rewrite E. cbn [flat_map]. rewrite <- H. unfold pe at 1. simpl. reflexivity.
Qed.

Lemma shape_seq : forall fz ts, Forall (shape fz) ts ->
  py_print_elems (flat_map (to_py fz) ts) = join comma_sp (map (cname fz) ts).
Proof.
  intros fz ts H. destruct H as [|x l Hx Hl]; [reflexivity|].
  cbn [flat_map map]. rewrite shape_print by assumption. rewrite join_cons. f_equal.
  induction Hl as [|y l' Hy Hl' IH]; [reflexivity|].
  cbn [flat_map map]. rewrite flat_map_app. rewrite shape_tail by assumption. rewrite IH. reflexivity.
Qed.

Lemma wrap_shape : forall (fz : bool) x name,
  (exists h tl, x = PStr h :: tl /\ h ++ flat_map (pe false) tl = name) ->
  exists h tl, (if fz then [PStr frozen_kw; PList x] else x) = PStr h :: tl /\
               h ++ flat_map (pe false) tl = (if fz then lit "frozen<" ++ name ++ lit ">" else name).
Proof.
  intros fz x name (h & tl & E & H). destruct fz.
  - exists frozen_kw, [PList x]. split; [reflexivity|]. cbn [flat_map]. rewrite pe_list. rewrite E.
    cbn [py_print_elems]. fold pe. simpl. rewrite H. rewrite app_nil_r. reflexivity.
  - exists h, tl. auto.
Qed.

Lemma shape_ty : forall fz t, shape fz t.
Proof.
  intros fz. apply ty_ind2; unfold shape, cname.
  - intros s. exists (cql_simple s), []. split; [reflexivity|]. apply app_nil_r.
  - intros a IH. exists (lit "list"), [PList (to_py fz a)]. split; [reflexivity|]. cbn [flat_map]. rewrite pe_list.
    rewrite <- (app_nil_r (to_py fz a)). rewrite shape_print by assumption. simpl. rewrite !app_nil_r. reflexivity.
  - intros a IH. exists (lit "set"), [PList (to_py fz a)]. split; [reflexivity|]. cbn [flat_map]. rewrite pe_list.
    rewrite <- (app_nil_r (to_py fz a)). rewrite shape_print by assumption. simpl. rewrite !app_nil_r. reflexivity.
  - intros k v IHk IHv. exists (lit "map"), [PList (to_py fz k ++ to_py fz v)]. split; [reflexivity|]. cbn [flat_map]. rewrite pe_list.
    rewrite shape_print by assumption. rewrite shape_tail by assumption. simpl. rewrite !app_nil_r. rewrite <- !app_assoc. reflexivity.
  - intros ts IH. cbn [to_py cql_name_gen]. apply wrap_shape.
    exists (lit "tuple"), [PList (flat_map (to_py fz) ts)]. split; [reflexivity|]. cbn [flat_map]. rewrite pe_list.
    rewrite shape_seq by assumption. simpl. rewrite !app_nil_r. reflexivity.
  - intros ks n fn ft IH. cbn [to_py cql_name_gen]. apply wrap_shape. exists n, []. split; [reflexivity|]. apply app_nil_r.
  - intros a d IH. exists (lit "vector"), [PList (to_py fz a ++ [PStr d])]. split; [reflexivity|]. cbn [flat_map]. rewrite pe_list.
    rewrite shape_print by assumption. simpl. rewrite !app_nil_r. rewrite <- !app_assoc. reflexivity.
  - intros a IH. cbn [to_py cql_name_gen]. apply wrap_shape. exact IH.
  - intros a IH. exact IH.
Qed.

Theorem print_to_py : forall fz t, python_to_cqltype (to_py fz t) = cname fz t.
Proof.
  intros fz t. unfold python_to_cqltype. rewrite <- (app_nil_r (to_py fz t)).
  rewrite shape_print by apply shape_ty. simpl. apply app_nil_r.
Qed.

(* ------------------------------------------------------------------ UDT names in CQL strings *)
Lemma code_dq : forall c, (code c =? 34)%N = true -> c = dq.
Proof.
  intros c H. apply N.eqb_eq in H. unfold code in H. rewrite <- (ascii_N_embedding c). rewrite H. reflexivity.
Qed.

Lemma qbody_spec : forall r, qbody r = true -> exists q, r = q ++ [dq] /\ forallb qsafe q = true.
Proof.
  induction r as [|c r IH]; intros H; [discriminate|].
  destruct r as [|c2 r'].
  - simpl in H. exists []. split; [|reflexivity]. rewrite (code_dq _ H). reflexivity.
  - change (qbody (c :: c2 :: r')) with (qsafe c && qbody (c2 :: r')) in H.
    apply andb_true_iff in H. destruct H as [Hc Hr]. destruct (IH Hr) as [q [Eq Hq]].
    exists (c :: q). split; [simpl; rewrite Eq; reflexivity|]. simpl. rewrite Hc, Hq. reflexivity.
Qed.

Lemma quoted_name_spec : forall n, quoted_name n = true -> exists q, n = dq :: q ++ [dq] /\ forallb qsafe q = true.
Proof.
  intros n H. destruct n as [|c r]; [discriminate|]. simpl in H. apply andb_true_iff in H. destruct H as [Hc Hr].
  destruct (qbody_spec _ Hr) as [q [Eq Hq]]. exists q. rewrite (code_dq _ Hc). rewrite Eq. auto.
Qed.

Lemma wf_name_cases : forall n, wf_cql_name n = true ->
  (n <> [] /\ forallb is_alnum_ n = true /\ str_eqb n frozen_kw = false) \/
  (exists q, n = dq :: q ++ [dq] /\ forallb qsafe q = true).
Proof.
  intros n H. unfold wf_cql_name in H. apply orb_true_iff in H. destruct H as [H|H].
  - left. unfold plain_name in H. apply andb_true_iff in H. destruct H as [H H3]. apply andb_true_iff in H. destruct H as [H1 H2].
    repeat split; auto.
    + intros E. subst. discriminate.
    + apply negb_true_iff. assumption.
  - right. apply quoted_name_spec. assumption.
Qed.

Lemma wf_name_not_frozen : forall n, wf_cql_name n = true -> str_eqb n frozen_kw = false.
Proof.
  intros n H. destruct (wf_name_cases n H) as [(_ & _ & H1)|[q [E _]]]; auto. subst. reflexivity.
Qed.

(* ------------------------------------------------------------------ _strip_frozen_from_python *)
Inductive Splice : list pyt -> list pyt -> Prop :=
| Sp_nil : Splice [] []
| Sp_frozen : forall inner rest r, Splice (inner ++ rest) r -> Splice (PStr frozen_kw :: PList inner :: rest) r
| Sp_str : forall s rest r, str_eqb s frozen_kw = false -> Splice rest r -> Splice (PStr s :: rest) (PStr s :: r)
| Sp_list : forall i rest r, Splice rest r -> Splice (PList i :: rest) (PList i :: r).

Lemma pyts_size_app : forall a b, pyts_size (a ++ b) = pyts_size a + pyts_size b.
Proof. induction a; intros; simpl; auto. unfold pyts_size in *. simpl. rewrite IHa. lia. Qed.

Lemma splice_complete : forall l r, Splice l r -> forall fuel, pyts_size l < fuel -> splice fuel l = Some r.
Proof.
  intros l r H. induction H; intros fuel Hf; (destruct fuel as [|f]; [lia|]); simpl.
  - reflexivity.
  - try rewrite str_eqb_refl. apply IHSplice. rewrite pyts_size_app. unfold pyts_size in *. simpl in *. lia.
  - rewrite H. rewrite IHSplice; auto. unfold pyts_size in *. simpl in *. lia.
  - rewrite IHSplice; auto. unfold pyts_size in *. simpl in *. lia.
Qed.

Fixpoint tp1 (t : ty) : list pyt :=
  match t with
  | TSimple s => [PStr (cql_simple s)]
  | TList a => [PStr (lit "list"); PList (to_py true a)]
  | TSet a => [PStr (lit "set"); PList (to_py true a)]
  | TMap k v => [PStr (lit "map"); PList (to_py true k ++ to_py true v)]
  | TTuple ts => [PStr (lit "tuple"); PList (flat_map (to_py true) ts)]
  | TUdt _ name _ _ => [PStr name]
  | TVector a d => [PStr (lit "vector"); PList (to_py true a ++ [PStr d])]
  | TFrozen a => tp1 a
  | TReversed a => tp1 a
  end.

Lemma simple_not_frozen : forall s, str_eqb (cql_simple s) frozen_kw = false.
Proof. destruct s; reflexivity. Qed.

Lemma splice_ty : forall t, wf_cql t = true -> forall rest r, Splice rest r -> Splice (to_py true t ++ rest) (tp1 t ++ r).
Proof.
  intros t. induction t using ty_ind2; intros Hwf rest r Hr; cbn [to_py tp1 app].
  - apply Sp_str; auto using simple_not_frozen.
  - apply Sp_str; [reflexivity|]. apply Sp_list. assumption.
  - apply Sp_str; [reflexivity|]. apply Sp_list. assumption.
  - apply Sp_str; [reflexivity|]. apply Sp_list. assumption.
  - apply Sp_frozen. cbn [app]. apply Sp_str; [reflexivity|]. apply Sp_list. assumption.
  - apply Sp_frozen. cbn [app]. apply Sp_str; auto.
    simpl in Hwf. apply wf_name_not_frozen. assumption.
  - apply Sp_str; [reflexivity|]. apply Sp_list. assumption.
  - apply Sp_frozen. apply IHt; auto.
  - apply IHt; auto.
Qed.

Lemma splice_seq : forall ts, forallb wf_cql ts = true -> forall rest r, Splice rest r ->
  Splice (flat_map (to_py true) ts ++ rest) (flat_map tp1 ts ++ r).
Proof.
  induction ts as [|x l IH]; intros Hwf rest r Hr; [assumption|].
  simpl in Hwf. apply andb_true_iff in Hwf. destruct Hwf. cbn [flat_map]. rewrite <- !app_assoc.
  apply splice_ty; auto.
Qed.

Definition elemf (f : nat) (x : pyt) : option pyt :=
  match x with
  | PList i => match strip_py f i with Some i' => Some (PList i') | None => None end
  | PStr s => Some (PStr s)
  end.

Lemma strip_unfold : forall f l, strip_py (S f) l =
  match splice (S (pyts_size l)) l with None => None | Some l' => opt_all (map (elemf f) l') end.
Proof. reflexivity. Qed.

Lemma opt_all_app : forall {A} (a b : list (option A)) x y, opt_all a = Some x -> opt_all b = Some y -> opt_all (a ++ b) = Some (x ++ y).
Proof.
  induction a as [|[v|] a IH]; simpl; intros b x y Ha Hb.
  - inversion Ha. assumption.
  - destruct (opt_all a) eqn:E; [|discriminate]. inversion Ha. rewrite (IH b l y eq_refl Hb). reflexivity.
  - discriminate.
Qed.

Fixpoint ht (t : ty) : nat :=
  match t with
  | TSimple _ => 0
  | TList a | TSet a => S (ht a)
  | TMap k v => S (Nat.max (ht k) (ht v))
  | TTuple ts => S (fold_right (fun x n => Nat.max (ht x) n) 0 ts)
  | TUdt _ _ _ _ => 0
  | TVector a _ => S (ht a)
  | TFrozen a | TReversed a => ht a
  end.

Definition strip_elems_ok (t : ty) : Prop :=
  wf_cql t = true -> forall f, ht t <= f -> opt_all (map (elemf f) (tp1 t)) = Some (to_py false t).

(* a sequence of types followed by plain words *)
Lemma strip_seq : forall ts tail f, Forall strip_elems_ok ts -> forallb wf_cql ts = true ->
  Forall (fun t => ht t <= f) ts ->
  Forall (fun x => exists s, x = PStr s /\ str_eqb s frozen_kw = false) tail ->
  strip_py (S f) (flat_map (to_py true) ts ++ tail) = Some (flat_map (to_py false) ts ++ tail).
Proof.
  intros ts tail f HP Hwf Hht Htail. rewrite strip_unfold.
  assert (HS : Splice (flat_map (to_py true) ts ++ tail) (flat_map tp1 ts ++ tail)).
  { apply splice_seq; auto. clear -Htail. induction Htail as [|x l [s [Hx Hs]] Hl IH]; [constructor|]. subst. apply Sp_str; auto. }
  rewrite (splice_complete _ _ HS) by lia.
  rewrite map_app. apply opt_all_app.
  - clear HS Htail. induction HP as [|x l Hx Hl IH]; [reflexivity|].
    simpl in Hwf. apply andb_true_iff in Hwf. destruct Hwf as [Hwx Hwl]. inversion Hht; subst.
    cbn [flat_map]. rewrite map_app. apply opt_all_app; auto.
  - clear -Htail. induction Htail as [|x l [s [Hx Hs]] Hl IH]; [reflexivity|]. subst. simpl. simpl in IH. rewrite IH. reflexivity.
Qed.

Lemma strip_one : forall a f, strip_elems_ok a -> wf_cql a = true -> ht a <= f ->
  strip_py (S f) (to_py true a) = Some (to_py false a).
Proof.
  intros a f HP Hwf Hht.
  pose proof (strip_seq [a] [] f) as H. cbn [flat_map] in H. rewrite !app_nil_r in H. apply H; auto.
  simpl. rewrite Hwf. reflexivity.
Qed.

Lemma fold_max_le : forall ts f, fold_right (fun x n => Nat.max (ht x) n) 0 ts <= f -> Forall (fun t => ht t <= f) ts.
Proof. induction ts; intros f H; constructor; simpl in H; [lia|apply IHts; lia]. Qed.

Lemma strip_elems_ty : forall t, strip_elems_ok t.
Proof.
  intros t. induction t using ty_ind2; unfold strip_elems_ok; intros Hwf f Hf; cbn [tp1 to_py map elemf opt_all].
  - reflexivity.
  - simpl in Hf. destruct f as [|f]; [lia|]. rewrite strip_one; auto. lia.
  - simpl in Hf. destruct f as [|f]; [lia|]. rewrite strip_one; auto. lia.
  - simpl in Hf. destruct f as [|f]; [lia|]. simpl in Hwf. apply andb_true_iff in Hwf. destruct Hwf as [Hk Hv].
    pose proof (strip_seq [t1; t2] [] f) as H. cbn [flat_map] in H. rewrite !app_nil_r in H. rewrite H; auto.
    + simpl. rewrite Hk, Hv. reflexivity.
    + repeat constructor; lia.
  - simpl in Hf. destruct f as [|f]; [lia|]. simpl in Hwf.
    pose proof (strip_seq ts [] f) as H0. rewrite !app_nil_r in H0. rewrite H0; auto.
    apply fold_max_le. lia.
  - reflexivity.
  - simpl in Hf. destruct f as [|f]; [lia|]. simpl in Hwf. apply andb_true_iff in Hwf. destruct Hwf as [Ha Hd].
    pose proof (strip_seq [t] [PStr d] f) as H. cbn [flat_map] in H. rewrite !app_nil_r in H. rewrite H; auto.
    + simpl. rewrite Ha. reflexivity.
    + repeat constructor; lia.
    + constructor; [|constructor]. exists d. split; auto.
      unfold wf_dim in Hd. destruct d as [|c d]; [discriminate|]. simpl in Hd.
      apply andb_true_iff in Hd. destruct Hd as [Hd _]. apply andb_true_iff in Hd. destruct Hd as [Hd _].
      simpl. destruct (Ascii.eqb_spec c "f"%char); auto. subst. discriminate.
  - apply IHt; auto.
  - apply IHt; auto.
Qed.

Lemma ht_le_size : forall t, ht t <= pyts_size (to_py true t).
Proof.
  intros t. induction t using ty_ind2; unfold pyts_size in *; cbn [ht to_py fold_right pyt_size]; try lia.
  - rewrite fold_right_app. fold (pyts_size (to_py true t2)). 
    change (fold_right (fun x n => pyt_size x + n) (pyts_size (to_py true t2)) (to_py true t1))
      with (fold_right (fun x n => pyt_size x + n) (fold_right (fun x n => pyt_size x + n) 0 (to_py true t2)) (to_py true t1)).
    rewrite <- fold_right_app. fold (pyts_size (to_py true t1 ++ to_py true t2)). rewrite pyts_size_app. unfold pyts_size. lia.
  - assert (E : fold_right (fun x n => Nat.max (ht x) n) 0 ts <= fold_right (fun x n => pyt_size x + n) 0 (flat_map (to_py true) ts)).
    { induction H as [|x l Hx Hl IH]; simpl; [lia|]. fold (pyts_size (to_py true x ++ flat_map (to_py true) l)).
      rewrite pyts_size_app. unfold pyts_size. lia. }
    lia.
  - fold (pyts_size (to_py true t ++ [PStr d])). rewrite pyts_size_app. unfold pyts_size. simpl. lia.
Qed.

Theorem strip_to_py : forall t, wf_cql t = true -> strip_frozen_from_python (to_py true t) = Some (to_py false t).
Proof.
  intros t Hwf. unfold strip_frozen_from_python. apply strip_one; auto using strip_elems_ty, ht_le_size.
Qed.

(* ------------------------------------------------------------------ cqltype_to_python: the scanner on printed CQL names *)
Definition LT : str := lit "<".
Definition GT : str := lit ">".
Definition CM : str := lit ",".
Definition is_cword (w : str) : bool := forallb is_alnum_ w.

Lemma alnum_cword : forall c, is_alnum_ c = true -> cql_class c = KWord /\ (code c =? 34)%N = false.
Proof. intros c. destruct c as [[] [] [] [] [] [] [] []]; vm_compute; intros; split; congruence. Qed.

Lemma cl_word : forall w rest acc, is_cword w = true -> cql_lex (w ++ rest) acc None = cql_lex rest (acc ++ w) None.
Proof.
  induction w as [|c w IH]; intros rest acc H.
  - simpl. rewrite app_nil_r. reflexivity.
  - simpl in H. apply andb_true_iff in H. destruct H as [Hc Hw]. destruct (alnum_cword _ Hc) as [H1 H2].
    cbn [app cql_lex]. rewrite H2, H1. rewrite IH by assumption. rewrite <- app_assoc. reflexivity.
Qed.

Definition cdelim (rest : str) : Prop :=
  match rest with
  | [] => True
  | c :: _ => (code c =? 34)%N = false /\ (cql_class c = KPunct \/ cql_class c = KSkip)
  end.

Lemma cl_flush : forall rest acc r, cdelim rest -> acc <> [] -> cql_lex rest [] None = Some r -> cql_lex rest acc None = Some (acc :: r).
Proof.
  intros rest acc r D Hacc H. destruct rest as [|c rest]; cbn [cql_lex] in *.
  - inversion H. destruct acc; [contradiction|reflexivity].
  - destruct D as [Hq [D|D]]; rewrite Hq, D in *.
    + destruct (cql_lex rest [] None); try discriminate. inversion H. destruct acc; [contradiction|reflexivity].
    + destruct (cql_lex rest [] None); try discriminate. inversion H. destruct acc; [contradiction|reflexivity].
Qed.

Lemma cl_word_delim : forall w rest r, is_cword w = true -> w <> [] -> cdelim rest ->
  cql_lex rest [] None = Some r -> cql_lex (w ++ rest) [] None = Some (w :: r).
Proof. intros. rewrite cl_word by assumption. apply cl_flush; assumption. Qed.

Lemma cl_lt : forall rest r, cql_lex rest [] None = Some r -> cql_lex (lit "<" ++ rest) [] None = Some (LT :: r).
Proof. intros rest r H. change (lit "<" ++ rest) with ("<"%char :: rest). cbn [cql_lex]. simpl. rewrite H. reflexivity. Qed.
Lemma cl_gt : forall rest r, cql_lex rest [] None = Some r -> cql_lex (lit ">" ++ rest) [] None = Some (GT :: r).
Proof. intros rest r H. change (lit ">" ++ rest) with (">"%char :: rest). cbn [cql_lex]. simpl. rewrite H. reflexivity. Qed.

Definition sep_ok (sep : str) : Prop := sep = comma \/ sep = comma_sp.

Lemma cl_sep : forall sep rest r, sep_ok sep -> cql_lex rest [] None = Some r -> cql_lex (sep ++ rest) [] None = Some (CM :: r).
Proof.
  intros sep rest r [E|E] H; subst.
  - change (comma ++ rest) with (","%char :: rest). cbn [cql_lex]. simpl. rewrite H. reflexivity.
  - change (comma_sp ++ rest) with (","%char :: " "%char :: rest). cbn [cql_lex]. simpl. rewrite H. reflexivity.
Qed.

Lemma cdelim_sep : forall sep rest, sep_ok sep -> cdelim (sep ++ rest).
Proof. intros sep rest [E|E]; subst; simpl; split; auto. Qed.
Lemma cdelim_gt : forall rest, cdelim (lit ">" ++ rest).
Proof. intros. simpl. split; auto. Qed.
Lemma cdelim_lt : forall rest, cdelim (lit "<" ++ rest).
Proof. intros. simpl. split; auto. Qed.

Lemma qsafe_not_dq : forall c, qsafe c = true -> (code c =? 34)%N = false.
Proof.
  intros c H. unfold qsafe in H. repeat (apply andb_true_iff in H; destruct H as [H _]). apply negb_true_iff in H. assumption.
Qed.

Lemma cl_inq : forall q rest q0 r, forallb qsafe q = true -> cql_lex rest [] None = Some r ->
  cql_lex (q ++ dq :: rest) [] (Some q0) = Some ((dq :: (q0 ++ q) ++ [dq]) :: r).
Proof.
  induction q as [|c q IH]; intros rest q0 r Hq H.
  - cbn [app cql_lex]. change (code dq =? 34)%N with true. cbn iota. rewrite H. rewrite app_nil_r. reflexivity.
  - simpl in Hq. apply andb_true_iff in Hq. destruct Hq as [Hc Hq].
    cbn [app cql_lex]. rewrite (qsafe_not_dq _ Hc), Hc. etransitivity; [exact (IH rest (q0 ++ [c]) r Hq H)|].
    replace ((q0 ++ [c]) ++ q) with (q0 ++ c :: q) by (rewrite <- app_assoc; reflexivity). reflexivity.
Qed.

Lemma cl_quoted : forall q rest r, forallb qsafe q = true -> cql_lex rest [] None = Some r ->
  cql_lex ((dq :: q ++ [dq]) ++ rest) [] None = Some ((dq :: q ++ [dq]) :: r).
Proof.
  intros q rest r Hq H. cbn [app cql_lex]. change (code dq =? 34)%N with true. cbn iota.
  rewrite <- app_assoc. cbn [app]. pose proof (cl_inq q rest [] r Hq H) as E. cbn [app] in E.
  match goal with |- match ?X with _ => _ end = _ => replace X with (Some ((dq :: q ++ [dq]) :: r)) by (symmetry; exact E) end. reflexivity.
Qed.

Lemma cl_name : forall n rest r, wf_cql_name n = true -> cdelim rest -> cql_lex rest [] None = Some r ->
  cql_lex (n ++ rest) [] None = Some (n :: r).
Proof.
  intros n rest r Hn D H. destruct (wf_name_cases n Hn) as [(H1 & H2 & _)|[q [E Hq]]].
  - apply cl_word_delim; auto.
  - subst. apply cl_quoted; auto.
Qed.

Fixpoint sepj (l : list (list str)) : list str :=
  match l with
  | [] => []
  | [x] => x
  | x :: l' => x ++ CM :: sepj l'
  end.

Fixpoint ctoks (fz : bool) (t : ty) : list str :=
  let wrap (x : list str) := if fz then frozen_kw :: LT :: x ++ [GT] else x in
  match t with
  | TSimple s => [cql_simple s]
  | TList a => lit "list" :: LT :: ctoks fz a ++ [GT]
  | TSet a => lit "set" :: LT :: ctoks fz a ++ [GT]
  | TMap k v => lit "map" :: LT :: ctoks fz k ++ CM :: ctoks fz v ++ [GT]
  | TTuple ts => wrap (lit "tuple" :: LT :: sepj (map (ctoks fz) ts) ++ [GT])
  | TUdt _ n _ _ => wrap [n]
  | TVector a d => lit "vector" :: LT :: ctoks fz a ++ CM :: d :: [GT]
  | TFrozen a => wrap (ctoks fz a)
  | TReversed a => ctoks fz a
  end.

Section CqlLex.
  Variable sep : str.
  Variable fz : bool.
  Hypothesis Hsep : sep_ok sep.

  Definition nm (t : ty) : str := cql_name_gen (lit "vector") sep fz t.

  Definition clex_ok (t : ty) : Prop :=
    wf_cql t = true -> forall rest r, cdelim rest -> cql_lex rest [] None = Some r ->
    cql_lex (nm t ++ rest) [] None = Some (ctoks fz t ++ r).

  Lemma cl_kw : forall kw body R, is_cword kw = true -> kw <> [] -> cql_lex body [] None = Some R ->
    cql_lex (kw ++ lit "<" ++ body) [] None = Some (kw :: LT :: R).
  Proof. intros kw body R Hk Hn HB. apply (cl_word_delim kw (lit "<" ++ body) (LT :: R)); auto; [apply cdelim_lt|apply cl_lt; assumption]. Qed.

  Lemma cl_unary : forall kw a, is_cword kw = true -> kw <> [] -> clex_ok a -> wf_cql a = true ->
    forall rest r, cdelim rest -> cql_lex rest [] None = Some r ->
    cql_lex (((kw ++ lit "<") ++ nm a ++ lit ">") ++ rest) [] None = Some ((kw :: LT :: ctoks fz a ++ [GT]) ++ r).
  Proof.
    intros kw a Hk Hn IH Hwf rest r D H. rewrite <- !app_assoc.
    change ((kw :: LT :: ctoks fz a ++ [GT]) ++ r) with (kw :: LT :: (ctoks fz a ++ [GT]) ++ r). rewrite <- app_assoc.
    apply cl_kw; auto. apply IH; auto using cdelim_gt. apply cl_gt. assumption.
  Qed.

  Lemma cl_wrap : forall (x : str) (xt : list str),
    (forall rest r, cdelim rest -> cql_lex rest [] None = Some r -> cql_lex (x ++ rest) [] None = Some (xt ++ r)) ->
    forall rest r, cdelim rest -> cql_lex rest [] None = Some r ->
    cql_lex ((if fz then lit "frozen<" ++ x ++ lit ">" else x) ++ rest) [] None
    = Some ((if fz then frozen_kw :: LT :: xt ++ [GT] else xt) ++ r).
  Proof.
    intros x xt Hx rest r D H. destruct fz; [|apply Hx; assumption].
    change (lit "frozen<") with (frozen_kw ++ lit "<"). rewrite <- !app_assoc.
    change ((frozen_kw :: LT :: xt ++ [GT]) ++ r) with (frozen_kw :: LT :: (xt ++ [GT]) ++ r). rewrite <- app_assoc.
    apply cl_kw; try reflexivity; try discriminate. apply Hx; auto using cdelim_gt. apply cl_gt. assumption.
  Qed.

  Lemma cl_list : forall ts, Forall clex_ok ts -> forallb wf_cql ts = true -> forall rest r, cql_lex rest [] None = Some r ->
    cql_lex (join sep (map nm ts) ++ lit ">" ++ rest) [] None = Some (sepj (map (ctoks fz) ts) ++ GT :: r).
  Proof.
    intros ts H. induction H as [|x l Hx Hl IH]; intros Hwf rest r Hr.
    - simpl. apply cl_gt. assumption.
    - simpl in Hwf. apply andb_true_iff in Hwf. destruct Hwf as [Hwx Hwl]. destruct l as [|y l'].
      + cbn [map join sepj]. apply Hx; [assumption|apply cdelim_gt|apply cl_gt; assumption].
      + change (join sep (map nm (x :: y :: l'))) with (nm x ++ sep ++ join sep (map nm (y :: l'))).
        change (sepj (map (ctoks fz) (x :: y :: l'))) with (ctoks fz x ++ CM :: sepj (map (ctoks fz) (y :: l'))).
        rewrite <- !app_assoc. apply Hx; [assumption|apply cdelim_sep; assumption|].
        cbn [app]. apply cl_sep; auto.
  Qed.

  Lemma simple_cword : forall s, is_cword (cql_simple s) = true /\ cql_simple s <> [].
  Proof. destruct s; split; try reflexivity; discriminate. Qed.

  Lemma clex_ty : forall t, clex_ok t.
  Proof.
    apply ty_ind2; unfold clex_ok, nm.
    - intros s _ rest r D H. cbn [cql_name_gen ctoks]. destruct (simple_cword s). apply cl_word_delim; auto.
    - intros a IH Hwf rest r D H. cbn [cql_name_gen ctoks]. change (lit "list<") with (lit "list" ++ lit "<").
      apply cl_unary; auto; try reflexivity. discriminate.
    - intros a IH Hwf rest r D H. cbn [cql_name_gen ctoks]. change (lit "set<") with (lit "set" ++ lit "<").
      apply cl_unary; auto; try reflexivity. discriminate.
    - intros k v IHk IHv Hwf rest r D H. cbn [cql_name_gen ctoks]. simpl in Hwf. apply andb_true_iff in Hwf. destruct Hwf as [Hk Hv].
      change (lit "map<") with (lit "map" ++ lit "<"). rewrite <- !app_assoc.
      change ((lit "map" :: LT :: ctoks fz k ++ CM :: ctoks fz v ++ [GT]) ++ r)
        with (lit "map" :: LT :: (ctoks fz k ++ CM :: ctoks fz v ++ [GT]) ++ r).
      apply cl_kw; try reflexivity; try discriminate.
      rewrite <- app_assoc. apply IHk; auto using cdelim_sep. cbn [app]. apply cl_sep; auto.
      rewrite <- app_assoc. apply IHv; auto using cdelim_gt. apply cl_gt. assumption.
    - intros ts IH Hwf rest r D H. cbn [cql_name_gen ctoks]. simpl in Hwf.
      apply cl_wrap; auto. intros rest' r' D' H'.
      change (lit "tuple<") with (lit "tuple" ++ lit "<"). rewrite <- !app_assoc.
      change ((lit "tuple" :: LT :: sepj (map (ctoks fz) ts) ++ [GT]) ++ r')
        with (lit "tuple" :: LT :: (sepj (map (ctoks fz) ts) ++ [GT]) ++ r').
      apply cl_kw; try reflexivity; try discriminate. rewrite <- app_assoc. apply cl_list; auto.
    - intros ks n fn ft IH Hwf rest r D H. cbn [cql_name_gen ctoks]. simpl in Hwf.
      apply cl_wrap; auto. intros rest' r' D' H'. apply cl_name; auto.
    - intros a d IH Hwf rest r D H. cbn [cql_name_gen ctoks]. simpl in Hwf. apply andb_true_iff in Hwf. destruct Hwf as [Ha Hd].
      change (lit "vector" ++ lit "<" ++ cql_name_gen (lit "vector") sep fz a ++ sep ++ d ++ lit ">")
        with (lit "vector" ++ lit "<" ++ nm a ++ sep ++ d ++ lit ">").
      rewrite <- !app_assoc.
      change ((lit "vector" :: LT :: ctoks fz a ++ CM :: [d; GT]) ++ r)
        with (lit "vector" :: LT :: (ctoks fz a ++ CM :: [d; GT]) ++ r).
      apply cl_kw; try reflexivity; try discriminate.
      rewrite <- app_assoc. apply IH; auto using cdelim_sep. cbn [app]. apply cl_sep; auto.
      unfold wf_dim in Hd. apply andb_true_iff in Hd. destruct Hd as [Hd _]. apply andb_true_iff in Hd. destruct Hd as [Hd1 Hd2].
      apply cl_word_delim; auto using cdelim_gt.
      + apply digit_alnum. assumption.
      + intros E. subst. discriminate.
      + apply cl_gt. assumption.
    - intros a IH Hwf rest r D H. cbn [cql_name_gen ctoks]. apply cl_wrap; auto; intros; apply IH; auto.
    - intros a IH Hwf rest r D H. cbn [cql_name_gen ctoks]. apply IH; auto.
  Qed.
End CqlLex.

(* ------------------------------------------------------------------ cqltype_to_python: literal_eval of the scanned tokens *)
Definition is_name_tok (tok : str) : Prop := str_eqb tok LT = false /\ str_eqb tok GT = false /\ str_eqb tok CM = false.

Lemma py_word : forall tok rest st top stack, is_name_tok tok -> st <> AfterElem ->
  py_run (tok :: rest) st (top :: stack) = py_run rest AfterElem ((PStr tok :: top) :: stack).
Proof.
  intros tok rest st top stack (H1 & H2 & H3) Hst. unfold LT, GT, CM in *. cbn [py_run]. rewrite H1, H2, H3.
  destruct st; [contradiction| |]; reflexivity.
Qed.

Lemma py_lt : forall rest stack, py_run (LT :: rest) AfterElem stack = py_run rest AtStart ([] :: stack).
Proof. reflexivity. Qed.
Lemma py_cm : forall rest stack, py_run (CM :: rest) AfterElem stack = py_run rest AfterComma stack.
Proof. reflexivity. Qed.
Lemma py_gt : forall rest st inner outer stack, st <> AfterComma ->
  py_run (GT :: rest) st (inner :: outer :: stack) = py_run rest AfterElem ((PList (rev inner) :: outer) :: stack).
Proof. intros rest st inner outer stack H. destruct st; [reflexivity|contradiction|reflexivity]. Qed.

Lemma name_tok_first : forall c w, (code c =? 60)%N = false -> (code c =? 62)%N = false -> (code c =? 44)%N = false -> is_name_tok (c :: w).
Proof.
  intros c w H1 H2 H3. repeat split; simpl.
  - destruct (Ascii.eqb_spec c "<"%char); [subst; discriminate|reflexivity].
  - destruct (Ascii.eqb_spec c ">"%char); [subst; discriminate|reflexivity].
  - destruct (Ascii.eqb_spec c ","%char); [subst; discriminate|reflexivity].
Qed.

Lemma alnum_not_punct : forall c, is_alnum_ c = true -> (code c =? 60)%N = false /\ (code c =? 62)%N = false /\ (code c =? 44)%N = false.
Proof. intros c. destruct c as [[] [] [] [] [] [] [] []]; vm_compute; intros; repeat split; congruence. Qed.

Lemma cword_name_tok : forall w, is_cword w = true -> w <> [] -> is_name_tok w.
Proof.
  intros w H Hn. destruct w as [|c w]; [contradiction|]. simpl in H. apply andb_true_iff in H. destruct H as [Hc _].
  destruct (alnum_not_punct _ Hc) as (H1 & H2 & H3). apply name_tok_first; assumption.
Qed.

Lemma wf_name_tok : forall n, wf_cql_name n = true -> is_name_tok n.
Proof.
  intros n H. destruct (wf_name_cases n H) as [(H1 & H2 & _)|[q [E _]]].
  - apply cword_name_tok; assumption.
  - subst. apply name_tok_first; reflexivity.
Qed.

Section PyRun.
  Variable fz : bool.

  Definition pyrun_ok (t : ty) : Prop :=
    wf_cql t = true -> forall rest st top stack, st <> AfterElem ->
    py_run (ctoks fz t ++ rest) st (top :: stack) = py_run rest AfterElem ((rev (to_py fz t) ++ top) :: stack).

  Lemma py_unary : forall kw a, is_name_tok kw -> pyrun_ok a -> wf_cql a = true ->
    forall rest st top stack, st <> AfterElem ->
    py_run ((kw :: LT :: ctoks fz a ++ [GT]) ++ rest) st (top :: stack)
    = py_run rest AfterElem ((PList (to_py fz a) :: PStr kw :: top) :: stack).
  Proof.
    intros kw a Hk IH Hwf rest st top stack Hst. cbn [app]. rewrite py_word by assumption. rewrite py_lt.
    rewrite <- app_assoc. rewrite IH by (auto; discriminate). cbn [app]. rewrite py_gt by discriminate.
    rewrite app_nil_r, rev_involutive. reflexivity.
  Qed.

  Lemma py_wrap : forall (xt : list str) (x : list pyt),
    (forall rest st top stack, st <> AfterElem -> py_run (xt ++ rest) st (top :: stack) = py_run rest AfterElem ((rev x ++ top) :: stack)) ->
    forall rest st top stack, st <> AfterElem ->
    py_run ((if fz then frozen_kw :: LT :: xt ++ [GT] else xt) ++ rest) st (top :: stack)
    = py_run rest AfterElem ((rev (if fz then [PStr frozen_kw; PList x] else x) ++ top) :: stack).
  Proof.
    intros xt x Hx rest st top stack Hst. destruct fz; [|apply Hx; assumption].
    cbn [app]. rewrite py_word; [|repeat split; reflexivity|assumption]. rewrite py_lt.
    rewrite <- app_assoc. rewrite Hx by discriminate. cbn [app]. rewrite py_gt by discriminate.
    rewrite app_nil_r, rev_involutive. reflexivity.
  Qed.

  Lemma py_seq : forall ts, Forall pyrun_ok ts -> forallb wf_cql ts = true -> ts <> [] ->
    forall rest st top stack, st <> AfterElem ->
    py_run (sepj (map (ctoks fz) ts) ++ rest) st (top :: stack) = py_run rest AfterElem ((rev (flat_map (to_py fz) ts) ++ top) :: stack).
  Proof.
    intros ts H. induction H as [|x l Hx Hl IH]; intros Hwf Hne rest st top stack Hst; [contradiction|].
    simpl in Hwf. apply andb_true_iff in Hwf. destruct Hwf as [Hwx Hwl]. destruct l as [|y l'].
    - cbn [map sepj flat_map]. rewrite app_nil_r. apply Hx; assumption.
    - change (sepj (map (ctoks fz) (x :: y :: l'))) with (ctoks fz x ++ CM :: sepj (map (ctoks fz) (y :: l'))).
      rewrite <- app_assoc. rewrite Hx by assumption. cbn [app]. rewrite py_cm.
      rewrite IH; [|assumption|discriminate|discriminate].
      change (flat_map (to_py fz) (x :: y :: l')) with (to_py fz x ++ flat_map (to_py fz) (y :: l')).
      rewrite rev_app_distr. rewrite <- app_assoc. reflexivity.
  Qed.

  Lemma simple_name_tok : forall s, is_name_tok (cql_simple s).
  Proof. destruct s; repeat split; reflexivity. Qed.

  Lemma pyrun_ty : forall t, pyrun_ok t.
  Proof.
    apply ty_ind2; unfold pyrun_ok.
    - intros s _ rest st top stack Hst. cbn [ctoks to_py app rev]. apply py_word; auto using simple_name_tok.
    - intros a IH Hwf rest st top stack Hst. cbn [ctoks to_py]. rewrite py_unary; auto. repeat split; reflexivity.
    - intros a IH Hwf rest st top stack Hst. cbn [ctoks to_py]. rewrite py_unary; auto. repeat split; reflexivity.
    - intros k v IHk IHv Hwf rest st top stack Hst. cbn [ctoks to_py]. simpl in Hwf. apply andb_true_iff in Hwf. destruct Hwf as [Hk Hv].
      cbn [app]. rewrite py_word; [|repeat split; reflexivity|assumption]. rewrite py_lt.
      rewrite <- app_assoc. rewrite IHk by (auto; discriminate). cbn [app]. rewrite py_cm.
      rewrite <- app_assoc. rewrite IHv by (auto; discriminate). cbn [app]. rewrite py_gt by discriminate.
      rewrite app_nil_r. rewrite rev_app_distr, !rev_involutive. reflexivity.
    - intros ts IH Hwf rest st top stack Hst. cbn [ctoks to_py]. simpl in Hwf.
      apply py_wrap; auto. intros rest' st' top' stack' Hst'.
      cbn [app]. rewrite py_word; [|repeat split; reflexivity|assumption]. rewrite py_lt.
      destruct ts as [|x l].
      + cbn [map sepj app flat_map]. rewrite py_gt by discriminate. reflexivity.
      + rewrite <- app_assoc. rewrite py_seq; [|assumption|assumption|discriminate|discriminate].
        cbn [app]. rewrite py_gt by discriminate. rewrite app_nil_r, rev_involutive. reflexivity.
    - intros ks n fn ft IH Hwf rest st top stack Hst. cbn [ctoks to_py]. simpl in Hwf.
      apply py_wrap; auto. intros rest' st' top' stack' Hst'. cbn [app rev]. apply py_word; auto using wf_name_tok.
    - intros a d IH Hwf rest st top stack Hst. cbn [ctoks to_py]. simpl in Hwf. apply andb_true_iff in Hwf. destruct Hwf as [Ha Hd].
      cbn [app]. rewrite py_word; [|repeat split; reflexivity|assumption]. rewrite py_lt.
      rewrite <- app_assoc. rewrite IH by (auto; discriminate). cbn [app]. rewrite py_cm.
      rewrite py_word; [| |discriminate].
      2:{ unfold wf_dim in Hd. apply andb_true_iff in Hd. destruct Hd as [Hd _]. apply andb_true_iff in Hd. destruct Hd as [Hd1 Hd2].
          apply cword_name_tok; [apply digit_alnum; assumption|intros E; subst; discriminate]. }
      rewrite py_gt by discriminate. rewrite app_nil_r.
      change (PStr d :: rev (to_py fz a)) with (rev [PStr d] ++ rev (to_py fz a)). rewrite <- rev_app_distr, rev_involutive. reflexivity.
    - intros a IH Hwf rest st top stack Hst. cbn [ctoks to_py]. apply py_wrap; auto.
    - intros a IH Hwf rest st top stack Hst. cbn [ctoks to_py]. apply IH; auto.
  Qed.
End PyRun.

Theorem parse_cql_name : forall sep fz t, sep_ok sep -> wf_cql t = true ->
  cqltype_to_python (cql_name_gen (lit "vector") sep fz t) = Some (to_py fz t).
Proof.
  intros sep fz t Hsep Hwf. unfold cqltype_to_python.
  pose proof (clex_ty sep fz Hsep t Hwf [] [] I eq_refl) as HL. unfold nm in HL. rewrite !app_nil_r in HL. rewrite HL.
  pose proof (pyrun_ty fz t Hwf [] AtStart [] [] ltac:(discriminate)) as HR. rewrite !app_nil_r in HR.
  etransitivity; [exact HR|]. simpl. rewrite rev_involutive. reflexivity.
Qed.

Theorem strip_frozen_name : forall sep t, sep_ok sep -> wf_cql t = true ->
  strip_frozen (cql_name_gen (lit "vector") sep true t) = Some (cname false t).
Proof.
  intros sep t Hsep Hwf. unfold strip_frozen. rewrite parse_cql_name by assumption.
  rewrite strip_to_py by assumption. rewrite print_to_py. reflexivity.
Qed.

(* ------------------------------------------------------------------ codec routing through the wrappers *)
Lemma codec_unwrap : forall t, codec (unwrap t) = codec t.
Proof. induction t using ty_ind2; simpl; auto. Qed.

Lemma route_parsed : forall t des pv, route des (parsed t) pv = (parsed (unwrap t), pv).
Proof.
  intros t. induction t using ty_ind2; intros des pv; try reflexivity.
  - cbn [parsed unwrap]. destruct ts as [|x [|y l]]; reflexivity.
  - cbn [parsed unwrap route]. change (is_wrapper (lit "FrozenType")) with true. cbn iota.
    destruct des; apply IHt.
  - cbn [parsed unwrap route]. change (is_wrapper (lit "ReversedType")) with true. cbn iota.
    destruct des; apply IHt.
Qed.

Lemma size_route_parsed : forall t, size_route (parsed t) = parsed (unwrap t).
Proof.
  intros t. induction t using ty_ind2; try reflexivity.
  - cbn [parsed unwrap]. destruct ts as [|x [|y l]]; reflexivity.
  - cbn [parsed unwrap size_route]. change (is_wrapper (lit "FrozenType") && wrapper_size_delegates (lit "FrozenType")) with true. cbn iota. apply IHt.
  - cbn [parsed unwrap size_route]. change (is_wrapper (lit "ReversedType") && wrapper_size_delegates (lit "ReversedType")) with true. cbn iota. apply IHt.
Qed.
