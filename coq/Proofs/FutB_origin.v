(* Where messages and executor tasks come from (origin lemmas shared by C16/C17/C19). *)
From Coq Require Import ZArith List Bool Lia.
From Verif Require Import PyBase FutbProto FutB FutB_lemmas FutB_steps.
Import ListNotations.
Local Open Scope Z_scope.

Lemma in_sent_hosts h m c ev : In (Sent h m c) ev -> In h (sent_hosts ev).
Proof.
  induction ev as [|e ev IH]; cbn; [auto|]. intros [->|H].
  - cbn. auto.
  - apply in_app_iff. right. auto.
Qed.

Lemma walk_sent_cplan p s b s' ev h m c : walk s p b = (s', ev) -> In (Sent h m c) ev ->
  c = CPlan /\ m = MOrig (msg_cl s) /\ pool_of s h = PHealthy.
Proof.
  intros W Hin. apply walk_walked in W.
  destruct W as [sk h0 rest Hp Hsk Hh Hplan Hcons Hev Hatt Hexc Harm | Hsk Hplan Hcons Hev Hatt Hexc Harm
                | sk rest Hp Hne Hsk Hplan Hcons Hev Hatt Hel Hexc Harm];
    rewrite Hev in Hin.
  - apply in_app_iff in Hin. destruct Hin as [Hin|[Hin|[]]].
    + apply in_map_iff in Hin. destruct Hin as (y & Hy & _). discriminate.
    + inversion Hin; subst. auto.
  - apply in_map_iff in Hin. destruct Hin as (y & Hy & _). discriminate.
  - apply in_map_iff in Hin. destruct Hin as (y & Hy & _). discriminate.
Qed.

(* a plan-walk message: the original request *)
Definition plan_msg (m : mkind) (c : cause) : Prop := c = CPlan /\ exists cl, m = MOrig cl.

Lemma walk_sent_planmsg p s b s' ev h m c : walk s p b = (s', ev) -> In (Sent h m c) ev -> plan_msg m c.
Proof. intros W Hin. destruct (walk_sent_cplan _ _ _ _ _ _ _ _ W Hin) as (A & B & _). split; [exact A|eexists; exact B]. Qed.

Lemma query_sent s h m c s' ev ok h' m' c' : query s h m c = (s', ev, ok) -> In (Sent h' m' c') ev ->
  h' = h /\ m' = m /\ c' = c /\ pool_of s h = PHealthy.
Proof.
  rewrite query_eq. destruct (reason (pool_of s h)) eqn:R; intros H Hin; inversion H; subst; destruct Hin as [Hin|[]].
  - discriminate.
  - inversion Hin; subst. apply reason_healthy in R. auto.
Qed.

Lemma qon_sent s h m c s' ev h' m' c' : query_or_next s h m c = (s', ev) -> In (Sent h' m' c') ev ->
  (h' = h /\ m' = m /\ c' = c /\ pool_of s h = PHealthy) \/ plan_msg m' c'.
Proof.
  unfold query_or_next. intros H Hin. destruct (query s h m c) as [[s1 ev1] ok] eqn:Q.
  destruct ok.
  - inversion H; subst. left. eapply query_sent; eauto.
  - destruct (send_request s1 true) as [s2 ev2] eqn:W. inversion H; subst.
    apply in_app_iff in Hin. destruct Hin as [Hin|Hin].
    + left. eapply query_sent; eauto.
    + right. unfold send_request in W. eapply walk_sent_planmsg; eauto.
Qed.

Lemma set_result_no_sent c s h r s' ev h' m' c' : set_result c s h r = (s', ev) -> ~ In (Sent h' m' c') ev.
Proof.
  intros H Hin. destruct (set_result_pre c s s h r s' ev (pre_refl s h) H) as (_ & _ & E).
  apply in_sent_hosts in Hin. rewrite E in Hin. exact Hin.
Qed.

(* which message a task may send besides plan sends *)
Definition task_sends (s : state) (t : task) (h : host) (m : mkind) (c : cause) : Prop :=
  match t with
  | TRetry true h0 => h = h0 /\ m = MOrig (msg_cl s) /\ c = CRetrySame
  | TRetry false _ => False
  | TReprepare h0 qs ks => h = h0 /\ m = MPrepare qs ks /\ c = CReprepare
  | TAfterPrepare h0 (RPrepared _) => h = h0 /\ m = MOrig (msg_cl s) /\ c = CResend
  | TAfterPrepare _ _ => False
  end.

Lemma after_prepare_sent c s h r s' ev h' m' c' : after_prepare c s h r = (s', ev) -> In (Sent h' m' c') ev ->
  plan_msg m' c' \/ (task_sends s (TAfterPrepare h r) h' m' c' /\ pool_of s h = PHealthy).
Proof.
  unfold after_prepare. intros H Hin.
  destruct (is_some (fin_exc s)); [inversion H; subst; destruct Hin|].
  destruct r; try (inversion H; subst; destruct Hin; fail).
  - assert (G : forall s2 e2, query_or_next s h (MOrig (msg_cl s)) CResend = (s2, e2) -> In (Sent h' m' c') e2 ->
                plan_msg m' c' \/ (task_sends s (TAfterPrepare h (RPrepared id)) h' m' c' /\ pool_of s h = PHealthy)).
    { intros s2 e2 Q Hi. destruct (qon_sent _ _ _ _ _ _ _ _ _ Q Hi) as [(E1 & E2 & E3 & Hp)|E4]; subst; cbn; auto. }
    destruct (fut_ps c) as [[[pid pqs] pks]|].
    + destruct (negb (pid =? id)); [inversion H; subst; destruct Hin|]. eapply G; eauto.
    + eapply G; eauto.
  - destruct (is_conn_kind k).
    + destruct (send_request (set_err s h (EResp k tag)) true) as [s2 ev2] eqn:W. inversion H; subst.
      destruct Hin as [Hin|Hin]; [discriminate|]. left.
      unfold send_request in W. eapply walk_sent_planmsg; eauto.
    + inversion H; subst. destruct Hin.
Qed.

Lemma run_task_sent c s t s' ev h' m' c' : run_task c s t = (s', ev) -> In (Sent h' m' c') ev ->
  plan_msg m' c' \/ (task_sends s t h' m' c' /\ pool_of s (task_host t) = PHealthy).
Proof.
  intros H Hin. destruct t as [reuse h|h qs ks|h r]; cbn [run_task] in H.
  - destruct (is_some (fin_exc s)); [inversion H; subst; destruct Hin|].
    destruct reuse.
    + destruct (qon_sent _ _ _ _ _ _ _ _ _ H Hin) as [(E1 & E2 & E3 & Hp)|E4]; subst; cbn; auto.
    + left. unfold send_request in H. eapply walk_sent_planmsg; eauto.
  - destruct (qon_sent _ _ _ _ _ _ _ _ _ H Hin) as [(E1 & E2 & E3 & Hp)|E4]; subst; cbn; auto.
  - eapply after_prepare_sent; eauto.
Qed.

Lemma spec_fire_sent s s' ev h m c : spec_fire s = (s', ev) -> In (Sent h m c) ev -> plan_msg m c.
Proof.
  unfold spec_fire. intros H Hin.
  destruct (negb (spec_armed s)); [inversion H; subst; destruct Hin|].
  destruct (completed (set_spec s false (spec_left s))); [inversion H; subst; destruct Hin|].
  destruct (attempts (set_spec s false (spec_left s))); [inversion H; subst; destruct Hin|].
  destruct (elapsed (set_spec s false (spec_left s))); [inversion H; subst; destruct Hin|].
  destruct (send_request (set_spec s false (spec_left s)) false) as [s1 ev1] eqn:W. inversion H; subst.
  unfold send_request in W. eapply walk_sent_planmsg; eauto.
Qed.

(* every message of a step is a plan send, or the message of the executor task that was run *)
Theorem step_sent c s o s' ev h m cz : step c s o = (s', ev) -> In (Sent h m cz) ev ->
  plan_msg m cz \/ (exists k t, o = Run k /\ nth_error (queue s) k = Some t /\ task_sends s t h m cz
                            /\ pool_of s (task_host t) = PHealthy)
  \/ (* executor-first schedule: the retry task ran inside the step that took the decision *)
     (exists i k tag dcl reuse a, o = Resp i (RRetryable k tag) /\ inline_retry c = true /\ nth_error (attempts s) i = Some a /\
        task_sends (bump_counters (tick_consult (set_attempts s (mark_done i (attempts s)))) dcl) (TRetry reuse (a_host a)) h m cz
        /\ pool_of s (a_host a) = PHealthy).
Proof.
  intros H Hin. destruct o as [|i r|k| |h0 p|k|pp]; cbn [step] in H.
  - left. unfold send_request in H. eapply walk_sent_planmsg; eauto.
  - destruct (nth_error (attempts s) i) as [a|] eqn:N; [|inversion H; subst; destruct Hin].
    destruct (a_done a); [inversion H; subst; destruct Hin|].
    destruct (a_prep a).
    { inversion H; subst. destruct Hin. }
    destruct (Nat.eqb (a_page a) (page_no s)); [|inversion H; subst; destruct Hin].
    destruct (resp_current_cases _ _ _ _ _ _ H) as [H'|(k & tag & dcl & reuse & s2 & ev2 & -> & I & Pl & F & Sh & R & -> & ->)].
    + exfalso. eapply set_result_no_sent; eauto.
    + destruct Hin as [Hin|Hin]; [discriminate|]. apply in_app_iff in Hin. destruct Hin as [Hin|[Hin|[]]]; [|discriminate].
      destruct (run_task_sent _ _ _ _ _ _ _ _ R Hin) as [E|[T P]]; [left; exact E|].
      right; right. exists i, k, tag, dcl, reuse, a. repeat split; auto.
  - destruct (nth_error (queue s) k) as [t|] eqn:N; [|inversion H; subst; destruct Hin].
    destruct (run_task_sent _ _ _ _ _ _ _ _ H Hin) as [E|[T P]]; auto.
    right; left. exists k, t. repeat split; auto.
  - left. eapply spec_fire_sent; eauto.
  - inversion H; subst. destruct Hin.
  - inversion H; subst. destruct Hin.
  - destruct (paging s); [|inversion H; subst; destruct Hin].
    left. unfold send_request in H. eapply walk_sent_planmsg; eauto.
Qed.

(* ------------------------------------------------------------------ where executor tasks come from *)
Lemma query_queue s h m c s' ev ok : query s h m c = (s', ev, ok) -> queue s' = queue s.
Proof. rewrite query_eq. destruct (reason (pool_of s h)); intros H; inversion H; subst; qnorm; reflexivity. Qed.

Lemma send_request_queue s b s' ev : send_request s b = (s', ev) -> queue s' = queue s.
Proof. intros W. apply walk_frame_ok in W. apply W. Qed.

Lemma qon_queue s h m c s' ev : query_or_next s h m c = (s', ev) -> queue s' = queue s.
Proof.
  unfold query_or_next. intros H. destruct (query s h m c) as [[s1 ev1] ok] eqn:Q. apply query_queue in Q.
  destruct ok; [inversion H; subst; qnorm; exact Q|].
  destruct (send_request s1 true) as [s2 ev2] eqn:W. inversion H; subst. apply send_request_queue in W. congruence.
Qed.

Lemma after_prepare_queue c s h r s' ev : after_prepare c s h r = (s', ev) -> queue s' = queue s.
Proof.
  unfold after_prepare. intros H.
  destruct (is_some (fin_exc s)); [inversion H; subst; qnorm; reflexivity|].
  destruct r; try (inversion H; subst; qnorm; reflexivity).
  - destruct (fut_ps c) as [[[pid pqs] pks]|].
    + destruct (negb (pid =? id)); [inversion H; subst; qnorm; reflexivity|eapply qon_queue; eauto].
    + eapply qon_queue; eauto.
  - destruct (is_conn_kind k); [|inversion H; subst; qnorm; reflexivity].
    destruct (send_request (set_err s h (EResp k tag)) true) as [s2 ev2] eqn:W. inversion H; subst.
    apply send_request_queue in W. exact W.
Qed.

Lemma run_task_queue c s t s' ev : run_task c s t = (s', ev) -> queue s' = queue s.
Proof.
  intros H. destruct t as [reuse h|h qs ks|h r]; cbn [run_task] in H.
  - destruct (is_some (fin_exc s)); [inversion H; subst; qnorm; reflexivity|].
    destruct reuse; [eapply qon_queue; eauto|eapply send_request_queue; eauto].
  - eapply qon_queue; eauto.
  - eapply after_prepare_queue; eauto.
Qed.

Lemma queue_submit s t x : In x (queue (submit s t)) -> In x (queue s) \/ x = t.
Proof.
  unfold submit. destruct (session_shut s); [rewrite q_fw; auto|].
  cbn [queue push_task]. intros Hin. apply in_app_iff in Hin. destruct Hin as [Hin|[<-|[]]]; auto.
Qed.

Lemma queue_bump s dcl t x : In x (queue (bump_retry s dcl t)) -> In x (queue s) \/ x = t.
Proof.
  unfold bump_retry. destruct (is_some (fin_exc s)); [cbn; auto|]. intros Hin. apply queue_submit in Hin. exact Hin.
Qed.

Definition retry_decision (reuse : bool) : decision := if reuse then DRetry else DNextHost.

(* what a response to a query attempt at host h may enqueue *)
Definition enqueued_by (h : host) (r : resp) (ev : list event) (t : task) : Prop :=
  match t with
  | TRetry reuse h' => h' = h /\ exists n k tag rn cl dcl,
                         r = RRetryable k tag /\ In (Consult n h k tag rn cl (retry_decision reuse) dcl) ev
  | TReprepare h' _ _ => h' = h /\ exists id tag, r = RUnprepared id tag
  | TAfterPrepare _ _ => False
  end.

Lemma set_result_queue c s h r s' ev t : set_result c s h r = (s', ev) -> In t (queue s') ->
  In t (queue s) \/ enqueued_by h r ev t.
Proof.
  intros H Hin. destruct r; cbn [set_result] in H; try (inversion H; subst; qnorm; left; exact Hin).
  - destruct (pol c (nconsult s) k tag (retries s) (if request_error_kind k then msg_cl s else None)) as [d dcl] eqn:P.
    unfold handle_decision in H. inversion H; subst; qnorm; clear H.
    destruct d; cbn [queue set_err] in Hin; qnorm; auto.
    + apply queue_bump in Hin. destruct Hin as [Hin| ->]; [left; exact Hin|]. right. cbn.
      split; [reflexivity|]. do 6 eexists. split; [reflexivity|]. left. reflexivity.
    + apply queue_bump in Hin. destruct Hin as [Hin| ->]; [left; exact Hin|]. right. cbn.
      split; [reflexivity|]. do 6 eexists. split; [reflexivity|]. left. reflexivity.
  - unfold unprepared in H.
    assert (G : forall ps, unprep_go c s h ps = (s', ev) -> In t (queue s) \/ enqueued_by h (RUnprepared id tag) ev t).
    { intros [[pid qs] ks0] G. unfold unprep_go in G.
      destruct (negb (uses_ks c) && is_some ks0 && negb (opt_eqb (conn_ks s) ks0)); inversion G; subst; qnorm.
      - left. exact Hin.
      - apply queue_submit in Hin. destruct Hin as [Hin| ->]; auto.
        right. cbn. split; [reflexivity|]. eauto. }
    destruct (fut_ps c) as [[[pid pqs] pks]|].
    + destruct (negb (pid =? id)); [inversion H; subst; qnorm; left; exact Hin|].
      destruct (lookup (known c) id); eapply G; eauto.
    + destruct (lookup (known c) id); [eapply G; eauto|inversion H; subst; qnorm; left; exact Hin].
Qed.

(* a task in the queue after a step was there before, or was enqueued by the response just delivered *)
Theorem step_queue c s o s' ev t : step c s o = (s', ev) -> In t (queue s') ->
  In t (queue s) \/ exists i r a, o = Resp i r /\ nth_error (attempts s) i = Some a /\ a_done a = false /\
     (if a_prep a then t = TAfterPrepare (a_host a) r else enqueued_by (a_host a) r ev t).
Proof.
  intros H Hin. destruct o as [|i r|k| |h0 p|k|pp]; cbn [step] in H.
  - apply send_request_queue in H. left. congruence.
  - destruct (nth_error (attempts s) i) as [a|] eqn:N; [|inversion H; subst; qnorm; left; exact Hin].
    destruct (a_done a) eqn:D; [inversion H; subst; qnorm; left; exact Hin|].
    destruct (a_prep a) eqn:Pp.
    + inversion H; subst; qnorm. apply queue_submit in Hin. cbn [queue set_attempts] in Hin.
      destruct Hin as [Hin| ->]; auto. right. exists i, r, a. rewrite Pp. auto.
    + destruct (Nat.eqb (a_page a) (page_no s)); [|inversion H; subst; left; exact Hin].
      destruct (resp_current_cases _ _ _ _ _ _ H) as [H'|(k & tag & dcl & reuse & s2 & ev2 & -> & I & Pl & F & Sh & R & -> & ->)].
      * destruct (set_result_queue _ _ _ _ _ _ _ H' Hin) as [G|G]; [left; exact G|].
        right. exists i, r, a. rewrite Pp. auto.
      * left. cbn [queue set_err] in Hin. apply run_task_queue in R. rewrite R in Hin. exact Hin.
  - destruct (nth_error (queue s) k) as [t0|]; [|inversion H; subst; qnorm; left; exact Hin].
    apply run_task_queue in H. rewrite H in Hin. cbn [queue set_queue] in Hin. left. eapply in_remove_nth; eauto.
  - left. unfold spec_fire in H.
    destruct (negb (spec_armed s)); [inversion H; subst; qnorm; exact Hin|].
    destruct (completed (set_spec s false (spec_left s))); [inversion H; subst; qnorm; exact Hin|].
    destruct (attempts (set_spec s false (spec_left s))); [inversion H; subst; qnorm; exact Hin|].
    destruct (elapsed (set_spec s false (spec_left s))).
    { inversion H; subst. destruct (on_timeout_same (set_spec s false (spec_left s))) as [[_ F]|[_ E]];
        [rewrite (sbo_queue _ _ F) in Hin|rewrite E in Hin]; exact Hin. }
    destruct (send_request (set_spec s false (spec_left s)) false) as [s1 ev1] eqn:W. inversion H; subst.
    apply send_request_queue in W. unfold start_timer in Hin.
    destruct (spec_armed s1); [|destruct (0 <? spec_left s1)]; cbn in Hin; rewrite W in Hin; exact Hin.
  - inversion H; subst. left. exact Hin.
  - inversion H; subst. left. exact Hin.
  - left. destruct (paging s); [|inversion H; subst; exact Hin].
    apply send_request_queue in H. rewrite H in Hin. destruct (page_start_fields c s pp) as (_ & _ & _ & _ & _ & _ & _ & _ & _ & Q & _).
    rewrite Q in Hin. exact Hin.
Qed.
