(* C03 -- proofs: round-trip lemmas  (writer x = Some bs -> reader (bs ++ rest) = Some (x, rest))  for every wire
   notation, composed into per-message lemmas and the frame theorem. *)
From Coq Require Import ZArith List Bool Lia.
From Verif Require Import PyBase ReqPV ReqConsts ReqWire Request ProtocolSpec ReqCanon.
Import ListNotations.
Local Open Scope Z_scope.

(* ------------------------------------------------------------------ writer sequences *)
Lemma cat_Some : forall a b bs, a +++ b = Some bs -> exists x y, a = Some x /\ b = Some y /\ bs = x ++ y.
Proof. intros [x|] [y|] bs H; cbn in H; try discriminate. injection H as <-. eauto. Qed.

Lemma raw_Some : forall b bs, raw b = Some bs -> bs = b.
Proof. intros b bs H. injection H as <-. reflexivity. Qed.

Lemma wnil_Some : forall bs, wnil = Some bs -> bs = [].
Proof. intros bs H. injection H as <-. reflexivity. Qed.

(* ------------------------------------------------------------------ integers *)
Lemma be_value_app : forall l b, be_value (l ++ [b]) = be_value l * 256 + b.
Proof. intros. unfold be_value. rewrite fold_left_app. reflexivity. Qed.

Lemma be_bytes_length : forall n z, length (be_bytes n z) = n.
Proof. induction n; intros; cbn [be_bytes]; [reflexivity|]. rewrite app_length, IHn. cbn. lia. Qed.

Lemma pow256_S : forall n, 256 ^ Z.of_nat (S n) = 256 * 256 ^ Z.of_nat n.
Proof. intros. rewrite Nat2Z.inj_succ, Z.pow_succ_r by lia. reflexivity. Qed.

Lemma pow256_pos : forall n, 0 < 256 ^ Z.of_nat n.
Proof. intros. apply Z.pow_pos_nonneg; lia. Qed.

Lemma be_value_be_bytes : forall n z, be_value (be_bytes n z) = z mod 256 ^ Z.of_nat n.
Proof.
  induction n; intros z.
  - cbn. rewrite Z.mod_1_r. reflexivity.
  - cbn [be_bytes]. rewrite be_value_app, IHn, pow256_S.
    pose proof (pow256_pos n).
    rewrite (Z.rem_mul_r z 256 (256 ^ Z.of_nat n)) by lia. lia.
Qed.

Lemma take_app : forall l rest, take (length l) (l ++ rest) = Some (l, rest).
Proof. induction l; intros; cbn; [reflexivity|]. rewrite IHl. reflexivity. Qed.

Lemma p_take_len : forall (l rest : list Z), p_take (len l) (l ++ rest) = Some (l, rest).
Proof. intros. unfold p_take, len. rewrite Nat2Z.id. apply take_app. Qed.

Lemma p_uint_be : forall n z rest, p_uint n (be_bytes n z ++ rest) = Some (z mod 256 ^ Z.of_nat n, rest).
Proof.
  intros. unfold p_uint, bind. rewrite <- (be_bytes_length n z) at 1. rewrite take_app.
  unfold ret. rewrite be_value_be_bytes. reflexivity.
Qed.

Lemma rt_pack_u : forall n z bs rest, pack_u n z = Some bs -> p_uint n (bs ++ rest) = Some (z, rest).
Proof.
  intros n z bs rest H. unfold pack_u in H.
  destruct ((0 <=? z) && (z <? 256 ^ Z.of_nat n)) eqn:E; [|discriminate]. injection H as <-.
  rewrite p_uint_be, Z.mod_small by lia. reflexivity.
Qed.

Lemma rt_pack_s : forall n z bs rest, (0 < n)%nat -> pack_s n z = Some bs -> p_sint n (bs ++ rest) = Some (z, rest).
Proof.
  intros n z bs rest Hn H. unfold pack_s in H.
  set (M := 256 ^ Z.of_nat n) in *.
  assert (HM : M = 2 * (M / 2) /\ 0 < M).
  { subst M. destruct n; [lia|]. rewrite pow256_S. pose proof (pow256_pos n).
    split; [|lia]. replace (256 * 256 ^ Z.of_nat n) with ((128 * 256 ^ Z.of_nat n) * 2) by lia.
    rewrite Z.div_mul by lia. lia. }
  destruct ((- (M / 2) <=? z) && (z <? M / 2)) eqn:E; [|discriminate]. injection H as <-.
  unfold p_sint, bind. rewrite p_uint_be. fold M. unfold ret. f_equal. f_equal.
  destruct (Z.ltb_spec z 0).
  - assert (z mod M = z + M). { symmetry. apply Z.mod_unique with (q := -1); lia. }
    destruct (Z.ltb_spec (z mod M) (M / 2)); lia.
  - rewrite Z.mod_small by lia. destruct (Z.ltb_spec z (M / 2)); lia.
Qed.

Lemma rt_byte : forall z bs rest, write_byte z = Some bs -> p_byte (bs ++ rest) = Some (z, rest).
Proof. intros. apply rt_pack_u. assumption. Qed.
Lemma rt_short : forall z bs rest, write_short z = Some bs -> p_short (bs ++ rest) = Some (z, rest).
Proof. intros. apply rt_pack_u. assumption. Qed.
Lemma rt_cl : forall z bs rest, write_consistency_level z = Some bs -> p_short (bs ++ rest) = Some (z, rest).
Proof. intros. apply rt_pack_u. assumption. Qed.
Lemma rt_uint32 : forall z bs rest, write_uint z = Some bs -> p_uint 4 (bs ++ rest) = Some (z, rest).
Proof. intros. apply rt_pack_u. assumption. Qed.
Lemma rt_int : forall z bs rest, write_int z = Some bs -> p_int (bs ++ rest) = Some (z, rest).
Proof. intros. apply rt_pack_s; [lia|assumption]. Qed.
Lemma rt_long : forall z bs rest, write_long z = Some bs -> p_long (bs ++ rest) = Some (z, rest).
Proof. intros. apply rt_pack_s; [lia|assumption]. Qed.

(* an [int] written with write_int for flags < 2^31 reads back through the unsigned reader too (BATCH flags on v5) *)
Lemma rt_int_as_uint : forall z bs rest, 0 <= z -> write_int z = Some bs -> p_uint 4 (bs ++ rest) = Some (z, rest).
Proof.
  intros z bs rest Hz H. unfold write_int, pack_s in H.
  destruct ((- (256 ^ Z.of_nat 4 / 2) <=? z) && (z <? 256 ^ Z.of_nat 4 / 2)) eqn:E; [|discriminate].
  assert (Hb : bs = be_bytes 4 z) by congruence. subst bs.
  rewrite p_uint_be. rewrite Z.mod_small; [reflexivity|].
  change (256 ^ Z.of_nat 4 / 2) with 2147483648 in E. change (256 ^ Z.of_nat 4) with 4294967296. lia.
Qed.

Lemma bind_step : forall {A B} (p : parser A) (f : A -> parser B) bs a r,
  p bs = Some (a, r) -> bind p f bs = f a r.
Proof. intros. unfold bind. rewrite H. reflexivity. Qed.

Lemma len_nonneg : forall {A} (l : list A), 0 <= len l.
Proof. intros. unfold len. lia. Qed.

(* ------------------------------------------------------------------ strings, bytes, values *)
Lemma rt_string : forall s bs rest, write_string s = Some bs -> p_string (bs ++ rest) = Some (s, rest).
Proof.
  intros s bs rest H. unfold write_string in H. apply cat_Some in H. destruct H as (x & y & Hx & Hy & ->).
  apply raw_Some in Hy. subst y. unfold p_string. rewrite <- app_assoc.
  rewrite (bind_step _ _ _ _ _ (rt_short _ _ _ Hx)). apply p_take_len.
Qed.

Lemma rt_longstring : forall s bs rest, write_longstring s = Some bs -> p_longstring (bs ++ rest) = Some (s, rest).
Proof.
  intros s bs rest H. unfold write_longstring in H. apply cat_Some in H. destruct H as (x & y & Hx & Hy & ->).
  apply raw_Some in Hy. subst y. unfold p_longstring. rewrite <- app_assoc.
  rewrite (bind_step _ _ _ _ _ (rt_int _ _ _ Hx)).
  pose proof (len_nonneg s). destruct (Z.ltb_spec (len s) 0); [lia|]. apply p_take_len.
Qed.

Lemma rt_longstring_bytes : forall s bs rest, write_longstring s = Some bs -> p_bytes (bs ++ rest) = Some (Some s, rest).
Proof.
  intros s bs rest H. unfold write_longstring in H. apply cat_Some in H. destruct H as (x & y & Hx & Hy & ->).
  apply raw_Some in Hy. subst y. unfold p_bytes. rewrite <- app_assoc.
  rewrite (bind_step _ _ _ _ _ (rt_int _ _ _ Hx)).
  pose proof (len_nonneg s). destruct (Z.ltb_spec (len s) 0); [lia|].
  rewrite (bind_step _ _ _ _ _ (p_take_len s rest)). reflexivity.
Qed.

Lemma rt_paging_state : forall s bs rest, write_longstring s = Some bs -> p_paging_state (bs ++ rest) = Some (s, rest).
Proof.
  intros. unfold p_paging_state. rewrite (bind_step _ _ _ _ _ (rt_longstring_bytes _ _ _ H)). reflexivity.
Qed.

Lemma rt_bytes_opt : forall v bs rest, write_bytes_opt v = Some bs -> p_bytes (bs ++ rest) = Some (v, rest).
Proof.
  intros [s|] bs rest H; cbn [write_bytes_opt] in H.
  - apply rt_longstring_bytes. exact H.
  - unfold p_bytes. rewrite (bind_step _ _ _ _ _ (rt_int _ _ _ H)). reflexivity.
Qed.

Definition value_ok (pv : Z) (v : value) : bool := (4 <=? pv) || match v with VUnset => false | _ => true end.

Lemma rt_value : forall pv v bs rest, value_ok pv v = true -> write_value v = Some bs ->
  p_value pv (bs ++ rest) = Some (cv v, rest).
Proof.
  intros pv v bs rest Hok H. unfold p_value. destruct v as [| |b]; cbn [write_value] in H.
  - rewrite (bind_step _ _ _ _ _ (rt_int _ _ _ H)). cbn [Z.leb Z.compare]. destruct (pv <? 4); reflexivity.
  - rewrite (bind_step _ _ _ _ _ (rt_int _ _ _ H)). cbn [Z.leb Z.compare].
    unfold value_ok in Hok. rewrite orb_false_r in Hok. destruct (Z.ltb_spec pv 4); [apply Z.leb_le in Hok; lia|]. reflexivity.
  - apply cat_Some in H. destruct H as (x & y & Hx & Hy & ->). apply raw_Some in Hy. subst y. rewrite <- app_assoc.
    rewrite (bind_step _ _ _ _ _ (rt_int _ _ _ Hx)).
    pose proof (len_nonneg b). destruct (Z.leb_spec 0 (len b)); [|lia].
    rewrite (bind_step _ _ _ _ _ (p_take_len b rest)). reflexivity.
Qed.

(* ------------------------------------------------------------------ counted sequences *)
Section Seq.
  Context {A B : Type} (w : A -> W) (p : parser B) (f : A -> B) (P : A -> bool).
  Hypothesis rt_elem : forall x bs rest, P x = true -> w x = Some bs -> p (bs ++ rest) = Some (f x, rest).

  Lemma rt_seq : forall l bs rest, forallb P l = true -> write_seq w l = Some bs ->
    p_count (length l) p (bs ++ rest) = Some (map f l, rest).
  Proof.
    induction l as [|x l IH]; intros bs rest HP H; cbn [write_seq fold_right] in H.
    - apply wnil_Some in H. subst. reflexivity.
    - cbn [forallb] in HP. apply andb_prop in HP. destruct HP as [Hx Hl].
      apply cat_Some in H. destruct H as (a & b & Ha & Hb & ->). rewrite <- app_assoc.
      cbn [length p_count map]. rewrite (bind_step _ _ _ _ _ (rt_elem _ _ _ Hx Ha)).
      rewrite (bind_step _ _ _ _ _ (IH _ _ Hl Hb)). reflexivity.
  Qed.

  Lemma rt_list : forall l bs rest, forallb P l = true -> write_short (len l) +++ write_seq w l = Some bs ->
    p_list p (bs ++ rest) = Some (map f l, rest).
  Proof.
    intros l bs rest HP H. apply cat_Some in H. destruct H as (a & b & Ha & Hb & ->). rewrite <- app_assoc.
    unfold p_list. rewrite (bind_step _ _ _ _ _ (rt_short _ _ _ Ha)). unfold len. rewrite Nat2Z.id.
    apply rt_seq; assumption.
  Qed.
End Seq.

Lemma forallb_true : forall {A} (l : list A), forallb (fun _ => true) l = true.
Proof. induction l; cbn; auto. Qed.

Lemma map_id' : forall {A} (l : list A), map (fun x => x) l = l.
Proof. induction l; cbn; congruence. Qed.

Lemma rt_pair_ss : forall (kv : bytes * bytes) bs rest, write_string (fst kv) +++ write_string (snd kv) = Some bs ->
  p_pair p_string p_string (bs ++ rest) = Some (kv, rest).
Proof.
  intros [k v] bs rest H. apply cat_Some in H. destruct H as (a & b & Ha & Hb & ->). rewrite <- app_assoc.
  unfold p_pair. rewrite (bind_step _ _ _ _ _ (rt_string _ _ _ Ha)). rewrite (bind_step _ _ _ _ _ (rt_string _ _ _ Hb)).
  reflexivity.
Qed.

Lemma rt_pair_sb : forall (kv : bytes * option bytes) bs rest, write_string (fst kv) +++ write_bytes_opt (snd kv) = Some bs ->
  p_pair p_string p_bytes (bs ++ rest) = Some (kv, rest).
Proof.
  intros [k v] bs rest H. apply cat_Some in H. destruct H as (a & b & Ha & Hb & ->). rewrite <- app_assoc.
  unfold p_pair. rewrite (bind_step _ _ _ _ _ (rt_string _ _ _ Ha)). rewrite (bind_step _ _ _ _ _ (rt_bytes_opt _ _ _ Hb)).
  reflexivity.
Qed.

Lemma rt_stringmap : forall m bs rest, write_stringmap m = Some bs -> p_stringmap (bs ++ rest) = Some (m, rest).
Proof.
  intros m bs rest H. unfold write_stringmap in H. unfold p_stringmap.
  pose proof (rt_list _ _ (fun x => x) (fun _ => true) (fun x bs rest _ => rt_pair_ss x bs rest) m bs rest (forallb_true m) H) as R.
  rewrite map_id' in R. exact R.
Qed.

Lemma rt_bytesmap : forall m bs rest, write_bytesmap m = Some bs -> p_bytesmap (bs ++ rest) = Some (m, rest).
Proof.
  intros m bs rest H. unfold write_bytesmap in H. unfold p_bytesmap.
  pose proof (rt_list _ _ (fun x => x) (fun _ => true) (fun x bs rest _ => rt_pair_sb x bs rest) m bs rest (forallb_true m) H) as R.
  rewrite map_id' in R. exact R.
Qed.

Lemma rt_stringlist : forall l bs rest, write_stringlist l = Some bs -> p_stringlist (bs ++ rest) = Some (l, rest).
Proof.
  intros l bs rest H. unfold write_stringlist in H. unfold p_stringlist.
  pose proof (rt_list _ _ (fun x => x) (fun _ => true) (fun x bs rest _ => rt_string x bs rest) l bs rest (forallb_true l) H) as R.
  rewrite map_id' in R. exact R.
Qed.

Lemma values_ok_forall : forall pv l, values_ok pv l = true -> forallb (value_ok pv) l = true.
Proof.
  intros pv l H. unfold values_ok in H. unfold value_ok. destruct (4 <=? pv); cbn [orb] in *.
  - apply forallb_true.
  - exact H.
Qed.

Lemma rt_values : forall pv l bs rest, values_ok pv l = true -> write_values l = Some bs ->
  p_list (p_value pv) (bs ++ rest) = Some (map cv l, rest).
Proof.
  intros pv l bs rest Hok H. unfold write_values in H.
  exact (rt_list _ _ cv (value_ok pv) (rt_value pv) l bs rest (values_ok_forall _ _ Hok) H).
Qed.

(* optional field announced by a flag bit *)
Lemma rt_opt : forall {A B} (w : A -> W) (p : parser B) (f : A -> B) (o : option A) bs rest,
  (forall x bs rest, o = Some x -> w x = Some bs -> p (bs ++ rest) = Some (f x, rest)) ->
  w_opt o w = Some bs -> p_if (is_some o) p (bs ++ rest) = Some (option_map f o, rest).
Proof.
  intros A B w p f [x|] bs rest Hrt H; cbn [w_opt is_some p_if option_map] in *.
  - rewrite (bind_step _ _ _ _ _ (Hrt _ _ _ eq_refl H)). reflexivity.
  - apply wnil_Some in H. subst. reflexivity.
Qed.

Lemma option_map_id : forall {A} (o : option A), option_map (fun x => x) o = o.
Proof. destruct o; reflexivity. Qed.

Lemma is_some_false : forall {A} (o : option A), is_some o = false -> o = None.
Proof. destruct o; cbn; congruence. Qed.

(* ------------------------------------------------------------------ versions *)
Lemma supported_cases : forall pv, supported pv = true ->
  pv = 1 \/ pv = 2 \/ pv = 3 \/ pv = 4 \/ pv = 5 \/ pv = 6 \/ pv = 65 \/ pv = 66.
Proof. intros pv H. unfold supported in H. repeat (apply orb_prop in H; destruct H as [H|H]); apply Z.eqb_eq in H; lia. Qed.

Ltac ev t := let v := eval vm_compute in t in change t with v in *.
Ltac ev_pv p :=
  ev (pv_uses_int_query_flags p); ev (pv_uses_prepare_flags p); ev (pv_uses_prepared_metadata p);
  ev (pv_uses_keyspace_flag p); ev (pv_has_continuous_paging_support p); ev (pv_has_continuous_paging_next_pages p);
  ev (pv_has_checksumming_support p);
  ev (p >=? 2); ev (p >=? 3); ev (p =? 1); ev (p >? 1); ev (p <? 4); ev (p <? 2); ev (p <? 3); ev (p =? 2); ev (p =? 66);
  ev (3 <=? p); ev (4 <=? p); ev (2 <=? p); ev (5 <=? p); ev (p =? 65);
  ev (int_flags p); ev (v5_features p); ev (query_mask p); ev (batch_mask p); ev (is_dse p); ev (known_version p).

Ltac inv_leaf H :=
  match type of H with
  | wnil = Some _ => apply wnil_Some in H; subst
  | raw _ = Some _ => apply raw_Some in H; subst
  | _ => idtac
  end.
Ltac inv_cat H :=
  match type of H with
  | cat _ _ = Some _ =>
      let x := fresh "b" in let y := fresh "b" in let Hx := fresh "Hw" in let Hy := fresh "Hw" in
      apply cat_Some in H; destruct H as (x & y & Hx & Hy & ->); inv_leaf Hx; inv_cat Hy
  | _ => inv_leaf H
  end.

(* ------------------------------------------------------------------ flags *)
Lemma query_flags_bits : forall a b c d e f g h,
  let fl := query_flags a b c d e f g h in
  bit fl 0 = a /\ bit fl 4 = b /\ bit fl 2 = c /\ bit fl 3 = d /\ bit fl 5 = e /\ bit fl 31 = f /\ bit fl 30 = g /\
  bit fl 7 = h /\ bit fl 1 = false /\ bit fl 8 = false.
Proof. intros a b c d e f g h. destruct a, b, c, d, e, f, g, h; vm_compute; repeat split; reflexivity. Qed.

Lemma qf_bit0 : forall a b c d e f g h, bit (query_flags a b c d e f g h) 0 = a. Proof. intros. apply query_flags_bits. Qed.
Lemma qf_bit4 : forall a b c d e f g h, bit (query_flags a b c d e f g h) 4 = b. Proof. intros. apply query_flags_bits. Qed.
Lemma qf_bit2 : forall a b c d e f g h, bit (query_flags a b c d e f g h) 2 = c. Proof. intros. apply query_flags_bits. Qed.
Lemma qf_bit3 : forall a b c d e f g h, bit (query_flags a b c d e f g h) 3 = d. Proof. intros. apply query_flags_bits. Qed.
Lemma qf_bit5 : forall a b c d e f g h, bit (query_flags a b c d e f g h) 5 = e. Proof. intros. apply query_flags_bits. Qed.
Lemma qf_bit31 : forall a b c d e f g h, bit (query_flags a b c d e f g h) 31 = f. Proof. intros. apply query_flags_bits. Qed.
Lemma qf_bit30 : forall a b c d e f g h, bit (query_flags a b c d e f g h) 30 = g. Proof. intros. apply query_flags_bits. Qed.
Lemma qf_bit7 : forall a b c d e f g h, bit (query_flags a b c d e f g h) 7 = h. Proof. intros. apply query_flags_bits. Qed.
Lemma qf_bit1 : forall a b c d e f g h, bit (query_flags a b c d e f g h) 1 = false. Proof. intros. apply query_flags_bits. Qed.
Lemma qf_bit8 : forall a b c d e f g h, bit (query_flags a b c d e f g h) 8 = false. Proof. intros. apply query_flags_bits. Qed.

Lemma qf_mask2 : forall a b c d, only_bits (query_flags a b c d false false false false) 31 = true.
Proof. destruct a, b, c, d; reflexivity. Qed.
Lemma qf_mask34 : forall a b c d e, only_bits (query_flags a b c d e false false false) 63 = true.
Proof. destruct a, b, c, d, e; reflexivity. Qed.
Lemma qf_mask56 : forall a b c d e h, only_bits (query_flags a b c d e false false h) 447 = true.
Proof. destruct a, b, c, d, e, h; reflexivity. Qed.
Lemma qf_mask65 : forall a b c d e f g, only_bits (query_flags a b c d e f g false) 3221225535 = true.
Proof. destruct a, b, c, d, e, f, g; reflexivity. Qed.
Lemma qf_mask66 : forall a b c d e f g h, only_bits (query_flags a b c d e f g h) 3221225663 = true.
Proof. destruct a, b, c, d, e, f, g, h; reflexivity. Qed.

(* ------------------------------------------------------------------ stepping through a parser *)
Lemma p_if_false : forall {A} (p : parser A) bs, p_if false p bs = Some (None, bs).
Proof. reflexivity. Qed.
Lemma p_if_true : forall {A} (p : parser A) bs a r, p bs = Some (a, r) -> p_if true p bs = Some (Some a, r).
Proof. intros. cbn [p_if]. rewrite (bind_step _ _ _ _ _ H). reflexivity. Qed.

Ltac all_versions Hs :=
  apply supported_cases in Hs;
  destruct Hs as [->|[->|[->|[->|[->|[->|[->| ->]]]]]]];
  [ev_pv 1 | ev_pv 2 | ev_pv 3 | ev_pv 4 | ev_pv 5 | ev_pv 6 | ev_pv 65 | ev_pv 66].

Ltac rt_base :=
  first [ eapply rt_short; eassumption | eapply rt_cl; eassumption | eapply rt_byte; eassumption | eapply rt_int; eassumption
        | eapply rt_long; eassumption | eapply rt_uint32; eassumption | eapply rt_string; eassumption
        | eapply rt_longstring; eassumption | eapply rt_paging_state; eassumption
        | eapply rt_longstring_bytes; eassumption | eapply rt_stringmap; eassumption
        | eapply rt_stringlist; eassumption | eapply rt_bytesmap; eassumption
        | eapply rt_values; eassumption
        | eapply p_if_false ].

Lemma rt_cpo : forall pv o bs rest, supported pv = true -> write_paging_options pv o = Some bs ->
  p_cpo pv (bs ++ rest) = Some (canon_cpo pv o, rest).
Proof.
  intros pv o bs rest Hs H. unfold write_paging_options in H. unfold p_cpo, canon_cpo.
  all_versions Hs; inv_cat H; rewrite <- ?app_assoc; cbn [app];
  do 2 (erewrite bind_step by rt_base);
  (erewrite bind_step by first [rt_base | eapply p_if_true; rt_base]); reflexivity.
Qed.

Lemma rt_opt_id : forall {A} (w : A -> W) (p : parser A) (o : option A) bs rest,
  (forall x bs rest, o = Some x -> w x = Some bs -> p (bs ++ rest) = Some (x, rest)) ->
  w_opt o w = Some bs -> p_if (is_some o) p (bs ++ rest) = Some (o, rest).
Proof. intros. rewrite <- (option_map_id o) at 2. eapply rt_opt; eassumption. Qed.

Ltac rt_solve :=
  first [ rt_base
        | eapply rt_cpo; [ reflexivity | eassumption ]
        | eapply p_if_true; rt_solve
        | eapply rt_opt_id; cycle 1; [ eassumption | intros ? ? ? ? ?; subst; rt_base ]
        | eapply rt_opt; cycle 1; [ eassumption | intros ? ? ? ? ?; subst; rt_solve ] ].
Ltac step := erewrite bind_step by rt_solve.

Definition params_ok (pv : Z) (m : qmsg) : bool :=
  match q_params m with Some l => values_ok pv l | None => true end.

Ltac kill_raises H :=
  cbn [negb] in H; rewrite ?andb_false_r, ?andb_true_r in H; cbv iota in H;
  repeat match type of H with
         | (if is_some ?v then None else _) = Some _ => destruct v; [discriminate H|]; cbn [is_some] in H; cbv iota in H
         end.

Ltac qf_bits := rewrite ?qf_bit0, ?qf_bit1, ?qf_bit2, ?qf_bit3, ?qf_bit4, ?qf_bit5, ?qf_bit7, ?qf_bit8, ?qf_bit30, ?qf_bit31.

Lemma rt_query_params : forall pv m bs rest, supported pv = true -> pv <> 1 ->
  ts_ok pv (q_timestamp m) = true -> params_ok pv m = true ->
  write_query_params pv m = Some bs -> p_qparams pv (bs ++ rest) = Some (canon_params pv m, rest).
Proof.
  intros pv m bs rest Hs Hne Hts Hpo H.
  destruct m as [params cl serial fetch pstate ts skip cpo ks].
  unfold write_query_params in H. unfold p_qparams, canon_params, params_ok, ts_ok in *.
  cbn [q_params q_cl q_serial q_fetch q_paging_state q_timestamp q_skip_meta q_cpo q_keyspace] in *.
  all_versions Hs; try congruence; kill_raises H.
  all: match type of Hts with false || _ = true => destruct ts; [discriminate Hts|] | _ => idtac end.
  all: cbn [is_some cpo_unit_bytes w_opt option_map] in *.
  all: inv_cat H; rewrite <- ?app_assoc; cbn [app].
  all: step; step; rewrite ?qf_mask2, ?qf_mask34, ?qf_mask56, ?qf_mask65, ?qf_mask66; cbn [negb]; qf_bits; cbn [is_some].
  all: do 8 step; reflexivity.
Qed.

(* ------------------------------------------------------------------ message bodies *)
Ltac kill_raises2 H :=
  cbn [negb] in H; rewrite ?andb_false_r, ?andb_true_r in H; cbv iota in H;
  repeat match type of H with
         | (if is_some ?v then None else _) = Some _ =>
             let E := fresh "E" in destruct v eqn:E; try rewrite E in *; cbn [is_some] in H; cbv iota in H; [discriminate H|]
         end.

Ltac open_body := unfold p_body; cbn [opcode];
  unfold op_STARTUP, op_OPTIONS, op_AUTH_RESPONSE, op_CREDENTIALS, op_QUERY, op_PREPARE, op_EXECUTE, op_BATCH, op_REGISTER, op_REVISE_REQUEST;
  cbn [Z.eqb Pos.eqb].

Lemma body_startup : forall pv c o bs rest, send_body pv (Startup c o) = Some bs ->
  p_body pv (opcode (Startup c o)) (bs ++ rest) = Some (canon_request pv (Startup c o), rest).
Proof. intros pv c o bs rest H. cbn [send_body] in H. open_body. step. reflexivity. Qed.

Lemma body_options : forall pv bs rest, send_body pv Options = Some bs ->
  p_body pv (opcode Options) (bs ++ rest) = Some (canon_request pv Options, rest).
Proof. intros pv bs rest H. cbn [send_body] in H. inv_cat H. open_body. reflexivity. Qed.

Lemma body_register : forall pv l bs rest, send_body pv (Register l) = Some bs ->
  p_body pv (opcode (Register l)) (bs ++ rest) = Some (canon_request pv (Register l), rest).
Proof. intros pv l bs rest H. cbn [send_body] in H. open_body. step. reflexivity. Qed.

Lemma body_auth : forall pv t bs rest, supported pv = true -> session_ok pv (AuthResponse t) = true ->
  send_body pv (AuthResponse t) = Some bs ->
  p_body pv (opcode (AuthResponse t)) (bs ++ rest) = Some (canon_request pv (AuthResponse t), rest).
Proof.
  intros pv t bs rest Hs Hok H. cbn [send_body session_ok] in *. open_body.
  all_versions Hs; try discriminate Hok; cbv iota; step; reflexivity.
Qed.

Lemma body_credentials : forall pv l bs rest, supported pv = true -> send_body pv (Credentials l) = Some bs ->
  p_body pv (opcode (Credentials l)) (bs ++ rest) = Some (canon_request pv (Credentials l), rest).
Proof.
  intros pv l bs rest Hs H. cbn [send_body] in *. open_body.
  all_versions Hs; try discriminate H. cbv iota in *. change (write_stringmap l = Some bs) in H. step. reflexivity.
Qed.

Lemma body_revise : forall pv a b c bs rest, supported pv = true -> session_ok pv (Revise a b c) = true ->
  send_body pv (Revise a b c) = Some bs ->
  p_body pv (opcode (Revise a b c)) (bs ++ rest) = Some (canon_request pv (Revise a b c), rest).
Proof.
  intros pv a b c bs rest Hs Hok H. cbn [send_body session_ok canon_request] in *. open_body.
  all_versions Hs; try discriminate Hok; cbv iota in *; destruct (a =? 2) eqn:Ea;
  try (destruct (c <=? 0); [inv_cat H; discriminate|]); cbn [negb] in H; cbv iota in H;
  inv_cat H; try discriminate; rewrite <- ?app_assoc; cbn [app negb]; cbv iota; step; step; rewrite ?Ea; cbv iota; try step; reflexivity.
Qed.


Lemma qf_zero : (query_flags false false false false false false false false =? 0) = true.
Proof. reflexivity. Qed.

Lemma body_query : forall pv q m bs rest, supported pv = true -> session_ok pv (Query q m) = true ->
  send_body pv (Query q m) = Some bs ->
  p_body pv (opcode (Query q m)) (bs ++ rest) = Some (canon_request pv (Query q m), rest).
Proof.
  intros pv q m bs rest Hs Hok H. cbn [send_body session_ok canon_request] in *. open_body.
  apply andb_prop in Hok. destruct Hok as [Hp Hts].
  destruct (Z.eq_dec pv 1) as [->|Hne].
  - (* v1: <query><consistency> *)
    destruct m as [params cl serial fetch pstate ts skip cpo ks].
    unfold write_query_params in H. unfold canon_params, ts_ok in *.
    cbn [q_params q_cl q_serial q_fetch q_paging_state q_timestamp q_skip_meta q_cpo q_keyspace] in *.
    ev_pv 1. destruct params; [discriminate Hp|]. destruct ts; [discriminate Hts|].
    apply cat_Some in H. destruct H as (bq & y & Hq & H & ->).
    kill_raises2 H. cbn [is_some cpo_unit_bytes w_opt option_map] in *. rewrite qf_zero in H.
    inv_cat H. rewrite <- ?app_assoc; cbn [app]. cbv iota. step. step. reflexivity.
  - inv_cat H. rewrite <- ?app_assoc. step.
    assert (Hp1 : (pv =? 1) = false) by (apply Z.eqb_neq; exact Hne). rewrite Hp1.
    erewrite bind_step.
    2:{ eapply rt_query_params; try eassumption. unfold params_ok. destruct (q_params m); [discriminate Hp|reflexivity]. }
    reflexivity.
Qed.

Lemma rt_rmid : forall pv rm b rest, supported pv = true ->
  (if pv_uses_prepared_metadata pv then write_string_req rm else wnil) = Some b ->
  p_if (v5_features pv) p_string (b ++ rest) = Some (if pv_uses_prepared_metadata pv then rm else None, rest).
Proof.
  intros pv rm b rest Hs H. all_versions Hs; cbv iota in *;
  first [ inv_leaf H; apply p_if_false
        | destruct rm; [|discriminate H]; apply p_if_true; apply rt_string; exact H ].
Qed.

Lemma body_execute : forall pv id rm m bs rest, supported pv = true -> session_ok pv (Execute id rm m) = true ->
  send_body pv (Execute id rm m) = Some bs ->
  p_body pv (opcode (Execute id rm m)) (bs ++ rest) = Some (canon_request pv (Execute id rm m), rest).
Proof.
  intros pv id rm m bs rest Hs Hok H. cbn [send_body session_ok canon_request] in *. open_body.
  apply andb_prop in Hok. destruct Hok as [Hok Hks]. apply andb_prop in Hok. destruct Hok as [Hts Hp].
  destruct (Z.eq_dec pv 1) as [->|Hne].
  - destruct m as [params cl serial fetch pstate ts skip cpo ks].
    unfold execute_write_query_params in H. unfold canon_params, ts_ok in *.
    cbn [q_params q_cl q_serial q_fetch q_paging_state q_timestamp q_skip_meta q_cpo q_keyspace] in *.
    ev_pv 1. destruct ts; [discriminate Hts|]. destruct ks; [discriminate Hks|]. cbv iota in *.
    apply cat_Some in H. destruct H as (bq & y & Hq & H & ->).
    apply cat_Some in H. destruct H as (b0 & y' & H0 & H & ->). inv_leaf H0.
    kill_raises2 H.
    destruct (truthy_z fetch) eqn:Ef; [discriminate H|]. destruct (truthy_b pstate) eqn:Ep; [discriminate H|].
    cbn [is_some orb] in H. cbv iota in H. kill_raises2 H.
    destruct params as [ps|]; [|discriminate H].
    inv_cat H. rewrite <- ?app_assoc; cbn [app]. step. step. step. reflexivity.
  - assert (Hp1 : (pv =? 1) = false) by (apply Z.eqb_neq; exact Hne).
    unfold execute_write_query_params in H. rewrite Hp1 in *.
    inv_cat H. rewrite <- ?app_assoc. step.
    erewrite bind_step by (eapply rt_rmid; eassumption).
    erewrite bind_step.
    2:{ eapply rt_query_params; eassumption. }
    reflexivity.
Qed.

Lemma pf_bit0 : forall b, bit (flag_if b c_PREPARED_WITH_KEYSPACE_FLAG) 0 = b.
Proof. destruct b; reflexivity. Qed.
Lemma pf_mask : forall b, only_bits (flag_if b c_PREPARED_WITH_KEYSPACE_FLAG) 1 = true.
Proof. destruct b; reflexivity. Qed.

Lemma body_prepare : forall pv q ks bs rest, supported pv = true ->
  send_body pv (Prepare q ks) = Some bs ->
  p_body pv (opcode (Prepare q ks)) (bs ++ rest) = Some (canon_request pv (Prepare q ks), rest).
Proof.
  intros pv q ks bs rest Hs H. cbn [send_body canon_request] in *. open_body.
  all_versions Hs; kill_raises2 H; cbn [flag_if Z.eqb] in H; cbv iota in *;
  inv_cat H; rewrite <- ?app_assoc; cbn [app]; step;
  try (step; rewrite pf_mask; cbn [negb]; cbv iota; rewrite pf_bit0; step); reflexivity.
Qed.

Lemma rt_shortbytes : forall s a rest, write_short (len s) = Some a -> p_string (a ++ s ++ rest) = Some (s, rest).
Proof. intros s a rest H. unfold p_string. rewrite (bind_step _ _ _ _ _ (rt_short _ _ _ H)). apply p_take_len. Qed.

Definition bquery_ok (pv : Z) (q : bquery) : bool := match q with BQ _ _ ps => values_ok pv ps end.

Lemma rt_bquery : forall pv q bs rest, bquery_ok pv q = true -> write_bquery q = Some bs ->
  p_bquery pv (bs ++ rest) = Some (canon_bquery q, rest).
Proof.
  intros pv [[|] s ps] bs rest Hok H; cbn [write_bquery bquery_ok canon_bquery] in *; unfold p_bquery;
  inv_cat H; rewrite <- ?app_assoc; cbn [app]; step; cbn [Z.eqb Pos.eqb]; cbv iota.
  - erewrite bind_step by (eapply rt_shortbytes; eassumption). step. reflexivity.
  - step. step. reflexivity.
Qed.

Lemma rt_bqueries : forall pv qs a b rest, forallb (bquery_ok pv) qs = true ->
  write_short (len qs) = Some a -> write_seq write_bquery qs = Some b ->
  p_list (p_bquery pv) (a ++ b ++ rest) = Some (map canon_bquery qs, rest).
Proof.
  intros pv qs a b rest Hok Ha Hb. rewrite app_assoc.
  eapply (rt_list write_bquery (p_bquery pv) canon_bquery (bquery_ok pv) (rt_bquery pv)); [exact Hok|].
  rewrite Ha, Hb. reflexivity.
Qed.

Lemma batch_flags_bits : forall s t k, let fl := batch_flags s t k in
  bit fl 4 = s /\ bit fl 5 = t /\ bit fl 7 = k /\ bit fl 8 = false /\ 0 <= fl /\
  only_bits fl 432 = true /\ only_bits fl 176 = true /\ (k = false -> only_bits fl 48 = true).
Proof. intros s t k. destruct s, t, k; vm_compute; repeat split; intros; congruence. Qed.
Lemma bf_bit4 : forall s t k, bit (batch_flags s t k) 4 = s. Proof. intros. apply batch_flags_bits. Qed.
Lemma bf_bit5 : forall s t k, bit (batch_flags s t k) 5 = t. Proof. intros. apply batch_flags_bits. Qed.
Lemma bf_bit7 : forall s t k, bit (batch_flags s t k) 7 = k. Proof. intros. apply batch_flags_bits. Qed.
Lemma bf_bit8 : forall s t k, bit (batch_flags s t k) 8 = false. Proof. intros. apply batch_flags_bits. Qed.
Lemma bf_nonneg : forall s t k, 0 <= batch_flags s t k. Proof. intros. apply batch_flags_bits. Qed.
Lemma bf_mask432 : forall s t k, only_bits (batch_flags s t k) 432 = true. Proof. intros. apply batch_flags_bits. Qed.
Lemma bf_mask176 : forall s t k, only_bits (batch_flags s t k) 176 = true. Proof. intros. apply batch_flags_bits. Qed.
Lemma bf_mask48 : forall s t, only_bits (batch_flags s t false) 48 = true. Proof. intros. apply batch_flags_bits. reflexivity. Qed.

Lemma body_batch : forall pv ty qs cl serial ts ks bs rest, supported pv = true ->
  session_ok pv (Batch ty qs cl serial ts ks) = true ->
  send_body pv (Batch ty qs cl serial ts ks) = Some bs ->
  p_body pv (opcode (Batch ty qs cl serial ts ks)) (bs ++ rest) = Some (canon_request pv (Batch ty qs cl serial ts ks), rest).
Proof.
  intros pv ty qs cl serial ts ks bs rest Hs Hok H. cbn [send_body session_ok canon_request] in *. open_body.
  apply andb_prop in Hok. destruct Hok as [Hok Hqs]. apply andb_prop in Hok. destruct Hok as [Hv Hts].
  change (forallb (bquery_ok pv) qs = true) in Hqs.
  do 4 (apply cat_Some in H; let x := fresh "p" in let Hx := fresh "Hp" in destruct H as (x & ? & Hx & H & ->)).
  rewrite <- ?app_assoc.
  all_versions Hs; try discriminate Hv; cbv iota in *; step;
  (erewrite bind_step by (eapply rt_bqueries; eassumption)); step.
  { (* v2 *) destruct (truthy_z serial) eqn:E1; [discriminate H|]. destruct ts; [discriminate H|]. destruct ks; [discriminate H|].
    cbn [is_some orb] in H. cbv iota in H. inv_cat H. reflexivity. }
    all: kill_raises2 H; cbn [is_some w_opt] in *; inv_cat H; rewrite <- ?app_assoc; cbn [app].
    all: first [ step | erewrite bind_step by (eapply rt_int_as_uint; [apply bf_nonneg | eassumption]) ].
    all: rewrite ?bf_mask48, ?bf_mask432, ?bf_mask176; cbn [negb]; cbv iota; rewrite ?bf_bit4, ?bf_bit5, ?bf_bit7, ?bf_bit8; cbn [is_some].
    all: do 4 step; reflexivity.
Qed.

Theorem rt_body : forall pv r bs rest, supported pv = true -> session_ok pv r = true ->
  send_body pv r = Some bs -> p_body pv (opcode r) (bs ++ rest) = Some (canon_request pv r, rest).
Proof.
  intros pv r bs rest Hs Hok H. destruct r.
  - apply body_startup; assumption.
  - apply body_options; assumption.
  - apply body_auth; assumption.
  - apply body_credentials; assumption.
  - apply body_query; assumption.
  - apply body_prepare; assumption.
  - apply body_execute; assumption.
  - apply body_batch; assumption.
  - apply body_register; assumption.
  - apply body_revise; assumption.
Qed.

(* ------------------------------------------------------------------ frames *)
(* ---- non-empty bodies *)
Definition ne (w : W) : Prop := forall x, w = Some x -> x <> [].
Lemma ne_None : ne None. Proof. intros x H. discriminate. Qed.
Lemma ne_pack_u : forall n z, ne (pack_u (S n) z).
Proof. intros n z x H. unfold pack_u in H. destruct (_ && _); [|discriminate]. injection H as <-. cbn [be_bytes]. intro E. apply app_eq_nil in E. destruct E; discriminate. Qed.
Lemma ne_pack_s : forall n z, ne (pack_s (S n) z).
Proof. intros n z x H. unfold pack_s in H. destruct (_ && _); [|discriminate]. injection H as <-. cbn [be_bytes]. intro E. apply app_eq_nil in E. destruct E; discriminate. Qed.
Lemma ne_cat_l : forall a b, ne a -> ne (a +++ b).
Proof. intros a b Ha x H. apply cat_Some in H. destruct H as (p & q & Hp & Hq & ->). intro E. apply app_eq_nil in E. destruct E as [E _]. exact (Ha _ Hp E). Qed.
Lemma ne_if : forall (c : bool) a b, ne a -> ne b -> ne (if c then a else b).
Proof. destruct c; auto. Qed.

Lemma send_body_nonempty : forall pv r b, send_body pv r = Some b -> r <> Options -> b <> [].
Proof.
  intros pv r b H Hr. revert b H. change (ne (send_body pv r)).
  destruct r; cbn [send_body]; try congruence;
  repeat first [ apply ne_None | apply ne_pack_u | apply ne_pack_s | apply ne_if | apply ne_cat_l ].
Qed.

Lemma bytesmap_nonempty : forall m b, write_bytesmap m = Some b -> b <> [].
Proof. intros m. change (ne (write_bytesmap m)). apply ne_cat_l. apply ne_pack_u. Qed.

Ltac inv_cat2 H :=
  match type of H with
  | cat _ _ = Some _ =>
      let x := fresh "b" in let y := fresh "b" in let Hx := fresh "Hw" in let Hy := fresh "Hw" in
      apply cat_Some in H; destruct H as (x & y & Hx & Hy & ->); inv_cat2 Hx; inv_cat2 Hy
  | _ => inv_leaf H
  end.
(* ---- header *)
Lemma pack_u_length : forall n z x, pack_u n z = Some x -> length x = n.
Proof. intros n z x H. unfold pack_u in H. destruct (_ && _); [|discriminate]. injection H as <-. apply be_bytes_length. Qed.
Lemma pack_s_length : forall n z x, pack_s n z = Some x -> length x = n.
Proof. intros n z x H. unfold pack_s in H. destruct (_ && _); [|discriminate]. injection H as <-. apply be_bytes_length. Qed.

Definition header_size (pv : Z) : nat := if pv <? 3 then 8%nat else 9%nat.

Lemma rt_header : forall pv fl st op n hdr body, supported pv = true -> 0 <= n ->
  write_header pv fl st op n = Some hdr ->
  p_header (hdr ++ body) = Some ({| h_version := pv; h_flags := fl; h_stream := st; h_opcode := op; h_length := n |}, body)
  /\ length hdr = header_size pv.
Proof.
  intros pv fl st op n hdr body Hs Hn H. unfold write_header in H. unfold p_header, header_size.
  all_versions Hs; cbv iota in *; inv_cat2 H; rewrite <- ?app_assoc; cbn [app];
  (split; [ step; ev_pv 1; ev_pv 2; ev_pv 3; ev_pv 4; ev_pv 5; ev_pv 6; ev_pv 65; ev_pv 66; cbn [negb]; cbv iota; step;
            (erewrite bind_step by (eapply rt_pack_s; [lia|eassumption])); step; step;
            destruct (Z.ltb_spec n 0); [lia|reflexivity]
          | rewrite !app_length;
            repeat match goal with
                   | Hx : write_byte _ = Some ?x |- _ => rewrite (pack_u_length _ _ _ Hx); clear Hx
                   | Hx : write_int _ = Some ?x |- _ => rewrite (pack_s_length _ _ _ Hx); clear Hx
                   | Hx : pack_s _ _ = Some ?x |- _ => rewrite (pack_s_length _ _ _ Hx); clear Hx
                   end; reflexivity ]).
Qed.

Lemma frame_flags_bits : forall hp c t b,
  let fl := Z.lor (Z.lor (Z.lor (flag_if hp c_CUSTOM_PAYLOAD_FLAG) (flag_if c c_COMPRESSED_FLAG)) (flag_if t c_TRACING_FLAG))
                  (flag_if b c_USE_BETA_FLAG) in
  bit fl 0 = c /\ bit fl 1 = t /\ bit fl 2 = hp /\ bit fl 4 = b.
Proof. destruct hp, c, t, b; vm_compute; repeat split. Qed.

Lemma len_eqb : forall {A} (l : list A), (Z.of_nat (length l) =? len l) = true.
Proof. intros. unfold len. apply Z.eqb_refl. Qed.

Section Frame.
  Variable compressor : option (bytes -> bytes).
  Variable decompress : list Z -> option (list Z).
  Hypothesis decompress_compress : forall c x, compressor = Some c -> decompress (c x) = Some x.

  Theorem frame_wellformed : forall pv e r bs, supported pv = true -> session_ok pv r = true ->
    encode_message pv compressor e r = Some bs ->
    (exists h body, p_header bs = Some (h, body) /\ h_length h = len body /\ h_version h = pv /\ h_opcode h = opcode r
                    /\ length bs = (header_size pv + length body)%nat)
    /\ spec_parse decompress bs = Some (canon pv (is_some compressor) e r (body_nonempty e r)).
  Proof.
    intros pv e r bs Hs Hok H. unfold encode_message in H.
    destruct (negb (is_nil (e_payload e)) && (pv <? 4)) eqn:Epl; [discriminate|].
    destruct ((if negb (is_nil (e_payload e)) then write_bytesmap (e_payload e) else wnil) +++ send_body pv r) as [body0|] eqn:Eb; [|discriminate].
    apply cat_Some in Eb. destruct Eb as (pl & sb & Hpl & Hsb & ->).
    apply cat_Some in H. destruct H as (hdr & body' & Hh & Hraw & ->). apply raw_Some in Hraw.
    rewrite <- Hraw in Hh. pose proof (len_nonneg body') as Hn.
    destruct (rt_header _ _ _ _ _ _ body' Hs Hn Hh) as [Hph Hlen].
    split.
    { eexists _, body'. split; [exact Hph|]. cbn [h_length h_version h_opcode]. repeat split. rewrite app_length, Hlen. reflexivity. }
    unfold spec_parse. rewrite Hph. cbn [h_length h_version h_flags h_opcode h_stream].
    rewrite len_eqb. cbn [negb]. cbv iota.
    set (hp := negb (is_nil (e_payload e))) in *.
    set (cmp := negb (pv_has_checksumming_support pv) && is_some compressor && negb (is_nil (pl ++ sb))) in *.
    destruct (frame_flags_bits hp cmp (e_tracing e) (e_beta e)) as (B0 & B1 & B2 & B4).
    rewrite B0, B1, B2, B4.
    (* the body is non-empty unless this is a bare OPTIONS *)
    assert (Hne : negb (is_nil (pl ++ sb)) = body_nonempty e r).
    { unfold body_nonempty. fold hp. destruct hp eqn:Ehp.
      - cbn [orb]. pose proof (bytesmap_nonempty _ _ Hpl). destruct pl; [congruence|reflexivity].
      - apply wnil_Some in Hpl. subst pl. cbn [app orb].
        destruct r; try (pose proof (send_body_nonempty _ _ _ Hsb) as X; destruct sb; [exfalso; apply X; [congruence|reflexivity]|reflexivity]).
        cbn [send_body] in Hsb. apply wnil_Some in Hsb. subst. reflexivity. }
    assert (Hc56 : cmp && ((pv =? 5) || (pv =? 6)) = false).
    { subst cmp. clear -Hs. apply supported_cases in Hs.
      destruct Hs as [->|[->|[->|[->|[->|[->|[->| ->]]]]]]]; try (rewrite andb_false_r; reflexivity); reflexivity. }
    rewrite Hc56.
    assert (Hdec : (if cmp then decompress body' else @Some (list Z) body') = Some (pl ++ sb)).
    { subst body'. destruct compressor as [c|] eqn:Ec.
      - fold cmp. destruct cmp; [apply (decompress_compress c); reflexivity|reflexivity].
      - subst cmp. cbn [is_some]. rewrite andb_false_r. reflexivity. }
    rewrite Hdec.
    assert (Hwp : hp && (4 <=? pv) = hp).
    { destruct hp; [|reflexivity]. cbn [andb] in *. destruct (Z.ltb_spec pv 4); [discriminate|]. apply Z.leb_le. lia. }
    rewrite Hwp.
    assert (Hpay : p_if hp p_bytesmap (pl ++ (sb ++ [])) = Some (if is_nil (e_payload e) then None else Some (e_payload e), sb ++ [])).
    { subst hp. destruct (is_nil (e_payload e)); cbn [negb] in *.
      - apply wnil_Some in Hpl. subst. reflexivity.
      - apply p_if_true. apply rt_bytesmap. exact Hpl. }
    rewrite <- (app_nil_r sb) at 1. rewrite (bind_step _ _ _ _ _ Hpay).
    rewrite (bind_step _ _ _ _ _ (rt_body _ _ _ [] Hs Hok Hsb)).
    unfold ret, canon. f_equal. f_equal.
    subst cmp. rewrite Hne. destruct (pv_has_checksumming_support pv), (is_some compressor), (body_nonempty e r); reflexivity.
  Qed.
End Frame.

(* ---- rejection of what a version cannot carry *)
Lemma cat_None_r : forall a, a +++ None = None.
Proof. destruct a; reflexivity. Qed.

Lemma qparams_rejects : forall pv m, supported pv = true -> qmsg_unsupported pv m = true -> write_query_params pv m = None.
Proof.
  intros pv m Hs H. unfold qmsg_unsupported, qmsg_unsupported_nk in H. unfold write_query_params.
  all_versions Hs;
  destruct (truthy_z (q_serial m)), (truthy_z (q_fetch m)), (truthy_b (q_paging_state m)), (q_cpo m), (q_keyspace m);
  cbn [is_some andb orb negb] in *; try discriminate H; reflexivity.
Qed.

Lemma execute_rejects : forall pv m, supported pv = true -> qmsg_unsupported_nk pv m = true -> execute_write_query_params pv m = None.
Proof.
  intros pv m Hs H. unfold execute_write_query_params.
  destruct (pv =? 1) eqn:E1; [|apply qparams_rejects; [assumption|unfold qmsg_unsupported; rewrite H; apply orb_true_r]].
  apply Z.eqb_eq in E1. subst pv. unfold qmsg_unsupported_nk in H. ev_pv 1.
  destruct (truthy_z (q_serial m)), (truthy_z (q_fetch m)), (truthy_b (q_paging_state m)), (q_cpo m), (q_keyspace m);
  cbn [is_some andb orb negb] in *; try discriminate H; try reflexivity.
Qed.

Theorem frame_rejects : forall pv compressor e r, supported pv = true -> carries_unsupported pv e r = true ->
  encode_message pv compressor e r = None.
Proof.
  intros pv compressor e r Hs H. unfold carries_unsupported in H. unfold encode_message.
  destruct (negb (is_nil (e_payload e)) && (pv <? 4)); [reflexivity|]. cbn [orb] in H.
  assert (Hb : send_body pv r = None).
  { destruct r; try discriminate H; cbn [send_body].
    - rewrite (qparams_rejects _ _ Hs H). apply cat_None_r.
    - rewrite H. reflexivity.
    - rewrite (execute_rejects _ _ Hs H). rewrite cat_None_r. apply cat_None_r.
    - apply orb_prop in H. destruct H as [H|H].
      + all_versions Hs; cbv iota; rewrite ?andb_false_r in H; try discriminate H;
        rewrite andb_true_r in H; destruct keyspace; try discriminate H; cbn [is_some andb negb];
        rewrite ?orb_true_r; cbv iota; rewrite ?cat_None_r; reflexivity.
      + all_versions Hs; cbn [andb] in H; try discriminate H; cbv iota; rewrite H; rewrite ?cat_None_r; reflexivity. }
  rewrite Hb, cat_None_r. reflexivity.
Qed.
