(* C14 (other statements sharing a connection): the stream the future points at (_connection, _req_id) is always one it sent
   itself on that connection, so _on_timeout can only withdraw its own request. *)
From Coq Require Import ZArith List Bool Lia.
From Verif Require Import FutureState FutureOnce.
Import ListNotations.
Local Open Scope Z_scope.

Definition OwnInv (s : state) : Prop :=
  forall r, cur_req s = Some r -> exists c, nth_error (map ahost (attempts s)) r = Some c /\ cur_conn s = Some c.

Definition own_frame (s s' : state) : Prop :=
  cur_req s' = cur_req s /\ cur_conn s' = cur_conn s /\ map ahost (attempts s') = map ahost (attempts s).

Lemma own_frame_refl s : own_frame s s.
Proof. repeat split. Qed.

Lemma own_frame_trans s1 s2 s3 : own_frame s1 s2 -> own_frame s2 s3 -> own_frame s1 s3.
Proof. unfold own_frame. intuition congruence. Qed.

Lemma own_keep s s' : own_frame s s' -> OwnInv s -> OwnInv s'.
Proof. intros (h1 & h2 & h3) H r Hr. rewrite h1 in Hr. rewrite h2, h3. apply H, Hr. Qed.

Lemma hosts_upd_close : forall k l, map ahost (upd_nth k close l) = map ahost l.
Proof. induction k as [|k IH]; intros [|x l]; cbn; try reflexivity. rewrite IH. reflexivity. Qed.

Lemma hosts_stale l : map ahost (map make_stale l) = map ahost l.
Proof. rewrite map_map. reflexivity. Qed.

Ltac split_matches := repeat match goal with |- context [match ?x with _ => _ end] => destruct x end.
Ltac frame_tac := split_matches; repeat split.

Lemma of_cancel s : own_frame s (cancel_timer s).
Proof. unfold cancel_timer. frame_tac. Qed.
Lemma of_page_timer_reset s : own_frame s (set_start (now s) (set_cur_timer None (cancel_timer s))).
Proof. eapply own_frame_trans; [apply of_cancel|]. repeat split. Qed.
Lemma of_start_timer s : own_frame s (start_timer s).
Proof. unfold start_timer, new_timer, time_remaining. cbn. frame_tac. Qed.

Section G.
Variables g pf : bool.

Lemma of_sfr v s : own_frame s (set_final_result g v s).
Proof. unfold set_final_result, cancel_timer. frame_tac. Qed.
Lemma of_sfe e s : own_frame s (set_final_exception g e s).
Proof. unfold set_final_exception, cancel_timer. frame_tac. Qed.
Lemma of_rows v m s : own_frame s (set_final_rows g v m s).
Proof. unfold set_final_rows, cancel_timer. frame_tac. Qed.
Lemma of_submit t s : own_frame s (submit_task g t s).
Proof. unfold submit_task. destruct (shut s); [apply of_sfe|repeat split]. Qed.

Lemma Own_query_gen prep h s : OwnInv s -> OwnInv (fst (query_gen prep h s)).
Proof.
  intros H. unfold query_gen. destruct (pool_of _ _); cbn [fst].
  - intros r Hr. cbn in Hr. inversion Hr. subst r. exists h. cbn. rewrite map_app, nth_error_app2; rewrite map_length; [|lia].
    rewrite Nat.sub_diag. split; reflexivity.
  - eapply own_keep; [|exact H]. repeat split.
  - intros r Hr. discriminate.
  - exact H.
  - exact H.
Qed.

Lemma Own_on_timeout n s : OwnInv s -> OwnInv (on_timeout g n s).
Proof.
  intros H. unfold on_timeout. destruct (cur_conn s) eqn:Ec.
  - destruct (cur_req s) eqn:Er; [destruct (req_open_on _ _ _)|]; (eapply own_keep; [|exact H]);
      (eapply own_frame_trans; [|apply of_sfe]); repeat split; cbn; try apply hosts_upd_close; assumption.
  - destruct (n <? 3)%nat; (eapply own_keep; [|exact H]); [repeat split|].
    eapply own_frame_trans; [|apply of_sfe]. repeat split.
Qed.

Lemma Own_send_loop err : forall pl s, OwnInv s -> OwnInv (send_loop g err pl s).
Proof.
  induction pl as [|h rest IH]; intros s H; cbn [send_loop].
  - destruct err; (eapply own_keep; [|exact H]); [|repeat split].
    eapply own_frame_trans; [|apply of_sfe]. repeat split.
  - pose proof (Own_query_gen false h s H) as Hq. fold (query h s) in Hq. destruct (query h s) as [s1 r]. cbn [fst] in Hq.
    destruct r.
    + eapply own_keep; [|exact Hq]. repeat split.
    + destruct (timed_out_now s1).
      * apply Own_on_timeout. eapply own_keep; [|exact Hq]. repeat split.
      * apply IH, Hq.
Qed.

Lemma Own_query_then_send prep h s : OwnInv s ->
  OwnInv (let '(s1, r) := query_gen prep h s in match r with Some _ => s1 | None => send_request g true s1 end).
Proof.
  intros H. pose proof (Own_query_gen prep h s H) as Hq. destruct (query_gen prep h s) as [s1 r]. cbn [fst] in Hq.
  destruct r; [exact Hq|apply Own_send_loop, Hq].
Qed.

Lemma Own_on_spec s : OwnInv s -> OwnInv (on_spec g s).
Proof.
  intros H. unfold on_spec. set (s0 := set_cur_timer None s).
  assert (H0 : OwnInv s0) by (eapply own_keep; [|exact H]; repeat split).
  change (event s0) with (event s). change (attempts s0) with (attempts s).
  destruct (event s); [exact H0|]. destruct (attempts s) eqn:Ea.
  - eapply own_keep; [|exact H0]. repeat split.
  - match goal with |- context [if ?c then _ else _] => destruct c end.
    + apply Own_on_timeout, H0.
    + eapply own_keep; [apply of_start_timer|]. apply Own_send_loop, H0.
Qed.

Lemma Own_run_task t s : OwnInv s -> OwnInv (run_task g t s).
Proof.
  intros H. destruct t as [reuse h|h|h a pk]; cbn [run_task].
  - unfold retry_task. destruct (is_some (fexc s)); [exact H|].
    destruct reuse; [apply (Own_query_then_send false h s H)|apply Own_send_loop, H].
  - apply (Own_query_then_send true h s H).
  - unfold after_prepare. destruct (is_some (fexc s)); [exact H|].
    destruct pk; try (eapply own_keep; [apply of_sfe|exact H]).
    + apply (Own_query_then_send false h s H).
    + apply Own_send_loop, H.
Qed.

Lemma Own_set_result a h k s : OwnInv s -> OwnInv (set_result g a h k s).
Proof.
  intros H. destruct k as [more| |d| | | | |]; cbn [set_result]; (eapply own_keep; [|exact H]).
  - apply of_rows.
  - apply of_sfr.
  - destruct d; [| |apply of_sfe|apply of_sfr];
      (unfold retry; match goal with |- context [is_some ?x] => destruct (is_some x) end; [repeat split|];
       eapply own_frame_trans; [|apply of_submit]; repeat split).
  - apply of_sfe.
  - apply of_submit.
  - unfold start_refresh. destruct (shut s); [apply of_sfr|repeat split].
  - unfold start_chain. destruct (ks_hosts (pools s)); [apply of_sfr|repeat split].
  - eapply own_frame_trans; [apply of_cancel|apply of_sfe].
Qed.

(* closing attempt a and forgetting it if it is the one pointed at *)
Lemma Own_clear_close a s : OwnInv s -> OwnInv (clear_req a (set_attempts (upd_nth a close (attempts s)) s)).
Proof.
  intros H r Hr. cbn in Hr. destruct (cur_req s) as [r0|] eqn:E; [|discriminate].
  destruct (r0 =? a)%nat; [discriminate|]. inversion Hr. subst r0.
  cbn [attempts cur_conn clear_req set_cur_req set_attempts]. rewrite hosts_upd_close. apply H, E.
Qed.

Lemma Own_step s o : OwnInv s -> OwnInv (step g pf s o).
Proof.
  intros H. destruct o as [|ps|d|a k|k|k|pl| | |c h err|a pk|fh| |k]; cbn [step].
  - apply Own_send_loop. eapply own_keep; [|exact H]. repeat split.
  - eapply own_keep; [|exact H]. repeat split.
  - eapply own_keep; [|exact H]. repeat split.
  - destruct (nth_error (attempts s) a) as [at_|]; [|exact H]. destruct (aopen at_ && negb (aprep at_)); [|exact H].
    destruct (astale at_); [apply Own_clear_close, H|]. apply Own_set_result, Own_clear_close, H.
  - destruct (nth_error (timers s) k) as [t|]; [|exact H]. destruct (live t && (due t <=? now s)); [|exact H].
    destruct (tk t); [apply Own_on_spec|apply Own_on_timeout]; (eapply own_keep; [|exact H]); repeat split.
  - destruct (nth_error (queue s) k) as [t|]; [|exact H]. apply Own_run_task. eapply own_keep; [|exact H]. repeat split.
  - destruct (paging s); [|exact H]. unfold next_page. apply Own_send_loop.
    eapply own_keep; [apply of_start_timer|].
    assert (Hr : OwnInv (page_reset pl s)).
    { eapply own_keep; [|exact H]. repeat split. cbn. apply hosts_stale. }
    unfold page_timer_reset. destruct pf; [|exact Hr].
    eapply own_keep; [apply of_page_timer_reset|exact Hr].
  - eapply own_keep; [|exact H]. repeat split.
  - destruct (result_call s); [|exact H]. eapply own_keep; [|exact H]. repeat split.
  - unfold ks_report. destruct (nth_error (chains s) c) as [[hs e]|]; [|exact H]. destruct (mem_z h hs); [|exact H].
    destruct (remove_z h hs); [|eapply own_keep; [|exact H]; repeat split].
    destruct (e || err); (eapply own_keep; [|exact H]); (eapply own_frame_trans; [|first [apply of_sfe|apply of_sfr]]); repeat split.
  - destruct (nth_error (attempts s) a) as [at_|]; [|exact H]. destruct (aopen at_ && aprep at_); [|exact H].
    eapply own_keep; [apply of_submit|]. apply Own_clear_close, H.
  - exact H.
  - eapply own_keep; [|exact H]. repeat split.
  - destruct (refreshes s) as [|n]; [exact H|]. destruct (k <=? n)%nat; [|exact H].
    eapply own_keep; [|exact H]. eapply own_frame_trans; [|apply of_sfr]. repeat split.
Qed.

Lemma Own_init c : OwnInv (init c).
Proof. unfold init. eapply own_keep; [apply of_start_timer|]. intros r Hr. discriminate. Qed.

Lemma Own_run : forall h s, OwnInv s -> OwnInv (run g pf s h).
Proof. induction h as [|o h IH]; intros s H; [exact H|]. cbn. apply IH, Own_step, H. Qed.

End G.
