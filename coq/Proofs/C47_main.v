(* Main lemmas behind Props/C47.v (statements repeated there). *)
From Coq Require Import ZArith List Bool.
From Verif Require Import Handshake C47_proofs.
Import ListNotations.
Local Open Scope Z_scope.

Lemma c47_ready_only_after_lemma : forall cfg rs, c_guard cfg = true ->
  reported_ready (fst (run cfg rs)) = true ->
  (exists remote rest, rs = RSupported remote :: rest) /\ (In RReady rs \/ In RAuthSuccess rs).
Proof.
  intros cfg rs Hg H. unfold run in H. destruct (run_from cfg init_state rs) as [s o] eqn:E. cbn [fst] in H.
  assert (H' : reported_ready (fst (run_from cfg init_state rs)) = true) by (rewrite E; exact H).
  split.
  - destruct rs as [|r rest]; [cbn in E; inversion E; subst; discriminate|].
    destruct r; try (eexists; eexists; reflexivity); exfalso;
    (cbn [run_from] in H';
     match type of H' with context[step cfg init_state ?r] =>
       pose proof (first_not_supported cfg r) as Hf; pose proof (inv_step cfg init_state r inv_init) as Hi;
       destruct (step cfg init_state r) as [s1 o1] eqn:E1 end;
     cbn [fst] in *;
     assert (Hne : last_error s1 <> None) by (destruct Hf as [Hf|[Hf1 Hf2]]; [discriminate | exact Hf | congruence]);
     destruct (last_error s1) as [e|] eqn:Ee; [|congruence];
     pose proof (error_final cfg rest s1 e Hi Ee) as Hfin;
     destruct (run_from cfg s1 rest) as [s2 o2]; cbn [fst] in *;
     unfold reported_ready in H'; rewrite Hfin in H'; rewrite andb_false_r in H'; discriminate).
  - destruct (ready_run_from cfg rs init_state Hg H') as [Hc|Hc]; [discriminate Hc | exact Hc].
Qed.

Lemma c47_error_kinds_lemma : forall cfg rs,
  let s := fst (run cfg rs) in
  (last_error s = Some EAuthFailed ->
     In RAuthenticate rs /\ (c_auth cfg = ANone \/ exists k, In (RError k) rs))
  /\ (forall post, c_auth cfg = ANone -> (exists did, pending s = Some (CbStartup did)) ->
        last_error (fst (run cfg (rs ++ RAuthenticate :: post))) = Some EAuthFailed)
  /\ (forall post, pending s = Some CbAuth \/ pending s = Some (CbStartup true) ->
        last_error (fst (run cfg (rs ++ RError EkAuth :: post))) = Some EAuthFailed)
  /\ (forall e, last_error s = Some e ->
        connected s = true /\ reported_ready s = false /\
        forall more, last_error (fst (run cfg (rs ++ more))) = Some e)
  /\ (connected s = false -> last_error s = None /\ exists c, pending s = Some c).
Proof.
  intros cfg rs. unfold run.
  pose proof (inv_run_from cfg rs init_state inv_init) as HI.
  pose proof (authfailed_run_from cfg rs init_state) as HA.
  destruct (run_from cfg init_state rs) as [s o] eqn:E. cbn [fst] in *.
  assert (Happ : forall more, fst (let '(s0, o0) := run_from cfg init_state (rs ++ more) in (s0, init_frames cfg ++ o0))
                              = fst (run_from cfg s more)).
  { intro more. rewrite run_from_app, E. destruct (run_from cfg s more); reflexivity. }
  repeat split.
  - destruct (HA H) as [H1|[[H1 H2]|[[H1|H1] _]]]; try discriminate; auto.
  - destruct (HA H) as [H1|[[H1 H2]|[[H1|H1] _]]]; try discriminate; auto.
  - intros post Ha [did Hp]. rewrite Happ. cbn [run_from].
    pose proof (authenticate_without_authenticator cfg s did HI Hp Ha) as H1.
    pose proof (inv_step cfg s RAuthenticate HI) as H2.
    destruct (step cfg s RAuthenticate) as [s1 o1]. cbn [fst] in *.
    pose proof (error_final cfg post s1 _ H2 H1) as H3. destruct (run_from cfg s1 post); exact H3.
  - intros post Hp. rewrite Happ. cbn [run_from].
    pose proof (credentials_rejected cfg s HI Hp) as H1.
    pose proof (inv_step cfg s (RError EkAuth) HI) as H2.
    destruct (step cfg s (RError EkAuth)) as [s1 o1]. cbn [fst] in *.
    pose proof (error_final cfg post s1 _ H2 H1) as H3. destruct (run_from cfg s1 post); exact H3.
  - destruct HI as [I1 _ _ _]. apply I1. congruence.
  - unfold reported_ready. rewrite H. apply andb_false_r.
  - intro more. rewrite Happ. apply error_final; auto.
  - destruct HI as [I1 _ _ _]. destruct (last_error s); auto. destruct I1 as [I1 _]; congruence.
  - destruct HI as [_ _ _ I4]. destruct (pending s) eqn:Ep; [eexists; reflexivity|].
    destruct I4 as [_ I4]. specialize (I4 eq_refl). congruence.
Qed.

Lemma c47_compression_both_sides_lemma : forall cfg rs a,
  let s := fst (run cfg rs) in
  (pcomp s = Some a \/ comp s = Some a \/ decomp s = Some a
   \/ exists f, In f (snd (run cfg rs)) /\ f_kind f = MStartup (Some a)) ->
  In a (c_local cfg)
  /\ (exists remote rest, rs = RSupported remote :: rest /\ In a remote)
  /\ c_comp cfg <> CompOff /\ (forall n, c_comp cfg = CompName n -> a = n)
  /\ ~ (a = snappy /\ has_cs (c_version cfg) = true).
Proof.
  intros cfg rs a. unfold run.
  destruct rs as [|r rest].
  { cbn. intros [H|[H|[H|[f [[H|[]] H2]]]]]; try discriminate. subst f. discriminate. }
  cbn [run_from].
  destruct r as [remote| | | | | | | |].
  2-9: (match goal with |- context[step ?cfg init_state ?r] =>
       assert (Hns : forall rem, r <> RSupported rem) by (intros; discriminate);
       destruct (names_first_other cfg r Hns) as [N1 [N2 N3]];
       destruct (step cfg init_state r) as [s1 o1] end;
     cbn [fst snd] in *;
     destruct (names_run_later cfg [] [] rest s1 N2 N1) as [N4 N5];
     destruct (run_from cfg s1 rest) as [s2 o2]; cbn [fst snd] in *;
     intros [H|[H|[H|[f [Hin H2]]]]];
     try (exfalso; destruct (N4 a) as [[] _]; auto; fail);
     cbn in Hin; destruct Hin as [Hin|Hin]; [subst f; discriminate|];
     apply in_app_or in Hin; destruct Hin as [Hin|Hin];
     [destruct (N3 f a Hin H2) as [[] _] | destruct (N5 f a Hin H2) as [[] _]]).
  pose proof (names_first_supported cfg remote) as N. cbn zeta in N. destruct N as [N1 [N2 N3]].
  assert (Hcfg : forall x, (pcomp (fst (step cfg init_state (RSupported remote))) = Some x
                            \/ exists f, In f (snd (step cfg init_state (RSupported remote))) /\ f_kind f = MStartup (Some x)) ->
                 c_comp cfg <> CompOff /\ (forall n, c_comp cfg = CompName n -> x = n) /\ ~ (x = snappy /\ has_cs (c_version cfg) = true)).
  { intros x Hx. cbn [step init_state pending clear_pending handle_options] in Hx.
    destruct (negotiate cfg remote) as [|a0|e] eqn:En.
    - exfalso. destruct Hx as [Hx|[f [Hin Hk]]]; [cbn in Hx; discriminate|].
      cbn in Hin. destruct Hin as [Hin|[]]. subst f. discriminate.
    - apply negotiate_some in En. destruct En as [_ [_ [E1 [E2 E3]]]].
      assert (x = a0).
      { destruct Hx as [Hx|[f [Hin Hk]]]; [cbn in Hx; congruence|].
        cbn in Hin. destruct Hin as [Hin|[]]. subst f. cbn in Hk. congruence. }
      subst a0. repeat split; auto. intros [Hs Hv]. subst x. rewrite Hv in E3. discriminate.
    - exfalso. destruct Hx as [Hx|[f [Hin Hk]]].
      + unfold do_defunct in Hx. cbn in Hx. discriminate.
      + cbn in Hin. destruct Hin. }
  (* the staged name never changes after the first step, and STARTUP is only sent in the first step *)
  assert (Hstage : forall rs0 s0, pending s0 <> Some CbOptions ->
            pcomp (fst (run_from cfg s0 rs0)) = pcomp s0
            /\ forall f x, In f (snd (run_from cfg s0 rs0)) -> f_kind f <> MStartup x).
  { induction rs0 as [|r0 rs0 IH]; intros s0 Hp0; cbn [run_from].
    - split; [reflexivity | intros f x []].
    - assert (Hst : pcomp (fst (step cfg s0 r0)) = pcomp s0 /\ pending (fst (step cfg s0 r0)) <> Some CbOptions
                    /\ forall f x, In f (snd (step cfg s0 r0)) -> f_kind f <> MStartup x).
      { destruct s0 as [p pc c d ck sl cn df cl le]. cbn in Hp0.
        destruct p as [[| |]|]; try congruence; destruct r0; cbn;
          unfold handle_startup, handle_auth, send, enable, set_connected, do_defunct, do_close, clear_pending, mk_frame; cbn;
          repeat (break_goal; cbn); repeat split; try congruence; try tauto;
          intros f x [Hf|[]]; subst f; discriminate. }
      destruct Hst as [S1 [S2 S3]]. destruct (step cfg s0 r0) as [s1 o1]. cbn [fst snd] in *.
      destruct (IH s1 S2) as [S4 S5]. destruct (run_from cfg s1 rs0) as [s2 o2]. cbn [fst snd] in *.
      split; [congruence|]. intros f x Hin. apply in_app_or in Hin. destruct Hin; [eapply S3 | eapply S5]; eauto. }
  destruct (step cfg init_state (RSupported remote)) as [s1 o1] eqn:E1. cbn [fst snd] in *.
  destruct (names_run_later cfg (c_local cfg) remote rest s1 N2 N1) as [N4 N5].
  destruct (Hstage rest s1 N2) as [G1 G2].
  (* comp and decomp are only ever copies of the staged name *)
  assert (Hcopy : forall rs0 s0, pending s0 <> Some CbOptions ->
            (forall x, comp s0 = Some x \/ decomp s0 = Some x -> pcomp s0 = Some x) ->
            forall x, comp (fst (run_from cfg s0 rs0)) = Some x \/ decomp (fst (run_from cfg s0 rs0)) = Some x -> pcomp s0 = Some x).
  { induction rs0 as [|r0 rs0 IH]; intros s0 Hp0 Hc0; cbn [run_from]; auto.
    assert (Hst : pcomp (fst (step cfg s0 r0)) = pcomp s0 /\ pending (fst (step cfg s0 r0)) <> Some CbOptions
                  /\ forall x, comp (fst (step cfg s0 r0)) = Some x \/ decomp (fst (step cfg s0 r0)) = Some x -> pcomp s0 = Some x).
    { destruct s0 as [p pc c d ck sl cn df cl le]. cbn in Hp0, Hc0.
      destruct p as [[| |]|]; try congruence; destruct r0; cbn;
        unfold handle_startup, handle_auth, send, enable, set_connected, do_defunct, do_close, clear_pending, mk_frame; cbn;
        repeat (break_goal; cbn); repeat split; try congruence; try tauto;
        intros x [Hx|Hx]; try (apply Hc0; auto; fail); try congruence. }
    destruct Hst as [S1 [S2 S3]]. destruct (step cfg s0 r0) as [s1' o1']. cbn [fst snd] in *.
    pose proof (IH s1' S2) as IH'. destruct (run_from cfg s1' rs0) as [s2' o2']. cbn [fst] in *.
    intros x Hx. rewrite <- S1. eapply IH'; [|exact Hx]. intros y Hy. rewrite S1. apply S3. exact Hy. }
  assert (Hc1 : forall x, comp s1 = Some x \/ decomp s1 = Some x -> pcomp s1 = Some x).
  { cbn [step init_state pending clear_pending handle_options] in E1.
    destruct (negotiate cfg remote) as [|a0|e]; inversion E1; subst; cbn; intros x [Hx|Hx]; try discriminate; auto. }
  pose proof (Hcopy rest s1 N2 Hc1) as Hq.
  destruct (run_from cfg s1 rest) as [s2 o2]. cbn [fst snd] in *.
  intro H.
  assert (Hboth : In a (c_local cfg) /\ In a remote).
  { destruct H as [H|[H|[H|[f [Hin H2]]]]]; try (apply N4; auto; fail).
    cbn in Hin. destruct Hin as [Hin|Hin]; [subst f; discriminate|].
    apply in_app_or in Hin. destruct Hin as [Hin|Hin]; [eapply N3 | eapply N5]; eauto. }
  destruct Hboth as [Hl Hr]. split; auto. split; [exists remote, rest; auto|].
  (* configuration facts: reduce to the name staged / announced in the first step *)
  assert (Hx : pcomp s1 = Some a \/ exists f, In f o1 /\ f_kind f = MStartup (Some a)).
  {     destruct H as [H|[H|[H|[f [Hin H2]]]]].
    - left. congruence.
    - left. apply (Hq a). left. exact H.
    - left. apply (Hq a). right. exact H.
    - right. cbn in Hin. destruct Hin as [Hin|Hin]; [subst f; discriminate|].
      apply in_app_or in Hin. destruct Hin as [Hin|Hin]; [exists f; auto | exfalso; eapply G2; eauto]. }
  apply Hcfg. exact Hx.
Qed.

Lemma c47_compress_only_after_accept_lemma : forall cfg rs,
  (forall r, In r rs -> r <> RReady /\ r <> RAuthenticate) ->
  comp (fst (run cfg rs)) = None /\
  forall f, In f (snd (run cfg rs)) -> f_compressed f = false /\ f_segcomp f = false /\ f_checksummed f = false.
Proof.
  intros cfg rs Hall. unfold run.
  assert (Hb : forallb (fun r => negb (is_accept r)) rs = true).
  { apply forallb_forall. intros r Hin. destruct (Hall r Hin) as [H1 H2]. destruct r; auto; congruence. }
  assert (Hp : pre_accept init_state) by (unfold pre_accept; cbn; auto).
  destruct (pre_accept_run cfg rs init_state Hb Hp) as [[H1 _] H2].
  destruct (run_from cfg init_state rs) as [s o]. cbn [fst snd] in *. split; auto.
  intros f Hin. apply in_app_or in Hin. destruct Hin as [Hin|Hin].
  - cbn in Hin. destruct Hin as [Hin|[]]. subst f. cbn. rewrite ?andb_false_r. auto.
  - rewrite Forall_forall in H2. apply H2. exact Hin.
Qed.

Lemma c47_checksumming_iff_v5_lemma : forall cfg rs, c_guard cfg = true ->
  let s := fst (run cfg rs) in
  (cksum s = true -> has_cs (c_version cfg) = true)
  /\ (reported_ready s = true -> cksum s = has_cs (c_version cfg))
  /\ (forall f, In f (snd (run cfg rs)) -> f_checksummed f = true -> has_cs (c_version cfg) = true)
  /\ (forall v, In v [1; 2; 3; 4; 5; 6; 65; 66] -> (has_cs v = true <-> v = 5 \/ v = 6)).
Proof.
  intros cfg rs Hg. unfold run.
  assert (Hgen : forall rs0 s0, CkInv (c_version cfg) s0 ->
            CkInv (c_version cfg) (fst (run_from cfg s0 rs0))
            /\ Forall (fun f => f_checksummed f = true -> has_cs (c_version cfg) = true) (snd (run_from cfg s0 rs0))).
  { induction rs0 as [|r0 rs0 IH]; intros s0 H0; cbn [run_from].
    - split; [exact H0 | constructor].
    - destruct (ck_step cfg s0 r0 Hg H0) as [H1 H2]. destruct (step cfg s0 r0) as [s1 o1]. cbn [fst snd] in *.
      destruct (IH s1 H1) as [H3 H4]. destruct (run_from cfg s1 rs0) as [s2 o2]. cbn [fst snd] in *.
      split; auto. apply Forall_app; auto. }
  assert (H0 : CkInv (c_version cfg) init_state).
  { constructor; unfold authphase, reported_ready; cbn; intros; try discriminate. destruct H; discriminate. }
  destruct (Hgen rs init_state H0) as [[K1 K2 K3] HF].
  destruct (run_from cfg init_state rs) as [s o]. cbn [fst snd] in *.
  repeat split; auto.
  - intros f Hin. apply in_app_or in Hin. destruct Hin as [Hin|Hin].
    + cbn in Hin. destruct Hin as [Hin|[]]. subst f. cbn. discriminate.
    + rewrite Forall_forall in HF. apply HF. exact Hin.
  - intro Hv. cbn in H. repeat (destruct H as [H|H]; [subst v; cbn in Hv; try discriminate; auto|]). destruct H.
  - intro Hv. cbn in H. destruct Hv; subst v; reflexivity.
Qed.

Lemma c47_handshake_is_final_lemma : forall cfg rs r, connected (fst (run cfg rs)) = true ->
  r <> RDisconnect -> r <> RSockErr -> fst (run cfg (rs ++ [r])) = fst (run cfg rs).
Proof.
  intros cfg rs r Hc H1 H2. unfold run in *. rewrite run_from_app.
  pose proof (inv_run_from cfg rs init_state inv_init) as HI.
  destruct (run_from cfg init_state rs) as [s o]. cbn [fst] in *. cbn [run_from].
  rewrite (connected_replies_dropped cfg s r HI Hc H1 H2). reflexivity.
Qed.

