(* Bridge between the hand model of the CRC-24 that the C06 theorems talk about (Model/Crc.v, tied to the code by
   correspondence) and the function REGENERATED from cassandra/segment.py on every run (Gen/SegmentGen.v, tie (T)):
   they are the same function of (data, length), for every integer data and every length.  With it the C06 statements
   about Crc.compute_crc24 are statements about what the source says now. *)
From Coq Require Import ZArith List Bool Lia.
Require Verif.Model.Crc Verif.Model.Crc24 Verif.Gen.SegmentConsts Verif.Gen.SegmentGen Verif.Proofs.SegmentCrc_proofs.
Import ListNotations.
Local Open Scope Z_scope.

Lemma poly_eq : Crc.CRC24_POLY = SegmentConsts.CRC24_POLY.
Proof. reflexivity. Qed.

Lemma init_eq : Crc.CRC24_INIT = SegmentConsts.CRC24_INIT.
Proof. reflexivity. Qed.

Lemma bit_is_step : forall c, Crc.crc24_bit c = Crc24.crc24_step c.
Proof.
  intros c. rewrite <- SegmentCrc_proofs.gen_step. unfold Crc.crc24_bit. cbv zeta. rewrite poly_eq.
  change 0x1000000 with 16777216. change SegmentConsts.CRC24_POLY with 26693387.
  destruct (Z.land (Z.shiftl c 1) 16777216 =? 0); reflexivity.
Qed.

Lemma iter_ext {A} (f g : A -> A) : (forall x, f x = g x) -> forall n x, Crc.iter n f x = Nat.iter n g x.
Proof.
  intros H n. induction n as [|n IH]; intros x; [reflexivity|].
  cbn [Crc.iter]. rewrite IH, H. symmetry. apply SegmentCrc_proofs.iter_succ_r.
Qed.

Lemma hand_from_spec : forall n c d,
  Crc.iter n Crc.crc24_byte (c, d) =
  (Crc24.crc24_from c (Crc24.le_bytes n d), Z.shiftr d (8 * Z.of_nat n)).
Proof.
  induction n as [|n IH]; intros c d.
  - cbn [Crc.iter Crc24.le_bytes]. unfold Crc24.crc24_from. cbn [fold_left]. rewrite Z.shiftr_0_r. reflexivity.
  - cbn [Crc.iter]. unfold Crc.crc24_byte at 2. rewrite IH. cbn [Crc24.le_bytes].
    rewrite SegmentCrc_proofs.crc24_from_cons. f_equal.
    + f_equal. rewrite SegmentCrc_proofs.crc24_byte_unfold.
      rewrite (iter_ext Crc.crc24_bit Crc24.crc24_step bit_is_step).
      change 255 with (Z.ones 8). rewrite Z.land_ones by lia. reflexivity.
    + rewrite Z.shiftr_shiftr by lia. f_equal. lia.
Qed.

(* the hand model used by the C06 theorems = the clean byte-list reference *)
Theorem hand_crc24_ref : forall data n, Crc.compute_crc24 data n = Crc24.crc24_ref (Crc24.le_bytes n data).
Proof.
  intros data n. unfold Crc.compute_crc24, Crc.crc24_from. rewrite hand_from_spec. cbn [fst].
  unfold Crc24.crc24_ref. rewrite init_eq. reflexivity.
Qed.

(* the regenerated source function = the hand model, for every integer and every length *)
Theorem source_crc24_is_model : forall data len,
  SegmentGen.compute_crc24 data len = Crc.compute_crc24 data (Z.to_nat len).
Proof. intros data len. rewrite SegmentCrc_proofs.compute_crc24_ref, hand_crc24_ref. reflexivity. Qed.

(* ------------------------------------------------------------------ header encoder *)
Require Verif.Model.Stream Verif.Model.Segment Verif.Base.PyBase.
Import PyBase.

Lemma le_bytes_eq : forall n d, Crc24.le_bytes n d = Segment.le_bytes n d.
Proof.
  induction n as [|n IH]; intros d; [reflexivity|]. cbn [Crc24.le_bytes Segment.le_bytes].
  rewrite IH. f_equal. change 255 with (Z.ones 8). rewrite Z.land_ones by lia. reflexivity.
Qed.

Lemma header_length_eq : forall c, SegmentGen.header_length c = Segment.header_length c.
Proof. intros c. reflexivity. Qed.

(* SegmentCodec.encode_header as the source has it now: it raises exactly when payload_length > MAX_PAYLOAD_LENGTH, and
   otherwise the records it hands to write_uint_le flush to exactly the header bytes of the hand model *)
Theorem source_encode_header_is_model : forall c pl ul sc, pl <= Segment.MAX_PAYLOAD_LENGTH ->
  exists recs, SegmentGen.encode_header pl ul sc c (SegmentGen.header_length c) = Ok recs /\
               concat (map Crc24.write_uint_le_model recs) = Segment.encode_header c pl ul sc.
Proof.
  intros c pl ul sc Hpl. unfold Segment.MAX_PAYLOAD_LENGTH in Hpl.
  unfold SegmentGen.encode_header. cbv zeta.
  destruct (pl >? 131071) eqn:E; [lia|].
  unfold Segment.encode_header, Segment.header_data, Segment.header_length, SegmentGen.header_length. cbv zeta.
  destruct c, sc; eexists; (split; [reflexivity|]);
    cbn [map concat app]; unfold Crc24.write_uint_le_model; cbn [fst snd]; rewrite app_nil_r, !le_bytes_eq;
    rewrite source_crc24_is_model; reflexivity.
Qed.

Theorem source_encode_header_rejects : forall c pl ul sc hl, Segment.MAX_PAYLOAD_LENGTH < pl ->
  SegmentGen.encode_header pl ul sc c hl = Raise.
Proof.
  intros c pl ul sc hl H. unfold Segment.MAX_PAYLOAD_LENGTH in H. unfold SegmentGen.encode_header. cbv zeta.
  destruct (pl >? 131071) eqn:E; [reflexivity|lia].
Qed.

(* ------------------------------------------------------------------ header decoder inside parse_seg *)
(* what _process_segment_buffer does after the header has been accepted, as a function of the two header fields *)
Definition seg_tail (c : bool) (decompress : list Z -> Z -> list Z) (pl ul : Z) (io : list Z) : Segment.sres :=
  if Stream.blen io <? SegmentGen.segment_length pl ul then Segment.SNeed
  else
    let hlc := Z.to_nat (Segment.header_length_with_crc c) in
    let enc := firstn (Z.to_nat pl) (skipn hlc io) in
    let pcrc := Segment.le_val (firstn 4 (skipn (hlc + Z.to_nat pl) io)) in
    if negb (Crc.compute_crc32 enc Crc.CRC32_INITIAL =? pcrc) then Segment.SBad
    else Segment.SOk (if c && (0 <? ul) then decompress enc ul else enc)
                     (skipn (hlc + Z.to_nat pl + 4) io).

(* the header step of the hand model's parse_seg IS the regenerated SegmentCodec.decode_header (and
   SegmentHeader.segment_length), applied to the little-endian value of the header bytes and of the 3 CRC bytes *)
Theorem source_decode_header_in_parse_seg : forall c decompress io,
  Segment.header_length_with_crc c <= Stream.blen io ->
  let hl := Z.to_nat (Segment.header_length c) in
  Segment.parse_seg c decompress io =
  match SegmentGen.decode_header c (SegmentGen.header_length c)
          (Segment.le_val (firstn hl io)) (Segment.le_val (firstn 3 (skipn hl io))) with
  | Ok (pl, ul, _) => seg_tail c decompress pl ul io
  | _ => Segment.SBad
  end.
Proof.
  intros c decompress io Hlen. cbv zeta. unfold Segment.parse_seg.
  destruct (Stream.blen io <? Segment.header_length_with_crc c) eqn:E; [lia|]. cbv zeta.
  unfold SegmentGen.decode_header. cbv zeta. rewrite source_crc24_is_model. change (SegmentGen.header_length c) with (Segment.header_length c).
  destruct (negb (Crc.compute_crc24 _ _ =? _)); [reflexivity|].
  unfold seg_tail, SegmentGen.segment_length, Segment.MAX_PAYLOAD_LENGTH, Crc.CRC24_LENGTH, Crc.CRC32_LENGTH. cbv zeta.
  destruct c; reflexivity.
Qed.
