(* C04 proofs: the driver-shaped decoder (Model/Response.v) inverts the spec encoder (Model/ResponseSpec.v) on every
   well-formed response the driver supports; parser-combinator round-trip lemmas, unbounded sizes. *)
From Coq Require Import ZArith List Bool Lia ZifyBool String Ascii.
From Verif Require Import Response ResponseSpec.
Import ListNotations.
Local Open Scope Z_scope.

(* ------------------------------------------------------------------ boolean plumbing *)
Ltac bsplit :=
  repeat match goal with
         | H : (_ && _) = true |- _ => apply andb_prop in H; destruct H
         | H : is_true (_ && _) |- _ => apply andb_prop in H; destruct H
         end.

Lemma list_eqb_refl : forall a, list_eqb a a = true.
Proof. induction a; cbn; [reflexivity|]. rewrite Z.eqb_refl. exact IHa. Qed.

Lemma list_eqb_eq : forall a b, list_eqb a b = true -> a = b.
Proof.
  induction a; destruct b; cbn; intros H; try discriminate; [reflexivity|].
  apply andb_prop in H. destruct H as [H1 H2]. apply Z.eqb_eq in H1. subst. f_equal. auto.
Qed.

Lemma list_eqb_neq : forall a b, list_eqb a b = false -> a <> b.
Proof. intros a b H E. subst. rewrite list_eqb_refl in H. discriminate. Qed.

Lemma len_app : forall {A} (a b : list A), len (a ++ b) = len a + len b.
Proof. intros. unfold len. rewrite app_length. lia. Qed.

Lemma len_nonneg : forall {A} (a : list A), 0 <= len a.
Proof. intros. unfold len. lia. Qed.

Lemma len_cons : forall {A} (x : A) l, len (x :: l) = len l + 1.
Proof. intros. unfold len. cbn [List.length]. lia. Qed.

Lemma len_map : forall {A B} (f : A -> B) l, len (map f l) = len l.
Proof. intros. unfold len. rewrite map_length. reflexivity. Qed.

(* ------------------------------------------------------------------ primitive round trips *)
Lemma short_arith : forall n, wf_short n = true -> (n / 256) mod 256 * 256 + n mod 256 = n.
Proof. intros n H. unfold wf_short in H. assert (0 <= n < 65536) by lia. clear H. Z.to_euclidean_division_equations. lia. Qed.

Lemma int_arith : forall n, wf_int n = true ->
  let u := n mod 4294967296 in
  let v := ((u / 16777216 * 256 + (u / 65536) mod 256) * 256 + (u / 256) mod 256) * 256 + u mod 256 in
  (if v <? 2147483648 then v else v - 4294967296) = n.
Proof.
  intros n H. unfold wf_int in H. assert (-2147483648 <= n < 2147483648) by lia. clear H. cbv zeta.
  destruct (_ <? 2147483648) eqn:E; [apply Z.ltb_lt in E|apply Z.ltb_ge in E];
  revert E; Z.to_euclidean_division_equations; lia.
Qed.

Lemma rt_short : forall n rest, wf_short n = true -> rd_short (enc_short n ++ rest) = Some (n, rest).
Proof.
  intros n rest H. unfold enc_short, rd_short. cbn [app]. rewrite (short_arith n H). reflexivity.
Qed.

Lemma rt_int : forall n rest, wf_int n = true -> rd_int (enc_int n ++ rest) = Some (n, rest).
Proof.
  intros n rest H. unfold enc_int, rd_int. cbn [app]. cbv zeta.
  pose proof (int_arith n H) as A. cbv zeta in A. rewrite A. reflexivity.
Qed.

Lemma rt_n : forall (b rest : list Z), rd_n (len b) (b ++ rest) = Some (b, rest).
Proof.
  intros. unfold rd_n. pose proof (len_nonneg b).
  destruct (len b <? 0) eqn:E; [lia|].
  unfold len. rewrite Nat2Z.id. rewrite firstn_app, skipn_app, Nat.sub_diag, firstn_all, skipn_all. cbn.
  rewrite app_nil_r. reflexivity.
Qed.

Lemma wf_short_len : forall {A} (l : list A), (len l <? 65536) = true -> wf_short (len l) = true.
Proof. intros. unfold wf_short. pose proof (len_nonneg l). generalize dependent (len l). intros. lia. Qed.
Lemma wf_int_len : forall {A} (l : list A), (len l <? 2147483648) = true -> wf_int (len l) = true.
Proof. intros. unfold wf_int. pose proof (len_nonneg l). generalize dependent (len l). intros. lia. Qed.
Lemma wf_int_len_wf : forall {A} (l : list A), wf_int (len l) = true -> (len l <? 2147483648) = true.
Proof. intros A l. unfold wf_int. generalize (len l). intros. lia. Qed.
Lemma wf_short_strlen : forall s, wf_string s = true -> wf_short (len s) = true.
Proof. intros s H. unfold wf_string in H. apply andb_prop in H. apply wf_short_len. tauto. Qed.

Lemma wf_short_cl : forall cl, wf_cl cl = true -> wf_short cl = true.
Proof. intros cl H. unfold wf_cl in H. unfold wf_short. lia. Qed.

Ltac side := solve [assumption | reflexivity | apply wf_short_cl; assumption
                    | apply wf_short_len; assumption | apply wf_int_len; assumption
                    | apply wf_short_strlen; assumption
                    | apply wf_short_len; unfold wf_sbytes in *; assumption
                    | apply wf_int_len; unfold wf_lbytes, wf_obytes in *; assumption
                    | cbv beta iota delta [wf_short wf_int wf_sbytes wf_lbytes wf_obytes wf_byte wf_wt wf_cl] in *;
                      repeat match goal with |- context [len ?l] => pose proof (len_nonneg l); generalize dependent (len l); intros end;
                      lia].

Lemma pbind_some : forall {A B} (p : P A) (f : A -> P B) l a l',
  p l = Some (a, l') -> pbind p f l = f a l'.
Proof. intros. unfold pbind. rewrite H. reflexivity. Qed.

Ltac step L := erewrite pbind_some by (apply L; side).

Ltac ctest :=
  repeat (match goal with
          | |- context [?a =? ?b] =>
            let v := eval vm_compute in (a =? b) in
            match v with true => idtac | false => idtac end; change (a =? b) with v
          | |- context [?a <=? ?b] =>
            let v := eval vm_compute in (a <=? b) in
            match v with true => idtac | false => idtac end; change (a <=? b) with v
          | |- context [prim_known ?a] =>
            let v := eval vm_compute in (prim_known a) in
            match v with true => idtac | false => idtac end; change (prim_known a) with v
          end); cbv iota.

Lemma rt_string : forall s rest, wf_string s = true -> rd_string (enc_string s ++ rest) = Some (s, rest).
Proof.
  intros s rest H. unfold wf_string in H. bsplit. unfold rd_string, enc_string. rewrite <- app_assoc.
  step rt_short.
  step rt_n.
  unfold rd_utf8. rewrite H0. reflexivity.
Qed.

Lemma rt_bstring : forall b rest, wf_sbytes b = true -> rd_bstring (enc_short_bytes b ++ rest) = Some (b, rest).
Proof.
  intros b rest H. unfold rd_bstring, enc_short_bytes. rewrite <- app_assoc.
  step rt_short. apply rt_n.
Qed.

Lemma rt_blong : forall b rest, wf_lbytes b = true -> rd_blong (enc_bytes (Some b) ++ rest) = Some (b, rest).
Proof.
  intros b rest H. unfold rd_blong, enc_bytes. rewrite <- app_assoc.
  step rt_int. apply rt_n.
Qed.

Lemma rt_blong_null : rd_blong (enc_bytes None) = Some ([], []).
Proof. reflexivity. Qed.

Lemma rt_value : forall o rest, wf_obytes o = true -> rd_value (enc_bytes o ++ rest) = Some (o, rest).
Proof.
  intros [b|] rest H; unfold rd_value, enc_bytes.
  - rewrite <- app_assoc. step rt_int.
    pose proof (len_nonneg b). destruct (len b <? 0) eqn:E; [lia|].
    step rt_n. reflexivity.
  - reflexivity.
Qed.

(* counted repetition: n elements, each decodable, any number of them *)
Lemma rt_rep : forall {A B} (enc : A -> list Z) (p : P B) (f : A -> B) (l : list A) rest,
  (forall x r, In x l -> p (enc x ++ r) = Some (f x, r)) ->
  rd_rep (List.length l) p (enc_list enc l ++ rest) = Some (map f l, rest).
Proof.
  intros A B enc p f l. induction l as [|x l IH]; intros rest H.
  - reflexivity.
  - unfold enc_list. cbn [map List.concat List.length rd_rep]. rewrite <- app_assoc.
    rewrite (pbind_some _ _ _ _ _ (H x _ (or_introl eq_refl))).
    fold (enc_list enc l).
    rewrite (pbind_some _ _ _ _ _ (IH rest (fun y r Hy => H y r (or_intror Hy)))). reflexivity.
Qed.

Lemma rt_count : forall {A B} (enc : A -> list Z) (p : P B) (f : A -> B) (l : list A) rest,
  (forall x r, In x l -> p (enc x ++ r) = Some (f x, r)) ->
  rd_count (len l) p (enc_list enc l ++ rest) = Some (map f l, rest).
Proof. intros. unfold rd_count, len. rewrite Nat2Z.id. apply rt_rep. assumption. Qed.

Lemma map_id' : forall {A} (l : list A), map (fun x => x) l = l.
Proof. intros. apply map_id. Qed.

Lemma forallb_In : forall {A} (f : A -> bool) l x, forallb f l = true -> In x l -> f x = true.
Proof. intros A f l x H. rewrite forallb_forall in H. auto. Qed.

Lemma rt_stringlist : forall l rest, wf_string_list l = true ->
  rd_stringlist (enc_string_list l ++ rest) = Some (l, rest).
Proof.
  intros l rest H. unfold wf_string_list in H. bsplit. unfold rd_stringlist, enc_string_list. rewrite <- app_assoc.
  step rt_short.
  rewrite (rt_count enc_string rd_string (fun x => x)).
  - rewrite map_id. reflexivity.
  - intros x r Hx. apply rt_string. eapply forallb_In; eassumption.
Qed.

(* ------------------------------------------------------------------ dicts *)
Lemma mem_In : forall k l, mem k l = true <-> In k l.
Proof.
  induction l; cbn; [split; [discriminate|tauto]|].
  rewrite orb_true_iff, IHl. split; intros [H|H]; auto.
  - left. symmetry. apply list_eqb_eq. assumption.
  - left. subst. apply list_eqb_refl.
Qed.

Lemma dict_set_fresh : forall {V} k (v : V) d, mem k (map fst d) = false -> dict_set k v d = d ++ [(k, v)].
Proof.
  induction d as [|[k' v'] d IH]; cbn; intros H; [reflexivity|].
  apply orb_false_elim in H. destruct H as [H1 H2]. rewrite H1. f_equal. auto.
Qed.

Lemma mem_app : forall k a b, mem k (a ++ b) = mem k a || mem k b.
Proof. induction a; cbn; intros; [reflexivity|]. rewrite IHa. apply orb_assoc. Qed.

Lemma nodup_app_l : forall a b, nodup (a ++ b) = true -> forall k, mem k a = true -> mem k b = false.
Proof.
  induction a; cbn; intros b H k Hk; [discriminate|].
  apply andb_prop in H. destruct H as [H1 H2]. apply orb_prop in Hk. destruct Hk as [Hk|Hk].
  - apply list_eqb_eq in Hk. subst. rewrite mem_app in H1. apply negb_true_iff in H1.
    apply orb_false_elim in H1. tauto.
  - eauto.
Qed.

Lemma dict_of_nodup_aux : forall {V} (l acc : list (list Z * V)),
  nodup (map fst (acc ++ l)) = true ->
  fold_left (fun d kv => dict_set (fst kv) (snd kv) d) l acc = acc ++ l.
Proof.
  induction l as [|[k v] l IH]; intros acc H; cbn [fold_left].
  - rewrite app_nil_r. reflexivity.
  - cbn [fst snd]. rewrite dict_set_fresh.
    + rewrite IH; rewrite <- app_assoc; [reflexivity|exact H].
    + rewrite map_app in H. cbn [map fst] in H.
      destruct (mem k (map fst acc)) eqn:E; [|reflexivity].
      pose proof (nodup_app_l _ _ H k E) as F. cbn [mem] in F. rewrite list_eqb_refl in F. discriminate.
Qed.

Lemma dict_of_nodup : forall {V} (l : list (list Z * V)), nodup (map fst l) = true -> dict_of l = l.
Proof. intros. unfold dict_of. rewrite dict_of_nodup_aux; [reflexivity|exact H]. Qed.

Lemma assoc_del_fresh : forall {V} k (l : list (list Z * V)), mem k (map fst l) = false -> assoc_del k l = l.
Proof.
  induction l as [|[k' v'] l IH]; cbn; intros H; [reflexivity|].
  apply orb_false_elim in H. destruct H as [H1 H2]. rewrite H1. cbn. f_equal. auto.
Qed.

Lemma dict_pop_spec : forall {V} k (l : list (list Z * V)),
  nodup (map fst l) = true -> mem k (map fst l) = true ->
  exists v, assoc_get k l = Some v /\ dict_pop k l = Some (v, assoc_del k l).
Proof.
  induction l as [|[k' v'] l IH]; cbn; intros N M; [discriminate|].
  apply andb_prop in N. destruct N as [N1 N2].
  destruct (list_eqb k k') eqn:E.
  - exists v'. split; [reflexivity|]. cbn [negb].
    apply list_eqb_eq in E. subst k'.
    apply negb_true_iff in N1. fold (assoc_del k l). rewrite (assoc_del_fresh _ _ N1). reflexivity.
  - cbn in M. destruct (IH N2 M) as [v [G Pp]]. exists v. split; [exact G|]. rewrite Pp. reflexivity.
Qed.

(* ------------------------------------------------------------------ column types *)
Section cqlt_induction.
  Variable Q : cqlt -> Prop.
  Hypothesis Hcustom : forall s, Q (TCustom s).
  Hypothesis Hprim : forall c, Q (TPrim c).
  Hypothesis Hlist : forall t, Q t -> Q (TList t).
  Hypothesis Hset : forall t, Q t -> Q (TSet t).
  Hypothesis Hmap : forall k v, Q k -> Q v -> Q (TMap k v).
  Hypothesis Hudt : forall ks nm fs, Forall (fun p => Q (snd p)) fs -> Q (TUdt ks nm fs).
  Hypothesis Htuple : forall ts, Forall Q ts -> Q (TTuple ts).

  Fixpoint cqlt_ind' (t : cqlt) : Q t :=
    match t with
    | TCustom s => Hcustom s
    | TPrim c => Hprim c
    | TList e => Hlist e (cqlt_ind' e)
    | TSet e => Hset e (cqlt_ind' e)
    | TMap k v => Hmap k v (cqlt_ind' k) (cqlt_ind' v)
    | TUdt ks nm fs =>
      Hudt ks nm fs ((fix go (l : list (str * cqlt)) : Forall (fun p => Q (snd p)) l :=
                        match l with
                        | [] => Forall_nil _
                        | p :: r => Forall_cons p (cqlt_ind' (snd p)) (go r)
                        end) fs)
    | TTuple ts =>
      Htuple ts ((fix go (l : list cqlt) : Forall Q l :=
                    match l with
                    | [] => Forall_nil _
                    | x :: r => Forall_cons x (cqlt_ind' x) (go r)
                    end) ts)
    end.
End cqlt_induction.

Lemma spec_prim_known : forall pv c, spec_prim pv c = true -> prim_known c = true /\ wf_short c = true /\ c <> 0.
Proof. intros pv c H. unfold spec_prim in H. unfold prim_known, wf_short. lia. Qed.

Lemma enc_list_len : forall {A} (e : A -> list Z) l x, In x l -> (List.length (e x) <= List.length (enc_list e l))%nat.
Proof.
  intros A e l x Hin. induction l as [|q l IH]; [destruct Hin|]. unfold enc_list. cbn [map List.concat]. rewrite app_length.
  destruct Hin as [->|Hin]; [lia|]. specialize (IH Hin). unfold enc_list in IH. lia.
Qed.

Lemma enc_len_udt : forall ks nm fs fn ft, In (fn, ft) fs ->
  (S (List.length (enc_type ft)) <= List.length (enc_type (TUdt ks nm fs)))%nat.
Proof.
  intros. cbn [enc_type]. repeat rewrite app_length.
  pose proof (enc_list_len (fun p => enc_string (fst p) ++ enc_type (snd p)) fs (fn, ft) H) as L.
  unfold enc_list in L. cbn [fst snd] in L. rewrite app_length in L. cbn [enc_short List.length]. lia.
Qed.

Lemma enc_len_tuple : forall ts x, In x ts -> (S (List.length (enc_type x)) <= List.length (enc_type (TTuple ts)))%nat.
Proof.
  intros. cbn [enc_type]. repeat rewrite app_length.
  pose proof (enc_list_len enc_type ts x H) as L. unfold enc_list in L. cbn [enc_short List.length]. lia.
Qed.

Lemma rt_type : forall pv t, wf_type pv t = true ->
  forall fuel rest, (List.length (enc_type t) <= fuel)%nat -> rd_type fuel (enc_type t ++ rest) = Some (t, rest).
Proof.
  intros pv t. induction t using cqlt_ind'; intros W fuel rest F;
    (destruct fuel as [|fuel]; [cbn [enc_type] in F; repeat rewrite app_length in F; cbn in F; lia|]);
    cbn [wf_type] in W.
  - cbn [enc_type rd_type]; repeat rewrite <- app_assoc.
    apply andb_prop in W. destruct W as [W1 W2]. step rt_short. ctest. step rt_string. rewrite W2. reflexivity.
  - cbn [enc_type rd_type]. destruct (spec_prim_known _ _ W) as [K [S N]]. step rt_short.
    destruct (c =? 0) eqn:E; [lia|]. rewrite K. reflexivity.
  - cbn [enc_type rd_type]; repeat rewrite <- app_assoc. step rt_short. ctest.
    cbn [enc_type] in F. rewrite app_length in F. cbn [enc_short List.length] in F.
    erewrite pbind_some; [reflexivity|]. apply IHt; [exact W|lia].
  - cbn [enc_type rd_type]; repeat rewrite <- app_assoc. step rt_short. ctest.
    cbn [enc_type] in F. rewrite app_length in F. cbn [enc_short List.length] in F.
    erewrite pbind_some; [reflexivity|]. apply IHt; [exact W|lia].
  - cbn [enc_type rd_type]; repeat rewrite <- app_assoc.
    apply andb_prop in W. destruct W as [W1 W2]. step rt_short. ctest.
    cbn [enc_type] in F. repeat rewrite app_length in F. cbn [enc_short List.length] in F.
    erewrite pbind_some; [|apply IHt1; [assumption|lia]].
    erewrite pbind_some; [reflexivity|apply IHt2; [assumption|lia]].
  - assert (FF := fun fn ft Hin => enc_len_udt ks nm fs fn ft Hin).
    cbn [enc_type rd_type]; repeat rewrite <- app_assoc.
    apply andb_prop in W. destruct W as [W Wfs]. apply andb_prop in W. destruct W as [W Wl2].
    apply andb_prop in W. destruct W as [W Wl1]. apply andb_prop in W. destruct W as [Wks Wnm].
    step rt_short. ctest. step rt_string. step rt_string. step rt_short.
    change (List.concat (map (fun p => enc_string (fst p) ++ enc_type (snd p)) fs))
      with (enc_list (fun p => enc_string (fst p) ++ enc_type (snd p)) fs).
    erewrite pbind_some; [|apply (rt_count _ _ (fun p => p))].
    + rewrite map_id. destruct (len fs =? 0) eqn:E; [lia|]. reflexivity.
    + intros [fn ft] r Hin. cbv beta. cbn [fst snd]. rewrite <- app_assoc.
      pose proof (forallb_In _ _ _ Wfs Hin) as Wp. cbn [fst snd] in Wp. apply andb_prop in Wp. destruct Wp as [Wp1 Wp2].
      step rt_string. rewrite Forall_forall in H.
      erewrite pbind_some; [reflexivity|]. apply (H (fn, ft) Hin); [assumption|].
      specialize (FF fn ft Hin). cbn [snd]. lia.
  - assert (FF := fun x Hin => enc_len_tuple ts x Hin).
    cbn [enc_type rd_type]; repeat rewrite <- app_assoc.
    apply andb_prop in W. destruct W as [Wl Wts].
    step rt_short. ctest. step rt_short.
    change (List.concat (map enc_type ts)) with (enc_list enc_type ts).
    erewrite pbind_some; [|apply (rt_count _ _ (fun p => p))].
    + rewrite map_id. reflexivity.
    + intros x r Hin. rewrite Forall_forall in H. apply (H x Hin); [eapply forallb_In; eassumption|].
      specialize (FF x Hin). lia.
Qed.

Lemma rt_type_top : forall pv t rest, wf_type pv t = true -> rd_type_top (enc_type t ++ rest) = Some (t, rest).
Proof. intros. unfold rd_type_top. eapply rt_type; [eassumption|]. rewrite app_length. lia. Qed.

(* ------------------------------------------------------------------ monad laws used for sequencing *)
Lemma pbind_ret : forall {A B} (a : A) (f : A -> P B) l, pbind (ret a) f l = f a l.
Proof. reflexivity. Qed.

Lemma pbind_assoc : forall {A B C} (p : P A) (f : A -> P B) (g : B -> P C) l,
  pbind (pbind p f) g l = pbind p (fun x => pbind (f x) g) l.
Proof. intros. unfold pbind. destruct (p l) as [[a l']|]; reflexivity. Qed.

Ltac pnorm := cbv beta iota delta [rd_opt]; repeat (rewrite pbind_assoc || rewrite pbind_ret); cbv beta.
Ltac has_test :=
  repeat (match goal with
          | |- context [has ?a ?b] =>
            let v := eval vm_compute in (has a b) in
            match v with true => idtac | false => idtac end; change (has a b) with v
          end).
Ltac step' L := pnorm; erewrite pbind_some by (eapply L; side); cbv beta; pnorm.

(* ------------------------------------------------------------------ column specifications *)
Lemma rt_colspecs_global : forall pv ks tb cols rest,
  forallb (fun c => wf_string (fst c) && wf_type pv (snd c)) cols = true ->
  rd_colspecs (Some (ks, tb)) (len cols) (enc_list (fun c => enc_string (fst c) ++ enc_type (snd c)) cols ++ rest)
  = Some (map (fun c => mkcol ks tb (fst c) (snd c)) cols, rest).
Proof.
  intros. unfold rd_colspecs. apply rt_count. intros [n t] r Hin. cbn [fst snd]. rewrite <- app_assoc.
  pose proof (forallb_In _ _ _ H Hin) as W. cbn [fst snd] in W. apply andb_prop in W. destruct W as [W1 W2].
  step' rt_string. erewrite pbind_some by (eapply rt_type_top; eassumption). reflexivity.
Qed.

Lemma rt_colspecs_each : forall pv cols rest,
  forallb (fun c => wf_string (c_ks c) && wf_string (c_tbl c) && wf_string (c_name c) && wf_type pv (c_type c)) cols = true ->
  rd_colspecs None (len cols)
    (enc_list (fun c => enc_string (c_ks c) ++ enc_string (c_tbl c) ++ enc_string (c_name c) ++ enc_type (c_type c)) cols ++ rest)
  = Some (cols, rest).
Proof.
  intros. unfold rd_colspecs. rewrite (rt_count _ _ (fun c => c)); [rewrite map_id; reflexivity|]. intros [k t n ty] r Hin.
  cbn [c_ks c_tbl c_name c_type]. repeat rewrite <- app_assoc.
  pose proof (forallb_In _ _ _ H Hin) as W. cbn [c_ks c_tbl c_name c_type] in W.
  apply andb_prop in W. destruct W as [W W4]. apply andb_prop in W. destruct W as [W W3]. apply andb_prop in W. destruct W as [W1 W2].
  step' rt_string. step' rt_string. step' rt_string. erewrite pbind_some by (eapply rt_type_top; eassumption). reflexivity.
Qed.

(* <global_table_spec>?<col_spec>* read back under the flag the encoder set, with any continuation K *)
Lemma rt_glob_cols : forall {B} pv cs flags rest (K : list colspec -> P B),
  wf_cols pv cs = true -> has flags 1 = cols_global cs ->
  (glob <- rd_glob flags ;; cols <- rd_colspecs glob (cols_count cs) ;; K cols) (enc_cols cs ++ rest) = K (cols_list cs) rest.
Proof.
  intros B pv cs flags rest K W G. unfold rd_glob. rewrite G. unfold wf_cols in W. apply andb_prop in W. destruct W as [Wc W].
  destruct cs as [ks tb cols|cols]; cbn [cols_global cols_count cols_list enc_cols].
  - apply andb_prop in W. destruct W as [W W3]. apply andb_prop in W. destruct W as [W1 W2].
    repeat rewrite <- app_assoc. step' rt_string. step' rt_string.
    erewrite pbind_some by (eapply rt_colspecs_global; eassumption). reflexivity.
  - pnorm. erewrite pbind_some by (eapply rt_colspecs_each; eassumption). reflexivity.
Qed.

Lemma flags_has : forall g p n i,
  let f := b2z g 1 + b2z p 2 + b2z n 4 + b2z i 8 in
  has f 1 = g /\ has f 2 = p /\ has f 4 = n /\ has f 8 = i /\ has f 1073741824 = false /\ wf_int f = true.
Proof. intros [] [] [] []; vm_compute; repeat split; reflexivity. Qed.

Lemma rt_rmeta : forall pv m rest, wf_rmeta pv m = true ->
  rd_results_metadata (enc_rmeta m ++ rest) = Some (exact_rmeta m, rest).
Proof.
  intros pv [paging newid cols] rest W. unfold wf_rmeta in W. cbn [rm_paging rm_new_id rm_cols] in W.
  apply andb_prop in W. destruct W as [W W3]. apply andb_prop in W. destruct W as [W1 W2].
  unfold rd_results_metadata, enc_rmeta, exact_rmeta. cbn [rm_paging rm_new_id rm_cols mo_paging].
  match goal with |- context [enc_int (b2z ?g 1 + b2z ?p 2 + b2z ?n 4 + b2z ?i 8)] =>
    destruct (flags_has g p n i) as [F1 [F2 [F4 [F8 [FC FW]]]]]; cbv zeta in *;
    set (flags := b2z g 1 + b2z p 2 + b2z n 4 + b2z i 8) in * end.
  repeat rewrite <- app_assoc. step' rt_int.
  assert (Wcount : wf_int (match cols with McNone n => n | McSome cs => cols_count cs end) = true).
  { destruct cols as [n|cs]; [apply andb_prop in W3; tauto|]. unfold wf_cols in W3. apply andb_prop in W3. tauto. }
  step' rt_int. rewrite F2, F4.
  assert (Hp : forall {B} (K : option bytes -> P B) r,
             (x <- (if is_some paging then (y <- rd_blong ;; ret (Some y)) else ret None) ;; K x)
               (match paging with Some p => enc_bytes (Some p) | None => [] end ++ r) = K paging r).
  { intros B K r. destruct paging as [p|]; cbn [is_some].
    - step' rt_blong. reflexivity.
    - reflexivity. }
  rewrite Hp. clear Hp.
  destruct cols as [n|cs].
  - cbv iota. rewrite app_nil_l. apply andb_prop in W3. destruct W3 as [_ W3].
    destruct newid; [discriminate W3|]. reflexivity.
  - cbv iota. rewrite FC, F8. pnorm.
    destruct newid as [i|]; cbn [is_some].
    + apply andb_prop in W2. destruct W2 as [W2 _]. repeat rewrite <- app_assoc. step' rt_bstring.
      rewrite (rt_glob_cols pv cs flags rest); [reflexivity|assumption|exact F1].
    + pnorm. rewrite app_nil_l.
      rewrite (rt_glob_cols pv cs flags rest); [reflexivity|assumption|exact F1].
Qed.

(* ------------------------------------------------------------------ schema change, RESULT *)
Ltac lit_test :=
  repeat (match goal with
          | |- context [list_eqb ?a ?b] =>
            let v := eval vm_compute in (list_eqb a b) in
            match v with true => idtac | false => idtac end; change (list_eqb a b) with v
          end); cbv iota.

Lemma rt_schema : forall pv sc rest, wf_schema_change pv sc = true ->
  rd_schema_change pv (enc_schema_change pv sc ++ rest) = Some (exact_schema sc, rest).
Proof.
  intros pv [ch ks tg] rest W. unfold wf_schema_change in W. cbn [sc_change sc_keyspace sc_target] in W.
  unfold rd_schema_change, enc_schema_change, exact_schema. cbn [sc_change sc_keyspace sc_target].
  destruct (3 <=? pv) eqn:E; bsplit; repeat rewrite <- app_assoc.
  - destruct tg; cbn [target_name]; step' rt_string; step' rt_string; step' rt_string; lit_test; bsplit.
    + reflexivity.
    + step' rt_string. reflexivity.
    + step' rt_string. reflexivity.
    + repeat rewrite <- app_assoc. step' rt_string. step' rt_stringlist. reflexivity.
    + repeat rewrite <- app_assoc. step' rt_string. step' rt_stringlist. reflexivity.
  - step' rt_string. step' rt_string.
    destruct tg; bsplit; try discriminate.
    + step' rt_string. reflexivity.
    + step' rt_string. 
      match goal with H : (_ || negb (list_eqb ?n [])) = true |- _ => cbn [orb] in H; apply negb_true_iff in H; rewrite H end.
      reflexivity.
Qed.

Lemma len_cols_list : forall cs, len (cols_list cs) = cols_count cs.
Proof. destruct cs; cbn [cols_list cols_count]; [apply len_map|reflexivity]. Qed.

Lemma rt_row : forall (row : list (option bytes)) rest, forallb wf_obytes row = true ->
  rd_count (len row) rd_value (enc_list enc_bytes row ++ rest) = Some (row, rest).
Proof.
  intros. rewrite (rt_count _ _ (fun c => c)); [rewrite map_id; reflexivity|].
  intros x r Hin. apply rt_value. eapply forallb_In; eassumption.
Qed.

Lemma rt_rows_body : forall n (rows : list (list (option bytes))) rest,
  forallb (fun row => (len row =? n) && forallb wf_obytes row) rows = true ->
  rd_count (len rows) (rd_count n rd_value) (enc_list (enc_list enc_bytes) rows ++ rest) = Some (rows, rest).
Proof.
  intros. rewrite (rt_count _ _ (fun c => c)); [rewrite map_id; reflexivity|].
  intros x r Hin. pose proof (forallb_In _ _ _ H Hin) as W. cbv beta in W. apply andb_prop in W. destruct W as [W1 W2].
  apply Z.eqb_eq in W1. subst n. apply rt_row. assumption.
Qed.

Lemma rt_result : forall pv rm r rest, wf_result pv rm r = true ->
  rd_result pv rm (enc_result pv r ++ rest) = Some (exact_result rm r, rest).
Proof.
  intros pv rm r rest W. destruct r as [|m rows|ks|id mid pk bind res|sc]; cbn [wf_result] in W;
    unfold rd_result; cbn [enc_result]; repeat rewrite <- app_assoc.
  - step' rt_int. ctest. reflexivity.
  - step' rt_int. ctest. bsplit. unfold rd_rows. step' rt_rmeta. step' rt_int.
    cbn [exact_result]. unfold meta_count in *.
    destruct m as [paging newid cols]. cbn [rm_cols exact_rmeta mo_cols mo_paging mo_meta_id mo_cp_seq mo_cp_last] in *.
    destruct cols as [n|cs].
    + destruct rm as [c|]; [|discriminate]. destruct (len c =? n) eqn:E; [|discriminate]. apply Z.eqb_eq in E. subst n.
      bsplit. erewrite pbind_some by (eapply rt_rows_body; eassumption). reflexivity.
    + bsplit. rewrite <- len_cols_list in *. destruct (cols_list cs) as [|c0 cr] eqn:EC; [discriminate|].
      erewrite pbind_some by (eapply rt_rows_body; eassumption). reflexivity.
  - step' rt_int. ctest. step' rt_string. reflexivity.
  - step' rt_int. ctest. unfold rd_prepared. bsplit. step' rt_bstring.
    assert (Hmid : forall {B} (K : option bytes -> P B) r,
      (x <- (if uses_prepared_metadata pv then (y <- rd_bstring ;; ret (Some y)) else ret None) ;; K x)
        (match mid with Some i => enc_short_bytes i | None => [] end ++ r) = K mid r).
    { intros B K r. change (uses_prepared_metadata pv) with (spec_metadata_id pv).
      destruct mid as [i|], (spec_metadata_id pv); try discriminate; cbn [is_some].
      - step' rt_bstring. reflexivity.
      - reflexivity. }
    rewrite Hmid. clear Hmid.
    assert (FG : has (b2z (cols_global bind) 1) 1 = cols_global bind /\ wf_int (b2z (cols_global bind) 1) = true).
    { destruct (cols_global bind); split; reflexivity. }
    destruct FG as [FG FW].
    step' rt_int.
    assert (Wc : wf_int (cols_count bind) = true).
    { match goal with H : wf_cols _ bind = true |- _ => unfold wf_cols in H; apply andb_prop in H; tauto end. }
    step' rt_int.
    assert (Hpk : forall {B} (K : option (list Z) -> P B) r,
      (x <- (if 4 <=? pv then (y <- (n <- rd_int ;; rd_count n rd_short) ;; ret (Some y)) else ret None) ;; K x)
        (match pk with Some l => enc_int (len l) ++ enc_list enc_short l | None => [] end ++ r) = K pk r).
    { intros B K r. destruct pk as [l|], (4 <=? pv); try discriminate; cbn [is_some].
      - bsplit. repeat rewrite <- app_assoc. step' rt_int.
        erewrite pbind_some; [reflexivity|]. rewrite (rt_count _ _ (fun c => c)); [rewrite map_id; reflexivity|].
        intros x r' Hin. apply rt_short. eapply forallb_In; eassumption.
      - reflexivity. }
    rewrite Hpk. clear Hpk.
    rewrite (rt_glob_cols pv bind _ _ _ ltac:(eassumption) FG).
    destruct res as [m|], (2 <=? pv); try discriminate; cbn [is_some].
    + step' rt_rmeta. reflexivity.
    + reflexivity.
  - step' rt_int. ctest. step' rt_schema. reflexivity.
Qed.

(* ------------------------------------------------------------------ ERROR *)
Definition err_supported (e : err) : bool :=
  match e with
  | ErrCasWriteUnknown _ _ _ => false
  | ErrWriteTimeout _ _ _ _ (Some _) => false
  | _ => true
  end.

Lemma rt_write_type : forall wt rest, wf_wt wt = true -> rd_write_type (enc_string (wt_name wt) ++ rest) = Some (wt, rest).
Proof.
  intros wt rest H. unfold wf_wt in H.
  assert (C : wt = 0 \/ wt = 1 \/ wt = 2 \/ wt = 3 \/ wt = 4 \/ wt = 5 \/ wt = 6 \/ wt = 7) by lia.
  repeat (destruct C as [C|C]; [subst wt; vm_compute; reflexivity|]). subst wt; vm_compute; reflexivity.
Qed.

Lemma rt_bool : forall d rest, wf_byte d = true -> rd_bool (d :: rest) = Some (negb (d =? 0), rest).
Proof.
  intros d rest H. unfold wf_byte in H. unfold rd_bool, rd_byte, pbind, ret.
  f_equal. f_equal. f_equal. destruct (d <? 128) eqn:E; [reflexivity|].
  destruct (d =? 0) eqn:E0, (d - 256 =? 0) eqn:E1; try reflexivity; lia.
Qed.

Lemma rt_inet_addr : forall a rest, wf_addr a = true -> rd_inet_addr (enc_inetaddr a ++ rest) = Some (a, rest).
Proof.
  intros a rest H. unfold wf_addr in H. unfold rd_inet_addr, enc_inetaddr. cbn [app].
  unfold pbind at 1. unfold rd_byte.
  assert (S : (if len a <? 128 then len a else len a - 256) = len a) by (destruct (len a <? 128) eqn:E; lia).
  rewrite S. erewrite pbind_some by apply rt_n. rewrite H, Z.eqb_refl. reflexivity.
Qed.

Lemma rt_inet : forall a p rest, wf_addr a = true -> wf_int p = true -> rd_inet (enc_inet a p ++ rest) = Some ((a, p), rest).
Proof.
  intros. unfold rd_inet, enc_inet. rewrite <- app_assoc. step' rt_inet_addr. step' rt_int. reflexivity.
Qed.

Lemma rt_failures : forall pv f rest, wf_failures pv f = true ->
  rd_failures pv (enc_failures f ++ rest) = Some (exact_failures f, rest).
Proof.
  intros pv f rest W. unfold rd_failures. change (uses_error_code_map pv) with (spec_reason_map pv).
  destruct f as [n|m]; cbn [wf_failures enc_failures exact_failures] in *; bsplit.
  - destruct (spec_reason_map pv); [discriminate|]. step' rt_int. reflexivity.
  - match goal with H : spec_reason_map pv = true |- _ => rewrite H end.
    unfold rd_error_code_map. rewrite <- app_assoc. step' rt_int.
    erewrite pbind_some.
    2:{ apply (rt_count _ _ (fun c => c)). intros [a c] r Hin. cbn [fst snd]. rewrite <- app_assoc.
        match goal with H : forallb _ m = true |- _ => pose proof (forallb_In _ _ _ H Hin) as Wp end.
        cbn [fst snd] in Wp. bsplit. step' rt_inet_addr. step' rt_short. reflexivity. }
    rewrite map_id. pnorm. rewrite dict_of_nodup by assumption. reflexivity.
Qed.

Lemma simple_code_class : forall c, existsb (Z.eqb c) simple_codes = true ->
  error_class c = spec_class c /\ wf_int c = true /\ rd_error_info = rd_error_info /\
  (forall pv, rd_error_info pv (error_class c) = ret EiNone).
Proof.
  intros c H. cbn in H.
  repeat (apply orb_prop in H; destruct H as [H|H]; [apply Z.eqb_eq in H; subst c; repeat split; reflexivity|]).
  discriminate.
Qed.

Ltac ecls :=
  repeat (match goal with
          | |- context [error_class ?a] =>
            let v := eval vm_compute in (error_class a) in progress change (error_class a) with v
          end); cbv beta iota delta [rd_error_info].

Lemma rt_error : forall pv e m rest, wf_string m = true -> wf_err pv e = true -> err_supported e = true ->
  (code <- rd_int ;; m <- rd_string ;; i <- rd_error_info pv (error_class code) ;; ret (BError (error_class code) code m i))
    (enc_int (err_code e) ++ enc_string m ++ enc_err e ++ rest)
  = Some (BError (spec_class (err_code e)) (err_code e) m (exact_einfo e), rest).
Proof.
  intros pv e m rest Wm W S.
  destruct e; cbn [wf_err err_code enc_err exact_einfo err_supported] in *; try discriminate; bsplit;
    repeat rewrite <- app_assoc.
  - destruct (simple_code_class _ W) as [C1 [C2 [_ C3]]]. step' rt_int. step' rt_string. rewrite C3. pnorm. rewrite C1. reflexivity.
  - step' rt_int. step' rt_string. ecls.
    step' rt_short. step' rt_int. step' rt_int. reflexivity.
  - destruct contentions; [discriminate|]. step' rt_int. step' rt_string. ecls.
    step' rt_short. step' rt_int. step' rt_int. rewrite app_nil_l. step' rt_write_type. reflexivity.
  - step' rt_int. step' rt_string. ecls. step' rt_short. step' rt_int. step' rt_int. cbn [app]. step' rt_bool. reflexivity.
  - step' rt_int. step' rt_string. ecls. step' rt_short. step' rt_int. step' rt_int. step' rt_failures.
    cbn [app]. step' rt_bool. reflexivity.
  - step' rt_int. step' rt_string. ecls. step' rt_string. step' rt_string. step' rt_stringlist. reflexivity.
  - step' rt_int. step' rt_string. ecls. step' rt_short. step' rt_int. step' rt_int. step' rt_failures.
    step' rt_write_type. reflexivity.
  - step' rt_int. step' rt_string. ecls. step' rt_string. step' rt_string. reflexivity.
  - step' rt_int. step' rt_string. ecls. step' rt_bstring. reflexivity.
Qed.

