(* The bookkeeping invariant of Model/Conn.v and its preservation by every step. *)
From Coq Require Import ZArith List Bool Lia.
From Verif Require Import Conn Conn_lemmas.
Import ListNotations.
Local Open Scope Z_scope.

Definition inr (x h : Z) : Z := if (0 <=? x) && (x <=? h) then 1 else 0.

Definition tot (x : Z) (s : state) : Z :=
  cnt x (free s) + cnt x (keys (reqs s)) + cnt x (orphans s) + cnt x (keys (cps s)) + cnt x (keys (ghost s)).

Record Good (s : state) : Prop := {
  g_tot : forall x, tot x s = inr x (highest s);
  g_units : in_flight s = units s;
  g_hi : -1 <= highest s <= max_id s
}.

Ltac nonneg :=
  repeat match goal with
  | |- context[cnt ?x ?l] => lazymatch goal with | _ : 0 <= cnt x l |- _ => fail | _ => pose proof (cnt_nonneg x l) end
  | _ : context[cnt ?x ?l] |- _ => lazymatch goal with | _ : 0 <= cnt x l |- _ => fail | _ => pose proof (cnt_nonneg x l) end
  end.

Ltac cases :=
  repeat match goal with
  | |- context[Z.eqb ?a ?b] => destruct (Z.eqb_spec a b)
  | _ : context[Z.eqb ?a ?b] |- _ => destruct (Z.eqb_spec a b)
  | |- context[Z.leb ?a ?b] => destruct (Z.leb_spec a b)
  | _ : context[Z.leb ?a ?b] |- _ => destruct (Z.leb_spec a b)
  | |- context[Z.ltb ?a ?b] => destruct (Z.ltb_spec a b)
  | _ : context[Z.ltb ?a ?b] |- _ => destruct (Z.ltb_spec a b)
  end.

Ltac proj :=
  cbn [free highest max_id reqs orphans cps in_flight thr thr_reached defunct closed writable msg_received cur
       erroring ghost wire owed ks_pending leaked spurious raced assert_failed log
       ev set_free set_reqs set_orph set_cps set_inf set_flags set_cur set_erroring set_ghost set_wire set_units
       set_bad add_owed add_leak put_ghost del_ghost register fst snd] in *.

Ltac cntrw := repeat (progress (rewrite ?keys_cons, ?keys_nil, ?keys_app, ?cnt_app, ?cnt_rm, ?cnt_keys_rmk; cbn [cnt])).

(* goal: forall x, tot x s' = inr x h' ;  T : forall x, tot x s = inr x (highest s) *)
Ltac tot_goal T :=
  let x := fresh "x" in let Tx := fresh "Tx" in
  intros x; pose proof (T x) as Tx; unfold tot, inr in Tx |- *; proj; cbn [cnt] in Tx; cntrw; nonneg; cases; cbn [andb orb] in *; subst; lia.

Ltac fin := unfold tot, inr, units in *; proj; cntrw; nonneg; cases; cbn [andb orb] in *; subst; try lia; try congruence.

(* facts about one id i from the lookups / membership tests in the context *)
Ltac learn_i :=
  repeat match goal with
  | E : lookup ?i ?l = Some _ |- _ =>
    lazymatch goal with | _ : 1 <= cnt i (keys l) |- _ => fail | _ => pose proof (lookup_cnt _ _ _ E) end
  | E : lookup ?i ?l = None |- _ =>
    lazymatch goal with | _ : cnt i (keys l) = 0 |- _ => fail | _ => pose proof (lookup_none_cnt _ _ E) end
  | E : mem ?i ?l = true |- _ =>
    lazymatch goal with | _ : 1 <= cnt i l |- _ => fail | _ => pose proof (mem_cnt _ _ E) end
  | E : mem ?i ?l = false |- _ =>
    lazymatch goal with | _ : cnt i l = 0 |- _ => fail | _ => pose proof (mem_false_cnt _ _ E) end
  end.

Lemma good_init n m t : 0 <= n -> n - 1 <= m -> Good (init n m t).
Proof.
  intros Hn Hm. split.
  - intros x. unfold tot, init, inr. cbn. rewrite cnt_range_from. rewrite Z2Nat.id by lia.
    destruct (Z.leb_spec 0 x); destruct (Z.ltb_spec x (0 + n)); destruct (Z.leb_spec x (n - 1)); cbn; lia.
  - reflexivity.
  - cbn. lia.
Qed.

(* exact counts of i when it sits in the ghost list *)
Lemma in_ghost s i t : Good s -> lookup i (ghost s) = Some t ->
  cnt i (keys (ghost s)) = 1 /\ cnt i (free s) = 0 /\ cnt i (keys (reqs s)) = 0 /\ cnt i (orphans s) = 0
  /\ cnt i (keys (cps s)) = 0 /\ 0 <= i <= highest s.
Proof.
  intros G L. pose proof (g_tot _ G i) as H. apply lookup_cnt in L. unfold tot, inr in H. nonneg. cases; cbn [andb] in *; lia.
Qed.
Lemma in_reqs s i t : Good s -> lookup i (reqs s) = Some t ->
  cnt i (keys (reqs s)) = 1 /\ cnt i (free s) = 0 /\ cnt i (keys (ghost s)) = 0 /\ cnt i (orphans s) = 0
  /\ cnt i (keys (cps s)) = 0 /\ 0 <= i <= highest s.
Proof.
  intros G L. pose proof (g_tot _ G i) as H. apply lookup_cnt in L. unfold tot, inr in H. nonneg. cases; cbn [andb] in *; lia.
Qed.
Lemma in_orph s i : Good s -> mem i (orphans s) = true ->
  cnt i (orphans s) = 1 /\ cnt i (free s) = 0 /\ cnt i (keys (ghost s)) = 0 /\ cnt i (keys (reqs s)) = 0
  /\ cnt i (keys (cps s)) = 0 /\ 0 <= i <= highest s.
Proof.
  intros G L. pose proof (g_tot _ G i) as H. apply mem_cnt in L. unfold tot, inr in H. nonneg. cases; cbn [andb] in *; lia.
Qed.
Lemma in_cps s i t : Good s -> lookup i (cps s) = Some t ->
  cnt i (keys (cps s)) = 1 /\ cnt i (free s) = 0 /\ cnt i (keys (ghost s)) = 0 /\ cnt i (keys (reqs s)) = 0
  /\ cnt i (orphans s) = 0 /\ 0 <= i <= highest s.
Proof.
  intros G L. pose proof (g_tot _ G i) as H. apply lookup_cnt in L. unfold tot, inr in H. nonneg. cases; cbn [andb] in *; lia.
Qed.
Lemma in_free_head s i f : Good s -> free s = i :: f ->
  cnt i f = 0 /\ cnt i (keys (ghost s)) = 0 /\ cnt i (keys (reqs s)) = 0 /\ cnt i (orphans s) = 0
  /\ cnt i (keys (cps s)) = 0 /\ 0 <= i <= highest s.
Proof.
  intros G L. pose proof (g_tot _ G i) as H. unfold tot, inr in H. rewrite L in H. cbn [cnt] in H. rewrite Z.eqb_refl in H.
  nonneg. cases; cbn [andb] in *; lia.
Qed.

(* get_id: Good up to an in_flight offset d *)
Record GoodD (d : Z) (s : state) : Prop := {
  d_tot : forall x, tot x s = inr x (highest s);
  d_units : in_flight s + d = units s;
  d_hi : -1 <= highest s <= max_id s
}.
Lemma goodD0 s : Good s <-> GoodD 0 s.
Proof. split; intros [A B C]; split; auto; lia. Qed.
Lemma goodD_tot d s : GoodD d s -> forall x, tot x s = inr x (highest s).
Proof. intros [A _ _]. exact A. Qed.

Lemma get_id_good d s : GoodD d s ->
  match get_id s with
  | (Some i, s') => GoodD (d + 1) s' /\ lookup i (ghost s') = Some THeld
  | (None, s') => GoodD d s'
  end /\ raced (snd (get_id s)) = raced s /\ in_flight (snd (get_id s)) = in_flight s
      /\ max_id (snd (get_id s)) = max_id s.
Proof.
  intros [T U H]. unfold get_id. destruct (free s) as [|i f] eqn:F.
  - destruct (Z.leb_spec (highest s + 1) (max_id s)).
    + assert (E0 : cnt (highest s + 1) (keys (ghost s)) = 0).
      { pose proof (T (highest s + 1)) as T1. unfold tot, inr in T1. nonneg. cases; cbn [andb] in *; lia. }
      repeat split; proj; try lia.
      * unfold tot in T. rewrite F in T. tot_goal T.
      * unfold units in *. proj. rewrite (rmk_id _ _ E0). cbn [unit_tags unit_tag]. lia.
      * cbn [lookup]. rewrite Z.eqb_refl. reflexivity.
    + repeat split; proj; auto; try exact T; try exact U; try lia.
  - assert (E0 : cnt i (keys (ghost s)) = 0).
    { pose proof (T i) as T1. unfold tot, inr in T1. rewrite F in T1. cbn [cnt] in T1. rewrite Z.eqb_refl in T1.
      nonneg. cases; cbn [andb] in *; lia. }
    repeat split; proj; try lia.
    + unfold tot in T. rewrite F in T. tot_goal T.
    + unfold units in *. proj. rewrite (rmk_id _ _ E0). cbn [unit_tags unit_tag]. lia.
    + cbn [lookup]. rewrite Z.eqb_refl. reflexivity.
Qed.
