(* C19 -- unknown prepared statements are transparently re-prepared: lemmas. *)
From Coq Require Import ZArith List Bool Lia.
From Verif Require Import PyBase FutbProto FutB FutB_lemmas FutB_steps FutB_origin C16_proofs.
Import ListNotations.
Local Open Scope Z_scope.

(* the statement the driver re-prepares for an UNPREPARED answer carrying `id` *)
Definition stmt_for (c : config) (id : Z) : option pstmt :=
  match fut_ps c with
  | Some (pid, pqs, pks) =>
      if pid =? id then Some (match lookup (known c) id with Some ps => ps | None => (pid, pqs, pks) end) else None
  | None => lookup (known c) id
  end.

(* protocol without the keyspace flag, statement prepared in a keyspace, connection now in another one *)
Definition ks_mismatch (c : config) (s : state) (ks : option Z) : bool :=
  negb (uses_keyspace_flag (pv c)) && is_some ks && negb (opt_eqb (conn_ks s) ks).

Definition open_prepare (s : state) (j : nat) (h : host) : Prop :=
  exists a, nth_error (attempts s) j = Some a /\ a_done a = false /\ a_prep a = true /\ a_host a = h.

Definition done_i (s : state) (i : nat) : state := set_attempts s (mark_done i (attempts s)).

Lemma submit_open s t : session_shut s = false -> submit s t = push_task s t.
Proof. intros E. unfold submit. rewrite E. reflexivity. Qed.

Lemma unprepared_step c s i h id tag pid qs ks : open_query s i h -> stmt_for c id = Some (pid, qs, ks) ->
  step c s (Resp i (RUnprepared id tag)) =
    if ks_mismatch c s ks then (fail_with (done_i s i) XKsMismatch, [])
    else (submit (done_i s i) (TReprepare h qs (if uses_keyspace_flag (pv c) then ks else None)), []).
Proof.
  intros O St. rewrite (step_resp_query c s i _ h O). cbn [resp_current set_result]. unfold unprepared, stmt_for in *.
  assert (G : forall ps, ps = (pid, qs, ks) -> unprep_go c (set_attempts s (mark_done i (attempts s))) h ps =
            if ks_mismatch c s ks then (fail_with (done_i s i) XKsMismatch, [])
            else (submit (done_i s i) (TReprepare h qs (if uses_keyspace_flag (pv c) then ks else None)), [])).
  { intros ps ->. unfold unprep_go, ks_mismatch, uses_ks, done_i. reflexivity. }
  destruct (fut_ps c) as [[[fid fqs] fks]|].
  - destruct (fid =? id) eqn:E; [|discriminate]. cbn [negb].
    destruct (lookup (known c) id) as [ps|]; inversion St; subst; apply G; reflexivity.
  - destruct (lookup (known c) id) as [ps|]; [|discriminate]. inversion St; subst. apply G; reflexivity.
Qed.

Lemma run_reprepare c s k h qs ks : nth_error (queue s) k = Some (TReprepare h qs ks) -> pool_of s h = PHealthy ->
  exists s', step c s (Run k) = (s', [Sent h (MPrepare qs ks) CReprepare]) /\
             attempts s' = attempts s ++ [{| a_host := h; a_prep := true; a_done := false; a_page := page_no s |}] /\
             queue s' = remove_nth k (queue s) /\ fin_exc s' = fin_exc s /\ fin_res s' = fin_res s.
Proof.
  intros N P. cbn [step]. rewrite N. cbn [run_task]. unfold query_or_next. rewrite query_eq.
  change (pool_of (set_queue s (remove_nth k (queue s))) h) with (pool_of s h). rewrite P. cbn [reason].
  eexists. split; [reflexivity|]. repeat split; reflexivity.
Qed.

Lemma prepared_step c s j h r : open_prepare s j h ->
  step c s (Resp j r) = (submit (done_i s j) (TAfterPrepare h r), []).
Proof. intros (a & N & D & P & <-). cbn [step]. rewrite N, D, P. reflexivity. Qed.

Definition id_matches (c : config) (id : Z) : Prop :=
  match fut_ps c with Some (pid, _, _) => pid = id | None => True end.

Lemma run_after_prepare_ok c s k h id : nth_error (queue s) k = Some (TAfterPrepare h (RPrepared id)) ->
  fin_exc s = None -> id_matches c id -> pool_of s h = PHealthy ->
  exists s', step c s (Run k) = (s', [Sent h (MOrig (msg_cl s)) CResend]) /\
             attempts s' = attempts s ++ [{| a_host := h; a_prep := false; a_done := false; a_page := page_no s |}] /\
             queue s' = remove_nth k (queue s) /\ fin_exc s' = None.
Proof.
  intros N E M P. cbn [step]. rewrite N. cbn [run_task]. unfold after_prepare. cbn [fin_exc set_queue]. rewrite E.
  cbn [is_some]. unfold id_matches in M.
  assert (G : exists s', query_or_next (set_queue s (remove_nth k (queue s))) h (MOrig (msg_cl s)) CResend
                = (s', [Sent h (MOrig (msg_cl s)) CResend]) /\
             attempts s' = attempts s ++ [{| a_host := h; a_prep := false; a_done := false; a_page := page_no s |}] /\
             queue s' = remove_nth k (queue s) /\ fin_exc s' = None).
  { unfold query_or_next. rewrite query_eq.
    change (pool_of (set_queue s (remove_nth k (queue s))) h) with (pool_of s h). rewrite P. cbn [reason].
    eexists. split; [reflexivity|]. repeat split; try reflexivity. exact E. }
  destruct (fut_ps c) as [[[pid pqs] pks]|]; [|exact G].
  subst pid. rewrite Z.eqb_refl. cbn [negb]. exact G.
Qed.

Lemma run_after_prepare_mismatch c s k h id pid pqs pks :
  nth_error (queue s) k = Some (TAfterPrepare h (RPrepared id)) -> fin_exc s = None ->
  fut_ps c = Some (pid, pqs, pks) -> pid <> id ->
  step c s (Run k) = (fail_with (set_queue s (remove_nth k (queue s))) XIdMismatch, []).
Proof.
  intros N E F D. cbn [step]. rewrite N. cbn [run_task]. unfold after_prepare. cbn [fin_exc set_queue]. rewrite E, F.
  cbn [is_some]. destruct (pid =? id) eqn:Q; [apply Z.eqb_eq in Q; congruence|]. reflexivity.
Qed.

(* an error answer to the PREPARE fails the request with that error; nothing is sent *)
Definition prepare_error (r : resp) : option fexc :=
  match r with
  | RRetryable k tag => if is_conn_kind k then None else Some (XResp k tag)
  | RUnprepared _ tag => Some (XUnprepared tag)
  | ROtherError tag => Some (XOtherError tag)
  | RRows | RRowsMore | RVoid | ROtherExc _ | RJunk => Some XUnexpected
  | RPrepared _ => None
  end.

Lemma run_after_prepare_error c s k h r x : nth_error (queue s) k = Some (TAfterPrepare h r) -> fin_exc s = None ->
  prepare_error r = Some x -> step c s (Run k) = (fail_with (set_queue s (remove_nth k (queue s))) x, []).
Proof.
  intros N E P. cbn [step]. rewrite N. cbn [run_task]. unfold after_prepare. cbn [fin_exc set_queue]. rewrite E.
  cbn [is_some]. destruct r; cbn in P; try discriminate; try (inversion P; subst; reflexivity).
  destruct (is_conn_kind k0); [discriminate|]. inversion P; subst. reflexivity.
Qed.

Lemma run_after_prepare_failed c s k h r : nth_error (queue s) k = Some (TAfterPrepare h r) -> fin_exc s <> None ->
  step c s (Run k) = (set_queue s (remove_nth k (queue s)), []).
Proof.
  intros N E. cbn [step]. rewrite N. cbn [run_task]. unfold after_prepare. cbn [fin_exc set_queue].
  destruct (fin_exc s); [reflexivity|congruence].
Qed.
