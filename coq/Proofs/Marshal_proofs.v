(* Round-trip lemmas for the hand-written marshal model (MarshalModel.v): fixed-width ints, varint, zig-zag, vints. *)
From Coq Require Import ZArith List Bool Lia.
From Verif Require Import PyBase MarshalModel CassandraSpecInt.
Import ListNotations.
Local Open Scope Z_scope.

(* ------------------------------------------------------------------ digits *)
Lemma pow256 : forall k : nat, 2 ^ (8 * Z.of_nat k) = 256 ^ Z.of_nat k.
Proof. intros. rewrite Z.pow_mul_r by lia. reflexivity. Qed.

Lemma pow256_pos : forall k : nat, 0 < 256 ^ Z.of_nat k.
Proof. intros. apply Z.pow_pos_nonneg; lia. Qed.

Lemma pow256_S : forall k : nat, 256 ^ Z.of_nat (S k) = 256 * 256 ^ Z.of_nat k.
Proof. intros. rewrite Nat2Z.inj_succ, Z.pow_succ_r by lia. reflexivity. Qed.

Lemma le_bytes_length : forall n u, length (le_bytes n u) = n.
Proof. induction n; intros; cbn [le_bytes length]; auto. Qed.

Lemma be_bytes_length : forall n u, length (be_bytes n u) = n.
Proof. intros. unfold be_bytes. rewrite rev_length. apply le_bytes_length. Qed.

Lemma le_bytes_bytes : forall n u, Forall is_byte (le_bytes n u).
Proof.
  induction n; intros; cbn [le_bytes]; constructor; auto.
  unfold is_byte. apply Z.mod_pos_bound. lia.
Qed.

Lemma Forall_rev' : forall (A : Type) (P : A -> Prop) l, Forall P l -> Forall P (rev l).
Proof. intros. apply Forall_forall. intros x Hx. apply in_rev in Hx. rewrite Forall_forall in H. auto. Qed.

Lemma be_bytes_bytes : forall n u, Forall is_byte (be_bytes n u).
Proof. intros. apply Forall_rev'. apply le_bytes_bytes. Qed.

Lemma le_val_le_bytes : forall n u, le_val (le_bytes n u) = u mod 256 ^ Z.of_nat n.
Proof.
  induction n; intros; cbn [le_bytes le_val].
  - change (256 ^ Z.of_nat 0) with 1. rewrite Z.mod_1_r. reflexivity.
  - rewrite IHn, pow256_S. rewrite Z.rem_mul_r; [reflexivity | lia | apply pow256_pos].
Qed.

Lemma be_val_be_bytes : forall n u, be_val (be_bytes n u) = u mod 256 ^ Z.of_nat n.
Proof. intros. unfold be_val, be_bytes. rewrite rev_involutive. apply le_val_le_bytes. Qed.

Lemma le_val_app : forall a b, le_val (a ++ b) = le_val a + 256 ^ Z.of_nat (length a) * le_val b.
Proof.
  induction a; intros; cbn [app le_val length].
  - change (256 ^ Z.of_nat 0) with 1. lia.
  - rewrite IHa, pow256_S. lia.
Qed.

Lemma be_val_cons : forall b bs, be_val (b :: bs) = b * 256 ^ Z.of_nat (length bs) + be_val bs.
Proof.
  intros. unfold be_val. cbn [rev]. rewrite le_val_app, rev_length. cbn [le_val]. lia.
Qed.

Lemma be_val_app : forall a b, be_val (a ++ b) = be_val a * 256 ^ Z.of_nat (length b) + be_val b.
Proof.
  intros. unfold be_val. rewrite rev_app_distr, le_val_app, rev_length. lia.
Qed.

Lemma le_val_bound : forall bs, Forall is_byte bs -> 0 <= le_val bs < 256 ^ Z.of_nat (length bs).
Proof.
  induction 1; cbn [le_val length].
  - change (256 ^ Z.of_nat 0) with 1. lia.
  - rewrite pow256_S. unfold is_byte in H. lia.
Qed.

Lemma be_val_bound : forall bs, Forall is_byte bs -> 0 <= be_val bs < 256 ^ Z.of_nat (length bs).
Proof.
  intros. unfold be_val. rewrite <- (rev_length bs). apply le_val_bound. apply Forall_rev'. auto.
Qed.

(* ------------------------------------------------------------------ struct pack / unpack *)
Lemma pack_int_length : forall n s z bs, pack_int n s z = Some bs -> length bs = n.
Proof.
  unfold pack_int. intros. destruct (_ && _); inversion H. apply be_bytes_length.
Qed.

Lemma pack_int_bytes : forall n s z bs, pack_int n s z = Some bs -> Forall is_byte bs.
Proof.
  unfold pack_int. intros. destruct (_ && _); inversion H. apply be_bytes_bytes.
Qed.

Lemma unpack_pack_int : forall n s z bs, (0 < n)%nat -> pack_int n s z = Some bs -> unpack_int n s bs = Some z.
Proof.
  unfold pack_int, unpack_int. intros n s z bs Hn H.
  destruct (_ && _) eqn:Hr; inversion H; subst bs; clear H.
  rewrite be_bytes_length, Nat.eqb_refl, be_val_be_bytes. f_equal.
  rewrite <- pow256 in *.
  set (bits := 8 * Z.of_nat n) in *.
  assert (Hb : 0 < bits) by (unfold bits; lia).
  assert (Hp : 2 ^ bits = 2 * 2 ^ (bits - 1)).
  { replace bits with (1 + (bits - 1)) at 1 by lia. rewrite Z.pow_add_r by lia. reflexivity. }
  assert (Hpp : 0 < 2 ^ (bits - 1)) by (apply Z.pow_pos_nonneg; lia).
  apply andb_true_iff in Hr. destruct Hr as [H1 H2].
  apply Z.leb_le in H1. apply Z.ltb_lt in H2.
  destruct s; cbn [andb].
  - destruct (Z_lt_dec z 0).
    + assert (E : z mod 2 ^ bits = z + 2 ^ bits).
      { symmetry. apply Z.mod_unique with (q := -1); lia. }
      rewrite E. destruct (2 ^ (bits - 1) <=? z + 2 ^ bits) eqn:C; [lia|].
      apply Z.leb_gt in C. lia.
    + rewrite Z.mod_small by lia.
      destruct (2 ^ (bits - 1) <=? z) eqn:C; [apply Z.leb_le in C; lia | reflexivity].
  - apply Z.mod_small. lia.
Qed.

Lemma unpack_int_length : forall n s bs z, unpack_int n s bs = Some z -> length bs = n.
Proof.
  unfold unpack_int. intros. destruct (Nat.eqb (length bs) n) eqn:E; [|discriminate].
  apply Nat.eqb_eq in E. auto.
Qed.

(* ------------------------------------------------------------------ varint *)
Lemma le_digits_le_bytes : forall (k : nat) fuel big,
  256 ^ Z.of_nat k <= big < 256 ^ Z.of_nat (S k) -> (k < fuel)%nat ->
  le_digits fuel big = le_bytes (S k) big.
Proof.
  induction k; intros fuel big Hb Hf.
  - destruct fuel; [lia|]. change (256 ^ Z.of_nat 0) with 1 in Hb. change (256 ^ Z.of_nat 1) with 256 in Hb.
    cbn [le_digits le_bytes].
    destruct (0 <? big) eqn:C; [|apply Z.ltb_ge in C; lia].
    rewrite (Z.div_small big 256) by lia.
    destruct fuel; cbn [le_digits]; reflexivity.
  - destruct fuel; [lia|].
    rewrite !pow256_S in Hb.
    assert (0 < 256 ^ Z.of_nat k) by apply pow256_pos.
    cbn [le_digits]. destruct (0 <? big) eqn:C; [|apply Z.ltb_ge in C; lia].
    change (le_bytes (S (S k)) big) with (big mod 256 :: le_bytes (S k) (big / 256)).
    f_equal. apply IHk; [|lia].
    rewrite pow256_S. split.
    + apply Z.div_le_lower_bound; lia.
    + apply Z.div_lt_upper_bound; lia.
Qed.

Lemma digits_exist : forall big, 0 < big ->
  exists k : nat, 256 ^ Z.of_nat k <= big < 256 ^ Z.of_nat (S k) /\ (k < digits_fuel big)%nat.
Proof.
  intros big Hb.
  exists (Z.to_nat (Z.log2 big / 8)).
  pose proof (Z.log2_spec big Hb) as [L1 L2].
  pose proof (Z.log2_nonneg big) as L0.
  set (l := Z.log2 big) in *.
  assert (Hq : 0 <= l / 8) by (apply Z.div_pos; lia).
  assert (Hdm : l = 8 * (l / 8) + l mod 8) by (apply Z.div_mod; lia).
  assert (Hm : 0 <= l mod 8 < 8) by (apply Z.mod_pos_bound; lia).
  rewrite <- !pow256. rewrite Nat2Z.inj_succ, Z2Nat.id by lia.
  split; [split|].
  - apply Z.le_trans with (2 ^ l); [|exact L1]. apply Z.pow_le_mono_r; lia.
  - apply Z.lt_le_trans with (2 ^ Z.succ l); [exact L2|]. apply Z.pow_le_mono_r; lia.
  - unfold digits_fuel. fold l. apply Nat.lt_succ_r. apply Z2Nat.inj_le; lia.
Qed.

Lemma last_cons : forall (x : Z) l d, l <> [] -> last (x :: l) d = last l d.
Proof. intros. destruct l; [congruence | reflexivity]. Qed.

Lemma last_le_bytes : forall k u, last (le_bytes (S k) u) 0 = (u / 256 ^ Z.of_nat k) mod 256.
Proof.
  induction k; intros.
  - cbn [le_bytes last]. change (256 ^ Z.of_nat 0) with 1. rewrite Z.div_1_r. reflexivity.
  - change (le_bytes (S (S k)) u) with (u mod 256 :: le_bytes (S k) (u / 256)).
    rewrite last_cons by (cbn [le_bytes]; discriminate).
    rewrite IHk, pow256_S, Z.div_div by (try lia; apply pow256_pos). reflexivity.
Qed.

Lemma rev_last : forall (l : list Z), l <> [] -> rev l = last l 0 :: rev (removelast l).
Proof.
  intros. rewrite (app_removelast_last 0 H) at 1. rewrite rev_app_distr. reflexivity.
Qed.

Lemma varint_unpack_pack : forall z, varint_unpack (varint_pack z) = Some z.
Proof.
  intros z. unfold varint_pack.
  destruct (z =? 0) eqn:Z0.
  - apply Z.eqb_eq in Z0. subst. reflexivity.
  - apply Z.eqb_neq in Z0. destruct (z <? 0) eqn:Zn.
    + apply Z.ltb_lt in Zn.
      set (n := py_bit_length (Z.abs z - 1) / 8 + 1).
      set (big := 2 ^ (n * 8) + z).
      (* range of z from the bit length *)
      assert (Hn : 1 <= n /\ - 2 ^ (8 * n - 1) <= z).
      { unfold n, py_bit_length. destruct (Z.abs z - 1 =? 0) eqn:E.
        - apply Z.eqb_eq in E. change (0 / 8 + 1) with 1. change (2 ^ (8 * 1 - 1)) with 128. lia.
        - apply Z.eqb_neq in E.
          assert (Hm : 0 < Z.abs z - 1) by lia.
          rewrite Z.abs_eq by lia.
          pose proof (Z.log2_spec _ Hm) as [_ L2]. pose proof (Z.log2_nonneg (Z.abs z - 1)).
          set (l := Z.log2 (Z.abs z - 1)) in *.
          assert (0 <= (l + 1) / 8) by (apply Z.div_pos; lia).
          assert (l + 1 = 8 * ((l + 1) / 8) + (l + 1) mod 8) by (apply Z.div_mod; lia).
          assert (0 <= (l + 1) mod 8 < 8) by (apply Z.mod_pos_bound; lia).
          split; [lia|].
          assert (2 ^ Z.succ l <= 2 ^ (8 * ((l + 1) / 8 + 1) - 1)) by (apply Z.pow_le_mono_r; lia).
          lia. }
      destruct Hn as [Hn1 Hz].
      set (k := Z.to_nat (n - 1)).
      assert (Hk : Z.of_nat k = n - 1) by (unfold k; lia).
      assert (P1 : 2 ^ (n * 8) = 256 ^ Z.of_nat (S k)).
      { rewrite <- pow256. f_equal. lia. }
      assert (P2 : 2 ^ (8 * n - 1) = 128 * 256 ^ Z.of_nat k).
      { rewrite <- pow256. replace (8 * n - 1) with (7 + 8 * Z.of_nat k) by lia. rewrite Z.pow_add_r by lia. reflexivity. }
      assert (Pk : 0 < 256 ^ Z.of_nat k) by apply pow256_pos.
      rewrite pow256_S in P1.
      assert (Hbig : 256 ^ Z.of_nat k <= big < 256 ^ Z.of_nat (S k)).
      { rewrite pow256_S. unfold big. lia. }
      assert (Hfuel : (k < digits_fuel big)%nat).
      { unfold digits_fuel. apply Nat.lt_succ_r. unfold k. apply Z2Nat.inj_le; try lia.
        - apply Z.log2_nonneg.
        - apply Z.log2_le_pow2; [unfold big; lia|]. rewrite Hk in *.
          apply Z.le_trans with (256 ^ (n - 1)); [|lia].
          replace (256 ^ (n-1)) with (2 ^ (8 * (n - 1))) by (rewrite Z.pow_mul_r by lia; reflexivity).
          apply Z.pow_le_mono_r; lia. }
      rewrite (le_digits_le_bytes k _ _ Hbig Hfuel).
      assert (Hne : le_bytes (S k) big <> []) by (cbn [le_bytes]; discriminate).
      unfold varint_unpack. rewrite (rev_last _ Hne) at 1.
      rewrite last_le_bytes.
      assert (Htop : 128 <= big / 256 ^ Z.of_nat k < 256).
      { split; [apply Z.div_le_lower_bound; unfold big; lia | apply Z.div_lt_upper_bound; unfold big; lia]. }
      rewrite (Z.mod_small _ 256) by lia.
      destruct (128 <=? big / 256 ^ Z.of_nat k) eqn:C; [|apply Z.leb_gt in C; lia].
      f_equal. fold (be_bytes (S k) big). rewrite be_val_be_bytes.
      unfold len. rewrite be_bytes_length. rewrite pow256, pow256_S.
      rewrite Z.mod_small by (rewrite pow256_S in Hbig; lia).
      unfold big. lia.
    + apply Z.ltb_ge in Zn. assert (Hz : 0 < z) by lia.
      destruct (digits_exist z Hz) as [k [Hb Hf]].
      rewrite (le_digits_le_bytes k _ _ Hb Hf).
      assert (Hne : le_bytes (S k) z <> []) by (cbn [le_bytes]; discriminate).
      assert (Pk : 0 < 256 ^ Z.of_nat k) by apply pow256_pos.
      rewrite pow256_S in Hb.
      assert (Htop : 0 <= z / 256 ^ Z.of_nat k < 256).
      { split; [apply Z.div_pos; lia | apply Z.div_lt_upper_bound; lia]. }
      rewrite last_le_bytes, (Z.mod_small _ 256) by lia.
      destruct (128 <=? z / 256 ^ Z.of_nat k) eqn:C.
      * rewrite rev_app_distr. cbn [rev app]. unfold varint_unpack.
        change (128 <=? 0) with false. cbv iota. f_equal.
        rewrite be_val_cons. fold (be_bytes (S k) z). rewrite be_val_be_bytes, pow256_S.
        rewrite Z.mod_small by lia. lia.
      * unfold varint_unpack. rewrite (rev_last _ Hne) at 1.
        rewrite last_le_bytes, (Z.mod_small _ 256) by lia. rewrite C.
        f_equal. fold (be_bytes (S k) z). rewrite be_val_be_bytes, pow256_S.
        apply Z.mod_small. lia.
Qed.

Lemma varint_pack_nonempty : forall z, varint_pack z <> [].
Proof.
  intros z H. pose proof (varint_unpack_pack z) as R. rewrite H in R. discriminate.
Qed.
