From Coq Require Import ZArith List Bool Lia ZifyBool.
From Verif Require Import PyBase ProtoConsts ProtoVersion Negotiation.
Import ListNotations.
Local Open Scope Z_scope.

Lemma py_in_In x l : py_in x l = true <-> In x l.
Proof.
  induction l as [|y l IH]; cbn [py_in In]; [split; [discriminate|tauto]|].
  rewrite orb_true_iff, IH. split; intros [H|H]; auto; [left; lia|left; lia].
Qed.

Fixpoint desc_sorted (l : list Z) : bool :=
  match l with
  | a :: ((b :: _) as t) => (b <? a) && desc_sorted t
  | _ => true
  end.

Lemma desc_sorted_tail a l : desc_sorted (a :: l) = true -> desc_sorted l = true.
Proof. destruct l; [reflexivity|]. cbn [desc_sorted]. intros H. apply andb_prop in H. tauto. Qed.

Lemma desc_sorted_head a l y : desc_sorted (a :: l) = true -> In y l -> y < a.
Proof.
  revert a. induction l as [|b l IH]; intros a Hs Hy; [inversion Hy|].
  cbn [desc_sorted] in Hs. apply andb_prop in Hs. destruct Hs as [Hba Hs].
  destruct Hy as [<-|Hy]; [lia|]. specialize (IH b Hs Hy). lia.
Qed.

(* on a descending list, find returns the greatest element satisfying the predicate *)
Lemma find_desc_greatest (f : Z -> bool) l x :
  desc_sorted l = true -> find f l = Some x ->
  In x l /\ f x = true /\ forall y, In y l -> f y = true -> y <= x.
Proof.
  induction l as [|a l IH]; intros Hs Hf; [discriminate|].
  cbn [find] in Hf. destruct (f a) eqn:Fa.
  - inversion Hf; subst. split; [left; reflexivity|]. split; [assumption|].
    intros y [<-|Hy] _; [lia|]. pose proof (desc_sorted_head _ _ _ Hs Hy). lia.
  - destruct (IH (desc_sorted_tail _ _ Hs) Hf) as (Hin & Hfx & Hmax).
    split; [right; assumption|]. split; [assumption|].
    intros y [<-|Hy] Hfy; [congruence|]. apply Hmax; assumption.
Qed.

Lemma find_none_all (f : Z -> bool) l : find f l = None -> forall y, In y l -> f y = false.
Proof. intros H y Hy. exact (find_none f l H y Hy). Qed.

Definition same_elements_b (a b : list Z) : bool :=
  forallb (fun x => py_in x b) a && forallb (fun x => py_in x a) b.

(* characterisation of the generated get_lower_supported: robust to the concrete version table *)
Lemma lower_char : exists L,
  desc_sorted L = true /\ same_elements_b L SUPPORTED_VERSIONS = true /\
  forall v, get_lower_supported v =
            match find (fun u => negb (py_in u BETA_VERSIONS) && (u <? v)) L with Some x => x | None => 0 end.
Proof.
  eexists. split; [|split]; [| |intros v; unfold get_lower_supported; reflexivity]; vm_compute; reflexivity.
Qed.

Lemma same_elements_in a b x : same_elements_b a b = true -> (In x a <-> In x b).
Proof.
  unfold same_elements_b. intros H. apply andb_prop in H. destruct H as [H1 H2].
  rewrite forallb_forall in H1, H2. split; intros Hx.
  - apply py_in_In. apply H1. assumption.
  - apply py_in_In. apply H2. assumption.
Qed.

Lemma lower_spec v :
  (get_lower_supported v = 0 /\ forall u, non_beta_supported u = true -> u < v -> False) \/
  is_next_lower v (get_lower_supported v).
Proof.
  destruct lower_char as (L & Hs & Hel & Hc). rewrite Hc.
  destruct (find _ L) as [x|] eqn:F.
  - right. destruct (find_desc_greatest _ _ _ Hs F) as (Hin & Hfx & Hmax).
    apply andb_prop in Hfx. destruct Hfx as [Hnb Hlt].
    unfold is_next_lower, non_beta_supported. split; [|split].
    + apply andb_true_intro. split; [|assumption]. apply py_in_In. apply (same_elements_in _ _ _ Hel). assumption.
    + lia.
    + intros u Hu Huv. apply andb_prop in Hu. destruct Hu as [Hsu Hbu].
      apply Hmax; [apply (same_elements_in _ _ _ Hel); apply py_in_In; assumption|].
      apply andb_true_intro. split; [assumption|lia].
  - left. split; [reflexivity|]. intros u Hu Huv. unfold non_beta_supported in Hu.
    apply andb_prop in Hu. destruct Hu as [Hsu Hbu].
    assert (Hin : In u L) by (apply (same_elements_in _ _ _ Hel); apply py_in_In; assumption).
    pose proof (find_none_all _ _ F u Hin) as Hf. cbn beta in Hf. rewrite Hbu in Hf. cbn in Hf. lia.
Qed.

Lemma min_supported_positive : 1 <= MIN_SUPPORTED /\ forall u, In u SUPPORTED_VERSIONS -> MIN_SUPPORTED <= u.
Proof. split; [vm_compute; discriminate|]. intros u Hu. apply py_in_In in Hu. revert Hu.
  unfold SUPPORTED_VERSIONS, MIN_SUPPORTED. cbn [py_in]. lia. Qed.

(* protocol_downgrade: refusal for explicit versions, otherwise exactly the next lower version *)
Lemma downgrade_explicit pv cur : protocol_downgrade pv true cur = Raise.
Proof. reflexivity. Qed.

Lemma downgrade_spec pv cur r :
  protocol_downgrade pv false cur = r ->
  (exists pv', r = Ok (tt, pv') /\ pv' = get_lower_supported pv /\ is_next_lower pv pv') \/
  (r = Raise /\ forall u, non_beta_supported u = true -> u < pv -> False).
Proof.
  unfold protocol_downgrade. cbn [negb]. intros <-.
  destruct (lower_spec pv) as [[H0 Hno]|Hn].
  - right. rewrite H0. cbn. split; [reflexivity|assumption].
  - destruct Hn as (Hnb & Hlt & Hmax).
    assert (1 <= get_lower_supported pv).
    { unfold non_beta_supported in Hnb. apply andb_prop in Hnb. destruct Hnb as [Hs _]. apply py_in_In in Hs.
      destruct min_supported_positive as [H1 H2]. specialize (H2 _ Hs). lia. }
    destruct (get_lower_supported pv <? 1) eqn:E; [lia|].
    left. eexists. split; [reflexivity|]. split; [reflexivity|]. repeat split; assumption.
Qed.

Lemma downgrade_not_fuel pv e cur : protocol_downgrade pv e cur <> Fuel.
Proof. unfold protocol_downgrade. destruct e; [discriminate|]. destruct (_ <? _); discriminate. Qed.

(* measure: number of supported versions strictly below pv *)
Definition below (pv : Z) : nat := length (filter (fun u => u <? pv) SUPPORTED_VERSIONS).

Lemma filter_length_le {A} (f g : A -> bool) l :
  (forall x, In x l -> f x = true -> g x = true) -> (length (filter f l) <= length (filter g l))%nat.
Proof.
  induction l as [|a l IH]; intros H; [apply le_n|]. cbn [filter].
  assert (IH' : (length (filter f l) <= length (filter g l))%nat).
  { apply IH. intros x Hx. apply H. right. assumption. }
  destruct (f a) eqn:Fa.
  - rewrite (H a (or_introl eq_refl) Fa). cbn. lia.
  - destruct (g a); cbn; lia.
Qed.

Lemma filter_length_lt {A} (f g : A -> bool) l w :
  (forall x, In x l -> f x = true -> g x = true) -> In w l -> f w = false -> g w = true ->
  (length (filter f l) < length (filter g l))%nat.
Proof.
  induction l as [|a l IH]; intros H Hw Fw Gw; [inversion Hw|]. cbn [filter].
  assert (Hsub : forall x, In x l -> f x = true -> g x = true) by (intros x Hx; apply H; right; assumption).
  destruct Hw as [->|Hw].
  - rewrite Fw, Gw. cbn. pose proof (filter_length_le f g l Hsub). lia.
  - specialize (IH Hsub Hw Fw Gw). destruct (f a) eqn:Fa.
    + rewrite (H a (or_introl eq_refl) Fa). cbn. lia.
    + destruct (g a); cbn; lia.
Qed.

Lemma below_decreases pv pv' : is_next_lower pv pv' -> (below pv' < below pv)%nat.
Proof.
  intros (Hnb & Hlt & _). unfold below.
  unfold non_beta_supported in Hnb. apply andb_prop in Hnb. destruct Hnb as [Hs _]. apply py_in_In in Hs.
  apply filter_length_lt with (w := pv'); [intros x _ Hx; lia|assumption|lia|lia].
Qed.

Lemma below_le_length pv : (below pv <= length SUPPORTED_VERSIONS)%nat.
Proof.
  unfold below. induction SUPPORTED_VERSIONS as [|a l IH]; [apply le_n|].
  cbn [filter]. destruct (a <? pv); cbn [length]; lia.
Qed.

Lemma last_default {A} (a : A) l d d' : last (a :: l) d = last (a :: l) d'.
Proof. revert a. induction l as [|b l IH]; intros a; [reflexivity|]. cbn [last] in *. apply IH. Qed.

(* the loop: never out of fuel, versions tried form the descending chain, outcome is justified *)
Lemma try_connect_spec : forall fuel server explicit pv tr o,
  (below pv < fuel)%nat ->
  try_connect fuel server explicit pv = (tr, o) ->
  o <> OutOfFuel /\
  hd_error tr = Some pv /\
  chain tr /\
  (forall v, In v tr -> v <= pv) /\
  (explicit = true -> tr = [pv]) /\
  (forall v, o = Connected v -> server v = Accept /\ last tr pv = v) /\
  (o = Failed -> server (last tr pv) <> Accept).
Proof.
  induction fuel as [|fuel IH]; intros server explicit pv tr o Hf H; [lia|].
  cbn [try_connect] in H.
  assert (Hdown : forall rep, server pv = rep -> (rep = Unsupported \/ (rep = BetaError /\ explicit = false)) ->
     match protocol_downgrade pv explicit pv with
     | Ok (_, pv') => let '(tr, o) := try_connect fuel server explicit pv' in (pv :: tr, o)
     | _ => ([pv], Failed)
     end = (tr, o) ->
     o <> OutOfFuel /\ hd_error tr = Some pv /\ chain tr /\ (forall v, In v tr -> v <= pv) /\
     (explicit = true -> tr = [pv]) /\
     (forall v, o = Connected v -> server v = Accept /\ last tr pv = v) /\ (o = Failed -> server (last tr pv) <> Accept)).
  { intros rep Hrep Hkind H1. destruct explicit.
    - rewrite downgrade_explicit in H1. inversion H1; subst.
      repeat split; try discriminate; try reflexivity.
      + intros v [<-|[]]. lia.
      + cbn. destruct Hkind as [E|[E _]]; rewrite E; discriminate.
    - destruct (protocol_downgrade pv false pv) as [[u pv']| |] eqn:D.
      + apply downgrade_spec in D. destruct D as [(pv'' & E & _ & Hn)|[E _]]; [|discriminate].
        inversion E; subst pv''. clear E.
        destruct (try_connect fuel server false pv') as [tr' o'] eqn:R. injection H1 as Htr Ho. subst tr o.
        pose proof (below_decreases _ _ Hn) as Hb.
        destruct (IH server false pv' tr' o' ltac:(lia) R) as (I1 & I2 & I3 & I4 & I5 & I6 & I7).
        destruct tr' as [|t0 tr']; [discriminate|]. cbn in I2. inversion I2; subst t0.
        split; [assumption|]. split; [reflexivity|]. split; [cbn [chain]; split; assumption|].
        destruct Hn as (_ & Hlt & _).
        split; [intros v [<-|Hv]; [lia|specialize (I4 v Hv); lia]|].
        split; [discriminate|].
        split.
        * intros v Hv. destruct (I6 v Hv) as [A B]. split; [assumption|].
          change (last (pv :: pv' :: tr') pv) with (last (pv' :: tr') pv). rewrite (last_default pv' tr' pv pv'). exact B.
        * intros Hv. specialize (I7 Hv). change (last (pv :: pv' :: tr') pv) with (last (pv' :: tr') pv).
          rewrite (last_default pv' tr' pv pv'). exact I7.
      + inversion H1; subst. repeat split; try discriminate; try reflexivity.
        * intros v [<-|[]]. lia.
        * cbn. destruct Hkind as [E|[E _]]; rewrite E; discriminate.
      + exfalso. exact (downgrade_not_fuel _ _ _ D). }
  destruct (server pv) eqn:S.
  - inversion H; subst. repeat split; try discriminate; try reflexivity.
    + intros v [<-|[]]. lia.
    + inversion H0; subst. assumption.
    + inversion H0; subst. reflexivity.
  - apply (Hdown Unsupported eq_refl); [left; reflexivity|assumption].
  - destruct explicit; cbn [negb] in H.
    + inversion H; subst. repeat split; try discriminate; try reflexivity.
      * intros v [<-|[]]. lia.
      * cbn. rewrite S. discriminate.
    + apply (Hdown BetaError eq_refl); [right; split; reflexivity|assumption].
  - inversion H; subst. repeat split; try discriminate; try reflexivity.
    + intros v [<-|[]]. lia.
    + cbn. rewrite S. discriminate.
Qed.
