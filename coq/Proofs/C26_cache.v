(* C26: the replica-map cache never outlives the settings it was built from (with the lock); it can without. *)
From Coq Require Import ZArith List Bool Lia.
From Verif Require Import RingCache.
Import ListNotations.

Definition CInv (s : cstate) : Prop :=
  (forall c, cache s = Some c -> c <> settings s -> pending s > 0) /\
  (forall r, qlock s = Some (Some r) -> r <> settings s -> pending s > 0).

Lemma cinv_init : forall v, CInv (cinit v).
Proof. intros v. split; cbn; intros; discriminate. Qed.

Lemma cinv_step : forall s o, in_source o = true -> CInv s -> CInv (cstep s o).
Proof.
  intros [st ca ql pe] o Ho [Ha Hb]. cbn in Ha, Hb.
  destruct o; try discriminate; cbn [cstep settings cache qlock pending].
  - destruct ql as [q|]; [split; assumption|]. destruct ca; split; cbn; try assumption; intros; discriminate.
  - destruct ql as [[r|]|]; try (split; assumption). split; cbn; [assumption|]. intros r Hr Hne. inversion Hr. congruence.
  - destruct ql as [[r|]|]; try (split; assumption). split; cbn; [|intros; discriminate].
    intros c Hc Hne. inversion Hc; subst. apply (Hb c eq_refl Hne).
  - split; cbn; intros; lia.
  - destruct ql as [q|]; [split; assumption|]. destruct pe as [|p]; [split; assumption|]. split; cbn; [|intros; discriminate].
    intros c Hc Hne. destruct ca; inversion Hc. congruence.
  - split; cbn; [intros; discriminate | assumption].
Qed.

Lemma cinv_run : forall ops s, forallb in_source ops = true -> CInv s -> CInv (crun s ops).
Proof.
  induction ops as [|o ops IH]; intros s Hs Hi; [exact Hi|]. cbn [forallb] in Hs. apply andb_true_iff in Hs.
  destruct Hs as [Ho Hs]. unfold crun. cbn [fold_left]. apply IH; [assumption | apply cinv_step; assumption].
Qed.

Lemma cache_current : forall v ops, forallb in_source ops = true ->
  quiescent (crun (cinit v) ops) -> served (crun (cinit v) ops) = settings (crun (cinit v) ops).
Proof.
  intros v ops Hs [Hq Hp]. destruct (cinv_run ops (cinit v) Hs (cinv_init v)) as [Ha _].
  unfold served. destruct (cache (crun (cinit v) ops)) as [c|] eqn:E; [|reflexivity].
  destruct (Nat.eq_dec c (settings (crun (cinit v) ops))) as [H|H]; [assumption|].
  specialize (Ha c eq_refl H). lia.
Qed.
