From Coq Require Import QArith Qminmax Qpower ZArith List Bool Lqa Lia.
From Verif Require Import Reconnect.
Local Open Scope Q_scope.

Lemma limited_some {A} n (item : nat -> A) i : (i < n)%nat -> limited (Some n) item i = Some (item i).
Proof. intros H. unfold limited. destruct (i <? n)%nat eqn:E; [reflexivity|]. apply Nat.ltb_ge in E. lia. Qed.
Lemma limited_none_after {A} n (item : nat -> A) i : (n <= i)%nat -> limited (Some n) item i = None.
Proof. intros H. unfold limited. destruct (i <? n)%nat eqn:E; [|reflexivity]. apply Nat.ltb_lt in E. lia. Qed.
Lemma limited_unbounded {A} (item : nat -> A) i : limited None item i = Some (item i).
Proof. reflexivity. Qed.

(* number of items an iterator yields = the least index where it is exhausted *)
Lemma limited_length {A} n (item : nat -> A) i : limited (Some n) item i = None <-> (n <= i)%nat.
Proof.
  split; intros H; [|apply limited_none_after; assumption].
  unfold limited in H. destruct (i <? n)%nat eqn:E; [discriminate|]. apply Nat.ltb_ge in E. assumption.
Qed.

Lemma add_jitter_bounds base max j v : base <= max -> base <= add_jitter base max j v /\ add_jitter base max j v <= max.
Proof.
  intros Hbm. unfold add_jitter.
  set (x := (inject_Z j * v) / (100 # 1)).
  destruct (Q.max_spec base x) as [[H1 E1]|[H1 E1]]; destruct (Q.min_spec (Qmax base x) max) as [[H2 E2]|[H2 E2]];
    rewrite E2; try rewrite E1; split; try lra; rewrite E1 in H2; lra.
Qed.

Lemma raw_inv base max i : 0 <= base ->
  raw base max i == base * (2 # 1) ^ (Z.of_nat i) \/ (max <= raw base max i /\ max <= base * (2 # 1) ^ (Z.of_nat i)).
Proof.
  intros Hb. induction i as [|k IH].
  - left. cbn. lra.
  - assert (Hpow : (2 # 1) ^ Z.of_nat (S k) == (2 # 1) ^ Z.of_nat k * (2 # 1)).
    { rewrite Nat2Z.inj_succ. unfold Z.succ. rewrite Qpower_plus by discriminate. reflexivity. }
    assert (Hpos : 0 <= (2 # 1) ^ Z.of_nat k) by (apply Qpower_0_le; discriminate).
    cbn [raw]. destruct (Qlt_le_dec (raw base max k) max) as [Hlt|Hge].
    + destruct IH as [E|[H1 _]]; [|lra]. left. rewrite Hpow, E. ring.
    + right. split; [assumption|]. rewrite Hpow.
      destruct IH as [E|[_ H2]].
      * rewrite E in Hge. nra.
      * nra.
Qed.

Lemma raw_curve base max i : 0 <= base -> Qmin (raw base max i) max == curve base max i.
Proof.
  intros Hb. unfold curve. destruct (raw_inv base max i Hb) as [E|[H1 H2]].
  - rewrite E. reflexivity.
  - rewrite (Q.min_r _ _ H1), (Q.min_r _ _ H2). reflexivity.
Qed.

Lemma curve_bounds base max i : 0 <= base -> base <= max -> base <= curve base max i /\ curve base max i <= max.
Proof.
  intros Hb Hbm. unfold curve.
  assert (Hp : 1 <= (2 # 1) ^ Z.of_nat i).
  { induction i as [|k IH]; [cbn; lra|]. rewrite Nat2Z.inj_succ. unfold Z.succ. rewrite Qpower_plus by discriminate.
    change ((2#1)^1) with (2#1). nra. }
  destruct (Q.min_spec (base * (2 # 1) ^ Z.of_nat i) max) as [[H E]|[H E]]; rewrite E; split; try lra; nra.
Qed.

Lemma jitter_band (j : Z) (c : Q) : (85 <= j <= 115)%Z -> 0 <= c ->
  (85 # 100) * c <= (inject_Z j * c) / (100 # 1) /\ (inject_Z j * c) / (100 # 1) <= (115 # 100) * c.
Proof.
  intros [Hl Hu] Hc.
  assert (H1 : inject_Z 85 <= inject_Z j) by (rewrite <- Zle_Qle; assumption).
  assert (H2 : inject_Z j <= inject_Z 115) by (rewrite <- Zle_Qle; assumption).
  change (inject_Z 85) with (85 # 1) in H1. change (inject_Z 115) with (115 # 1) in H2.
  unfold Qdiv. assert (E : / (100 # 1) == 1 # 100) by reflexivity. rewrite E. split; nra.
Qed.

Lemma exp_item_spec base max jit i : 0 <= base ->
  exp_item base max jit i == Qmin (Qmax base ((inject_Z (jit i) * curve base max i) / (100 # 1))) max.
Proof.
  intros Hb. unfold exp_item, add_jitter. rewrite (raw_curve base max i Hb). reflexivity.
Qed.

(* the handler uses every delay of the schedule, in order, as long as attempts keep failing *)
Lemma handler_run_all_fail : forall sched k,
  handler_run sched (repeat AFail k) = firstn k sched.
Proof.
  induction sched as [|d r IH]; intros k; destruct k as [|k]; try reflexivity.
  cbn [repeat handler_run firstn]. rewrite IH. reflexivity.
Qed.

Lemma handler_all_fail d0 r k : handler (d0 :: r) (repeat AFail k) = Some (firstn (S k) (d0 :: r)).
Proof. cbn [handler firstn]. rewrite handler_run_all_fail. reflexivity. Qed.
