(* C45 proofs over Model/Shutdown.v *)
From Coq Require Import ZArith List Bool Arith Lia.
From Verif Require Import Shutdown.
Import ListNotations.

(* ---------------------------------------------------------------- D: a shut-down cluster has everything shut down *)
Definition D (s : st) : Prop :=
  cl_down s = true -> sess_down s = true /\ cc_down s = true /\ sched_down s = true.

Lemma D_session_shutdown s : D s -> D (session_shutdown s).
Proof.
  unfold D, session_shutdown. destruct (sess_down s) eqn:E; simpl; intros H Hc.
  - rewrite E. apply H; auto.
  - destruct (H Hc) as (A & B & C). repeat split; auto.
Qed.

Lemma D_cc_shutdown s : D s -> D (cc_shutdown s).
Proof.
  unfold D, cc_shutdown. simpl. destruct (cc_down s) eqn:E; simpl; intros H Hc.
  - rewrite E. apply H; auto.
  - destruct (cc_conn s); simpl in *; destruct (H Hc) as (A & B & C); repeat split; auto.
Qed.

Lemma cluster_shutdown_all s : let s' := cluster_shutdown s in
  cl_down s = false -> cl_down s' = true /\ sess_down s' = true /\ cc_down s' = true /\ sched_down s' = true.
Proof.
  intros s' H. unfold s', cluster_shutdown. rewrite H. unfold session_shutdown, cc_shutdown. simpl.
  destruct (cc_down s), (sess_down s), (cc_conn s); simpl; repeat split; auto.
Qed.

Lemma D_cluster_shutdown s : D s -> D (cluster_shutdown s).
Proof.
  intros H. destruct (cl_down s) eqn:E.
  - unfold cluster_shutdown. rewrite E. auto.
  - intros _. destruct (cluster_shutdown_all s E) as (_ & A & B & C). repeat split; auto.
Qed.

Lemma D_flags s s' : cl_down s' = cl_down s -> sess_down s' = sess_down s -> cc_down s' = cc_down s -> sched_down s' = sched_down s -> D s -> D s'.
Proof. unfold D. intros -> -> -> ->. auto. Qed.

Lemma D_connect s d : D s -> D (fst (connect s d)).
Proof. intros H. unfold connect. simpl. destruct d; [apply D_cluster_shutdown|]; eapply D_flags; eauto. Qed.

Lemma cluster_shutdown_idem s : cl_down s = true -> cluster_shutdown s = s.
Proof. intros H. unfold cluster_shutdown. rewrite H. reflexivity. Qed.

Lemma connect_after_shutdown s d : cl_down s = true -> fst (connect s d) = att (set_nconn s (S (nconn s))) 1.
Proof. intros Hc. unfold connect. simpl. destruct d; auto. apply cluster_shutdown_idem. exact Hc. Qed.

Opaque connect.

Ltac dflags := first [ assumption
  | match goal with HH : D ?x |- _ => solve [eapply (D_flags x); [| | | | exact HH]; reflexivity] end ].

Lemma D_step s o : D s -> D (fst (step s o)).
Proof.
  intros H. destruct o; simpl.
  - destruct (sess_down s); simpl; dflags.
  - destruct (pool_conn (pool s h)); simpl.
    + destruct (sess_down s); simpl; dflags.
    + dflags.
  - destruct (cc_down s || cl_down s); simpl; dflags.
  - destruct (sched_down s); simpl; dflags.
  - destruct (nth_error (queue s) k) as [t|]; simpl; [|dflags].
    assert (H0 : D (set_queue s (remove_nth k (queue s)))) by dflags.
    set (s0 := set_queue s (remove_nth k (queue s))) in *.
    destruct t; cbn [run_task].
    + destruct o; [|exact H0]. destruct (negb (h <? nh s0)); [exact H0|].
      pose proof (D_connect s0 during H0) as H1.
      destruct (connect s0 during) as [s1 c]; simpl in *. destruct (sess_down s1); [dflags|].
      destruct (pool_conn (pool s1 h)); simpl; dflags.
    + destruct (pool s0 h) as [[[c0'|] [|]]|]; try exact H0. destruct (c0' =? c0); [|exact H0].
      destruct o.
      * pose proof (D_connect s0 during H0) as H1. destruct (connect s0 during) as [s1 c]; simpl in *.
        destruct (pool s1 h) as [[[?|] [|]]|]; simpl; dflags.
      * cbn zeta. destruct (sess_down (att s0 1)); dflags.
    + destruct o.
      * pose proof (D_connect s0 during H0) as H1. destruct (connect s0 during) as [s1 c]; simpl in *.
        destruct (cc_down s1); [dflags|]. destruct (cc_conn s1); simpl; dflags.
      * destruct during; [apply D_cluster_shutdown; dflags|].
        destruct (cc_down s0); [dflags|]. cbn zeta. destruct (sched_down (att s0 (nh s0))); dflags.
  - destruct (sched_down s) eqn:Es; simpl; [dflags|].
    destruct (nth_error (timers s) k) as [t|]; simpl; [|dflags].
    assert (H0 : D (set_timers s (remove_nth k (timers s)))) by dflags.
    set (s0 := set_timers s (remove_nth k (timers s))) in *.
    destruct t; cbn [fire].
    + destruct live; cbn [negb]; [|exact H0]. destruct o.
      * pose proof (D_connect s0 during H0) as H1. destruct (connect s0 during) as [s1 c]; simpl in *. dflags.
      * cbn zeta. destruct (sched_down (att s0 1)); dflags.
    + destruct live; cbn [negb]; [|exact H0]. destruct o.
      * pose proof (D_connect s0 during H0) as H1. destruct (connect s0 during) as [s1 c]; simpl in *.
        destruct (cc_down s1); [dflags|]. destruct (cc_conn s1); simpl; dflags.
      * destruct during; [apply D_cluster_shutdown; dflags|].
        cbn zeta. destruct (sched_down (att s0 (nh s0))); dflags.
  - apply D_cluster_shutdown; auto.
  - apply D_session_shutdown; auto.
  - exact H.
  - exact H.
Qed.

Lemma D_run os : forall s, D s -> D (run s os).
Proof. induction os; simpl; intros s H; auto. apply IHos. apply D_step; auto. Qed.

Lemma D_init n : D (init n).
Proof. unfold D, init; simpl. discriminate. Qed.

(* ---------------------------------------------------------------- after shutdown nothing new is accepted *)
Lemma In_remove_nth {A} (k : nat) (l : list A) x : In x (remove_nth k l) -> In x l.
Proof. revert k; induction l; intros k Hin; destruct k; simpl in *; auto. destruct Hin; eauto. Qed.

Lemma no_new_work s o : cl_down s = true -> sess_down s = true -> cc_down s = true -> sched_down s = true ->
  let s' := fst (step s o) in
  (forall t, In t (queue s') -> In t (queue s)) /\ timers s' = timers s /\ snd (step s o) <> Accepted \/
  (o = OSubmit \/ o = ORequest) /\ step s o = (s, Refused).
Proof.
  intros Hc Hs Hcc Hsc. destruct o; simpl; rewrite ?Hc, ?Hs, ?Hcc, ?Hsc; simpl; auto; try (left; repeat split; auto; discriminate).
  - left. destruct (pool_conn (pool s h)); simpl; repeat split; auto; discriminate.
  - left. destruct (nth_error (queue s) k) as [t|] eqn:Ek; simpl; [|repeat split; auto; discriminate].
    set (s0 := set_queue s (remove_nth k (queue s))).
    assert (Q0 : forall t, In t (queue s0) -> In t (queue s)) by (intros x Hx; eapply In_remove_nth; exact Hx).
    assert (Hconn : forall d, fst (connect s0 d) = att (set_nconn s0 (S (nconn s0))) 1).
    { intros d. apply connect_after_shutdown. exact Hc. }
    destruct t; cbn [run_task].
    + destruct o; [|repeat split; auto; discriminate].
      destruct (negb (h <? nh s0)); [repeat split; auto; discriminate|].
      pose proof (Hconn during) as E. destruct (connect s0 during) as [s1 c]; simpl in E; subst s1. simpl. rewrite Hs.
      simpl. repeat split; auto; discriminate.
    + destruct (pool s0 h) as [[[c0'|] [|]]|]; try (repeat split; auto; discriminate).
      destruct (c0' =? c0); [|repeat split; auto; discriminate].
      destruct o.
      * pose proof (Hconn during) as E. destruct (connect s0 during) as [s1 c]; simpl in E; subst s1. simpl.
        destruct (pool s h) as [[[?|] [|]]|]; simpl; repeat split; auto; discriminate.
      * simpl. rewrite Hs. repeat split; auto; discriminate.
    + destruct o.
      * pose proof (Hconn during) as E. destruct (connect s0 during) as [s1 c]; simpl in E; subst s1. simpl. rewrite Hcc.
        simpl. repeat split; auto; discriminate.
      * destruct during.
        -- rewrite (cluster_shutdown_idem (att s0 1) Hc). simpl. repeat split; auto; discriminate.
        -- simpl. rewrite Hcc. simpl. repeat split; auto; discriminate.
  - left. rewrite (cluster_shutdown_idem s Hc). repeat split; auto; discriminate.
  - left. unfold session_shutdown. rewrite Hs. repeat split; auto; discriminate.
Qed.


(* after the shutdown a step starts at most ONE connection attempt (the one of a task that was already queued) *)
Lemma one_late_attempt s o : cl_down s = true -> sess_down s = true -> cc_down s = true -> sched_down s = true ->
  attempts (fst (step s o)) <= S (attempts s).
Proof.
  intros Hc Hs Hcc Hsc. destruct o; simpl; rewrite ?Hc, ?Hs, ?Hcc, ?Hsc; simpl; auto.
  - destruct (pool_conn (pool s h)); simpl; auto.
  - destruct (nth_error (queue s) k) as [t|] eqn:Ek; simpl; auto.
    set (s0 := set_queue s (remove_nth k (queue s))).
    assert (Hconn : forall d, fst (connect s0 d) = att (set_nconn s0 (S (nconn s0))) 1).
    { intros d. apply connect_after_shutdown. exact Hc. }
    destruct t; cbn [run_task].
    + destruct o; auto. destruct (negb (h <? nh s0)); auto.
      pose proof (Hconn during) as E. destruct (connect s0 during) as [s1 c]; simpl in E; subst s1. simpl. rewrite Hs.
      simpl. lia.
    + destruct (pool s0 h) as [[[c0'|] [|]]|]; auto. destruct (c0' =? c0); auto.
      destruct o.
      * pose proof (Hconn during) as E. destruct (connect s0 during) as [s1 c]; simpl in E; subst s1. simpl.
        destruct (pool s h) as [[[?|] [|]]|]; simpl; try lia.
      * simpl. rewrite Hs. simpl. lia.
    + destruct o.
      * pose proof (Hconn during) as E. destruct (connect s0 during) as [s1 c]; simpl in E; subst s1. simpl. rewrite Hcc.
        simpl. lia.
      * destruct during.
        -- rewrite (cluster_shutdown_idem (att s0 1) Hc). simpl. lia.
        -- simpl. rewrite Hcc. simpl. lia.
  - rewrite (cluster_shutdown_idem s Hc). auto.
  - unfold session_shutdown. rewrite Hs. auto.
Qed.

(* ---------------------------------------------------------------- KK: every opened connection is closed or has a holder *)
Transparent connect.

Definition held (s : st) (c : nat) : Prop :=
  In c (closed s) \/ cc_conn s = Some c \/ exists h, pool_conn (pool s h) = Some c.

Definition KKn (s : st) (n : nat) : Prop :=
  (forall c, c < n -> held s c) /\
  (cc_down s = true -> cc_conn s = None) /\
  (sess_down s = true -> forall h, pool_conn (pool s h) = None) /\
  (forall h, nh s <= h -> pool s h = None).

Definition KK (s : st) : Prop := KKn s (nconn s).

Lemma KKn_frame s s' n :
  closed s' = closed s -> cc_conn s' = cc_conn s -> pool s' = pool s -> cc_down s' = cc_down s ->
  sess_down s' = sess_down s -> nh s' = nh s -> KKn s n -> KKn s' n.
Proof.
  intros E1 E2 E3 E4 E5 E6 (A & B & C & D0). unfold KKn, held. rewrite E1, E2, E3, E4, E5, E6. auto.
Qed.

Ltac kframe := first [ assumption
  | match goal with HH : KKn ?x ?n |- KKn _ ?n => solve [apply (KKn_frame x); [reflexivity ..| exact HH]] end ].

Lemma KKn_close s n c : KKn s n -> KKn (close s c) n.
Proof.
  intros (A & B & C & D0). split; [|auto]. intros x Hx. destruct (A x Hx) as [H | [H | H]].
  - left. simpl. auto. - right; left; auto. - right; right; auto.
Qed.

Lemma KKn_close_new s n : KKn s n -> KKn (close s n) (S n).
Proof.
  intros H. pose proof (KKn_close s n n H) as (A & B & C & D0). split; [|auto].
  intros x Hx. assert (x < n \/ x = n) as [Hl | ->] by lia; auto. left. simpl. auto.
Qed.

Lemma KKn_close_opt s n o : KKn s n -> KKn (close_opt s o) n.
Proof. destruct o; simpl; auto using KKn_close. Qed.

Lemma KKn_session_shutdown s n : KKn s n -> KKn (session_shutdown s) n.
Proof.
  intros (A & B & C & D0). unfold session_shutdown. destruct (sess_down s) eqn:Es; [repeat split; auto|].
  split; [|split; [|split]]; simpl; auto.
  - intros x Hx. destruct (A x Hx) as [H | [H | [h H]]].
    + left. simpl. apply in_or_app; auto.
    + right; left; auto.
    + left. simpl. apply in_or_app. left. apply in_flat_map. exists h. split.
      * apply in_seq. split; [lia|]. simpl. destruct (Nat.lt_ge_cases h (nh s)) as [|Hge]; auto.
        rewrite (D0 h Hge) in H. discriminate.
      * rewrite H. simpl; auto.
  - intros _ h. destruct (pool s h) as [[? ?]|]; reflexivity.
  - intros h Hh. rewrite (D0 h Hh). reflexivity.
Qed.

Lemma KKn_cc_shutdown s n : KKn s n -> KKn (cc_shutdown s) n.
Proof.
  intros (A & B & C & D0). unfold cc_shutdown. simpl.
  destruct (cc_down s) eqn:Ec.
  - split; [|split; [|split]]; simpl; auto.
  - destruct (cc_conn s) as [c0|] eqn:E0; simpl; (split; [|split; [|split]]); simpl; auto.
    + intros x Hx. destruct (A x Hx) as [H1 | [H1 | H1]].
      * left; simpl; auto.
      * left; simpl. left. congruence.
      * right; right; auto.
    + intros x Hx. destruct (A x Hx) as [H1 | [H1 | H1]].
      * left; auto.
      * congruence.
      * right; right; auto.
Qed.

Lemma KKn_cluster_shutdown s n : KKn s n -> KKn (cluster_shutdown s) n.
Proof.
  intros H. unfold cluster_shutdown. destruct (cl_down s); auto.
  apply KKn_session_shutdown. apply KKn_cc_shutdown. kframe.
Qed.

Lemma nh_session_shutdown s : nh (session_shutdown s) = nh s.
Proof. unfold session_shutdown. destruct (sess_down s); reflexivity. Qed.
Lemma nh_cc_shutdown s : nh (cc_shutdown s) = nh s.
Proof. unfold cc_shutdown. simpl. destruct (cc_down s); simpl; auto. destruct (cc_conn s); reflexivity. Qed.
Lemma nh_cluster_shutdown s : nh (cluster_shutdown s) = nh s.
Proof. unfold cluster_shutdown. destruct (cl_down s); auto. rewrite nh_session_shutdown, nh_cc_shutdown. reflexivity. Qed.

Lemma nconn_session_shutdown s : nconn (session_shutdown s) = nconn s.
Proof. unfold session_shutdown. destruct (sess_down s); reflexivity. Qed.
Lemma nconn_cc_shutdown s : nconn (cc_shutdown s) = nconn s.
Proof. unfold cc_shutdown. simpl. destruct (cc_down s); simpl; auto. destruct (cc_conn s); reflexivity. Qed.
Lemma nconn_cluster_shutdown s : nconn (cluster_shutdown s) = nconn s.
Proof. unfold cluster_shutdown. destruct (cl_down s); auto. rewrite nconn_session_shutdown, nconn_cc_shutdown. reflexivity. Qed.

Lemma connect_spec s d s1 c : KK s -> connect s d = (s1, c) ->
  KKn s1 (nconn s) /\ c = nconn s /\ nconn s1 = S (nconn s) /\ nh s1 = nh s.
Proof.
  intros H E. unfold connect in E. inversion E; subst; clear E.
  assert (H0 : KKn (set_nconn s (S (nconn s))) (nconn s)) by (unfold KK in H; kframe).
  destruct d.
  - split; [apply KKn_cluster_shutdown; auto|]. split; auto. rewrite nconn_cluster_shutdown, nh_cluster_shutdown. auto.
  - auto.
Qed.

(* installing the new connection c = n in the pool of host h, closing the one it replaces *)
Lemma KKn_install_pool s n h : KKn s n -> sess_down s = false -> h < nh s ->
  KKn (close_opt (upd_pool s h (Some (Some n, false))) (pool_conn (pool s h))) (S n).
Proof.
  intros (A & B & C & D0) Hs Hh.
  assert (Hcl : forall x, In x (closed s) -> In x (closed (close_opt (upd_pool s h (Some (Some n, false))) (pool_conn (pool s h))))).
  { intros x Hx. destruct (pool_conn (pool s h)); simpl; auto. }
  assert (Hcc : cc_conn (close_opt (upd_pool s h (Some (Some n, false))) (pool_conn (pool s h))) = cc_conn s)
    by (destruct (pool_conn (pool s h)); reflexivity).
  assert (Hpool : pool (close_opt (upd_pool s h (Some (Some n, false))) (pool_conn (pool s h))) =
                  fun x => if x =? h then Some (Some n, false) else pool s x)
    by (destruct (pool_conn (pool s h)); reflexivity).
  split; [|split; [|split]].
  - intros x Hx. assert (x < n \/ x = n) as [Hl | ->] by lia.
    + destruct (A x Hl) as [H | [H | [h' H]]].
      * left; auto.
      * right; left. rewrite Hcc; auto.
      * destruct (h' =? h) eqn:E.
        -- apply Nat.eqb_eq in E; subst h'. left. rewrite H. simpl. auto.
        -- right; right. exists h'. rewrite Hpool. rewrite E. auto.
    + right; right. exists h. rewrite Hpool. rewrite Nat.eqb_refl. reflexivity.
  - rewrite Hcc. destruct (pool_conn (pool s h)); simpl; auto.
  - intros Hd. exfalso. destruct (pool_conn (pool s h)); simpl in Hd; congruence.
  - intros x Hx. rewrite Hpool. destruct (x =? h) eqn:E.
    + apply Nat.eqb_eq in E; subst. destruct (pool_conn (pool s h)); simpl in Hx; lia.
    + destruct (pool_conn (pool s h)); simpl in Hx; auto.
Qed.

(* _set_new_connection(c) with c = n *)
Lemma KKn_install_cc s n : KKn s n -> cc_down s = false ->
  KKn (set_cc (close_opt s (cc_conn s)) (Some n)) (S n).
Proof.
  intros (A & B & C & D0) Hd.
  split; [|split; [|split]].
  - intros x Hx. assert (x < n \/ x = n) as [Hl | ->] by lia.
    + destruct (A x Hl) as [H | [H | [h' H]]].
      * left. destruct (cc_conn s); simpl; auto.
      * left. rewrite H. simpl. auto.
      * right; right. exists h'. destruct (cc_conn s); simpl; auto.
    + right; left. reflexivity.
  - intros Hx. exfalso. destruct (cc_conn s); simpl in Hx; congruence.
  - destruct (cc_conn s); simpl; auto.
  - destruct (cc_conn s); simpl; auto.
Qed.

Opaque connect.

Lemma KK_of s n : nconn s = n -> KKn s n -> KK s.
Proof. intros <-. auto. Qed.

Lemma KK_frame s s' : nconn s' = nconn s ->
  closed s' = closed s -> cc_conn s' = cc_conn s -> pool s' = pool s -> cc_down s' = cc_down s ->
  sess_down s' = sess_down s -> nh s' = nh s -> KK s -> KK s'.
Proof. intros E0 E1 E2 E3 E4 E5 E6 H. unfold KK in *. rewrite E0. eapply KKn_frame; eauto. Qed.

Ltac kkframe := first [ assumption
  | match goal with HH : KK ?x |- KK _ => solve [apply (KK_frame x); [reflexivity ..| exact HH]] end ].

Lemma nconn_close_opt s o : nconn (close_opt s o) = nconn s.
Proof. destruct o; reflexivity. Qed.

Lemma KK_step s o : KK s -> KK (fst (step s o)).
Proof.
  intros H. destruct o; simpl.
  - destruct (sess_down s); simpl; kkframe.
  - destruct (pool_conn (pool s h)); simpl.
    + destruct (sess_down s); simpl; kkframe.
    + kkframe.
  - destruct (cc_down s || cl_down s); simpl; kkframe.
  - destruct (sched_down s); simpl; kkframe.
  - destruct (nth_error (queue s) k) as [t|]; simpl; [|kkframe].
    assert (H0 : KK (set_queue s (remove_nth k (queue s)))) by kkframe.
    set (s0 := set_queue s (remove_nth k (queue s))) in *.
    destruct t; cbn [run_task].
    + destruct o; [|exact H0]. destruct (negb (h <? nh s0)) eqn:Eh; [exact H0|].
      apply negb_false_iff, Nat.ltb_lt in Eh.
      destruct (connect s0 during) as [s1 c] eqn:Ec.
      destruct (connect_spec _ _ _ _ H0 Ec) as (H1 & -> & Hn & Hh).
      destruct (sess_down s1) eqn:Es.
      * apply (KK_of _ (S (nconn s0))); [exact Hn | apply KKn_close_new; exact H1].
      * apply (KK_of _ (S (nconn s0))); [rewrite nconn_close_opt; exact Hn |].
        apply KKn_install_pool; auto. rewrite Hh; exact Eh.
    + destruct (pool s0 h) as [[[c0'|] [|]]|]; try exact H0. destruct (c0' =? c0); [|exact H0].
      destruct o.
      * destruct (connect s0 during) as [s1 c] eqn:Ec.
        destruct (connect_spec _ _ _ _ H0 Ec) as (H1 & -> & Hn & Hh).
        destruct (pool s1 h) as [[[x|] [|]]|] eqn:Ep;
          try (apply (KK_of _ (S (nconn s0))); [exact Hn | apply KKn_close_new; exact H1]).
        apply (KK_of _ (S (nconn s0))).
        -- rewrite <- Ep. rewrite nconn_close_opt. exact Hn.
        -- rewrite <- Ep. destruct H1 as (A & B & C & D0).
           apply KKn_install_pool; [repeat split; auto | |].
           ++ destruct (sess_down s1) eqn:Es; auto. specialize (C eq_refl h). rewrite Ep in C. discriminate.
           ++ destruct (Nat.lt_ge_cases h (nh s1)) as [|Hge]; auto. rewrite (D0 h Hge) in Ep. discriminate.
      * cbn zeta. destruct (sess_down (att s0 1)); kkframe.
    + destruct o.
      * destruct (connect s0 during) as [s1 c] eqn:Ec.
        destruct (connect_spec _ _ _ _ H0 Ec) as (H1 & -> & Hn & Hh).
        destruct (cc_down s1) eqn:Ed.
        -- apply (KK_of _ (S (nconn s0))); [exact Hn | apply KKn_close_new; exact H1].
        -- apply (KK_of _ (S (nconn s0))); [simpl; rewrite nconn_close_opt; exact Hn | apply KKn_install_cc; auto].
      * destruct during.
        -- assert (H1 : KK (att s0 1)) by kkframe.
           apply (KK_of _ (nconn (att s0 1))); [apply nconn_cluster_shutdown | apply KKn_cluster_shutdown; exact H1].
        -- destruct (cc_down s0); [kkframe|]. cbn zeta. destruct (sched_down (att s0 (nh s0))); kkframe.
  - destruct (sched_down s) eqn:Es; simpl; [kkframe|].
    destruct (nth_error (timers s) k) as [t|]; simpl; [|kkframe].
    assert (H0 : KK (set_timers s (remove_nth k (timers s)))) by kkframe.
    set (s0 := set_timers s (remove_nth k (timers s))) in *.
    destruct t; cbn [fire].
    + destruct live; cbn [negb]; [|exact H0]. destruct o.
      * destruct (connect s0 during) as [s1 c] eqn:Ec.
        destruct (connect_spec _ _ _ _ H0 Ec) as (H1 & -> & Hn & Hh).
        apply (KK_of _ (S (nconn s0))); [exact Hn | apply KKn_close_new; exact H1].
      * cbn zeta. destruct (sched_down (att s0 1)); kkframe.
    + destruct live; cbn [negb]; [|exact H0]. destruct o.
      * destruct (connect s0 during) as [s1 c] eqn:Ec.
        destruct (connect_spec _ _ _ _ H0 Ec) as (H1 & -> & Hn & Hh).
        destruct (cc_down s1) eqn:Ed.
        -- apply (KK_of _ (S (nconn s0))); [exact Hn | apply KKn_close_new; exact H1].
        -- apply (KK_of _ (S (nconn s0))); [simpl; rewrite nconn_close_opt; exact Hn |].
           apply KKn_close. apply KKn_install_cc; auto.
      * destruct during.
        -- assert (H1 : KK (att s0 1)) by kkframe.
           apply (KK_of _ (nconn (att s0 1))); [apply nconn_cluster_shutdown | apply KKn_cluster_shutdown; exact H1].
        -- cbn zeta. destruct (sched_down (att s0 (nh s0))); kkframe.
  - apply (KK_of _ (nconn s)); [apply nconn_cluster_shutdown | apply KKn_cluster_shutdown; exact H].
  - apply (KK_of _ (nconn s)); [apply nconn_session_shutdown | apply KKn_session_shutdown; exact H].
  - exact H.
  - exact H.
Qed.

Lemma KK_run os : forall s, KK s -> KK (run s os).
Proof. induction os; simpl; intros s H; auto. apply IHos. apply KK_step; auto. Qed.

Lemma KK_init n : KK (init n).
Proof.
  unfold KK, KKn, held, init; simpl. split; [|split; [|split]]; try discriminate.
  - intros c Hc. destruct c.
    + right; left; auto.
    + right; right. exists c. destruct (c <? n) eqn:E; auto. apply Nat.ltb_ge in E. lia.
  - intros h Hh. destruct (h <? n) eqn:E; auto. apply Nat.ltb_lt in E. lia.
Qed.

(* everything shut down => every opened connection is closed *)
Lemma all_closed_when_down s : KK s -> sess_down s = true -> cc_down s = true ->
  forall c, c < nconn s -> In c (closed s).
Proof.
  intros (A & B & C & D0) Hs Hc c Hlt. destruct (A c Hlt) as [H | [H | [h H]]]; auto.
  - rewrite (B Hc) in H. discriminate.
  - rewrite (C Hs h) in H. discriminate.
Qed.

(* after Session.shutdown alone: the only connection that may be open is the control connection's *)
Lemma session_closed_when_down s : KK s -> sess_down s = true ->
  forall c, c < nconn s -> In c (closed s) \/ cc_conn s = Some c.
Proof.
  intros (A & B & C & D0) Hs c Hlt. destruct (A c Hlt) as [H | [H | [h H]]]; auto.
  rewrite (C Hs h) in H. discriminate.
Qed.
