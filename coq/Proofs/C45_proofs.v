(* C45 proofs over Model/Shutdown.v *)
From Coq Require Import ZArith List Bool Arith Lia.
From Verif Require Import Shutdown.
Import ListNotations.

(* ---------------------------------------------------------------- D: a shut-down cluster has everything shut down *)
Definition D (s : st) : Prop :=
  cl_down s = true -> sess_down s = true /\ cc_down s = true /\ sched_down s = true.

Lemma D_session_shutdown s : D s -> D (session_shutdown s).
Proof.
  unfold D, session_shutdown. destruct (sess_down s) eqn:E; simpl; intros H Hc.
  - rewrite E. apply H; auto.
  - destruct (H Hc) as (A & B & C). repeat split; auto.
Qed.

Lemma D_cc_shutdown s : D s -> D (cc_shutdown s).
Proof.
  unfold D, cc_shutdown. simpl. destruct (cc_down s) eqn:E; simpl; intros H Hc.
  - rewrite E. apply H; auto.
  - destruct (cc_conn s); simpl in *; destruct (H Hc) as (A & B & C); repeat split; auto.
Qed.

Lemma cluster_shutdown_all s : let s' := cluster_shutdown s in
  cl_down s = false -> cl_down s' = true /\ sess_down s' = true /\ cc_down s' = true /\ sched_down s' = true.
Proof.
  intros s' H. unfold s', cluster_shutdown. rewrite H. unfold session_shutdown, cc_shutdown. simpl.
  destruct (cc_down s), (sess_down s), (cc_conn s); simpl; repeat split; auto.
Qed.

Lemma D_cluster_shutdown s : D s -> D (cluster_shutdown s).
Proof.
  intros H. destruct (cl_down s) eqn:E.
  - unfold cluster_shutdown. rewrite E. auto.
  - intros _. destruct (cluster_shutdown_all s E) as (_ & A & B & C). repeat split; auto.
Qed.

Lemma D_flags s s' : cl_down s' = cl_down s -> sess_down s' = sess_down s -> cc_down s' = cc_down s -> sched_down s' = sched_down s -> D s -> D s'.
Proof. unfold D. intros -> -> -> ->. auto. Qed.

Lemma D_connect s d : D s -> D (fst (connect s d)).
Proof. intros H. unfold connect. simpl. destruct d; [apply D_cluster_shutdown|]; eapply D_flags; eauto. Qed.

Lemma cluster_shutdown_idem s : cl_down s = true -> cluster_shutdown s = s.
Proof. intros H. unfold cluster_shutdown. rewrite H. reflexivity. Qed.

Lemma connect_after_shutdown s d : cl_down s = true -> fst (connect s d) = set_nconn s (S (nconn s)).
Proof. intros Hc. unfold connect. simpl. destruct d; auto. apply cluster_shutdown_idem. exact Hc. Qed.

Opaque connect.

Ltac dflags := first [ assumption
  | match goal with HH : D ?x |- _ => solve [eapply (D_flags x); [| | | | exact HH]; reflexivity] end ].

Lemma D_step s o : D s -> D (fst (step s o)).
Proof.
  intros H. destruct o; simpl.
  - destruct (sess_down s); simpl; dflags.
  - destruct (pool_conn (pool s h)); simpl.
    + destruct (sess_down s); simpl; dflags.
    + dflags.
  - destruct (cc_down s || cl_down s); simpl; dflags.
  - destruct (sched_down s); simpl; dflags.
  - destruct (nth_error (queue s) k) as [t|]; simpl; [|dflags].
    assert (H0 : D (set_queue s (remove_nth k (queue s)))) by dflags.
    set (s0 := set_queue s (remove_nth k (queue s))) in *.
    destruct t; cbn [run_task].
    + destruct o; [|exact H0]. pose proof (D_connect s0 during H0) as H1.
      destruct (connect s0 during) as [s1 c]; simpl in *. destruct (sess_down s1); [dflags|].
      destruct (pool_conn (pool s1 h)); simpl; dflags.
    + destruct (pool s0 h) as [[[c0'|] [|]]|]; try exact H0. destruct (c0' =? c0); [|exact H0].
      destruct o.
      * pose proof (D_connect s0 during H0) as H1. destruct (connect s0 during) as [s1 c]; simpl in *.
        destruct (pool s1 h) as [[? [|]]|]; simpl; dflags.
      * destruct (sess_down s0); dflags.
    + destruct o.
      * pose proof (D_connect s0 during H0) as H1. destruct (connect s0 during) as [s1 c]; simpl in *.
        destruct (cc_down s1); [dflags|]. destruct (cc_conn s1); simpl; dflags.
      * destruct (cc_down s0); [exact H0|]. destruct (sched_down s0); dflags.
  - destruct (sched_down s) eqn:Es; simpl; [dflags|].
    destruct (nth_error (timers s) k) as [t|]; simpl; [|dflags].
    assert (H0 : D (set_timers s (remove_nth k (timers s)))) by dflags.
    set (s0 := set_timers s (remove_nth k (timers s))) in *.
    destruct t; cbn [fire].
    + destruct live; cbn [negb]; [|exact H0]. destruct o.
      * pose proof (D_connect s0 during H0) as H1. destruct (connect s0 during) as [s1 c]; simpl in *. dflags.
      * destruct (sched_down s0); dflags.
    + destruct live; cbn [negb]; [|exact H0]. destruct o.
      * pose proof (D_connect s0 during H0) as H1. destruct (connect s0 during) as [s1 c]; simpl in *.
        destruct (cc_down s1); [dflags|]. destruct (cc_conn s1); simpl; dflags.
      * destruct (sched_down s0); dflags.
  - apply D_cluster_shutdown; auto.
  - apply D_session_shutdown; auto.
  - exact H.
  - exact H.
Qed.

Lemma D_run os : forall s, D s -> D (run s os).
Proof. induction os; simpl; intros s H; auto. apply IHos. apply D_step; auto. Qed.

Lemma D_init n : D (init n).
Proof. unfold D, init; simpl. discriminate. Qed.

(* ---------------------------------------------------------------- after shutdown nothing new is accepted *)
Lemma In_remove_nth {A} (k : nat) (l : list A) x : In x (remove_nth k l) -> In x l.
Proof. revert k; induction l; intros k Hin; destruct k; simpl in *; auto. destruct Hin; eauto. Qed.

Lemma no_new_work s o : cl_down s = true -> sess_down s = true -> cc_down s = true -> sched_down s = true ->
  let s' := fst (step s o) in
  (forall t, In t (queue s') -> In t (queue s)) /\ timers s' = timers s /\ snd (step s o) <> Accepted \/
  (o = OSubmit \/ o = ORequest) /\ step s o = (s, Refused).
Proof.
  intros Hc Hs Hcc Hsc. destruct o; simpl; rewrite ?Hc, ?Hs, ?Hcc, ?Hsc; simpl; auto; try (left; repeat split; auto; discriminate).
  - left. destruct (pool_conn (pool s h)); simpl; repeat split; auto; discriminate.
  - left. destruct (nth_error (queue s) k) as [t|] eqn:Ek; simpl; [|repeat split; auto; discriminate].
    set (s0 := set_queue s (remove_nth k (queue s))).
    assert (Q0 : forall t, In t (queue s0) -> In t (queue s)) by (intros x Hx; eapply In_remove_nth; exact Hx).
    assert (Hconn : forall d, fst (connect s0 d) = set_nconn s0 (S (nconn s0))).
    { intros d. apply connect_after_shutdown. exact Hc. }
    destruct t; cbn [run_task].
    + destruct o; [|repeat split; auto; discriminate].
      pose proof (Hconn during) as E. destruct (connect s0 during) as [s1 c]; simpl in E; subst s1. simpl. rewrite Hs.
      simpl. repeat split; auto; discriminate.
    + destruct (pool s0 h) as [[[c0'|] [|]]|]; try (repeat split; auto; discriminate).
      destruct (c0' =? c0); [|repeat split; auto; discriminate].
      destruct o.
      * pose proof (Hconn during) as E. destruct (connect s0 during) as [s1 c]; simpl in E; subst s1. simpl.
        destruct (pool s h) as [[? [|]]|]; simpl; repeat split; auto; discriminate.
      * simpl. rewrite Hs. repeat split; auto; discriminate.
    + destruct o.
      * pose proof (Hconn during) as E. destruct (connect s0 during) as [s1 c]; simpl in E; subst s1. simpl. rewrite Hcc.
        simpl. repeat split; auto; discriminate.
      * simpl. rewrite Hcc. repeat split; auto; discriminate.
  - left. rewrite (cluster_shutdown_idem s Hc). repeat split; auto; discriminate.
  - left. unfold session_shutdown. rewrite Hs. repeat split; auto; discriminate.
Qed.

