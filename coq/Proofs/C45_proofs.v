(* C45 proofs over Model/Shutdown.v *)
From Coq Require Import ZArith List Bool Arith Lia.
From Verif Require Import Shutdown.
Import ListNotations.

(* ---------------------------------------------------------------- D: a shut-down cluster has everything shut down *)
Definition D (s : st) : Prop :=
  cl_down s = true -> sess_down s = true /\ cc_down s = true /\ sched_down s = true.

Lemma D_session_shutdown s : D s -> D (session_shutdown s).
Proof.
  unfold D, session_shutdown. destruct (sess_down s) eqn:E; simpl; intros H Hc.
  - rewrite E. apply H; auto.
  - destruct (H Hc) as (A & B & C). repeat split; auto.
Qed.

Lemma D_cc_shutdown s : D s -> D (cc_shutdown s).
Proof.
  unfold D, cc_shutdown. simpl. destruct (cc_down s) eqn:E; simpl; intros H Hc.
  - rewrite E. apply H; auto.
  - destruct (cc_conn s); simpl in *; destruct (H Hc) as (A & B & C); repeat split; auto.
Qed.

Lemma cluster_shutdown_all s : let s' := cluster_shutdown s in
  cl_down s = false -> cl_down s' = true /\ sess_down s' = true /\ cc_down s' = true /\ sched_down s' = true.
Proof.
  intros s' H. unfold s', cluster_shutdown. rewrite H. unfold session_shutdown, cc_shutdown. simpl.
  destruct (cc_down s), (sess_down s), (cc_conn s); simpl; repeat split; auto.
Qed.

Lemma D_cluster_shutdown s : D s -> D (cluster_shutdown s).
Proof.
  intros H. destruct (cl_down s) eqn:E.
  - unfold cluster_shutdown. rewrite E. auto.
  - intros _. destruct (cluster_shutdown_all s E) as (_ & A & B & C). repeat split; auto.
Qed.

Lemma D_flags s s' : cl_down s' = cl_down s -> sess_down s' = sess_down s -> cc_down s' = cc_down s -> sched_down s' = sched_down s -> D s -> D s'.
Proof. unfold D. intros -> -> -> ->. auto. Qed.

Lemma D_connect s d : D s -> D (fst (connect s d)).
Proof. intros H. unfold connect. simpl. destruct d; [apply D_cluster_shutdown|]; eapply D_flags; eauto. Qed.

Lemma cluster_shutdown_idem s : cl_down s = true -> cluster_shutdown s = s.
Proof. intros H. unfold cluster_shutdown. rewrite H. reflexivity. Qed.

Lemma connect_after_shutdown s d : cl_down s = true -> fst (connect s d) = att (set_nconn s (S (nconn s))) 1.
Proof. intros Hc. unfold connect. simpl. destruct d; auto. apply cluster_shutdown_idem. exact Hc. Qed.

Lemma connect_snd s d : snd (connect s d) = nconn s.
Proof. reflexivity. Qed.

Opaque connect.

Ltac dflags := first [ assumption
  | match goal with HH : D ?x |- _ => solve [eapply (D_flags x); [| | | | exact HH]; reflexivity] end ].

Lemma D_install_pool s h c : D s -> D (install_pool s h c).
Proof. intros H. unfold install_pool. destruct (sess_down s); dflags. Qed.

Lemma D_run_task s t o d : D s -> D (run_task s t o d).
Proof.
  intros H0. destruct t; cbn [run_task].
  - destruct o; [|exact H0]. destruct (negb (h <? nh s)); [exact H0|].
    pose proof (D_connect s d H0) as H1. destruct (connect s d) as [s1 c]; simpl in H1.
    apply D_install_pool; auto.
  - destruct (pool s h) as [q|]; [|exact H0].
    destruct ((pid q =? p) && negb (pshut q)); [|exact H0].
    destruct o.
    + pose proof (D_connect s d H0) as H1. destruct (connect s d) as [s1 c]; simpl in H1.
      destruct (pool s1 h) as [q'|]; [|dflags].
      destruct (pshut q'); [dflags|].
      destruct (pconn q') as [c1|]; [|dflags].
      destruct (c1 =? c0); [|dflags]. destruct m; dflags.
    + cbn zeta. destruct (sess_down (att s 1)); dflags.
  - destruct o.
    + pose proof (D_connect s d H0) as H1. destruct (connect s d) as [s1 c]; simpl in H1.
      destruct (cc_down s1); [dflags|]. destruct (cc_conn s1); simpl; dflags.
    + destruct d; [apply D_cluster_shutdown; dflags|].
      destruct (cc_down s); [dflags|]. cbn zeta. destruct (sched_down (att s (nh s))); dflags.
Qed.

Lemma D_fire s t o d : D s -> D (fire s t o d).
Proof.
  intros H0. destruct t; cbn [fire].
  - destruct live; cbn [negb]; [|exact H0]. destruct o.
    + pose proof (D_connect s d H0) as H1. destruct (connect s d) as [s1 c]; simpl in H1. dflags.
    + cbn zeta. destruct (sched_down (att s 1)); dflags.
  - destruct live; cbn [negb]; [|exact H0]. destruct o.
    + pose proof (D_connect s d H0) as H1. destruct (connect s d) as [s1 c]; simpl in H1.
      destruct (cc_down s1); [dflags|]. destruct (cc_conn s1); simpl; dflags.
    + destruct d; [apply D_cluster_shutdown; dflags|].
      cbn zeta. destruct (sched_down (att s (nh s))); dflags.
Qed.

Lemma D_step s o : D s -> D (fst (step s o)).
Proof.
  intros H. destruct o; [simpl | simpl | simpl | simpl | simpl | simpl | simpl | simpl | cbn [step] | simpl | simpl | simpl | simpl].
  - destruct (sess_down s); simpl; dflags.
  - destruct (pool s h) as [q|]; [|exact H]. destruct (pconn q); [|exact H].
    destruct (prepl q || pshut q); [exact H|]. destruct (sess_down s); simpl; dflags.
  - destruct (pool s h) as [q|]; [|exact H]. destruct (pconn q); [|exact H].
    destruct (pshut q); [exact H|]. destruct (prepl q); [simpl; dflags|]. destruct (sess_down s); simpl; dflags.
  - destruct (pool s h) as [q|]; [|exact H]. destruct (ptrash q) as [|c0 rest]; [exact H|].
    destruct (pshut q || existsb (Nat.eqb c0) (closed s)); simpl; dflags.
  - destruct (cc_down s || cl_down s); simpl; dflags.
  - destruct (sched_down s); simpl; dflags.
  - destruct (nth_error (queue s) k) as [t|]; simpl; [|exact H]. apply D_run_task. dflags.
  - destruct (sched_down s) eqn:Es; simpl; [exact H|].
    destruct (nth_error (timers s) k) as [t|]; simpl; [|exact H]. apply D_fire. dflags.
  - destruct (nth_error (queue s) k) as [[h i|? ? ? ?|]|]; try exact H.
    match goal with |- context [nth_error ?l j] => destruct (nth_error l j) as [[h' i'|? ? ? ?|]|] end; try exact H.
    destruct (negb (h <? nh s) || negb (h' <? nh s)); [exact H|].
    assert (H0 : D (set_queue s (remove_nth k (queue s)))) by dflags.
    pose proof (D_connect _ false H0) as H1.
    destruct (connect (set_queue s (remove_nth k (queue s))) false) as [s1 c]; simpl in H1. cbn [fst].
    apply D_install_pool. apply D_run_task. dflags.
  - apply D_cluster_shutdown; auto.
  - apply D_session_shutdown; auto.
  - exact H.
  - exact H.
Qed.

Lemma D_run os : forall s, D s -> D (run s os).
Proof. induction os; simpl; intros s H; auto. apply IHos. apply D_step; auto. Qed.

Lemma D_init n : D (init n).
Proof. unfold D, init; simpl. discriminate. Qed.

(* ---------------------------------------------------------------- after the shutdown nothing new is accepted or started *)
Definition AD (s : st) : Prop := cl_down s = true /\ sess_down s = true /\ cc_down s = true /\ sched_down s = true.
(* s' follows s after the shutdown: no new task, same timers, at most n more connection attempts, still shut down *)
Definition NW (s s' : st) (n : nat) : Prop :=
  (forall t, In t (queue s') -> In t (queue s)) /\ timers s' = timers s /\ attempts s' <= attempts s + n /\ AD s'.

Lemma NW_refl s : AD s -> NW s s 0.
Proof. intros H. repeat split; try apply H; auto; try lia. Qed.

Lemma NW_trans a b c n m : NW a b n -> NW b c m -> NW a c (n + m).
Proof.
  intros (A1 & A2 & A3 & A4) (B1 & B2 & B3 & B4). repeat split; try apply B4; auto; try congruence; try lia.
Qed.

Lemma NW_weaken a b n m : n <= m -> NW a b n -> NW a b m.
Proof. intros Hl (A1 & A2 & A3 & A4). repeat split; try apply A4; auto; try lia. Qed.

(* same flags, same queue/timers/attempts *)
Lemma NW_same s s' : AD s -> queue s' = queue s -> timers s' = timers s -> attempts s' = attempts s ->
  cl_down s' = cl_down s -> sess_down s' = sess_down s -> cc_down s' = cc_down s -> sched_down s' = sched_down s -> NW s s' 0.
Proof.
  intros (A & B & C & D0) E1 E2 E3 F1 F2 F3 F4. unfold NW, AD. rewrite E1, E2, E3, F1, F2, F3, F4. repeat split; auto. lia.
Qed.

Ltac nwsame := match goal with HA : AD ?x |- NW ?x _ 0 => solve [apply (NW_same x); [exact HA | reflexivity ..]] end.

Lemma In_remove_nth {A} (k : nat) (l : list A) x : In x (remove_nth k l) -> In x l.
Proof. revert k; induction l; intros k Hin; destruct k; simpl in *; auto. destruct Hin; eauto. Qed.

Lemma AD_att s n : AD s -> AD (att s n). Proof. auto. Qed.

Lemma NW_att s n : AD s -> NW s (att s n) n.
Proof. intros H. repeat split; try apply H; auto; try (simpl; lia). Qed.

Lemma connect_AD s d s1 c : AD s -> connect s d = (s1, c) -> s1 = att (set_nconn s (S (nconn s))) 1 /\ c = nconn s.
Proof.
  intros (A & _) E. pose proof (connect_after_shutdown s d A) as E1. pose proof (connect_snd s d) as E2.
  rewrite E in *. simpl in *. auto.
Qed.

Lemma NW_connect s d s1 c : AD s -> connect s d = (s1, c) -> NW s s1 1.
Proof.
  intros H E. destruct (connect_AD s d s1 c H E) as [-> _]. repeat split; try apply H; auto; try (simpl; lia).
Qed.

Lemma NW_install_pool s h c : AD s -> NW s (install_pool s h c) 0.
Proof. intros H. unfold install_pool. destruct H as (A & B & C & D0). rewrite B. apply NW_same; repeat split; auto. Qed.

Lemma NW_cluster_shutdown s : AD s -> NW s (cluster_shutdown s) 0.
Proof. intros H. rewrite (cluster_shutdown_idem s (proj1 H)). apply NW_refl; auto. Qed.

Lemma NW_run_task s t o d : AD s -> NW s (run_task s t o d) 1.
Proof.
  intros H. destruct t; cbn [run_task].
  - destruct o; [|apply (NW_weaken _ _ 0); [lia | apply NW_refl; auto]].
    destruct (negb (h <? nh s)); [apply (NW_weaken _ _ 0); [lia | apply NW_refl; auto]|].
    destruct (connect s d) as [s1 c] eqn:Ec. pose proof (NW_connect _ _ _ _ H Ec) as H1.
    apply (NW_trans _ _ _ 1 0 H1). apply NW_install_pool. apply H1.
  - destruct (pool s h) as [q|]; [|apply (NW_weaken _ _ 0); [lia | apply NW_refl; auto]].
    destruct ((pid q =? p) && negb (pshut q)); [|apply (NW_weaken _ _ 0); [lia | apply NW_refl; auto]].
    destruct o.
    + destruct (connect s d) as [s1 c] eqn:Ec. pose proof (NW_connect _ _ _ _ H Ec) as H1.
      assert (HA : AD s1) by apply H1.
      apply (NW_trans _ _ _ 1 0 H1).
      destruct (pool s1 h) as [q'|]; [|nwsame].
      destruct (pshut q'); [nwsame|].
      destruct (pconn q') as [c1|]; [|nwsame].
      destruct (c1 =? c0); [|nwsame]. destruct m; nwsame.
    + cbn zeta. pose proof (NW_att s 1 H) as H1. destruct H as (A & B & C & D0).
      replace (sess_down (att s 1)) with true by (symmetry; exact B). exact H1.
  - destruct o.
    + destruct (connect s d) as [s1 c] eqn:Ec. pose proof (NW_connect _ _ _ _ H Ec) as H1.
      assert (HA : AD s1) by apply H1.
      apply (NW_trans _ _ _ 1 0 H1).
      replace (cc_down s1) with true by (symmetry; apply HA). nwsame.
    + destruct d.
      * apply (NW_trans _ _ _ 1 0 (NW_att s 1 H)). apply NW_cluster_shutdown. apply AD_att; auto.
      * replace (cc_down s) with true by (symmetry; apply H). apply NW_att; auto.
Qed.

(* what one operation may do once the cluster is shut down *)
Definition bound (o : op) : nat := match o with ORunNested _ _ => 2 | _ => 1 end.

Lemma after_shutdown s o : AD s -> NW s (fst (step s o)) (bound o) /\ snd (step s o) <> Accepted.
Proof.
  intros H. pose proof H as (A & B & C & D0).
  assert (R0 : forall n, NW s s n) by (intros n; apply (NW_weaken _ _ 0); [lia | apply NW_refl; auto]).
  destruct o; [simpl | simpl | simpl | simpl | simpl | simpl | simpl | simpl | cbn [step] | simpl | simpl | simpl | simpl];
    rewrite ?A, ?B, ?C, ?D0; simpl; try (split; [apply R0 | discriminate]).
  - destruct (pool s h) as [q|]; [|split; [apply R0 | discriminate]].
    destruct (pconn q); [|split; [apply R0 | discriminate]].
    destruct (prepl q || pshut q); [split; [apply R0 | discriminate]|]. simpl.
    split; [|discriminate]. apply (NW_weaken _ _ 0); [lia|]. nwsame.
  - destruct (pool s h) as [q|]; [|split; [apply R0 | discriminate]].
    destruct (pconn q); [|split; [apply R0 | discriminate]].
    destruct (pshut q); [split; [apply R0 | discriminate]|].
    destruct (prepl q); simpl; (split; [|discriminate]); apply (NW_weaken _ _ 0); try lia; nwsame.
  - destruct (pool s h) as [q|]; [|split; [apply R0 | discriminate]].
    destruct (ptrash q) as [|c0 rest]; [split; [apply R0 | discriminate]|].
    destruct (pshut q || existsb (Nat.eqb c0) (closed s)); simpl; (split; [|discriminate]); [apply R0|].
    apply (NW_weaken _ _ 0); [lia|]. nwsame.
  - destruct (nth_error (queue s) k) as [t|] eqn:Ek; simpl; [|split; [apply R0 | discriminate]].
    split; [|discriminate].
    assert (H0 : NW s (set_queue s (remove_nth k (queue s))) 0).
    { repeat split; auto; try (simpl; lia). intros x Hx. eapply In_remove_nth; exact Hx. }
    apply (NW_trans _ _ _ 0 1 H0). apply NW_run_task. apply H0.
  - destruct (nth_error (queue s) k) as [[h i|? ? ? ?|]|]; try (split; [apply R0 | discriminate]).
    match goal with |- context [nth_error ?l j] => destruct (nth_error l j) as [[h' i'|? ? ? ?|]|] end;
      try (split; [apply R0 | discriminate]).
    destruct (negb (h <? nh s) || negb (h' <? nh s)); [split; [apply R0 | discriminate]|].
    assert (H0 : NW s (set_queue s (remove_nth k (queue s))) 0).
    { repeat split; auto; try (simpl; lia). intros x Hx. eapply In_remove_nth; exact Hx. }
    destruct (connect (set_queue s (remove_nth k (queue s))) false) as [s1 c] eqn:Ec.
    pose proof (NW_connect _ _ _ _ (proj2 (proj2 (proj2 H0))) Ec) as H1. cbn [fst snd].
    split; [|discriminate].
    assert (H2 : NW s1 (set_queue s1 (remove_nth j (queue s1))) 0).
    { repeat split; try apply H1; auto; try (simpl; lia). intros x Hx. eapply In_remove_nth; exact Hx. }
    pose proof (NW_run_task _ (KAddPool h' i') Ok false (proj2 (proj2 (proj2 H2)))) as H3.
    pose proof (NW_install_pool _ h c (proj2 (proj2 (proj2 H3)))) as H4.
    pose proof (NW_trans _ _ _ _ _ H0 (NW_trans _ _ _ _ _ H1 (NW_trans _ _ _ _ _ H2 (NW_trans _ _ _ _ _ H3 H4)))) as HT.
    simpl in HT. exact HT.
  - rewrite (cluster_shutdown_idem s A). split; [apply R0 | discriminate].
  - unfold session_shutdown. rewrite B. split; [apply R0 | discriminate].
Qed.

(* ---------------------------------------------------------------- KK: every opened connection is closed or has a holder *)
Transparent connect.

Definition held (s : st) (c : nat) : Prop :=
  In c (closed s) \/ cc_conn s = Some c \/ exists h, In c (opl_conns (pool s h)).

(* dom = the connections that must be accounted for (one being installed by the running step may be exempt) *)
Definition KKd (s : st) (dom : nat -> Prop) : Prop :=
  (forall c, dom c -> held s c) /\
  (cc_down s = true -> cc_conn s = None) /\
  (sess_down s = true -> forall h q, pool s h = Some q -> pshut q = true /\ pl_conns q = []) /\
  (forall h, nh s <= h -> pool s h = None).
Definition KKn (s : st) (n : nat) : Prop := KKd s (fun c => c < n).

Definition KK (s : st) : Prop := KKn s (nconn s).

Lemma KKn_frame s s' n :
  closed s' = closed s -> cc_conn s' = cc_conn s -> pool s' = pool s -> cc_down s' = cc_down s ->
  sess_down s' = sess_down s -> nh s' = nh s -> KKn s n -> KKn s' n.
Proof.
  intros E1 E2 E3 E4 E5 E6 (A & B & C & D0). unfold KKn, KKd, held. rewrite E1, E2, E3, E4, E5, E6. auto.
Qed.

Ltac kframe := first [ assumption
  | match goal with HH : KKn ?x ?n |- KKn _ ?n => solve [apply (KKn_frame x); [reflexivity ..| exact HH]] end ].

Lemma KKn_close_all s n l : KKn s n -> KKn (close_all s l) n.
Proof.
  intros (A & B & C & D0). split; [|auto]. intros x Hx. destruct (A x Hx) as [H | [H | H]].
  - left. simpl. apply in_or_app; auto. - right; left; auto. - right; right; auto.
Qed.

Lemma KKn_close s n c : KKn s n -> KKn (close s c) n.
Proof. apply (KKn_close_all s n [c]). Qed.

Lemma KKn_close_new s n : KKn s n -> KKn (close s n) (S n).
Proof.
  intros H. pose proof (KKn_close s n n H) as (A & B & C & D0). split; [|auto].
  intros x Hx. assert (x < n \/ x = n) as [Hl | ->] by lia; auto. left. simpl. auto.
Qed.

Lemma KKn_close_opt s n o : KKn s n -> KKn (close_opt s o) n.
Proof. destruct o; simpl; auto using KKn_close. Qed.

Lemma opl_conns_shut o : opl_conns (shut_pool o) = [].
Proof. destruct o; reflexivity. Qed.

Lemma KKn_session_shutdown s n : KKn s n -> KKn (session_shutdown s) n.
Proof.
  intros (A & B & C & D0). unfold session_shutdown. destruct (sess_down s) eqn:Es.
  { split; [|split; [|split]]; auto. rewrite Es. exact C. }
  split; [|split; [|split]]; simpl; auto.
  - intros x Hx. destruct (A x Hx) as [H | [H | [h H]]].
    + left. simpl. apply in_or_app; auto.
    + right; left; auto.
    + left. simpl. apply in_or_app. left. apply in_flat_map. exists h. split; auto.
      apply in_seq. split; [lia|]. simpl. destruct (Nat.lt_ge_cases h (nh s)) as [|Hge]; auto.
      rewrite (D0 h Hge) in H. destruct H.
  - intros _ h q Hq. destruct (pool s h) as [q0|]; simpl in Hq; [|discriminate]. inversion Hq; subst. split; reflexivity.
  - intros h Hh. rewrite (D0 h Hh). reflexivity.
Qed.

Lemma KKn_cc_shutdown s n : KKn s n -> KKn (cc_shutdown s) n.
Proof.
  intros (A & B & C & D0). unfold cc_shutdown. simpl.
  destruct (cc_down s) eqn:Ec.
  - split; [|split; [|split]]; simpl; auto.
  - destruct (cc_conn s) as [c0|] eqn:E0; simpl; (split; [|split; [|split]]); simpl; auto.
    + intros x Hx. destruct (A x Hx) as [H1 | [H1 | H1]].
      * left; simpl; auto.
      * left; simpl. left. congruence.
      * right; right; auto.
    + intros x Hx. destruct (A x Hx) as [H1 | [H1 | H1]].
      * left; auto.
      * congruence.
      * right; right; auto.
Qed.

Lemma KKn_cluster_shutdown s n : KKn s n -> KKn (cluster_shutdown s) n.
Proof.
  intros H. unfold cluster_shutdown. destruct (cl_down s); auto.
  apply KKn_session_shutdown. apply KKn_cc_shutdown. kframe.
Qed.

Lemma nh_session_shutdown s : nh (session_shutdown s) = nh s.
Proof. unfold session_shutdown. destruct (sess_down s); reflexivity. Qed.
Lemma nh_cc_shutdown s : nh (cc_shutdown s) = nh s.
Proof. unfold cc_shutdown. simpl. destruct (cc_down s); simpl; auto. destruct (cc_conn s); reflexivity. Qed.
Lemma nh_cluster_shutdown s : nh (cluster_shutdown s) = nh s.
Proof. unfold cluster_shutdown. destruct (cl_down s); auto. rewrite nh_session_shutdown, nh_cc_shutdown. reflexivity. Qed.

Lemma nconn_session_shutdown s : nconn (session_shutdown s) = nconn s.
Proof. unfold session_shutdown. destruct (sess_down s); reflexivity. Qed.
Lemma nconn_cc_shutdown s : nconn (cc_shutdown s) = nconn s.
Proof. unfold cc_shutdown. simpl. destruct (cc_down s); simpl; auto. destruct (cc_conn s); reflexivity. Qed.
Lemma nconn_cluster_shutdown s : nconn (cluster_shutdown s) = nconn s.
Proof. unfold cluster_shutdown. destruct (cl_down s); auto. rewrite nconn_session_shutdown, nconn_cc_shutdown. reflexivity. Qed.

Lemma connect_spec s d s1 c : KK s -> connect s d = (s1, c) ->
  KKn s1 (nconn s) /\ c = nconn s /\ nconn s1 = S (nconn s) /\ nh s1 = nh s.
Proof.
  intros H E. unfold connect in E. inversion E; subst; clear E.
  assert (H0 : KKn (att (set_nconn s (S (nconn s))) 1) (nconn s)) by (unfold KK in H; kframe).
  destruct d.
  - split; [apply KKn_cluster_shutdown; auto|]. split; auto. rewrite nconn_cluster_shutdown, nh_cluster_shutdown. auto.
  - auto.
Qed.

(* the pool of host h becomes q' while the connections in l are closed: fine as long as nothing the old pool held, and none
   of the connections n..N-1 opened meanwhile, is dropped *)
Lemma KKn_upd s n N h q' l : KKn s n -> sess_down s = false -> h < nh s ->
  (forall x, In x (opl_conns (pool s h)) -> In x l \/ In x (pl_conns q')) ->
  (forall x, n <= x -> x < N -> In x l \/ In x (pl_conns q')) ->
  KKn (close_all (upd_pool s h (Some q')) l) N.
Proof.
  intros (A & B & C & D0) Hs Hh Hold Hnew.
  assert (Hq : forall x, In x l \/ In x (pl_conns q') -> held (close_all (upd_pool s h (Some q')) l) x).
  { intros x [Hx | Hx].
    - left. simpl. apply in_or_app; auto.
    - right; right. exists h. simpl. rewrite Nat.eqb_refl. exact Hx. }
  split; [|split; [|split]]; simpl; auto.
  - intros x Hx. destruct (Nat.lt_ge_cases x n) as [Hl | Hge]; [|apply Hq; apply Hnew; auto].
    destruct (A x Hl) as [H | [H | [h' H]]].
    + left. simpl. apply in_or_app; auto.
    + right; left; auto.
    + destruct (h' =? h) eqn:E.
      * apply Nat.eqb_eq in E; subst h'. apply Hq. apply Hold. exact H.
      * right; right. exists h'. simpl. rewrite E. exact H.
  - intros Hd. congruence.
  - intros x Hx. destruct (x =? h) eqn:E; auto. apply Nat.eqb_eq in E; subst. lia.
Qed.

(* _set_new_connection(c) with c = n *)
Lemma KKn_install_cc s n : KKn s n -> cc_down s = false ->
  KKn (set_cc (close_opt s (cc_conn s)) (Some n)) (S n).
Proof.
  intros (A & B & C & D0) Hd.
  split; [|split; [|split]].
  - intros x Hx. assert (x < n \/ x = n) as [Hl | ->] by lia.
    + destruct (A x Hl) as [H | [H | [h' H]]].
      * left. destruct (cc_conn s); simpl; auto.
      * left. rewrite H. simpl. auto.
      * right; right. exists h'. destruct (cc_conn s); simpl; auto.
    + right; left. reflexivity.
  - intros Hx. exfalso. destruct (cc_conn s); simpl in Hx; congruence.
  - destruct (cc_conn s); simpl; auto.
  - destruct (cc_conn s); simpl; auto.
Qed.

Lemma pool_in_range s n h q : KKn s n -> pool s h = Some q -> h < nh s.
Proof.
  intros (_ & _ & _ & D0) Hq. destruct (Nat.lt_ge_cases h (nh s)) as [|Hge]; auto. rewrite (D0 h Hge) in Hq. discriminate.
Qed.

Lemma live_pool_session_up s n h q : KKn s n -> pool s h = Some q -> pshut q = false -> sess_down s = false.
Proof.
  intros (_ & _ & C & _) Hq Hs. destruct (sess_down s) eqn:E; auto. destruct (C eq_refl h q Hq) as [H _]. congruence.
Qed.

Lemma KKn_install_pool s n h : KKn s n -> h < nh s -> KKn (install_pool s h n) (S n).
Proof.
  intros H Hh. unfold install_pool. destruct (sess_down s) eqn:Es; [apply KKn_close_new; exact H|].
  eapply KKn_frame; [| | | | | | apply (KKn_upd s n (S n) h (mkp (npool s) (Some n) false false []) (opl_conns (pool s h)) H Es Hh)];
    try reflexivity.
  - intros x Hx; auto.
  - intros x H1 H2. right. assert (x = n) by lia. subst. simpl. auto.
Qed.

(* ---- the same facts for an arbitrary domain (needed when a connection is still being installed by the running step) *)
Lemma KKd_frame s s' dom :
  closed s' = closed s -> cc_conn s' = cc_conn s -> pool s' = pool s -> cc_down s' = cc_down s ->
  sess_down s' = sess_down s -> nh s' = nh s -> KKd s dom -> KKd s' dom.
Proof.
  intros E1 E2 E3 E4 E5 E6 (A & B & C & D0). unfold KKd, held. rewrite E1, E2, E3, E4, E5, E6. auto.
Qed.

Lemma KKd_mono s (dom dom' : nat -> Prop) : (forall c, dom' c -> dom c) -> KKd s dom -> KKd s dom'.
Proof. intros Hm (A & B & C & D0). split; auto. Qed.

Lemma KKd_close_add s dom c : KKd s dom -> KKd (close s c) (fun x => dom x \/ x = c).
Proof.
  intros (A & B & C & D0). split; [|auto]. intros x [Hx | ->].
  - destruct (A x Hx) as [H | [H | H]]; [left; simpl; auto | right; left; auto | right; right; auto].
  - left. simpl. auto.
Qed.

Lemma KKd_install_pool s dom h c : KKd s dom -> h < nh s -> KKd (install_pool s h c) (fun x => dom x \/ x = c).
Proof.
  intros H Hh. unfold install_pool. destruct (sess_down s) eqn:Es; [apply KKd_close_add; exact H|].
  destruct H as (A & B & C & D0).
  assert (Hq : forall x, In x (opl_conns (pool s h)) \/ x = c ->
               held (close_all (set_npool (upd_pool s h (Some (mkp (npool s) (Some c) false false []))) (S (npool s))) (opl_conns (pool s h))) x).
  { intros x [Hx | ->].
    - left. simpl. apply in_or_app; auto.
    - right; right. exists h. simpl. rewrite Nat.eqb_refl. simpl. auto. }
  split; [|split; [|split]]; simpl; auto.
  - intros x [Hx | ->]; [|apply Hq; auto].
    destruct (A x Hx) as [H | [H | [h' H]]].
    + left. simpl. apply in_or_app; auto.
    + right; left; auto.
    + destruct (h' =? h) eqn:E.
      * apply Nat.eqb_eq in E; subst h'. apply Hq. auto.
      * right; right. exists h'. simpl. rewrite E. exact H.
  - intros Hd. congruence.
  - intros x Hx. destruct (x =? h) eqn:E; auto. apply Nat.eqb_eq in E; subst. lia.
Qed.

Opaque connect.

Lemma KK_of s n : nconn s = n -> KKn s n -> KK s.
Proof. intros <-. auto. Qed.

Lemma KK_frame s s' : nconn s' = nconn s ->
  closed s' = closed s -> cc_conn s' = cc_conn s -> pool s' = pool s -> cc_down s' = cc_down s ->
  sess_down s' = sess_down s -> nh s' = nh s -> KK s -> KK s'.
Proof. intros E0 E1 E2 E3 E4 E5 E6 H. unfold KK in *. rewrite E0. eapply KKn_frame; eauto. Qed.

Ltac kkframe := first [ assumption
  | match goal with HH : KK ?x |- KK _ => solve [apply (KK_frame x); [reflexivity ..| exact HH]] end ].

Lemma nconn_close_opt s o : nconn (close_opt s o) = nconn s.
Proof. destruct o; reflexivity. Qed.

(* a live pool's record changes (flag, current connection, trash) while l is closed; nothing it held is dropped *)
Lemma KK_upd s h q q' l : KK s -> pool s h = Some q -> pshut q = false ->
  (forall x, In x (pl_conns q) -> In x l \/ In x (pl_conns q')) ->
  KK (close_all (upd_pool s h (Some q')) l).
Proof.
  intros H Hq Hs Hold. unfold KK in *.
  change (nconn (close_all (upd_pool s h (Some q')) l)) with (nconn s).
  apply (KKn_upd s (nconn s) (nconn s) h q' l H).
  - eapply live_pool_session_up; eauto.
  - eapply pool_in_range; eauto.
  - rewrite Hq. exact Hold.
  - intros x H1 H2. lia.
Qed.

Lemma KK_run_task s t o d : KK s -> KK (run_task s t o d).
Proof.
  intros H0. destruct t; cbn [run_task].
  - destruct o; [|exact H0]. destruct (negb (h <? nh s)) eqn:Eh; [exact H0|].
    apply negb_false_iff, Nat.ltb_lt in Eh.
    destruct (connect s d) as [s1 c] eqn:Ec.
    destruct (connect_spec _ _ _ _ H0 Ec) as (H1 & -> & Hn & Hh).
    apply (KK_of _ (S (nconn s))).
    + unfold install_pool. destruct (sess_down s1); simpl; exact Hn.
    + apply KKn_install_pool; auto. rewrite Hh; exact Eh.
  - destruct (pool s h) as [q|] eqn:Ep0; [|exact H0].
    destruct ((pid q =? p) && negb (pshut q)); [|exact H0].
    destruct o.
    + destruct (connect s d) as [s1 c] eqn:Ec.
      destruct (connect_spec _ _ _ _ H0 Ec) as (H1 & -> & Hn & Hh).
      assert (Hclose : KK (close s1 (nconn s))) by (apply (KK_of _ (S (nconn s))); [exact Hn | apply KKn_close_new; exact H1]).
      destruct (pool s1 h) as [q'|] eqn:Ep; [|exact Hclose].
      destruct (pshut q') eqn:Esh; [exact Hclose|].
      assert (Hsd : sess_down s1 = false) by (eapply live_pool_session_up; eauto).
      assert (Hr : h < nh s1) by (eapply pool_in_range; eauto).
      (* every non-closing branch: the pool gets the new connection; what it held stays held or is closed *)
      assert (Hgen : forall q2 l, (forall x, In x (pl_conns q') -> In x l \/ In x (pl_conns q2)) -> In (nconn s) (pl_conns q2) ->
                     KK (close_all (upd_pool s1 h (Some q2)) l)).
      { intros q2 l Hold Hnew. apply (KK_of _ (S (nconn s))); [exact Hn|].
        apply (KKn_upd s1 (nconn s) (S (nconn s)) h q2 l H1 Hsd Hr).
        - rewrite Ep. exact Hold.
        - intros x Hx1 Hx2. right. assert (x = nconn s) by lia. subst. exact Hnew. }
      destruct (pconn q') as [c1|] eqn:Epc.
      * destruct (c1 =? c0) eqn:Ecc; [|exact Hclose]. apply Nat.eqb_eq in Ecc; subst c1.
        destruct m.
        -- apply (Hgen (mkp (pid q') (Some (nconn s)) false false (ptrash q')) [c0]).
           ++ intros x Hx. unfold pl_conns in Hx. rewrite Epc in Hx. simpl in Hx. destruct Hx as [-> | Hx]; [left; simpl; auto|].
              right. unfold pl_conns; simpl. auto.
           ++ unfold pl_conns; simpl; auto.
        -- eapply KK_frame; [| | | | | | | apply (Hgen (mkp (pid q') (Some (nconn s)) false false (c0 :: ptrash q')) [])]; try reflexivity.
           ++ intros x Hx. unfold pl_conns in Hx. rewrite Epc in Hx. simpl in Hx. right. unfold pl_conns; simpl.
              destruct Hx as [-> | Hx]; auto.
           ++ unfold pl_conns; simpl; auto.
        -- apply (Hgen (mkp (pid q') (Some (nconn s)) false false (ptrash q')) [c0]).
           ++ intros x Hx. unfold pl_conns in Hx. rewrite Epc in Hx. simpl in Hx. destruct Hx as [-> | Hx]; [left; simpl; auto|].
              right. unfold pl_conns; simpl. auto.
           ++ unfold pl_conns; simpl; auto.
      * eapply KK_frame; [| | | | | | | apply (Hgen (mkp (pid q') (Some (nconn s)) false false
                                              (match m with RBusy => c0 :: ptrash q' | _ => ptrash q' end)) [])]; try reflexivity.
        -- intros x Hx. unfold pl_conns in Hx. rewrite Epc in Hx. simpl in Hx. right. unfold pl_conns; simpl.
           destruct m; simpl; auto.
        -- unfold pl_conns; simpl; auto.
    + cbn zeta. destruct (sess_down (att s 1)); kkframe.
  - destruct o.
    + destruct (connect s d) as [s1 c] eqn:Ec.
      destruct (connect_spec _ _ _ _ H0 Ec) as (H1 & -> & Hn & Hh).
      destruct (cc_down s1) eqn:Ed.
      * apply (KK_of _ (S (nconn s))); [exact Hn | apply KKn_close_new; exact H1].
      * apply (KK_of _ (S (nconn s))); [simpl; rewrite nconn_close_opt; exact Hn | apply KKn_install_cc; auto].
    + destruct d.
      * assert (H1 : KK (att s 1)) by kkframe.
        apply (KK_of _ (nconn (att s 1))); [apply nconn_cluster_shutdown | apply KKn_cluster_shutdown; exact H1].
      * destruct (cc_down s); [kkframe|]. cbn zeta. destruct (sched_down (att s (nh s))); kkframe.
Qed.

Lemma KK_fire s t o d : KK s -> KK (fire s t o d).
Proof.
  intros H0. destruct t; cbn [fire].
  - destruct live; cbn [negb]; [|exact H0]. destruct o.
    + destruct (connect s d) as [s1 c] eqn:Ec.
      destruct (connect_spec _ _ _ _ H0 Ec) as (H1 & -> & Hn & Hh).
      apply (KK_of _ (S (nconn s))); [exact Hn | apply KKn_close_new; exact H1].
    + cbn zeta. destruct (sched_down (att s 1)); kkframe.
  - destruct live; cbn [negb]; [|exact H0]. destruct o.
    + destruct (connect s d) as [s1 c] eqn:Ec.
      destruct (connect_spec _ _ _ _ H0 Ec) as (H1 & -> & Hn & Hh).
      destruct (cc_down s1) eqn:Ed.
      * apply (KK_of _ (S (nconn s))); [exact Hn | apply KKn_close_new; exact H1].
      * apply (KK_of _ (S (nconn s))); [simpl; rewrite nconn_close_opt; exact Hn |].
        apply KKn_close. apply KKn_install_cc; auto.
    + destruct d.
      * assert (H1 : KK (att s 1)) by kkframe.
        apply (KK_of _ (nconn (att s 1))); [apply nconn_cluster_shutdown | apply KKn_cluster_shutdown; exact H1].
      * cbn zeta. destruct (sched_down (att s (nh s))); kkframe.
Qed.

Lemma nconn_install_pool s h c : nconn (install_pool s h c) = nconn s.
Proof. unfold install_pool. destruct (sess_down s); reflexivity. Qed.

Lemma KK_step s o : KK s -> KK (fst (step s o)).
Proof.
  intros H. destruct o; [simpl | simpl | simpl | simpl | simpl | simpl | simpl | simpl | cbn [step] | simpl | simpl | simpl | simpl].
  - destruct (sess_down s); simpl; kkframe.
  - destruct (pool s h) as [q|] eqn:Ep; [|exact H]. destruct (pconn q) eqn:Epc; [|exact H].
    destruct (prepl q || pshut q) eqn:Eps; [exact H|]. apply orb_false_iff in Eps. destruct Eps as [_ Esh].
    assert (H1 : KK (upd_pool s h (Some (mkp (pid q) (pconn q) (pshut q) true (ptrash q))))).
    { eapply KK_frame; [| | | | | | | apply (KK_upd s h q (mkp (pid q) (pconn q) (pshut q) true (ptrash q)) [] H Ep Esh)]; try reflexivity.
      intros x Hx. right. exact Hx. }
    rewrite Epc in H1. destruct (sess_down s); simpl; kkframe.
  - destruct (pool s h) as [q|] eqn:Ep; [|exact H]. destruct (pconn q) as [c|] eqn:Epc; [|exact H].
    destruct (pshut q) eqn:Esh; [exact H|].
    assert (H1 : KK (close (upd_pool s h (Some (mkp (pid q) None false true (ptrash q)))) c)).
    { apply (KK_upd s h q (mkp (pid q) None false true (ptrash q)) [c] H Ep Esh).
      intros x Hx. unfold pl_conns in *. rewrite Epc in Hx. simpl in *. destruct Hx as [-> | Hx]; auto. }
    destruct (prepl q); [exact H1|]. destruct (sess_down s); simpl; kkframe.
  - destruct (pool s h) as [q|] eqn:Ep; [|exact H]. destruct (ptrash q) as [|c rest] eqn:Et; [exact H|].
    destruct (pshut q || existsb (Nat.eqb c) (closed s)) eqn:Eg; [exact H|]. apply orb_false_iff in Eg. destruct Eg as [Esh _]. simpl.
    apply (KK_upd s h q (mkp (pid q) (pconn q) (pshut q) (prepl q) rest) [c] H Ep Esh).
    intros x Hx. unfold pl_conns in *. rewrite Et in Hx. simpl. apply in_app_or in Hx. destruct Hx as [Hx | [-> | Hx]]; auto.
    + right. apply in_or_app; auto.
    + right. apply in_or_app; auto.
  - destruct (cc_down s || cl_down s); simpl; kkframe.
  - destruct (sched_down s); simpl; kkframe.
  - destruct (nth_error (queue s) k) as [t|]; simpl; [|exact H]. apply KK_run_task. kkframe.
  - destruct (sched_down s) eqn:Es; simpl; [exact H|].
    destruct (nth_error (timers s) k) as [t|]; simpl; [|exact H]. apply KK_fire. kkframe.
  - destruct (nth_error (queue s) k) as [[h i|? ? ? ?|]|]; try exact H.
    match goal with |- context [nth_error ?l j] => destruct (nth_error l j) as [[h' i'|? ? ? ?|]|] end; try exact H.
    destruct (negb (h <? nh s) || negb (h' <? nh s)) eqn:Er; [exact H|].
    apply orb_false_iff in Er. destruct Er as [Er1 Er2].
    apply negb_false_iff, Nat.ltb_lt in Er1. apply negb_false_iff, Nat.ltb_lt in Er2.
    assert (H0 : KK (set_queue s (remove_nth k (queue s)))) by kkframe.
    set (s0 := set_queue s (remove_nth k (queue s))) in *.
    destruct (connect s0 false) as [s1 c] eqn:Ec.
    destruct (connect_spec _ _ _ _ H0 Ec) as (H1 & -> & Hn & Hh). cbn [fst].
    (* the inner creation runs while connection (nconn s0) is not installed yet *)
    cbn [run_task].
    replace (negb (h' <? nh (set_queue s1 (remove_nth j (queue s1))))) with false
      by (symmetry; apply negb_false_iff, Nat.ltb_lt; simpl; rewrite Hh; exact Er2).
    destruct (connect (set_queue s1 (remove_nth j (queue s1))) false) as [s3 c3] eqn:Ec3.
    assert (E3 : s3 = att (set_nconn (set_queue s1 (remove_nth j (queue s1))) (S (nconn s1))) 1 /\ c3 = nconn s1).
    { Transparent connect. unfold connect in Ec3. inversion Ec3; subst. split; reflexivity. Opaque connect. }
    destruct E3 as [-> ->].
    set (s3 := att (set_nconn (set_queue s1 (remove_nth j (queue s1))) (S (nconn s1))) 1).
    assert (H3 : KKd s3 (fun x => x < nconn s0)) by (eapply KKd_frame; [| | | | | | exact H1]; reflexivity).
    assert (Hh3 : nh s3 = nh s) by (simpl; exact Hh).
    pose proof (KKd_install_pool s3 _ h' (nconn s1) H3 (eq_ind_r (fun z => h' < z) Er2 Hh3)) as H4.
    assert (Hh4 : nh (install_pool s3 h' (nconn s1)) = nh s) by (unfold install_pool; destruct (sess_down s3); simpl; exact Hh).
    pose proof (KKd_install_pool _ _ h (nconn s0) H4 (eq_ind_r (fun z => h < z) Er1 Hh4)) as H5.
    unfold KK, KKn.
    eapply KKd_mono; [| exact H5].
    intros x Hx. simpl.
    assert (Hnc : nconn (install_pool (install_pool s3 h' (nconn s1)) h (nconn s0)) = S (S (nconn s0))).
    { rewrite !nconn_install_pool. unfold s3. simpl. rewrite Hn. reflexivity. }
    rewrite Hnc in Hx. cbv beta. rewrite Hn. change (nconn s0) with (nconn s) in *. lia.
  - apply (KK_of _ (nconn s)); [apply nconn_cluster_shutdown | apply KKn_cluster_shutdown; exact H].
  - apply (KK_of _ (nconn s)); [apply nconn_session_shutdown | apply KKn_session_shutdown; exact H].
  - exact H.
  - exact H.
Qed.

Lemma KK_run os : forall s, KK s -> KK (run s os).
Proof. induction os; simpl; intros s H; auto. apply IHos. apply KK_step; auto. Qed.

Lemma KK_init n : KK (init n).
Proof.
  unfold KK, KKn, KKd, held, init; simpl. split; [|split; [|split]]; try discriminate.
  - intros c Hc. destruct c.
    + right; left; auto.
    + right; right. exists c. destruct (c <? n) eqn:E; simpl; auto. apply Nat.ltb_ge in E. lia.
  - intros h Hh. destruct (h <? n) eqn:E; auto. apply Nat.ltb_lt in E. lia.
Qed.

(* everything shut down => every opened connection is closed *)
Lemma all_closed_when_down s : KK s -> sess_down s = true -> cc_down s = true ->
  forall c, c < nconn s -> In c (closed s).
Proof.
  intros (A & B & C & D0) Hs Hc c Hlt. destruct (A c Hlt) as [H | [H | [h H]]]; auto.
  - rewrite (B Hc) in H. discriminate.
  - destruct (pool s h) as [q|] eqn:Ep; [|destruct H]. destruct (C Hs h q Ep) as [_ E]. simpl in H. rewrite E in H. destruct H.
Qed.

(* after Session.shutdown alone: the only connection that may be open is the control connection's *)
Lemma session_closed_when_down s : KK s -> sess_down s = true ->
  forall c, c < nconn s -> In c (closed s) \/ cc_conn s = Some c.
Proof.
  intros (A & B & C & D0) Hs c Hlt. destruct (A c Hlt) as [H | [H | [h H]]]; auto.
  destruct (pool s h) as [q|] eqn:Ep; [|destruct H]. destruct (C Hs h q Ep) as [_ E]. simpl in H. rewrite E in H. destruct H.
Qed.

(* at any time, shut down or not: an open connection belongs to the control connection or to a pool registered in the
   session (as its current connection or in its trash) -- nothing is orphaned, so a later shutdown reaches it *)
Lemma open_has_owner s c : KK s -> c < nconn s -> held s c.
Proof. intros (A & _) Hc. auto. Qed.
