(* C01: decoding what the codec model encodes gives back the (normalised) value -- induction over type trees. *)
From Coq Require Import ZArith List Bool Lia.
From Verif Require Import PyBase MarshalModel Utf8Model CqlType CqlCodec CassandraSpecInt CassandraSpec
  Marshal_proofs Vint_proofs Utf8_proofs.
From Verif Require VIntCoding MarshalBridge.
Import ListNotations.
Local Open Scope Z_scope.

(* ------------------------------------------------------------------ induction principle for nested type trees *)
Section TypeInd.
  Variable P : cqltype -> Prop.
  Hypothesis Hs : forall s, P (TScalar s).
  Hypothesis Hl : forall t, P t -> P (TList t).
  Hypothesis Hset : forall t, P t -> P (TSet t).
  Hypothesis Hm : forall k v, P k -> P v -> P (TMap k v).
  Hypothesis Ht : forall ts, Forall P ts -> P (TTuple ts).
  Hypothesis Hu : forall ts, Forall P ts -> P (TUdt ts).
  Hypothesis Hv : forall t n, P t -> P (TVector t n).
  Hypothesis Hf : forall t, P t -> P (TFrozen t).
  Hypothesis Hr : forall t, P t -> P (TReversed t).
  Fixpoint cqltype_ind' (t : cqltype) : P t :=
    match t with
    | TScalar s => Hs s
    | TList t' => Hl t' (cqltype_ind' t')
    | TSet t' => Hset t' (cqltype_ind' t')
    | TMap k v => Hm k v (cqltype_ind' k) (cqltype_ind' v)
    | TTuple ts => Ht ts ((fix go (ts : list cqltype) : Forall P ts :=
                             match ts with [] => Forall_nil P | t1 :: r => Forall_cons t1 (cqltype_ind' t1) (go r) end) ts)
    | TUdt ts => Hu ts ((fix go (ts : list cqltype) : Forall P ts :=
                           match ts with [] => Forall_nil P | t1 :: r => Forall_cons t1 (cqltype_ind' t1) (go r) end) ts)
    | TVector t' n => Hv t' n (cqltype_ind' t')
    | TFrozen t' => Hf t' (cqltype_ind' t')
    | TReversed t' => Hr t' (cqltype_ind' t')
    end.
End TypeInd.

(* ------------------------------------------------------------------ small list facts *)
Lemma firstn_app_len : forall (A : Type) (a b : list A), firstn (length a) (a ++ b) = a.
Proof. induction a; intros; cbn; [reflexivity | rewrite IHa; reflexivity]. Qed.
Lemma skipn_app_len : forall (A : Type) (a b : list A), skipn (length a) (a ++ b) = b.
Proof. induction a; intros; cbn; [reflexivity | apply IHa]. Qed.

Lemma obind_some : forall (A B : Type) (o : option A) (f : A -> option B) b,
  obind o f = Some b -> exists a, o = Some a /\ f a = Some b.
Proof. intros. destruct o; cbn in H; [eauto | discriminate]. Qed.

Ltac inv_bind H :=
  let a := fresh "a" in let E := fresh "E" in
  apply obind_some in H; destruct H as [a [E H]].

Lemma len_nonneg : forall (A : Type) (l : list A), 0 <= len l.
Proof. intros. unfold len. lia. Qed.

Lemma rd_fixed_app : forall k a rest, length a = k -> rd_fixed k (Some (a ++ rest)) = Some (a, Some rest).
Proof.
  intros. unfold rd_fixed. subst k. rewrite app_length.
  destruct (length a <=? length a + length rest)%nat eqn:E; [|apply Nat.leb_gt in E; lia].
  rewrite firstn_app_len, skipn_app_len. reflexivity.
Qed.

Lemma rd_slice_app : forall a rest, rd_slice (len a) (Some (a ++ rest)) = (a, Some rest).
Proof.
  intros. unfold rd_slice, len. rewrite app_length.
  destruct (Z.of_nat (length a) <=? Z.of_nat (length a + length rest)) eqn:E; [|apply Z.leb_gt in E; lia].
  rewrite Nat2Z.id, firstn_app_len, skipn_app_len. reflexivity.
Qed.

(* ------------------------------------------------------------------ length fields *)
Lemma lenw_pos : forall pv, (0 < lenw pv)%nat.
Proof. intros. unfold lenw. destruct (3 <=? pv); lia. Qed.

Lemma pack_len_length : forall pv z b, pack_len pv z = Some b -> length b = lenw pv.
Proof. intros. eapply pack_int_length; eauto. Qed.

Lemma unpack_pack_len : forall pv z b, pack_len pv z = Some b -> unpack_len pv b = Some z.
Proof. intros. apply unpack_pack_int; [apply lenw_pos | assumption]. Qed.

(* ------------------------------------------------------------------ scalars *)
Lemma norm_scalar : forall s v, norm (TScalar s) v = v.
Proof. intros. destruct v; reflexivity. Qed.

Lemma in_z_iff : forall lo hi z, in_z lo hi z = true <-> lo <= z < hi.
Proof. intros. unfold in_z. rewrite andb_true_iff, Z.leb_le, Z.ltb_lt. tauto. Qed.

Lemma pack_nonempty : forall n s z b, (0 < n)%nat -> pack_int n s z = Some b -> b <> [].
Proof. intros n s z b Hn H Hb. apply pack_int_length in H. subst b. cbn in H. lia. Qed.

Ltac upi H :=
  match type of H with
  | pack_int ?n ?s ?z = Some ?b => rewrite (unpack_pack_int n s z b ltac:(lia) H)
  end.

Lemma scalar_roundtrip : forall s v bs, py_repr (TScalar s) v = true -> ser_scalar s v = Some bs ->
  des_scalar s bs = Some v /\ (empty_ok (TScalar s) = false -> bs <> []).
Proof.
  intros s v bs Hp H.
  destruct s, v; cbn [ser_scalar] in H; try discriminate; cbn [des_scalar empty_ok].
  - (* ascii *) destruct (all_ascii cps) eqn:A; [|discriminate]. inversion H; subst. rewrite A. split; [reflexivity | discriminate].
  - (* bigint *) upi H. split; [reflexivity | intros _; eapply pack_nonempty; [|eauto]; lia].
  - (* blob *) inversion H. split; [reflexivity | discriminate].
  - (* boolean *) inversion H. split; [destruct b; reflexivity | intros _; discriminate].
  - (* date *) upi H. cbn [obind]. split; [f_equal; f_equal; lia | intros _; eapply pack_nonempty; [|eauto]; lia].
  - (* decimal *) inv_bind H. inversion H; subst bs; clear H.
    pose proof (pack_int_length _ _ _ _ E) as L.
    assert (F1 : firstn 4 (a ++ varint_pack unscaled) = a) by (rewrite <- L; apply firstn_app_len).
    assert (F2 : skipn 4 (a ++ varint_pack unscaled) = varint_pack unscaled) by (rewrite <- L; apply skipn_app_len).
    rewrite F1, F2.
    upi E. cbn [obind]. rewrite varint_unpack_pack. cbn [obind].
    split; [reflexivity | intros _ C; apply app_eq_nil in C; destruct C as [C _]; subst a; cbn in L; lia].
  - (* double *) upi H. split; [reflexivity | intros _; eapply pack_nonempty; [|eauto]; lia].
  - (* float *) upi H. split; [reflexivity | intros _; eapply pack_nonempty; [|eauto]; lia].
  - (* inet *) destruct ((length bs0 =? 4)%nat || (length bs0 =? 16)%nat) eqn:L; [|discriminate]. inversion H; subst. rewrite L.
    split; [reflexivity|]. intros _ C. subst. cbn in L. discriminate.
  - (* int *) upi H. split; [reflexivity | intros _; eapply pack_nonempty; [|eauto]; lia].
  - (* smallint *) upi H. split; [reflexivity | intros _; eapply pack_nonempty; [|eauto]; lia].
  - (* tinyint *) upi H. split; [reflexivity | intros _; eapply pack_nonempty; [|eauto]; lia].
  - (* text *) rewrite (utf8_decode_encode _ _ H). split; [reflexivity | discriminate].
  - (* time *) destruct ((0 <=? z) && (z <? DAY_NANOS)) eqn:D; [|discriminate].
    upi H. cbn [obind]. rewrite D.
    split; [reflexivity | intros _; eapply pack_nonempty; [|eauto]; lia].
  - (* timestamp *) upi H. cbn [obind].
    cbn [py_repr] in Hp. rewrite Hp. split; [reflexivity | intros _; eapply pack_nonempty; [|eauto]; lia].
  - (* uuid *) destruct (length bs0 =? 16)%nat eqn:L; [|discriminate]. inversion H; subst. rewrite L.
    split; [reflexivity|]. intros _ C. subst. cbn in L. discriminate.
  - (* varint *) inversion H; subst. rewrite varint_unpack_pack. split; [reflexivity | intros _; apply varint_pack_nonempty].
  - (* duration *)
    (* the encoder itself refuses components outside int64: model = VIntCoding (MarshalBridge, proved over the translated source) *)
    pose proof H as Hv. rewrite MarshalBridge.model_vints_pack_spec in Hv. cbn [VIntCoding.vints_encode] in Hv.
    destruct (VIntCoding.in_int64b months) eqn:H1; [|discriminate].
    destruct (VIntCoding.in_int64b days) eqn:H2; [|discriminate].
    destruct (VIntCoding.in_int64b nanos) eqn:H3; [|discriminate]. clear Hv.
    unfold VIntCoding.in_int64b in H1, H2, H3.
    apply andb_true_iff in H1. apply andb_true_iff in H2. apply andb_true_iff in H3.
    destruct H1 as [A1 B1]. destruct H2 as [A2 B2]. destruct H3 as [A3 B3].
    apply Z.leb_le in A1, A2, A3. apply Z.ltb_lt in B1, B2, B3.
    assert (F : Forall int64 [months; days; nanos]) by (repeat constructor; unfold int64; lia).
    rewrite (vints_unpack_pack _ _ F H).
    split; [reflexivity | intros _; eapply vints_pack_nonempty; eauto].
Qed.

(* ------------------------------------------------------------------ one length-prefixed element *)
(* what the induction hypothesis gives for an element codec *)
Definition RT (ser : value -> option (list Z)) (des : list Z -> option value) (eok : bool) (nrm : value -> value) (v : value) : Prop :=
  v <> VNull -> forall b, ser v = Some b -> des b = Some (nrm v) /\ (eok = false -> b <> []).

Lemma value_eq_null : forall v : value, v = VNull \/ v <> VNull.
Proof. destruct v; (left; reflexivity) || (right; discriminate). Qed.

Lemma enc_elem_nonnull : forall pv ser v, v <> VNull ->
  enc_elem pv ser v = (b <- ser v ;; l <- pack_len pv (len b) ;; Some (l ++ b)).
Proof. intros. destruct v; try reflexivity. congruence. Qed.

Lemma wrap_from_des : forall eok des b, (eok = false -> b <> []) -> wrap_from eok des b = des b.
Proof.
  intros. unfold wrap_from. destruct eok; cbn [negb]; [rewrite andb_false_r; reflexivity|].
  destruct b; [exfalso; apply H; reflexivity | reflexivity].
Qed.

Lemma elem_rt : forall pv ser des eok nrm v a rest, nrm VNull = VNull -> RT ser des eok nrm v ->
  enc_elem pv ser v = Some a ->
  dec_elem pv (wrap_from eok des) (Some (a ++ rest)) = Some (nrm v, Some rest) /\ (lenw pv <= length a)%nat.
Proof.
  intros pv ser des eok nrm v a rest N R H.
  destruct (value_eq_null v) as [Hn | Hn].
  - subst v. cbn [enc_elem] in H. unfold dec_elem.
    rewrite (rd_fixed_app _ _ _ (pack_len_length _ _ _ H)), (unpack_pack_len _ _ _ H). cbn [obind].
    change (-1 <? 0) with true. cbv iota. rewrite N. split; [reflexivity | rewrite (pack_len_length _ _ _ H); lia].
  - rewrite enc_elem_nonnull in H by assumption.
    inv_bind H. inv_bind H. inversion H; subst a; clear H. rename a0 into b. rename a1 into l.
    destruct (R Hn b E) as [D NE].
    unfold dec_elem. rewrite <- app_assoc.
    rewrite (rd_fixed_app _ _ _ (pack_len_length _ _ _ E0)), (unpack_pack_len _ _ _ E0). cbn [obind].
    pose proof (len_nonneg _ b).
    destruct (len b <? 0) eqn:C; [apply Z.ltb_lt in C; lia|].
    rewrite rd_slice_app, (wrap_from_des _ _ _ NE), D. cbn [obind].
    split; [reflexivity | rewrite app_length, (pack_len_length _ _ _ E0); lia].
Qed.

(* ------------------------------------------------------------------ list / set *)
Lemma len_cons : forall (A : Type) (x : A) l, len (x :: l) = len l + 1.
Proof. intros. unfold len. cbn [length]. lia. Qed.

Lemma dec_items_unfold : forall fuel pv fb n s,
  dec_items fuel pv fb n s =
  if n <=? 0 then Some []
  else match fuel with
       | O => None
       | S f => match dec_elem pv fb s with
                | None => None
                | Some (v, s') => r <- dec_items f pv fb (n - 1) s' ;; Some (v :: r)
                end
       end.
Proof. destruct fuel; reflexivity. Qed.

Lemma items_rt : forall pv ser des eok nrm, nrm VNull = VNull -> forall vs bs rest fuel,
  Forall (RT ser des eok nrm) vs -> enc_items pv ser vs = Some bs -> (length vs <= fuel)%nat ->
  dec_items fuel pv (wrap_from eok des) (len vs) (Some (bs ++ rest)) = Some (map nrm vs) /\ (length vs <= length bs)%nat.
Proof.
  intros pv ser des eok nrm N. induction vs as [|v r IH]; intros bs rest fuel F H Hf.
  - rewrite dec_items_unfold. cbn. split; [reflexivity | lia].
  - cbn [enc_items] in H. inv_bind H. inv_bind H. inversion H; subst bs; clear H.
    inversion F as [|? ? Rv Rr]; subst.
    destruct fuel; [cbn in Hf; lia|].
    rewrite dec_items_unfold. rewrite len_cons.
    pose proof (len_nonneg _ r).
    destruct (len r + 1 <=? 0) eqn:C; [apply Z.leb_le in C; lia|].
    rewrite <- app_assoc.
    destruct (elem_rt pv ser des eok nrm v a (a0 ++ rest) N Rv E) as [D L]. rewrite D.
    replace (len r + 1 - 1) with (len r) by lia.
    destruct (IH a0 rest fuel Rr E0) as [D2 L2]; [cbn in Hf; lia|]. rewrite D2. cbn [obind map].
    split; [reflexivity|]. rewrite app_length. pose proof (lenw_pos pv). cbn [length]. lia.
Qed.

Lemma coll_rt : forall pv ser des eok nrm vs bs, nrm VNull = VNull ->
  Forall (RT ser des eok nrm) vs -> enc_coll pv ser vs = Some bs ->
  dec_coll pv (wrap_from eok des) bs = Some (VSeq (map nrm vs)) /\ bs <> [].
Proof.
  intros pv ser des eok nrm vs bs N F H. unfold enc_coll in H. inv_bind H. inv_bind H. inversion H; subst bs; clear H.
  unfold dec_coll. rewrite (rd_fixed_app _ _ _ (pack_len_length _ _ _ E)), (unpack_pack_len _ _ _ E). cbn [obind].
  destruct (items_rt pv ser des eok nrm N vs a0 [] (S (length (a ++ a0))) F E0) as [D L].
  - pose proof (items_rt pv ser des eok nrm N vs a0 [] (length vs) F E0 (le_n _)) as [_ L]. rewrite app_length. lia.
  - rewrite app_nil_r in D. rewrite D. cbn [obind]. split; [reflexivity|].
    intro C. apply app_eq_nil in C. destruct C as [C _]. subst a.
    pose proof (pack_len_length _ _ _ E) as PL. pose proof (lenw_pos pv). cbn in PL. lia.
Qed.

(* ------------------------------------------------------------------ map *)
Lemma dec_pairs_unfold : forall fuel pv fk fv n s,
  dec_pairs fuel pv fk fv n s =
  if n <=? 0 then Some []
  else match fuel with
       | O => None
       | S f => match dec_elem pv fk s with
                | None => None
                | Some (k, s1) =>
                  match dec_elem pv fv s1 with
                  | None => None
                  | Some (x, s2) => r <- dec_pairs f pv fk fv (n - 1) s2 ;; Some ((k, x) :: r)
                  end
                end
       end.
Proof. destruct fuel; reflexivity. Qed.

Lemma pairs_rt : forall pv serk desk eokk nrmk serv desv eokv nrmv, nrmk VNull = VNull -> nrmv VNull = VNull ->
  forall kvs bs rest fuel,
  Forall (fun kv => RT serk desk eokk nrmk (fst kv) /\ RT serv desv eokv nrmv (snd kv)) kvs ->
  enc_pairs pv serk serv kvs = Some bs -> (length kvs <= fuel)%nat ->
  dec_pairs fuel pv (wrap_from eokk desk) (wrap_from eokv desv) (len kvs) (Some (bs ++ rest))
    = Some (map (fun kv => (nrmk (fst kv), nrmv (snd kv))) kvs) /\ (length kvs <= length bs)%nat.
Proof.
  intros pv serk desk eokk nrmk serv desv eokv nrmv Nk Nv. induction kvs as [|[k x] r IH]; intros bs rest fuel F H Hf.
  - rewrite dec_pairs_unfold. cbn. split; [reflexivity | lia].
  - cbn [enc_pairs] in H. inv_bind H. inv_bind H. inv_bind H. inversion H; subst bs; clear H.
    inversion F as [|? ? Rkv Rr]; subst. destruct Rkv as [Rk Rv]. cbn [fst snd] in *.
    destruct fuel; [cbn in Hf; lia|].
    rewrite dec_pairs_unfold. rewrite len_cons.
    pose proof (len_nonneg _ r).
    destruct (len r + 1 <=? 0) eqn:C; [apply Z.leb_le in C; lia|].
    rewrite <- !app_assoc.
    destruct (elem_rt pv serk desk eokk nrmk k a (a0 ++ a1 ++ rest) Nk Rk E) as [D L]. rewrite D.
    destruct (elem_rt pv serv desv eokv nrmv x a0 (a1 ++ rest) Nv Rv E0) as [D' L']. rewrite D'.
    replace (len r + 1 - 1) with (len r) by lia.
    destruct (IH a1 rest fuel Rr E1) as [D2 L2]; [cbn in Hf; lia|]. rewrite D2. cbn [obind map fst snd].
    split; [reflexivity|]. rewrite !app_length. pose proof (lenw_pos pv). cbn [length]. lia.
Qed.

Lemma map_rt : forall pv serk desk eokk nrmk serv desv eokv nrmv kvs bs, nrmk VNull = VNull -> nrmv VNull = VNull ->
  Forall (fun kv => RT serk desk eokk nrmk (fst kv) /\ RT serv desv eokv nrmv (snd kv)) kvs ->
  enc_map pv serk serv kvs = Some bs ->
  dec_map pv (wrap_from eokk desk) (wrap_from eokv desv) bs = Some (VMap (map (fun kv => (nrmk (fst kv), nrmv (snd kv))) kvs)) /\ bs <> [].
Proof.
  intros pv serk desk eokk nrmk serv desv eokv nrmv kvs bs Nk Nv F H.
  unfold enc_map in H. inv_bind H. inv_bind H. inversion H; subst bs; clear H.
  unfold dec_map. rewrite (rd_fixed_app _ _ _ (pack_len_length _ _ _ E)), (unpack_pack_len _ _ _ E). cbn [obind].
  destruct (pairs_rt pv serk desk eokk nrmk serv desv eokv nrmv Nk Nv kvs a0 [] (S (length (a ++ a0))) F E0) as [D L].
  - pose proof (pairs_rt pv serk desk eokk nrmk serv desv eokv nrmv Nk Nv kvs a0 [] (length kvs) F E0 (le_n _)) as [_ L].
    rewrite app_length. lia.
  - rewrite app_nil_r in D. rewrite D. cbn [obind]. split; [reflexivity|].
    intro C. apply app_eq_nil in C. destruct C as [C _]. subst a.
    pose proof (pack_len_length _ _ _ E) as PL. pose proof (lenw_pos pv). cbn in PL. lia.
Qed.

(* ------------------------------------------------------------------ tuple / UDT *)
Fixpoint norm_fields (nrm : cqltype -> value -> value) (ts : list cqltype) (vs : list value) : list value :=
  match ts, vs with
  | t1 :: ts', v1 :: vs' => nrm t1 v1 :: norm_fields nrm ts' vs'
  | _, [] => map (fun _ => VNull) ts
  | [], _ => []
  end.

Fixpoint RTs (ser : cqltype -> value -> option (list Z)) (des : cqltype -> list Z -> option value)
         (nrm : cqltype -> value -> value) (ts : list cqltype) (vs : list value) : Prop :=
  match ts, vs with
  | t :: ts', v :: vs' => RT (ser t) (des t) (empty_ok t) (nrm t) v /\ RTs ser des nrm ts' vs'
  | _, _ => True
  end.

Lemma dec_fields_step : forall fb t ts s, at_end s = false ->
  dec_fields fb (t :: ts) s =
  match dec_elem 3 (fb t) s with
  | None => None
  | Some (v, s') => r <- dec_fields fb ts s' ;; Some (v :: r)
  end.
Proof.
  intros fb t ts s H. cbn [dec_fields]. rewrite H. unfold dec_elem.
  change (lenw 3) with 4%nat. destruct (rd_fixed 4 s) as [[lb s1]|]; [|reflexivity].
  unfold unpack_len. change (lenw 3) with 4%nat. change (3 <=? 3) with true.
  destruct (unpack_int 4 true lb) as [l|]; cbn [obind]; [|reflexivity].
  destruct (0 <=? l) eqn:A; destruct (l <? 0) eqn:B;
    try (apply Z.leb_le in A); try (apply Z.leb_gt in A); try (apply Z.ltb_lt in B); try (apply Z.ltb_ge in B); try lia.
  - destruct (rd_slice l s1) as [item s2]. destruct (fb t item); reflexivity.
  - reflexivity.
Qed.

Lemma at_end_app : forall a b, (1 <= length a)%nat -> at_end (Some (a ++ b)) = false.
Proof. intros. destruct a; [cbn in H; lia | reflexivity]. Qed.

Lemma tuple_rt : forall ser des nrm, (forall t, nrm t VNull = VNull) -> forall ts vs bs,
  RTs ser des nrm ts vs -> enc_tuple ser ts vs = Some bs ->
  dec_fields (fun t => wrap_from (empty_ok t) (des t)) ts (Some bs) = Some (norm_fields nrm ts vs)
  /\ (vs <> [] -> ts <> [] -> bs <> []).
Proof.
  intros ser des nrm N. induction ts as [|t ts IH]; intros vs bs R H.
  - cbn [enc_tuple] in H. destruct vs; inversion H; cbn; split; auto.
  - destruct vs as [|v vs].
    + cbn [enc_tuple] in H. inversion H. cbn. split; [reflexivity | congruence].
    + cbn [enc_tuple] in H. inv_bind H. inv_bind H. inversion H; subst bs; clear H.
      cbn [RTs] in R. destruct R as [Rv Rr].
      destruct (elem_rt 3 (ser t) (des t) (empty_ok t) (nrm t) v a a0 (N t) Rv E) as [D L].
      change (lenw 3) with 4%nat in L.
      rewrite dec_fields_step by (apply at_end_app; lia). cbv beta.
      rewrite D. destruct (IH vs a0 Rr E0) as [D2 _]. rewrite D2. cbn [obind norm_fields].
      split; [reflexivity|]. intros _ _ C. apply app_eq_nil in C. destruct C as [C _]. subst a. cbn in L. lia.
Qed.

Lemma udt_rt : forall ser des nrm, (forall t, nrm t VNull = VNull) -> forall ts vs bs,
  RTs ser des nrm ts vs -> enc_udt ser ts vs = Some bs ->
  dec_fields (fun t => wrap_from (empty_ok t) (des t)) ts (Some bs) = Some (norm_fields nrm ts vs)
  /\ (ts <> [] -> bs <> []).
Proof.
  intros ser des nrm N. induction ts as [|t ts IH]; intros vs bs R H.
  - cbn [enc_udt] in H. inversion H. destruct vs; cbn; split; auto.
  - destruct vs as [|v vs]; [cbn [enc_udt] in H; discriminate|].
    cbn [enc_udt] in H. inv_bind H. inv_bind H. inversion H; subst bs; clear H.
    cbn [RTs] in R. destruct R as [Rv Rr].
    destruct (elem_rt 3 (ser t) (des t) (empty_ok t) (nrm t) v a a0 (N t) Rv E) as [D L].
    change (lenw 3) with 4%nat in L.
    rewrite dec_fields_step by (apply at_end_app; lia). cbv beta.
    rewrite D. destruct (IH vs a0 Rr E0) as [D2 _]. rewrite D2. cbn [obind norm_fields].
    split; [reflexivity|]. intros _ C. apply app_eq_nil in C. destruct C as [C _]. subst a. cbn in L. lia.
Qed.

(* ------------------------------------------------------------------ vector *)
(* element codec of a vector: deserialize is applied directly (no from_binary) *)
Definition RV (ser : value -> option (list Z)) (des : list Z -> option value) (nrm : value -> value) (osz : option Z) (v : value) : Prop :=
  forall b, ser v = Some b -> des b = Some (nrm v) /\ (forall sz, osz = Some sz -> len b = sz).

Lemma vec_fixed_rt : forall ser des nrm sz, 0 <= sz -> forall vs bs,
  Forall (RV ser des nrm (Some sz)) vs -> enc_vec ser true vs = Some bs ->
  dec_chunks (length vs) (Z.to_nat sz) des bs = Some (map nrm vs) /\ len bs = sz * len vs.
Proof.
  intros ser des nrm sz Hsz. induction vs as [|v r IH]; intros bs F H.
  - cbn [enc_vec] in H. inversion H. cbn. split; [reflexivity | unfold len; cbn; lia].
  - cbn [enc_vec] in H. inv_bind H. inv_bind H. inv_bind H. inversion H; subst bs; clear H.
    inversion E0; subst a0. cbn [app].
    inversion F as [|? ? Rv Rr]; subst. destruct (Rv a E) as [D S]. specialize (S sz eq_refl).
    destruct (IH a1 Rr E1) as [D2 L2].
    cbn [dec_chunks length]. assert (HL : Z.to_nat sz = length a) by (unfold len in S; lia).
    assert (F1 : firstn (Z.to_nat sz) (a ++ a1) = a) by (rewrite HL; apply firstn_app_len).
    assert (F2 : skipn (Z.to_nat sz) (a ++ a1) = a1) by (rewrite HL; apply skipn_app_len).
    rewrite F1, F2, D, D2. cbn [obind map]. split; [reflexivity|].
    rewrite len_cons. unfold len in *. rewrite app_length. lia.
Qed.

Lemma vec_var_rt : forall ser des nrm vs bs,
  Forall (RV ser des nrm None) vs -> enc_vec ser false vs = Some bs ->
  dec_vec_var (length vs) des (Some bs) = Some (map nrm vs) /\ (vs <> [] -> bs <> []).
Proof.
  intros ser des nrm. induction vs as [|v r IH]; intros bs F H.
  - cbn [enc_vec] in H. inversion H. cbn. split; [reflexivity | congruence].
  - cbn [enc_vec] in H. inv_bind H. inv_bind H. inv_bind H. inversion H; subst bs; clear H.
    inversion F as [|? ? Rv Rr]; subst. destruct (Rv a E) as [D _].
    destruct (IH a1 Rr E1) as [D2 _].
    cbn [dec_vec_var length]. rewrite (uvint_read_pack _ _ (a ++ a1) E0).
    rewrite rd_slice_app, D, D2. cbn [obind map]. split; [reflexivity|].
    intros _ C. apply app_eq_nil in C. destruct C as [C _]. subst a0.
    pose proof (uvint_pack_nonempty _ _ E0) as P. cbn in P. lia.
Qed.

(* ------------------------------------------------------------------ the inline loops of serialize/deserialize/norm/py_repr *)
Lemma serialize_tuple : forall pv ts vs,
  serialize pv (TTuple ts) (VSeq vs) = if (length ts <? length vs)%nat then None else enc_tuple (serialize (inner pv)) ts vs.
Proof.
  intros. cbn [serialize]. destruct (length ts <? length vs)%nat; [reflexivity|].
  revert vs. induction ts as [|t ts IH]; intros; destruct vs; try reflexivity.
  cbn [enc_tuple]. rewrite <- IH. reflexivity.
Qed.

Lemma serialize_udt : forall pv ts vs,
  serialize pv (TUdt ts) (VSeq vs) = enc_udt (serialize (inner pv)) ts vs.
Proof.
  intros. cbn [serialize].
  revert vs. induction ts as [|t ts IH]; intros; destruct vs; try reflexivity.
  cbn [enc_udt]. rewrite <- IH. reflexivity.
Qed.

Lemma deserialize_fields : forall pv ts bs,
  deserialize pv (TTuple ts) bs =
  (vs <- dec_fields (fun t => wrap_from (empty_ok t) (deserialize (inner pv) t)) ts (Some bs) ;; Some (VSeq vs))
  /\ deserialize pv (TUdt ts) bs = deserialize pv (TTuple ts) bs.
Proof.
  intros. split; [|reflexivity]. cbn [deserialize].
  match goal with |- obind (?f ts (Some bs)) _ = _ =>
    assert (A : forall s, f ts s = dec_fields (fun t => wrap_from (empty_ok t) (deserialize (inner pv) t)) ts s) end.
  { induction ts as [|t ts IH]; intros s; [reflexivity|].
    cbn [dec_fields]. destruct (at_end s); [reflexivity|].
    destruct (rd_fixed 4 s) as [[lb s1]|]; [|reflexivity].
    destruct (unpack_int 4 true lb) as [l|]; cbn [obind]; [|reflexivity].
    destruct (0 <=? l).
    - destruct (rd_slice l s1) as [item s2]. destruct (wrap_from (empty_ok t) (deserialize (inner pv) t) item); cbn [obind]; [|reflexivity].
      rewrite IH. reflexivity.
    - rewrite IH. reflexivity. }
  rewrite A. reflexivity.
Qed.

Lemma norm_null : forall t, norm t VNull = VNull.
Proof. destruct t; reflexivity. Qed.

Lemma norm_fields_eq : forall ts vs,
  norm (TTuple ts) (VSeq vs) = VSeq (norm_fields norm ts vs) /\ norm (TUdt ts) (VSeq vs) = VSeq (norm_fields norm ts vs).
Proof.
  intros. cbn [norm].
  match goal with |- VSeq (?f ts vs) = _ /\ _ => assert (A : forall vs, f ts vs = norm_fields norm ts vs) end.
  { induction ts as [|t ts IH]; intros; destruct vs0; try reflexivity. cbn [norm_fields]. rewrite <- IH. reflexivity. }
  rewrite A. split; reflexivity.
Qed.

Fixpoint pys (ts : list cqltype) (vs : list value) : bool :=
  match ts, vs with
  | t :: ts', v :: vs' => py_repr t v && pys ts' vs'
  | _, _ => true
  end.

Lemma py_repr_fields : forall ts vs,
  py_repr (TTuple ts) (VSeq vs) = negb (match vs with [] => true | _ => false end) && pys ts vs
  /\ py_repr (TUdt ts) (VSeq vs) = py_repr (TTuple ts) (VSeq vs).
Proof.
  intros. split; reflexivity.
Qed.

(* ------------------------------------------------------------------ fixed serialized sizes *)
Lemma scalar_size_len : forall s v bs sz, scalar_size s = Some sz -> ser_scalar s v = Some bs -> len bs = sz.
Proof.
  intros s v bs sz Hs H. unfold len.
  destruct s; cbn [scalar_size] in Hs; try discriminate; inversion Hs; subst sz;
    destruct v; cbn [ser_scalar] in H; try discriminate;
    try (apply pack_int_length in H; rewrite H; reflexivity).
  - inversion H. reflexivity.
  - destruct (length bs0 =? 16)%nat eqn:L; [|discriminate]. inversion H; subst. apply Nat.eqb_eq in L. rewrite L. reflexivity.
Qed.

Lemma serial_size_pos : forall t sz, wf_type t = true -> serial_size t = Some sz -> 1 <= sz.
Proof.
  induction t using cqltype_ind'; intros sz W HS; cbn [serial_size] in HS; try discriminate.
  - destruct s; cbn in HS; inversion HS; lia.
  - cbn [wf_type] in W. apply andb_true_iff in W. destruct W as [W1 W2]. apply Z.leb_le in W1.
    destruct (serial_size t) as [k|]; [|discriminate]. inversion HS; subst. specialize (IHt k W2 eq_refl). nia.
  - cbn [wf_type] in W. apply andb_true_iff in W. destruct W as [_ W2]. apply IHt; assumption.
  - cbn [wf_type] in W. apply andb_true_iff in W. destruct W as [_ W2]. apply IHt; assumption.
Qed.

(* ------------------------------------------------------------------ the main induction *)
Definition RTP (t : cqltype) : Prop :=
  forall pv v bs, wf_type t = true -> py_repr t v = true -> v <> VNull -> serialize pv t v = Some bs ->
    deserialize pv t bs = Some (norm t v)
    /\ (empty_ok t = false -> bs <> [])
    /\ (forall sz, serial_size t = Some sz -> len bs = sz).

Lemma RTP_RT : forall t pv v, RTP t -> wf_type t = true -> py_repr t v = true ->
  RT (serialize pv t) (deserialize pv t) (empty_ok t) (norm t) v.
Proof.
  intros t pv v P W Y Hn b Hs. destruct (P pv v b W Y Hn Hs) as [D [E _]]. split; assumption.
Qed.

Lemma forallb_Forall : forall (A : Type) (f : A -> bool) (Q : A -> Prop) l,
  (forall x, f x = true -> Q x) -> forallb f l = true -> Forall Q l.
Proof.
  intros. apply Forall_forall. intros x Hx. apply H. rewrite forallb_forall in H0. auto.
Qed.

Lemma RTs_of : forall pv ts vs, Forall RTP ts -> forallb wf_type ts = true -> pys ts vs = true ->
  RTs (serialize pv) (deserialize pv) norm ts vs.
Proof.
  intros pv. induction ts as [|t ts IH]; intros vs F W Y; [exact I|].
  destruct vs as [|v vs]; [exact I|]. cbn [RTs]. cbn [forallb] in W. cbn [pys] in Y.
  apply andb_true_iff in W. destruct W as [W1 W2]. apply andb_true_iff in Y. destruct Y as [Y1 Y2].
  inversion F; subst. split; [apply RTP_RT; assumption | apply IH; assumption].
Qed.

Lemma len_pos_nonnil : forall (A : Type) (l : list A), 1 <= len l -> l <> [].
Proof. intros. intro C. subst. unfold len in H. cbn in H. lia. Qed.

Theorem roundtrip_all : forall t, RTP t.
Proof.
  induction t using cqltype_ind'; unfold RTP; intros pv v bs W Y Hn Hs.
  - (* scalar *)
    cbn [serialize deserialize] in *. rewrite norm_scalar.
    destruct (scalar_roundtrip s v bs Y Hs) as [D E].
    split; [assumption | split; [assumption|]]. intros sz Hsz. cbn [serial_size] in Hsz. eapply scalar_size_len; eauto.
  - (* list *)
    destruct v; cbn [serialize] in Hs; try discriminate. cbn [wf_type py_repr] in *.
    cbn [deserialize norm].
    destruct (coll_rt pv (serialize (inner pv) t) (deserialize (inner pv) t) (empty_ok t) (norm t) vs bs (norm_null t)) as [D E]; auto.
    { eapply forallb_Forall; [|exact Y]. intros x Hx. apply RTP_RT; assumption. }
    split; [assumption | split; [intros _; assumption | cbn [serial_size]; discriminate]].
  - (* set *)
    destruct v; cbn [serialize] in Hs; try discriminate. cbn [wf_type py_repr] in *.
    cbn [deserialize norm].
    destruct (coll_rt pv (serialize (inner pv) t) (deserialize (inner pv) t) (empty_ok t) (norm t) vs bs (norm_null t)) as [D E]; auto.
    { eapply forallb_Forall; [|exact Y]. intros x Hx. apply RTP_RT; assumption. }
    split; [assumption | split; [intros _; assumption | cbn [serial_size]; discriminate]].
  - (* map *)
    destruct v; cbn [serialize] in Hs; try discriminate. cbn [wf_type py_repr] in *.
    apply andb_true_iff in W. destruct W as [W1 W2].
    cbn [deserialize norm].
    destruct (map_rt pv (serialize (inner pv) t1) (deserialize (inner pv) t1) (empty_ok t1) (norm t1)
                     (serialize (inner pv) t2) (deserialize (inner pv) t2) (empty_ok t2) (norm t2) kvs bs (norm_null t1) (norm_null t2)) as [D E]; auto.
    { eapply forallb_Forall; [|exact Y]. intros x Hx. apply andb_true_iff in Hx. destruct Hx. split; apply RTP_RT; assumption. }
    split; [assumption | split; [intros _; assumption | cbn [serial_size]; discriminate]].
  - (* tuple *)
    destruct v; try (cbn [serialize] in Hs; discriminate). rewrite serialize_tuple in Hs.
    destruct (length ts <? length vs)%nat; [discriminate|].
    destruct (py_repr_fields ts vs) as [PY _]. rewrite PY in Y. apply andb_true_iff in Y. destruct Y as [Y0 Y].
    cbn [wf_type] in W. apply andb_true_iff in W. destruct W as [W0 W].
    destruct (deserialize_fields pv ts bs) as [DS _]. destruct (norm_fields_eq ts vs) as [NF _]. rewrite DS, NF.
    destruct (tuple_rt (serialize (inner pv)) (deserialize (inner pv)) norm norm_null ts vs bs) as [D E]; auto.
    { apply RTs_of; assumption. }
    rewrite D. cbn [obind]. split; [reflexivity | split; [|cbn [serial_size]; discriminate]].
    intros _. apply E; [destruct vs; [discriminate | discriminate] | destruct ts; [discriminate | discriminate]].
  - (* udt *)
    destruct v; try (cbn [serialize] in Hs; discriminate); [congruence|]. rewrite serialize_udt in Hs.
    destruct (py_repr_fields ts vs) as [PY PU]. rewrite PU, PY in Y. apply andb_true_iff in Y. destruct Y as [Y0 Y].
    cbn [wf_type] in W. apply andb_true_iff in W. destruct W as [W0 W].
    destruct (deserialize_fields pv ts bs) as [DS DU]. destruct (norm_fields_eq ts vs) as [_ NF]. rewrite DU, DS, NF.
    destruct (udt_rt (serialize (inner pv)) (deserialize (inner pv)) norm norm_null ts vs bs) as [D E]; auto.
    { apply RTs_of; assumption. }
    rewrite D. cbn [obind]. split; [reflexivity | split; [|cbn [serial_size]; discriminate]].
    intros _. apply E. destruct ts; [discriminate | discriminate].
  - (* vector *)
    destruct v; cbn [serialize] in Hs; try discriminate.
    destruct (n =? len vs) eqn:En; [|discriminate]. apply Z.eqb_eq in En.
    cbn [wf_type] in W. apply andb_true_iff in W. destruct W as [W0 W]. apply Z.leb_le in W0.
    cbn [py_repr] in Y.
    assert (Hne : vs <> []) by (apply len_pos_nonnil; lia).
    assert (Hn' : Z.to_nat n = length vs) by (unfold len in En; lia).
    cbn [deserialize norm serial_size].
    destruct (serial_size t) as [k|] eqn:Ek; cbn [is_some] in Hs.
    + pose proof (serial_size_pos t k W Ek) as Kp.
      destruct (vec_fixed_rt (serialize pv t) (deserialize pv t) (norm t) k ltac:(lia) vs bs) as [D L]; auto.
      { eapply forallb_Forall; [|exact Y]. intros x Hx. apply andb_true_iff in Hx. destruct Hx as [X1 X2].
        intros b Hb. assert (Xn : x <> VNull) by (destruct x; [discriminate | | | | | | | |]; discriminate).
        destruct (IHt pv x b W X2 Xn Hb) as [D [_ S]]. split; [assumption|]. intros sz Hsz. inversion Hsz; subst. apply S. exact Ek. }
      rewrite L, <- En, Z.eqb_refl, Hn', D. cbn [obind].
      split; [reflexivity | split].
      * intros _. apply len_pos_nonnil. nia.
      * intros sz Hsz. inversion Hsz. lia.
    + destruct (vec_var_rt (serialize pv t) (deserialize pv t) (norm t) vs bs) as [D E]; auto.
      { eapply forallb_Forall; [|exact Y]. intros x Hx. apply andb_true_iff in Hx. destruct Hx as [X1 X2].
        intros b Hb. assert (Xn : x <> VNull) by (destruct x; [discriminate | | | | | | | |]; discriminate).
        destruct (IHt pv x b W X2 Xn Hb) as [D [_ S]]. split; [assumption|]. intros sz Hsz. discriminate. }
      rewrite Hn', D. cbn [obind]. split; [reflexivity | split; [intros _; auto | discriminate]].
  - (* frozen *)
    cbn [wf_type] in W. apply andb_true_iff in W. destruct W as [W0 W]. apply negb_true_iff in W0.
    assert (Hs' : serialize pv t v = Some bs) by (destruct v; [congruence | | | | | | | |]; exact Hs).
    assert (Y' : py_repr t v = true) by (destruct v; [congruence | | | | | | | |]; exact Y).
    destruct (IHt pv v bs W Y' Hn Hs') as [D [E SZ]].
    cbn [deserialize]. rewrite (wrap_from_des _ _ _ E), D.
    split; [f_equal; destruct v; try reflexivity; congruence | split; [intros _; auto | cbn [serial_size]; exact SZ]].
  - (* reversed *)
    cbn [wf_type] in W. apply andb_true_iff in W. destruct W as [W0 W]. apply negb_true_iff in W0.
    assert (Hs' : serialize pv t v = Some bs) by (destruct v; [congruence | | | | | | | |]; exact Hs).
    assert (Y' : py_repr t v = true) by (destruct v; [congruence | | | | | | | |]; exact Y).
    destruct (IHt pv v bs W Y' Hn Hs') as [D [E SZ]].
    cbn [deserialize]. rewrite (wrap_from_des _ _ _ E), D.
    split; [f_equal; destruct v; try reflexivity; congruence | split; [intros _; auto | cbn [serial_size]; exact SZ]].
Qed.

(* ------------------------------------------------------------------ statements used by Props/C01.v *)
Lemma to_binary_nonnull : forall pv t v, v <> VNull -> to_binary pv t v = serialize pv t v.
Proof. intros. unfold to_binary, wrap_to. destruct v; congruence. Qed.

Theorem roundtrip_to_from : forall pv t v bs,
  wf_type t = true -> py_repr t v = true -> v <> VNull ->
  to_binary pv t v = Some bs -> from_binary pv t bs = Some (norm t v).
Proof.
  intros pv t v bs W Y Hn H. rewrite to_binary_nonnull in H by assumption.
  destruct (roundtrip_all t pv v bs W Y Hn H) as [D [E _]].
  unfold from_binary. rewrite (wrap_from_des _ _ _ E). exact D.
Qed.

Theorem null_elements : forall pv t vs bs,
  wf_type t = true -> forallb (py_repr t) vs = true ->
  to_binary pv (TList t) (VSeq vs) = Some bs ->
  exists ws, from_binary pv (TList t) bs = Some (VSeq ws) /\ length ws = length vs /\
             forall i, nth_error vs i = Some VNull -> nth_error ws i = Some VNull.
Proof.
  intros pv t vs bs W Y H. exists (map (norm t) vs).
  split; [|split].
  - apply (roundtrip_to_from pv (TList t) (VSeq vs) bs); auto. discriminate.
  - apply map_length.
  - intros i Hi. rewrite nth_error_map, Hi. cbn. rewrite norm_null. reflexivity.
Qed.

Theorem null_fields : forall pv t1 t2 v1 bs,
  wf_type (TTuple [t1; t2]) = true -> py_repr t1 v1 = true -> v1 <> VNull ->
  to_binary pv (TTuple [t1; t2]) (VSeq [v1]) = Some bs ->
  from_binary pv (TTuple [t1; t2]) bs = Some (VSeq [norm t1 v1; VNull]).
Proof.
  intros pv t1 t2 v1 bs W Y Hn H.
  assert (N : norm (TTuple [t1; t2]) (VSeq [v1]) = VSeq [norm t1 v1; VNull]) by reflexivity.
  rewrite <- N. apply roundtrip_to_from; auto; [|discriminate].
  cbn [py_repr]. rewrite Y. reflexivity.
Qed.

Lemma pack_len_0 : forall pv, exists h, pack_len pv 0 = Some h.
Proof. intros. unfold pack_len, lenw. destruct (3 <=? pv); eexists; reflexivity. Qed.

Theorem empty_collections : forall pv t k x,
  (exists bs, to_binary pv (TList t) (VSeq []) = Some bs /\ from_binary pv (TList t) bs = Some (VSeq [])) /\
  (exists bs, to_binary pv (TSet t) (VSeq []) = Some bs /\ from_binary pv (TSet t) bs = Some (VSeq [])) /\
  (exists bs, to_binary pv (TMap k x) (VMap []) = Some bs /\ from_binary pv (TMap k x) bs = Some (VMap [])).
Proof.
  intros. destruct (pack_len_0 pv) as [h Hh].
  assert (L : to_binary pv (TList t) (VSeq []) = Some (h ++ [])).
  { unfold to_binary, wrap_to. cbn [serialize]. unfold enc_coll. change (len (@nil value)) with 0. rewrite Hh. reflexivity. }
  assert (S : to_binary pv (TSet t) (VSeq []) = Some (h ++ [])).
  { unfold to_binary, wrap_to. cbn [serialize]. unfold enc_coll. change (len (@nil value)) with 0. rewrite Hh. reflexivity. }
  assert (M : to_binary pv (TMap k x) (VMap []) = Some (h ++ [])).
  { unfold to_binary, wrap_to. cbn [serialize]. unfold enc_map. change (len (@nil (value * value))) with 0. rewrite Hh. reflexivity. }
  pose proof (pack_len_length _ _ _ Hh) as HL. pose proof (unpack_pack_len _ _ _ Hh) as HU.
  assert (NE : h ++ [] <> []) by (intro C; apply app_eq_nil in C; destruct C as [C _]; subst h; pose proof (lenw_pos pv); cbn in HL; lia).
  repeat split; eexists; (split; [eassumption|]); unfold from_binary; rewrite wrap_from_des by (intros _; exact NE);
    cbn [deserialize]; [unfold dec_coll | unfold dec_coll | unfold dec_map];
    rewrite (rd_fixed_app _ _ _ HL), HU; cbn [obind]; rewrite ?dec_items_unfold, ?dec_pairs_unfold; reflexivity.
Qed.

(* ------------------------------------------------------------------ decoded maps can be read back (OrderedMapSerializedKey) *)
Theorem map_keys_found : forall pv kt k kb,
  wf_type kt = true -> py_repr kt k = true -> k <> VNull -> norm kt k = k ->
  to_binary (inner pv) kt k = Some kb ->
  exists k', from_binary (inner pv) kt kb = Some k' /\ key_lookup_bytes pv kt k' = Some kb.
Proof.
  intros pv kt k kb W Y Hn N H. exists (norm kt k). split.
  - apply roundtrip_to_from; assumption.
  - rewrite N. unfold key_lookup_bytes. rewrite <- to_binary_nonnull by assumption. exact H.
Qed.
