(* Part B of the C32 development: the List / Future variants deliver exactly one, correct, result per statement. *)
From Coq Require Import List Bool Arith Lia Permutation Sorted Relations.
From Verif Require Import Concurrent C32_proofs.
Import ListNotations.

(* ---------- sorting by (idx, success) ---------- *)
Definition res_le (a b : res) : Prop := res_leb a b = true.

Ltac res_arith :=
  unfold res_le, res_leb in *; cbn in *;
  repeat rewrite ?orb_true_iff, ?andb_true_iff, ?orb_false_iff, ?andb_false_iff, ?Nat.ltb_lt, ?Nat.eqb_eq, ?Nat.ltb_ge, ?Nat.eqb_neq in *.

Lemma res_leb_total a b : res_leb a b = false -> res_leb b a = true.
Proof.
  destruct a as [i x], b as [j y]. unfold res_leb; cbn [fst snd].
  destruct (Nat.ltb_spec i j), (Nat.ltb_spec j i), (Nat.eqb_spec i j), (Nat.eqb_spec j i); destruct x, y; cbn; intros;
    try discriminate; try reflexivity; try lia.
Qed.

Lemma res_le_trans : forall a b c, res_le a b -> res_le b c -> res_le a c.
Proof.
  intros [i x] [j y] [k z]. unfold res_le, res_leb; cbn [fst snd].
  destruct (Nat.ltb_spec i j), (Nat.ltb_spec j k), (Nat.ltb_spec i k), (Nat.eqb_spec i j), (Nat.eqb_spec j k), (Nat.eqb_spec i k);
    destruct x, y, z; cbn; intros; try discriminate; try reflexivity; try lia.
Qed.

Lemma res_le_antisym a b : res_le a b -> res_le b a -> a = b.
Proof.
  destruct a as [i x], b as [j y]. unfold res_le, res_leb; cbn [fst snd].
  destruct (Nat.ltb_spec i j), (Nat.ltb_spec j i), (Nat.eqb_spec i j), (Nat.eqb_spec j i); destruct x, y; cbn; intros;
    try discriminate; subst; try reflexivity; try (exfalso; lia).
Qed.

Lemma insert_perm x l : Permutation (insert_res x l) (x :: l).
Proof.
  induction l as [|y l IH]; cbn; [reflexivity|]. destruct (res_leb x y); [reflexivity|].
  rewrite IH. apply perm_swap.
Qed.

Lemma sort_perm l : Permutation (sort_res l) l.
Proof. induction l as [|x l IH]; cbn; [reflexivity|]. rewrite insert_perm, IH. reflexivity. Qed.

Lemma insert_sorted x l : StronglySorted res_le l -> StronglySorted res_le (insert_res x l).
Proof.
  induction 1 as [|y l S IH F]; cbn; [repeat constructor|].
  destruct (res_leb x y) eqn:E.
  - constructor; [constructor; assumption|]. constructor; [exact E|].
    eapply Forall_impl; [|exact F]. intros z Hz. eapply res_le_trans; [exact E | exact Hz].
  - constructor; [exact IH|].
    assert (P : Permutation (insert_res x l) (x :: l)) by apply insert_perm.
    rewrite Forall_forall. intros z Hz. eapply Permutation_in in Hz; [|exact P].
    destruct Hz as [<-|Hz]; [apply res_leb_total, E | rewrite Forall_forall in F; apply F, Hz].
Qed.

Lemma sort_sorted l : StronglySorted res_le (sort_res l).
Proof. induction l; cbn; [constructor | apply insert_sorted; assumption]. Qed.

Lemma sorted_perm_eq : forall l1 l2, StronglySorted res_le l1 -> StronglySorted res_le l2 -> Permutation l1 l2 -> l1 = l2.
Proof.
  induction l1 as [|a l1 IH]; intros l2 S1 S2 P.
  - apply Permutation_nil in P. congruence.
  - destruct l2 as [|b l2]; [apply Permutation_sym, Permutation_nil in P; discriminate|].
    inversion S1 as [|? ? S1' F1]; inversion S2 as [|? ? S2' F2]; subst.
    assert (a = b).
    { assert (Ia : In a (b :: l2)) by (eapply Permutation_in; [exact P | left; reflexivity]).
      assert (Ib : In b (a :: l1)) by (eapply Permutation_in; [apply Permutation_sym; exact P | left; reflexivity]).
      destruct Ia as [->|Ia]; [reflexivity|]. destruct Ib as [->|Ib]; [reflexivity|].
      rewrite Forall_forall in F1, F2. apply res_le_antisym; [apply F1, Ib | apply F2, Ia]. }
    subst b. f_equal. apply IH; try assumption. eapply Permutation_cons_inv; exact P.
Qed.

Lemma combine_sorted : forall (l : list bool) a, StronglySorted res_le (combine (seq a (length l)) l).
Proof.
  induction l as [|b l IH]; intros a; cbn; [constructor|]. constructor; [apply IH|].
  rewrite Forall_forall. intros [i y] H. apply in_combine_l in H. apply in_seq in H. unfold res_le, res_leb; cbn [fst snd]. apply orb_true_iff; left; apply Nat.ltb_lt; lia.
Qed.

Lemma expected_sorted c : StronglySorted res_le (expected c).
Proof. unfold expected. rewrite <- (map_length ok_of (behs c)). apply combine_sorted. Qed.

Lemma in_expected_gen : forall (l : list beh) a i b, nth_error l i = Some b ->
  In (a + i, ok_of b) (combine (seq a (length l)) (map ok_of l)).
Proof.
  induction l as [|x l IH]; intros a [|i] b H; cbn in *; try discriminate.
  - inversion H; subst. left. f_equal. lia.
  - right. replace (a + S i) with (S a + i) by lia. apply IH, H.
Qed.

Lemma expected_length c : length (expected c) = length (behs c).
Proof.
  transitivity (length (combine (seq 0 (length (behs c))) (map ok_of (behs c)))); [reflexivity|].
  rewrite combine_length, seq_length, map_length. lia.
Qed.

(* ---------- the invariant ---------- *)
Definition keys (s : state) (hole : list nat) : list nat := map fst (results s) ++ inflight s ++ hole.
Definition res_ok (c : cfg) (r : res) : Prop := exists b, nth_error (behs c) (fst r) = Some b /\ snd r = ok_of b.
Definition inf_ok (c : cfg) (i : nat) : Prop := exists b, nth_error (behs c) i = Some b /\ later_ok c i = ok_of b.
Definition failed (c : cfg) (e : nat) : Prop := exists b, nth_error (behs c) e = Some b /\ ok_of b = false.

Record J (c : cfg) (hole : list nat) (s : state) : Prop := mkJ {
  j_rest : rest s = skipn (started s) (behs c);
  j_le : started s <= length (behs c);
  j_cur : current s = length (results s);
  j_keys : Permutation (keys s hole) (seq 0 (started s));
  j_res : Forall (res_ok c) (results s);
  j_inf : Forall (inf_ok c) (inflight s);
  j_exc : forall e, exc s = Some e -> In (e, false) (results s)
}.

Lemma J_ext c h s s' : rest s' = rest s -> started s' = started s -> current s' = current s -> results s' = results s ->
  inflight s' = inflight s -> exc s' = exc s -> J c h s -> J c h s'.
Proof.
  intros E1 E2 E3 E4 E5 E6 [A B C D E F G]. split; unfold keys in *; rewrite ?E1, ?E2, ?E3, ?E4, ?E5, ?E6; auto.
Qed.

Definition fut_ok (c : cfg) (f : fstate) : Prop :=
  match f with FPending => True | FResult l => ff c = false -> l = expected c | FExc e => failed c e end.

Lemma failed_of_J c h s e : J c h s -> exc s = Some e -> failed c e.
Proof.
  intros Hj He. pose proof (j_exc _ _ _ Hj e He) as I. pose proof (j_res _ _ _ Hj) as R.
  rewrite Forall_forall in R. destruct (R _ I) as (b & N & O). exists b. cbn in *. split; [exact N | congruence].
Qed.

Lemma skipn_nil_len {A} : forall k (l : list A), skipn k l = [] -> length l <= k.
Proof. induction k; destruct l; cbn; intros H; try discriminate; try lia. apply IHk in H. lia. Qed.

Lemma skipn_cons_nth {A} : forall k (l : list A) b r, skipn k l = b :: r -> nth_error l k = Some b /\ skipn (S k) l = r /\ k < length l.
Proof.
  induction k; destruct l; cbn; intros b r H; try discriminate.
  - inversion H; subst. repeat split. lia.
  - destruct (IHk _ _ _ H) as (A1 & A2 & A3). repeat split; try assumption. lia.
Qed.

(* everything delivered: the sorted queue is the expected result list *)
Lemma all_done c s : J c [] s -> started s <= current s -> (rest s = [] \/ inflight s <> []) -> sort_res (results s) = expected c.
Proof.
  intros [Hr Hle Hc Hk Hres Hinf _] Hcs Hfull.
  pose proof (Permutation_length Hk) as L. unfold keys in L. rewrite !app_length, map_length, seq_length in L. cbn in L.
  unfold res in *.
  assert (Hi : inflight s = []) by (apply length_zero_iff_nil; lia).
  destruct Hfull as [Hfull | Hfull]; [|congruence].
  rewrite Hr in Hfull. apply skipn_nil_len in Hfull.
  assert (Hn : started s = length (behs c)) by lia.
  unfold keys in Hk. rewrite Hi, !app_nil_r in Hk.
  assert (ND : NoDup (results s)).
  { apply (NoDup_map_inv fst). eapply Permutation_NoDup; [apply Permutation_sym; exact Hk | apply seq_NoDup]. }
  assert (P : Permutation (results s) (expected c)).
  { apply NoDup_Permutation_bis; [exact ND | rewrite expected_length; rewrite Hi in L; cbn in L; unfold res in *; lia |].
    intros [i ok] Hin. rewrite Forall_forall in Hres. destruct (Hres _ Hin) as (b & N & O). cbn in N, O. subst ok.
    unfold expected. apply (in_expected_gen (behs c) 0 i b N). }
  apply sorted_perm_eq; [apply sort_sorted | apply expected_sorted |]. rewrite sort_perm. exact P.
Qed.

Lemma fut_set_ok c s v : fut_ok c (fut s) -> fut_ok c v -> fut_ok c (fut (fut_set s v)).
Proof. intros H1 H2. unfold fut_set. destruct (fut s) eqn:F; cbn; rewrite ?F; assumption. Qed.

Lemma region2_ok c s : J c [] s -> (ff c = false -> rest s = [] \/ inflight s <> []) -> fut_ok c (fut s) -> fut_ok c (fut (region2 c s)).
Proof.
  intros Hj Hfull Hf. unfold region2. destruct (current s =? started s) eqn:E; [|exact Hf]. apply Nat.eqb_eq in E.
  assert (R : fut_ok c (FResult (sort_res (results s)))).
  { cbn. intros F. apply all_done; [exact Hj | lia | auto]. }
  destruct (exc s) eqn:X; [destruct (ff c) eqn:F|]; apply fut_set_ok; try assumption.
  cbn. eapply failed_of_J; eauto.
Qed.

Lemma notify_fut s : fut (notify s) = fut s.
Proof. unfold notify. destruct (pc s); reflexivity. Qed.

Lemma J_notify c h s : J c h s -> J c h (notify s).
Proof. destruct (frame_notify s) as (_ & A & B & C & D & E & F). apply J_ext; assumption. Qed.

Lemma perm_move (rs : list res) (fl : list nat) i ok :
  Permutation (map fst (rs ++ [(i, ok)]) ++ fl ++ []) (map fst rs ++ fl ++ [i]).
Proof.
  rewrite map_app, app_nil_r. cbn. rewrite <- app_assoc. apply Permutation_app_head. apply (Permutation_app_comm [i] fl).
Qed.

Ltac split4 := split; [|split; [|split]].

(* what a continuation guarantees on states whose iterator holds r' *)
Definition next_J (c : cfg) (r' : list beh) (next : nat -> state -> state * bool) : Prop :=
  forall d s, rest s = r' -> J c [] s -> fut_ok c (fut s) ->
    J c [] (fst (next d s)) /\ fut_ok c (fut (fst (next d s))) /\ (r' = [] -> rest (fst (next d s)) = [])
    /\ (ff c = false -> rest (fst (next d s)) = [] \/ length (inflight (fst (next d s))) = S (length (inflight s))).

Definition put_list (c : cfg) (next : nat -> state -> state * bool) (depth : nat) (s : state) (idx : nat) (ok : bool) : state :=
  let s1 := set_core s (rest s) (started s) (S (current s)) (results s ++ [(idx, ok)]) (exc s) (inflight s) in
  if negb ok && ff c then
    notify (set_core s1 (rest s1) (started s1) (current s1) (results s1)
                     (match exc s1 with Some e => Some e | None => Some idx end) (inflight s1))
  else
    let '(s2, r) := next depth s1 in
    if negb r && (current s2 =? started s2) then notify s2 else s2.

Lemma put_result_nongen c next d s idx ok : var c <> VGen -> put_result c next d s idx ok = put_list c next d s idx ok.
Proof. intros V. unfold put_result, put_list. destruct (var c); [reflexivity | congruence | reflexivity]. Qed.

Lemma put_list_J c next d s idx ok : next_J c (rest s) next -> J c [idx] s -> res_ok c (idx, ok) -> fut_ok c (fut s) ->
  J c [] (put_list c next d s idx ok) /\ fut_ok c (fut (put_list c next d s idx ok))
  /\ (rest s = [] -> rest (put_list c next d s idx ok) = [])
  /\ (ff c = false -> rest (put_list c next d s idx ok) = [] \/ length (inflight (put_list c next d s idx ok)) = S (length (inflight s))).
Proof.
  intros N [Hr Hle Hc Hk Hres Hinf Hexc] Hok Hf. unfold put_list.
  set (s1 := set_core s (rest s) (started s) (S (current s)) (results s ++ [(idx, ok)]) (exc s) (inflight s)).
  assert (J1 : J c [] s1).
  { split; cbn; try assumption.
    - rewrite app_length. cbn. lia.
    - unfold keys in *. cbn. rewrite perm_move. exact Hk.
    - apply Forall_app. split; [assumption | constructor; [exact Hok | constructor]].
    - intros e He. apply in_or_app. left. apply Hexc, He. }
  destruct (negb ok && ff c) eqn:B.
  - apply andb_true_iff in B. destruct B as [B1 B2]. apply negb_true_iff in B1. subst ok.
    match goal with |- context [notify ?x] => set (s2 := x) end.
    assert (J2 : J c [] s2).
    { destruct J1 as [A1 A2 A3 A4 A5 A6 A7]. split; cbn in *; try assumption.
      intros e He. destruct (exc s) eqn:X; [apply A7; congruence|]. inversion He; subst. apply in_or_app. right. left. reflexivity. }
    destruct (frame_notify s2) as (_ & I1 & I2 & _).
    split4.
    + apply J_notify, J2.
    + rewrite notify_fut. exact Hf.
    + intros E. rewrite I2. exact E.
    + intros F. congruence.
  - specialize (N d s1 eq_refl J1 Hf). destruct (next d s1) as [s2 r]. cbn [fst] in N.
    destruct N as (J2 & F2 & R2 & G2).
    destruct (negb r && (current s2 =? started s2)).
    + destruct (frame_notify s2) as (_ & I1 & I2 & _). split4.
      * apply J_notify, J2.
      * rewrite notify_fut. exact F2.
      * intros E. rewrite I2. apply R2, E.
      * intros F. rewrite I1, I2. apply G2, F.
    + split4; assumption.
Qed.

Lemma put_nested_J c next d s idx ok : var c <> VGen -> next_J c (rest s) next -> J c [idx] s -> res_ok c (idx, ok) -> fut_ok c (fut s) ->
  let s' := put_result_nested c next d s idx ok in
  J c [] s' /\ fut_ok c (fut s') /\ (rest s = [] -> rest s' = [])
  /\ (ff c = false -> rest s' = [] \/ length (inflight s') = S (length (inflight s))).
Proof.
  intros V N Hj Hok Hf. unfold put_result_nested. rewrite (put_result_nongen _ _ _ _ _ _ V).
  destruct (put_list_J c next d s idx ok N Hj Hok Hf) as (J1 & F1 & R1 & G1).
  destruct (var c); try (split4; assumption).
  destruct (frame_region2 c (put_list c next d s idx ok)) as (_ & I1 & I2 & I3 & I4 & I5 & I6).
  split4.
  - eapply J_ext; eauto.
  - apply region2_ok; [exact J1 | | exact F1]. intros F. destruct (G1 F) as [G|G]; [left; exact G | right].
    intros E. rewrite E in G. cbn in G. lia.
  - intros E. rewrite I2. apply R1, E.
  - intros F. rewrite I1, I2. apply G1, F.
Qed.

Lemma later_inf_ok c i b : nth_error (behs c) i = Some b -> ok_of b = false \/ b = BLaterOk -> b <> BSyncErr -> inf_ok c i.
Proof.
  intros N H X. exists b. split; [exact N|]. unfold later_ok. rewrite N. destruct b; cbn in *; try reflexivity; destruct H; congruence.
Qed.

Lemma exec_next_J c : var c <> VGen -> forall r, next_J c r (exec_next c r).
Proof.
  intros V. induction r as [|b r' IH]; intros d s Hrest Hj Hf; cbn [exec_next fst].
  - split4; try assumption; [intros _; exact Hrest | intros _; left; exact Hrest].
  - pose proof Hj as [Hr Hle Hc Hk Hres Hinf Hexc].
    rewrite Hrest in Hr. symmetry in Hr. destruct (skipn_cons_nth _ _ _ _ Hr) as (Nth & Sk & Lt).
    set (s1 := set_core s r' (S (started s)) (current s) (results s) (exc s) (inflight s)).
    assert (J1 : J c [started s] s1).
    { unfold s1. split; cbn [set_core rest started current results exc inflight]; try assumption; [symmetry; exact Sk |].
      unfold keys in *. cbn [set_core results inflight]. rewrite app_nil_r in Hk. rewrite seq_S. cbn [Nat.add].
      rewrite app_assoc. apply Permutation_app_tail. exact Hk. }
    assert (Later : (ok_of b = false \/ b = BLaterOk) -> b <> BSyncErr ->
       let s2 := set_core s1 (rest s1) (started s1) (current s1) (results s1) (exc s1) (inflight s1 ++ [started s]) in
       J c [] s2 /\ fut_ok c (fut s2) /\ (b :: r' = [] -> rest s2 = [])
       /\ (ff c = false -> rest s2 = [] \/ length (inflight s2) = S (length (inflight s)))).
    { intros HL HX. destruct J1 as [A1 A2 A3 A4 A5 A6 A7]. repeat split; cbn in *; try assumption; try discriminate.
      - unfold keys in *. cbn in *. rewrite app_nil_r. exact A4.
      - apply Forall_app. split; [assumption | constructor; [eapply later_inf_ok; eauto | constructor]].
      - intros _. right. rewrite app_length. cbn. lia. }
    assert (Sync : forall ok, ok = ok_of b ->
       let s2 := put_result_nested c (exec_next c r') (S d) s1 (started s) ok in
       J c [] s2 /\ fut_ok c (fut s2) /\ (b :: r' = [] -> rest s2 = [])
       /\ (ff c = false -> rest s2 = [] \/ length (inflight s2) = S (length (inflight s)))).
    { intros ok Hok. destruct (put_nested_J c (exec_next c r') (S d) s1 (started s) ok V IH J1) as (A & B & _ & D).
      - exists b. split; [exact Nth | exact Hok].
      - exact Hf.
      - split4; try assumption; discriminate. }
    destruct b.
    + destruct (S d <? maxrec c); [apply (Sync false eq_refl) | apply Later; [left; reflexivity | discriminate]].
    + apply (Sync true eq_refl).
    + apply (Sync false eq_refl).
    + apply Later; [right; reflexivity | discriminate].
    + apply Later; [left; reflexivity | discriminate].
Qed.

Lemma start_loop_J c : var c <> VGen -> forall k s, J c [] s -> fut_ok c (fut s) ->
  J c [] (start_loop c k s) /\ fut_ok c (fut (start_loop c k s)) /\ (rest s = [] -> rest (start_loop c k s) = [])
  /\ (ff c = false -> rest (start_loop c k s) = [] \/ length (inflight (start_loop c k s)) = k + length (inflight s)).
Proof.
  intros V. induction k as [|k IH]; intros s Hj Hf; cbn [start_loop].
  - split4; try assumption; auto.
  - unfold exec_next_top. pose proof (exec_next_J c V (rest s) 0 s eq_refl Hj Hf) as N.
    pose proof (exec_next_false c (rest s) 0 s) as Fl.
    destruct (exec_next c (rest s) 0 s) as [s1 r]. cbn [fst snd] in *. destruct N as (J1 & F1 & R1 & G1).
    destruct r.
    + destruct (IH s1 J1 F1) as (J2 & F2 & R2 & G2). split4; try assumption.
      * intros E. apply R2, R1, E.
      * intros F. destruct (G1 F) as [G|G]; [left; apply R2, G|]. destruct (G2 F) as [G'|G']; [left; exact G' | right; lia].
    + destruct (Fl eq_refl) as [E1 E2]. subst s1. split4; try assumption; auto.
Qed.

(* ---------- top level ---------- *)
Definition outcome_ok (c : cfg) (o : outcome) : Prop :=
  match o with Return l => ff c = false -> l = expected c | RaiseExc e => failed c e end.
Definition pc_ok (c : cfg) (p : mainpc) : Prop := match p with MRet o | MFin o => outcome_ok c o | _ => True end.

Record Inv (c : cfg) (s : state) : Prop := mkInv {
  i_J : J c [] s;
  i_fut : fut_ok c (fut s);
  i_full : ff c = false -> pc s <> MInit -> rest s = [] \/ length (inflight s) = conc c;
  i_init : pc s = MInit -> inflight s = [] /\ pend2 s = [];
  i_pc : pc_ok c (pc s);
  i_ny : pc s <> MYield
}.

Lemma mem_in i l : mem i l = true -> In i l.
Proof. induction l as [|x l IH]; cbn; [discriminate|]. destruct (x =? i) eqn:E; [apply Nat.eqb_eq in E; auto | auto]. Qed.

Lemma remove_perm i l : mem i l = true -> Permutation (remove_first i l ++ [i]) l.
Proof.
  induction l as [|x l IH]; cbn; [discriminate|]. destruct (x =? i) eqn:E.
  - apply Nat.eqb_eq in E. subst x. intros _. apply Permutation_sym, Permutation_cons_append.
  - cbn. intros H. constructor. apply IH, H.
Qed.

Lemma remove_incl i l x : In x (remove_first i l) -> In x l.
Proof. induction l as [|y l IH]; cbn; [auto|]. destruct (y =? i); cbn; intuition. Qed.

Lemma finish_ok c s : 0 < conc c -> Inv c s -> pc s <> MInit -> started s <= current s -> pc_ok c (pc (finish_list c s)).
Proof.
  intros Hc [Hj Hf Hfull _ _ _] Hp Hcs. unfold finish_list.
  assert (R : outcome_ok c (Return (sort_res (results s)))).
  { cbn. intros F. apply all_done; [exact Hj | exact Hcs |]. destruct (Hfull F Hp) as [G|G]; [left; exact G | right].
    intros E. rewrite E in G. cbn in G. lia. }
  destruct (exc s) eqn:X; [destruct (ff c)|]; cbn; try exact R. eapply failed_of_J; eauto.
Qed.

Lemma Inv_set_pc c s p nt : Inv c s -> pc s <> MInit -> pc_ok c p -> p <> MYield -> p <> MInit -> Inv c (set_pc s p nt).
Proof.
  intros [Hj Hf Hfull Hi Hp Hy] Hn Hok Hny Hni. split; cbn; try assumption.
  - eapply J_ext; [| | | | | | exact Hj]; reflexivity.
  - intros F _. apply Hfull; assumption.
  - intros E. congruence.
Qed.

Lemma results_list_Inv c s : 0 < conc c -> Inv c s -> pc s <> MInit -> Inv c (results_list c s).
Proof.
  intros Hc HI Hn. unfold results_list. destruct (current s <? started s) eqn:E.
  - apply Inv_set_pc; try assumption; cbn; auto; discriminate.
  - apply Nat.ltb_ge in E. pose proof (finish_ok c s Hc HI Hn E) as P. unfold finish_list in *.
    destruct (exc s); [destruct (ff c)|]; apply Inv_set_pc; try assumption; try discriminate.
Qed.

Lemma step_Inv c s o : var c <> VGen -> 0 < conc c -> Inv c s -> Inv c (step c s o).
Proof.
  intros V Hc HI. pose proof HI as [Hj Hf Hfull Hi Hp Hy]. destruct o; cbn [step].
  - (* MainStep *)
    unfold main_step. destruct (pc s) eqn:P.
    + destruct (Hi eq_refl) as [Hi1 Hi2].
      destruct (start_loop_J c V (conc c) s Hj Hf) as (J1 & F1 & _ & G1).
      destruct (start_loop_frame c (conc c) s) as [Fr _].
      split; cbn; try assumption; try discriminate.
      * eapply J_ext; [| | | | | | exact J1]; reflexivity.
      * intros F _. destruct (G1 F) as [G|G]; [left; exact G | right]. rewrite G, Hi1. cbn. lia.
    + destruct (var c); [| congruence |]; apply results_list_Inv; try assumption; congruence.
    + destruct (notified s); [|exact HI].
      assert (R : Inv c (match exc s, ff c with Some e, true => set_pc s (MRet (RaiseExc e)) false | _, _ => results_list c s end)).
      { destruct (exc s) eqn:X; [destruct (ff c)|]; try (apply results_list_Inv; try assumption; congruence).
        apply Inv_set_pc; try assumption; try congruence; try discriminate. cbn. eapply failed_of_J; eauto. }
      destruct (var c); [exact R | congruence | exact R].
    + congruence.
    + destruct (var c); [exact HI | congruence |].
      assert (Q : outcome_ok c o) by exact Hp.
      assert (K : forall v, fut_ok c v -> Inv c (set_pc (fut_set s v) (MFin o) false)).
      { intros v Hv. destruct (frame_fut_set s v) as (Fr & I1 & I2 & I3 & I4 & I5 & I6).
        split; cbn.
        - eapply J_ext; [| | | | | | exact Hj]; cbn; congruence.
        - apply fut_set_ok; assumption.
        - intros F _. rewrite I1, I2. apply Hfull; [exact F | congruence].
        - discriminate.
        - exact Q.
        - discriminate. }
      destruct o; apply K; exact Q.
    + exact HI.
  - (* Complete *)
    destruct (mem i (inflight s)) eqn:M; [|exact HI].
    assert (Hn : pc s <> MInit). { intros E. destruct (Hi E) as [E1 _]. rewrite E1 in M. discriminate. }
    set (s0 := set_core s (rest s) (started s) (current s) (results s) (exc s) (remove_first i (inflight s))).
    pose proof Hj as [A1 A2 A3 A4 A5 A6 A7].
    assert (J0 : J c [i] s0).
    { split; cbn; try assumption.
      - unfold keys in *. cbn. rewrite app_nil_r in A4. rewrite (remove_perm i _ M). exact A4.
      - rewrite Forall_forall in *. intros x Hx. apply A6. eapply remove_incl; eauto. }
    assert (Rk : res_ok c (i, later_ok c i)).
    { rewrite Forall_forall in A6. destruct (A6 i (mem_in _ _ M)) as (b & N1 & N2). exists b. auto. }
    assert (NJ : next_J c (rest s0) (exec_next_top c)).
    { intros d x Hx. unfold exec_next_top. rewrite Hx. exact (exec_next_J c V (rest s0) d x Hx). }
    rewrite (put_result_nongen _ _ _ _ _ _ V).
    destruct (put_list_J c (exec_next_top c) 0 s0 i (later_ok c i) NJ J0 Rk Hf) as (J1 & F1 & R1 & G1).
    destruct (put_result_frame c (exec_next_top c) 0 s0 i (later_ok c i)) as [Fr _]; [intros d x; apply exec_next_ok|].
    rewrite (put_result_nongen _ _ _ _ _ _ V) in Fr.
    pose proof (mem_remove_length i _ M) as ML.
    set (s1 := put_list c (exec_next_top c) 0 s0 i (later_ok c i)) in *.
    assert (P1 : pc s1 = pc s) by (rewrite (fr_pc _ _ Fr); reflexivity).
    assert (Full : ff c = false -> rest s1 = [] \/ length (inflight s1) = conc c).
    { intros F. destruct (Hfull F Hn) as [G|G]; [left; apply R1, G|]. destruct (G1 F) as [G'|G']; [left; exact G' | right]. cbn in G'. lia. }
    assert (K : Inv c s1).
    { split; try assumption; try congruence.
      intros F _. apply Full, F. }
    destruct (var c); [exact K | congruence |].
    destruct K as [K1 K2 K3 K4 K5 K6]. split; cbn; try assumption.
    + eapply J_ext; [| | | | | | exact K1]; reflexivity.
    + intros E. congruence.
  - (* Finish2 *)
    destruct (mem i (pend2 s)) eqn:M; [|exact HI].
    assert (Hn : pc s <> MInit). { intros E. destruct (Hi E) as [_ E2]. rewrite E2 in M. discriminate. }
    destruct (frame_region2 c s) as (Fr & I1 & I2 & I3 & I4 & I5 & I6).
    split; cbn.
    + eapply J_ext; [| | | | | | exact Hj]; cbn; congruence.
    + apply region2_ok; try assumption. intros F. destruct (Hfull F Hn) as [G|G]; [left; exact G | right].
      intros E. rewrite E in G. cbn in G. lia.
    + intros F _. rewrite I1, I2. apply Hfull; assumption.
    + rewrite (fr_pc _ _ Fr). intros E. congruence.
    + rewrite (fr_pc _ _ Fr). exact Hp.
    + rewrite (fr_pc _ _ Fr). exact Hy.
Qed.

Lemma Inv_init c : Inv c (init c).
Proof.
  split; cbn; try discriminate; auto.
  - split; cbn; auto; try lia; try discriminate.
  - intros _ H. congruence.
Qed.

Lemma Inv_run c ops : var c <> VGen -> 0 < conc c -> Inv c (run c ops).
Proof. intros V Hc. apply (@run_inv (Inv c) c); [apply Inv_init | intros; apply step_Inv; assumption]. Qed.
