(* C04 proofs, part 4: the process-global UDT class cache (UserType._cache) never changes what a frame decodes to. *)
From Coq Require Import ZArith List Bool Lia ZifyBool String Ascii.
From Verif Require Import Response ResponseSpec C04_proofs C04_frame_proofs.
Import ListNotations.
Local Open Scope Z_scope.

Lemma lst_eqb_eq : forall {A} (e : A -> A -> bool) (a b : list A),
  (forall x y, In x a -> e x y = true -> x = y) -> lst_eqb e a b = true -> a = b.
Proof.
  intros A e a. induction a as [|x a IH]; intros [|y b] H E; cbn in E; try discriminate; [reflexivity|].
  apply andb_prop in E. destruct E as [E1 E2].
  f_equal; [apply H; [left; reflexivity|exact E1]|apply IH; [intros; apply H; [right|]; assumption|exact E2]].
Qed.

Lemma cqlt_eqb_eq : forall a b, cqlt_eqb a b = true -> a = b.
Proof.
  intros a. induction a using cqlt_ind'; intros [] E; cbn [cqlt_eqb] in E; try discriminate.
  - apply list_eqb_eq in E. subst. reflexivity.
  - apply Z.eqb_eq in E. subst. reflexivity.
  - f_equal. auto.
  - f_equal. auto.
  - apply andb_prop in E. destruct E. f_equal; auto.
  - apply andb_prop in E. destruct E as [E E3]. apply andb_prop in E. destruct E as [E1 E2].
    apply list_eqb_eq in E1. apply list_eqb_eq in E2. subst. f_equal.
    apply (lst_eqb_eq _ _ _) in E3; [exact E3|].
    intros [n t] [n' t'] Hin Q. cbn [fst snd] in Q. apply andb_prop in Q. destruct Q as [Q1 Q2].
    apply list_eqb_eq in Q1. subst. f_equal. rewrite Forall_forall in H. exact (H _ Hin _ Q2).
  - f_equal. apply (lst_eqb_eq _ _ _) in E; [exact E|]. rewrite Forall_forall in H. intros x y Hin Q. exact (H _ Hin _ Q).
Qed.

Lemma split_eq : forall {A B} (a b : list (A * B)), map fst a = map fst b -> map snd a = map snd b -> a = b.
Proof.
  intros A B a. induction a as [|[x y] a IH]; intros [|[x' y'] b] F S; cbn in *; try discriminate; [reflexivity|].
  inversion F. inversion S. subst. f_equal. auto.
Qed.

(* with the subtypes test, make_udt_class always hands out a class with exactly the fields just read *)
Lemma make_udt_class_exact : forall c ks nm fs, fst (make_udt_class true c ks nm fs) = TUdt ks nm fs.
Proof.
  intros. unfold make_udt_class. destruct (cache_get c ks nm) as [inst|]; [|reflexivity].
  destruct (lst_eqb list_eqb (map fst inst) (map fst fs) && (negb true || lst_eqb cqlt_eqb (map snd inst) (map snd fs))) eqn:E;
    [|reflexivity].
  apply andb_prop in E. destruct E as [E1 E2]. cbn [negb orb] in E2. cbn [fst]. f_equal. apply split_eq.
  - apply (lst_eqb_eq _ _ _) in E1; [exact E1|]. intros x y _ Q. apply list_eqb_eq. exact Q.
  - apply (lst_eqb_eq _ _ _) in E2; [exact E2|]. intros x y _ Q. apply cqlt_eqb_eq. exact Q.
Qed.

Lemma map_st_fst : forall {A B S} (f : S -> A -> B * S) (g : A -> B) l,
  (forall x, In x l -> forall s, fst (f s x) = g x) -> forall s, fst (map_st f s l) = map g l.
Proof.
  intros A B S f g l. induction l as [|x l IH]; intros H s; [reflexivity|].
  cbn [map]. change (map_st f s (x :: l)) with (let (y, s1) := f s x in let (r', s2) := map_st f s1 l in (y :: r', s2)).
  pose proof (H x (or_introl eq_refl) s) as Hx. destruct (f s x) as [y s1]. cbn [fst] in Hx. subst y.
  specialize (IH (fun z Hz => H z (or_intror Hz)) s1). destruct (map_st f s1 l) as [r' s2].
  cbn [fst] in *. subst. reflexivity.
Qed.

Lemma intern_id : forall t c, fst (intern true c t) = t.
Proof.
  intros t. induction t using cqlt_ind'; intros c0; cbn [intern]; try reflexivity.
  - specialize (IHt c0). destruct (intern true c0 t). cbn [fst] in *. subst. reflexivity.
  - specialize (IHt c0). destruct (intern true c0 t). cbn [fst] in *. subst. reflexivity.
  - specialize (IHt1 c0). destruct (intern true c0 t1) as [k' c1]. specialize (IHt2 c1). destruct (intern true c1 t2).
    cbn [fst] in *. subst. reflexivity.
  - pose proof (map_st_fst (fun c p => let (t', c1) := intern true c (snd p) in ((fst p, t'), c1)) (fun p => p) fs) as M.
    rewrite map_id in M.
    assert (Hf : forall x, In x fs -> forall s, fst (let (t', c1) := intern true s (snd x) in ((fst x, t'), c1)) = x).
    { intros [n t] Hin s. rewrite Forall_forall in H. specialize (H _ Hin s). cbn [fst snd] in *.
      destruct (intern true s t). cbn [fst] in *. subst. reflexivity. }
    specialize (M Hf c0). destruct (map_st _ c0 fs) as [fs' c']. cbn [fst] in M. subst fs'. apply make_udt_class_exact.
  - pose proof (map_st_fst (intern true) (fun p => p) ts) as M. rewrite map_id in M.
    rewrite Forall_forall in H. specialize (M (fun x Hin s => H x Hin s) c0).
    destruct (map_st (intern true) c0 ts) as [ts' c']. cbn [fst] in *. subst. reflexivity.
Qed.

Lemma intern_cols_id : forall l c, fst (intern_cols true c l) = l.
Proof.
  intros l c. unfold intern_cols. rewrite (map_st_fst _ (fun p => p)); [apply map_id|].
  intros [k t n ty] _ s. cbn [c_ks c_tbl c_name c_type]. pose proof (intern_id ty s) as I.
  destruct (intern true s ty). cbn [fst] in *. subst. reflexivity.
Qed.

Lemma intern_ocols_id : forall o c, fst (intern_ocols true c o) = o.
Proof.
  intros [l|] c; [|reflexivity]. unfold intern_ocols. pose proof (intern_cols_id l c) as I.
  destruct (intern_cols true c l). cbn [fst] in *. subst. reflexivity.
Qed.

Definition rmsg_consistent (r : rmsg) : Prop :=
  match r_coltypes r, r_colmeta r with Some ts, Some (x :: l) => ts = map c_type (x :: l) | _, _ => True end.

Lemma intern_rmsg_id : forall r c, rmsg_consistent r -> fst (intern_rmsg true c r) = r.
Proof.
  intros r c K. unfold intern_rmsg.
  pose proof (intern_ocols_id (r_bind r) c) as I1. destruct (intern_ocols true c (r_bind r)) as [b' c1].
  pose proof (intern_ocols_id (r_colmeta r) c1) as I2. destruct (intern_ocols true c1 (r_colmeta r)) as [m' c2].
  cbn [fst] in *. subst. unfold rmsg_consistent in K. destruct r. cbn in *.
  destruct r_coltypes as [ts|]; [|reflexivity]. destruct r_colmeta as [[|x l]|]; try reflexivity. subst ts. reflexivity.
Qed.

Lemma exact_result_consistent : forall rm r, rmsg_consistent (exact_result rm r).
Proof.
  intros rm r. unfold rmsg_consistent. destruct r; cbn; try exact I;
    repeat (match goal with |- context [match ?x with _ => _ end] => destruct x; cbn end); try exact I; reflexivity.
Qed.

Lemma decode_st_exact : forall c pv rm stream r,
  wf_response pv rm r = true ->
  fst (decode_message_st true c pv rm stream (spec_flags r) (spec_opcode r) (spec_body pv r)) = Some (exact pv rm stream r).
Proof.
  intros c pv rm stream r W. unfold decode_message_st. rewrite (decode_exact pv rm stream r W).
  unfold exact. cbn [m_body m_stream m_trace m_warnings m_payload].
  destruct (rs_body r) eqn:B; cbn [exact_body]; try reflexivity.
  pose proof (intern_rmsg_id (exact_result rm r0) c (exact_result_consistent rm r0)) as I.
  destruct (intern_rmsg true c (exact_result rm r0)) as [r' c']. cbn [fst] in *. subst. reflexivity.
Qed.

Definition frame_of (pv : Z) (rm : option (list colspec)) (stream : Z) (r : response) : frame :=
  mkframe pv rm stream (spec_flags r) (spec_opcode r) (spec_body pv r).

(* any history of well-formed frames, from any cache state: every frame decodes to exactly its own contents *)
Lemma history_exact : forall (h : list (Z * option (list colspec) * Z * response)) c,
  Forall (fun x => let '(pv, rm, stream, r) := x in wf_response pv rm r = true) h ->
  decode_history true c (map (fun x => let '(pv, rm, stream, r) := x in frame_of pv rm stream r) h)
  = map (fun x => let '(pv, rm, stream, r) := x in Some (exact pv rm stream r)) h.
Proof.
  induction h as [|[[[pv rm] stream] r] h IH]; intros c F; [reflexivity|].
  inversion F as [|? ? W F']. subst. cbn [map decode_history frame_of f_pv f_rm f_stream f_flags f_opcode f_body].
  pose proof (decode_st_exact c pv rm stream r W) as D.
  destruct (decode_message_st true c pv rm stream (spec_flags r) (spec_opcode r) (spec_body pv r)) as [m c'].
  cbn [fst] in D. subst m. f_equal. apply IH. exact F'.
Qed.
