(* Lemmas for C43 (schema agreement).  Model: Model/SchemaAgreement.v *)
From Coq Require Import ZArith List Bool Lia ZifyBool.
From Verif Require Import SchemaAgreement.
Import ListNotations.
Local Open Scope Z_scope.

(* ------------------------------------------------------------------ specification side *)
(* version v is reported by the control node, or by a peer row whose endpoint is a known host not marked down *)
Definition reported (h : hoststates) (s : snapshot) (v : Z) : Prop :=
  s_local s = Some (Some v) \/ exists e, In (e, Some v) (s_peers s) /\ counted h e = true.

(* DESIGN 4.0: exactly one distinct non-empty version among the control node and the counted peers *)
Definition single_version (h : hoststates) (s : snapshot) : Prop :=
  exists v, reported h s v /\ forall w, reported h s w -> w = v.

Lemma existsb_eqb_In : forall v l, existsb (Z.eqb v) l = true <-> In v l.
Proof.
  intros v l. rewrite existsb_exists. split.
  - intros [x [Hin Heq]]. apply Z.eqb_eq in Heq. subst. exact Hin.
  - intros Hin. exists v. split; [exact Hin | apply Z.eqb_refl].
Qed.

Lemma add_version_In : forall v w l, In w (add_version v l) <-> w = v \/ In w l.
Proof.
  intros v w l. unfold add_version. destruct (existsb (Z.eqb v) l) eqn:E.
  - apply existsb_eqb_In in E. split; [tauto|]. intros [->|H]; assumption.
  - rewrite in_app_iff. simpl. split; intros H; [destruct H as [H|[H|[]]]; auto | destruct H as [H|H]; auto].
Qed.

Lemma add_version_NoDup : forall v l, NoDup l -> NoDup (add_version v l).
Proof.
  intros v l H. unfold add_version. destruct (existsb (Z.eqb v) l) eqn:E; [exact H|].
  assert (Hn : ~ In v l). { intro Hin. apply existsb_eqb_In in Hin. congruence. }
  clear E. induction H as [|x l Hx Hl IH]; simpl.
  - constructor; [intros []|constructor].
  - constructor.
    + rewrite in_app_iff. simpl. intros [H|[H|[]]]; [exact (Hx H)|]. subst. apply Hn. left. reflexivity.
    + apply IH. intro Hin. apply Hn. right. exact Hin.
Qed.

Lemma peer_versions_In : forall h rows acc w,
  In w (peer_versions h rows acc) <-> In w acc \/ exists e, In (e, Some w) rows /\ counted h e = true.
Proof.
  intros h rows. induction rows as [|[e ov] r IH]; intros acc w; simpl.
  - split; [auto|]. intros [H|[e [[] _]]]. exact H.
  - destruct ov as [v|].
    + destruct (counted h e) eqn:Ec.
      * rewrite IH. rewrite add_version_In. split.
        -- intros [[->|H]|[e' [Hin Hc]]]; [right; exists e; split; [left; reflexivity|exact Ec] | left; exact H | right; exists e'; split; [right; exact Hin|exact Hc]].
        -- intros [H|[e' [[Heq|Hin] Hc]]]; [left; right; exact H | injection Heq as -> ->; left; left; reflexivity | right; exists e'; split; assumption].
      * rewrite IH. split.
        -- intros [H|[e' [Hin Hc]]]; [left; exact H | right; exists e'; split; [right; exact Hin|exact Hc]].
        -- intros [H|[e' [[Heq|Hin] Hc]]]; [left; exact H | injection Heq as -> ->; congruence | right; exists e'; split; assumption].
    + rewrite IH. split.
      * intros [H|[e' [Hin Hc]]]; [left; exact H | right; exists e'; split; [right; exact Hin|exact Hc]].
      * intros [H|[e' [[Heq|Hin] Hc]]]; [left; exact H | discriminate Heq | right; exists e'; split; assumption].
Qed.

Lemma peer_versions_NoDup : forall h rows acc, NoDup acc -> NoDup (peer_versions h rows acc).
Proof.
  intros h rows. induction rows as [|[e ov] r IH]; intros acc H; simpl; [exact H|].
  destruct ov as [v|]; [|apply IH; exact H].
  destruct (counted h e); apply IH; [apply add_version_NoDup|]; exact H.
Qed.

Lemma local_versions_In : forall s w, In w (local_versions s) <-> s_local s = Some (Some w).
Proof.
  intros s w. unfold local_versions. destruct (s_local s) as [[v|]|]; simpl; split; intros H.
  - destruct H as [->|[]]. reflexivity.
  - injection H as ->. left. reflexivity.
  - destruct H.
  - discriminate H.
  - destruct H.
  - discriminate H.
Qed.

Lemma local_versions_NoDup : forall s, NoDup (local_versions s).
Proof.
  intros s. unfold local_versions. destruct (s_local s) as [[v|]|]; repeat constructor. intros [].
Qed.

Lemma versions_In : forall h s w, In w (versions h s) <-> reported h s w.
Proof.
  intros h s w. unfold versions, reported. rewrite peer_versions_In, local_versions_In. tauto.
Qed.

Lemma versions_NoDup : forall h s, NoDup (versions h s).
Proof. intros h s. apply peer_versions_NoDup, local_versions_NoDup. Qed.

Lemma NoDup_length_one : forall (l : list Z), NoDup l ->
  (length l = 1%nat <-> exists v, In v l /\ forall w, In w l -> w = v).
Proof.
  intros l Hnd. split.
  - destruct l as [|a [|b t]]; simpl; intros H; try discriminate H.
    exists a. split; [left; reflexivity|]. intros w [->|[]]. reflexivity.
  - intros [v [Hin Hall]]. destruct l as [|a [|b t]]; [destruct Hin | reflexivity |].
    exfalso. assert (a = v) by (apply Hall; left; reflexivity).
    assert (b = v) by (apply Hall; right; left; reflexivity). subst.
    inversion Hnd as [|x l' Hx _]. apply Hx. left. reflexivity.
Qed.

(* _get_schema_mismatches returns None exactly when a single version is reported *)
Lemma agreed_spec : forall h s, agreed h s = true <-> single_version h s.
Proof.
  intros h s. unfold agreed, single_version. rewrite Nat.eqb_eq.
  rewrite (NoDup_length_one _ (versions_NoDup h s)).
  split; intros [v [H1 H2]]; exists v; (split; [apply versions_In; exact H1|]); intros w Hw; apply H2; apply versions_In; exact Hw.
Qed.

Lemma agreed_zero_versions : forall h s, (forall v, ~ reported h s v) -> agreed h s = false.
Proof.
  intros h s H. destruct (agreed h s) eqn:E; [|reflexivity].
  apply agreed_spec in E. destruct E as [v [Hv _]]. exfalso. exact (H v Hv).
Qed.

(* ------------------------------------------------------------------ the loop *)
(* result (without the event trace) of the loop, one equation per case *)
Lemma loop_nil : forall c k e, snd (loop c k e []) = if e <? budget c then More k e else Disagreed e.
Proof. intros. simpl. destruct (e <? budget c); reflexivity. Qed.

Lemma loop_cons : forall c k e p rest, snd (loop c k e (p :: rest)) =
  if e <? budget c then
    match snd (poll_step c k e p) with
    | Return o => o
    | Continue e' => snd (loop c (S k) e' rest)
    end
  else Disagreed e.
Proof.
  intros. simpl. destruct (e <? budget c); [|reflexivity].
  destruct (poll_step c k e p) as [ev [e'|o]]; simpl; [|reflexivity].
  destruct (loop c (S k) e' rest); reflexivity.
Qed.

(* facts about one iteration *)
Lemma step_return_cases : forall c k e p o, snd (poll_step c k e p) = Return o ->
  (o = Agreed k /\ exists s, p_resp p = RSnap s /\ agreed (p_hosts p) s = true) \/
  (exists sd, p_resp p = RShutdown sd /\ o = if sd then Aborted else Raised).
Proof.
  intros c k e p o H. unfold poll_step in H. destruct (p_resp p) as [|sd|s]; simpl in H.
  - discriminate H.
  - injection H as <-. right. exists sd. split; reflexivity.
  - destruct (agreed (p_hosts p) s) eqn:Ea; simpl in H; [|discriminate H].
    injection H as <-. left. split; [reflexivity|]. exists s. split; [reflexivity|exact Ea].
Qed.

Lemma step_agreed_iff : forall c k e p,
  snd (poll_step c k e p) = Return (Agreed k) <-> exists s, p_resp p = RSnap s /\ agreed (p_hosts p) s = true.
Proof.
  intros c k e p. split.
  - intros H. apply step_return_cases in H. destruct H as [[_ H]|[sd [_ H]]]; [exact H|destruct sd; discriminate H].
  - intros [s [Hs Ha]]. unfold poll_step. rewrite Hs, Ha. reflexivity.
Qed.

Lemma step_continue_cases : forall c k e p e', snd (poll_step c k e p) = Continue e' ->
  (p_resp p = RTimeout /\ e' = e + Z.min (qtimeout c) (budget c - e)) \/
  (exists s, p_resp p = RSnap s /\ agreed (p_hosts p) s = false /\ e' = e + p_dur p + sleep_ms).
Proof.
  intros c k e p e' H. unfold poll_step in H. destruct (p_resp p) as [|sd|s]; simpl in H.
  - injection H as <-. left. split; reflexivity.
  - discriminate H.
  - destruct (agreed (p_hosts p) s) eqn:Ea; simpl in H; [discriminate H|].
    injection H as <-. right. exists s. repeat split. exact Ea.
Qed.

(* a script that ended with the loop asking for poll k' at elapsed e' can be continued from exactly there *)
Lemma loop_app : forall c pre k e k' e' l,
  snd (loop c k e pre) = More k' e' ->
  snd (loop c k e (pre ++ l)) = snd (loop c k' e' l).
Proof.
  intros c pre. induction pre as [|p pre IH]; intros k e k' e' l H.
  - rewrite loop_nil in H. simpl app. destruct (e <? budget c); [|discriminate H]. injection H as -> ->. reflexivity.
  - rewrite loop_cons in H. simpl app. rewrite loop_cons.
    destruct (e <? budget c); [|discriminate H].
    destruct (snd (poll_step c k e p)) as [e1|o] eqn:Es.
    + apply IH. exact H.
    + exfalso. subst o. apply step_return_cases in Es.
      destruct Es as [[Es _]|[sd [_ Es]]]; [discriminate Es|destruct sd; discriminate Es].
Qed.

Lemma loop_More_lt : forall c polls k e k' e', snd (loop c k e polls) = More k' e' -> e' < budget c.
Proof.
  intros c polls. induction polls as [|p r IH]; intros k e k' e' H.
  - rewrite loop_nil in H. destruct (e <? budget c) eqn:Eb; [|discriminate H]. injection H as _ <-. lia.
  - rewrite loop_cons in H. destruct (e <? budget c); [|discriminate H].
    destruct (snd (poll_step c k e p)) as [e1|o] eqn:Es.
    + exact (IH _ _ _ _ H).
    + exfalso. subst o. apply step_return_cases in Es.
      destruct Es as [[Es _]|[sd [_ Es]]]; [discriminate Es|destruct sd; discriminate Es].
Qed.

(* the poll counter names the position in the script *)
Lemma loop_More_index : forall c polls k e k' e', snd (loop c k e polls) = More k' e' -> k' = (k + length polls)%nat.
Proof.
  intros c polls. induction polls as [|p r IH]; intros k e k' e' H.
  - rewrite loop_nil in H. destruct (e <? budget c); [|discriminate H]. injection H as <- _. simpl. lia.
  - rewrite loop_cons in H. destruct (e <? budget c); [|discriminate H].
    destruct (snd (poll_step c k e p)) as [e1|o] eqn:Es.
    + rewrite (IH _ _ _ _ H). simpl. lia.
    + exfalso. subst o. apply step_return_cases in Es.
      destruct Es as [[Es _]|[sd [_ Es]]]; [discriminate Es|destruct sd; discriminate Es].
Qed.

Lemma loop_Agreed_ge : forall c polls k e j, snd (loop c k e polls) = Agreed j -> (k <= j)%nat.
Proof.
  intros c polls. induction polls as [|p r IH]; intros k e j H.
  - rewrite loop_nil in H. destruct (e <? budget c); discriminate H.
  - rewrite loop_cons in H. destruct (e <? budget c); [|discriminate H].
    destruct (snd (poll_step c k e p)) as [e1|o] eqn:Es.
    + specialize (IH _ _ _ H). lia.
    + subst o. apply step_return_cases in Es.
      destruct Es as [[Es _]|[sd [_ Es]]]; [injection Es as ->; lia|destruct sd; discriminate Es].
Qed.

(* one step from a point where the loop is about to poll *)
Lemma loop_step_agreed : forall c k e p rest, e < budget c ->
  (snd (loop c k e (p :: rest)) = Agreed k <-> exists s, p_resp p = RSnap s /\ agreed (p_hosts p) s = true).
Proof.
  intros c k e p rest Hlt. rewrite loop_cons. assert (Eb : (e <? budget c) = true) by lia. rewrite Eb.
  rewrite <- (step_agreed_iff c k e p).
  destruct (snd (poll_step c k e p)) as [e1|o] eqn:Es.
  - split; [|intros H; discriminate H]. intros H. apply loop_Agreed_ge in H. lia.
  - split; intros H; [subst o; reflexivity | injection H as ->; reflexivity].
Qed.

(* C43_verdict: after any script prefix that left the loop about to issue poll k, the wait returns True at poll k
   exactly when poll k answers with a snapshot in which a single version is reported *)
Lemma verdict_at_poll : forall c pre p rest k e,
  snd (loop c 0 0 pre) = More k e ->
  (snd (loop c 0 0 (pre ++ p :: rest)) = Agreed k <->
   exists s, p_resp p = RSnap s /\ single_version (p_hosts p) s).
Proof.
  intros c pre p rest k e H. rewrite (loop_app c pre 0%nat 0 k e (p :: rest) H).
  rewrite (loop_step_agreed c k e p rest (loop_More_lt _ _ _ _ _ _ H)).
  split; intros [s [Hs Ha]]; exists s; (split; [exact Hs|]); apply agreed_spec; exact Ha.
Qed.

(* whenever True is returned (at any poll), that poll's snapshot has a single reported version *)
Lemma loop_Agreed_sound : forall c polls k e j, snd (loop c k e polls) = Agreed j ->
  exists p s, nth_error polls (j - k) = Some p /\ p_resp p = RSnap s /\ single_version (p_hosts p) s.
Proof.
  intros c polls. induction polls as [|q r IH]; intros k e j H.
  - rewrite loop_nil in H. destruct (e <? budget c); discriminate H.
  - rewrite loop_cons in H. destruct (e <? budget c); [|discriminate H].
    destruct (snd (poll_step c k e q)) as [e1|o] eqn:Es.
    + pose proof (loop_Agreed_ge _ _ _ _ _ H) as Hge.
      destruct (IH _ _ _ H) as [p [s [Hn [Hr Hs]]]]. exists p, s.
      replace (j - k)%nat with (S (j - S k)) by lia. simpl. repeat split; assumption.
    + subst o. apply step_return_cases in Es. destruct Es as [[Es [s [Hr Ha]]]|[sd [_ Es]]]; [|destruct sd; discriminate Es].
      injection Es as ->. exists q, s. rewrite Nat.sub_diag. simpl. repeat split; [exact Hr|apply agreed_spec; exact Ha].
Qed.

(* a poll "disagrees or times out": the loop must go on after it *)
Definition inconclusive (p : poll) : Prop :=
  match p_resp p with
  | RTimeout => True
  | RShutdown _ => False
  | RSnap s => ~ single_version (p_hosts p) s
  end.

Lemma inconclusive_continue : forall c k e p, inconclusive p -> exists e', snd (poll_step c k e p) = Continue e'.
Proof.
  intros c k e p H. unfold inconclusive in H. unfold poll_step. destruct (p_resp p) as [|sd|s].
  - eexists. reflexivity.
  - destruct H.
  - destruct (agreed (p_hosts p) s) eqn:Ea; [exfalso; apply H; apply agreed_spec; exact Ea|]. eexists. reflexivity.
Qed.

(* C43_keeps_polling: while every poll so far was inconclusive the loop neither returns True nor gives up before the
   budget has elapsed: it either asks for another poll (elapsed < budget) or returns False with elapsed >= budget *)
Lemma keeps_polling : forall c polls k e, Forall inconclusive polls ->
  (exists k' e', snd (loop c k e polls) = More k' e' /\ e' < budget c) \/
  (exists e', snd (loop c k e polls) = Disagreed e' /\ budget c <= e').
Proof.
  intros c polls. induction polls as [|p r IH]; intros k e HF.
  - rewrite loop_nil. destruct (e <? budget c) eqn:Eb; [left; exists k, e | right; exists e]; split; try reflexivity; lia.
  - inversion HF as [|p' r' Hp Hr]; subst. rewrite loop_cons. destruct (e <? budget c) eqn:Eb.
    + destruct (inconclusive_continue c k e p Hp) as [e1 Es]. rewrite Es. apply IH. exact Hr.
    + right. exists e. split; [reflexivity|lia].
Qed.

(* False is only ever returned once the budget has elapsed *)
Lemma loop_Disagreed_budget : forall c polls k e e', snd (loop c k e polls) = Disagreed e' -> budget c <= e'.
Proof.
  intros c polls. induction polls as [|p r IH]; intros k e e' H.
  - rewrite loop_nil in H. destruct (e <? budget c) eqn:Eb; [discriminate H|]. injection H as <-. lia.
  - rewrite loop_cons in H. destruct (e <? budget c) eqn:Eb; [|injection H as <-; lia].
    destruct (snd (poll_step c k e p)) as [e1|o] eqn:Es.
    + exact (IH _ _ _ H).
    + exfalso. subst o. apply step_return_cases in Es.
      destruct Es as [[Es _]|[sd [_ Es]]]; [discriminate Es|destruct sd; discriminate Es].
Qed.

(* the loop cannot poll forever: every inconclusive poll costs at least 1 ms of the budget *)
Lemma loop_terminates : forall c polls k e, 0 < qtimeout c -> Forall (fun p => 0 <= p_dur p) polls ->
  budget c - e <= Z.of_nat (length polls) -> forall k' e', snd (loop c k e polls) <> More k' e'.
Proof.
  intros c polls. induction polls as [|p r IH]; intros k e Hq HF Hlen k' e' H.
  - rewrite loop_nil in H. destruct (e <? budget c) eqn:Eb; [|discriminate H]. simpl in Hlen. lia.
  - inversion HF as [|p' r' Hp Hr]; subst. rewrite loop_cons in H. simpl length in Hlen.
    destruct (e <? budget c) eqn:Eb; [|discriminate H].
    destruct (snd (poll_step c k e p)) as [e1|o] eqn:Es.
    + apply (IH (S k) e1 Hq Hr) with (k' := k') (e' := e'); [|exact H].
      apply step_continue_cases in Es. destruct Es as [[_ ->]|[s [_ [_ ->]]]]; unfold sleep_ms; lia.
    + subst o. apply step_return_cases in Es.
      destruct Es as [[Es _]|[sd [_ Es]]]; [discriminate Es|destruct sd; discriminate Es].
Qed.

(* ------------------------------------------------------------------ the wait and the future *)
Lemma wait_loop : forall c polls, 0 < budget c -> wait c false None polls = loop c 0 0 polls.
Proof. intros c polls H. unfold wait. assert (E : (budget c <=? 0) = false) by lia. rewrite E. reflexivity. Qed.

(* the only ways out of the loop *)
Lemma loop_not_special : forall c polls k e, snd (loop c k e polls) <> AgreedPreloaded /\ snd (loop c k e polls) <> Bypassed.
Proof.
  intros c polls. induction polls as [|p r IH]; intros k e.
  - rewrite loop_nil. destruct (e <? budget c); split; discriminate.
  - rewrite loop_cons. destruct (e <? budget c); [|split; discriminate].
    destruct (snd (poll_step c k e p)) as [e1|o] eqn:Es; [apply IH|].
    apply step_return_cases in Es. destruct Es as [[-> _]|[sd [_ ->]]]; [|destruct sd]; split; discriminate.
Qed.

(* with a positive budget and no preloaded results, a truthy return value is `True at poll k` *)
Lemma wait_truthy_Agreed : forall c sd polls, 0 < budget c ->
  (truthy (snd (wait c sd None polls)) = true <-> exists k, snd (wait c sd None polls) = Agreed k).
Proof.
  intros c sd polls Hb. unfold wait. assert (E : (budget c <=? 0) = false) by lia. rewrite E.
  destruct sd; simpl.
  - split; [discriminate|intros [k H]; discriminate H].
  - destruct (loop_not_special c polls 0%nat 0) as [H1 H2].
    destruct (snd (loop c 0 0 polls)) as [k| | |el| | |k el]; simpl; split; intros H;
      try discriminate H; try (destruct H as [k' H]; discriminate H); try reflexivity; try congruence.
    exists k. reflexivity.
Qed.

(* what the future records *)
Lemma future_flag : forall e c polls,
  f_is_schema_agreed (schema_change_path e c polls) =
  negb (cluster_shutdown e) && truthy (snd (wait c (cc_shutdown e) None polls)) &&
  negb (meta_enabled e && refresh_raises e).
Proof.
  intros e c polls. unfold schema_change_path. destruct (cluster_shutdown e); [reflexivity|].
  destruct (wait c (cc_shutdown e) None polls) as [ev o]. simpl. unfold refresh_schema.
  destruct o; destruct (meta_enabled e); destruct (refresh_raises e); reflexivity.
Qed.

(* C43_future_records *)
Lemma future_records : forall e c polls, 0 < budget c -> cluster_shutdown e = false -> refresh_raises e = false ->
  (f_is_schema_agreed (schema_change_path e c polls) = true <-> exists k, snd (wait c (cc_shutdown e) None polls) = Agreed k).
Proof.
  intros e c polls Hb Hc Hr. rewrite future_flag, Hc, Hr, andb_false_r. simpl. rewrite andb_true_r.
  apply wait_truthy_Agreed. exact Hb.
Qed.

(* is_schema_agreed is never set without the wait having returned True at some poll, whatever the environment *)
Lemma future_never_overclaims : forall e c polls, 0 < budget c ->
  f_is_schema_agreed (schema_change_path e c polls) = true ->
  exists k, snd (wait c (cc_shutdown e) None polls) = Agreed k.
Proof.
  intros e c polls Hb H. rewrite future_flag in H. apply andb_true_iff in H. destruct H as [H _].
  apply andb_true_iff in H. destruct H as [_ H]. apply wait_truthy_Agreed; assumption.
Qed.

(* the future is always completed (result None), agreement or not *)
Lemma future_completed : forall e c polls, f_final_set (schema_change_path e c polls) = true.
Proof.
  intros e c polls. unfold schema_change_path. destruct (cluster_shutdown e); [reflexivity|].
  destruct (wait c (cc_shutdown e) None polls) as [ev o]. destruct (refresh_schema e o). reflexivity.
Qed.

(* preloaded results (shared with the connection handshake) are judged by the same rule, without a poll *)
Lemma preloaded_verdict : forall c h s polls, 0 < budget c ->
  (snd (wait c false (Some (h, s)) polls) = AgreedPreloaded <-> single_version h s).
Proof.
  intros c h s polls Hb. unfold wait. assert (E : (budget c <=? 0) = false) by lia. rewrite E.
  rewrite <- agreed_spec. destruct (agreed h s); simpl.
  - split; reflexivity.
  - split; [|discriminate]. intros H. exfalso. exact (proj1 (loop_not_special c polls 0%nat 0) H).
Qed.

(* the flag an add_callback observer / result() waiter sees at delivery is already the final one *)
Lemma future_at_delivery : forall e c polls,
  f_at_delivery (schema_change_path e c polls) = Some (f_is_schema_agreed (schema_change_path e c polls)).
Proof.
  intros e c polls. unfold schema_change_path. destruct (cluster_shutdown e); [reflexivity|].
  destruct (wait c (cc_shutdown e) None polls) as [ev o]. destruct (refresh_schema e o) as [[b|] rf]; reflexivity.
Qed.

(* table rows: a peer is matched to a host by (address, native_port) -- the cluster's default port only stands in for a
   missing / non-positive native_port *)
Lemma raw_reported : forall d h local rows v,
  reported h (RSn d local rows) v <->
  local = Some (Some v) \/ exists a p, In (a, p, Some v) rows /\ counted h (row_endpoint d (a, p, Some v)) = true.
Proof.
  intros d h local rows v. unfold reported, RSn. simpl. split.
  - intros [H|[e [Hin Hc]]]; [left; exact H|]. right. apply in_map_iff in Hin. destruct Hin as [[[a p] v'] [Heq Hin]].
    simpl in Heq. injection Heq as He Hv. subst v'. exists a, p. split; [exact Hin|]. rewrite <- He in Hc. exact Hc.
  - intros [H|[a [p [Hin Hc]]]]; [left; exact H|]. right. exists (row_endpoint d (a, p, Some v)). split; [|exact Hc].
    apply in_map_iff. exists (a, p, Some v). split; [reflexivity|exact Hin].
Qed.

Lemma row_endpoint_port : forall d a p v, 0 < p -> row_endpoint d (a, Some p, v) = (a, p).
Proof. intros d a p v H. unfold row_endpoint. assert (E : (0 <? p) = true) by lia. rewrite E. reflexivity. Qed.
