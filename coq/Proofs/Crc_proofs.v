(* Algebra of the CRC functions of Model/Crc.v: ranges, GF(2)-linearity of the CRC-24 update (a flipped header bit always
   changes the checksum), injectivity of the CRC-32 update (a changed payload byte always changes the checksum, any length). *)
From Coq Require Import ZArith List Bool Lia.
From Verif Require Import Crc.
Import ListNotations.
Local Open Scope Z_scope.

Definition byte_ok (b : Z) : Prop := 0 <= b < 256.

(* ------------------------------------------------------------------ bits and ranges *)
Lemma testbit_above : forall n x m, 0 <= x < 2 ^ n -> n <= m -> Z.testbit x m = false.
Proof.
  intros n x m [H0 H1] Hm. destruct (Z.eq_dec x 0) as [->|Hx]; [apply Z.bits_0|].
  apply Z.bits_above_log2; [assumption|]. assert (Z.log2 x < n) by (apply Z.log2_lt_pow2; lia). lia.
Qed.

Lemma range_of_bits : forall n x, 0 <= n -> 0 <= x -> (forall m, n <= m -> Z.testbit x m = false) -> x < 2 ^ n.
Proof.
  intros n x Hn Hx H. destruct (Z_lt_ge_dec x (2 ^ n)) as [|Hge]; [assumption|exfalso].
  assert (Hpos : 0 < x) by (pose proof (Z.pow_pos_nonneg 2 n); lia).
  assert (n <= Z.log2 x) by (apply Z.log2_le_pow2; lia).
  pose proof (Z.bit_log2 x Hpos) as Hb. rewrite H in Hb by assumption. discriminate.
Qed.

Lemma lxor_range : forall n a b, 0 <= n -> 0 <= a < 2 ^ n -> 0 <= b < 2 ^ n -> 0 <= Z.lxor a b < 2 ^ n.
Proof.
  intros n a b Hn Ha Hb. assert (H0 : 0 <= Z.lxor a b) by (apply Z.lxor_nonneg; lia).
  split; [assumption|]. apply range_of_bits; try assumption.
  intros m Hm. rewrite Z.lxor_spec, (testbit_above n a m), (testbit_above n b m) by assumption. reflexivity.
Qed.

Ltac lxor_ac :=
  apply Z.bits_inj'; let n := fresh "n" in let Hn := fresh "Hn" in intros n Hn;
  repeat rewrite Z.lxor_spec; repeat rewrite Z.bits_0;
  repeat match goal with |- context [Z.testbit ?x n] => destruct (Z.testbit x n) end; reflexivity.

Lemma lxor_cancel_r : forall a b c, Z.lxor a c = Z.lxor b c -> a = b.
Proof.
  intros a b c H. apply Z.lxor_eq. transitivity (Z.lxor (Z.lxor a c) (Z.lxor b c)); [lxor_ac|].
  rewrite H. apply Z.lxor_nilpotent.
Qed.

Lemma lxor_cancel_l : forall a b c, Z.lxor c a = Z.lxor c b -> a = b.
Proof. intros a b c H. rewrite (Z.lxor_comm c a), (Z.lxor_comm c b) in H. eapply lxor_cancel_r; eassumption. Qed.

Lemma land_lxor_distr_r : forall a b c, Z.land (Z.lxor a b) c = Z.lxor (Z.land a c) (Z.land b c).
Proof.
  intros. apply Z.bits_inj'. intros n Hn. rewrite Z.land_spec, !Z.lxor_spec, !Z.land_spec.
  destruct (Z.testbit a n), (Z.testbit b n), (Z.testbit c n); reflexivity.
Qed.

Lemma land_pow2 : forall x n, 0 <= n -> Z.land x (2 ^ n) = if Z.testbit x n then 2 ^ n else 0.
Proof.
  intros x n Hn. apply Z.bits_inj'. intros m Hm. rewrite Z.land_spec, Z.pow2_bits_eqb by assumption.
  destruct (Z.testbit x n) eqn:E.
  - rewrite Z.pow2_bits_eqb by assumption. destruct (n =? m) eqn:F; [|apply andb_false_r].
    apply Z.eqb_eq in F. subst. rewrite E. reflexivity.
  - rewrite Z.bits_0. destruct (n =? m) eqn:F; [|apply andb_false_r].
    apply Z.eqb_eq in F. subst. rewrite E. reflexivity.
Qed.

Lemma iter_S : forall {A} n (f : A -> A) x, iter (S n) f x = iter n f (f x).
Proof. reflexivity. Qed.

Lemma iter_inv : forall {A} (P : A -> Prop) (f : A -> A), (forall x, P x -> P (f x)) -> forall n x, P x -> P (iter n f x).
Proof. intros A P f Hf. induction n; intros x Hx; simpl; auto. Qed.

Lemma iter_inj : forall {A} (P : A -> Prop) (f : A -> A), (forall x, P x -> P (f x)) ->
  (forall x y, P x -> P y -> f x = f y -> x = y) ->
  forall n x y, P x -> P y -> iter n f x = iter n f y -> x = y.
Proof.
  intros A P f Hp Hi. induction n; intros x y Hx Hy H; simpl in H; [assumption|].
  apply Hi; try assumption. apply IHn; auto.
Qed.

(* ------------------------------------------------------------------ CRC-32 *)
Definition r32 (c : Z) : Prop := 0 <= c < 2 ^ 32.

Lemma shiftr1_range : forall c, r32 c -> 0 <= Z.shiftr c 1 < 2 ^ 31.
Proof.
  intros c [H0 H1]. rewrite Z.shiftr_div_pow2 by lia. change (2 ^ 1) with 2.
  change (2 ^ 32) with 4294967296 in H1. change (2 ^ 31) with 2147483648. split.
  - apply Z.div_pos; lia.
  - apply Z.div_lt_upper_bound; lia.
Qed.

Lemma crc32_poly_range : 0 <= CRC32_POLY < 2 ^ 32.
Proof. unfold CRC32_POLY. change (2 ^ 32) with 4294967296. lia. Qed.

Lemma crc32_bit_range : forall c, r32 c -> r32 (crc32_bit c).
Proof.
  intros c Hc. pose proof (shiftr1_range c Hc) as Hs. unfold crc32_bit. cbv zeta.
  assert (Hs' : 0 <= Z.shiftr c 1 < 2 ^ 32) by (change (2 ^ 31) with 2147483648 in Hs; change (2 ^ 32) with 4294967296; lia).
  destruct (Z.odd c); [|exact Hs']. apply lxor_range; [lia|exact Hs'|exact crc32_poly_range].
Qed.

Lemma crc32_bit_top : forall c, r32 c -> Z.testbit (crc32_bit c) 31 = Z.odd c.
Proof.
  intros c Hc. pose proof (shiftr1_range c Hc) as Hs. unfold crc32_bit. cbv zeta.
  destruct (Z.odd c).
  - rewrite Z.lxor_spec, (testbit_above 31 _ 31 Hs) by lia. reflexivity.
  - apply (testbit_above 31); [exact Hs|lia].
Qed.

Lemma crc32_bit_inj : forall a b, r32 a -> r32 b -> crc32_bit a = crc32_bit b -> a = b.
Proof.
  intros a b Ha Hb H.
  assert (Ho : Z.odd a = Z.odd b) by (rewrite <- (crc32_bit_top a Ha), <- (crc32_bit_top b Hb), H; reflexivity).
  unfold crc32_bit in H. cbv zeta in H. rewrite <- Ho in H.
  assert (Hs : Z.shiftr a 1 = Z.shiftr b 1).
  { destruct (Z.odd a); [eapply lxor_cancel_r; exact H|exact H]. }
  rewrite (Z.div2_odd a), (Z.div2_odd b), !Z.div2_spec, Hs, Ho. reflexivity.
Qed.

Lemma byte_r32 : forall b, byte_ok b -> r32 b.
Proof. unfold byte_ok, r32. intros. change (2 ^ 32) with 4294967296. lia. Qed.

Lemma crc32_byte_range : forall c b, r32 c -> byte_ok b -> r32 (crc32_byte c b).
Proof.
  intros c b Hc Hb. unfold crc32_byte. apply (iter_inv r32); [exact crc32_bit_range|].
  apply lxor_range; [lia|exact Hc|exact (byte_r32 b Hb)].
Qed.

Lemma iter8_crc32_inj : forall x y, r32 x -> r32 y -> iter 8 crc32_bit x = iter 8 crc32_bit y -> x = y.
Proof. apply (iter_inj r32); [exact crc32_bit_range|exact crc32_bit_inj]. Qed.

Lemma crc32_byte_inj_state : forall c c' b, r32 c -> r32 c' -> byte_ok b -> crc32_byte c b = crc32_byte c' b -> c = c'.
Proof.
  intros c c' b Hc Hc' Hb H. unfold crc32_byte in H. apply iter8_crc32_inj in H.
  - eapply lxor_cancel_r; exact H.
  - apply lxor_range; [lia|exact Hc|exact (byte_r32 b Hb)].
  - apply lxor_range; [lia|exact Hc'|exact (byte_r32 b Hb)].
Qed.

Lemma crc32_byte_inj_byte : forall c b b', r32 c -> byte_ok b -> byte_ok b' -> crc32_byte c b = crc32_byte c b' -> b = b'.
Proof.
  intros c b b' Hc Hb Hb' H. unfold crc32_byte in H. apply iter8_crc32_inj in H.
  - eapply lxor_cancel_l; exact H.
  - apply lxor_range; [lia|exact Hc|exact (byte_r32 b Hb)].
  - apply lxor_range; [lia|exact Hc|exact (byte_r32 b' Hb')].
Qed.

Lemma crc32_raw_range : forall data c, r32 c -> Forall byte_ok data -> r32 (crc32_raw c data).
Proof.
  induction data as [|b data IH]; intros c Hc Hd; simpl; [assumption|].
  inversion Hd; subst. apply IH; [apply crc32_byte_range; assumption|assumption].
Qed.

Lemma crc32_raw_inj : forall data c c', r32 c -> r32 c' -> Forall byte_ok data -> c <> c' -> crc32_raw c data <> crc32_raw c' data.
Proof.
  induction data as [|b data IH]; intros c c' Hc Hc' Hd Hne; simpl; [assumption|].
  inversion Hd; subst. apply IH; try (apply crc32_byte_range; assumption); try assumption.
  intro E. apply Hne. eapply crc32_byte_inj_state; eassumption.
Qed.

Lemma mask32_range : r32 MASK32.
Proof. unfold r32, MASK32. change (2 ^ 32) with 4294967296. lia. Qed.

Lemma crc32_range : forall data v, 0 <= v < 2 ^ 32 -> Forall byte_ok data -> 0 <= zlib_crc32 data v < 2 ^ 32.
Proof.
  intros data v Hv Hd. unfold zlib_crc32. apply lxor_range; [lia| |exact mask32_range].
  apply crc32_raw_range; [|assumption]. apply lxor_range; [lia|exact Hv|exact mask32_range].
Qed.

Lemma crc32_raw_app : forall a b c, crc32_raw c (a ++ b) = crc32_raw (crc32_raw c a) b.
Proof. intros. unfold crc32_raw. apply fold_left_app. Qed.

Lemma crc32_detects : forall pre b b' post v, 0 <= v < 2 ^ 32 -> Forall byte_ok pre -> byte_ok b -> byte_ok b' -> Forall byte_ok post ->
  b <> b' -> zlib_crc32 (pre ++ b :: post) v <> zlib_crc32 (pre ++ b' :: post) v.
Proof.
  intros pre b b' post v Hv Hpre Hb Hb' Hpost Hne. unfold zlib_crc32. intro E. apply lxor_cancel_r in E.
  rewrite !crc32_raw_app in E. simpl in E.
  assert (Hc : r32 (crc32_raw (Z.lxor v MASK32) pre)).
  { apply crc32_raw_range; [|assumption]. apply lxor_range; [lia|exact Hv|exact mask32_range]. }
  revert E. apply crc32_raw_inj; try (apply crc32_byte_range; assumption); try assumption.
  intro E. apply Hne. eapply crc32_byte_inj_byte; eassumption.
Qed.

Lemma crc32_initial_range : 0 <= CRC32_INITIAL < 2 ^ 32.
Proof. vm_compute. split; [discriminate|reflexivity]. Qed.

(* ------------------------------------------------------------------ CRC-24 *)
Definition r24 (c : Z) : Prop := 0 <= c < 2 ^ 24.

Lemma crc24_bit_alt : forall c, crc24_bit c = Z.lxor (Z.shiftl c 1) (if Z.testbit c 23 then CRC24_POLY else 0).
Proof.
  intros c. unfold crc24_bit. cbv zeta. change 0x1000000 with (2 ^ 24). rewrite land_pow2 by lia.
  rewrite Z.shiftl_spec by lia. change (24 - 1) with 23.
  destruct (Z.testbit c 23); [reflexivity|]. simpl. symmetry. apply Z.lxor_0_r.
Qed.

Lemma crc24_bit_linear : forall a b, crc24_bit (Z.lxor a b) = Z.lxor (crc24_bit a) (crc24_bit b).
Proof.
  intros a b. rewrite !crc24_bit_alt, Z.shiftl_lxor, Z.lxor_spec.
  destruct (Z.testbit a 23), (Z.testbit b 23); simpl xorb; cbv iota; lxor_ac.
Qed.

Lemma iter_linear : forall (f : Z -> Z), (forall a b, f (Z.lxor a b) = Z.lxor (f a) (f b)) ->
  forall n a b, iter n f (Z.lxor a b) = Z.lxor (iter n f a) (iter n f b).
Proof. intros f Hf. induction n; intros a b; simpl; [reflexivity|]. rewrite Hf. apply IHn. Qed.

Definition pxor (s t : Z * Z) : Z * Z := (Z.lxor (fst s) (fst t), Z.lxor (snd s) (snd t)).

Lemma crc24_byte_linear : forall s t, crc24_byte (pxor s t) = pxor (crc24_byte s) (crc24_byte t).
Proof.
  intros [c1 d1] [c2 d2]. cbv beta iota zeta delta [pxor crc24_byte fst snd]. f_equal.
  - rewrite <- (iter_linear crc24_bit crc24_bit_linear). f_equal.
    rewrite land_lxor_distr_r, Z.shiftl_lxor. lxor_ac.
  - apply Z.shiftr_lxor.
Qed.

Lemma iter_crc24_byte_linear : forall n s t, iter n crc24_byte (pxor s t) = pxor (iter n crc24_byte s) (iter n crc24_byte t).
Proof. induction n; intros s t; [reflexivity|]. rewrite !iter_S, crc24_byte_linear. apply IHn. Qed.

Lemma crc24_from_linear : forall n i1 i2 d1 d2,
  crc24_from (Z.lxor i1 i2) (Z.lxor d1 d2) n = Z.lxor (crc24_from i1 d1 n) (crc24_from i2 d2 n).
Proof.
  intros. unfold crc24_from. change (Z.lxor i1 i2, Z.lxor d1 d2) with (pxor (i1, d1) (i2, d2)).
  rewrite iter_crc24_byte_linear. reflexivity.
Qed.

Lemma crc24_syndromes : forall hl : nat, (hl = 3 \/ hl = 5)%nat ->
  forallb (fun k => negb (crc24_from 0 (2 ^ Z.of_nat k) hl =? 0)) (seq 0 (8 * hl)) = true.
Proof. intros hl [->| ->]; vm_compute; reflexivity. Qed.

Lemma crc24_flip : forall (hl : nat) data k, (hl = 3 \/ hl = 5)%nat -> 0 <= data -> 0 <= k < 8 * Z.of_nat hl ->
  compute_crc24 (Z.lxor data (2 ^ k)) hl <> compute_crc24 data hl.
Proof.
  intros hl data k Hhl Hd Hk. unfold compute_crc24.
  replace CRC24_INIT with (Z.lxor CRC24_INIT 0) at 1 by apply Z.lxor_0_r.
  rewrite crc24_from_linear. intro E.
  assert (E0 : crc24_from 0 (2 ^ k) hl = 0).
  { apply (lxor_cancel_l _ _ (crc24_from CRC24_INIT data hl)). rewrite E. symmetry. apply Z.lxor_0_r. }
  pose proof (crc24_syndromes hl Hhl) as Hs. rewrite forallb_forall in Hs.
  specialize (Hs (Z.to_nat k)). rewrite Z2Nat.id in Hs by lia.
  assert (Hin : In (Z.to_nat k) (seq 0 (8 * hl))) by (apply in_seq; lia).
  apply Hs in Hin. rewrite E0 in Hin. discriminate.
Qed.

Lemma crc24_poly_hi : forall m, 24 <= m -> Z.testbit CRC24_POLY m = (m =? 24).
Proof.
  intros m Hm. destruct (Z.eq_dec m 24) as [->|Hne]; [reflexivity|].
  replace (m =? 24) with false by (symmetry; apply Z.eqb_neq; assumption).
  apply (testbit_above 25); [unfold CRC24_POLY; change (2 ^ 25) with 33554432; lia|lia].
Qed.

Lemma crc24_bit_range : forall c, r24 c -> r24 (crc24_bit c).
Proof.
  intros c [H0 H1]. rewrite crc24_bit_alt.
  assert (Hs : 0 <= Z.shiftl c 1 < 2 ^ 25).
  { rewrite Z.shiftl_mul_pow2 by lia. change (2 ^ 1) with 2. change (2 ^ 24) with 16777216 in H1. change (2 ^ 25) with 33554432. lia. }
  assert (Hnn : 0 <= Z.lxor (Z.shiftl c 1) (if Z.testbit c 23 then CRC24_POLY else 0)).
  { apply Z.lxor_nonneg. destruct (Z.testbit c 23); unfold CRC24_POLY; lia. }
  split; [assumption|]. apply range_of_bits; [lia|assumption|].
  intros m Hm. rewrite Z.lxor_spec, Z.shiftl_spec by lia.
  destruct (Z.eq_dec m 24) as [->|Hne].
  - change (24 - 1) with 23. destruct (Z.testbit c 23); [reflexivity|]. rewrite Z.bits_0. reflexivity.
  - rewrite (testbit_above 24 c (m - 1)) by (try split; try assumption; lia).
    destruct (Z.testbit c 23); [|rewrite Z.bits_0; reflexivity].
    rewrite crc24_poly_hi by assumption. replace (m =? 24) with false by (symmetry; apply Z.eqb_neq; assumption). reflexivity.
Qed.

Lemma crc24_byte_range : forall s, r24 (fst s) -> r24 (fst (crc24_byte s)).
Proof.
  intros [c d] Hc. cbv beta iota zeta delta [crc24_byte fst snd] in *. apply (iter_inv r24); [exact crc24_bit_range|].
  apply lxor_range; [lia|exact Hc|].
  change 255 with (Z.ones 8). rewrite Z.land_ones by lia. rewrite Z.shiftl_mul_pow2 by lia.
  change (2 ^ 8) with 256. change (2 ^ 16) with 65536. change (2 ^ 24) with 16777216.
  pose proof (Z.mod_pos_bound d 256). lia.
Qed.

Lemma crc24_range : forall data n, 0 <= compute_crc24 data n < 2 ^ 24.
Proof.
  intros data n. unfold compute_crc24, crc24_from.
  assert (H : forall n s, r24 (fst s) -> r24 (fst (iter n crc24_byte s))).
  { induction n0; intros s Hs; simpl; [assumption|]. apply IHn0. apply crc24_byte_range. assumption. }
  apply H. simpl. unfold r24, CRC24_INIT. change (2 ^ 24) with 16777216. lia.
Qed.
