(* Little-endian byte strings and the segment header bit layout (Model/Segment.v): arithmetic characterisations. *)
From Coq Require Import ZArith List Bool Lia.
From Verif Require Import Crc Stream Segment Crc_proofs C05_proofs.
Import ListNotations.
Local Open Scope Z_scope.

Lemma land_disjoint : forall n a b, 0 <= n -> 0 <= a < 2 ^ n -> Z.land a (Z.shiftl b n) = 0.
Proof.
  intros n a b Hn Ha. apply Z.bits_inj'. intros m Hm. rewrite Z.land_spec, Z.bits_0.
  destruct (Z_lt_ge_dec m n).
  - rewrite Z.shiftl_spec_low by assumption. apply andb_false_r.
  - rewrite (testbit_above n a m) by (try assumption; lia). reflexivity.
Qed.

Lemma lor_shiftl_add : forall n a b, 0 <= n -> 0 <= a < 2 ^ n -> Z.lor a (Z.shiftl b n) = a + b * 2 ^ n.
Proof.
  intros n a b Hn Ha. rewrite <- Z.lxor_lor by (apply land_disjoint; assumption).
  rewrite <- Z.add_nocarry_lxor by (apply land_disjoint; assumption).
  rewrite Z.shiftl_mul_pow2 by assumption. reflexivity.
Qed.

Lemma land_255 : forall x, Z.land x 255 = x mod 256.
Proof. intros. change 255 with (Z.ones 8). rewrite Z.land_ones by lia. reflexivity. Qed.

Lemma le_val_unfold : forall b bs, le_val (b :: bs) = Z.lor (Z.land b 255) (Z.shiftl (le_val bs) 8).
Proof. reflexivity. Qed.

Lemma le_val_cons : forall b bs, le_val (b :: bs) = b mod 256 + 256 * le_val bs.
Proof.
  intros. rewrite le_val_unfold. rewrite land_255. rewrite lor_shiftl_add by (try lia; change (2 ^ 8) with 256; apply Z.mod_pos_bound; lia).
  change (2 ^ 8) with 256. lia.
Qed.

Lemma le_bytes_S : forall n x, le_bytes (S n) x = x mod 256 :: le_bytes n (x / 256).
Proof. intros. change (le_bytes (S n) x) with (Z.land x 255 :: le_bytes n (Z.shiftr x 8)). rewrite land_255, Z.shiftr_div_pow2 by lia. reflexivity. Qed.

Lemma le_bytes_length : forall n x, length (le_bytes n x) = n.
Proof. induction n; intros; simpl; [reflexivity|]. rewrite IHn. reflexivity. Qed.

Ltac Zify.zify_post_hook ::= Z.to_euclidean_division_equations.

Lemma le_val_le_bytes : forall n x, 0 <= x < 256 ^ Z.of_nat n -> le_val (le_bytes n x) = x.
Proof.
  induction n; intros x Hx.
  - simpl in *. lia.
  - rewrite le_bytes_S, le_val_cons. rewrite Nat2Z.inj_succ, Z.pow_succ_r in Hx by lia.
    rewrite IHn by (split; [apply Z.div_pos; lia|apply Z.div_lt_upper_bound; lia]).
    rewrite Z.mod_mod by lia. pose proof (Z.div_mod x 256). lia.
Qed.

Lemma le_bytes_ok : forall n x, Forall byte_ok (le_bytes n x).
Proof.
  induction n; intros x; [constructor|]. rewrite le_bytes_S. constructor; [|apply IHn].
  unfold byte_ok. apply Z.mod_pos_bound. lia.
Qed.

Lemma le_val_range : forall bs, 0 <= le_val bs < 256 ^ Z.of_nat (length bs).
Proof.
  induction bs as [|b bs IH].
  - simpl. lia.
  - rewrite le_val_cons. simpl length. rewrite Nat2Z.inj_succ, Z.pow_succ_r by lia.
    pose proof (Z.mod_pos_bound b 256). lia.
Qed.

Lemma le_val_inj : forall a b, length a = length b -> Forall byte_ok a -> Forall byte_ok b -> le_val a = le_val b -> a = b.
Proof.
  induction a as [|x a IH]; intros [|y b] Hl Ha Hb H; try discriminate; [reflexivity|].
  inversion Ha; inversion Hb; subst. rewrite !le_val_cons in H. unfold byte_ok in *.
  assert (x = y /\ le_val a = le_val b) as [-> Hv] by lia.
  f_equal. apply IH; auto.
Qed.

(* bit k of a little-endian byte string *)
Fixpoint flip_bit (k : nat) (bs : list Z) : list Z :=
  match bs with
  | [] => []
  | b :: bs' => if (k <? 8)%nat then Z.lxor b (2 ^ Z.of_nat k) :: bs' else b :: flip_bit (k - 8) bs'
  end.

Lemma flip_bit_length : forall bs k, length (flip_bit k bs) = length bs.
Proof. induction bs; intros; simpl; [reflexivity|]. destruct (k <? 8)%nat; simpl; [reflexivity|]. rewrite IHbs. reflexivity. Qed.

Lemma testbit_255 : forall m, 0 <= m -> Z.testbit 255 m = (m <? 8).
Proof. intros. change 255 with (Z.ones 8). apply Z.testbit_ones_nonneg; lia. Qed.

Lemma le_val_flip : forall bs k, (k < 8 * length bs)%nat ->
  le_val (flip_bit k bs) = Z.lxor (le_val bs) (2 ^ Z.of_nat k).
Proof.
  induction bs as [|b bs IH]; intros k Hk; [simpl in Hk; lia|].
  simpl flip_bit. destruct (k <? 8)%nat eqn:E.
  - apply Nat.ltb_lt in E. rewrite !le_val_unfold. apply Z.bits_inj'. intros m Hm.
    rewrite Z.lxor_spec, !Z.lor_spec, !Z.land_spec, Z.lxor_spec, testbit_255, Z.pow2_bits_eqb by lia.
    destruct (m <? 8) eqn:F.
    + rewrite Z.shiftl_spec_low by lia. rewrite !andb_true_r, !orb_false_r. reflexivity.
    + rewrite !andb_false_r. simpl. replace (Z.of_nat k =? m) with false by (symmetry; apply Z.eqb_neq; lia).
      rewrite xorb_false_r. reflexivity.
  - apply Nat.ltb_ge in E. rewrite !le_val_unfold. rewrite IH by (simpl in Hk; lia).
    rewrite Z.shiftl_lxor. rewrite (Z.shiftl_mul_pow2 (2 ^ Z.of_nat (k - 8))) by lia.
    rewrite <- Z.pow_add_r by lia. replace (Z.of_nat (k - 8) + 8) with (Z.of_nat k) by lia.
    apply Z.bits_inj'. intros m Hm.
    rewrite Z.lxor_spec, !Z.lor_spec, !Z.land_spec, Z.lxor_spec, testbit_255, Z.pow2_bits_eqb by lia.
    destruct (m <? 8) eqn:F.
    + replace (Z.of_nat k =? m) with false by (symmetry; apply Z.eqb_neq; lia).
      rewrite !xorb_false_r. reflexivity.
    + rewrite !andb_false_r. simpl. reflexivity.
Qed.

(* ------------------------------------------------------------------ list surgery *)
Lemma firstn_exact : forall (n : nat) (a b : list Z), length a = n -> firstn n (a ++ b) = a.
Proof. intros. subst. rewrite firstn_app, Nat.sub_diag, firstn_all. simpl. apply app_nil_r. Qed.

Lemma skipn_exact : forall (n : nat) (a b : list Z), length a = n -> skipn n (a ++ b) = b.
Proof. intros. subst. rewrite skipn_app, Nat.sub_diag, skipn_all. reflexivity. Qed.

(* ------------------------------------------------------------------ header bit layout *)
Definition MAXP := MAX_PAYLOAD_LENGTH.

Lemma max_ones : MAX_PAYLOAD_LENGTH = Z.ones 17.
Proof. reflexivity. Qed.

Lemma header_plain : forall pl ul sc, 0 <= pl <= 131071 ->
  let hd := header_data false pl ul sc in
  0 <= hd < 256 ^ 3 /\ Z.land hd MAX_PAYLOAD_LENGTH = pl.
Proof.
  intros pl ul sc Hp. unfold header_data. cbv zeta iota.
  change MAX_PAYLOAD_LENGTH with (Z.ones 17). rewrite Z.land_ones by lia.
  change (2 ^ 17) with 131072. change (256 ^ 3) with 16777216.
  destruct sc.
  - rewrite lor_shiftl_add by (change (2 ^ 17) with 131072; lia). change (2 ^ 17) with 131072. lia.
  - lia.
Qed.

Lemma header_compressed : forall pl ul sc, 0 <= pl <= 131071 -> 0 <= ul <= 131071 ->
  let hd := header_data true pl ul sc in
  0 <= hd < 256 ^ 5 /\ Z.land hd MAX_PAYLOAD_LENGTH = pl /\ Z.land (Z.shiftr hd 17) MAX_PAYLOAD_LENGTH = ul.
Proof.
  intros pl ul sc Hp Hu. unfold header_data. cbv zeta iota.
  change MAX_PAYLOAD_LENGTH with (Z.ones 17). rewrite !Z.land_ones by lia. rewrite Z.shiftr_div_pow2 by lia.
  rewrite (lor_shiftl_add 17 pl ul) by (change (2 ^ 17) with 131072; lia).
  change (2 ^ 17) with 131072. change (256 ^ 5) with 1099511627776.
  destruct sc.
  - rewrite lor_shiftl_add by (change (2 ^ 34) with 17179869184; lia). change (2 ^ 34) with 17179869184. lia.
  - lia.
Qed.
