(* C04 proofs, part 3: the excluded class is exactly the failing class -- every well-formed response inside
   driver_gap decodes to something else than its contents. *)
From Coq Require Import ZArith List Bool Lia ZifyBool String Ascii.
From Verif Require Import Response ResponseSpec C04_proofs C04_frame_proofs.
Import ListNotations.
Local Open Scope Z_scope.

(* tracing id, warnings, payload are read back whatever follows (continuation K) *)
Lemma frame_prefix : forall {B} tr wa pa rest (K : option bytes -> option (list str) -> option (list (str * option bytes)) -> P B),
  match tr with Some t => len t =? 16 | None => true end = true ->
  match wa with Some w => wf_string_list w | None => true end = true ->
  match pa with
  | Some p => (len p <? 65536) && nodup (map fst p) && forallb (fun kv => wf_string (fst kv) && wf_obytes (snd kv)) p
  | None => true
  end = true ->
  (trace <- rd_opt (is_some tr) rd_uuid ;; warnings <- rd_opt (is_some wa) rd_stringlist ;;
   payload <- rd_opt (is_some pa) rd_bytesmap ;; K trace warnings payload)
    (match tr with Some t => t | None => [] end
     ++ match wa with Some w => enc_string_list w | None => [] end
     ++ match pa with Some p => enc_bytes_map p | None => [] end ++ rest)
  = K tr wa pa rest.
Proof.
  intros B tr wa pa rest K Ht Hw Hp.
  destruct tr as [t|]; cbn [is_some].
  - pnorm. unfold rd_uuid at 1. pnorm. apply Z.eqb_eq in Ht. rewrite <- Ht.
    step' rt_n. rewrite Z.eqb_refl. pnorm.
    destruct wa as [w|]; cbn [is_some]; [step' rt_stringlist|pnorm; rewrite app_nil_l];
      (destruct pa as [p|]; cbn [is_some]; [bsplit; step' rt_bytesmap|pnorm; rewrite app_nil_l]); reflexivity.
  - pnorm. rewrite app_nil_l.
    destruct wa as [w|]; cbn [is_some]; [step' rt_stringlist|pnorm; rewrite app_nil_l];
      (destruct pa as [p|]; cbn [is_some]; [bsplit; step' rt_bytesmap|pnorm; rewrite app_nil_l]); reflexivity.
Qed.

Lemma decode_frame : forall pv rm stream r, wf_spec pv rm r = true ->
  decode_message pv rm stream (spec_flags r) (spec_opcode r) (spec_body pv r)
  = match rd_body pv rm (spec_opcode r) (enc_rbody pv (rs_body r)) with
    | Some (v, _) => Some (mkmsg stream (rs_trace r) (rs_warnings r) (rs_payload r) v)
    | None => None
    end.
Proof.
  intros pv rm stream [tr wa pa b] W. unfold wf_spec in W. cbn [rs_trace rs_warnings rs_payload rs_body] in *.
  apply andb_prop in W. destruct W as [W Wb]. apply andb_prop in W. destruct W as [W Wp].
  apply andb_prop in W. destruct W as [W Ww]. apply andb_prop in W. destruct W as [_ Wt].
  unfold decode_message, spec_flags, spec_body. cbn [rs_trace rs_warnings rs_payload rs_body].
  destruct (frame_flags_has (is_some tr) (is_some pa) (is_some wa)) as [F1 [F2 [F4 F8]]]. cbv zeta in *.
  rewrite F1, F2, F4, F8. rewrite andb_false_r.
  assert (E : (trace <- rd_opt (is_some tr) rd_uuid ;;
               warnings <- rd_opt (is_some wa) rd_stringlist ;;
               payload <- rd_opt (is_some pa) rd_bytesmap ;;
               b0 <- rd_body pv rm (spec_opcode (mkresp tr wa pa b)) ;;
               ret (mkmsg stream trace warnings payload b0))
              (match tr with Some t => t | None => [] end
               ++ match wa with Some w => enc_string_list w | None => [] end
               ++ match pa with Some p => enc_bytes_map p | None => [] end ++ enc_rbody pv b)
            = (b0 <- rd_body pv rm (spec_opcode (mkresp tr wa pa b)) ;; ret (mkmsg stream tr wa pa b0)) (enc_rbody pv b)).
  { exact (frame_prefix tr wa pa (enc_rbody pv b)
             (fun t w p => b0 <- rd_body pv rm (spec_opcode (mkresp tr wa pa b)) ;; ret (mkmsg stream t w p b0)) Wt Ww Wp). }
  rewrite E. clear E.
  unfold pbind. destruct (rd_body pv rm (spec_opcode (mkresp tr wa pa b)) (enc_rbody pv b)) as [[v l]|]; reflexivity.
Qed.

Lemma gap_auth_success_body : forall pv rm t, wf_lbytes t = true -> utf8_valid t = false ->
  rd_body pv rm 16 (enc_bytes (Some t)) = None.
Proof.
  intros pv rm t L U. unfold rd_body. ctest. rewrite <- (app_nil_r (enc_bytes (Some t))).
  unfold rd_longstring. step' rt_blong. unfold rd_utf8. rewrite U. reflexivity.
Qed.

Lemma gap_cas_body : forall pv rm m cl rc bf, wf_string m = true ->
  exists rest, rd_body pv rm 0 (enc_int 5888 ++ enc_string m ++ enc_short cl ++ enc_int rc ++ enc_int bf)
               = Some (BError CErrorMessage 5888 m EiNone, rest).
Proof.
  intros pv rm m cl rc bf Wm. eexists. unfold rd_body. ctest. step' rt_int. step' rt_string. ecls. pnorm. reflexivity.
Qed.

Lemma gap_contentions_body : forall pv rm m cl rc bf wt c,
  wf_string m = true -> wf_cl cl = true -> wf_int rc = true -> wf_int bf = true -> wf_wt wt = true ->
  exists rest, rd_body pv rm 0 (enc_int 4352 ++ enc_string m ++ enc_short cl ++ enc_int rc ++ enc_int bf ++ enc_string (wt_name wt) ++ enc_short c)
               = Some (BError CWriteTimeout 4352 m (EiWriteTimeout cl rc bf wt None), rest).
Proof.
  intros. eexists. unfold rd_body. ctest. step' rt_int. step' rt_string. ecls.
  step' rt_short. step' rt_int. step' rt_int. step' rt_write_type. reflexivity.
Qed.

Lemma gap_fails : forall pv rm stream r, wf_spec pv rm r = true -> driver_gap r = true ->
  decode_message pv rm stream (spec_flags r) (spec_opcode r) (spec_body pv r) <> Some (exact pv rm stream r).
Proof.
  intros pv rm stream r W G. rewrite (decode_frame _ _ _ _ W).
  unfold wf_spec in W. apply andb_prop in W. destruct W as [_ Wb].
  destruct r as [tr wa pa b]. unfold driver_gap in G. cbn [rs_body rs_trace rs_warnings rs_payload] in *.
  unfold spec_opcode, exact. cbn [rs_body rs_trace rs_warnings rs_payload].
  destruct b; try discriminate G.
  - destruct e; try discriminate G.
    + destruct contentions as [c|]; [|discriminate G]. cbn [wf_rbody wf_err] in Wb. bsplit.
      cbn [enc_rbody err_code enc_err exact_body exact_einfo]. repeat rewrite <- app_assoc.
      destruct (gap_contentions_body pv rm message cl received blockfor wt c) as [rest E]; try assumption.
      rewrite E. intros Q. discriminate Q.
    + cbn [wf_rbody wf_err] in Wb. bsplit. cbn [enc_rbody err_code enc_err exact_body exact_einfo]. repeat rewrite <- app_assoc.
      destruct (gap_cas_body pv rm message cl received blockfor) as [rest E]; try assumption.
      rewrite E. intros Q. discriminate Q.
  - destruct token as [t|]; [|discriminate G]. apply negb_true_iff in G. cbn [wf_rbody wf_obytes] in Wb.
    cbn [enc_rbody]. rewrite (gap_auth_success_body pv rm t Wb G). discriminate.
Qed.
