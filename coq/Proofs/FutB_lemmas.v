(* Shared lemmas about the FutB model (C16, C17, C19). *)
From Coq Require Import ZArith List Bool Lia.
From Verif Require Import PyBase FutbProto FutB.
Import ListNotations.
Local Open Scope Z_scope.

(* ------------------------------------------------------------------ _query *)
Definition reason (p : pstate) : option err :=
  match p with
  | PMissing => Some EDown | PShutdown => Some EShutdown | PNoConn => Some ENoConn | PBusy => Some EBusy
  | PFail => Some EBorrowFail | PSendFail => Some ESendFail | PHealthy => None | PNoConnSlow => Some ENoConn
  end.

Lemma query_eq s h m c :
  query s h m c = match reason (pool_of s h) with
                  | Some e => (set_err (touch s (pool_of s h)) h e, [ErrSet h e], false)
                  | None => (add_attempt (touch s (pool_of s h)) h (is_prepare m), [Sent h m c], true)
                  end.
Proof. unfold query. destruct (pool_of s h); reflexivity. Qed.

Lemma reason_healthy p : reason p = None <-> p = PHealthy.
Proof. destruct p; cbn; split; intros H; try discriminate; reflexivity. Qed.

Definition keys {A} (l : list (Z * A)) : list Z := map fst l.

Lemma keys_upd {A} (l : list (Z * A)) h v x : In x (keys (upd l h v)) <-> x = h \/ In x (keys l).
Proof.
  induction l as [|[k w] l IH]; cbn.
  - intuition congruence.
  - destruct (k =? h) eqn:E; cbn.
    + apply Z.eqb_eq in E. subst. intuition congruence.
    + rewrite IH. intuition congruence.
Qed.

Lemma lookup_upd_same {A} (l : list (Z * A)) h v : lookup (upd l h v) h = Some v.
Proof.
  induction l as [|[k w] l IH]; cbn.
  - rewrite Z.eqb_refl. reflexivity.
  - destruct (k =? h) eqn:E; cbn; rewrite E; [reflexivity|exact IH].
Qed.

Lemma lookup_upd_other {A} (l : list (Z * A)) h v x : x <> h -> lookup (upd l h v) x = lookup l x.
Proof.
  intros N. induction l as [|[k w] l IH]; cbn.
  - destruct (h =? x) eqn:E; [apply Z.eqb_eq in E; congruence|reflexivity].
  - destruct (k =? h) eqn:E; cbn.
    + apply Z.eqb_eq in E. subst.
      destruct (h =? x) eqn:E2; [apply Z.eqb_eq in E2; congruence|reflexivity].
    + rewrite IH. reflexivity.
Qed.

Lemma lookup_in_keys {A} (l : list (Z * A)) h v : lookup l h = Some v -> In h (keys l).
Proof.
  induction l as [|[k w] l IH]; cbn; [discriminate|].
  destruct (k =? h) eqn:E; [apply Z.eqb_eq in E; auto|auto].
Qed.

Lemma in_keys_lookup {A} (l : list (Z * A)) h : In h (keys l) -> exists v, lookup l h = Some v.
Proof.
  induction l as [|[k w] l IH]; cbn; [contradiction|].
  intros [H|H].
  - subst. rewrite Z.eqb_refl. eauto.
  - destruct (k =? h); eauto.
Qed.

(* ------------------------------------------------------------------ first outcome wins *)
Record same_but_outcome (s s' : state) : Prop := {
  sbo_plan : plan s' = plan s; sbo_cons : consumed s' = consumed s; sbo_pools : pools s' = pools s;
  sbo_cl : msg_cl s' = msg_cl s; sbo_retries : retries s' = retries s; sbo_ncons : nconsult s' = nconsult s;
  sbo_errors : errors s' = errors s; sbo_queue : queue s' = queue s; sbo_att : attempts s' = attempts s;
  sbo_armed : spec_armed s' = false; sbo_left : spec_left s' = spec_left s; sbo_ks : conn_ks s' = conn_ks s;
  sbo_page : page_no s' = page_no s
}.

Lemma fail_with_same s x : same_but_outcome s (fail_with s x).
Proof. unfold fail_with. destruct (completed s); constructor; reflexivity. Qed.

Lemma finish_with_same s r : same_but_outcome s (finish_with s r).
Proof. unfold finish_with. destruct (completed s); constructor; reflexivity. Qed.

Lemma finish_rows_same s b : same_but_outcome s (finish_rows s b).
Proof. unfold finish_rows. destruct (completed s); constructor; reflexivity. Qed.

Lemma finish_rows_res s b : fin_res (finish_rows s b) = (if completed s then fin_res s else Some FRows)
                            /\ fin_exc (finish_rows s b) = fin_exc s.
Proof. unfold finish_rows. destruct (completed s); split; reflexivity. Qed.

Lemma fail_with_exc s x : fin_exc (fail_with s x) = (if completed s then fin_exc s else Some x)
                          /\ fin_res (fail_with s x) = fin_res s.
Proof. unfold fail_with. destruct (completed s); split; reflexivity. Qed.

Lemma finish_with_res s r : fin_res (finish_with s r) = (if completed s then fin_res s else Some r)
                            /\ fin_exc (finish_with s r) = fin_exc s.
Proof. unfold finish_with. destruct (completed s); split; reflexivity. Qed.

Lemma q_fw s x : queue (fail_with s x) = queue s.
Proof. apply fail_with_same. Qed.
Lemma q_fi s r : queue (finish_with s r) = queue s.
Proof. apply finish_with_same. Qed.
Lemma q_fr s b : queue (finish_rows s b) = queue s.
Proof. apply finish_rows_same. Qed.
Ltac qnorm := rewrite ?q_fw, ?q_fi, ?q_fr in *.

Lemma not_completed s : fin_res s = None -> fin_exc s = None -> completed s = false.
Proof. unfold completed. intros -> ->. reflexivity. Qed.

Lemma fail_with_fresh s x : fin_res s = None -> fin_exc s = None -> fail_with s x = set_exc s x.
Proof. intros R E. unfold fail_with. rewrite (not_completed s R E). reflexivity. Qed.

Lemma finish_with_fresh s r : fin_res s = None -> fin_exc s = None -> finish_with s r = set_res s r.
Proof. intros R E. unfold finish_with. rewrite (not_completed s R E). reflexivity. Qed.

(* ------------------------------------------------------------------ send_request / walk *)
Definition plan_sends (ev : list event) : list host :=
  flat_map (fun e => match e with Sent h _ CPlan => [h] | _ => [] end) ev.

Definition has_send (ev : list event) : bool :=
  existsb (fun e => match e with Sent _ _ _ => true | _ => false end) ev.

Definition only_errsets (ev : list event) : Prop :=
  Forall (fun e => match e with ErrSet _ _ => True | _ => False end) ev.

(* what one send_request does: skips a prefix of unusable hosts, recording why, and sends to the first usable one *)
Inductive walked (s : state) (p : list host) (b : bool) (s' : state) (ev : list event) : Prop :=
| walked_sent (sk : list host) (h : host) (rest : list host)
    (Hp : p = sk ++ h :: rest)
    (Hsk : Forall (fun x => pool_of s x <> PHealthy) sk)
    (Hh : pool_of s h = PHealthy)
    (Hplan : plan s' = rest)
    (Hcons : consumed s' = consumed s ++ sk ++ [h])
    (Hev : ev = map (fun x => ErrSet x (match reason (pool_of s x) with Some e => e | None => EDown end)) sk
                ++ [Sent h (MOrig (msg_cl s)) CPlan])
    (Hatt : attempts s' = attempts s ++ [{| a_host := h; a_prep := false; a_done := false; a_page := page_no s |}])
    (Hexc : fin_exc s' = fin_exc s)
    (Harm : spec_armed s' = spec_armed s)
| walked_exhausted
    (Hsk : Forall (fun x => pool_of s x <> PHealthy) p)
    (Hplan : plan s' = match p with [] => plan s | _ => [] end)
    (Hcons : consumed s' = consumed s ++ p)
    (Hev : ev = map (fun x => ErrSet x (match reason (pool_of s x) with Some e => e | None => EDown end)) p)
    (Hatt : attempts s' = attempts s)
    (Hexc : fin_exc s' = if b && negb (completed s) then Some XNoHost else fin_exc s)
    (Harm : spec_armed s' = if b then false else spec_armed s)
| walked_timeout (sk : list host) (rest : list host)      (* the client timeout elapsed while skipping: _on_timeout(), no NoHostAvailable *)
    (Hp : p = sk ++ rest) (Hne : sk <> [])
    (Hsk : Forall (fun x => pool_of s x <> PHealthy) sk)
    (Hplan : plan s' = rest)
    (Hcons : consumed s' = consumed s ++ sk)
    (Hev : ev = map (fun x => ErrSet x (match reason (pool_of s x) with Some e => e | None => EDown end)) sk)
    (Hatt : attempts s' = attempts s)
    (Hel : elapsed s' = true)
    (Hexc : fin_exc s' = if borrowed s' && negb (completed s) then Some XTimeout else fin_exc s)
    (Harm : spec_armed s' = if borrowed s' then false else spec_armed s).

(* fields a walk never touches, and how it changes the error map *)
Record walk_frame (s s' : state) : Prop := {
  wf_pools : pools s' = pools s;
  wf_cl : msg_cl s' = msg_cl s;
  wf_retries : retries s' = retries s;
  wf_ncons : nconsult s' = nconsult s;
  wf_queue : queue s' = queue s;
  wf_res : fin_res s' = fin_res s;
  wf_left : spec_left s' = spec_left s;
  wf_ks : conn_ks s' = conn_ks s;
  wf_page : page_no s' = page_no s;
  wf_el : elapsed s = true -> elapsed s' = true
}.

Lemma pool_of_ext s1 s2 h : pools s1 = pools s2 -> pool_of s1 h = pool_of s2 h.
Proof. unfold pool_of. intros ->. reflexivity. Qed.

Lemma on_timeout_same s : (borrowed s = true /\ same_but_outcome s (on_timeout s)) \/ (borrowed s = false /\ on_timeout s = s).
Proof.
  unfold on_timeout. destruct (borrowed s) eqn:B.
  - left. split; [reflexivity|apply fail_with_same].
  - right. split; reflexivity.
Qed.

Lemma on_timeout_exc s : fin_exc (on_timeout s) = (if borrowed s && negb (completed s) then Some XTimeout else fin_exc s)
  /\ fin_res (on_timeout s) = fin_res s /\ elapsed (on_timeout s) = elapsed s /\ borrowed (on_timeout s) = borrowed s.
Proof.
  unfold on_timeout, fail_with. destruct (borrowed s) eqn:B; cbn [andb]; [|repeat split; auto].
  destruct (completed s); cbn; repeat split; auto.
Qed.

Lemma walk_walked : forall p s b s' ev, walk s p b = (s', ev) -> walked s p b s' ev.
Proof.
  induction p as [|h rest IH]; intros s b s' ev H.
  - cbn in H. inversion H; subst; clear H.
    pose proof (fail_with_same s XNoHost) as F.
    pose proof (fail_with_exc s XNoHost) as [Fe Fr].
    apply walked_exhausted.
    + constructor.
    + destruct b; [apply F|reflexivity].
    + rewrite app_nil_r. destruct b; [apply F|reflexivity].
    + reflexivity.
    + destruct b; [apply F|reflexivity].
    + destruct b; cbn [andb]; [|reflexivity]. rewrite Fe. destruct (completed s); reflexivity.
    + destruct b; [apply F|reflexivity].
  - cbn [walk] in H. rewrite query_eq in H.
    assert (Hpo : pool_of (take_host s h rest) h = pool_of s h) by reflexivity.
    rewrite Hpo in H.
    destruct (reason (pool_of s h)) as [e|] eqn:R.
    + set (s1 := set_err (touch (take_host s h rest) (pool_of s h)) h e) in *.
      assert (Hpe : forall x, pool_of s1 x = pool_of s x) by reflexivity.
      assert (Hbad : pool_of s h <> PHealthy).
      { intros E. rewrite E in R. discriminate. }
      destruct (elapsed s1) eqn:El.
      * inversion H; subst; clear H.
        destruct (on_timeout_exc s1) as (Oe & Or & Oel & Ob).
        apply (walked_timeout _ _ _ _ _ [h] rest).
        -- reflexivity.
        -- discriminate.
        -- constructor; [assumption|constructor].
        -- destruct (on_timeout_same s1) as [[_ F]|[_ E]]; [rewrite (sbo_plan _ _ F)|rewrite E]; reflexivity.
        -- destruct (on_timeout_same s1) as [[_ F]|[_ E]]; [rewrite (sbo_cons _ _ F)|rewrite E]; reflexivity.
        -- cbn [map]. rewrite R. reflexivity.
        -- destruct (on_timeout_same s1) as [[_ F]|[_ E]]; [rewrite (sbo_att _ _ F)|rewrite E]; reflexivity.
        -- rewrite Oel. exact El.
        -- rewrite Oe, Ob. reflexivity.
        -- rewrite Ob. destruct (on_timeout_same s1) as [[B F]|[B E]]; rewrite B; [apply F|rewrite E; reflexivity].
      * destruct (walk s1 rest b) as [s2 ev2] eqn:W.
        inversion H; subst; clear H.
        apply IH in W.
        destruct W as [sk h' rest' Hp Hsk Hh Hplan Hcons Hev Hatt Hexc Harm | Hsk Hplan Hcons Hev Hatt Hexc Harm
                      | sk rest' Hp Hne Hsk Hplan Hcons Hev Hatt Hel Hexc Harm].
        -- apply (walked_sent _ _ _ _ _ (h :: sk) h' rest').
           ++ rewrite Hp. reflexivity.
           ++ constructor; [assumption|]. eapply Forall_impl; [|exact Hsk]. intros a Ha. rewrite <- Hpe. exact Ha.
           ++ rewrite <- Hpe. exact Hh.
           ++ exact Hplan.
           ++ rewrite Hcons. unfold s1. cbn [consumed set_err take_host touch]. rewrite <- !app_assoc. reflexivity.
           ++ rewrite Hev. cbn [map app]. rewrite R. f_equal.
           ++ exact Hatt.
           ++ exact Hexc.
           ++ exact Harm.
        -- apply walked_exhausted.
           ++ constructor; [assumption|]. eapply Forall_impl; [|exact Hsk]. intros a Ha. rewrite <- Hpe. exact Ha.
           ++ rewrite Hplan. destruct rest; reflexivity.
           ++ rewrite Hcons. unfold s1. cbn [consumed set_err take_host touch]. rewrite <- app_assoc. reflexivity.
           ++ rewrite Hev. cbn [map]. rewrite R. reflexivity.
           ++ exact Hatt.
           ++ exact Hexc.
           ++ exact Harm.
        -- apply (walked_timeout _ _ _ _ _ (h :: sk) rest').
           ++ rewrite Hp. reflexivity.
           ++ discriminate.
           ++ constructor; [assumption|]. eapply Forall_impl; [|exact Hsk]. intros a Ha. rewrite <- Hpe. exact Ha.
           ++ exact Hplan.
           ++ rewrite Hcons. unfold s1. cbn [consumed set_err take_host touch]. rewrite <- app_assoc. reflexivity.
           ++ rewrite Hev. cbn [map]. rewrite R. reflexivity.
           ++ exact Hatt.
           ++ exact Hel.
           ++ exact Hexc.
           ++ exact Harm.
    + inversion H; subst; clear H.
      apply (walked_sent _ _ _ _ _ [] h rest); try reflexivity.
      * constructor.
      * apply reason_healthy. exact R.
Qed.

Lemma walk_frame_ok : forall p s b s' ev, walk s p b = (s', ev) -> walk_frame s s'.
Proof.
  induction p as [|h rest IH]; intros s b s' ev H.
  - cbn in H. inversion H; subst. destruct b; [|constructor; auto].
    pose proof (fail_with_same s XNoHost) as F. pose proof (fail_with_exc s XNoHost) as [_ Fr].
    destruct F. constructor; try assumption. unfold fail_with. destruct (completed s); auto.
  - cbn [walk] in H. rewrite query_eq in H.
    destruct (reason (pool_of (take_host s h rest) h)) as [e|].
    + set (s1 := set_err (touch (take_host s h rest) (pool_of (take_host s h rest) h)) h e) in *.
      assert (El1 : elapsed s = true -> elapsed s1 = true) by (intros E; unfold s1; cbn; rewrite E; reflexivity).
      destruct (elapsed s1) eqn:El.
      * inversion H; subst; clear H. destruct (on_timeout_exc s1) as (_ & Or & Oel & _).
        destruct (on_timeout_same s1) as [[_ F]|[_ E]].
        -- destruct F. constructor; try (unfold s1 in *; cbn in *; congruence). all: intros _; rewrite Oel; exact El.
        -- rewrite E. constructor; try reflexivity. all: intros _; exact El.
      * destruct (walk s1 rest b) as [s2 ev2] eqn:W.
        inversion H; subst; clear H. apply IH in W. destruct W.
        constructor; try (unfold s1 in *; cbn in *; congruence). all: intros E; apply El1 in E; congruence.
    + inversion H; subst. constructor; try reflexivity. all: cbn; intros ->; reflexivity.
Qed.

Lemma on_timeout_errors s : errors (on_timeout s) = errors s.
Proof. destruct (on_timeout_same s) as [[_ F]|[_ E]]; [apply F|rewrite E; reflexivity]. Qed.

(* error map after a walk: old keys stay, every skipped host gets its reason *)
Lemma walk_errors_keys : forall p s b s' ev, walk s p b = (s', ev) ->
  forall x, In x (keys (errors s')) <-> In x (keys (errors s)) \/ In (x) (map (fun e => match e with ErrSet h _ => h | _ => -1 end)
                                                                         (filter (fun e => match e with ErrSet _ _ => true | _ => false end) ev)).
Proof.
  induction p as [|h rest IH]; intros s b s' ev H x.
  - cbn in H. inversion H; subst. destruct b; [rewrite (sbo_errors _ _ (fail_with_same s XNoHost))|]; cbn; tauto.
  - cbn [walk] in H. rewrite query_eq in H.
    destruct (reason (pool_of (take_host s h rest) h)) as [e|].
    + set (s1 := set_err (touch (take_host s h rest) (pool_of (take_host s h rest) h)) h e) in *.
      destruct (elapsed s1).
      * inversion H; subst; clear H. rewrite on_timeout_errors. unfold s1. cbn [errors set_err take_host touch app filter map].
        rewrite keys_upd. cbn. intuition congruence.
      * destruct (walk s1 rest b) as [s2 ev2] eqn:W.
        inversion H; subst; clear H. rewrite (IH _ _ _ _ W). unfold s1. cbn [errors set_err take_host touch app filter map].
        rewrite keys_upd. cbn. intuition congruence.
    + inversion H; subst. cbn. intuition congruence.
Qed.

Lemma walk_errors_mono p s b s' ev x : walk s p b = (s', ev) -> In x (keys (errors s)) -> In x (keys (errors s')).
Proof. intros W H. apply (walk_errors_keys _ _ _ _ _ W). auto. Qed.

Lemma walked_skipped_in_errors : forall p s b s' ev, walk s p b = (s', ev) ->
  forall x e, In (ErrSet x e) ev -> In x (keys (errors s')).
Proof.
  intros p s b s' ev W x e Hin. apply (walk_errors_keys _ _ _ _ _ W). right.
  apply in_map_iff. exists (ErrSet x e). split; [reflexivity|]. apply filter_In. auto.
Qed.

(* the reason recorded for a skipped host is the last write for that host *)
Definition errset_for (x : host) (ev : list event) : bool :=
  existsb (fun e => match e with ErrSet h _ => h =? x | _ => false end) ev.

Lemma walk_lookup_frame : forall p s b s' ev x, walk s p b = (s', ev) -> errset_for x ev = false ->
  lookup (errors s') x = lookup (errors s) x.
Proof.
  induction p as [|h rest IH]; intros s b s' ev x H Hn.
  - cbn in H. inversion H; subst. destruct b; [rewrite (sbo_errors _ _ (fail_with_same s XNoHost))|]; reflexivity.
  - cbn [walk] in H. rewrite query_eq in H.
    destruct (reason (pool_of (take_host s h rest) h)) as [e|].
    + set (s1 := set_err (touch (take_host s h rest) (pool_of (take_host s h rest) h)) h e) in *.
      destruct (elapsed s1).
      * inversion H; subst; clear H. cbn in Hn. apply orb_false_iff in Hn. destruct Hn as [Hx Hn].
        rewrite on_timeout_errors. unfold s1. cbn [errors set_err take_host touch].
        apply lookup_upd_other. intros ->. rewrite Z.eqb_refl in Hx. discriminate.
      * destruct (walk s1 rest b) as [s2 ev2] eqn:W.
        inversion H; subst; clear H. cbn in Hn. apply orb_false_iff in Hn. destruct Hn as [Hx Hn].
        rewrite (IH _ _ _ _ _ W Hn). unfold s1. cbn [errors set_err take_host touch].
        apply lookup_upd_other. intros ->. rewrite Z.eqb_refl in Hx. discriminate.
    + inversion H; subst. reflexivity.
Qed.

Lemma walk_lookup : forall p s b s' ev x, walk s p b = (s', ev) -> errset_for x ev = true ->
  lookup (errors s') x = reason (pool_of s x).
Proof.
  induction p as [|h rest IH]; intros s b s' ev x H Hy.
  - cbn in H. inversion H; subst. discriminate.
  - cbn [walk] in H. rewrite query_eq in H.
    assert (Hpo : pool_of (take_host s h rest) h = pool_of s h) by reflexivity. rewrite Hpo in H.
    destruct (reason (pool_of s h)) as [e|] eqn:R.
    + set (s1 := set_err (touch (take_host s h rest) (pool_of s h)) h e) in *.
      destruct (elapsed s1).
      * inversion H; subst; clear H. cbn in Hy. rewrite orb_false_r in Hy. apply Z.eqb_eq in Hy. subst x.
        rewrite on_timeout_errors. unfold s1. cbn [errors set_err take_host touch]. rewrite lookup_upd_same. symmetry. exact R.
      * destruct (walk s1 rest b) as [s2 ev2] eqn:W.
        inversion H; subst; clear H.
        destruct (errset_for x ev2) eqn:E2.
        -- rewrite (IH _ _ _ _ _ W E2). reflexivity.
        -- change (errset_for x (ErrSet h e :: ev2)) with ((h =? x) || errset_for x ev2) in Hy.
           rewrite E2, orb_false_r in Hy. apply Z.eqb_eq in Hy. subst x.
           rewrite (walk_lookup_frame _ _ _ _ _ _ W E2). unfold s1. cbn [errors set_err take_host touch].
           rewrite lookup_upd_same. symmetry. exact R.
    + inversion H; subst. cbn in Hy. discriminate.
Qed.

(* ------------------------------------------------------------------ which hosts a state / event list mentions *)
Definition task_host (t : task) : host :=
  match t with TRetry _ h => h | TReprepare h _ _ => h | TAfterPrepare h _ => h end.

Definition sent_hosts (ev : list event) : list host :=
  flat_map (fun e => match e with Sent h _ _ => [h] | _ => [] end) ev.

Definition hosts_of (s : state) (ev : list event) : list host :=
  map a_host (attempts s) ++ map task_host (queue s) ++ keys (errors s) ++ sent_hosts ev.

Definition all_in (l : list host) (X : host -> Prop) : Prop := forall x, In x l -> X x.

Lemma sent_hosts_app a b : sent_hosts (a ++ b) = sent_hosts a ++ sent_hosts b.
Proof. unfold sent_hosts. apply flat_map_app. Qed.

Lemma plan_sends_app a b : plan_sends (a ++ b) = plan_sends a ++ plan_sends b.
Proof. unfold plan_sends. apply flat_map_app. Qed.

Lemma hosts_of_in s ev x :
  In x (hosts_of s ev) <-> In x (map a_host (attempts s)) \/ In x (map task_host (queue s)) \/ In x (keys (errors s))
                           \/ In x (sent_hosts ev).
Proof. unfold hosts_of. rewrite !in_app_iff. tauto. Qed.

Lemma query_hosts s h m c s' ev ok (X : host -> Prop) :
  query s h m c = (s', ev, ok) -> X h -> all_in (hosts_of s []) X -> all_in (hosts_of s' ev) X.
Proof.
  rewrite query_eq. intros H Xh A x Hx. apply hosts_of_in in Hx.
  destruct (reason (pool_of s h)); inversion H; subst; clear H;
    cbn [attempts queue errors set_err add_attempt touch sent_hosts flat_map app] in Hx.
  - rewrite keys_upd in Hx. destruct Hx as [Hx|[Hx|[[->|Hx]|[]]]]; auto; apply A, hosts_of_in; auto.
  - rewrite map_app, in_app_iff in Hx. cbn in Hx.
    destruct Hx as [[Hx|[<-|[]]]|[Hx|[Hx|[<-|[]]]]]; auto; apply A, hosts_of_in; auto.
Qed.

Lemma walk_hosts : forall p s b s' ev (X : host -> Prop),
  walk s p b = (s', ev) -> all_in (hosts_of s []) X -> all_in (consumed s') X -> all_in (hosts_of s' ev) X.
Proof.
  intros p s b s' ev X W A C x Hx. apply hosts_of_in in Hx.
  pose proof (walk_walked _ _ _ _ _ W) as WW. pose proof (walk_frame_ok _ _ _ _ _ W) as F.
  pose proof (walk_errors_keys _ _ _ _ _ W x) as K.
  assert (Hq : In x (map task_host (queue s')) -> X x).
  { rewrite (wf_queue _ _ F). intros Hq. apply A, hosts_of_in. auto. }
  destruct WW as [sk h rest Hp Hsk Hh Hplan Hcons Hev Hatt Hexc Harm | Hsk Hplan Hcons Hev Hatt Hexc Harm
                 | sk rest Hp Hne Hsk Hplan Hcons Hev Hatt Hel Hexc Harm].
  - assert (Csk : forall y, In y sk -> X y).
    { intros y Hy. apply C. rewrite Hcons, !in_app_iff. auto. }
    assert (Ch : X h) by (apply C; rewrite Hcons, !in_app_iff; cbn; auto).
    destruct Hx as [Hx|[Hx|[Hx|Hx]]]; auto.
    + rewrite Hatt, map_app, in_app_iff in Hx. cbn in Hx. destruct Hx as [Hx|[<-|[]]]; auto.
      apply A, hosts_of_in. auto.
    + apply K in Hx. destruct Hx as [Hx|Hx]; [apply A, hosts_of_in; auto|].
      rewrite Hev in Hx. apply in_map_iff in Hx. destruct Hx as (e & <- & He). apply filter_In in He.
      destruct He as [He Hf]. apply in_app_iff in He. destruct He as [He|[<-|[]]]; [|discriminate].
      apply in_map_iff in He. destruct He as (y & <- & Hy). auto.
    + rewrite Hev, sent_hosts_app, in_app_iff in Hx. destruct Hx as [Hx|Hx].
      * exfalso. clear -Hx. induction sk; cbn in Hx; auto.
      * cbn in Hx. destruct Hx as [<-|[]]. exact Ch.
  - assert (Cp : forall y, In y p -> X y).
    { intros y Hy. apply C. rewrite Hcons, in_app_iff. auto. }
    destruct Hx as [Hx|[Hx|[Hx|Hx]]]; auto.
    + rewrite Hatt in Hx. apply A, hosts_of_in. auto.
    + apply K in Hx. destruct Hx as [Hx|Hx]; [apply A, hosts_of_in; auto|].
      rewrite Hev in Hx. apply in_map_iff in Hx. destruct Hx as (e & <- & He). apply filter_In in He.
      destruct He as [He Hf]. apply in_map_iff in He. destruct He as (y & <- & Hy). auto.
    + exfalso. rewrite Hev in Hx. clear -Hx. induction p; cbn in Hx; auto.
  - assert (Cp : forall y, In y sk -> X y).
    { intros y Hy. apply C. rewrite Hcons, in_app_iff. auto. }
    destruct Hx as [Hx|[Hx|[Hx|Hx]]]; auto.
    + rewrite Hatt in Hx. apply A, hosts_of_in. auto.
    + apply K in Hx. destruct Hx as [Hx|Hx]; [apply A, hosts_of_in; auto|].
      rewrite Hev in Hx. apply in_map_iff in Hx. destruct Hx as (e & <- & He). apply filter_In in He.
      destruct He as [He Hf]. apply in_map_iff in He. destruct He as (y & <- & Hy). auto.
    + exfalso. rewrite Hev in Hx. clear -Hx. induction sk; cbn in Hx; auto.
Qed.

(* plan bookkeeping of one send_request *)
Inductive subseq {A} : list A -> list A -> Prop :=
| subseq_nil : subseq [] []
| subseq_skip x l1 l2 : subseq l1 l2 -> subseq l1 (x :: l2)
| subseq_take x l1 l2 : subseq l1 l2 -> subseq (x :: l1) (x :: l2).

Lemma subseq_nil_l {A} (l : list A) : subseq [] l.
Proof. induction l; [apply subseq_nil|apply subseq_skip; assumption]. Qed.

Lemma subseq_refl {A} (l : list A) : subseq l l.
Proof. induction l; [apply subseq_nil|apply subseq_take; assumption]. Qed.

Lemma subseq_app {A} (a b c d : list A) : subseq a b -> subseq c d -> subseq (a ++ c) (b ++ d).
Proof. induction 1; cbn; intros H2; [exact H2|apply subseq_skip; auto|apply subseq_take; auto]. Qed.

Lemma subseq_in {A} (a b : list A) x : subseq a b -> In x a -> In x b.
Proof. induction 1; cbn; intuition. Qed.

Lemma subseq_nodup {A} (a b : list A) : subseq a b -> NoDup b -> NoDup a.
Proof.
  induction 1; intros N; [constructor| |]; inversion N; subst; auto.
  constructor; auto. intros Hin. apply H2. eapply subseq_in; eauto.
Qed.

Lemma plan_sends_errsets (f : host -> err) l : plan_sends (map (fun x => ErrSet x (f x)) l) = [].
Proof. induction l; cbn; auto. Qed.

Inductive plan_move (s s' : state) (ev : list event) : Prop :=
| Build_plan_move (pm_extra : list host)
    (pm_cons : consumed s' = consumed s ++ pm_extra)
    (pm_plan : plan s = pm_extra ++ plan s')
    (pm_sends : subseq (plan_sends ev) pm_extra).

Lemma plan_move_id s s' ev : consumed s' = consumed s -> plan s' = plan s -> plan_sends ev = [] -> plan_move s s' ev.
Proof.
  intros C P E. apply (Build_plan_move _ _ _ []); [rewrite app_nil_r; exact C|rewrite P; reflexivity|rewrite E; constructor].
Qed.

Lemma send_request_move s b s' ev : send_request s b = (s', ev) -> plan_move s s' ev.
Proof.
  unfold send_request. intros W. apply walk_walked in W.
  destruct W as [sk h rest Hp Hsk Hh Hplan Hcons Hev Hatt Hexc Harm | Hsk Hplan Hcons Hev Hatt Hexc Harm
                | sk rest Hp Hne Hsk Hplan Hcons Hev Hatt Hel Hexc Harm].
  - apply (Build_plan_move _ _ _ (sk ++ [h])); [exact Hcons|rewrite Hp, Hplan, <- app_assoc; reflexivity|].
    rewrite Hev, plan_sends_app, plan_sends_errsets. cbn.
    apply (subseq_app [] sk [h] [h]); [apply subseq_nil_l|apply subseq_refl].
  - apply (Build_plan_move _ _ _ (plan s)); [exact Hcons| |].
    + rewrite Hplan. destruct (plan s); [reflexivity|rewrite app_nil_r; reflexivity].
    + rewrite Hev, plan_sends_errsets. apply subseq_nil_l.
  - apply (Build_plan_move _ _ _ sk); [exact Hcons|rewrite Hp, Hplan; reflexivity|].
    rewrite Hev, plan_sends_errsets. apply subseq_nil_l.
Qed.

Lemma plan_move_trans s1 s2 s3 ev1 ev2 : plan_move s1 s2 ev1 -> plan_move s2 s3 ev2 -> plan_move s1 s3 (ev1 ++ ev2).
Proof.
  intros [e1 C1 P1 S1] [e2 C2 P2 S2]. apply (Build_plan_move _ _ _ (e1 ++ e2)).
  - rewrite C2, C1, app_assoc. reflexivity.
  - rewrite P1, P2, app_assoc. reflexivity.
  - rewrite plan_sends_app. apply subseq_app; assumption.
Qed.
