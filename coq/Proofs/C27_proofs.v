(* Lemmas for C27 (and the lexical lemmas C29 reuses). *)
From Coq Require Import String Ascii.
From Coq Require Import ZArith List Bool Lia.
From Verif Require Import CqlKeywords CqlLex.
Import ListNotations.
Local Open Scope Z_scope.

(* the rest of the input does not continue a token made of p-characters *)
Definition stops (p : Z -> bool) (rest : str) : Prop :=
  match rest with c :: _ => p c = false | [] => True end.

Lemma span_app : forall p l rest, forallb p l = true -> stops p rest -> span p (l ++ rest) = (l, rest).
Proof.
  intros p l rest; induction l as [|a l IH]; intros Hall Hst.
  - destruct rest as [|c r]; [reflexivity|]. cbn in *. rewrite Hst. reflexivity.
  - cbn in Hall. apply andb_true_iff in Hall. destruct Hall as [Ha Hl].
    cbn [app span]. rewrite Ha, (IH Hl Hst). reflexivity.
Qed.

Lemma span_all : forall p l, forallb p l = true -> span p l = (l, []).
Proof. intros p l H. rewrite <- (app_nil_r l) at 1. apply span_app; [assumption|exact I]. Qed.

Lemma str_eqb_refl : forall a, str_eqb a a = true.
Proof. induction a as [|x a IH]; [reflexivity|]. cbn. rewrite Z.eqb_refl, IH. reflexivity. Qed.

Lemma str_eqb_eq : forall a b, str_eqb a b = true -> a = b.
Proof.
  induction a as [|x a IH]; destruct b as [|y b]; cbn; intros H; try discriminate; [reflexivity|].
  apply andb_true_iff in H. destruct H as [H1 H2]. apply Z.eqb_eq in H1. subst. f_equal. auto.
Qed.

(* ---------- quoted tokens ---------- *)
Lemma lex_quoted_body_esc : forall q n rest,
  stops (Z.eqb q) rest ->
  lex_quoted_body q (double_q q n ++ q :: rest) = Some (n, rest).
Proof.
  intros q n rest Hst. induction n as [|a n IH].
  - cbn. rewrite Z.eqb_refl. destruct rest as [|c r]; [reflexivity|].
    cbn in Hst. rewrite Z.eqb_sym, Hst. reflexivity.
  - unfold double_q in *. cbn [flat_map]. destruct (a =? q) eqn:Haq.
    + apply Z.eqb_eq in Haq. subst a. cbn [app lex_quoted_body]. rewrite Z.eqb_refl. rewrite IH. reflexivity.
    + cbn [app lex_quoted_body]. rewrite Haq, IH. reflexivity.
Qed.

Lemma lex_ident_escape_name_app : forall n rest, stops (Z.eqb DQ) rest ->
  lex_ident (escape_name n ++ rest) = Some (n, rest).
Proof.
  intros n rest H. unfold escape_name, lex_ident. cbn [app]. rewrite Z.eqb_refl.
  rewrite <- app_assoc. cbn [app]. apply lex_quoted_body_esc; assumption.
Qed.

Lemma quoted_roundtrip : forall n, lex_ident (escape_name n) = Some (n, []).
Proof. intros n. rewrite <- (app_nil_r (escape_name n)). apply lex_ident_escape_name_app. exact I. Qed.

Lemma lex_string_cql_quote_app : forall s rest, stops (Z.eqb SQ) rest ->
  lex_string (cql_quote s ++ rest) = Some (s, rest).
Proof.
  intros s rest H. unfold cql_quote, lex_string. cbn [app]. rewrite Z.eqb_refl.
  rewrite <- app_assoc. cbn [app]. apply lex_quoted_body_esc; assumption.
Qed.

Lemma string_roundtrip : forall s, lex_string (cql_quote s) = Some (s, []).
Proof. intros s. rewrite <- (app_nil_r (cql_quote s)). apply lex_string_cql_quote_app. exact I. Qed.

Lemma double_q_length : forall q n, (length n <= length (double_q q n))%nat.
Proof.
  intros q n; induction n as [|a n IH]; [cbn; lia|].
  unfold double_q in *. cbn [flat_map]. rewrite app_length. destruct (a =? q); cbn; lia.
Qed.

Lemma escape_name_neq : forall n, escape_name n <> n.
Proof.
  intros n H. apply (f_equal (@length Z)) in H. unfold escape_name in H. cbn in H.
  rewrite app_length in H. cbn in H. pose proof (double_q_length DQ n). lia.
Qed.

(* ---------- unquoted names ---------- *)
(* facts about the character classes REGENERATED from valid_cql3_word_re: they break if the regex accepts
   anything CQL would not read back unchanged *)
Lemma word_first_ok : forall c, in_ranges word_re_first c = true -> is_lower c = true.
Proof.
  intros c. unfold in_ranges, word_re_first, is_lower. cbn [existsb fst snd]. intros H.
  repeat (apply orb_true_iff in H; destruct H as [H|H]); try discriminate;
    apply andb_true_iff in H; destruct H as [H1 H2]; apply Z.leb_le in H1, H2; apply andb_true_iff; split; apply Z.leb_le; lia.
Qed.

Lemma word_rest_ok : forall c, in_ranges word_re_rest c = true -> is_ident_char c = true /\ is_upper c = false.
Proof.
  intros c. unfold in_ranges, word_re_rest, is_ident_char, is_letter, is_upper, is_lower, is_digit. cbn [existsb fst snd]. intros H.
  repeat (apply orb_true_iff in H; destruct H as [H|H]); try discriminate;
    apply andb_true_iff in H; destruct H as [H1 H2]; apply Z.leb_le in H1, H2;
    (split; [|apply andb_false_iff; destruct (Z.leb_spec 65 c); [right; apply Z.leb_gt; lia|left; reflexivity]]).
  all: repeat rewrite orb_true_iff; repeat rewrite andb_true_iff; repeat rewrite Z.leb_le; rewrite Z.eqb_eq; lia.
Qed.

Lemma span_fst_all : forall p s, forallb p (fst (span p s)) = true.
Proof.
  intros p s; induction s as [|c s IH]; [reflexivity|]. cbn. destruct (p c) eqn:Hc; [|reflexivity].
  destruct (span p s) as [a b]. cbn in *. rewrite Hc, IH. reflexivity.
Qed.

Lemma span_split : forall p s, s = fst (span p s) ++ snd (span p s).
Proof.
  intros p s; induction s as [|c s IH]; [reflexivity|]. cbn. destruct (p c); [|reflexivity].
  destruct (span p s) as [a b]. cbn in *. f_equal. exact IH.
Qed.

Lemma forallb_impl : forall (p q : Z -> bool) l, (forall c, p c = true -> q c = true) -> forallb p l = true -> forallb q l = true.
Proof.
  intros p q l H; induction l as [|a l IH]; [reflexivity|]. cbn. intros Hl. apply andb_true_iff in Hl.
  destruct Hl as [Ha Hl]. rewrite (H _ Ha), (IH Hl). reflexivity.
Qed.

Lemma map_to_lower_id : forall l, forallb (fun c => negb (is_upper c)) l = true -> map to_lower l = l.
Proof.
  induction l as [|a l IH]; [reflexivity|]. cbn. intros H. apply andb_true_iff in H. destruct H as [Ha Hl].
  unfold to_lower at 1. apply negb_true_iff in Ha. rewrite Ha, (IH Hl). reflexivity.
Qed.

(* a name the strict regex (no `$` slack) accepts is read back unchanged by CQL *)
Lemma strict_word_lexes : forall n, word_re_match_d false n = true ->
  map to_lower n = n /\ exists c n', n = c :: n' /\ is_letter c = true /\ (c =? DQ) = false /\ span is_ident_char n = (n, []).
Proof.
  intros n H. destruct n as [|c n']; [discriminate|]. cbn [word_re_match_d] in H.
  apply andb_true_iff in H. destruct H as [Hc Hr].
  apply word_first_ok in Hc.
  pose proof (span_fst_all (in_ranges word_re_rest) n') as Hall.
  pose proof (span_split (in_ranges word_re_rest) n') as Hsp.
  destruct (span (in_ranges word_re_rest) n') as [a b]. cbn [fst snd] in *.
  assert (b = []) as ->. { destruct b as [|x [|y b]]; [reflexivity| |]; cbn in Hr; discriminate. }
  rewrite app_nil_r in Hsp. subst a.
  assert (Hlow : is_upper c = false).
  { unfold is_lower, is_upper in *. apply andb_true_iff in Hc. destruct Hc as [H1 H2]. apply Z.leb_le in H1.
    apply andb_false_iff. right. apply Z.leb_gt. lia. }
  assert (Hic : is_ident_char c = true). { unfold is_ident_char, is_letter. rewrite Hc. rewrite orb_true_r. reflexivity. }
  split.
  - cbn [map]. unfold to_lower at 1. rewrite Hlow. f_equal. apply map_to_lower_id.
    eapply forallb_impl; [|exact Hall]. intros x Hx. apply word_rest_ok in Hx. destruct Hx as [_ Hx]. rewrite Hx. reflexivity.
  - exists c, n'. split; [reflexivity|]. split; [unfold is_letter; rewrite Hc; apply orb_true_r|]. split.
    + unfold is_lower in Hc. apply andb_true_iff in Hc. destruct Hc as [H1 _]. apply Z.leb_le in H1. apply Z.eqb_neq. unfold DQ. lia.
    + apply span_all. cbn [forallb]. rewrite Hic. cbn [andb].
      eapply forallb_impl; [|exact Hall]. intros x Hx. apply word_rest_ok in Hx. tauto.
Qed.

(* the regenerated driver table still contains every core reserved word (breaks when a word is dropped from the source) *)
Lemma core_in_driver : forallb (fun w => mem_str w driver_reserved_words) core_reserved_words = true.
Proof. vm_compute. reflexivity. Qed.

Lemma core_sub : forall w, mem_str w core_reserved_words = true -> driver_reserved w = true.
Proof.
  intros w H. unfold mem_str in H. apply existsb_exists in H. destruct H as (x & Hin & Heq). apply str_eqb_eq in Heq. subst x.
  pose proof core_in_driver as Hc. rewrite forallb_forall in Hc. exact (Hc w Hin).
Qed.

Lemma unquoted_ok_strict : forall n, maybe_escape_name_d false n = n ->
  lex_ident n = Some (n, []) /\ reserved n = false.
Proof.
  intros n H. unfold maybe_escape_name_d in H. destruct (is_valid_name_d false n) eqn:Hv.
  2:{ exfalso. exact (escape_name_neq n H). }
  unfold is_valid_name_d in Hv. destruct (driver_reserved (py_lower n)) eqn:Hres; [discriminate|].
  apply strict_word_lexes in Hv. destruct Hv as [Hlow (c & n' & Hn & Hlet & Hdq & Hspan)].
  unfold py_lower in Hres. rewrite Hlow in Hres.
  assert (Hr : reserved n = false).
  { unfold reserved. rewrite Hres. destruct (mem_str n core_reserved_words) eqn:E; [|reflexivity].
    apply core_sub in E. congruence. }
  split; [|exact Hr].
  unfold lex_ident. rewrite Hn at 1. rewrite Hdq, Hlet. rewrite Hspan, Hlow, Hr. reflexivity.
Qed.

(* ---------- integers ---------- *)
Definition value_le (l : list Z) : Z := fold_right (fun d acc => d + 10 * acc) 0 l.

Lemma le_digits_value : forall f n, 0 <= n < 2 ^ Z.of_nat f -> value_le (le_digits f n) = n.
Proof.
  induction f as [|f IH]; intros n Hn.
  - cbn in *. lia.
  - cbn [le_digits value_le fold_right]. destruct (n <? 10) eqn:Hlt.
    + apply Z.ltb_lt in Hlt. cbn. rewrite Z.mod_small; lia.
    + apply Z.ltb_ge in Hlt. fold (value_le (le_digits f (n / 10))). rewrite IH.
      * pose proof (Z.div_mod n 10). lia.
      * rewrite Nat2Z.inj_succ, Z.pow_succ_r in Hn by lia. split; [apply Z.div_pos; lia|].
        apply Z.div_lt_upper_bound; lia.
Qed.

Lemma le_digits_range : forall f n, 0 <= n -> Forall (fun d => 0 <= d <= 9) (le_digits f n).
Proof.
  induction f as [|f IH]; intros n Hn; [constructor|]. cbn [le_digits]. constructor.
  - pose proof (Z.mod_pos_bound n 10). lia.
  - destruct (n <? 10); [constructor|]. apply IH. apply Z.div_pos; lia.
Qed.

Lemma le_digits_nonempty : forall f n, le_digits (S f) n <> [].
Proof. intros f n. cbn. discriminate. Qed.

Lemma digits_value_rev : forall l, digits_value (map (fun d => 48 + d) (rev l)) = value_le l.
Proof.
  intros l. unfold digits_value, value_le. induction l as [|d l IH]; [reflexivity|].
  cbn [rev fold_right]. rewrite map_app, fold_left_app. cbn [map fold_left]. rewrite IH. lia.
Qed.

Lemma log2_fuel : forall n, 0 <= n -> 0 <= n < 2 ^ Z.of_nat (S (Z.to_nat (Z.log2 n))).
Proof.
  intros n Hn. split; [assumption|]. rewrite Nat2Z.inj_succ, Z2Nat.id by apply Z.log2_nonneg.
  destruct (Z.eq_dec n 0) as [->|Hz]; [cbn; lia|]. apply Z.log2_spec. lia.
Qed.

Lemma str_nat_value : forall n, 0 <= n -> digits_value (str_nat n) = n.
Proof. intros n Hn. unfold str_nat. rewrite digits_value_rev. apply le_digits_value. apply log2_fuel. assumption. Qed.

Lemma str_nat_digits : forall n, 0 <= n -> forallb is_digit (str_nat n) = true.
Proof.
  intros n Hn. unfold str_nat. apply forallb_forall. intros x Hx. apply in_map_iff in Hx.
  destruct Hx as (d & <- & Hd). apply in_rev in Hd.
  pose proof (le_digits_range (S (Z.to_nat (Z.log2 n))) n Hn) as HF. rewrite Forall_forall in HF. apply HF in Hd.
  unfold is_digit. apply andb_true_iff. split; apply Z.leb_le; lia.
Qed.

Lemma str_nat_nonempty : forall n, str_nat n <> [].
Proof.
  intros n H. unfold str_nat in H. apply map_eq_nil in H. apply (f_equal (@rev Z)) in H. rewrite rev_involutive in H.
  cbn [rev] in H. exact (le_digits_nonempty _ _ H).
Qed.

Lemma str_nat_head : forall n, 0 <= n -> exists c r, str_nat n = c :: r /\ is_digit c = true.
Proof.
  intros n Hn. pose proof (str_nat_digits n Hn) as Hd. pose proof (str_nat_nonempty n) as Hne.
  destruct (str_nat n) as [|c r]; [contradiction|]. exists c, r. split; [reflexivity|].
  cbn in Hd. apply andb_true_iff in Hd. tauto.
Qed.

Lemma lex_integer_str_int_app : forall z rest, stops is_digit rest -> lex_integer (str_int z ++ rest) = Some (z, rest).
Proof.
  intros z rest Hst. unfold str_int. destruct (z <? 0) eqn:Hneg.
  - apply Z.ltb_lt in Hneg. cbn [app lex_integer]. change (45 =? 45) with true. cbv iota.
    rewrite span_app; [|apply str_nat_digits; lia|assumption].
    pose proof (str_nat_nonempty (- z)). destruct (str_nat (- z)) eqn:E; [contradiction|]. rewrite <- E.
    rewrite str_nat_value by lia. f_equal. f_equal. lia.
  - apply Z.ltb_ge in Hneg. destruct (str_nat_head z Hneg) as (c & r & E & Hc).
    assert (Hc45 : (c =? 45) = false).
    { unfold is_digit in Hc. apply andb_true_iff in Hc. destruct Hc as [H1 _]. apply Z.leb_le in H1. apply Z.eqb_neq. lia. }
    assert (Hsp : span is_digit (str_nat z ++ rest) = (str_nat z, rest)).
    { apply span_app; [apply str_nat_digits; assumption|assumption]. }
    pose proof (str_nat_value z Hneg) as Hv.
    rewrite E in *. cbn [app] in *. unfold lex_integer. rewrite Hc45, Hsp, Hv. reflexivity.
Qed.

Lemma lex_integer_str_int : forall z, lex_integer (str_int z) = Some (z, []).
Proof. intros z. rewrite <- (app_nil_r (str_int z)). apply lex_integer_str_int_app. exact I. Qed.

(* ---------- protect_value ---------- *)
Lemma protect_value_str : forall s, lex_string (protect_value (PVStr s)) = Some (s, []).
Proof. intros s. exact (string_roundtrip s). Qed.

Lemma protect_value_int : forall z, lex_integer (protect_value (PVInt z)) = Some (z, []).
Proof. intros z. exact (lex_integer_str_int z). Qed.

Lemma protect_value_none : lex_word (protect_value PVNone) = (codes "null", []).
Proof. vm_compute. reflexivity. Qed.

Lemma protect_value_bool : forall b, lex_word (protect_value (PVBool b)) = (if b then codes "true" else codes "false", []).
Proof. intros [|]; vm_compute; reflexivity. Qed.

(* ---------- USE ---------- *)
Lemma use_keyspace_escaped : forall ks, lex_use (use_keyspace_e true ks) = Some ks.
Proof.
  intros ks. unfold use_keyspace_e.
  change (codes "USE ") with [85; 83; 69; 32].
  unfold lex_use, lex_word. cbn [app span].
  change (is_ident_char 85) with true. change (is_ident_char 83) with true. change (is_ident_char 69) with true.
  change (is_ident_char 32) with false. cbv iota beta.
  change (str_eqb (map to_lower [85; 83; 69]) (codes "use")) with true. cbv iota.
  change (is_space 32) with true. cbv iota.
  unfold skip_spaces. cbn [span]. change (is_space 32) with true. cbv iota.
  assert (Hsp : span is_space (escape_name ks) = ([], escape_name ks)) by reflexivity.
  rewrite Hsp. cbn [snd]. rewrite quoted_roundtrip. reflexivity.
Qed.

(* ---------- the working tree's functions (constants regenerated from source) ---------- *)
(* These two lemmas are where the regenerated constants enter: they stop compiling if the regex regains the
   `$` slack or the USE statement loses its escaping. *)
Lemma unquoted_ok : forall n, maybe_escape_name n = n -> lex_ident n = Some (n, []) /\ reserved n = false.
Proof. unfold maybe_escape_name. change word_re_dollar with false. exact unquoted_ok_strict. Qed.

Lemma protect_name_roundtrip : forall n, lex_ident (protect_name n) = Some (n, []).
Proof.
  intros n. unfold protect_name. pose proof (unquoted_ok n) as H. unfold maybe_escape_name, maybe_escape_name_d in *.
  destruct (is_valid_name_d word_re_dollar n); [apply H; reflexivity|apply quoted_roundtrip].
Qed.

Lemma use_keyspace_roundtrip : forall ks, lex_use (use_keyspace ks) = Some ks.
Proof. unfold use_keyspace. change use_escapes with true. exact use_keyspace_escaped. Qed.

(* ---------- the defective variants, kept as a record (witnesses replayed by checks/C27.py) ---------- *)
Lemma dollar_anchor_refuted : ~ (forall n, maybe_escape_name_d true n = n -> lex_ident n = Some (n, [])).
Proof. intros H. specialize (H [97; 10] eq_refl). vm_compute in H. discriminate. Qed.

Lemma use_unescaped_refuted : ~ (forall ks, lex_use (use_keyspace_e false ks) = Some ks).
Proof. intros H. specialize (H [97; 34; 98]). vm_compute in H. discriminate. Qed.

(* ---------- whole-statement tokenizer: schema export producers ---------- *)
Lemma tokenize_step : forall f s, tokenize (S f) s =
    match s with
    | [] => Some []
    | c :: s' =>
      if is_space c then tokenize f s'
      else if c =? SQ then match lex_quoted_body SQ s' with Some (v, r) => pre (TStrLit v) (tokenize f r) | None => None end
      else if c =? DQ then match lex_quoted_body DQ s' with Some (v, r) => pre (TId v) (tokenize f r) | None => None end
      else if is_letter c then
        let (w, r) := span is_ident_char s in
        let lw := map to_lower w in
        pre (if reserved lw then TKw lw else TId lw) (tokenize f r)
      else if is_digit c then
        let (d, r) := span is_digit s in pre (TNum (digits_value d)) (tokenize f r)
      else pre (TP c) (tokenize f s')
    end.
Proof. reflexivity. Qed.

Lemma tokenize_mono : forall f s l, tokenize f s = Some l -> tokenize (S f) s = Some l.
Proof.
  induction f as [|f IH]; intros s l H; [discriminate|].
  assert (Hpre : forall t r, pre t (tokenize f r) = Some l -> pre t (tokenize (S f) r) = Some l).
  { intros t r Hp. destruct (tokenize f r) as [l0|] eqn:E; [|discriminate]. rewrite (IH _ _ E). exact Hp. }
  rewrite tokenize_step in H. rewrite (tokenize_step (S f) s).
  destruct s as [|c s']; [assumption|].
  destruct (is_space c); [apply IH; assumption|].
  destruct (c =? SQ). { destruct (lex_quoted_body SQ s') as [[v r]|]; [apply Hpre; assumption|discriminate]. }
  destruct (c =? DQ). { destruct (lex_quoted_body DQ s') as [[v r]|]; [apply Hpre; assumption|discriminate]. }
  destruct (is_letter c). { destruct (span is_ident_char (c :: s')) as [w r]. apply Hpre. assumption. }
  destruct (is_digit c). { destruct (span is_digit (c :: s')) as [d r]. apply Hpre. assumption. }
  apply Hpre. assumption.
Qed.

Lemma tokenize_ge : forall f g s l, (f <= g)%nat -> tokenize f s = Some l -> tokenize g s = Some l.
Proof. intros f g s l Hle H. induction Hle; [assumption|apply tokenize_mono; assumption]. Qed.

Definition name_stop (r : str) : Prop := stops (Z.eqb DQ) r /\ stops is_ident_char r.

Lemma tok_space : forall f r, tokenize (S f) (32 :: r) = tokenize f r.
Proof. reflexivity. Qed.

Lemma tok_punct : forall c f r, (c = 40 \/ c = 41 \/ c = 44 \/ c = 58 \/ c = 123 \/ c = 125) ->
  tokenize (S f) (c :: r) = pre (TP c) (tokenize f r).
Proof. intros c f r [-> | [-> | [-> | [-> | [-> | ->]]]]]; reflexivity. Qed.

Lemma tok_quoted_name : forall n f r, stops (Z.eqb DQ) r ->
  tokenize (S f) (escape_name n ++ r) = pre (TId n) (tokenize f r).
Proof.
  intros n f r H. unfold escape_name. cbn [app tokenize]. change (is_space DQ) with false. change (DQ =? SQ) with false.
  rewrite Z.eqb_refl. cbv iota. rewrite <- app_assoc. cbn [app]. rewrite (lex_quoted_body_esc DQ n r H). reflexivity.
Qed.

Lemma tok_string : forall s f r, stops (Z.eqb SQ) r ->
  tokenize (S f) (cql_quote s ++ r) = pre (TStrLit s) (tokenize f r).
Proof.
  intros s f r H. unfold cql_quote. cbn [app tokenize]. change (is_space SQ) with false. rewrite Z.eqb_refl. cbv iota.
  rewrite <- app_assoc. cbn [app]. rewrite (lex_quoted_body_esc SQ s r H). reflexivity.
Qed.

Lemma letter_facts : forall c, is_letter c = true -> is_space c = false /\ (c =? SQ) = false /\ (c =? DQ) = false.
Proof.
  intros c H. unfold is_letter, is_upper, is_lower in H. unfold is_space, SQ, DQ.
  apply orb_true_iff in H. destruct H as [H|H]; apply andb_true_iff in H; destruct H as [A B]; apply Z.leb_le in A, B;
    (split; [repeat (apply orb_false_iff; split); apply Z.eqb_neq; lia|split; apply Z.eqb_neq; lia]).
Qed.

Lemma tok_name_strict : forall n f r, name_stop r ->
  tokenize (S f) (maybe_escape_name_d false n ++ r) = pre (TId n) (tokenize f r).
Proof.
  intros n f r [Hdq Hid]. unfold maybe_escape_name_d. destruct (is_valid_name_d false n) eqn:Hv; [|apply tok_quoted_name; assumption].
  assert (Hm : maybe_escape_name_d false n = n) by (unfold maybe_escape_name_d; rewrite Hv; reflexivity).
  destruct (unquoted_ok_strict n Hm) as [_ Hres].
  unfold is_valid_name_d in Hv. destruct (driver_reserved (py_lower n)); [discriminate|].
  apply strict_word_lexes in Hv. destruct Hv as [Hlow (c & n' & Hn & Hlet & _ & Hspan)].
  assert (Hall : forallb is_ident_char n = true).
  { pose proof (span_fst_all is_ident_char n) as Hf. rewrite Hspan in Hf. exact Hf. }
  pose proof (span_app is_ident_char n r Hall Hid) as Hsp.
  destruct (letter_facts c Hlet) as (Hs & Hq & Hd).
  rewrite Hn in *. cbn [app] in *. cbn [tokenize]. rewrite Hs, Hq, Hd, Hlet, Hsp, Hlow, Hres. reflexivity.
Qed.

Lemma tok_protect_name : forall n f r, name_stop r ->
  tokenize (S f) (protect_name n ++ r) = pre (TId n) (tokenize f r).
Proof. unfold protect_name, maybe_escape_name. change word_re_dollar with false. exact tok_name_strict. Qed.

(* fuel and tokens of ", name, name ..." *)
Fixpoint fuel3 (l : list str) (f : nat) : nat := match l with [] => f | _ :: l' => S (S (S (fuel3 l' f))) end.
Fixpoint pre_list (ts : list tok) (o : option (list tok)) : option (list tok) :=
  match ts with [] => o | t :: ts' => pre t (pre_list ts' o) end.
Definition names_tail (l : list str) : str := flat_map (fun y => [44; 32] ++ protect_name y) l.

Lemma names_tail_eq : forall l, flat_map (fun y => [44; 32] ++ y) (map protect_name l) = names_tail l.
Proof. induction l as [|a l IH]; [reflexivity|]. cbn [map flat_map names_tail]. unfold names_tail in IH. rewrite IH. reflexivity. Qed.

Lemma name_stop_comma : forall r, name_stop (44 :: r).
Proof. intros r. split; reflexivity. Qed.
Lemma name_stop_paren : forall r, name_stop (41 :: r).
Proof. intros r. split; reflexivity. Qed.

Lemma tok_names_tail : forall l f r, name_stop r ->
  tokenize (fuel3 l f) (names_tail l ++ r) = pre_list (flat_map (fun y => [TP 44; TId y]) l) (tokenize f r).
Proof.
  induction l as [|a l IH]; intros f r Hr; [reflexivity|].
  cbn [fuel3 names_tail flat_map app]. rewrite <- !app_assoc. cbn [app].
  rewrite (tok_punct 44) by tauto. rewrite tok_space.
  assert (Hs : name_stop (names_tail l ++ r)). { destruct l; [exact Hr|apply name_stop_comma]. }
  fold (names_tail l). rewrite (tok_protect_name a _ _ Hs). rewrite (IH f r Hr). reflexivity.
Qed.

Definition names_tokens (ns : list str) : list tok :=
  match ns with [] => [] | a :: l => TId a :: flat_map (fun y => [TP 44; TId y]) l end.
Definition names_fuel (ns : list str) (f : nat) : nat := match ns with [] => f | _ :: l => S (fuel3 l f) end.

Lemma tok_names_joined : forall ns f r, name_stop r ->
  tokenize (names_fuel ns f) (names_joined ns ++ r) = pre_list (names_tokens ns) (tokenize f r).
Proof.
  intros [|a l] f r Hr; [reflexivity|].
  unfold names_joined, join. cbn [map names_fuel names_tokens pre_list]. rewrite names_tail_eq. rewrite <- app_assoc.
  assert (Hs : name_stop (names_tail l ++ r)). { destruct l; [exact Hr|apply name_stop_comma]. }
  rewrite (tok_protect_name a _ _ Hs). rewrite (tok_names_tail l f r Hr). reflexivity.
Qed.

(* TableMetadataDSE68._export_edge_as_cql: label, partition key(s) and clustering columns all read back *)
Definition edge_tokens (kw : tok) (label : str) (pks ccs : list str) : list tok :=
  kw :: TId label :: TP 40 ::
  (match pks with [k] => [TId k] | _ => TP 40 :: names_tokens pks ++ [TP 41] end) ++
  (match ccs with [] => [] | _ => TP 44 :: names_tokens ccs end) ++ [TP 41].

Lemma pre_list_app : forall a b o, pre_list (a ++ b) o = pre_list a (pre_list b o).
Proof. induction a as [|t a IH]; intros; [reflexivity|]. cbn. rewrite IH. reflexivity. Qed.

Lemma pre_list_Some : forall a b, pre_list a (Some b) = Some (a ++ b).
Proof. induction a as [|t a IH]; intros b; [reflexivity|]. cbn. rewrite IH. reflexivity. Qed.

Lemma pre_list_some : forall ts, pre_list ts (Some []) = Some ts.
Proof. induction ts as [|t ts IH]; [reflexivity|]. cbn. rewrite IH. reflexivity. Qed.

Definition edge_fuel (pks ccs : list str) : nat :=
  S (S (S (S (match pks with [_] => 1 | _ => S (names_fuel pks 1) end +
              match ccs with [] => 0 | _ => S (S (names_fuel ccs 0)) end + 2))))%nat.

Lemma tok_ccs : forall ccs f r,
  tokenize (match ccs with [] => f | _ => S (S (names_fuel ccs f)) end)
           ((match ccs with [] => [] | _ => 44 :: 32 :: names_joined ccs end) ++ 41 :: r) =
  pre_list (match ccs with [] => [] | _ => TP 44 :: names_tokens ccs end) (tokenize f (41 :: r)).
Proof.
  intros [|c l] f r; [reflexivity|]. cbn [app]. rewrite (tok_punct 44) by tauto. rewrite tok_space.
  rewrite (tok_names_joined (c :: l) f (41 :: r) (name_stop_paren r)). reflexivity.
Qed.

Lemma tok_export_edge_from_to : forall (kwtext : str) (kw : tok) label pks ccs,
  (forall f r, tokenize (S (S (S f))) (32 :: kwtext ++ 32 :: r) = pre kw (tokenize f r)) ->
  exists K, forall fuel, (K <= fuel)%nat ->
  tokenize fuel (export_edge kwtext label pks ccs) = Some (edge_tokens kw label pks ccs).
Proof.
  intros kwtext kw label pks ccs Hkw.
  set (fc := match ccs with [] => 2%nat | _ => S (S (names_fuel ccs 2)) end).
  set (fp := match pks with [_] => S fc | _ => S (names_fuel pks (S fc)) end).
  exists (S (S (S (S (S fp))))). intros fuel Hle. apply (tokenize_ge (S (S (S (S (S fp)))))); [assumption|].
  unfold export_edge, edge_tokens.
  change (32 :: kwtext ++ 32 :: protect_name label ++ 40 :: ?x) with (32 :: kwtext ++ 32 :: (protect_name label ++ 40 :: x)).
  rewrite Hkw. rewrite (tok_protect_name label) by (split; reflexivity). rewrite (tok_punct 40) by tauto.
  assert (Hcc : forall f0, f0 = fc ->
            tokenize f0 ((match ccs with [] => [] | _ => 44 :: 32 :: names_joined ccs end) ++ [41]) =
            Some ((match ccs with [] => [] | _ => TP 44 :: names_tokens ccs end) ++ [TP 41])).
  { intros f0 ->. unfold fc. pose proof (tok_ccs ccs 2 []) as H. rewrite H.
    change (tokenize 2 [41]) with (Some [TP 41]). apply pre_list_Some. }
  destruct pks as [|k [|k2 pks']].
  - (* no partition key: "()" *)
    unfold fp. cbn [names_fuel names_joined join map app names_tokens]. rewrite <- ?app_assoc. cbn [app].
    rewrite (tok_punct 40) by tauto. rewrite (tok_punct 41) by tauto. rewrite (Hcc fc eq_refl). reflexivity.
  - unfold fp. rewrite <- ?app_assoc.
    assert (Hs : name_stop ((match ccs with [] => [] | _ => 44 :: 32 :: names_joined ccs end) ++ [41])).
    { destruct ccs; [apply name_stop_paren|apply name_stop_comma]. }
    rewrite (tok_protect_name k _ _ Hs). rewrite (Hcc fc eq_refl). reflexivity.
  - unfold fp. cbn [app]. rewrite (tok_punct 40) by tauto. rewrite <- ?app_assoc. cbn [app].
    rewrite (tok_names_joined (k :: k2 :: pks') (S fc) _ (name_stop_paren _)).
    cbn [app]. rewrite (tok_punct 41) by tauto. rewrite (Hcc fc eq_refl).
    cbn [pre]. rewrite pre_list_Some. cbn [pre]. rewrite <- ?app_assoc. reflexivity.
Qed.

(* the option map of a custom index (dict of str -> str through the Encoder) *)
Fixpoint map_tail_tokens (l : list (str * str)) : list tok :=
  match l with [] => [] | kv :: l' => TP 44 :: TStrLit (fst kv) :: TP 58 :: TStrLit (snd kv) :: map_tail_tokens l' end.
Definition map_tokens (kvs : list (str * str)) : list tok :=
  TP 123 :: (match kvs with [] => [] | kv :: l => TStrLit (fst kv) :: TP 58 :: TStrLit (snd kv) :: map_tail_tokens l end) ++ [TP 125].
Fixpoint fuel6 (l : list (str * str)) (f : nat) : nat := match l with [] => f | _ :: l' => (6 + fuel6 l' f)%nat end.
Definition entry_text (kv : str * str) : str := cql_quote (fst kv) ++ 58 :: 32 :: cql_quote (snd kv).
Definition map_tail (l : list (str * str)) : str := flat_map (fun kv => [44; 32] ++ entry_text kv) l.

Lemma tok_entry : forall kv f r, stops (Z.eqb SQ) r ->
  tokenize (S (S (S (S f)))) (entry_text kv ++ r) = pre (TStrLit (fst kv)) (pre (TP 58) (pre (TStrLit (snd kv)) (tokenize f r))).
Proof.
  intros kv f r Hr. unfold entry_text. rewrite <- app_assoc. cbn [app].
  rewrite tok_string by reflexivity. rewrite (tok_punct 58) by tauto. rewrite tok_space.
  rewrite tok_string by assumption. reflexivity.
Qed.

Lemma tok_map_tail : forall l f r, stops (Z.eqb SQ) r ->
  tokenize (fuel6 l f) (map_tail l ++ r) = pre_list (map_tail_tokens l) (tokenize f r).
Proof.
  induction l as [|kv l IH]; intros f r Hr; [reflexivity|].
  cbn [fuel6 map_tail flat_map map_tail_tokens pre_list Nat.add]. rewrite <- !app_assoc. cbn [app].
  rewrite (tok_punct 44) by tauto. rewrite tok_space. fold (map_tail l).
  assert (Hs : stops (Z.eqb SQ) (map_tail l ++ r)). { destruct l; [exact Hr|reflexivity]. }
  rewrite (tok_entry kv _ _ Hs). rewrite (IH f r Hr). reflexivity.
Qed.

Lemma tok_string_map : forall kvs, exists K, forall fuel, (K <= fuel)%nat ->
  tokenize fuel (string_map kvs) = Some (map_tokens kvs).
Proof.
  intros kvs. destruct kvs as [|kv l].
  - exists 3%nat. intros fuel Hle. apply (tokenize_ge 3); [assumption|reflexivity].
  - exists (S (4 + fuel6 l 2))%nat. intros fuel Hle. apply (tokenize_ge (S (4 + fuel6 l 2))); [assumption|].
    unfold string_map, join, map_tokens. cbn [map]. rewrite (tok_punct 123) by tauto.
    assert (E : flat_map (fun y => [44; 32] ++ y) (map (fun kv0 => cql_quote (fst kv0) ++ 58 :: 32 :: cql_quote (snd kv0)) l) = map_tail l).
    { clear. induction l as [|a l IH]; [reflexivity|]. cbn [map flat_map map_tail]. unfold map_tail in IH. rewrite IH. reflexivity. }
    rewrite E. fold (entry_text kv). rewrite <- app_assoc.
    assert (Hs : stops (Z.eqb SQ) (map_tail l ++ [125])). { destruct l; reflexivity. }
    cbn [Nat.add]. rewrite (tok_entry kv _ _ Hs). rewrite (tok_map_tail l 2 [125]) by reflexivity.
    change (tokenize 2 [125]) with (Some [TP 125]). rewrite pre_list_Some. reflexivity.
Qed.

Lemma tok_kw_from : forall f r, tokenize (S (S (S f))) (32 :: codes "FROM" ++ 32 :: r) = pre (TKw (codes "from")) (tokenize f r).
Proof.
  intros f r. rewrite tok_space. rewrite tokenize_step. change (codes "FROM") with [70; 82; 79; 77]. cbn [app].
  change (is_space 70) with false. change (70 =? SQ) with false. change (70 =? DQ) with false. change (is_letter 70) with true. cbv iota.
  change (span is_ident_char (70 :: 82 :: 79 :: 77 :: 32 :: r)) with ([70; 82; 79; 77], 32 :: r). cbv iota beta zeta.
  change (reserved (map to_lower [70; 82; 79; 77])) with true. cbv iota. rewrite tok_space. reflexivity.
Qed.

Lemma tok_kw_to : forall f r, tokenize (S (S (S f))) (32 :: codes "TO" ++ 32 :: r) = pre (TKw (codes "to")) (tokenize f r).
Proof.
  intros f r. rewrite tok_space. rewrite tokenize_step. change (codes "TO") with [84; 79]. cbn [app].
  change (is_space 84) with false. change (84 =? SQ) with false. change (84 =? DQ) with false. change (is_letter 84) with true. cbv iota.
  change (span is_ident_char (84 :: 79 :: 32 :: r)) with ([84; 79], 32 :: r). cbv iota beta zeta.
  change (reserved (map to_lower [84; 79])) with true. cbv iota. rewrite tok_space. reflexivity.
Qed.
