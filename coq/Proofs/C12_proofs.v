(* Invariants of Model/Pool.v (HostConnection), used by Props/C12.v and Props/C13.v *)
From Coq Require Import ZArith List Bool Lia Arith.
From Verif Require Import Pool Pool_base.
Import ListNotations.
Local Open Scope Z_scope.

(* ------------------------------------------------------------------ A. per-connection accounting *)
Definition cok (mx : Z) (k : conn) : Prop :=
  0 <= c_live k /\ 0 <= c_orph k /\ c_inflight k = c_live k + c_orph k /\ c_inflight k <= mx /\
  0 <= c_retp k /\ 0 <= c_trp k /\ (c_defunct k = true -> c_closed k = true).

Definition InvA (s : state) : Prop :=
  0 <= maxid s /\ forall c, cok (maxid s) (getc s c).

Lemma cok_new mx : 0 <= mx -> cok mx new_conn.
Proof. unfold cok; simpl; intuition lia. Qed.

Lemma getc_default s c : (length (conns s) <= c)%nat -> getc s c = new_conn.
Proof. intros. unfold getc. apply nth_overflow. assumption. Qed.

Ltac bool_hyps :=
  repeat match goal with
  | H : _ && _ = true |- _ => apply andb_prop in H; destruct H
  | H : negb _ = true |- _ => apply negb_true_iff in H
  | H : (_ <? _) = true |- _ => apply Z.ltb_lt in H
  | H : (_ <? _) = false |- _ => apply Z.ltb_ge in H
  | H : (_ =? _) = true |- _ => apply Z.eqb_eq in H
  | H : (_ =? _) = false |- _ => apply Z.eqb_neq in H
  | H : (_ <=? _) = true |- _ => apply Z.leb_le in H
  | H : (_ <=? _) = false |- _ => apply Z.leb_gt in H
  | H : valid _ _ = true |- _ => apply valid_lt in H
  end.

(* the connection table after a step, pointwise *)
Lemma cokA_updc s c f :
  InvA s -> (forall k, cok (maxid s) k -> k = getc s c -> cok (maxid s) (f k)) -> InvA (updc s c f).
Proof.
  intros [Hm H] Hf. split; [exact Hm|]. intros x. rewrite getc_updc.
  destruct (Nat.eqb x c && valid s x) eqn:E; [|apply H].
  apply andb_prop in E. destruct E as [E _]. apply Nat.eqb_eq in E. subst x.
  apply Hf; [apply H|reflexivity].
Qed.

Lemma InvA_same s s' : conns s' = conns s -> maxid s' = maxid s -> InvA s -> InvA s'.
Proof. intros Hc Hm [H0 H]. split; [rewrite Hm; exact H0|]. intros c. unfold getc. rewrite Hc, Hm. apply H. Qed.

Lemma InvA_app s s' : conns s' = conns s ++ [new_conn] -> maxid s' = maxid s -> InvA s -> InvA s'.
Proof.
  intros Hc Hm [H0 H]. split; [rewrite Hm; exact H0|]. intros c. rewrite Hm. unfold getc. rewrite Hc.
  destruct (Nat.lt_ge_cases c (length (conns s))) as [L|L].
  - rewrite app_nth1 by assumption. apply H.
  - destruct (Nat.eq_dec c (length (conns s))) as [->|N].
    + rewrite getc_app_new. apply cok_new, H0.
    + rewrite nth_overflow; [apply cok_new, H0|]. rewrite app_length. simpl. lia.
Qed.

Lemma InvA_close_all s s' l : conns s' = close_all l (conns s) -> maxid s' = maxid s -> InvA s -> InvA s'.
Proof.
  intros Hc Hm [H0 H]. split; [rewrite Hm; exact H0|]. intros c. rewrite Hm. unfold getc. rewrite Hc.
  destruct (close_all_nth l (conns s) c) as [(E1&E2&E3&E4&E5&E6&E7&E8&E9&E10) _].
  specialize (H c). unfold getc in H. unfold cok in *. rewrite E1, E2, E4, E6, E7, E8. intuition.
Qed.

Ltac solve_cok :=
  let k := fresh "k" in let Hk := fresh "Hk" in let E := fresh "E" in
  intros k Hk E; unfold cok in *; simpl; try subst k; bool_hyps;
  repeat match goal with |- context [if ?b then _ else _] => destruct b end;
  intuition (try lia; try congruence).

Ltac invA HA :=
  match goal with
  | |- InvA (updc ?s ?c ?f) => apply cokA_updc; [invA HA | solve_cok]
  | |- InvA (set_cur ?s _) => apply (InvA_same s); [reflexivity|reflexivity|invA HA]
  | |- InvA (set_trash ?s _) => apply (InvA_same s); [reflexivity|reflexivity|invA HA]
  | |- InvA (set_replacing ?s _) => apply (InvA_same s); [reflexivity|reflexivity|invA HA]
  | |- InvA (set_shut ?s _) => apply (InvA_same s); [reflexivity|reflexivity|invA HA]
  | |- InvA (set_soe ?s _) => apply (InvA_same s); [reflexivity|reflexivity|invA HA]
  | |- InvA (set_queue ?s _) => apply (InvA_same s); [reflexivity|reflexivity|invA HA]
  | |- InvA (set_connecting ?s _) => apply (InvA_same s); [reflexivity|reflexivity|invA HA]
  | |- InvA (set_assigning ?s _) => apply (InvA_same s); [reflexivity|reflexivity|invA HA]
  | |- InvA (set_finishing ?s _) => apply (InvA_same s); [reflexivity|reflexivity|invA HA]
  | |- InvA (set_phase ?s _) => apply (InvA_same s); [reflexivity|reflexivity|invA HA]
  | |- InvA (submit ?s _) => apply (InvA_same s); [reflexivity|reflexivity|invA HA]
  | |- InvA (set_conns _ (conns ?s ++ [new_conn])) => apply (InvA_app s); [reflexivity|reflexivity|invA HA]
  | |- InvA (set_conns _ (close_all ?l (conns ?s))) => apply (InvA_close_all s _ l); [reflexivity|reflexivity|invA HA]
  | _ => exact HA
  end.

Ltac split_step :=
  repeat match goal with
  | |- context [if ?b then _ else _] => let E := fresh "E" in destruct b eqn:E; simpl
  | |- context [match ?l with [] => _ | _ :: _ => _ end] => destruct l eqn:?; simpl
  | |- context [match ?l with Some _ => _ | None => _ end] => destruct l eqn:?; simpl
  | |- context [let '(_, _) := ?p in _] => destruct p eqn:?; simpl
  end.

Lemma InvA_step s o : InvA s -> InvA (fst (step s o)).
Proof.
  intros HA. destruct o; simpl; split_step; try (invA HA).
Qed.

Lemma InvA_init w mx th : 0 <= mx -> InvA (init w mx th).
Proof.
  intros H. split; [exact H|]. intros c. unfold getc, init; simpl.
  destruct w; simpl; [destruct c as [|[|c]]|destruct c]; simpl; apply cok_new, H.
Qed.

Lemma InvA_run ops : forall s, InvA s -> InvA (run s ops).
Proof. unfold run. induction ops as [|o r IH]; intros s H; simpl; [exact H|]. apply IH, InvA_step, H. Qed.

(* ------------------------------------------------------------------ B. structure: tasks, current connection, trash *)
Definition tasks_old (s : state) : list nat := queue s ++ connecting s ++ map fst (assigning s) ++ finishing s.
Definition tasks_pending (s : state) : list nat := queue s ++ connecting s ++ map fst (assigning s).

Definition B1 s := (length (queue s) + length (connecting s) + length (assigning s) + length (finishing s) <= (if replacing s then 1 else 0))%nat.
Definition B2 s := forall c, In c (tasks_old s) -> (c < length (conns s))%nat /\ (c_thr (getc s c) = true \/ c_closed (getc s c) = true).
Definition B3 s := forall c x, In c (tasks_pending s) -> cur s = Some x -> x = c.
Definition B4 s := forall c, (c < length (conns s))%nat ->
  c_closed (getc s c) = true \/ cur s = Some c \/ In c (trash s) \/ In c (map snd (assigning s)) \/ In c (finishing s).
Definition B5 s := forall c n, In (c, n) (assigning s) ->
  S n = length (conns s) /\ (c < n)%nat /\ (forall x, cur s = Some x -> (x < n)%nat) /\ c_replaced (getc s n) = false.
Definition B6 s := forall x, cur s = Some x -> (x < length (conns s))%nat.
Definition B7 s := forall c, In c (trash s) -> (c < length (conns s))%nat.
Definition B8 s := (shut s = false -> sd_phase s = 0) /\ (sd_phase s = 0 \/ sd_phase s = 1 \/ sd_phase s = 2 \/ sd_phase s = 3) /\
  (sd_phase s <> 0 -> shut s = true) /\ (2 <= sd_phase s -> cur s = None) /\ (sd_phase s = 3 -> trash s = []).
Definition B9 s := forall c x, In c (finishing s) -> cur s = Some x -> (c < x)%nat.
Definition B10 s := forall c x, c_replaced (getc s c) = true -> cur s = Some x -> (c < x)%nat.
Definition C1 s := forall c, In c (trash s) ->
  c_closed (getc s c) = true \/ 0 < c_live (getc s c) + c_retp (getc s c) + c_trp (getc s c).
Definition C2 s := forall c, c_replaced (getc s c) = true -> c_closed (getc s c) = true \/ In c (trash s).

Definition InvB s := B1 s /\ B2 s /\ B3 s /\ B4 s /\ B5 s /\ B6 s /\ B7 s /\ B8 s /\ B9 s /\ B10 s /\ C1 s /\ C2 s.

Lemma nth_app_one {A} (l : list A) k d c :
  nth c (l ++ [k]) d = if Nat.ltb c (length l) then nth c l d else if Nat.eqb c (length l) then k else d.
Proof.
  destruct (Nat.ltb c (length l)) eqn:E.
  - apply Nat.ltb_lt in E. apply app_nth1; assumption.
  - apply Nat.ltb_ge in E. destruct (Nat.eqb c (length l)) eqn:E2.
    + apply Nat.eqb_eq in E2. subst. rewrite app_nth2 by lia. rewrite Nat.sub_diag. reflexivity.
    + apply Nat.eqb_neq in E2. apply nth_overflow. rewrite app_length; simpl; lia.
Qed.

Lemma getc_app s s' c : conns s' = conns s ++ [new_conn] -> getc s' c = getc s c.
Proof.
  intros H. unfold getc. rewrite H, nth_app_one.
  destruct (Nat.ltb c (length (conns s))) eqn:E; [reflexivity|].
  apply Nat.ltb_ge in E. rewrite (nth_overflow (conns s)) by assumption. destruct (Nat.eqb c (length (conns s))); reflexivity.
Qed.

Lemma is_cur_true s c : is_cur s c = true <-> cur s = Some c.
Proof. unfold is_cur. destruct (cur s); [rewrite Nat.eqb_eq; split; congruence|split; discriminate]. Qed.

Ltac nat_hyps :=
  repeat match goal with
  | H : Nat.eqb _ _ = true |- _ => apply Nat.eqb_eq in H
  | H : Nat.eqb _ _ = false |- _ => apply Nat.eqb_neq in H
  | H : Nat.ltb _ _ = true |- _ => apply Nat.ltb_lt in H
  | H : Nat.ltb _ _ = false |- _ => apply Nat.ltb_ge in H
  | H : is_cur _ _ = true |- _ => apply is_cur_true in H
  | H : mem _ _ = true |- _ => apply mem_In in H
  end.

Ltac startB :=
  let HB := fresh "HB" in
  intros HA HB; assert (HB1 := proj1 HB); destruct HB as (H1&H2&H3&H4&H5&H6&H7&H8&H9&H10&HC1&HC2);
  unfold B1, B2, B3, B4, B5, B6, B7, B8, B9, B10, C1, C2, tasks_old, tasks_pending in H1, H2, H3, H4, H5, H6, H7, H8, H9, H10, HC1, HC2 |- *.

Ltac eqs :=
  repeat match goal with
  | H : queue _ = _ |- _ => rewrite H in *
  | H : connecting _ = _ |- _ => rewrite H in *
  | H : assigning _ = _ |- _ => rewrite H in *
  | H : finishing _ = _ |- _ => rewrite H in *
  | H : cur _ = _ |- _ => rewrite H in *
  | H : shut _ = _ |- _ => rewrite H in *
  end.
Ltac contra := match goal with H1 : ?a = true, H2 : ?a = false |- _ => exfalso; rewrite H1 in H2; discriminate H2 end.
Ltac norm :=
  eqs; repeat (rewrite ?length_upd, ?app_length, ?map_app, ?close_all_length in *; simpl in * ).

Lemma B1_step s o : InvA s -> InvB s -> B1 (fst (step s o)).
Proof.
  startB. destruct (replacing s) eqn:ER; destruct o; simpl; rewrite ?ER; split_step; simpl in *; try contra; norm; try lia.
Qed.

Ltac stepcases o := destruct o; simpl; split_step; simpl in *; try contra; norm.

Lemma B6_step s o : InvA s -> InvB s -> B6 (fst (step s o)).
Proof.
  startB. stepcases o; intros; try discriminate; auto.
  all: try (match goal with H : Some _ = Some _ |- _ => injection H as <- end).
  all: try (apply H6 in H; lia).
  destruct (H5 _ _ (or_introl eq_refl)) as (?&?&?&?); lia.
Qed.

Lemma B7_step s o : InvA s -> InvB s -> B7 (fst (step s o)).
Proof.
  startB. stepcases o; intros; auto.
  all: try (match goal with H : In _ (del _ _) |- _ => apply In_del in H; destruct H end).
  all: try (match goal with H : In _ (ins _ _) |- _ => apply In_ins in H; destruct H; [subst|] end).
  all: try (match goal with H : In _ (trash _) |- _ => apply H7 in H; lia end).
  all: try tauto.
  destruct (H2 n) as [? ?]; [rewrite !in_app_iff; simpl; tauto|assumption].
Qed.

Lemma B8_step s o : InvA s -> InvB s -> B8 (fst (step s o)).
Proof.
  startB. stepcases o; bool_hyps; try (intuition (try congruence; try lia); fail).
  - destruct H8 as (?&?&?&?&Ht). repeat split; auto. intros Hp. rewrite (Ht Hp). reflexivity.
  - destruct H8 as (?&?&Hs&Hc&?). assert (shut s = true) by (apply Hs; lia).
    repeat split; auto; try congruence. intros _. apply Hc. lia.
Qed.

Lemma B9_step s o : InvA s -> InvB s -> B9 (fst (step s o)).
Proof.
  startB. stepcases o; intros; try discriminate; eauto.
  match goal with H : Some _ = Some _ |- _ => injection H as <- end.
  destruct (H5 _ _ (or_introl eq_refl)) as (?&?&?&?).
  destruct (finishing s); [|destruct (replacing s); simpl in *; lia].
  simpl in *. destruct H as [<-|[]]. assumption.
Qed.

Lemma B1_empty s : B1 s -> replacing s = false ->
  queue s = [] /\ connecting s = [] /\ assigning s = [] /\ finishing s = [].
Proof.
  unfold B1. intros H E. rewrite E in H.
  destruct (queue s), (connecting s), (assigning s), (finishing s); simpl in *; try lia. tauto.
Qed.

Lemma B1_le1 s : B1 s -> (length (queue s) + length (connecting s) + length (assigning s) + length (finishing s) <= 1)%nat.
Proof. unfold B1. destruct (replacing s); lia. Qed.

Lemma B1_assigning s p l : B1 s -> assigning s = p :: l ->
  queue s = [] /\ connecting s = [] /\ l = [] /\ finishing s = [].
Proof.
  intros H E. apply B1_le1 in H. rewrite E in H.
  destruct (queue s), (connecting s), l, (finishing s); simpl in *; try lia. tauto.
Qed.

Lemma B1_finishing s p l : B1 s -> finishing s = p :: l ->
  queue s = [] /\ connecting s = [] /\ l = [] /\ assigning s = [].
Proof.
  intros H E. apply B1_le1 in H. rewrite E in H.
  destruct (queue s), (connecting s), l, (assigning s); simpl in *; try lia. tauto.
Qed.

Lemma B1_connecting s p l : B1 s -> connecting s = p :: l ->
  queue s = [] /\ l = [] /\ assigning s = [] /\ finishing s = [].
Proof.
  intros H E. apply B1_le1 in H. rewrite E in H.
  destruct (queue s), l, (assigning s), (finishing s); simpl in *; try lia. tauto.
Qed.

Lemma B1_queue s p l : B1 s -> queue s = p :: l ->
  l = [] /\ connecting s = [] /\ assigning s = [] /\ finishing s = [].
Proof.
  intros H E. apply B1_le1 in H. rewrite E in H.
  destruct l, (connecting s), (assigning s), (finishing s); simpl in *; try lia. tauto.
Qed.

Ltac inapp := repeat (progress (rewrite ?map_app, ?in_app_iff in *; simpl in * )).

Lemma B3_step s o : InvA s -> InvB s -> B3 (fst (step s o)).
Proof.
  startB. destruct o; simpl; split_step; simpl in *; try contra; eqs; intros; try discriminate; eauto.
  all: try (apply H3; [|assumption]; inapp; tauto).
  - bool_hyps. nat_hyps.
    destruct (B1_empty s HB1) as (Q1&Q2&Q3&Q4); [assumption|]. unfold submit in *; simpl in *. rewrite Q1, Q2, Q3 in *. simpl in *.
    destruct H as [<-|[]]. congruence.
  - exfalso. destruct (B1_assigning s _ _ HB1 Heql) as (Q1&Q2&Q3&Q4). subst. rewrite ?Q1, ?Q2, ?Heql in *. simpl in *. assumption.
Qed.

Lemma getc_set_cur s v c : getc (set_cur s v) c = getc s c.
Proof. reflexivity. Qed.
Lemma getc_set_trash s v c : getc (set_trash s v) c = getc s c.
Proof. reflexivity. Qed.
Lemma getc_set_replacing s v c : getc (set_replacing s v) c = getc s c.
Proof. reflexivity. Qed.
Lemma getc_set_shut s v c : getc (set_shut s v) c = getc s c.
Proof. reflexivity. Qed.
Lemma getc_set_soe s v c : getc (set_soe s v) c = getc s c.
Proof. reflexivity. Qed.
Lemma getc_set_queue s v c : getc (set_queue s v) c = getc s c.
Proof. reflexivity. Qed.
Lemma getc_set_connecting s v c : getc (set_connecting s v) c = getc s c.
Proof. reflexivity. Qed.
Lemma getc_set_assigning s v c : getc (set_assigning s v) c = getc s c.
Proof. reflexivity. Qed.
Lemma getc_set_finishing s v c : getc (set_finishing s v) c = getc s c.
Proof. reflexivity. Qed.
Lemma getc_set_phase s v c : getc (set_phase s v) c = getc s c.
Proof. reflexivity. Qed.
Lemma getc_submit s v c : getc (submit s v) c = getc s c.
Proof. reflexivity. Qed.
Ltac gn := repeat (rewrite ?getc_updc, ?getc_set_cur, ?getc_set_trash, ?getc_set_replacing, ?getc_set_shut, ?getc_set_soe, ?getc_set_queue, ?getc_set_connecting, ?getc_set_assigning, ?getc_set_finishing, ?getc_set_phase, ?getc_submit in * ).
Ltac ifs := repeat match goal with |- context [if ?b then _ else _] => destruct b eqn:? end.

Lemma getc_close_all s s' l c : conns s' = close_all l (conns s) ->
  same_but_closed (getc s c) (getc s' c) /\ (In c l -> (c < length (conns s))%nat -> c_closed (getc s' c) = true).
Proof. intros H. unfold getc. rewrite H. apply close_all_nth. Qed.

Lemma B5_step s o : InvA s -> InvB s -> B5 (fst (step s o)).
Proof.
  startB. stepcases o; intros; try discriminate; eauto.
  all: try (match goal with H : In (_, _) (assigning _) |- _ => destruct (H5 _ _ H) as (?&?&?&?) end;
            gn; ifs; simpl; repeat split; auto; try discriminate; fail).
  - destruct (B1_connecting s _ _ HB1 Heql) as (Q1&Q2&Q3&Q4). rewrite Q3 in *. simpl in *.
    destruct H as [H|[]]. injection H as <- <-.
    destruct (H2 n) as [? ?]; [inapp; tauto|].
    repeat split; try lia.
    + intros x Hx. apply H6 in Hx. lia.
    + unfold getc. simpl. rewrite getc_app_new. reflexivity.
  - destruct (B1_assigning s _ _ HB1 Heql) as (Q1&Q2&Q3&Q4). subst l. destruct H.
  - destruct (B1_assigning s _ _ HB1 Heql) as (Q1&Q2&Q3&Q4). subst l. destruct H.
  - destruct (B1_finishing s _ _ HB1 Heql) as (Q1&Q2&Q3&Q4). rewrite Q4 in H. destruct H.
  - destruct (B1_finishing s _ _ HB1 Heql) as (Q1&Q2&Q3&Q4). rewrite Q4 in H. destruct H.
  - destruct (B1_finishing s _ _ HB1 Heql) as (Q1&Q2&Q3&Q4). rewrite Q4 in H. destruct H.
  - destruct (B1_finishing s _ _ HB1 Heql) as (Q1&Q2&Q3&Q4). rewrite Q4 in H. destruct H.
  - destruct (B1_finishing s _ _ HB1 Heql) as (Q1&Q2&Q3&Q4). rewrite Q4 in H. destruct H.
  - destruct (B1_finishing s _ _ HB1 Heql) as (Q1&Q2&Q3&Q4). rewrite Q4 in H. destruct H.
  - destruct (H5 _ _ H) as (?&?&?&?).
    destruct (getc_close_all s (set_conns (set_trash (set_phase s 3) []) (close_all (trash s) (conns s))) (trash s) n eq_refl) as [(_&_&_&_&_&_&_&_&R&_) _].
    repeat split; auto. congruence.
Qed.

Lemma B10_step s o : InvA s -> InvB s -> B10 (fst (step s o)).
Proof.
  startB. stepcases o; intros; try discriminate; eauto.
  all: try (gn; revert H; gn; ifs; simpl; intros; try discriminate; eauto; fail).
  all: try (revert H; gn; ifs; simpl; intros; bool_hyps; nat_hyps; subst;
            first [ solve [eauto] | match goal with Hf : finishing _ = ?m :: _ |- (?m < _)%nat => apply (H9 m); [rewrite Hf; left; reflexivity|assumption] end ]; fail).
  - rewrite (getc_app s) in H by reflexivity. eauto.
  - injection H0 as <-. destruct (H5 _ _ (or_introl eq_refl)) as (L&?&?&R). gn.
    assert (c < length (conns s))%nat.
    { destruct (Nat.lt_ge_cases c (length (conns s))); [assumption|].
      rewrite getc_default in H by assumption. discriminate. }
    assert (c <> n0) by (intros ->; congruence). lia.
  - destruct (getc_close_all s (set_conns (set_trash (set_phase s 3) []) (close_all (trash s) (conns s))) (trash s) c eq_refl) as [(_&_&_&_&_&_&_&_&R&_) _].
    rewrite R in H. eauto.
Qed.

Ltac mono_flags :=
  gn; ifs; simpl;
  repeat match goal with Hx : _ = true |- _ => rewrite Hx end; simpl; auto.

Lemma B2_step s o : InvA s -> InvB s -> B2 (fst (step s o)).
Proof.
  startB. stepcases o; intros; try discriminate; eauto.
  all: try (match goal with H : In ?c _ |- _ =>
       let Ho := fresh in
       match type of H2 with forall _, In _ ?L -> _ => assert (Ho : In c L) by (revert H; inapp; tauto) end;
       destruct (H2 _ Ho) as [? [?|?]]; (split; [try lia; assumption|mono_flags]) end; fail).
  - bool_hyps. nat_hyps. gn. revert H. inapp. intros Hin.
    assert (Hc : c = c0 \/ In c0 (queue s ++ connecting s ++ map fst (assigning s) ++ finishing s)) by (inapp; tauto).
    destruct Hc as [<-|Hc]; [split; [assumption|left; assumption]|apply H2; assumption].
  - bool_hyps. nat_hyps. gn. revert H. inapp. intros Hin.
    assert (Hc : c = c0 \/ In c0 (queue s ++ connecting s ++ map fst (assigning s) ++ finishing s)) by (inapp; tauto).
    destruct Hc as [<-|Hc]; [|apply H2; assumption].
    split; [assumption|right]. destruct HA as [_ HA]. destruct (HA c) as (_&_&_&_&_&_&Hd).
    unfold dead in *. destruct (c_defunct (getc s c)); simpl in *; auto.
  - gn. apply H2. revert H. inapp. tauto.
  - rewrite (getc_app s) by reflexivity.
    match type of H2 with forall _, In _ ?L -> _ => assert (Hc : In c L) by (revert H; inapp; tauto) end.
    destruct (H2 _ Hc). split; [lia|assumption].
  - destruct (H2 _ H) as [? Hf]. split; [assumption|].
    destruct (getc_close_all s (set_conns (set_trash (set_phase s 3) []) (close_all (trash s) (conns s))) (trash s) c eq_refl) as [(_&_&R&_&_&_&_&_&_&Rc) _].
    rewrite R. destruct Hf; auto.
Qed.

Lemma dead_closed s c : InvA s -> dead (getc s c) = true -> c_closed (getc s c) = true.
Proof.
  intros [_ HA] H. destruct (HA c) as (_&_&_&_&_&_&Hd). unfold dead in H.
  destruct (c_defunct (getc s c)); simpl in *; auto.
Qed.

Lemma getc_updc_other s c f x : x <> c -> getc (updc s c f) x = getc s x.
Proof. intros H. rewrite getc_updc. apply Nat.eqb_neq in H. rewrite H. reflexivity. Qed.
Lemma getc_updc_same s c f : (c < length (conns s))%nat -> getc (updc s c f) c = f (getc s c).
Proof. intros H. rewrite getc_updc, Nat.eqb_refl. apply valid_lt in H. rewrite H. reflexivity. Qed.

Ltac gs := rewrite ?getc_set_cur, ?getc_set_trash, ?getc_set_replacing, ?getc_set_shut, ?getc_set_soe, ?getc_set_queue, ?getc_set_connecting, ?getc_set_assigning, ?getc_set_finishing, ?getc_set_phase, ?getc_submit.
Ltac gno := repeat (progress (gs; try rewrite getc_updc_other by assumption)).

Ltac h4 c := match goal with H4 : forall c, (c < _)%nat -> _ |- _ => destruct (H4 c) as [?|[?|[?|[?|?]]]]; [try lia; assumption | ..] end.

Ltac rf4 s :=
  match goal with Hf : finishing _ = ?n :: _, Hlt : (?c < length _)%nat, H2 : forall _, In _ _ -> _ /\ _ |- _ =>
    destruct (Nat.eq_dec c n) as [->|N];
    [ assert (Hn : (n < length (conns s))%nat) by assumption;
      left; repeat (rewrite getc_updc_same by (simpl; rewrite ?length_upd; unfold updc; simpl; rewrite ?length_upd; exact Hn)); simpl;
      first [reflexivity | gs; destruct (H2 n) as [_ [Ht|Hc]]; [inapp; tauto|congruence|assumption]]
    | gno; h4 c; simpl in *; intuition congruence ] end.

Lemma B4_step s o : InvA s -> InvB s -> B4 (fst (step s o)).
Proof.
  startB. stepcases o; intros; try discriminate; eauto.
  all: try (match goal with H : (?c < _)%nat |- _ =>
       destruct (H4 c) as [?|[?|[?|[?|?]]]]; [try lia; assumption| mono_flags ..] end; fail).
  all: try solve [match goal with H : (?c < _)%nat |- _ =>
       destruct (H4 c) as [?|[?|[?|[?|?]]]]; [try lia; assumption| ..] end;
       bool_hyps; nat_hyps; gn; ifs; simpl; bool_hyps; nat_hyps; subst; inapp;
       try match goal with Hd : dead (getc ?s0 ?x) = true, HA0 : InvA ?s0 |- _ => apply (dead_closed s0 x HA0) in Hd end;
       try match goal with Ha : Some _ = Some _ |- _ => injection Ha as -> end;
       try rewrite In_del; try rewrite In_ins;
       intuition (try congruence; try lia)].
  - (* ReturnTrash, closing c *)
    bool_hyps. destruct (Nat.eq_dec c0 c) as [->|N].
    + left. rewrite getc_updc_same by (simpl; rewrite ?length_upd; unfold updc; simpl; rewrite ?length_upd; assumption). reflexivity.
    + gno. rewrite In_del. h4 c0; tauto.
  - (* ReplaceConnect ok *)
    rewrite (getc_app s) by reflexivity. inapp.
    destruct (Nat.eq_dec c (length (conns s))) as [->|N]; [tauto|].
    h4 c; tauto.
  - (* ReplaceAssign, pool shut down: fresh connection closed *)
    destruct (Nat.eq_dec c n0) as [->|N].
    + left. rewrite getc_updc_same by assumption. reflexivity.
    + gno. h4 c; try tauto.
      simpl in *. intuition congruence.
  - (* ReplaceAssign, installed *)
    gn. inapp. h4 c; try tauto.
    + right. right. right. right. right. left.
      symmetry. apply (H3 n c); [inapp; tauto|assumption].
    + simpl in *. intuition congruence.
  - rf4 s.
  - rf4 s.
  - rf4 s.
  - rf4 s.
  - rf4 s.
  - (* ShutdownCloseMain *)
    destruct (Nat.eq_dec c n) as [->|N].
    + left. rewrite getc_updc_same by assumption. reflexivity.
    + gno. h4 c; intuition congruence.
  - (* ShutdownTrash *)
    destruct (getc_close_all s (set_conns (set_trash (set_phase s 3) []) (close_all (trash s) (conns s))) (trash s) c eq_refl) as [(_&_&_&_&_&_&_&_&_&Rc) Rt].
    h4 c; auto.
Qed.


Lemma C1_step s o : InvA s -> InvB s -> C1 (fst (step s o)).
Proof.
  startB. stepcases o; intros; try discriminate; eauto.
  all: try solve [match goal with H : In ?c (trash _) |- _ =>
       destruct (HC1 c H) as [?|?]; [left; mono_flags | gn; ifs; simpl; bool_hyps; auto; right; lia] end].
  - (* ReturnRead *)
    bool_hyps. destruct (HC1 c0 H) as [Hc|Hp]; [left; mono_flags|].
    destruct (Nat.eq_dec c0 c) as [->|N]; [|gno; right; assumption].
    rewrite getc_updc_same by assumption.
    destruct (dead (getc s c)) eqn:D.
    + left. simpl. apply dead_closed; assumption.
    + right. apply mem_In in H. rewrite H. simpl. lia.
  - (* ReturnTrash closing *)
    bool_hyps. apply In_del in H. destruct H as [N Hin]. gno. auto.
  - (* ReturnTrash not closing *)
    bool_hyps. destruct (HC1 c0 H) as [Hc|Hp]; [left; mono_flags|].
    destruct (Nat.eq_dec c0 c) as [->|N]; [|gno; right; assumption].
    rewrite getc_updc_same by assumption. right. simpl.
    apply mem_In in H. rewrite H, andb_true_r in E0. bool_hyps.
    destruct HA as [_ HA]. destruct (HA c) as (?&?&?&?&?&?&?). lia.
  - (* ReplaceConnect *)
    rewrite (getc_app s) by reflexivity. auto.
  - (* ReplaceFinish trashing *)
    apply In_ins in H. bool_hyps. destruct (Nat.eq_dec c n) as [->|N].
    + right. gs. rewrite getc_updc_same by (destruct (H2 n) as [? _]; [inapp; tauto|assumption]). simpl. gs.
      destruct HA as [_ HA]. destruct (HA n) as (?&?&?&?&?&?&?). lia.
    + gno. destruct H as [H|H]; [congruence|auto].
Qed.

Ltac rfc2 s :=
  match goal with Hf : finishing _ = ?n :: _, H2 : forall _, In _ _ -> _ /\ _, Hr : c_replaced (getc _ ?c) = true |- _ =>
    assert (Hn : (n < length (conns s))%nat) by (destruct (H2 n) as [? _]; [inapp; tauto|assumption]);
    destruct (Nat.eq_dec c n) as [->|N];
    [ try rewrite In_ins; first [ right; left; reflexivity |
      left; gs; repeat (rewrite getc_updc_same by (simpl; rewrite ?length_upd; unfold updc; simpl; rewrite ?length_upd; exact Hn)); simpl;
      first [reflexivity | gs; destruct (H2 n) as [_ [Ht|Hc]]; [inapp; tauto|congruence|assumption]] ]
    | revert Hr; gno; intros Hr; try rewrite In_ins;
      match goal with HC2 : forall c, c_replaced _ = true -> _ |- _ => destruct (HC2 c Hr); tauto end ] end.

Lemma C2_step s o : InvA s -> InvB s -> C2 (fst (step s o)).
Proof.
  startB. stepcases o; intros; try discriminate; eauto.
  all: try solve [match goal with H : c_replaced (getc _ ?c) = true |- _ =>
       revert H; gn; ifs; simpl; intros H; (destruct (HC2 c H) as [?|?]; [left; mono_flags | right; assumption]) end].
  - (* ReturnTrash closing *)
    bool_hyps. destruct (Nat.eq_dec c0 c) as [->|N].
    + left. rewrite getc_updc_same by (simpl; rewrite ?length_upd; unfold updc; simpl; rewrite ?length_upd; assumption). reflexivity.
    + revert H. gno. intros H. rewrite In_del. destruct (HC2 c0 H); tauto.
  - (* ReplaceConnect *)
    rewrite (getc_app s) in * by reflexivity. auto.
  - rfc2 s.
  - rfc2 s.
  - rfc2 s.
  - rfc2 s.
  - rfc2 s.
  - rfc2 s.
  - (* ShutdownTrash *)
    destruct (getc_close_all s (set_conns (set_trash (set_phase s 3) []) (close_all (trash s) (conns s))) (trash s) c eq_refl) as [(_&_&_&_&_&_&_&_&R&Rc) Rt].
    rewrite R in H. left. destruct (HC2 c H) as [?|Hin]; [auto|].
    apply Rt; [assumption|apply H7; assumption].
Qed.

(* ------------------------------------------------------------------ the invariant holds in every reachable state *)
Definition Inv (s : state) : Prop := InvA s /\ InvB s.

Lemma Inv_step s o : Inv s -> Inv (fst (step s o)).
Proof.
  intros [HA HB]. split; [apply InvA_step; assumption|].
  split; [apply B1_step; assumption|]. split; [apply B2_step; assumption|].
  split; [apply B3_step; assumption|]. split; [apply B4_step; assumption|].
  split; [apply B5_step; assumption|]. split; [apply B6_step; assumption|].
  split; [apply B7_step; assumption|]. split; [apply B8_step; assumption|].
  split; [apply B9_step; assumption|]. split; [apply B10_step; assumption|].
  split; [apply C1_step; assumption|apply C2_step; assumption].
Qed.

Lemma Inv_init w mx th : 0 <= mx -> Inv (init w mx th).
Proof.
  intros H. split; [apply InvA_init, H|].
  assert (Hn : forall c (l : list conn), (length l <= 1)%nat -> Forall (fun k => k = new_conn) l -> nth c l new_conn = new_conn).
  { intros c l Hl Hf. destruct l as [|k [|k2 l]]; simpl in *; try lia.
    - destruct c; reflexivity.
    - inversion Hf; subst. destruct c as [|[|c]]; reflexivity. }
  assert (Hg : forall c, getc (init w mx th) c = new_conn).
  { intros c. unfold getc, init; simpl. apply Hn; destruct w; simpl; auto. }
  unfold InvB, B1, B2, B3, B4, B5, B6, B7, B8, B9, B10, C1, C2, tasks_old, tasks_pending.
  repeat split; intros; rewrite ?Hg in *; simpl in *; try tauto; try lia; try discriminate.
  destruct w; simpl in *; [|lia]. destruct c; [right; left; reflexivity|lia].
  destruct w; simpl in *; [|discriminate]. match goal with H : Some _ = Some _ |- _ => injection H as <- end. lia.
Qed.

Lemma Inv_run ops : forall s, Inv s -> Inv (run s ops).
Proof. unfold run. induction ops as [|o r IH]; intros s H; simpl; [exact H|]. apply IH, Inv_step, H. Qed.

Lemma Inv_reach w mx th ops : 0 <= mx -> Inv (run (init w mx th) ops).
Proof. intros H. apply Inv_run, Inv_init, H. Qed.

(* ------------------------------------------------------------------ consequences *)
Lemma inv_capacity s c : Inv s -> 0 <= c_inflight (getc s c) <= maxid s /\ c_inflight (getc s c) = c_live (getc s c) + c_orph (getc s c).
Proof. intros [[_ HA] _]. destruct (HA c) as (?&?&?&?&?&?&?). lia. Qed.

Lemma maxid_step s o : maxid (fst (step s o)) = maxid s.
Proof. destruct o; simpl; split_step; reflexivity. Qed.

Lemma maxid_run ops : forall s, maxid (run s ops) = maxid s.
Proof. unfold run. induction ops as [|o r IH]; intros s; simpl; [reflexivity|]. rewrite IH. apply maxid_step. Qed.

Lemma shut_step s o : shut s = true -> shut (fst (step s o)) = true.
Proof. intros H. destruct o; simpl; split_step; simpl; auto; try discriminate; try congruence. Qed.

Lemma shut_run ops : forall s, shut s = true -> shut (run s ops) = true.
Proof. unfold run. induction ops as [|o r IH]; intros s H; simpl; [exact H|]. apply IH, shut_step, H. Qed.

Lemma getconn_shut s : shut s = true -> step s GetConn = (s, [OErrShutdown]).
Proof. intros H. simpl. unfold get_conn. rewrite H. reflexivity. Qed.

Lemma inv_closes s : Inv s -> quiescent s = true -> all_closed s = true.
Proof.
  intros [HA (B1&B2&B3&B4&B5&B6&B7&B8&_)] Hq. unfold quiescent, no_tasks in Hq.
  apply andb_prop in Hq. destruct Hq as [Hn Hp]. apply Z.eqb_eq in Hp.
  destruct (queue s) eqn:Q; [|discriminate]. destruct (connecting s) eqn:Cn; [|discriminate].
  destruct (assigning s) eqn:As; [|discriminate]. destruct (finishing s) eqn:Fi; [|discriminate].
  destruct B8 as (_&_&_&Hc&Ht). specialize (Hc ltac:(lia)). specialize (Ht Hp).
  unfold all_closed. apply forallb_forall. intros k Hk.
  destruct (In_nth _ _ new_conn Hk) as (c&Hlt&Hnth).
  destruct (B4 c Hlt) as [H|[H|[H|[H|H]]]].
  - unfold getc in H. rewrite Hnth in H. exact H.
  - congruence.
  - rewrite Ht in H. destruct H.
  - rewrite As in H. destruct H.
  - rewrite Fi in H. destruct H.
Qed.

Lemma inv_new_requests_move s c c' : Inv s -> c_replaced (getc s c) = true ->
  In (OConn c') (snd (step s GetConn)) -> (c < c')%nat.
Proof.
  intros [_ (_&_&_&_&_&_&_&_&_&B10&_)] Hr Hin. simpl in Hin. unfold get_conn in Hin.
  destruct (shut s); [destruct Hin as [H|[]]; discriminate|].
  destruct (cur s) eqn:Cu; [|destruct Hin as [H|[]]; discriminate].
  destruct Hin as [H|[]]. injection H as <-. apply (B10 c n Hr Cu).
Qed.

Lemma close_only_idle s o c why : Inv s -> In (OClose c why) (snd (step s o)) ->
  why = BY_TRASH \/ why = BY_REPLACE -> c_live (getc s c) = 0.
Proof.
  intros Hi Hin Hw.
  assert (Hacc : forall x, c_inflight (getc s x) = c_orph (getc s x) -> c_live (getc s x) = 0).
  { intros x Hx. destruct (inv_capacity s x Hi) as [_ E]. lia. }
  unfold BY_TRASH, BY_REPLACE in Hw.
  destruct o; simpl in Hin; unfold get_conn in Hin; revert Hin; split_step; simpl; intros Hin;
    repeat match goal with H : _ \/ _ |- _ => destruct H | H : False |- _ => destruct H end;
    try discriminate;
    try (match goal with H : OClose _ _ = OClose _ _ |- _ => injection H as <- <- end; unfold BY_SHUTDOWN, BY_ABORT, BY_SELF in *; try lia;
         bool_hyps; apply Hacc; assumption).
  (* ShutdownTrash: reason is BY_SHUTDOWN *)
  all: apply in_map_iff in Hin; destruct Hin as (x&Hx&_); injection Hx as _ <-; unfold BY_SHUTDOWN in *; lia.
Qed.

Lemma inv_eventually_closed s c : Inv s -> c_replaced (getc s c) = true ->
  c_live (getc s c) = 0 -> c_retp (getc s c) = 0 -> c_trp (getc s c) = 0 -> c_closed (getc s c) = true.
Proof.
  intros [_ (_&_&_&_&_&_&_&_&_&_&C1&C2)] Hr H1 H2 H3.
  destruct (C2 c Hr) as [H|H]; [exact H|].
  destruct (C1 c H) as [Hc|Hp]; [exact Hc|lia].
Qed.

(* ------------------------------------------------------------------ a scheduled replacement is never lost *)
Definition B11 (s : state) : Prop :=
  replacing s = true -> shut s = false ->
  (length (queue s) + length (connecting s) + length (assigning s) + length (finishing s) = 1)%nat.

Lemma B11_step s o : B1 s -> B11 s -> B11 (fst (step s o)).
Proof.
  unfold B1, B11. intros H1 H11.
  destruct (replacing s) eqn:ER; destruct (shut s) eqn:ES; destruct o; simpl; rewrite ?ER, ?ES; split_step; simpl in *;
    try contra; eqs; repeat (rewrite ?length_upd, ?app_length in *; simpl in * ); intros; try discriminate; try congruence; try lia.
  all: try (specialize (H11 eq_refl eq_refl); lia).
Qed.

Definition Inv2 (s : state) : Prop := Inv s /\ B11 s.

Lemma Inv2_reach w mx th ops : 0 <= mx -> Inv2 (run (init w mx th) ops).
Proof.
  intros H. assert (Hi : Inv2 (init w mx th)).
  { split; [apply Inv_init, H|]. unfold B11, init; simpl. discriminate. }
  revert Hi. generalize (init w mx th). unfold run. induction ops as [|o r IH]; intros s Hs; simpl; [exact Hs|].
  apply IH. destruct Hs as [Hi H11]. split; [apply Inv_step, Hi|].
  apply B11_step; [|exact H11]. destruct Hi as [_ (B&_)]. exact B.
Qed.
