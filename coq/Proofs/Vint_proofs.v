(* unsigned/signed vints of MarshalModel.v: shape of the packed bytes, read-back, zig-zag on int64. *)
From Coq Require Import ZArith List Bool Lia.
From Verif Require Import PyBase MarshalModel CassandraSpecInt Marshal_proofs.
Import ListNotations.
Local Open Scope Z_scope.

Lemma be_bytes_S : forall k v, be_bytes (S k) v = be_bytes k (v / 256) ++ [v mod 256].
Proof. intros. unfold be_bytes. cbn [le_bytes rev]. reflexivity. Qed.

(* the loop: k iterations, exits because its test is false (fuel is ample), every earlier test was true *)
Lemma vint_loop_inv : forall fuel extra nb v acc,
  nb <= 8 * Z.of_nat fuel ->
  exists k : nat,
    vint_loop fuel extra nb v acc = (extra + Z.of_nat k, v / 256 ^ Z.of_nat k, be_bytes k v ++ acc)
    /\ ~ (8 - Z.min (extra + Z.of_nat k + 1) 8 < nb - 8 * Z.of_nat k)
    /\ (forall j : nat, (j < k)%nat -> 8 - Z.min (extra + Z.of_nat j + 1) 8 < nb - 8 * Z.of_nat j).
Proof.
  induction fuel; intros extra nb v acc Hf.
  - exists O. cbn [vint_loop]. change (Z.of_nat 0) with 0 in *.
    rewrite Z.add_0_r, Z.pow_0_r, Z.div_1_r. repeat split; [lia | intros; lia].
  - cbn [vint_loop]. destruct (8 - Z.min (extra + 1) 8 <? nb) eqn:T.
    + apply Z.ltb_lt in T.
      destruct (IHfuel (extra + 1) (nb - 8) (v / 256) (v mod 256 :: acc)) as [k [E [X A]]]; [lia|].
      exists (S k). rewrite E. split; [|split].
      * rewrite be_bytes_S, <- app_assoc. cbn [app].
        rewrite pow256_S, <- Z.div_div by (try lia; apply pow256_pos).
        f_equal. f_equal. lia.
      * rewrite Nat2Z.inj_succ. intro. apply X. lia.
      * intros j Hj. destruct j.
        -- change (Z.of_nat 0) with 0. rewrite Z.add_0_r. lia.
        -- rewrite Nat2Z.inj_succ. assert (Hj' : (j < k)%nat) by lia. specialize (A j Hj'). lia.
    + apply Z.ltb_ge in T. exists O. change (Z.of_nat 0) with 0.
      rewrite Z.add_0_r, Z.pow_0_r, Z.div_1_r. repeat split; [lia | intros; lia].
Qed.

Definition vmask (k : Z) : Z := Z.shiftl (Z.shiftr 255 (8 - k)) (8 - k).

Lemma bit_length_bounds : forall v, 0 < v -> 2 ^ (py_bit_length v - 1) <= v < 2 ^ py_bit_length v /\ 1 <= py_bit_length v.
Proof.
  intros v Hv. unfold py_bit_length. destruct (v =? 0) eqn:E; [apply Z.eqb_eq in E; lia|].
  rewrite Z.abs_eq by lia. pose proof (Z.log2_spec v Hv). pose proof (Z.log2_nonneg v).
  replace (Z.log2 v + 1 - 1) with (Z.log2 v) by lia. replace (Z.log2 v + 1) with (Z.succ (Z.log2 v)) by lia. lia.
Qed.

Lemma uvint_pack_shape : forall val bs, uvint_pack val = Some bs ->
  (0 <= val < 128 /\ bs = [val]) \/
  (128 <= val < 2 ^ 64 /\ exists k : nat, (1 <= k <= 8)%nat /\
     bs = Z.lor (val / 256 ^ Z.of_nat k) (vmask (Z.of_nat k)) :: be_bytes k val /\
     0 <= val / 256 ^ Z.of_nat k /\
     ((k < 8)%nat -> val / 256 ^ Z.of_nat k < 2 ^ (7 - Z.of_nat k)) /\ (k = 8%nat -> val / 256 ^ Z.of_nat k = 0)).
Proof.
  unfold uvint_pack. intros val bs H.
  destruct (val <? 0) eqn:N; [discriminate|]. apply Z.ltb_ge in N.
  destruct (val <? 128) eqn:S; [apply Z.ltb_lt in S; inversion H; left; split; [lia|reflexivity]|]. apply Z.ltb_ge in S.
  right.
  assert (Hv : 0 < val) by lia.
  destruct (bit_length_bounds val Hv) as [[B1 B2] B0].
  set (nb := py_bit_length val) in *.
  assert (Hnb : 8 <= nb).
  { destruct (Z_lt_dec nb 8); [|lia]. assert (2 ^ nb <= 2 ^ 7) by (apply Z.pow_le_mono_r; lia). change (2 ^ 7) with 128 in *. lia. }
  destruct (vint_loop_inv (Z.to_nat nb) 0 nb val []) as [k [E [X A]]]; [lia|].
  rewrite E in H. rewrite Z.add_0_l in *.
  destruct (8 <? Z.of_nat k) eqn:K; [discriminate|]. apply Z.ltb_ge in K.
  rewrite app_nil_r in H. inversion H; subst bs; clear H.
  assert (K1 : (1 <= k)%nat).
  { destruct k; [|lia]. exfalso. apply X. change (Z.of_nat 0) with 0. lia. }
  assert (Pk : 0 < 256 ^ Z.of_nat k) by apply pow256_pos.
  assert (Hlt : val < 2 ^ 64).
  { apply Z.lt_le_trans with (2 ^ nb); [lia|]. apply Z.pow_le_mono_r; lia. }
  split; [lia|]. exists k. split; [lia|]. split; [reflexivity|]. split; [apply Z.div_pos; lia|]. split.
  - intros K8. rewrite <- pow256.
    apply Z.div_lt_upper_bound; [apply Z.pow_pos_nonneg; lia|].
    rewrite <- Z.pow_add_r by lia.
    apply Z.lt_le_trans with (2 ^ nb); [lia|]. apply Z.pow_le_mono_r; lia.
  - intros K8. subst k. apply Z.div_small. change (256 ^ Z.of_nat 8) with (2 ^ 64). lia.
Qed.

(* finite facts about the first byte, by exhaustive evaluation over k = 1..8 and the few remaining value bits *)
Definition fb_ok (k r : Z) : bool :=
  let first := Z.lor r (vmask k) in
  negb (Z.land first 128 =? 0) && (vint_extra first =? k) && (Z.land first (Z.shiftr 255 k) =? r) && (0 <=? first) && (first <? 256).
Definition fb_all : bool :=
  forallb (fun k => forallb (fun r => fb_ok (Z.of_nat k) (Z.of_nat r))
                            (seq 0 (Z.to_nat (if Z.of_nat k <? 8 then 2 ^ (7 - Z.of_nat k) else 1)))) (seq 1 8).
Lemma fb_all_true : fb_all = true.
Proof. vm_compute. reflexivity. Qed.

Lemma first_byte_facts : forall (k : nat) r, (1 <= k <= 8)%nat -> 0 <= r ->
  ((k < 8)%nat -> r < 2 ^ (7 - Z.of_nat k)) -> (k = 8%nat -> r = 0) ->
  let first := Z.lor r (vmask (Z.of_nat k)) in
  Z.land first 128 <> 0 /\ vint_extra first = Z.of_nat k /\ Z.land first (Z.shiftr 255 (Z.of_nat k)) = r /\ is_byte first.
Proof.
  intros k r Hk Hr H7 H8.
  pose proof fb_all_true as F. unfold fb_all in F. rewrite forallb_forall in F.
  assert (Ik : In k (seq 1 8)) by (apply in_seq; lia).
  specialize (F k Ik). rewrite forallb_forall in F.
  assert (Ir : In (Z.to_nat r) (seq 0 (Z.to_nat (if Z.of_nat k <? 8 then 2 ^ (7 - Z.of_nat k) else 1)))).
  { apply in_seq. split; [lia|]. cbn [Nat.add].
    destruct (Z.of_nat k <? 8) eqn:C.
    - apply Z.ltb_lt in C. assert (r < 2 ^ (7 - Z.of_nat k)) by (apply H7; lia).
      assert (0 <= 2 ^ (7 - Z.of_nat k)) by (apply Z.pow_nonneg; lia). apply Z2Nat.inj_lt; lia.
    - apply Z.ltb_ge in C. rewrite H8 by lia. cbn. lia. }
  specialize (F _ Ir). rewrite Z2Nat.id in F by lia. unfold fb_ok in F.
  repeat (apply andb_true_iff in F; destruct F as [F ?]).
  apply negb_true_iff in F. apply Z.eqb_neq in F.
  cbv zeta. unfold is_byte. repeat split; try lia; try (apply Z.eqb_eq; assumption).
Qed.

Definition small_ok : bool := forallb (fun v => Z.land (Z.of_nat v) 128 =? 0) (seq 0 128).
Lemma small_ok_true : small_ok = true.
Proof. vm_compute. reflexivity. Qed.
Lemma land_small : forall v, 0 <= v < 128 -> Z.land v 128 = 0.
Proof.
  intros. pose proof small_ok_true as F. unfold small_ok in F. rewrite forallb_forall in F.
  specialize (F (Z.to_nat v)). rewrite Z2Nat.id in F by lia. apply Z.eqb_eq. apply F. apply in_seq. lia.
Qed.

Lemma read_be_app : forall bs acc rest,
  read_be (length bs) acc (bs ++ rest) = Some (acc * 256 ^ Z.of_nat (length bs) + be_val bs, rest).
Proof.
  induction bs; intros; cbn [length read_be app].
  - f_equal. f_equal. change (256 ^ Z.of_nat 0) with 1. unfold be_val. cbn. lia.
  - rewrite IHbs. f_equal. f_equal. rewrite be_val_cons, pow256_S. ring.
Qed.

Lemma uvint_read_pack : forall val bs rest, uvint_pack val = Some bs ->
  uvint_read (bs ++ rest) = Some (val, len bs, rest).
Proof.
  intros val bs rest H. destruct (uvint_pack_shape _ _ H) as [[Hv E] | [Hv [k [Hk [E [R0 [R7 R8]]]]]]]; subst bs.
  - cbn [app uvint_read]. rewrite land_small by lia. reflexivity.
  - destruct (first_byte_facts k _ Hk R0 R7 R8) as [F1 [F2 [F3 F4]]].
    cbn [app uvint_read]. apply Z.eqb_neq in F1. rewrite F1, F2, F3, Nat2Z.id.
    rewrite <- (be_bytes_length k val) at 1. rewrite read_be_app.
    rewrite be_bytes_length, be_val_be_bytes.
    f_equal. f_equal. f_equal.
    + pose proof (Z.div_mod val (256 ^ Z.of_nat k)). pose proof (pow256_pos k). lia.
    + unfold len. cbn [length]. rewrite be_bytes_length. lia.
Qed.

Lemma uvint_pack_bytes : forall val bs, uvint_pack val = Some bs -> Forall is_byte bs.
Proof.
  intros val bs H. destruct (uvint_pack_shape _ _ H) as [[Hv E] | [Hv [k [Hk [E [R0 [R7 R8]]]]]]]; subst bs.
  - constructor; [unfold is_byte; lia | constructor].
  - destruct (first_byte_facts k _ Hk R0 R7 R8) as [F1 [F2 [F3 F4]]].
    constructor; [exact F4 | apply be_bytes_bytes].
Qed.

Lemma uvint_pack_nonempty : forall val bs, uvint_pack val = Some bs -> (1 <= length bs)%nat.
Proof.
  intros val bs H. destruct (uvint_pack_shape _ _ H) as [[Hv E] | [Hv [k [Hk [E _]]]]]; subst bs; cbn [length]; lia.
Qed.

Lemma uvint_pack_lt : forall val bs, uvint_pack val = Some bs -> 0 <= val < 2 ^ 64.
Proof.
  intros val bs H. destruct (uvint_pack_shape _ _ H) as [[Hv E] | [Hv _]]; [|lia].
  change (2 ^ 64) with 18446744073709551616. lia.
Qed.

(* ------------------------------------------------------------------ zig-zag on int64 *)
Lemma zigzag_nonneg : forall n, 0 <= n < 2 ^ 63 -> encode_zig_zag n = 2 * n.
Proof.
  intros n H. unfold encode_zig_zag. rewrite Z.shiftr_div_pow2, Z.shiftl_mul_pow2 by lia.
  rewrite Z.div_small by lia. rewrite Z.lxor_0_r. change (2 ^ 1) with 2. lia.
Qed.

Lemma zigzag_neg : forall n, - 2 ^ 63 <= n < 0 -> encode_zig_zag n = - 2 * n - 1.
Proof.
  intros n H. unfold encode_zig_zag. rewrite Z.shiftr_div_pow2, Z.shiftl_mul_pow2 by lia.
  assert (E : n / 2 ^ 63 = -1).
  { symmetry. apply Z.div_unique with (r := n + 2 ^ 63); lia. }
  rewrite E, Z.lxor_m1_r. unfold Z.lnot. change (2 ^ 1) with 2. lia.
Qed.

Lemma encode_zig_zag_spec : forall n, int64 n -> encode_zig_zag n = spec_zigzag n.
Proof.
  unfold int64, spec_zigzag. intros n H. destruct (0 <=? n) eqn:C.
  - apply Z.leb_le in C. apply zigzag_nonneg. lia.
  - apply Z.leb_gt in C. apply zigzag_neg. lia.
Qed.

Lemma land_1 : forall m, Z.land m 1 = m mod 2.
Proof. intros. change 1 with (Z.ones 1). rewrite Z.land_ones by lia. reflexivity. Qed.

Lemma decode_encode_zig_zag : forall n, int64 n -> decode_zig_zag (encode_zig_zag n) = n.
Proof.
  unfold int64. intros n H. destruct (Z_lt_dec n 0).
  - rewrite zigzag_neg by lia. unfold decode_zig_zag.
    rewrite Z.shiftr_div_pow2 by lia. change (2 ^ 1) with 2.
    rewrite land_1.
    assert (E1 : (- 2 * n - 1) / 2 = - n - 1) by (symmetry; apply Z.div_unique with (r := 1); lia).
    assert (E2 : (- 2 * n - 1) mod 2 = 1) by (symmetry; apply Z.mod_unique with (q := - n - 1); lia).
    rewrite E1, E2. change (- (1)) with (-1). rewrite Z.lxor_m1_r. unfold Z.lnot. lia.
  - rewrite zigzag_nonneg by lia. unfold decode_zig_zag.
    rewrite Z.shiftr_div_pow2 by lia. change (2 ^ 1) with 2.
    rewrite land_1.
    rewrite (Z.mul_comm 2 n), Z.div_mul, Z.mod_mul by lia. apply Z.lxor_0_r.
Qed.

Lemma spec_zigzag_range : forall n, int64 n -> 0 <= spec_zigzag n < 2 ^ 64.
Proof.
  unfold int64, spec_zigzag. intros n H. change (2 ^ 64) with (2 * 2 ^ 63).
  destruct (0 <=? n) eqn:C; [apply Z.leb_le in C | apply Z.leb_gt in C]; lia.
Qed.

(* ------------------------------------------------------------------ signed vint sequences *)
Lemma vints_unpack_loop_pack : forall vs bs fuel, Forall int64 vs -> vints_pack vs = Some bs ->
  (length bs <= fuel)%nat -> vints_unpack_loop fuel bs = Some vs.
Proof.
  induction vs as [|x r IH]; intros bs fuel Hi H Hf; cbn [vints_pack] in H.
  - inversion H. destruct fuel; reflexivity.
  - destruct (uvint_pack (encode_zig_zag x)) as [a|] eqn:Ea; [|discriminate].
    destruct (vints_pack r) as [b|] eqn:Eb; [|discriminate]. inversion H; subst bs; clear H.
    inversion Hi; subst.
    pose proof (uvint_pack_nonempty _ _ Ea) as La.
    pose proof (uvint_read_pack _ _ b Ea) as R.
    rewrite app_length in Hf.
    destruct a as [|a0 a']; [cbn in La; lia|].
    destruct fuel; [cbn in Hf; lia|].
    cbn [vints_unpack_loop app]. cbn [app] in R. rewrite R.
    rewrite (IH b fuel); auto; [|cbn [length] in Hf; lia].
    rewrite decode_encode_zig_zag by assumption. reflexivity.
Qed.

Lemma vints_unpack_pack : forall vs bs, Forall int64 vs -> vints_pack vs = Some bs -> vints_unpack bs = Some vs.
Proof. intros. unfold vints_unpack. eapply vints_unpack_loop_pack; eauto. Qed.

Lemma vints_pack_nonempty : forall v vs bs, vints_pack (v :: vs) = Some bs -> bs <> [].
Proof.
  intros v vs bs H. cbn [vints_pack] in H.
  destruct (uvint_pack (encode_zig_zag v)) as [a|] eqn:Ea; [|discriminate].
  destruct (vints_pack vs) as [b|]; [|discriminate]. inversion H.
  pose proof (uvint_pack_nonempty _ _ Ea). destruct a; [cbn in *; lia | discriminate].
Qed.
