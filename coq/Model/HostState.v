(* C25 model: host up/down state, reconnectors, pool presence and notifications of cassandra.cluster.Cluster.
   One step = one call into the driver made by an event source (control connection event, pool failure signal,
   scheduler firing a reconnector, executor running one queued task); with the deterministic executor/scheduler
   each such call runs to completion before the next (DESIGN 2.4, C25 "not covered").
   Source regions (cassandra/cluster.py, cassandra/pool.py):
     on_up                      Cluster.on_up
     gup_done / cleanup         Cluster._on_up_future_completed / _cleanup_failed_on_up_handling
     on_down_task               Cluster.on_down (body run by the executor: @run_in_executor)
     start_reconnector          Cluster._start_reconnector + _ReconnectionHandler.start
     on_add / finalize_add      Cluster.on_add / future_completed / _finalize_add
     on_remove                  Cluster.remove_host + Cluster.on_remove
     run_addpool                Session.add_or_renew_pool.run_add_or_renew_pool (+ done callbacks)
     remove_pools / ucp_all     Session.remove_pool / Session.update_created_pools
     reconnect                  _ReconnectionHandler.run with _HostReconnectionHandler hooks
   No proofs in this file. *)
From Coq Require Import ZArith List Bool Arith.
Import ListNotations.

Inductive outcome := OOk | OFail | OAuth.
Inductive grp := GNone | GUp (g : nat) | GAdd (g : nat).
Inductive task :=
| TDown (h : nat) (isadd expect : bool)
| TAddPool (h sid : nat) (isadd : bool) (g : grp)
| TPoolShut (h sid : nat) (cb : bool).
Inductive ev :=
| EFail (h : nat) | EStatusDown (h : nat) | EStatusUp (h : nat) | EAdd (h : nat) | ERemove (h : nat)
| EReconnect (k : nat) (o : outcome) | ERun (k : nat) (o : outcome)
| EProbeStart (k : nat) | EProbeFinish (j : nat) (o : outcome)
| ESetIgn (e : nat) (b : bool)      (* the load-balancing policy changes its mind about the distance of endpoint e *).
(* notifications: kind 0 up, 1 down, 2 add, 3 remove; NAttempt = a reconnector opened a connection to host h *)
Inductive note := NL (kind h : nat) | NP (kind h : nat) | NAttempt (h : nat).

(* a Host OBJECT.  Objects h, h + neps, h + 2 neps ... share the endpoint h mod neps: a node that was removed and a
   replacement node added later under the same address are different objects that compare equal (Host.__eq__). *)
Record hst := mkh { present : nat (* 0 absent, 1 in metadata, 2 removed *);
                    up : nat (* 0 down, 1 up, 2 unknown (None) *);
                    reg : option nat; handling : bool }.
Record rcn := mkr { rhost : nat; radd : bool; rcanc : bool; rleft : option nat; rstop : bool }.
Record st := mks { hosts : nat -> hst; recs : nat -> rcn; nrecs : nat; queue : list task; timers : list nat;
                   probes : list nat (* reconnectors whose connection attempt is in flight *);
                   gfail : list nat; nextg : nat; order : list nat; nsess : nat; sched : option nat; out : list note;
                   neps : nat (* number of endpoints *);
                   eign : nat -> bool (* endpoint -> currently IGNORED by the load-balancing policy *);
                   epools : nat -> nat -> nat (* Session._pools, keyed by ENDPOINT: endpoint -> session -> 0 none, 1 pool whose
                                                 connection died, 2 pool with open connection *) }.

Definition set_hosts s v := mks v (recs s) (nrecs s) (queue s) (timers s) (probes s) (gfail s) (nextg s) (order s) (nsess s) (sched s) (out s) (neps s) (eign s) (epools s).
Definition set_recs s v := mks (hosts s) v (nrecs s) (queue s) (timers s) (probes s) (gfail s) (nextg s) (order s) (nsess s) (sched s) (out s) (neps s) (eign s) (epools s).
Definition set_nrecs s v := mks (hosts s) (recs s) v (queue s) (timers s) (probes s) (gfail s) (nextg s) (order s) (nsess s) (sched s) (out s) (neps s) (eign s) (epools s).
Definition set_queue s v := mks (hosts s) (recs s) (nrecs s) v (timers s) (probes s) (gfail s) (nextg s) (order s) (nsess s) (sched s) (out s) (neps s) (eign s) (epools s).
Definition set_timers s v := mks (hosts s) (recs s) (nrecs s) (queue s) v (probes s) (gfail s) (nextg s) (order s) (nsess s) (sched s) (out s) (neps s) (eign s) (epools s).
Definition set_probes s v := mks (hosts s) (recs s) (nrecs s) (queue s) (timers s) v (gfail s) (nextg s) (order s) (nsess s) (sched s) (out s) (neps s) (eign s) (epools s).
Definition set_gfail s v := mks (hosts s) (recs s) (nrecs s) (queue s) (timers s) (probes s) v (nextg s) (order s) (nsess s) (sched s) (out s) (neps s) (eign s) (epools s).
Definition set_nextg s v := mks (hosts s) (recs s) (nrecs s) (queue s) (timers s) (probes s) (gfail s) v (order s) (nsess s) (sched s) (out s) (neps s) (eign s) (epools s).
Definition set_order s v := mks (hosts s) (recs s) (nrecs s) (queue s) (timers s) (probes s) (gfail s) (nextg s) v (nsess s) (sched s) (out s) (neps s) (eign s) (epools s).
Definition set_nsess s v := mks (hosts s) (recs s) (nrecs s) (queue s) (timers s) (probes s) (gfail s) (nextg s) (order s) v (sched s) (out s) (neps s) (eign s) (epools s).
Definition set_sched s v := mks (hosts s) (recs s) (nrecs s) (queue s) (timers s) (probes s) (gfail s) (nextg s) (order s) (nsess s) v (out s) (neps s) (eign s) (epools s).
Definition set_out s v := mks (hosts s) (recs s) (nrecs s) (queue s) (timers s) (probes s) (gfail s) (nextg s) (order s) (nsess s) (sched s) v (neps s) (eign s) (epools s).
Definition set_neps s v := mks (hosts s) (recs s) (nrecs s) (queue s) (timers s) (probes s) (gfail s) (nextg s) (order s) (nsess s) (sched s) (out s) v (eign s) (epools s).
Definition set_eign s v := mks (hosts s) (recs s) (nrecs s) (queue s) (timers s) (probes s) (gfail s) (nextg s) (order s) (nsess s) (sched s) (out s) (neps s) v (epools s).
Definition set_epools s v := mks (hosts s) (recs s) (nrecs s) (queue s) (timers s) (probes s) (gfail s) (nextg s) (order s) (nsess s) (sched s) (out s) (neps s) (eign s) v.

Definition updh (s : st) (h : nat) (f : hst -> hst) : st :=
  set_hosts s (fun x => if x =? h then f (hosts s x) else hosts s x).
Definition updr (s : st) (r : nat) (f : rcn -> rcn) : st :=
  set_recs s (fun x => if x =? r then f (recs s x) else recs s x).
Definition h_up v (x : hst) := mkh (present x) v (reg x) (handling x).
Definition h_reg v (x : hst) := mkh (present x) (up x) v (handling x).
Definition h_handling v (x : hst) := mkh (present x) (up x) (reg x) v.
Definition h_present v (x : hst) := mkh v (up x) (reg x) (handling x).
(* endpoint of a host object; distance and pools are per endpoint *)
Definition ep (s : st) (h : nat) : nat := h mod (neps s).
Definition ignd (s : st) (h : nat) : bool := eign s (ep s h).
Definition poolsd (s : st) (h sid : nat) : nat := epools s (ep s h) sid.
Definition upd_pools (s : st) (h : nat) (f : nat -> nat) : st :=
  set_epools s (fun e => if e =? ep s h then f else epools s e).
Definition r_canc v (r : rcn) := mkr (rhost r) (radd r) v (rleft r) (rstop r).
Definition r_left v (r : rcn) := mkr (rhost r) (radd r) (rcanc r) v (rstop r).
Definition r_stop v (r : rcn) := mkr (rhost r) (radd r) (rcanc r) (rleft r) v.

Definition enq (s : st) (ts : list task) : st := set_queue s (queue s ++ ts).
Definition emit (s : st) (n : note) : st := set_out s (n :: out s).
Definition sessions (s : st) : list nat := seq 0 (nsess s).

(* reconnector.cancel() on whatever get_and_set_reconnection_handler returned *)
Definition cancel_opt (s : st) (o : option nat) : st :=
  match o with Some r => updr s r (r_canc true) | None => s end.

(* Session.remove_pool(host) for every session: pop the pool, submit pool.shutdown (cb: Session.on_down's done-callback) *)
Definition remove_pools (s : st) (h : nat) (cb : bool) : st :=
  let ps := poolsd s h in
  enq (upd_pools s h (fun _ => 0)) (map (fun sid => TPoolShut h sid cb) (filter (fun sid => negb (ps sid =? 0)) (sessions s))).

(* Session.add_or_renew_pool(host, is_add) for every session; None (no future) for an ignored host *)
Definition has_futures (s : st) (h : nat) : bool := negb (ignd s h) && negb (nsess s =? 0).
Definition add_pools (s : st) (h : nat) (isadd : bool) (g : grp) : st :=
  if ignd s h then s else enq s (map (fun sid => TAddPool h sid isadd g) (sessions s)).

(* Session.update_created_pools: for every host in the metadata: no pool -> create one unless ignored / marked down;
   a pool but the host is now IGNORED -> remove_pool (pool.shutdown submitted, no callback) *)
Definition needs_pool (s : st) (sid h : nat) : bool :=
  (poolsd s h sid =? 0) && negb (ignd s h) && (1 <=? up (hosts s h)).
Definition drops_pool (s : st) (sid h : nat) : bool := negb (poolsd s h sid =? 0) && ignd s h.
Definition ucp_task (s : st) (sid h : nat) : list task :=
  if needs_pool s sid h then [TAddPool h sid false GNone] else if drops_pool s sid h then [TPoolShut h sid false] else [].
Definition ucp_tasks (s : st) (sid : nat) : list task := flat_map (ucp_task s sid) (order s).
(* the pools popped by update_created_pools of session sid *)
Definition ucp_pools (s : st) (sid : nat) (e : nat) (i : nat) : nat :=
  if (i =? sid) && existsb (fun h => (ep s h =? e) && drops_pool s sid h) (order s) then 0 else epools s e i.
Definition ucp_one (s : st) (sid : nat) : st :=
  enq (set_epools s (ucp_pools s sid)) (ucp_tasks s sid).
Definition ucp_all (s : st) : st := fold_left ucp_one (sessions s) s.

(* Cluster._start_reconnector + _ReconnectionHandler.start (non-empty schedule) *)
Definition start_reconnector (s : st) (h : nat) (isadd : bool) : st :=
  if ignd s h then s else
  if negb (present (hosts s h) =? 1) then s else          (* host no longer in the metadata: removed *)
  let r := nrecs s in
  let old := reg (hosts s h) in
  let left := match sched s with None => None | Some n => Some (pred n) end in
  let s := set_nrecs (updr s r (fun _ => mkr h isadd false left false)) (S r) in
  let s := cancel_opt (updh s h (h_reg (Some r))) old in
  set_timers s (timers s ++ [r]).

(* Cluster.on_up *)
Definition on_up (s : st) (h : nat) : st :=
  let x := hosts s h in
  if handling x then s else if up x =? 1 then s else
  let s := updh s h (fun x => h_reg None (h_handling true x)) in
  let s := cancel_opt s (reg x) in
  let s := remove_pools s h false in
  let s := emit s (NP 0 h) in
  let g := nextg s in
  let s := set_nextg (add_pools s h false (GUp g)) (S g) in
  if has_futures s h then s
  else emit (updh s h (fun x => h_handling false (h_up 1 x))) (NL 0 h).    (* no futures: marked up, listeners notified *)

Definition finalize_add (s : st) (h : nat) (setup : bool) : st :=
  let s := if setup then updh s h (h_up 1) else s in
  ucp_all (emit s (NL 2 h)).

(* Cluster.on_add *)
Definition on_add (s : st) (h : nat) : st :=
  let s := emit s (NP 2 h) in
  if ignd s h then finalize_add s h false else
  let g := nextg s in
  let s := set_nextg (add_pools s h true (GAdd g)) (S g) in
  if has_futures s h then s else finalize_add s h true.

(* Cluster.remove_host + on_remove *)
Definition on_remove (s : st) (h : nat) : st :=
  let s := set_order (updh s h (fun x => h_up 0 (h_present 2 x))) (filter (fun x => negb (x =? h)) (order s)) in
  let s := emit s (NP 3 h) in
  let s := remove_pools s h true in
  let s := emit s (NL 3 h) in
  let old := reg (hosts s h) in
  cancel_opt (updh s h (h_reg None)) old.

Definition connected (s : st) (h : nat) : bool := existsb (fun sid => poolsd s h sid =? 2) (sessions s).

(* body of Cluster.on_down, run by the executor *)
Definition on_down_task (s : st) (h : nat) (isadd expect : bool) : st :=
  let x := hosts s h in
  if negb (ignd s h) && connected s h then s else
  let s := updh s h (h_up 0) in
  if (negb (up x =? 1) && negb expect) || (match reg x with Some _ => true | None => false end) then s else
  let s := emit s (NP 1 h) in
  let s := remove_pools s h true in
  let s := emit s (NL 1 h) in
  start_reconnector s h isadd.

Definition grp_eqb (a b : grp) : bool :=
  match a, b with GNone, GNone => true | GUp x, GUp y => x =? y | GAdd x, GAdd y => x =? y | _, _ => false end.
Definition task_in_grp (g : grp) (t : task) : bool :=
  match t with TAddPool _ _ _ g' => grp_eqb g g' | _ => false end.
Definition gfailed (s : st) (g : nat) : bool := existsb (Nat.eqb g) (gfail s).

(* Cluster._cleanup_failed_on_up_handling *)
Definition cleanup (s : st) (h : nat) : st :=
  let s := emit s (NP 1 h) in
  let s := remove_pools s h false in
  start_reconnector s h false.

(* done-callback of one pool-creation future: _on_up_future_completed / on_add.future_completed *)
Definition grp_done (s : st) (h : nat) (g : grp) (res : bool) : st :=
  match g with
  | GNone => s
  | GUp n =>
      let s := if res then s else set_gfail s (n :: gfail s) in
      if existsb (task_in_grp g) (queue s) then s else
      if gfailed s n then updh (cleanup s h) h (h_handling false)
      else ucp_all (updh (emit (updh s h (h_up 1)) (NL 0 h)) h (h_handling false))
  | GAdd n =>
      let s := if res then s else set_gfail s (n :: gfail s) in
      if existsb (task_in_grp g) (queue s) then s else
      if gfailed s n then s else finalize_add s h true
  end.

(* run_add_or_renew_pool *)
Definition run_addpool (s : st) (h sid : nat) (isadd : bool) (g : grp) (o : outcome) : st :=
  match o with
  | OOk => grp_done (upd_pools s h (fun i => if i =? sid then 2 else poolsd s h i)) h g true
  | OFail => grp_done (enq s [TDown h isadd true]) h g false
  | OAuth => grp_done (enq s [TDown h isadd false]) h g false
  end.

Definition run_task (s : st) (t : task) (o : outcome) : st :=
  match t with
  | TDown h isadd expect => on_down_task s h isadd expect
  | TAddPool h sid isadd g => run_addpool s h sid isadd g o
  | TPoolShut h sid cb => if cb then ucp_one s sid else s
  end.

Fixpoint remove_nth {A} (k : nat) (l : list A) : list A :=
  match l, k with [] , _ => [] | _ :: t, O => t | x :: t, S k' => x :: remove_nth k' t end.

(* _ReconnectionHandler.run, second half: try_reconnect() has returned (or raised); r is no longer scheduled *)
Definition probe_finish (s : st) (r : nat) (o : outcome) : st :=
  let c := recs s r in
  let h := rhost c in
  match o with
  | OOk => if rcanc c then s else                           (* `if not self._cancelled:` after the connect *)
           let s := if radd c then on_add s h else on_up s h in
           updh s h (h_reg None)                           (* callback: get_and_set_reconnection_handler(None) *)
  | OFail => match rleft c with
             | Some O => updr s r (r_stop true)
             | Some (S n) => set_timers (updr s r (r_left (Some n))) (timers s ++ [r])
             | None => set_timers s (timers s ++ [r])
             end
  | OAuth => updr s r (r_stop true)
  end.

(* _ReconnectionHandler.run as one step (nothing happens while the connection attempt is in flight) *)
Definition reconnect (s : st) (r : nat) (o : outcome) : st :=
  if rcanc (recs s r) then s else probe_finish (emit s (NAttempt (rhost (recs s r)))) r o.

(* first half: `if self._cancelled: return`, then the connection attempt starts *)
Definition probe_start (s : st) (r : nat) : st :=
  if rcanc (recs s r) then s else set_probes (emit s (NAttempt (rhost (recs s r)))) (probes s ++ [r]).

Definition known (s : st) (h : nat) : bool := negb (present (hosts s h) =? 0).

Definition step_ (s : st) (e : ev) : st :=
  match e with
  | EFail h => if known s h then
                 enq (upd_pools s h (fun i => if poolsd s h i =? 2 then 1 else poolsd s h i)) [TDown h false false]
               else s
  | EStatusDown h => if known s h then enq s [TDown h false false] else s
  | EStatusUp h => if known s h then on_up s h else s
  | EAdd h => if (present (hosts s h) =? 0) && ((h <? neps s) || (present (hosts s (h - neps s)) =? 2)) then
                on_add (set_order (updh s h (fun x => h_up 2 (h_present 1 x))) (order s ++ [h])) h
              else s
  | ERemove h => if present (hosts s h) =? 1 then on_remove s h else s
  | EReconnect k o => match nth_error (timers s) k with
                      | Some r => reconnect (set_timers s (remove_nth k (timers s))) r o
                      | None => s
                      end
  | ERun k o => match nth_error (queue s) k with
                | Some t => run_task (set_queue s (remove_nth k (queue s))) t o
                | None => s
                end
  | EProbeStart k => match nth_error (timers s) k with
                     | Some r => probe_start (set_timers s (remove_nth k (timers s))) r
                     | None => s
                     end
  | EProbeFinish j o => match nth_error (probes s) j with
                        | Some r => probe_finish (set_probes s (remove_nth j (probes s))) r o
                        | None => s
                        end
  | ESetIgn e b => set_eign s (fun x => if x =? e then b else eign s x)
  end.

Definition step (s : st) (e : ev) : st * list note :=
  let s' := step_ (set_out s []) e in (s', rev (out s')).

Definition run (s : st) (es : list ev) : st := fold_left (fun s e => fst (step s e)) es s.

(* initial states: endpoint kinds 0 absent, 1 up with a pool in every session, 2 ignored (in metadata, unknown, no pools);
   objects length kinds .. 2 * length kinds - 1 are the (absent) replacement nodes *)
Definition init_host (k : nat) : hst :=
  match k with
  | 1 => mkh 1 1 None false
  | 2 => mkh 1 2 None false
  | _ => mkh 0 2 None false
  end.
Definition init (kinds : list nat) (ns : nat) (sc : option nat) : st :=
  mks (fun h => init_host (nth h kinds 0)) (fun _ => mkr 0 false true None false) 0 [] [] [] [] 0
      (filter (fun h => negb (nth h kinds 0 =? 0)) (seq 0 (length kinds))) ns sc []
      (length kinds) (fun e => nth e kinds 0 =? 2) (fun e _ => if nth e kinds 0 =? 1 then 2 else 0).

(* ---------------------------------------------------------------- observation (compared with the implementation) *)
Local Open Scope Z_scope.
Definition zn (n : nat) : Z := Z.of_nat n.
Definition obs_host (s : st) (h : nat) : list Z :=
  let x := hosts s h in
  if (present x =? 0)%nat then [0] else
  [zn (present x); zn (up x); match reg x with None => -1 | Some r => zn r end;
   match reg x with None => -1 | Some r => Z.b2z (rcanc (recs s r)) end; Z.b2z (handling x)]
  ++ map (fun sid => zn (poolsd s h sid)) (sessions s).
Definition obs_task (s : st) (t : task) : Z :=
  match t with
  | TDown h a e => 1000 + 100 * zn h + 10 * Z.b2z a + Z.b2z e
  | TAddPool h sid a _ => 2000 + 100 * zn h + 10 * zn sid + Z.b2z a
  | TPoolShut h sid _ => 3000 + 100 * zn (ep s h) + 10 * zn sid       (* the pool is known by its endpoint *)
  end.
Definition obs_note (n : note) : list Z :=
  match n with NL k h => [100 + 10 * zn k + zn h] | NP k h => [200 + 10 * zn k + zn h] | NAttempt h => [300 + zn h] end.
Definition obs (nh : nat) (s : st) (o : list note) : list Z :=
  flat_map (obs_host s) (seq 0 nh) ++ [-1] ++ map (obs_task s) (queue s) ++ [-2] ++ map zn (timers s) ++ [-6] ++ map zn (probes s)
  ++ [-3] ++ map (fun r => 10 * zn (rhost (recs s r)) + Z.b2z (rcanc (recs s r))) (seq 0 (nrecs s))
  ++ [-4] ++ flat_map obs_note o.

Fixpoint trace (nh : nat) (s : st) (es : list ev) : list (list Z) :=
  match es with
  | [] => []
  | e :: es' => let '(s', o) := step s e in obs nh s' o :: trace nh s' es'
  end.

Fixpoint zlist_eqb (a b : list Z) : bool :=
  match a, b with [], [] => true | x :: a', y :: b' => (x =? y) && zlist_eqb a' b' | _, _ => false end.
Fixpoint zll_eqb (a b : list (list Z)) : bool :=
  match a, b with [], [] => true | x :: a', y :: b' => zlist_eqb x y && zll_eqb a' b' | _, _ => false end.
Definition corr (kinds : list nat) (ns : nat) (sc : option nat) (es : list ev) (expected : list (list Z)) : bool :=
  zll_eqb (trace (2 * length kinds) (init kinds ns sc) es) expected.
