(* Hand model of the part of CPython's uuid.UUID used by cassandra.util.uuid_from_time (Lib/uuid.py):

     UUID(fields=(time_low, time_mid, time_hi_version, clock_seq_hi_variant, clock_seq_low, node), version=v)
       raises ValueError unless 0 <= time_low < 2^32, 0 <= time_mid < 2^16, 0 <= time_hi_version < 2^16,
       0 <= clock_seq_hi_variant < 2^8, 0 <= clock_seq_low < 2^8, 0 <= node < 2^48;
       int = time_low<<96 | time_mid<<80 | time_hi_version<<64 | (clock_seq_hi_variant<<8 | clock_seq_low)<<48 | node;
       with version given: variant bits := 10 (RFC 4122), version nibble := v.
     UUID.time = (time_hi_version & 0x0fff) << 48 | time_mid << 32 | time_low   (fields re-read from int).

   Tied to the real uuid module by translation validation (lib/vf/marshal_validation.py).  No proofs here. *)
From Coq Require Import ZArith List Bool.
Import ListNotations.
Local Open Scope Z_scope.

Definition uuid_fields := (Z * Z * Z * Z * Z * Z)%type.

Definition uuid_fields_ok (f : uuid_fields) : bool :=
  let '(tl, tm, thv, csh, csl, node) := f in
  (0 <=? tl) && (tl <? 2 ^ 32) && (0 <=? tm) && (tm <? 2 ^ 16) && (0 <=? thv) && (thv <? 2 ^ 16) &&
  (0 <=? csh) && (csh <? 2 ^ 8) && (0 <=? csl) && (csl <? 2 ^ 8) && (0 <=? node) && (node <? 2 ^ 48).

(* the 128-bit integer; None = ValueError *)
Definition py_uuid_int (f : uuid_fields) (version : Z) : option Z :=
  if uuid_fields_ok f && (1 <=? version) && (version <=? 5) then
    let '(tl, tm, thv, csh, csl, node) := f in
    let thv' := thv mod 2 ^ 12 + version * 2 ^ 12 in          (* version nibble replaced *)
    let csh' := csh mod 2 ^ 6 + 2 ^ 7 in                        (* variant bits 10 *)
    Some (tl * 2 ^ 96 + tm * 2 ^ 80 + thv' * 2 ^ 64 + csh' * 2 ^ 56 + csl * 2 ^ 48 + node)
  else None.

(* UUID.time of an integer *)
Definition py_uuid_time (i : Z) : Z :=
  let tl := i / 2 ^ 96 in
  let tm := (i / 2 ^ 80) mod 2 ^ 16 in
  let thv := (i / 2 ^ 64) mod 2 ^ 16 in
  (thv mod 2 ^ 12) * 2 ^ 48 + tm * 2 ^ 32 + tl.

(* 100-ns intervals between the UUID epoch 1582-10-15 and the Unix epoch *)
Definition UUID_EPOCH_OFFSET : Z := 122192928000000000.
