(* C20 -- Session._set_keyspace_for_all_pools over the session's pools (repaired code).
   Keyspaces: 1 = the old one, 2 = the one being selected.  NO proofs here.
   A pool's scripted outcome for one switch: what its connection answers to USE (ok / invalid keyspace / anything else =
   connection error), or that it has no open connection / is shut down / already has the keyspace selected.
   k_legacy marks a HostConnectionPool (protocol v1/v2); PEmptyV2 = such a pool with no connection at the moment.
   k_srv is the keyspace actually selected on the server side of the pool's connection (ghost: the harness knows it because
   it plays the server); k_connks is what the driver believes (Connection.keyspace). *)
From Coq Require Import ZArith List Bool.
From Verif Require Import Pool.
Import ListNotations.
Local Open Scope Z_scope.

Inductive outcome := POk | PInvalid | PConnErr | PNoConn | PShut | PSame | PEmptyV2
  | PDeadErr     (* the connection is already defunct when its USE is answered (ConnectionShutdown from error_all_requests) *)
  | PLost.       (* HostConnection whose connection died before the switch: no connection, a _replace task is queued *)

Record kpool := mkK {
  k_out : outcome;
  k_legacy : bool;
  k_ks : Z;          (* pool._keyspace: what HostConnection._replace selects on the next connection *)
  k_has : bool;      (* the pool has an open connection *)
  k_shut : bool;     (* pool.is_shutdown *)
  k_connks : Z;      (* Connection.keyspace of the pool's connection (the last one it had), -1 if it never had one *)
  k_inflight : Z;    (* in_flight of that connection, -1 if none *)
  k_pending : bool;  (* a USE request is outstanding on the connection *)
  k_failed : bool;   (* ghost: the USE of the current switch failed on this pool's connection *)
  k_srv : Z          (* ghost: keyspace selected on the server side of that connection *)
}.

Definition init_pool (o : outcome) : kpool :=
  match o with
  | PNoConn => mkK o false 1 false false (-1) (-1) false false (-1)
  | PEmptyV2 => mkK o true 1 false false (-1) (-1) false false (-1)
  | PShut => mkK o false 1 false true 1 0 false false 1
  | PLost => mkK o false 1 false false 1 0 false false 1
  | PSame => mkK o false 1 true false 2 0 false false 2
  | _ => mkK o false 1 true false 1 0 false false 1
  end.

Record kstate := mkS {
  pools : list kpool;
  sess_ks : Z;                       (* Session.keyspace *)
  started : bool;
  remaining : list nat;              (* remaining_callbacks *)
  errors : list (nat * Z);           (* errors dict: pool index -> error kind (1 InvalidRequest, 2 ConnectionException), sorted by pool *)
  calls : list (list (nat * Z))      (* arguments of every invocation of the final callback *)
}.

Definition kinit (outs : list outcome) : kstate := mkS (map init_pool outs) 1 false [] [] [].

(* the same pools facing another switch (e.g. the application retries the USE): fresh scripted outcomes, nothing pending *)
Definition reset_pool (p : kpool) (o : outcome) : kpool :=
  mkK o (k_legacy p) (k_ks p) (k_has p) (k_shut p) (k_connks p) (k_inflight p) false false (k_srv p).
Fixpoint reset_pools (ps : list kpool) (outs : list outcome) : list kpool :=
  match ps, outs with
  | p :: ps', o :: outs' => reset_pool p o :: reset_pools ps' outs'
  | p :: ps', [] => reset_pool p (k_out p) :: reset_pools ps' []
  | [], _ => []
  end.
Definition reinit (s : kstate) (outs : list outcome) : kstate := mkS (reset_pools (pools s) outs) (sess_ks s) false [] [] [].

(* _set_keyspace_for_all_conns + Connection.set_keyspace_async up to the point where they return *)
Definition start_pool (p : kpool) : kpool :=
  if k_legacy p && negb (k_has p)
  then (* HostConnectionPool with no connection: calls back at once, before `self._keyspace = keyspace` *)
       mkK (k_out p) true (k_ks p) false (k_shut p) (k_connks p) (k_inflight p) false (k_failed p) (k_srv p)
  else if k_shut p || negb (k_has p) then mkK (k_out p) (k_legacy p) 2 (k_has p) (k_shut p) (k_connks p) (k_inflight p) false (k_failed p) (k_srv p)
  else if k_connks p =? 2 then mkK (k_out p) (k_legacy p) 2 true false 2 (k_inflight p) false (k_failed p) (k_srv p)   (* in_flight +1, callback, return_connection -1 *)
  else mkK (k_out p) (k_legacy p) 2 true false (k_connks p) (k_inflight p + 1) true (k_failed p) (k_srv p).

Fixpoint pending_from (i : nat) (l : list kpool) : list nat :=
  match l with [] => [] | p :: t => if k_pending p then i :: pending_from (S i) t else pending_from (S i) t end.

Fixpoint eins (i : nat) (e : Z) (l : list (nat * Z)) : list (nat * Z) :=
  match l with
  | [] => [(i, e)]
  | (j, f) :: t => if Nat.ltb i j then (i, e) :: l else (j, f) :: eins i e t
  end.

(* process_result + connection_finished_setting_keyspace (return_connection) for pool p *)
Definition complete_pool (p : kpool) : kpool * option Z :=
  match k_out p with
  | POk => (mkK (k_out p) (k_legacy p) (k_ks p) true (k_shut p) 2 (k_inflight p - 1) false (k_failed p) 2, None)
  | PInvalid => (mkK (k_out p) (k_legacy p) (k_ks p) true (k_shut p) (k_connks p) (k_inflight p - 1) false true (k_srv p), Some 1)
  | _ => (mkK (k_out p) (k_legacy p) (k_ks p) false (k_shut p) (k_connks p) (k_inflight p - 1) false true (k_srv p), Some 2)  (* defunct: connection dropped *)
  end.

(* a pool without connection opens one: HostConnection._replace selects pool._keyspace, HostConnectionPool._add_conn_if_under_max
   selects session.keyspace *)
Definition reconnect_pool (sk : Z) (p : kpool) : kpool :=
  let k := if k_legacy p then sk else k_ks p in
  mkK (k_out p) (k_legacy p) (k_ks p) true false k 0 false (k_failed p) k.

Inductive kop := KStart | KComplete (i : nat) | KReconnect (i : nat).

Definition kstep (s : kstate) (o : kop) : kstate :=
  match o with
  | KStart =>
      if started s then s else
      let ps := map start_pool (pools s) in
      let rem := pending_from 0 ps in
      mkS ps 2 true rem [] (match rem with [] => [[]] | _ => [] end)
  | KComplete i =>
      match nth_error (pools s) i with
      | Some p =>
          if k_pending p then
            let '(p', err) := complete_pool p in
            let ps := upd i (fun _ => p') (pools s) in
            let rem := del i (remaining s) in
            let errs := match err with Some e => eins i e (errors s) | None => errors s end in
            mkS ps (sess_ks s) (started s) rem errs (match rem with [] => calls s ++ [errs] | _ => calls s end)
          else s
      | None => s
      end
  | KReconnect i =>
      match nth_error (pools s) i with
      | Some p =>
          if negb (k_has p) && negb (k_shut p) && negb (k_pending p)
          then mkS (upd i (fun _ => reconnect_pool (sess_ks s) p) (pools s)) (sess_ks s) (started s) (remaining s) (errors s) (calls s)
          else s
      | None => s
      end
  end.

Definition krun (s : kstate) (ops : list kop) : kstate := fold_left kstep ops s.

(* observation, same layout as lib/vf/pool_ks.py KsRun.snap *)
Definition obs_errs (a : list (nat * Z)) : list Z := 50 :: flat_map (fun x => [Z.of_nat (fst x); snd x; 51]) a.
Definition obs (tag : Z) (s : kstate) : list Z :=
  [tag; sess_ks s; Z.of_nat (length (calls s))] ++ flat_map obs_errs (calls s)
  ++ flat_map (fun p => [60; k_ks p; k_connks p; k_inflight p; k_srv p]) (pools s).
Definition op_tag (o : kop) : Z := match o with KStart => 1 | KComplete _ => 2 | KReconnect _ => 3 end.
Fixpoint ktrace (s : kstate) (ops : list kop) : list (list Z) :=
  match ops with
  | [] => []
  | o :: r => let s' := kstep s o in obs (op_tag o) s' :: ktrace s' r
  end.
(* two switches to the same keyspace in a row over the same pools (second one e.g. a retry after an error) *)
Definition ktrace2 (outs1 : list outcome) (ops1 : list kop) (outs2 : list outcome) (ops2 : list kop) : list (list Z) :=
  ktrace (kinit outs1) ops1 ++ ktrace (reinit (krun (kinit outs1) ops1) outs2) ops2.

(* ------------------------------------------------------------------------------------------------
   Session.add_or_renew_pool (run_add_or_renew_pool) racing with keyspace switches.  Keyspaces: 0 = None, 1.. = names.
   The new pool reads session.keyspace when it connects; under the session lock it is registered only when its keyspace
   equals the session's, otherwise (`while`) the lock is released for a catch-up USE round trip -- during which further
   switches (which do not see the unregistered pool) may land -- and the test is repeated.  A catch-up USE that fails
   (or times out) shuts the new pool down instead of registering it.
   s0: switches landing before the read; s1: after the read, before the lock; rounds: per catch-up round trip
   (did the USE fail?, switches landing meanwhile). *)
Fixpoint catchup (pool sess n : Z) (rounds : list (bool * list Z)) : bool * Z * Z * Z :=
  if pool =? sess then (true, pool, sess, n) else
  match rounds with
  | [] => (true, sess, sess, n + 1)
  | (fail, r) :: rest =>
      if fail then (false, pool, last r sess, n + 1)
      else catchup sess (last r sess) (n + 1) rest
  end.

Definition create_pool (ks0 : Z) (s0 s1 : list Z) (rounds : list (bool * list Z)) : bool * Z * Z * Z :=
  let r := last s0 ks0 in
  let sess1 := if r =? 0 then r else last s1 r in      (* no blocking USE (hence no window) when the keyspace read is None *)
  catchup r sess1 0 rounds.

(* [registered; session keyspace; new pool's connection keyspace (server side); catch-up round trips] *)
Definition create_obs (ks0 : Z) (s0 s1 : list Z) (rounds : list (bool * list Z)) : list Z :=
  match create_pool ks0 s0 s1 rounds with
  | (true, p, s, n) => [1; s; p; n]
  | (false, _, s, n) => [0; s; -1; n]
  end.
