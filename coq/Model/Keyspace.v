(* C20 -- Session._set_keyspace_for_all_pools over HostConnection pools (repaired code).
   Keyspaces: 1 = the old one, 2 = the one being selected.  NO proofs here.
   A pool's scripted outcome: what its connection will answer to USE (ok / invalid keyspace / anything else =
   connection error), or that it has no open connection / is shut down / already has the keyspace selected. *)
From Coq Require Import ZArith List Bool.
From Verif Require Import Pool.
Import ListNotations.
Local Open Scope Z_scope.

Inductive outcome := POk | PInvalid | PConnErr | PNoConn | PShut | PSame.

Record kpool := mkK {
  k_out : outcome;
  k_ks : Z;          (* HostConnection._keyspace: what _replace selects on the next connection *)
  k_has : bool;      (* pool._connection is not None *)
  k_shut : bool;     (* pool.is_shutdown *)
  k_connks : Z;      (* keyspace of the pool's (original) connection, -1 if it never had one *)
  k_inflight : Z;    (* in_flight of that connection, -1 if none *)
  k_pending : bool;  (* a USE request is outstanding on the connection *)
  k_failed : bool    (* ghost: the USE on this pool's connection has failed *)
}.

Definition init_pool (o : outcome) : kpool :=
  match o with
  | PNoConn => mkK o 1 false false (-1) (-1) false false
  | PShut => mkK o 1 false true 1 0 false false
  | PSame => mkK o 1 true false 2 0 false false
  | _ => mkK o 1 true false 1 0 false false
  end.

Record kstate := mkS {
  pools : list kpool;
  sess_ks : Z;                       (* Session.keyspace *)
  started : bool;
  remaining : list nat;              (* remaining_callbacks *)
  errors : list (nat * Z);           (* errors dict: pool index -> error kind (1 InvalidRequest, 2 ConnectionException), sorted by pool *)
  calls : list (list (nat * Z))      (* arguments of every invocation of the final callback *)
}.

Definition kinit (outs : list outcome) : kstate := mkS (map init_pool outs) 1 false [] [] [].

(* HostConnection._set_keyspace_for_all_conns + Connection.set_keyspace_async up to the point where they return *)
Definition start_pool (p : kpool) : kpool :=
  if k_shut p || negb (k_has p) then mkK (k_out p) 2 (k_has p) (k_shut p) (k_connks p) (k_inflight p) false (k_failed p)
  else if k_connks p =? 2 then mkK (k_out p) 2 true false 2 (k_inflight p) false (k_failed p)   (* in_flight +1, callback, return_connection -1 *)
  else mkK (k_out p) 2 true false (k_connks p) (k_inflight p + 1) true (k_failed p).

Fixpoint pending_from (i : nat) (l : list kpool) : list nat :=
  match l with [] => [] | p :: t => if k_pending p then i :: pending_from (S i) t else pending_from (S i) t end.

Fixpoint eins (i : nat) (e : Z) (l : list (nat * Z)) : list (nat * Z) :=
  match l with
  | [] => [(i, e)]
  | (j, f) :: t => if Nat.ltb i j then (i, e) :: l else (j, f) :: eins i e t
  end.

(* process_result + connection_finished_setting_keyspace (return_connection) for pool p *)
Definition complete_pool (p : kpool) : kpool * option Z :=
  match k_out p with
  | POk => (mkK (k_out p) (k_ks p) true (k_shut p) 2 (k_inflight p - 1) false (k_failed p), None)
  | PInvalid => (mkK (k_out p) (k_ks p) true (k_shut p) (k_connks p) (k_inflight p - 1) false true, Some 1)
  | _ => (mkK (k_out p) (k_ks p) false (k_shut p) (k_connks p) (k_inflight p - 1) false true, Some 2)  (* defunct: _connection = None *)
  end.

Inductive kop := KStart | KComplete (i : nat).

Definition kstep (s : kstate) (o : kop) : kstate :=
  match o with
  | KStart =>
      if started s then s else
      let ps := map start_pool (pools s) in
      let rem := pending_from 0 ps in
      mkS ps 2 true rem [] (match rem with [] => [[]] | _ => [] end)
  | KComplete i =>
      match nth_error (pools s) i with
      | Some p =>
          if k_pending p then
            let '(p', err) := complete_pool p in
            let ps := upd i (fun _ => p') (pools s) in
            let rem := del i (remaining s) in
            let errs := match err with Some e => eins i e (errors s) | None => errors s end in
            mkS ps (sess_ks s) (started s) rem errs (match rem with [] => calls s ++ [errs] | _ => calls s end)
          else s
      | None => s
      end
  end.

Definition krun (s : kstate) (ops : list kop) : kstate := fold_left kstep ops s.

(* observation, same layout as lib/vf/pool_ks.py KsRun.snap *)
Definition obs_errs (a : list (nat * Z)) : list Z := 50 :: flat_map (fun x => [Z.of_nat (fst x); snd x; 51]) a.
Definition obs (tag : Z) (s : kstate) : list Z :=
  [tag; sess_ks s; Z.of_nat (length (calls s))] ++ flat_map obs_errs (calls s)
  ++ flat_map (fun p => [60; k_ks p; k_connks p; k_inflight p]) (pools s).
Fixpoint ktrace (s : kstate) (ops : list kop) : list (list Z) :=
  match ops with
  | [] => []
  | o :: r => let s' := kstep s o in obs (match o with KStart => 1 | _ => 2 end) s' :: ktrace s' r
  end.

(* ------------------------------------------------------------------------------------------------
   Session.add_or_renew_pool (run_add_or_renew_pool) racing with keyspace switches.  Keyspaces: 0 = None, 1.. = names.
   The new pool reads session.keyspace when it connects; under the session lock it is registered only when its keyspace
   equals the session's, otherwise (`while`) the lock is released for a catch-up USE round trip -- during which further
   switches (which do not see the unregistered pool) may land -- and the test is repeated.
   s0: switches landing before the read; s1: after the read, before the lock; rounds: per catch-up round trip. *)
Fixpoint catchup (pool sess n : Z) (rounds : list (list Z)) : Z * Z * Z :=
  if pool =? sess then (pool, sess, n) else
  match rounds with
  | [] => (sess, sess, n + 1)
  | r :: rest => catchup sess (last r sess) (n + 1) rest
  end.

Definition create_pool (ks0 : Z) (s0 s1 : list Z) (rounds : list (list Z)) : Z * Z * Z :=
  let r := last s0 ks0 in
  let sess1 := if r =? 0 then r else last s1 r in      (* no blocking USE (hence no window) when the keyspace read is None *)
  catchup r sess1 0 rounds.

(* [registered; session keyspace; new pool._keyspace; its connection's keyspace; catch-up round trips] *)
Definition create_obs (ks0 : Z) (s0 s1 : list Z) (rounds : list (list Z)) : list Z :=
  let '(p, s, n) := create_pool ks0 s0 s1 rounds in [1; s; p; p; n].
