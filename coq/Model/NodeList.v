(* C42 model: ControlConnection._refresh_node_list_and_token_map with _is_valid_peer, _update_location_info,
   _NodeInfo.get_broadcast_rpc_address/port, DefaultEndPointFactory.create (identity translator), Cluster.add_host /
   remove_host / on_add / on_remove (no sessions, no control connection installed) and Metadata.add_or_return_host /
   remove_host / rebuild_token_map, as the code is NOW.  No proofs in this file.

   Addresses, host ids, datacenters, racks, tokens are opaque identifiers (Z); address 0 stands for the bind-all
   addresses "0.0.0.0" / "::".  `option` = SQL null / missing / empty (anything falsy in Python). *)
From Coq Require Import ZArith List Bool.
Import ListNotations.
Local Open Scope Z_scope.

Definition endpoint := (Z * Z)%type.               (* (address, port): DefaultEndPoint *)
Definition ep_eqb (a b : endpoint) : bool := (fst a =? fst b) && (snd a =? snd b).
Definition mem (e : endpoint) (l : list endpoint) : bool := existsb (ep_eqb e) l.

Definition oz_eqb (a b : option Z) : bool :=
  match a, b with
  | Some x, Some y => x =? y
  | None, None => true
  | _, _ => false
  end.

(* one row of system.peers (v1) or system.peers_v2 *)
Record row := {
  r_peer : option Z;              (* peer *)
  r_addr : option Z;              (* rpc_address (v1) / native_address (v2) / native_transport_address (DSE) *)
  r_port : option Z;              (* native_port (v2 only) *)
  r_host_id : option Z;
  r_dc : option Z;
  r_rack : option Z;
  r_tokens : option (list Z)      (* None: null (or the column was not selected: token metadata disabled) *)
}.

(* the row of system.local *)
Record local_row := {
  l_dc : option Z;
  l_rack : option Z;
  l_host_id : option Z;
  l_partitioner : bool;           (* a non-empty partitioner name *)
  l_tokens : option (list Z)
}.

Record snapshot := {
  sn_local : option local_row;    (* None: system.local returned no row *)
  sn_peers : list row
}.

Record host := { h_dc : option Z; h_rack : option Z; h_host_id : option Z }.
Definition hosts := list (endpoint * host).         (* Metadata._hosts, in insertion order (all_hosts() order) *)
Definition assignment := list (endpoint * list Z).  (* host -> tokens, as handed to rebuild_token_map *)

Record state := {
  st_hosts : hosts;
  st_partitioner : bool;          (* Metadata.partitioner is not None *)
  st_tokens : option assignment   (* what the current token map was built from; None: never built *)
}.

Record config := {
  control : endpoint;             (* connection.endpoint *)
  token_meta : bool;              (* token_metadata_enabled *)
  default_port : Z                (* Cluster.port *)
}.

Inductive event :=
| ELbpDown (e : endpoint) (dc rack : option Z)       (* profile_manager.on_down(host), host still at its old location *)
| ELbpUp (e : endpoint) (dc rack : option Z)         (* profile_manager.on_up(host), host at its new location *)
| ELbpAdd (e : endpoint) (dc rack : option Z)
| EListenerAdd (e : endpoint) (dc rack : option Z)
| ELbpRemove (e : endpoint)
| EListenerRemove (e : endpoint)
| ERebuild (a : assignment)                          (* Metadata.rebuild_token_map(partitioner, token_map) *)
| EOutOfFuel.                                        (* model artefact: recursion budget of refresh_live exhausted (proved unreachable) *)

(* ------------------------------------------------------------------ rows *)
(* _NodeInfo.get_broadcast_rpc_address *)
Definition rpc_address (r : row) : option Z :=
  match r_addr r with
  | Some a => if a =? 0 then r_peer r else Some a
  | None => r_peer r
  end.

(* _NodeInfo.get_broadcast_rpc_port + DefaultEndPointFactory.create's default *)
Definition rpc_port (c : config) (r : row) : Z :=
  match r_port r with
  | Some p => if 0 <? p then p else default_port c
  | None => default_port c
  end.

Definition is_some {A} (o : option A) : bool := match o with Some _ => true | None => false end.
Definition nonempty {A} (o : option (list A)) : bool := match o with Some (_ :: _) => true | _ => false end.

(* _is_valid_peer *)
Definition valid (c : config) (r : row) : bool :=
  is_some (rpc_address r) && is_some (r_host_id r) && is_some (r_dc r) && is_some (r_rack r) &&
  (negb (token_meta c) || nonempty (r_tokens r)).

(* endpoint_factory.create(row), identity address translator *)
Definition ep_of (c : config) (r : row) : endpoint :=
  (match rpc_address r with Some a => a | None => 0 end, rpc_port c r).

(* the rows that get past `_is_valid_peer` and the `endpoint in found_hosts` test, with their endpoints, in order *)
Fixpoint accept (c : config) (found : list endpoint) (rows : list row) : list (endpoint * row) :=
  match rows with
  | [] => []
  | r :: rest =>
      if valid c r then
        let e := ep_of c r in
        if mem e found then accept c found rest else (e, r) :: accept c (e :: found) rest
      else accept c found rest
  end.

(* ------------------------------------------------------------------ hosts *)
Fixpoint find (e : endpoint) (hs : hosts) : option host :=
  match hs with
  | [] => None
  | (e', h) :: r => if ep_eqb e e' then Some h else find e r
  end.

Fixpoint replace (e : endpoint) (h : host) (hs : hosts) : hosts :=
  match hs with
  | [] => []
  | (e', h') :: r => if ep_eqb e e' then (e', h) :: r else (e', h') :: replace e h r
  end.

(* _update_location_info: returns (events, changed?) *)
Definition same_location (h : host) (dc rack : option Z) : bool := oz_eqb (h_dc h) dc && oz_eqb (h_rack h) rack.

Definition update_location (e : endpoint) (h : host) (dc rack : option Z) : list event * bool :=
  if same_location h dc rack then ([], false)
  else ([ELbpDown e (h_dc h) (h_rack h); ELbpUp e dc rack], true).

(* one accepted peer row: unknown endpoint -> Cluster.add_host(signal=True, refresh_nodes=False); known -> location update.
   Returns hosts, notifications, "should rebuild" contribution *)
Definition apply_row (hs : hosts) (er : endpoint * row) : hosts * list event * bool :=
  let '(e, r) := er in
  let h' := {| h_dc := r_dc r; h_rack := r_rack r; h_host_id := r_host_id r |} in
  match find e hs with
  | None => (hs ++ [(e, h')], [ELbpAdd e (r_dc r) (r_rack r); EListenerAdd e (r_dc r) (r_rack r)], true)
  | Some h => let '(ev, ch) := update_location e h (r_dc r) (r_rack r) in (replace e h' hs, ev, ch)
  end.

Fixpoint apply_rows (hs : hosts) (ers : list (endpoint * row)) : hosts * list event * bool :=
  match ers with
  | [] => (hs, [], false)
  | er :: rest =>
      let '(hs1, ev1, b1) := apply_row hs er in
      let '(hs2, ev2, b2) := apply_rows hs1 rest in
      (hs2, ev1 ++ ev2, b1 || b2)
  end.

(* token_map[host] = tokens, for `if partitioner and tokens [and token_meta_enabled]` *)
Definition peer_tokens (c : config) (partitioner : bool) (ers : list (endpoint * row)) : assignment :=
  flat_map (fun er : endpoint * row =>
              if partitioner && token_meta c && nonempty (r_tokens (snd er))
              then [(fst er, match r_tokens (snd er) with Some t => t | None => [] end)] else []) ers.

(* the removal loop: which old hosts stay *)
(* `old_host.endpoint != connection.endpoint and old_host.endpoint not in found_hosts` -> removed   (after fix b67822d) *)
Definition keep (c : config) (found : list endpoint) (e : endpoint) : bool := ep_eqb e (control c) || mem e found.

Definition removal_events (c : config) (found : list endpoint) (hs : hosts) : list event :=
  flat_map (fun eh : endpoint * host => if keep c found (fst eh) then [] else [ELbpRemove (fst eh); EListenerRemove (fst eh)]) hs.

(* ------------------------------------------------------------------ one refresh *)
(* the system.local part: control host's record, found_hosts so far, partitioner, the control node's tokens *)
Record lres := { lr_hosts : hosts; lr_events : list event; lr_found : list endpoint; lr_part : bool; lr_tok : assignment }.

Definition local_part (c : config) (st : state) (sn : snapshot) : lres :=
  match sn_local sn with
  | None => {| lr_hosts := st_hosts st; lr_events := []; lr_found := []; lr_part := false; lr_tok := [] |}
  | Some l =>
      match find (control c) (st_hosts st) with
      | None => {| lr_hosts := st_hosts st; lr_events := []; lr_found := [control c]; lr_part := l_partitioner l; lr_tok := [] |}
      | Some h =>
          {| lr_hosts := replace (control c) {| h_dc := l_dc l; h_rack := l_rack l; h_host_id := l_host_id l |} (st_hosts st);
             lr_events := fst (update_location (control c) h (l_dc l) (l_rack l));     (* the boolean result is ignored by the code *)
             lr_found := [control c];
             lr_part := l_partitioner l;
             lr_tok := if l_partitioner l && nonempty (l_tokens l)
                       then [(control c, match l_tokens l with Some t => t | None => [] end)] else [] |}
      end
  end.

(* the peers rows that are used, and what they do to the hosts *)
Definition accepted (c : config) (st : state) (sn : snapshot) : list (endpoint * row) :=
  accept c (lr_found (local_part c st sn)) (sn_peers sn).

Definition peers_part (c : config) (st : state) (sn : snapshot) : hosts * list event * bool :=
  apply_rows (lr_hosts (local_part c st sn)) (accepted c st sn).

Definition found_all (c : config) (st : state) (sn : snapshot) : list endpoint :=
  lr_found (local_part c st sn) ++ map fst (accepted c st sn).

Definition hosts_mid (c : config) (st : state) (sn : snapshot) : hosts := fst (fst (peers_part c st sn)).

Definition hosts_after (c : config) (st : state) (sn : snapshot) : hosts :=
  filter (fun eh : endpoint * host => keep c (found_all c st sn) (fst eh)) (hosts_mid c st sn).

(* token_map as handed to rebuild_token_map: what the snapshot says about tokens *)
Definition snapshot_tokens (c : config) (st : state) (sn : snapshot) : assignment :=
  lr_tok (local_part c st sn) ++ peer_tokens c (lr_part (local_part c st sn)) (accepted c st sn).

Definition some_removed (c : config) (st : state) (sn : snapshot) : bool :=
  negb (Nat.eqb (length (hosts_after c st sn)) (length (hosts_mid c st sn))).

Definition should_rebuild (c : config) (force : bool) (st : state) (sn : snapshot) : bool :=
  force || negb (st_partitioner st) || snd (peers_part c st sn) || some_removed c st sn.

Definition notifications (c : config) (st : state) (sn : snapshot) : list event :=
  lr_events (local_part c st sn) ++ snd (fst (peers_part c st sn)) ++ removal_events c (found_all c st sn) (hosts_mid c st sn).

Definition refresh (c : config) (force : bool) (st : state) (sn : snapshot) : state * list event :=
  if lr_part (local_part c st sn) && should_rebuild c force st sn then
    ({| st_hosts := hosts_after c st sn; st_partitioner := true; st_tokens := Some (snapshot_tokens c st sn) |},
     notifications c st sn ++ [ERebuild (snapshot_tokens c st sn)])
  else
    ({| st_hosts := hosts_after c st sn; st_partitioner := st_partitioner st; st_tokens := st_tokens st |},
     notifications c st sn).

(* ------------------------------------------------------------------ the same refresh on a LIVE control connection
   Cluster.remove_host(host): `if host and self.metadata.remove_host(host): self.on_remove(host)`; Cluster.on_remove notifies the
   policies and listeners and then calls ControlConnection.on_remove(host), which (the removed host not being the control
   node) runs refresh_node_list_and_token_map(force_token_rebuild=True): a NESTED refresh of the same system tables, inside
   the removal loop of the outer one.  The outer loop then goes on over its stale copy of all_hosts(); hosts the nested
   refresh already removed are skipped because Metadata.remove_host returns False for them. *)
Definition remove_host (e : endpoint) (hs : hosts) : hosts :=
  filter (fun eh : endpoint * host => negb (ep_eqb (fst eh) e)) hs.

Definition with_hosts (st : state) (hs : hosts) : state :=
  {| st_hosts := hs; st_partitioner := st_partitioner st; st_tokens := st_tokens st |}.

(* the removal loop over the stale list `l` of endpoints; `rec` = the nested refresh.  Returns state, notifications,
   and whether should_rebuild_token_map was set *)
Fixpoint remove_loop (rec : state -> state * list event) (K : endpoint -> bool) (l : list endpoint) (s : state)
  : state * list event * bool :=
  match l with
  | [] => (s, [], false)
  | e :: l' =>
      if K e then remove_loop rec K l' s
      else if mem e (map fst (st_hosts s)) then
        let '(s2, ev2) := rec (with_hosts s (remove_host e (st_hosts s))) in
        let '(s3, ev3, _) := remove_loop rec K l' s2 in
        (s3, [ELbpRemove e; EListenerRemove e] ++ ev2 ++ ev3, true)
      else
        let '(s3, ev3, _) := remove_loop rec K l' s in (s3, ev3, true)
  end.

Fixpoint refresh_live (fuel : nat) (c : config) (force : bool) (st : state) (sn : snapshot) : state * list event :=
  match fuel with
  | O => (st, [EOutOfFuel])
  | S n =>
      let mid := hosts_mid c st sn in
      let '(s2, ev2, removed) :=
        remove_loop (fun s => refresh_live n c true s sn) (keep c (found_all c st sn)) (map fst mid) (with_hosts st mid) in
      let evs := lr_events (local_part c st sn) ++ snd (fst (peers_part c st sn)) ++ ev2 in
      let rebuild := force || negb (st_partitioner st) || snd (peers_part c st sn) || removed in
      if lr_part (local_part c st sn) && rebuild then
        ({| st_hosts := st_hosts s2; st_partitioner := true; st_tokens := Some (snapshot_tokens c st sn) |},
         evs ++ [ERebuild (snapshot_tokens c st sn)])
      else (s2, evs)
  end.

(* enough fuel for any state: every nested refresh starts with strictly fewer hosts *)
Definition live_fuel (c : config) (st : state) (sn : snapshot) : nat := S (length (hosts_mid c st sn)).

Fixpoint run_live (c : config) (st : state) (steps : list (bool * snapshot)) : list (state * list event) :=
  match steps with
  | [] => []
  | (f, sn) :: rest => let '(st', ev) := refresh_live (live_fuel c st sn) c f st sn in (st', ev) :: run_live c st' rest
  end.

(* any sequence of (force_token_rebuild, snapshot) *)
Fixpoint run (c : config) (st : state) (steps : list (bool * snapshot)) : list (state * list event) :=
  match steps with
  | [] => []
  | (f, sn) :: rest => let '(st', ev) := refresh c f st sn in (st', ev) :: run c st' rest
  end.

Fixpoint final (c : config) (st : state) (steps : list (bool * snapshot)) : state :=
  match steps with
  | [] => st
  | (f, sn) :: rest => final c (fst (refresh c f st sn)) rest
  end.

(* ------------------------------------------------------------------ comparison helpers for the harness *)
Definition host_eqb (a b : host) : bool :=
  oz_eqb (h_dc a) (h_dc b) && oz_eqb (h_rack a) (h_rack b) && oz_eqb (h_host_id a) (h_host_id b).

Fixpoint list_eqb {A} (eqb : A -> A -> bool) (a b : list A) : bool :=
  match a, b with
  | [], [] => true
  | x :: a', y :: b' => eqb x y && list_eqb eqb a' b'
  | _, _ => false
  end.

Definition hosts_eqb : hosts -> hosts -> bool :=
  list_eqb (fun x y : endpoint * host => ep_eqb (fst x) (fst y) && host_eqb (snd x) (snd y)).

Definition assignment_eqb : assignment -> assignment -> bool :=
  list_eqb (fun x y : endpoint * list Z => ep_eqb (fst x) (fst y) && list_eqb Z.eqb (snd x) (snd y)).

Definition event_eqb (a b : event) : bool :=
  match a, b with
  | ELbpDown e d r, ELbpDown e' d' r' | ELbpUp e d r, ELbpUp e' d' r'
  | ELbpAdd e d r, ELbpAdd e' d' r' | EListenerAdd e d r, EListenerAdd e' d' r' => ep_eqb e e' && oz_eqb d d' && oz_eqb r r'
  | ELbpRemove e, ELbpRemove e' | EListenerRemove e, EListenerRemove e' => ep_eqb e e'
  | ERebuild x, ERebuild y => assignment_eqb x y
  | _, _ => false
  end.

(* what the harness records after each refresh: hosts (all_hosts() order), notifications in order, partitioner set? *)
Definition step_eqb (m : state * list event) (i : hosts * list event * bool) : bool :=
  let '(ih, iev, ipart) := i in
  hosts_eqb (st_hosts (fst m)) ih && list_eqb event_eqb (snd m) iev && Bool.eqb (st_partitioner (fst m)) ipart.

Fixpoint steps_eqb (m : list (state * list event)) (i : list (hosts * list event * bool)) : bool :=
  match m, i with
  | [], [] => true
  | x :: m', y :: i' => step_eqb x y && steps_eqb m' i'
  | _, _ => false
  end.

Definition run_eqb (c : config) (st : state) (steps : list (bool * snapshot)) (seen : list (hosts * list event * bool)) : bool :=
  steps_eqb (run c st steps) seen.

Definition run_live_eqb (c : config) (st : state) (steps : list (bool * snapshot)) (seen : list (hosts * list event * bool)) : bool :=
  steps_eqb (run_live c st steps) seen.

(* short constructors for generated cases *)
Definition Rw := Build_row.
Definition Lr := Build_local_row.
Definition Hs := Build_host.
