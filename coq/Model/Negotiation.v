(* C41 model: the control connection's connect loop (ControlConnection._try_connect) against an arbitrary server.
   get_lower_supported / protocol_downgrade are GENERATED from source (Gen/ProtoVersion.v). *)
From Coq Require Import ZArith List Bool.
From Verif Require Import PyBase ProtoConsts ProtoVersion.
Import ListNotations.
Local Open Scope Z_scope.

(* what the server does with a STARTUP at a given version *)
Inductive reply := Accept | Unsupported | BetaError | OtherError.

Inductive outcome :=
| Connected (v : Z)          (* connection established at version v *)
| Failed                     (* an exception propagates to the caller *)
| OutOfFuel.

(* one loop iteration per fuel unit.  Returns the versions tried (in order) and the outcome. *)
Fixpoint try_connect (fuel : nat) (server : Z -> reply) (explicit : bool) (pv : Z) : list Z * outcome :=
  match fuel with
  | O => ([], OutOfFuel)
  | S fuel' =>
    match server pv with
    | Accept => ([pv], Connected pv)
    | Unsupported =>
      (* except ProtocolVersionUnsupported as e: protocol_downgrade(endpoint, e.startup_version) *)
      match protocol_downgrade pv explicit pv with
      | Ok (_, pv') => let '(tr, o) := try_connect fuel' server explicit pv' in (pv :: tr, o)
      | _ => ([pv], Failed)
      end
    | BetaError =>
      (* except ProtocolException: if not explicit and e.is_beta_protocol_error: downgrade from the current version *)
      if negb explicit then
        match protocol_downgrade pv explicit pv with
        | Ok (_, pv') => let '(tr, o) := try_connect fuel' server explicit pv' in (pv :: tr, o)
        | _ => ([pv], Failed)
        end
      else ([pv], Failed)
    | OtherError => ([pv], Failed)
    end
  end.

Definition enough_fuel : nat := S (S (length SUPPORTED_VERSIONS)).

Definition non_beta_supported (v : Z) : bool := py_in v SUPPORTED_VERSIONS && negb (py_in v BETA_VERSIONS).

Fixpoint strictly_decreasing (l : list Z) : bool :=
  match l with
  | a :: ((b :: _) as t) => (b <? a) && strictly_decreasing t
  | _ => true
  end.

(* the descending non-beta chain the property describes: each next version is the greatest non-beta
   supported version below the previous one *)
Definition is_next_lower (prev next : Z) : Prop :=
  non_beta_supported next = true /\ next < prev /\
  forall u, non_beta_supported u = true -> u < prev -> u <= next.

Fixpoint chain (l : list Z) : Prop :=
  match l with
  | a :: ((b :: _) as t) => is_next_lower a b /\ chain t
  | _ => True
  end.

Definition outcome_eqb (a b : outcome) : bool :=
  match a, b with
  | Connected x, Connected y => x =? y
  | Failed, Failed => true
  | OutOfFuel, OutOfFuel => true
  | _, _ => false
  end.
