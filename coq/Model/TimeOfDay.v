(* C34 model of util.Time.  The field properties (hour, minute, second, nanosecond) and _from_timestamp are
   GENERATED from cassandra/util.py (Gen/UtilTime.v); __str__ and the string constructor are modelled by hand
   (canonical form "HH:MM:SS.fffffffff") and tied by correspondence.  No proofs here. *)
From Coq Require Import ZArith List Bool.
From Verif Require Import PyBase UtilTime DecDigits.
Import ListNotations.
Local Open Scope Z_scope.

Definition DAY : Z := 86400000000000.

(* Time(n) for an int n: accepted iff _from_timestamp does not raise; the state becomes n *)
Definition time_accepts (n : Z) : bool :=
  match time_from_timestamp n 0 with Ok _ => true | _ => false end.
Definition time_value (n : Z) : option Z :=
  match time_from_timestamp n 0 with Ok (_, v) => Some v | _ => None end.

(* _from_timestring / _from_time arithmetic *)
Definition of_fields (h m s ns : Z) : Z := h * 3600000000000 + m * 60000000000 + s * 1000000000 + ns.

(* __str__: "%02d:%02d:%02d.%09d" % (hour, minute, second, nanosecond) *)
Definition time_str (n : Z) : list Z :=
  to_digits 2 (time_hour n) ++ [58] ++ to_digits 2 (time_minute n) ++ [58] ++ to_digits 2 (time_second n) ++ [46]
  ++ to_digits 9 (time_nanosecond n).

(* Time("HH:MM:SS.fffffffff"): strptime("%H:%M:%S") takes hour 0..23, minute 0..59, second 0..61 (leap seconds);
   the total must denote a time within one day *)
Definition time_parse (s : list Z) : option Z :=
  match take_num 2 0 s with
  | Some (h, r) =>
    match expect 58 r with
    | Some r =>
      match take_num 2 0 r with
      | Some (m, r) =>
        match expect 58 r with
        | Some r =>
          match take_num 2 0 r with
          | Some (sec, r) =>
            match expect 46 r with
            | Some r =>
              match take_num 9 0 r with
              | Some (ns, []) =>
                if (h <=? 23) && (m <=? 59) && (sec <=? 61) then
                  let n := of_fields h m sec ns in
                  if (0 <=? n) && (n <? DAY) then Some n else None
                else None
              | _ => None
              end
            | None => None
            end
          | None => None
          end
        | None => None
        end
      | None => None
      end
    | None => None
    end
  | None => None
  end.
