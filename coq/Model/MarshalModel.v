(* Hand-written model of cassandra/marshal.py (struct packers, varint, zig-zag, vints, uvint).
   Bytes are Z in 0..255 (list Z), as in py2coq output.  NO PROOFS HERE.
   This file is meant to be swappable: once marshal.py is regenerated from source (Gen/Marshal.v) a bridge
   lemma Gen.f = MarshalModel.f replaces the correspondence tie used for now (checks/C02.py, stream 'marshal').
   Python shapes are kept (digit loop, vint loop with reserved bits) but `& 0xff`/`>> 8` on non-negative
   numbers are written `mod 256`/`/ 256`. *)
From Coq Require Import ZArith List Bool.
From Verif Require Import PyBase.
Import ListNotations.
Local Open Scope Z_scope.

Definition len {A} (l : list A) : Z := Z.of_nat (length l).

(* ---- fixed-width big-endian integers: struct.Struct('>q' '>i' '>h' '>b' '>Q' '>I' '>H' '>B') ---- *)
Fixpoint le_bytes (n : nat) (u : Z) : list Z :=
  match n with O => [] | S k => (u mod 256) :: le_bytes k (u / 256) end.
Definition be_bytes (n : nat) (u : Z) : list Z := rev (le_bytes n u).

Fixpoint le_val (bs : list Z) : Z :=
  match bs with [] => 0 | b :: r => b + 256 * le_val r end.
Definition be_val (bs : list Z) : Z := le_val (rev bs).

(* pack raises struct.error outside the range; floor div/mod give two's complement for negatives *)
Definition pack_int (n : nat) (signed : bool) (z : Z) : option (list Z) :=
  let bits := 8 * Z.of_nat n in
  let lo := if signed then - 2 ^ (bits - 1) else 0 in
  let hi := if signed then 2 ^ (bits - 1) else 2 ^ bits in
  if (lo <=? z) && (z <? hi) then Some (be_bytes n z) else None.

(* unpack raises struct.error unless the buffer has exactly n bytes *)
Definition unpack_int (n : nat) (signed : bool) (bs : list Z) : option Z :=
  if Nat.eqb (length bs) n then
    let u := be_val bs in
    let bits := 8 * Z.of_nat n in
    Some (if signed && (2 ^ (bits - 1) <=? u) then u - 2 ^ bits else u)
  else None.

(* ---- varint_pack / varint_unpack ---- *)
Fixpoint le_digits (fuel : nat) (big : Z) : list Z :=
  match fuel with
  | O => []
  | S f => if 0 <? big then (big mod 256) :: le_digits f (big / 256) else []
  end.
Definition digits_fuel (big : Z) : nat := S (Z.to_nat (Z.log2 big)).

Definition varint_pack (big : Z) : list Z :=
  if big =? 0 then [0]
  else if big <? 0 then
    let bytelength := py_bit_length (Z.abs big - 1) / 8 + 1 in
    let big' := 2 ^ (bytelength * 8) + big in
    rev (le_digits (digits_fuel big') big')
  else
    let r := le_digits (digits_fuel big) big in
    rev (if 128 <=? last r 0 then r ++ [0] else r).

(* int('' , 16) raises ValueError on the empty string *)
Definition varint_unpack (term : list Z) : option Z :=
  match term with
  | [] => None
  | b0 :: _ =>
    let v := be_val term in
    Some (if 128 <=? b0 then v - 2 ^ (8 * len term) else v)
  end.

(* ---- zig-zag ---- *)
Definition encode_zig_zag (n : Z) : Z := Z.lxor (Z.shiftl n 1) (Z.shiftr n 63).
Definition decode_zig_zag (n : Z) : Z := Z.lxor (Z.shiftr n 1) (- (Z.land n 1)).

(* ---- vints_pack / uvint_pack: the shared loop
   while num_bits > 8 - reserved: extra += 1; num_bits -= 8; reserved = min(extra+1, 8); out.append(v & 0xff); v >>= 8 *)
Fixpoint vint_loop (fuel : nat) (extra num_bits v : Z) (acc : list Z) : Z * Z * list Z :=
  match fuel with
  | O => (extra, v, acc)
  | S f =>
    if 8 - Z.min (extra + 1) 8 <? num_bits
    then vint_loop f (extra + 1) (num_bits - 8) (v / 256) (v mod 256 :: acc)
    else (extra, v, acc)
  end.

Definition uvint_pack (val : Z) : option (list Z) :=
  if val <? 0 then None                      (* bytearray.append(negative) raises ValueError *)
  else if val <? 128 then Some [val]
  else
    let nb := py_bit_length val in
    match vint_loop (Z.to_nat nb) 0 nb val [] with
    | (extra, v, acc) =>
      if 8 <? extra then None                (* ValueError: too big *)
      else let n := 8 - extra in
           Some (Z.lor v (Z.shiftl (Z.shiftr 255 n) n) :: acc)
    end.

Fixpoint vints_pack (values : list Z) : option (list Z) :=
  match values with
  | [] => Some []
  | x :: r =>
    match uvint_pack (encode_zig_zag x), vints_pack r with
    | Some a, Some b => Some (a ++ b)
    | _, _ => None
    end
  end.

(* ---- vints_unpack / uvint_unpack ---- *)
Definition vint_extra (first : Z) : Z := 8 - py_bit_length (Z.land (Z.lnot first) 255).

Fixpoint read_be (k : nat) (acc : Z) (bs : list Z) : option (Z * list Z) :=
  match k with
  | O => Some (acc, bs)
  | S k' => match bs with
            | [] => None                      (* IndexError *)
            | b :: r => read_be k' (acc * 256 + b) r
            end
  end.

(* value, number of bytes read, remaining bytes *)
Definition uvint_read (bs : list Z) : option (Z * Z * list Z) :=
  match bs with
  | [] => None
  | first :: r =>
    if Z.land first 128 =? 0 then Some (first, 1, r)
    else
      let extra := vint_extra first in
      match read_be (Z.to_nat extra) (Z.land first (Z.shiftr 255 extra)) r with
      | Some (v, r') => Some (v, extra + 1, r')
      | None => None
      end
  end.

Fixpoint vints_unpack_loop (fuel : nat) (bs : list Z) : option (list Z) :=
  match bs with
  | [] => Some []
  | _ =>
    match fuel with
    | O => None
    | S f =>
      match uvint_read bs with
      | None => None
      | Some (v, _, r) =>
        match vints_unpack_loop f r with
        | None => None
        | Some vs => Some (decode_zig_zag v :: vs)
        end
      end
    end
  end.
Definition vints_unpack (bs : list Z) : option (list Z) := vints_unpack_loop (length bs) bs.
