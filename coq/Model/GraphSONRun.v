(* C40: the GraphSON model instantiated for the correspondence harness.  Every Python-formatted leaf (Decimal, UUID,
   date, time, datetime, WKT geometry) is represented by the text Python itself produced for it, so the abstract
   formatters are identities and the parsers accept exactly the shapes the driver's format strings accept.
   Comparators for model-vs-implementation.  No proofs. *)
From Coq Require Import ZArith List Bool.
From Verif Require Import DyFloat GraphSON.
Import ListNotations.
Local Open Scope Z_scope.

Definition txt := list Z.
Fixpoint txt_eqb (a b : txt) : bool :=
  match a, b with [], [] => true | x :: a', y :: b' => (x =? y) && txt_eqb a' b' | _, _ => false end.
Definition has_char (c : Z) (s : txt) : bool := existsb (Z.eqb c) s.
Definition strip_z (s : txt) : txt := match rev s with 90 :: r => rev r | _ => s end.
Definition ends_z (s : txt) : bool := match rev s with 90 :: _ => true | _ => false end.

Definition r_strptime_date (s : txt) : option txt := if has_char 84 s then None else Some s.    (* 'T' : not a date *)
Definition r_none (s : txt) : option txt := None.
Definition r_some (s : txt) : option txt := Some s.
Definition r_strptime_frac (s : txt) : option txt := if has_char 46 s && ends_z s then Some (strip_z s) else None.
Definition r_strptime_nofrac (s : txt) : option txt := if negb (has_char 46 s) && ends_z s then Some (strip_z s) else None.

Definition rgval := gval txt txt txt txt txt.
Definition rjson := json.

Definition list_eqb {A : Type} (eqb : A -> A -> bool) : list A -> list A -> bool :=
  fix go (a b : list A) {struct a} : bool :=
  match a, b with [], [] => true | x :: a', y :: b' => eqb x y && go a' b' | _, _ => false end.

Definition pt_eqb (a b : pt) : bool := dy_eqb (fst a) (fst b) && dy_eqb (snd a) (snd b).
Definition geom_eqb (a b : geom) : bool :=
  match a, b with
  | GeoPoint p, GeoPoint q => pt_eqb p q
  | GeoLine l, GeoLine m => list_eqb pt_eqb l m
  | GeoPoly e i, GeoPoly e' i' => list_eqb pt_eqb e e' && list_eqb (list_eqb pt_eqb) i i'
  | _, _ => false
  end.
Definition wkt_eqb (a b : wkt) : bool :=
  match a, b with
  | WPoint p, WPoint q => pt_eqb p q
  | WLineEmpty, WLineEmpty | WPolyEmpty, WPolyEmpty => true
  | WLine l, WLine m => list_eqb pt_eqb l m
  | WPoly r, WPoly r' => list_eqb (list_eqb pt_eqb) r r'
  | _, _ => false
  end.

Definition blobkind_eqb (a b : blobkind) : bool :=
  match a, b with BBytearray, BBytearray | BBytes, BBytes | BMemoryview, BMemoryview => true | _, _ => false end.

(* Python == on the deserialised values: sets unordered, dicts unordered, blobs by content *)
Fixpoint rg_eqb (a b : rgval) {struct a} : bool :=
  match a, b with
  | GStr _ _ _ _ _ x, GStr _ _ _ _ _ y => txt_eqb x y
  | GBool _ _ _ _ _ x, GBool _ _ _ _ _ y => Bool.eqb x y
  | GInt _ _ _ _ _ x, GInt _ _ _ _ _ y => x =? y
  | GFloat _ _ _ _ _ m e, GFloat _ _ _ _ _ m' e' => dy_eqb (m, e) (m', e')
  | GBlob _ _ _ _ _ _ x, GBlob _ _ _ _ _ _ y => txt_eqb x y
  | GDecimal _ _ _ _ _ x, GDecimal _ _ _ _ _ y | GDate _ _ _ _ _ x, GDate _ _ _ _ _ y
  | GTime _ _ _ _ _ x, GTime _ _ _ _ _ y
  | GUuid _ _ _ _ _ x, GUuid _ _ _ _ _ y => txt_eqb x y
  | GGeom _ _ _ _ _ x, GGeom _ _ _ _ _ y => geom_eqb x y
  | GDatetime _ _ _ _ _ x _, GDatetime _ _ _ _ _ y _ => txt_eqb x y
  | GDatetimeAware _ _ _ _ _ w u, GDatetimeAware _ _ _ _ _ w' u' => txt_eqb w w' && txt_eqb u u'
  | GTimedelta _ _ _ _ _ x, GTimedelta _ _ _ _ _ y => x =? y
  | GDuration _ _ _ _ _ a1 a2 a3, GDuration _ _ _ _ _ b1 b2 b3 => (a1 =? b1) && (a2 =? b2) && (a3 =? b3)
  | GList _ _ _ _ _ x, GList _ _ _ _ _ y | GTuple _ _ _ _ _ x, GTuple _ _ _ _ _ y => list_eqb (fun u w => rg_eqb u w) x y
  | GSet _ _ _ _ _ x, GSet _ _ _ _ _ y =>
      forallb (fun u => existsb (fun w => rg_eqb u w) y) x && forallb (fun w => existsb (fun u => rg_eqb u w) x) y
  | GDict _ _ _ _ _ x, GDict _ _ _ _ _ y =>
      forallb (fun u => existsb (fun w => rg_eqb (fst u) (fst w) && rg_eqb (snd u) (snd w)) y) x &&
      forallb (fun w => existsb (fun u => rg_eqb (fst u) (fst w) && rg_eqb (snd u) (snd w)) x) y
  | _, _ => false
  end.

Definition durtext_eqb (a b : durtext) : bool :=
  Bool.eqb (d_neg a) (d_neg b) && (d_days a =? d_days b) && (d_hours a =? d_hours b) && (d_minutes a =? d_minutes b) &&
  (d_sec a =? d_sec b) && (d_us a =? d_us b) && Bool.eqb (d_sci a) (d_sci b).

Fixpoint rj_eqb (a b : rjson) {struct a} : bool :=
  match a, b with
  | JNull, JNull => true
  | JBool x, JBool y => Bool.eqb x y
  | JInt x, JInt y => x =? y
  | JFloat m e, JFloat m' e' => dy_eqb (m, e) (m', e')
  | JStr x, JStr y => txt_eqb x y
  | JDur x, JDur y => durtext_eqb x y
  | JWkt x, JWkt y => wkt_eqb x y
  | JList x, JList y | JTuple x, JTuple y => list_eqb (fun u w => rj_eqb u w) x y
  | JObj x, JObj y => list_eqb (fun u w => txt_eqb (fst u) (fst w) && rj_eqb (snd u) (snd w)) x y
  | JPairs x, JPairs y => list_eqb (fun u w => rj_eqb (fst u) (fst w) && rj_eqb (snd u) (snd w)) x y
  | JTyped g x, JTyped g' y => tag_eqb g g' && rj_eqb x y
  | JDseDur a1 a2 a3, JDseDur b1 b2 b3 => rj_eqb a1 b1 && rj_eqb a2 b2 && rj_eqb a3 b3
  | _, _ => false
  end.

Definition opt_eqb {A : Type} (eqb : A -> A -> bool) (a b : option A) : bool :=
  match a, b with Some x, Some y => eqb x y | None, None => true | _, _ => false end.

Definition r_ser23 (ver : version) (v : rgval) : option rjson :=
  serialize23 txt txt txt txt txt (fun x => x) (fun x => x) (fun x => x) (fun x => x) (fun x => x) ver v.
Definition r_ser1 (v : rgval) : option rjson :=
  serialize1 txt txt txt txt txt (fun x => x) (fun x => x) (fun x => x) (fun x => x) (fun x => x) v.
Definition r_deser23 (ver : version) (j : rjson) : option rgval :=
  deserialize23 txt txt txt txt txt r_some r_some r_strptime_date r_none r_none r_some r_strptime_frac r_strptime_nofrac
                rg_eqb ver j.
Definition r_deser1 (t : option tio) (j : rjson) : option rgval :=
  deserialize1 txt txt txt txt txt r_some r_some r_strptime_date r_none r_none r_some r_strptime_frac r_strptime_nofrac
               t j.
Definition r_serializer_of (ver : version) (v : rgval) : option tio := serializer_of txt txt txt txt txt ver v.
