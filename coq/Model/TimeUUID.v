(* C34 model of uuid_from_time / unix_time_from_uuid1 / min_uuid_from_time / max_uuid_from_time in exact integer
   arithmetic (input: microseconds since the Unix epoch), and of Cassandra's TimeUUIDType comparator.
   No proofs here. *)
From Coq Require Import ZArith List Bool.
Import ListNotations.
Local Open Scope Z_scope.

Definition OFFSET : Z := 122192928000000000.   (* 0x01b21dd213814000: 100ns intervals 1582-10-15 .. 1970-01-01 *)

Record uuid := { f_low : Z; f_mid : Z; f_hiv : Z; f_csh : Z; f_csl : Z; f_node : Z }.

(* intervals = int(microseconds * 10) + OFFSET; time_low = & 0xffffffff; time_mid = >> 32 & 0xffff;
   time_hi_version = >> 48 & 0x0fff; uuid.UUID(fields=..., version=1) then sets the version nibble to 1 *)
Definition uuid_from_us (us node clock : Z) : uuid :=
  let i := us * 10 + OFFSET in
  {| f_low := Z.land i 4294967295;
     f_mid := Z.land (Z.shiftr i 32) 65535;
     f_hiv := Z.lor 4096 (Z.land (Z.shiftr i 48) 4095);
     f_csh := Z.lor 128 (Z.land (Z.shiftr clock 8) 63);
     f_csl := Z.land clock 255;
     f_node := node |}.

(* uuid_from_time raises for clock_seq > 0x3fff; uuid.UUID raises for node outside 0 .. 2^48-1 *)
Definition uuid_accepts (node clock : Z) : bool := (clock <=? 16383) && (0 <=? node) && (node <? 281474976710656).

Definition uuid_int (u : uuid) : Z :=
  f_low u * 2 ^ 96 + f_mid u * 2 ^ 80 + f_hiv u * 2 ^ 64 + f_csh u * 2 ^ 56 + f_csl u * 2 ^ 48 + f_node u.

(* UUID.time = ((time_hi_version & 0x0fff) << 48) | (time_mid << 32) | time_low *)
Definition uuid_time (u : uuid) : Z := (f_hiv u mod 4096) * 2 ^ 48 + f_mid u * 2 ^ 32 + f_low u.

(* unix_time_from_uuid1 = (time - OFFSET) / 1e7 seconds; to the microsecond: *)
Definition decode_us (u : uuid) : Z := (uuid_time u - OFFSET) / 10.

Definition min_uuid (us : Z) : uuid := uuid_from_us us 141289400074368 128.          (* 0x808080808080, 0x80 *)
Definition max_uuid (us : Z) : uuid := uuid_from_us us 140185576636287 16255.        (* 0x7f7f7f7f7f7f, 0x3f7f *)

(* bytes 8..15 of the UUID *)
Definition lsb_bytes (u : uuid) : list Z :=
  [f_csh u; f_csl u; f_node u / 2 ^ 40 mod 256; f_node u / 2 ^ 32 mod 256; f_node u / 2 ^ 24 mod 256;
   f_node u / 2 ^ 16 mod 256; f_node u / 2 ^ 8 mod 256; f_node u mod 256].

(* Cassandra TimeUUIDType: compare the timestamps, then the remaining 8 bytes as SIGNED bytes, lexicographically *)
Definition signed8 (b : Z) : Z := if b <? 128 then b else b - 256.
Fixpoint cmp_signed_bytes (a b : list Z) : comparison :=
  match a, b with
  | [], [] => Eq
  | [], _ => Lt
  | _, [] => Gt
  | x :: a', y :: b' => match signed8 x ?= signed8 y with Eq => cmp_signed_bytes a' b' | c => c end
  end.
Definition cass_compare (u v : uuid) : comparison :=
  match uuid_time u ?= uuid_time v with
  | Eq => cmp_signed_bytes (lsb_bytes u) (lsb_bytes v)
  | c => c
  end.
Definition cass_le (u v : uuid) : bool := match cass_compare u v with Gt => false | _ => true end.
