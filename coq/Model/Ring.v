(* C26 model of the driver (cassandra/metadata.py), hand-written, tied by correspondence (checks/C26.py).
     SimpleStrategy.make_token_replica_map           -> simple_row / simple_map
     NetworkTopologyStrategy.make_token_replica_map  -> nts_step / nts_flush / nts_dc / nts_rows / nts_map
     TokenMap.get_replicas (bisect_left + wrap)      -> bisect_left / get_replicas
   `ring` of the source = map fst ring here, `token_to_host_owner[ring[k]]` = nth k (map snd ring).
   Hosts always carry a datacenter and a rack (the `if host.datacenter and host.rack` guard is taken).
   The boolean `dd` selects how a skipped host is remembered:
     dd = false : `skipped_hosts.append(host)`                                  (the code before the fix)
     dd = true  : `if host not in skipped_hosts: skipped_hosts.append(host)`    (the repaired code = nts_map)
   No proofs here. *)
From Coq Require Import ZArith List Bool.
From Verif Require Import RingBase.
Import ListNotations.
Local Open Scope Z_scope.

(* ---------------------------------------------------------------- SimpleStrategy *)
(* one iteration of `while len(hosts) < rf and j < len(ring)`: once the first conjunct is false it stays false *)
Definition simple_step (rf : Z) (hosts : list Z) (h : Z) : list Z :=
  if lenZ hosts <? rf then (if memZ h hosts then hosts else hosts ++ [h]) else hosts.

(* replica_map[ring[i]]: j = 0 .. len(ring)-1 visits ring[(i + j) % len(ring)] *)
Definition simple_row (rf : Z) (hs : list Z) (i : nat) : list Z :=
  fold_left (simple_step rf) (rot i hs) [].

Definition simple_map (rf : Z) (ring : ring_t) : list (Z * list Z) :=
  map (fun i => (nth i (map fst ring) 0, simple_row rf (map snd ring) i)) (seq 0 (length ring)).

(* ---------------------------------------------------------------- NetworkTopologyStrategy *)
(* dc_rf_map = {dc: full_replicas for dc, full_replicas in items() if full_replicas > 0} *)
Definition dc_rf (rfs : list (Z * Z)) (d : Z) : option Z :=
  match assoc d rfs with Some r => if 0 <? r then Some r else None | None => None end.

(* dc_to_token_offset[d]: indexes into the ring of the tokens owned by hosts of d, increasing *)
Fixpoint offsets_from (loc : topo_t) (d : Z) (k : nat) (hs : list Z) : list nat :=
  match hs with
  | [] => []
  | h :: t => if dc_of loc h =? d then k :: offsets_from loc d (S k) t else offsets_from loc d (S k) t
  end.

(* dc_to_token_offset.keys(): insertion order = order of first appearance around the ring *)
Definition dc_keys (loc : topo_t) (hs : list Z) : list Z := dedup (map (dc_of loc) hs).
Definition hosts_in_dc (loc : topo_t) (d : Z) (hs : list Z) : list Z := filter (fun h => dc_of loc h =? d) hs.
(* len(dc_racks[d]), len(hosts_per_dc[d]) *)
Definition num_racks (loc : topo_t) (d : Z) (hs : list Z) : Z := lenZ (dedup (map (rack_of loc) (hosts_in_dc loc d hs))).
Definition num_hosts (loc : topo_t) (d : Z) (hs : list Z) : Z := lenZ (dedup (hosts_in_dc loc d hs)).

(* `while index < num_tokens and token_offsets[index] < i: index += 1` *)
Fixpoint count_while_lt (l : list nat) (i : nat) : nat :=
  match l with [] => 0%nat | o :: t => if Nat.ltb o i then S (count_while_lt t i) else 0%nat end.
Definition advance (offs : list nat) (index i : nat) : nat := (index + count_while_lt (skipn index offs) i)%nat.

Record nst := { n_replicas : list Z; n_remaining : Z; n_this_dc : Z; n_skipped : list Z; n_racks_placed : list Z }.

(* `for host in skipped_hosts: if replicas_remaining == 0: break; replicas.append(host); replicas_remaining -= 1` *)
Fixpoint nts_flush (sk : list Z) (reps : list Z) (rem : Z) : list Z * Z :=
  match sk with
  | [] => (reps, rem)
  | h :: t => if rem =? 0 then (reps, rem) else nts_flush t (reps ++ [h]) (rem - 1)
  end.

(* one iteration of `for token_offset_index in range(index, index+num_tokens)`; `break` = nothing changes any more *)
Definition nts_step (dd : bool) (loc : topo_t) (nracks nhosts : Z) (st : nst) (h : Z) : nst :=
  if (n_remaining st =? 0) || (n_this_dc st =? nhosts) then st
  else if memZ h (n_replicas st) then st
  else if memZ (rack_of loc h) (n_racks_placed st) && (lenZ (n_racks_placed st) <? nracks) then
    {| n_replicas := n_replicas st; n_remaining := n_remaining st; n_this_dc := n_this_dc st;
       n_skipped := (if dd then set_add h (n_skipped st) else n_skipped st ++ [h]);
       n_racks_placed := n_racks_placed st |}
  else
    let reps := n_replicas st ++ [h] in
    let rem := n_remaining st - 1 in
    let placed := set_add (rack_of loc h) (n_racks_placed st) in
    if lenZ placed =? nracks then
      let '(reps', rem') := nts_flush (n_skipped st) reps rem in
      {| n_replicas := reps'; n_remaining := rem'; n_this_dc := n_this_dc st + 1; n_skipped := []; n_racks_placed := placed |}
    else
      {| n_replicas := reps; n_remaining := rem; n_this_dc := n_this_dc st + 1; n_skipped := n_skipped st; n_racks_placed := placed |}.

(* body of `for dc in dc_to_token_offset.keys()` for ring position i; cur = dc_to_current_index *)
Definition nts_dc (dd : bool) (loc : topo_t) (rfs : list (Z * Z)) (hs : list Z) (i : nat)
           (acc : (Z -> nat) * list Z) (d : Z) : (Z -> nat) * list Z :=
  let '(cur, replicas) := acc in
  match dc_rf rfs d with
  | None => (cur, replicas)
  | Some r =>
    let offs := offsets_from loc d 0 hs in
    let index := advance offs (cur d) i in
    let visited := map (fun o => nth o hs 0) (rot index offs) in
    let st := fold_left (nts_step dd loc (num_racks loc d hs) (num_hosts loc d hs)) visited
                {| n_replicas := replicas; n_remaining := r; n_this_dc := 0; n_skipped := []; n_racks_placed := [] |} in
    (upd cur d index, n_replicas st)
  end.

(* `for i in range(len(ring))`, dc_to_current_index threaded through *)
Fixpoint nts_rows (dd : bool) (loc : topo_t) (rfs : list (Z * Z)) (hs : list Z) (todo : list nat) (cur : Z -> nat)
  : list (list Z) :=
  match todo with
  | [] => []
  | i :: t =>
    let '(cur', reps) := fold_left (nts_dc dd loc rfs hs i) (dc_keys loc hs) (cur, []) in
    reps :: nts_rows dd loc rfs hs t cur'
  end.

Definition nts_map_gen (dd : bool) (loc : topo_t) (rfs : list (Z * Z)) (ring : ring_t) : list (Z * list Z) :=
  combine (map fst ring) (nts_rows dd loc rfs (map snd ring) (seq 0 (length ring)) (fun _ => 0%nat)).

Definition nts_map := nts_map_gen true.
Definition nts_map_prefix := nts_map_gen false.     (* the code before the `fix:` commit, kept for C26_nts_unfixed_refuted *)

(* ---------------------------------------------------------------- TokenMap.get_replicas *)
(* bisect.bisect_left(a, x): lo, hi = 0, len(a); while lo < hi: mid = (lo+hi)//2; if a[mid] < x: lo = mid+1 else: hi = mid *)
Fixpoint bisect_loop (fuel : nat) (a : list Z) (x : Z) (lo hi : nat) : nat :=
  match fuel with
  | O => lo
  | S f =>
    if Nat.ltb lo hi then
      let mid := Nat.div (lo + hi) 2 in
      if nth mid a 0 <? x then bisect_loop f a x (S mid) hi else bisect_loop f a x lo mid
    else lo
  end.
Definition bisect_left (a : list Z) (x : Z) : nat := bisect_loop (S (length a)) a x 0 (length a).

(* `if tokens_to_hosts:` (empty dict -> []), point == len(ring) wraps to ring[0]; dict lookup by token *)
Definition get_replicas (rmap : list (Z * list Z)) (toks : list Z) (t : Z) : list Z :=
  match rmap with
  | [] => []
  | _ =>
    let point := bisect_left toks t in
    let key := if Nat.eqb point (length toks) then nth 0 toks 0 else nth point toks 0 in
    match assoc key rmap with Some l => l | None => [] end
  end.

Inductive strategy := Simple (rf : Z) | NTS (rfs : list (Z * Z)).

Definition replica_map (dd : bool) (loc : topo_t) (s : strategy) (ring : ring_t) : list (Z * list Z) :=
  match s with Simple rf => simple_map rf ring | NTS rfs => nts_map_gen dd loc rfs ring end.

(* Metadata.get_replicas after rebuild_token_map, for the token of a key *)
Definition driver_replicas (loc : topo_t) (s : strategy) (ring : ring_t) (t : Z) : list Z :=
  get_replicas (replica_map true loc s ring) (map fst ring) t.
Definition driver_replicas_prefix (loc : topo_t) (s : strategy) (ring : ring_t) (t : Z) : list Z :=
  get_replicas (replica_map false loc s ring) (map fst ring) t.

(* ---------------------------------------------------------------- Metadata.get_replicas(keyspace, key), Murmur3Partitioner
   Murmur3Token.hash_fn: h = int(murmur3(key)); return h if h != MIN_LONG else MAX_LONG   (the hash itself is C08's) *)
Definition MIN_LONG : Z := - 2 ^ 63.
Definition MAX_LONG : Z := 2 ^ 63 - 1.
Definition murmur3_token (h : Z) : Z := if negb (h =? MIN_LONG) then h else MAX_LONG.
Definition driver_replicas_for_hash (loc : topo_t) (s : strategy) (ring : ring_t) (h : Z) : list Z :=
  driver_replicas loc s ring (murmur3_token h).
