(* C26: the per-keyspace replica-map cache of TokenMap (tokens_to_hosts_by_ks[ks]) under concurrent lookups and
   ALTER KEYSPACE events.  Replication settings are abstracted to a version number; the cached map remembers the
   version it was computed from.  One op = one atomic region of the source (checked by the lock audit in checks/C26.py):
     QStart    get_replicas found no map -> rebuild_keyspace(build_if_absent=True): takes _rebuild_lock, tests `current is None`
               INSIDE the lock; goes on holding the lock only if a build is needed
     QRead     ... reads self._metadata.keyspaces[ks] (the settings the map will be computed from; make_token_replica_map runs here)
     QPublish  ... tokens_to_hosts_by_ks[ks] = replica_map; releases the lock
     ESet v    Metadata._update_keyspace: self.keyspaces[ks] = new meta  (no lock); its rebuild_keyspace call becomes pending
     ERefresh  rebuild_keyspace(build_if_absent=False): needs the lock; `current is not None` -> recompute from the CURRENT settings
     Evict     TokenMap.remove_keyspace: pop (no lock, one dict operation)
     ECheckUnlocked  NOT in the source: the "is a rebuild needed" test done before taking the lock and not repeated inside
               (kept for the refutation only). No proofs here. *)
From Coq Require Import ZArith List Bool.
Import ListNotations.

Record cstate := { settings : nat; cache : option nat; qlock : option (option nat); pending : nat }.

Inductive cop := QStart | QRead | QPublish | ESet (v : nat) | ERefresh | Evict | ECheckUnlocked.

Definition cinit (v : nat) : cstate := {| settings := v; cache := None; qlock := None; pending := 0 |}.

Definition cstep (s : cstate) (o : cop) : cstate :=
  match o with
  | QStart => match qlock s, cache s with
              | None, None => {| settings := settings s; cache := cache s; qlock := Some None; pending := pending s |}
              | _, _ => s
              end
  | QRead => match qlock s with
             | Some None => {| settings := settings s; cache := cache s; qlock := Some (Some (settings s)); pending := pending s |}
             | _ => s
             end
  | QPublish => match qlock s with
                | Some (Some r) => {| settings := settings s; cache := Some r; qlock := None; pending := pending s |}
                | _ => s
                end
  | ESet v => {| settings := v; cache := cache s; qlock := qlock s; pending := S (pending s) |}
  | ERefresh => match qlock s, pending s with
                | None, S p => {| settings := settings s;
                                  cache := (match cache s with Some _ => Some (settings s) | None => None end);
                                  qlock := None; pending := p |}
                | _, _ => s
                end
  | Evict => {| settings := settings s; cache := None; qlock := qlock s; pending := pending s |}
  | ECheckUnlocked => match cache s, pending s with
                      | None, S p => {| settings := settings s; cache := None; qlock := qlock s; pending := p |}
                      | _, _ => s
                      end
  end.

Definition crun (s : cstate) (ops : list cop) : cstate := fold_left cstep ops s.

Definition in_source (o : cop) : bool := match o with ECheckUnlocked => false | _ => true end.

(* quiescent: no rebuild in flight, no schema event whose rebuild_keyspace call is still to come *)
Definition quiescent (s : cstate) : Prop := qlock s = None /\ pending s = 0.
(* what the next lookup will use: the cached map if there is one, else one built from the current settings *)
Definition served (s : cstate) : nat := match cache s with Some c => c | None => settings s end.
