(* C22 model: TokenAwarePolicy.make_query_plan (cassandra/policies.py) over an arbitrary child policy.
   Inputs: `order` = the replica list of (keyspace, routing key) as the loop iterates it (Metadata.get_replicas's list, after
   shuffle() when shuffle_replicas is set: any permutation), `up h` = truthiness of host.is_up (None and False are falsy),
   `cd` = the child's distance(), `child` = the child's query plan, `routed` = the statement has a routing key and a keyspace.
   The replica computation itself is property C26.  No proofs in this file. *)
From Coq Require Import ZArith List Bool.
From Verif Require Import LBP.
Import ListNotations.
Local Open Scope Z_scope.

(* ta_prefix / ta_rest / ta_plan are defined in Model/LBP.v (C21 uses them for the token-aware wrapper too) *)

(* the code before the repair (commit d849ab7): the second loop skipped every replica that is not REMOTE *)
Definition ta_plan_before_fix (up : Z -> bool) (cd : Z -> dist) (order child : list Z) : list Z :=
  ta_prefix up cd order ++ filter (fun h => negb (mem h order) || dist_eqb (cd h) REMOTE) child.

(* helpers for the correspondence cases *)
Definition dist_of_code (z : Z) : dist := if z =? 0 then LOCAL else if z =? 1 then REMOTE else IGNORED.
Definition dist_table (codes : list Z) (h : Z) : dist := dist_of_code (nth (Z.to_nat h) codes (-1)).
Definition check_ta (routed : bool) (ups codes order child plan : list Z) : bool :=
  list_eqb (ta_plan routed (fun h => mem h ups) (dist_table codes) order child) plan.
