(* C06: cassandra/segment.py (SegmentCodec, SegmentHeader) and the checksumming path of Connection.process_io_buffer /
   _process_segment_buffer / _ConnectionIOBuffer (cassandra/connection.py), AFTER the two repairs
   (segment_length: header size by `uncompressed_payload_length < 0`; partial segment header kept in the io buffer).
   Executable model, no proofs here.  Bytes are Z in 0..255. *)
From Coq Require Import ZArith List Bool.
From Verif Require Import Crc Stream.
Import ListNotations.
Local Open Scope Z_scope.

Definition MAX_PAYLOAD_LENGTH : Z := 131071.   (* Segment.MAX_PAYLOAD_LENGTH = 128 * 1024 - 1 *)

(* protocol.write_uint_le / read_uint_le *)
Fixpoint le_bytes (n : nat) (x : Z) : list Z :=
  match n with O => [] | S k => Z.land x 255 :: le_bytes k (Z.shiftr x 8) end.

Fixpoint le_val (bs : list Z) : Z :=
  match bs with [] => 0 | b :: bs' => Z.lor (Z.land b 255) (Z.shiftl (le_val bs') 8) end.

Inductive sres :=
| SNeed                                  (* not enough bytes buffered *)
| SBad                                   (* CrcException -> CrcMismatchException -> defunct *)
| SOk (payload rest : list Z).

Section Codec.
  Variable compression : bool.                       (* SegmentCodec.compression: compressor and decompressor present *)
  Variable compress : list Z -> list Z.              (* SegmentCodec.compress: compressor(data)[4:] *)
  Variable decompress : list Z -> Z -> list Z.       (* SegmentCodec.decompress(encoded, uncompressed_length) *)

  Definition header_length : Z := if compression then 5 else 3.
  Definition header_length_with_crc : Z := header_length + CRC24_LENGTH.

  (* encode_header (payload_length <= MAX checked by the caller of this model: see encode_segment) *)
  Definition header_data (payload_length uncompressed_length : Z) (self_contained : bool) : Z :=
    let hd := payload_length in
    let hd := if compression then Z.lor hd (Z.shiftl uncompressed_length 17) else hd in
    let flag_offset := if compression then 34 else 17 in
    if self_contained then Z.lor hd (Z.shiftl 1 flag_offset) else hd.

  Definition encode_header (payload_length uncompressed_length : Z) (self_contained : bool) : list Z :=
    let hd := header_data payload_length uncompressed_length self_contained in
    le_bytes (Z.to_nat header_length) hd ++ le_bytes 3 (compute_crc24 hd (Z.to_nat header_length)).

  (* _encode_segment: (encoded payload, uncompressed length written in the header) *)
  Definition encoded_payload (payload : list Z) : list Z * Z :=
    if compression then
      let c := compress payload in
      if blen payload <=? blen c then (payload, 0) else (c, blen payload)
    else (payload, blen payload).

  Definition encode_segment (payload : list Z) (self_contained : bool) : list Z :=
    let '(enc, ulen) := encoded_payload payload in
    encode_header (blen enc) ulen self_contained ++ enc ++ le_bytes 4 (compute_crc32 enc CRC32_INITIAL).

  (* encode: split into MAX_PAYLOAD_LENGTH pieces *)
  Fixpoint split_payloads (fuel : nat) (msg : list Z) : list (list Z) :=
    match fuel with
    | O => [msg]
    | S f => if blen msg <=? MAX_PAYLOAD_LENGTH then [msg]
             else firstn (Z.to_nat MAX_PAYLOAD_LENGTH) msg :: split_payloads f (skipn (Z.to_nat MAX_PAYLOAD_LENGTH) msg)
    end.

  Definition encode (msg : list Z) : list Z :=
    let ps := split_payloads (length msg) msg in
    let sc := match ps with [_] => true | _ => false end in
    concat (map (fun p => encode_segment p sc) ps).

  (* decode_header + segment_length + decode on the bytes buffered so far = _process_segment_buffer *)
  Definition parse_seg (io : list Z) : sres :=
    if blen io <? header_length_with_crc then SNeed
    else
      let hl := Z.to_nat header_length in
      let hd := le_val (firstn hl io) in
      let expected := le_val (firstn 3 (skipn hl io)) in
      if negb (compute_crc24 hd hl =? expected) then SBad
      else
        let payload_length := Z.land hd MAX_PAYLOAD_LENGTH in
        let hd1 := Z.shiftr hd 17 in
        let ulen := if compression then Z.land hd1 MAX_PAYLOAD_LENGTH else -1 in
        (* SegmentHeader.segment_length (repaired) *)
        let seglen := (if ulen <? 0 then 3 else 5) + CRC24_LENGTH + payload_length + CRC32_LENGTH in
        if blen io <? seglen then SNeed
        else
          let hlc := Z.to_nat header_length_with_crc in
          let enc := firstn (Z.to_nat payload_length) (skipn hlc io) in
          let pcrc := le_val (firstn 4 (skipn (hlc + Z.to_nat payload_length) io)) in
          if negb (compute_crc32 enc CRC32_INITIAL =? pcrc) then SBad
          else SOk (if compression && (0 <? ulen) then decompress enc ulen else enc)
                   (skipn (hlc + Z.to_nat payload_length + 4) io).

  (* connection state in checksumming mode: io buffer, cql frame buffer, _segment_consumed *)
  Inductive cstate := CLive (io fb : list Z) (consumed : bool) | CDead.

  (* process_io_buffer, checksumming mode.  The Python `while True` alternates "consume at most one segment" and
     "deliver at most one frame"; once the io buffer is empty it only delivers frames.  Restructured as a recursion
     on the io buffer (every consumed segment shortens it), with the frame-only tail done by Stream.parse_all. *)
  Fixpoint cloop (fuel : nat) (io fb : list Z) (consumed : bool) : cstate * list ievent :=
    match io with
    | [] =>
      if consumed then
        match parse_all fb with
        | (Live fb', evs) => (CLive [] fb' true, evs)
        | (Dead, evs) => (CDead, evs)
        end
      else (CLive [] fb false, [])
    | _ :: _ =>
      match fuel with
      | O => (CLive io fb consumed, [])
      | S f =>
        match parse_seg io with
        | SNeed => (CLive io fb false, [])
        | SBad => (CDead, [Defunct R_CRC])
        | SOk payload rest =>
          let fb1 := fb ++ payload in
          match parse1 fb1 with
          | NeedMore => cloop f rest fb1 true
          | Bad r => (CDead, [Defunct r])
          | Frame h body fb2 => let '(st, evs) := cloop f rest fb2 true in (st, Deliver h body :: evs)
          end
        end
      end
    end.

  Definition cfeed (st : cstate) (chunk : list Z) : cstate * list ievent :=
    match st with
    | CDead => (CDead, [])
    | CLive io fb c => cloop (S (length (io ++ chunk))) (io ++ chunk) fb c
    end.

  Definition cinit : cstate := CLive [] [] false.

  Fixpoint run_cfeed (st : cstate) (chunks : list (list Z)) : cstate * list ievent :=
    match chunks with
    | [] => (st, [])
    | c :: cs => let '(st1, e1) := cfeed st c in let '(st2, e2) := run_cfeed st1 cs in (st2, e1 ++ e2)
    end.

  (* per-read observation for the correspondence: (#events so far, io bytes, frame-buffer bytes), -1 when defunct *)
  Definition cobs_of (n : Z) (st : cstate) : Z * Z * Z :=
    match st with CLive io fb _ => (n, blen io, blen fb) | CDead => (n, -1, -1) end.

  Fixpoint run_cobs (st : cstate) (n : Z) (chunks : list (list Z)) : list (Z * Z * Z) :=
    match chunks with
    | [] => []
    | c :: cs => let '(st1, e1) := cfeed st c in
                 let n1 := n + blen (map (fun _ => 0) e1) in
                 cobs_of n1 st1 :: run_cobs st1 n1 cs
    end.

  Definition c_io (st : cstate) : list Z := match st with CLive io _ _ => io | CDead => [] end.
  Definition c_fb (st : cstate) : list Z := match st with CLive _ fb _ => fb | CDead => [] end.
End Codec.

(* ---- the framing switch of the v5 handshake (connection.py: _handle_startup_response, _handle_auth_response,
   _enable_compression, _enable_checksumming).  The peer writes every segment after its answer to STARTUP (READY or
   AUTHENTICATE) in the compressed format iff a compression was announced in STARTUP; the codec the connection reads
   them with is chosen by _enable_checksumming from `self.compressor` AT THAT MOMENT. *)
Record hstate := mkHs {
  hs_negotiated : bool;        (* self._compressor set by _handle_options_response = COMPRESSION sent in STARTUP *)
  hs_compressor : bool;        (* self.compressor set *)
  hs_codec : option bool       (* None: no checksumming; Some c: self._segment_codec with compression = c *)
}.

Definition enable_compression (s : hstate) : hstate :=        (* if self._compressor: self.compressor = self._compressor *)
  if hs_negotiated s then mkHs true true (hs_codec s) else s.

Definition enable_checksumming (s : hstate) : hstate :=       (* segment_codec_lz4 if self.compressor else ..._no_compression *)
  mkHs (hs_negotiated s) (hs_compressor s) (Some (hs_compressor s)).

Inductive hreply := RReady | RAuthenticate | RAuthSuccess.

Definition on_reply (v5 : bool) (r : hreply) (s : hstate) : hstate :=
  match r with
  | RReady | RAuthenticate =>                                 (* both branches: _enable_compression(); then checksumming for v5 *)
    let s1 := enable_compression s in if v5 then enable_checksumming s1 else s1
  | RAuthSuccess => enable_compression s
  end.

Definition hs_init (negotiated : bool) : hstate := mkHs negotiated false None.

(* correspondence: (checksumming on, codec compressed, compressor set) as 0/1 after the reply *)
Definition hs_obs (s : hstate) : Z * Z * Z :=
  (match hs_codec s with Some _ => 1 | None => 0 end,
   match hs_codec s with Some true => 1 | _ => 0 end,
   if hs_compressor s then 1 else 0).
