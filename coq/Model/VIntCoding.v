(* Independent specification of org.apache.cassandra.utils.vint.VIntCoding (unsigned vint + zig-zag), written
   from the Cassandra source / native-protocol description, not from the driver:

     - an unsigned 64-bit value v is written as 1 + n bytes, n = number of "extra" bytes, 0 <= n <= 8;
       n is the least number with v < 2^(7(n+1)) (n extra bytes leave 8 - (n+1) value bits in the first byte and
       8n in the rest), and n = 8 for everything from 2^56 up to 2^64 - 1 (first byte 0xFF, then the 8 value bytes);
     - the first byte carries n leading one bits, (for n < 8) a zero bit, and the most significant value bits;
     - the remaining n bytes are the low 8n bits of v, big-endian;
     - signed values are zig-zag mapped first:  encodeZigZag64(n) = (n << 1) ^ (n >> 63),
       decodeZigZag64(u) = (u >>> 1) ^ -(u & 1)   (Java long arithmetic, i.e. modulo 2^64).

   Java's own size formula  computeUnsignedVIntSize(v) = (639 - numberOfLeadingZeros(v | 1) * 9) >> 6  is kept as
   java_vint_size; Proofs/Marshal_proofs.v shows it equals vint_extra v + 1.
   Bytes are Z in 0..255.  No proofs here (Model file). *)
From Coq Require Import ZArith List Bool.
From Verif Require Import JavaBigInteger.
Import ListNotations.
Local Open Scope Z_scope.

(* ---------------------------------------------------------------- unsigned vint *)
(* least n in 0..7 (searching upwards from n) with v < 2^(7(n+1)); 8 when there is none *)
Fixpoint vint_extra_from (k : nat) (n : Z) (v : Z) : Z :=
  match k with
  | O => 8
  | S k' => if v <? 2 ^ (7 * (n + 1)) then n else vint_extra_from k' (n + 1) v
  end.

Definition vint_extra (v : Z) : Z := vint_extra_from 8 0 v.

(* n leading one bits of a byte *)
Definition vint_prefix (n : Z) : Z := 256 - 2 ^ (8 - n).

Definition vint_first_byte (v : Z) : Z :=
  let n := vint_extra v in vint_prefix n + Z.shiftr v (8 * n).

Definition uvint_bytes (v : Z) : list Z :=
  vint_first_byte v :: be_bytes (Z.to_nat (vint_extra v)) v.

(* writeUnsignedVInt on a Java long read as unsigned; None = not a 64-bit unsigned value *)
Definition uvint_encode (v : Z) : option (list Z) :=
  if (0 <=? v) && (v <? 2 ^ 64) then Some (uvint_bytes v) else None.

Definition java_vint_size (v : Z) : Z := Z.shiftr (639 - (63 - Z.log2 (Z.lor v 1)) * 9) 6.

(* number of leading one bits of a byte (0..8) *)
Fixpoint lead_ones_from (k : nat) (b : Z) : Z :=
  match k with
  | O => 0
  | S k' => if b <? 128 then 0 else 1 + lead_ones_from k' ((2 * b) mod 256)
  end.
Definition lead_ones (b : Z) : Z := lead_ones_from 8 b.

(* readUnsignedVInt: value and number of bytes consumed; None = input exhausted *)
Definition uvint_decode (bs : list Z) : option (Z * Z) :=
  match bs with
  | [] => None
  | b0 :: rest =>
      let n := lead_ones b0 in
      if Z.of_nat (length rest) <? n then None
      else Some ((b0 mod 2 ^ (8 - n)) * 2 ^ (8 * n) + be_unsigned (firstn (Z.to_nat n) rest), n + 1)
  end.

(* ---------------------------------------------------------------- zig-zag on Java longs *)
Definition in_int64 (n : Z) : Prop := - 2 ^ 63 <= n < 2 ^ 63.
Definition in_uint64 (u : Z) : Prop := 0 <= u < 2 ^ 64.
Definition in_int64b (n : Z) : bool := (- 2 ^ 63 <=? n) && (n <? 2 ^ 63).

Definition u64 (x : Z) : Z := x mod 2 ^ 64.                                   (* the 64-bit word of x *)
Definition s64 (x : Z) : Z := let y := x mod 2 ^ 64 in if y <? 2 ^ 63 then y else y - 2 ^ 64.

(* (n << 1) ^ (n >> 63), as the unsigned reading of the resulting long *)
Definition zigzag_encode (n : Z) : Z := Z.lxor (u64 (Z.shiftl n 1)) (u64 (Z.shiftr n 63)).
(* (u >>> 1) ^ -(u & 1), as a signed long; u is the unsigned reading of the argument *)
Definition zigzag_decode (u : Z) : Z := s64 (Z.lxor (Z.shiftr (u64 u) 1) (u64 (- (Z.land u 1)))).

(* the arithmetic reading: 0, -1, 1, -2, 2, ... -> 0, 1, 2, 3, 4, ... *)
Definition zigzag_encode_arith (n : Z) : Z := if n <? 0 then - 2 * n - 1 else 2 * n.
Definition zigzag_decode_arith (u : Z) : Z := if Z.even u then u / 2 else - ((u + 1) / 2).

(* ---------------------------------------------------------------- sequences of signed vints *)
Definition vint_bytes (n : Z) : list Z := uvint_bytes (zigzag_encode n).

(* writeVInt for each element; None if an element is not a long *)
Fixpoint vints_encode (ns : list Z) : option (list Z) :=
  match ns with
  | [] => Some []
  | n :: r =>
      if in_int64b n then match vints_encode r with Some bs => Some (vint_bytes n ++ bs) | None => None end
      else None
  end.

(* readVInt until the input is exhausted; None = truncated last element.  fuel >= length bs suffices. *)
Fixpoint vints_decode_fuel (fuel : nat) (bs : list Z) : option (list Z) :=
  match bs with
  | [] => Some []
  | _ =>
      match fuel with
      | O => None
      | S f =>
          match uvint_decode bs with
          | None => None
          | Some (u, used) =>
              match vints_decode_fuel f (skipn (Z.to_nat used) bs) with
              | Some r => Some (zigzag_decode u :: r)
              | None => None
              end
          end
      end
  end.
Definition vints_decode (bs : list Z) : option (list Z) := vints_decode_fuel (length bs) bs.
