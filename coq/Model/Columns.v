(* C36 model: cassandra/cqlengine/columns.py, to_database of every column class, and the two readings of its
   output: `denote` (the CQL value the database-ready Python value stands for under the column's CQL type) and
   `prepared_value` (the CQL value cassandra.cqltypes serialisation encodes for the ORIGINAL Python value).
   No proofs here.  Floats are bit-exact dyadics (DyFloat.v).  None = "Python raises / outside the modelled domain". *)
From Coq Require Import ZArith List Bool.
From Verif Require Import DyFloat.
Import ListNotations.
Local Open Scope Z_scope.

(* ------------------------------------------------------------------ Python values *)
Inductive pyval : Type :=
| PNone
| PBool (b : bool)
| PInt (z : Z)
| PFloat (m e : Z)                 (* finite binary64 m * 2^e *)
| PFloatSpec (k : Z)               (* 0 nan, 1 +inf, 2 -inf, 3 -0.0 *)
| PStr (cps : list Z)              (* code points *)
| PBytes (bs : list Z)
| PByteArray (bs : list Z)
| PDecimal (neg : bool) (coeff : Z) (exp : Z)     (* finite decimal.Decimal: (-1)^neg * coeff * 10^exp *)
| PUuid (z : Z)
| PInet (bs : list Z)              (* address text / ipaddress object whose packed form is bs *)
| PDate (days : Z)                 (* datetime.date, days since 1970-01-01 *)
| PDatetime (wall : Z) (tz : option (Z -> Z))
    (* datetime.datetime: wall-clock microseconds since 1970-01-01T00:00 of its own fields;
       tz = tzinfo.utcoffset as a function wall-clock -> offset in microseconds (DST expressible) *)
| PTimeOfDay (us : Z)              (* datetime.time, microseconds since midnight *)
| PUtilDate (days : Z)             (* cassandra.util.Date *)
| PUtilTime (ns : Z)               (* cassandra.util.Time *)
| PDuration (mo d ns : Z)          (* cassandra.util.Duration *)
| PList (l : list pyval)
| PTuple (l : list pyval)
| PSet (l : list pyval)            (* the elements put into the set (Python keeps one per equality class) *)
| PDict (l : list (pyval * pyval)) (* items() order *)
| PUdt (l : list pyval).           (* cqlengine UserType instance: field values in declaration order *)

(* ------------------------------------------------------------------ column classes and CQL types *)
Inductive col : Type :=
| CInteger | CTinyInt | CSmallInt | CBigInt | CVarInt | CCounter
| CText | CAscii | CBlob | CBoolean | CFloat | CDouble | CDecimal
| CUUID | CTimeUUID | CDate | CTime | CDateTime | CDuration | CInet
| CList (c : col) | CSet (c : col) | CMap (k v : col) | CTuple (cs : list col) | CUDT (fs : list col).

Inductive cqltype : Type :=
| TInt | TTinyInt | TSmallInt | TBigInt | TVarInt | TCounter
| TText | TAscii | TBlob | TBoolean | TFloat | TDouble | TDecimal
| TUuid | TTimeUuid | TDate | TTime | TTimestamp | TDuration | TInet
| TList (t : cqltype) | TSet (t : cqltype) | TMap (k v : cqltype) | TTuple (ts : list cqltype) | TUdt (ts : list cqltype).

(* Column.cql_type: _cqltypes[db_type]; collections apply_parameters of the sub columns' cql_type *)
Fixpoint cql_type (c : col) : cqltype :=
  match c with
  | CInteger => TInt | CTinyInt => TTinyInt | CSmallInt => TSmallInt | CBigInt => TBigInt
  | CVarInt => TVarInt | CCounter => TCounter | CText => TText | CAscii => TAscii | CBlob => TBlob
  | CBoolean => TBoolean | CFloat => TFloat | CDouble => TDouble | CDecimal => TDecimal
  | CUUID => TUuid | CTimeUUID => TTimeUuid | CDate => TDate | CTime => TTime | CDateTime => TTimestamp
  | CDuration => TDuration | CInet => TInet
  | CList c1 => TList (cql_type c1) | CSet c1 => TSet (cql_type c1)
  | CMap k v => TMap (cql_type k) (cql_type v)
  | CTuple cs => TTuple (map cql_type cs) | CUDT fs => TUdt (map cql_type fs)
  end.

(* ------------------------------------------------------------------ CQL values *)
Inductive value : Type :=
| VNull
| VInt (z : Z)
| VText (cps : list Z)
| VBytes (bs : list Z)
| VBool (b : bool)
| VFloat (m e : Z)                 (* finite binary32/binary64 (the type says which): m * 2^e *)
| VFloatSpec (k : Z)
| VDecimal (unscaled scale : Z)
| VUuid (z : Z)
| VInet (bs : list Z)
| VDate (days : Z)                 (* days since 1970-01-01 *)
| VTime (ns : Z)
| VTimestamp (ms : Z)              (* milliseconds since the epoch *)
| VDuration (mo d ns : Z)
| VList (l : list value)
| VSet (l : list value)            (* read as the set of its elements *)
| VMap (l : list (value * value))
| VTuple (l : list value)
| VUdt (l : list value).

(* ------------------------------------------------------------------ helpers *)
Definition mapM {A B : Type} (f : A -> option B) : list A -> option (list B) :=
  fix go (l : list A) : option (list B) :=
  match l with
  | [] => Some []
  | x :: l' => match f x, go l' with Some y, Some ys => Some (y :: ys) | _, _ => None end
  end.

(* zip(fs, l): stops at the shorter one *)
Fixpoint zipM {A B : Type} (fs : list (A -> option B)) (l : list A) : option (list B) :=
  match fs, l with
  | f :: fs', x :: l' => match f x, zipM fs' l' with Some y, Some ys => Some (y :: ys) | _, _ => None end
  | _, _ => Some []
  end.

Definition in_range (lo hi z : Z) : bool := (lo <=? z) && (z <? hi).
Definition in_i8 := in_range (-128) 128.
Definition in_i16 := in_range (-32768) 32768.
Definition in_i32 := in_range (-2147483648) 2147483648.
Definition in_i64 := in_range (-9223372036854775808) 9223372036854775808.
Definition is_byte := in_range 0 256.
Definition is_scalar_cp (c : Z) : bool := in_range 0 55296 c || in_range 57344 1114112 c.
Definition is_ascii_cp := in_range 0 128.

Definition EPOCH_OFFSET_DAYS : Z := 2147483648.      (* SimpleDateType.EPOCH_OFFSET_DAYS = 2 ** 31 *)
Definition NS_DAY : Z := 86400000000000.             (* util.Time.DAY *)
Definition US_DAY : Z := 86400000000.

Definition tz_off (tz : option (Z -> Z)) (wall : Z) : Z :=
  match tz with None => 0 | Some f => f wall end.

(* ------------------------------------------------------------------ DateTime.to_database *)
(* Repaired code (fix commit in the driver):
     epoch = datetime(1970, 1, 1, tzinfo=value.tzinfo)
     offset = value.utcoffset() or timedelta(0)          -- the offset AT THE VALUE
     delta = value - epoch - offset                      -- same tzinfo: wall-clock difference
     micros = (delta.days * 86400 + delta.seconds) * 1000000 + delta.microseconds
     return micros // 1000 if micros >= 0 else -(-micros // 1000)      -- truncation toward zero = Z.quot *)
Definition datetime_to_db (wall : Z) (tz : option (Z -> Z)) : Z :=
  Z.quot (wall - tz_off tz wall) 1000.

(* The code before the repair, bit-exact:
     epoch = datetime(1970, 1, 1, tzinfo=value.tzinfo)
     offset = get_total_seconds(epoch.tzinfo.utcoffset(epoch)) if epoch.tzinfo else 0
     return int((get_total_seconds(value - epoch) - offset) * 1000)
   timedelta.total_seconds() is total_microseconds / 10**6 (int true division, correctly rounded). *)
Definition datetime_to_db_legacy (wall : Z) (tz : option (Z -> Z)) : Z :=
  let ts := int_truediv wall 1000000 in
  let x := match tz with
           | None => ts
           | Some f => fsub ts (int_truediv (f 0) 1000000)
           end in
  ftrunc (fmul x (1000, 0)).

(* The core driver's DateType.serialize(datetime), bit-exact:
     timestamp_seconds = calendar.timegm(v.utctimetuple())                 -- floor of the instant in seconds
     timestamp = timestamp_seconds * 1e3 + getattr(v, 'microsecond', 0) / 1e3
     int64_pack(int(timestamp))
   Its intended value is the instant in ms truncated toward zero; the float sum meets it on whole milliseconds and,
   for any microsecond, within 2^44 ms of the epoch (see `valid`); beyond that it can be one millisecond off. *)
Definition core_datetime_ms_float (wall : Z) (tz : option (Z -> Z)) : Z :=
  let secs := (wall - tz_off tz wall) / 1000000 in
  let us := wall mod 1000000 in
  ftrunc (fadd (fmul (f_of_int secs) (1000, 0)) (fdiv (f_of_int us) (1000, 0))).

(* ------------------------------------------------------------------ to_database *)
(* Integer.validate / VarInt.validate: int(val) *)
Definition int_validate (v : pyval) : option pyval :=
  match v with
  | PNone => Some PNone
  | PInt z => Some (PInt z)
  | PBool b => Some (PInt (if b then 1 else 0))
  | _ => None
  end.

(* BaseFloat.validate: float(value) *)
Definition float_validate (v : pyval) : option pyval :=
  match v with
  | PNone => Some PNone
  | PFloat m e => Some (PFloat m e)
  | PFloatSpec k => Some (PFloatSpec k)
  | PInt z => let '(m, e) := f_of_int z in Some (PFloat m e)
  | PBool b => Some (PFloat (if b then 1 else 0) 0)
  | _ => None
  end.

(* Decimal.validate: _Decimal(val) for Decimal / int (float input: Decimal(repr(val)), not modelled) *)
Definition decimal_validate (v : pyval) : option pyval :=
  match v with
  | PNone => Some PNone
  | PDecimal n c e => Some (PDecimal n c e)
  | PInt z => Some (PDecimal (z <? 0) (Z.abs z) 0)
  | _ => None
  end.

Definition is_container (c : col) : bool :=
  match c with CList _ | CSet _ | CMap _ _ => true | _ => false end.

Fixpoint to_database (c : col) (v : pyval) {struct c} : option pyval :=
  match c with
  | CInteger | CTinyInt | CSmallInt | CBigInt | CVarInt | CCounter => int_validate v
  | CText | CAscii | CInet | CBoolean | CDuration => Some v          (* Column.to_database: identity *)
  | CBlob => match v with
             | PNone => Some PNone
             | PBytes bs | PByteArray bs => Some (PBytes bs)         (* bytes(val): hashable *)
             | _ => None                                             (* raise Exception("expecting a binary") *)
             end
  | CFloat | CDouble => float_validate v
  | CDecimal => decimal_validate v
  | CUUID | CTimeUUID => match v with PNone => Some PNone | PUuid z => Some (PUuid z) | _ => None end
  | CDate => match v with
             | PNone => Some PNone
             | PUtilDate d => Some (PInt (d + EPOCH_OFFSET_DAYS))
             | PInt d => Some (PInt (d + EPOCH_OFFSET_DAYS))          (* util.Date(int): days from epoch *)
             | PDate d => Some (PInt (d + EPOCH_OFFSET_DAYS))
             | PDatetime wall _ => Some (PInt (wall / US_DAY + EPOCH_OFFSET_DAYS))   (* timegm(timetuple()) // DAY *)
             | _ => None
             end
  | CTime => match v with
             | PNone => Some PNone
             | PUtilTime ns => Some (PUtilTime ns)
             | PInt ns => if (0 <=? ns) && (ns <? NS_DAY) then Some (PUtilTime ns) else None    (* util.Time(int): ValueError outside one day *)
             | PTimeOfDay us => Some (PUtilTime (us * 1000))
             | _ => None
             end
  | CDateTime => match v with
                 | PNone => Some PNone
                 | PDatetime wall tz => Some (PInt (datetime_to_db wall tz))
                 | PDate d => Some (PInt (datetime_to_db (d * US_DAY) None))
                 | _ => None                                         (* ValidationError *)
                 end
  | CList c1 => match v with
                | PNone => Some PNone
                | PList l | PTuple l | PSet l => option_map PList (mapM (to_database c1) l)
                | _ => None
                end
  | CSet c1 => match v with
               | PNone => Some PNone
               | PList l | PTuple l | PSet l => option_map PSet (mapM (to_database c1) l)
               | _ => None
               end
  | CMap k w => match v with
                | PNone => Some PNone
                | PDict l => option_map PDict
                    (mapM (fun kv => match to_database k (fst kv), to_database w (snd kv) with
                                     | Some a, Some b => Some (a, b) | _, _ => None end) l)
                | _ => None
                end
  | CTuple cs => match v with
                 | PNone => Some PNone
                 | PList l | PTuple l => option_map PTuple (zipM (map to_database cs) l)
                 | _ => None
                 end
  | CUDT fs => match v with
               | PNone => Some PNone
               | PUdt l =>
                   if Nat.eqb (length l) (length fs) then
                     option_map PUdt (zipM (map (fun f x => match x with
                                                            | PNone => if is_container f then to_database f x else Some PNone
                                                            | _ => to_database f x end) fs) l)
                   else None
               | _ => None
               end
  end.

(* ------------------------------------------------------------------ CQL value of a Python value under a CQL type *)
(* struct.pack('>f', x): a negative value that underflows keeps its sign: -0.0 *)
Definition float_value32 (m e : Z) : option value :=
  match round32 (m, e) with
  | Some (m', e') => if (m' =? 0) && (m <? 0) then Some (VFloatSpec 3) else Some (VFloat m' e')
  | None => None
  end.

(* rich = false: only the database-ready forms to_database produces (what the CQL literal means to the server);
   rich = true : every Python form cassandra.cqltypes.<Type>.serialize accepts (the prepared-statement path). *)
Definition scalar_value (rich : bool) (t : cqltype) (v : pyval) : option value :=
  match t, v with
  | TInt, PInt z => if in_i32 z then Some (VInt z) else None
  | TTinyInt, PInt z => if in_i8 z then Some (VInt z) else None
  | TSmallInt, PInt z => if in_i16 z then Some (VInt z) else None
  | TBigInt, PInt z | TCounter, PInt z => if in_i64 z then Some (VInt z) else None
  | TVarInt, PInt z => Some (VInt z)
  | TText, PStr s => if forallb is_scalar_cp s then Some (VText s) else None
  | TAscii, PStr s => if forallb is_ascii_cp s then Some (VText s) else None
  | TBlob, PBytes bs | TBlob, PByteArray bs => if forallb is_byte bs then Some (VBytes bs) else None
  | TBoolean, PBool b => Some (VBool b)
  | TFloat, PFloat m e => float_value32 m e
  | TFloat, PFloatSpec k | TDouble, PFloatSpec k => Some (VFloatSpec k)
  | TFloat, PInt z => if rich then let '(m, e) := f_of_int z in float_value32 m e else None
  | TDouble, PFloat m e => Some (VFloat m e)
  | TDouble, PInt z => if rich then let '(m, e) := f_of_int z in Some (VFloat m e) else None
  | TDecimal, PDecimal n c e => Some (VDecimal (if n then - c else c) (- e))
  | TDecimal, PInt z => if rich then Some (VDecimal z 0) else None
  | TUuid, PUuid z | TTimeUuid, PUuid z => if in_range 0 (2 ^ 128) z then Some (VUuid z) else None
  | TInet, PInet bs => if forallb is_byte bs && (Nat.eqb (length bs) 4 || Nat.eqb (length bs) 16)
                       then Some (VInet bs) else None
  (* date: an int is the raw offset value "as it would appear in CQL" *)
  | TDate, PInt z => if in_range 0 (2 ^ 32) z then Some (VDate (z - EPOCH_OFFSET_DAYS)) else None
  | TDate, PUtilDate d => if in_range 0 (2 ^ 32) (d + EPOCH_OFFSET_DAYS) then Some (VDate d) else None
  | TDate, PDate d => if rich && in_range 0 (2 ^ 32) (d + EPOCH_OFFSET_DAYS) then Some (VDate d) else None
  | TDate, PDatetime wall _ =>
      if rich && in_range 0 (2 ^ 32) (wall / US_DAY + EPOCH_OFFSET_DAYS) then Some (VDate (wall / US_DAY)) else None
  | TTime, PUtilTime ns => if in_i64 ns then Some (VTime ns) else None
  | TTime, PTimeOfDay us => if rich && in_i64 (us * 1000) then Some (VTime (us * 1000)) else None
  | TTime, PInt ns => if rich && (0 <=? ns) && (ns <? NS_DAY) && in_i64 ns then Some (VTime ns) else None
  | TTimestamp, PInt ms => if in_i64 ms then Some (VTimestamp ms) else None
  (* DateType.serialize(datetime): int(calendar.timegm(v.utctimetuple()) * 1e3 + microsecond / 1e3) -- intended
     semantics = the exact instant in milliseconds truncated toward zero; the float expression meets it on `valid` *)
  | TTimestamp, PDatetime wall tz =>
      let ms := Z.quot (wall - tz_off tz wall) 1000 in
      if rich && in_i64 ms then Some (VTimestamp ms) else None
  | TTimestamp, PDate d => if rich && in_i64 (d * 86400000) then Some (VTimestamp (d * 86400000)) else None
  | TDuration, PDuration mo d ns => Some (VDuration mo d ns)
  | _, _ => None
  end.

Definition opt_field (f : pyval -> option value) (v : pyval) : option value :=
  match v with PNone => Some VNull | _ => f v end.

Fixpoint cql_value (rich : bool) (t : cqltype) (v : pyval) {struct t} : option value :=
  match t with
  | TList t1 => match v with
                | PList l | PTuple l => option_map VList (mapM (cql_value rich t1) l)
                | _ => None
                end
  | TSet t1 => match v with
               | PSet l | PList l | PTuple l => option_map VSet (mapM (cql_value rich t1) l)
               | _ => None
               end
  | TMap k w => match v with
                | PDict l => option_map VMap
                    (mapM (fun kv => match cql_value rich k (fst kv), cql_value rich w (snd kv) with
                                     | Some a, Some b => Some (a, b) | _, _ => None end) l)
                | _ => None
                end
  | TTuple ts => match v with
                 | PTuple l | PList l =>
                     if (length l <=? length ts)%nat
                     then option_map VTuple (zipM (map (fun t' => opt_field (cql_value rich t')) ts) l)
                     else None
                 | _ => None
                 end
  | TUdt ts => match v with
               | PUdt l =>
                   if Nat.eqb (length l) (length ts)
                   then option_map VUdt (zipM (map (fun t' => opt_field (cql_value rich t')) ts) l)
                   else None
               | _ => None
               end
  | _ => scalar_value rich t v
  end.

Definition denote := cql_value false.
Definition prepared_value := cql_value true.

(* ------------------------------------------------------------------ the CQL literal cqlengine actually sends *)
(* cqlengine executes non-prepared statements: every to_database output is rendered by cassandra.encoder.Encoder
   (cql_encode_all_types, dispatch on the Python type; cqlengine's connection maps tuple to cql_encode_tuple, and a
   registered UserType class to '{ field : value , ... }') and the server reads the text as a literal of the column's
   type.  Literals are kept as tokens (the harness tokenises the real text); number/float/decimal/uuid/time texts
   stand for the value Python printed. *)
Inductive lit : Type :=
| LNull
| LInt (z : Z)                                  (* str(int); util.Date as its offset integer *)
| LFloat (m e : Z) | LFloatSpec (k : Z)         (* repr(float) / NaN / Infinity / -Infinity / -0.0 *)
| LStr (s : list Z)                             (* quoted text, quotes doubled *)
| LHex (bs : list Z)                            (* 0x... *)
| LBool (b : bool)                              (* str(bool): True / False *)
| LUuid (z : Z)
| LDecimal (neg : bool) (coeff exp : Z)         (* str(Decimal) *)
| LInet (bs : list Z)                           (* quoted address text whose packed form is bs *)
| LTime (ns : Z)                                (* quoted 'HH:MM:SS.nnnnnnnnn' *)
| LDuration (neg : bool) (mo d ns : Z)          (* util.Duration.__str__: [-]<|mo|>mo<|d|>d<|ns|>ns, one sign for all *)
| LList (l : list lit) | LSet (l : list lit) | LMap (l : list (lit * lit)) | LTuple (l : list lit) | LUdt (l : list lit).

Fixpoint encode_literal (v : pyval) : option lit :=
  match v with
  | PNone => Some LNull
  | PBool b => Some (LBool b)
  | PInt z => Some (LInt z)
  | PFloat m e => Some (LFloat m e)
  | PFloatSpec k => Some (LFloatSpec k)
  | PStr s => Some (LStr s)
  | PBytes bs | PByteArray bs => Some (LHex bs)
  | PDecimal n c e => Some (LDecimal n c e)
  | PUuid z => Some (LUuid z)
  | PInet bs => Some (LInet bs)
  | PUtilDate d => Some (LInt (d + EPOCH_OFFSET_DAYS))
  | PUtilTime ns => Some (LTime ns)
  | PDuration mo d ns => Some (LDuration ((mo <? 0) || (d <? 0) || (ns <? 0)) (Z.abs mo) (Z.abs d) (Z.abs ns))
  | PList l => option_map LList (mapM encode_literal l)
  | PTuple l => option_map LTuple (mapM encode_literal l)
  | PSet l => option_map LSet (mapM encode_literal l)
  | PDict l => option_map LMap (mapM (fun kv => match encode_literal (fst kv), encode_literal (snd kv) with
                                                | Some a, Some b => Some (a, b) | _, _ => None end) l)
  | PUdt l => option_map LUdt (mapM encode_literal l)
  | PDate _ | PDatetime _ _ | PTimeOfDay _ => None        (* never a to_database output *)
  end.

(* how the server reads a literal of a given type (CQL syntax reference; trusted) *)
Definition scalar_lit_value (t : cqltype) (l : lit) : option value :=
  match t, l with
  | TInt, LInt z => if in_i32 z then Some (VInt z) else None
  | TTinyInt, LInt z => if in_i8 z then Some (VInt z) else None
  | TSmallInt, LInt z => if in_i16 z then Some (VInt z) else None
  | TBigInt, LInt z | TCounter, LInt z => if in_i64 z then Some (VInt z) else None
  | TVarInt, LInt z => Some (VInt z)
  | TText, LStr s => if forallb is_scalar_cp s then Some (VText s) else None
  | TAscii, LStr s => if forallb is_ascii_cp s then Some (VText s) else None
  | TBlob, LHex bs => if forallb is_byte bs then Some (VBytes bs) else None
  | TBoolean, LBool b => Some (VBool b)
  | TFloat, LFloat m e => float_value32 m e
  | TFloat, LFloatSpec k | TDouble, LFloatSpec k => Some (VFloatSpec k)
  | TDouble, LFloat m e => Some (VFloat m e)
  | TDecimal, LDecimal n c e => Some (VDecimal (if n then - c else c) (- e))
  | TUuid, LUuid z | TTimeUuid, LUuid z => if in_range 0 (2 ^ 128) z then Some (VUuid z) else None
  | TInet, LInet bs => if forallb is_byte bs && (Nat.eqb (length bs) 4 || Nat.eqb (length bs) 16)
                       then Some (VInet bs) else None
  | TDate, LInt z => if in_range 0 (2 ^ 32) z then Some (VDate (z - EPOCH_OFFSET_DAYS)) else None
  | TTime, LTime ns => if in_i64 ns then Some (VTime ns) else None
  | TTimestamp, LInt ms => if in_i64 ms then Some (VTimestamp ms) else None
  | TDuration, LDuration neg mo d ns =>
      Some (VDuration (if neg then - mo else mo) (if neg then - d else d) (if neg then - ns else ns))
  | _, _ => None
  end.

Definition opt_lit (f : lit -> option value) (l : lit) : option value :=
  match l with LNull => Some VNull | _ => f l end.

Fixpoint lit_value (t : cqltype) (l : lit) {struct t} : option value :=
  match t with
  | TList t1 => match l with LList xs => option_map VList (mapM (lit_value t1) xs) | _ => None end
  | TSet t1 => match l with LSet xs => option_map VSet (mapM (lit_value t1) xs) | _ => None end
  | TMap k w => match l with
                | LMap xs => option_map VMap
                    (mapM (fun kv => match lit_value k (fst kv), lit_value w (snd kv) with
                                     | Some a, Some b => Some (a, b) | _, _ => None end) xs)
                | _ => None
                end
  | TTuple ts => match l with
                 | LTuple xs => if (length xs <=? length ts)%nat
                                then option_map VTuple (zipM (map (fun t' => opt_lit (lit_value t')) ts) xs)
                                else None
                 | _ => None
                 end
  | TUdt ts => match l with
               | LUdt xs => if Nat.eqb (length xs) (length ts)
                            then option_map VUdt (zipM (map (fun t' => opt_lit (lit_value t')) ts) xs)
                            else None
               | _ => None
               end
  | _ => scalar_lit_value t l
  end.

(* ------------------------------------------------------------------ sending the same object again *)
(* The argument object after a to_database call: every column builds new objects for its result (UserDefinedType
   converts the fields of deepcopy(value)), the argument is never written. *)
Definition arg_after (c : col) (v : pyval) : pyval := v.

Fixpoint send_history (c : col) (v : pyval) (n : nat) : list (option pyval) :=
  match n with O => [] | S n' => to_database c v :: send_history c (arg_after c v) n' end.

(* ------------------------------------------------------------------ valid values per column *)
(* a finite binary64: at most 53 significant bits, magnitude below 2^1024 (the mantissa may be given in lowest terms) *)
Definition valid_float64 (m e : Z) : bool :=
  (Z.abs m <? 2 ^ 53) && in_range (-1074) 1024 e && (Z.abs m * 2 ^ Z.max e 0 <? 2 ^ 1024).

Definition valid_scalar (c : col) (v : pyval) : bool :=
  match c, v with
  | CInteger, PInt z => in_i32 z
  | CTinyInt, PInt z => in_i8 z
  | CSmallInt, PInt z => in_i16 z
  | CBigInt, PInt z | CCounter, PInt z => in_i64 z
  | CVarInt, PInt z => true
  | CText, PStr s => forallb is_scalar_cp s
  | CAscii, PStr s => forallb is_ascii_cp s
  | CBlob, PBytes bs | CBlob, PByteArray bs => forallb is_byte bs
  | CBoolean, PBool _ => true
  | CFloat, PFloat m e => valid_float64 m e && match round32 (m, e) with Some _ => true | None => false end
  | CFloat, PInt z => let '(m, e) := f_of_int z in match round32 (m, e) with Some _ => true | None => false end
  | CFloat, PFloatSpec k | CDouble, PFloatSpec k => in_range 0 4 k
  | CDouble, PFloat m e => valid_float64 m e
  | CDouble, PInt z => Z.abs z <? 2 ^ 1023
  | CDecimal, PDecimal _ c _ => 0 <=? c
  | CDecimal, PInt _ => true
  | CUUID, PUuid z | CTimeUUID, PUuid z => in_range 0 (2 ^ 128) z
  | CInet, PInet bs => forallb is_byte bs && (Nat.eqb (length bs) 4 || Nat.eqb (length bs) 16)
  | CDate, PDate d | CDate, PUtilDate d => in_range 0 (2 ^ 32) (d + EPOCH_OFFSET_DAYS)
  | CDate, PDatetime wall _ => in_range 0 (2 ^ 32) (wall / US_DAY + EPOCH_OFFSET_DAYS)
  | CTime, PUtilTime ns => in_i64 ns
  | CTime, PTimeOfDay us => in_i64 (us * 1000)
  (* any datetime whose instant is a whole millisecond, and any datetime at all (sub-millisecond digits included, which
     both paths drop toward zero) within 2^44 ms of the epoch (years ~1413..2527), where the core driver's float expression
     calendar.timegm(..) * 1e3 + microsecond / 1e3 is exact enough for int() to truncate the true value *)
  | CDateTime, PDatetime wall tz =>
      (((wall - tz_off tz wall) mod 1000 =? 0) || (Z.abs (Z.quot (wall - tz_off tz wall) 1000) <? 2 ^ 44)) &&
      in_i64 (Z.quot (wall - tz_off tz wall) 1000)
  | CDateTime, PDate d => in_i64 (d * 86400000)
  (* Cassandra rejects durations whose components differ in sign; the CQL literal has ONE leading sign for all of them *)
  | CDuration, PDuration mo d ns => ((0 <=? mo) && (0 <=? d) && (0 <=? ns)) || ((mo <=? 0) && (d <=? 0) && (ns <=? 0))
  | _, _ => false
  end.

Definition is_none (v : pyval) : bool := match v with PNone => true | _ => false end.

(* zip-shaped forallb: fs and l in lock step, l no longer than fs *)
Definition forall2b {A B : Type} (p : A -> B -> bool) : list A -> list B -> bool :=
  fix go (la : list A) (lb : list B) {struct la} : bool :=
  match la with
  | [] => match lb with [] => true | _ :: _ => false end
  | a :: la' => match lb with [] => true | b :: lb' => p a b && go la' lb' end
  end.

Fixpoint valid (c : col) (v : pyval) {struct c} : bool :=
  match c with
  | CList c1 => match v with PList l | PTuple l => forallb (valid c1) l | _ => false end
  | CSet c1 => match v with PSet l => forallb (valid c1) l | _ => false end
  | CMap k w => match v with
                | PDict l => forallb (fun kv => valid k (fst kv) && valid w (snd kv)) l
                | _ => false
                end
  | CTuple cs => match v with
                 | PTuple l | PList l =>
                     forall2b (fun c' x => if is_none x then true else valid c' x) cs l
                 | _ => false
                 end
  | CUDT fs => match v with
               | PUdt l => Nat.eqb (length l) (length fs) &&
                           forall2b (fun c' x => if is_none x then true else valid c' x) fs l
               | _ => false
               end
  | _ => valid_scalar c v
  end.

(* the property at one input, executable (the theorem: valid c v = true -> same_value c v = true) *)
Definition value_is (a b : option value) : Prop := match a, b with Some x, Some y => x = y | _, _ => False end.

(* ------------------------------------------------------------------ comparators for the correspondence harness *)
Fixpoint zlist_eqb (a b : list Z) : bool :=
  match a, b with
  | [], [] => true
  | x :: a', y :: b' => (x =? y) && zlist_eqb a' b'
  | _, _ => false
  end.

Definition list_eqb {A : Type} (eqb : A -> A -> bool) : list A -> list A -> bool :=
  fix go (a b : list A) {struct a} : bool :=
  match a, b with
  | [], [] => true
  | x :: a', y :: b' => eqb x y && go a' b'
  | _, _ => false
  end.

Definition subsetb {A : Type} (eqb : A -> A -> bool) (a b : list A) : bool :=
  forallb (fun x => existsb (fun y => eqb x y) b) a.

(* VSet / VMap compare as sets; floats by value *)
Fixpoint value_eqb (a b : value) {struct a} : bool :=
  match a, b with
  | VNull, VNull => true
  | VInt x, VInt y => x =? y
  | VText x, VText y | VBytes x, VBytes y | VInet x, VInet y => zlist_eqb x y
  | VBool x, VBool y => Bool.eqb x y
  | VFloat m e, VFloat m' e' => dy_eqb (m, e) (m', e')
  | VFloatSpec x, VFloatSpec y => x =? y
  | VDecimal u s, VDecimal u' s' => (u =? u') && (s =? s')
  | VUuid x, VUuid y | VDate x, VDate y | VTime x, VTime y | VTimestamp x, VTimestamp y => x =? y
  | VDuration a1 a2 a3, VDuration b1 b2 b3 => (a1 =? b1) && (a2 =? b2) && (a3 =? b3)
  | VList x, VList y | VTuple x, VTuple y | VUdt x, VUdt y => list_eqb (fun u w => value_eqb u w) x y
  | VSet x, VSet y =>
      forallb (fun u => existsb (fun w => value_eqb u w) y) x &&
      forallb (fun w => existsb (fun u => value_eqb u w) x) y
  | VMap x, VMap y =>
      forallb (fun u => existsb (fun w => value_eqb (fst u) (fst w) && value_eqb (snd u) (snd w)) y) x &&
      forallb (fun w => existsb (fun u => value_eqb (fst u) (fst w) && value_eqb (snd u) (snd w)) x) y
  | _, _ => false
  end.

Definition opt_eqb {A : Type} (eqb : A -> A -> bool) (a b : option A) : bool :=
  match a, b with
  | Some x, Some y => eqb x y
  | None, None => true
  | _, _ => false
  end.

Fixpoint pyval_eqb (a b : pyval) {struct a} : bool :=
  match a, b with
  | PNone, PNone => true
  | PBool x, PBool y => Bool.eqb x y
  | PInt x, PInt y | PFloatSpec x, PFloatSpec y | PUuid x, PUuid y | PDate x, PDate y
  | PTimeOfDay x, PTimeOfDay y | PUtilDate x, PUtilDate y | PUtilTime x, PUtilTime y => x =? y
  | PFloat m e, PFloat m' e' => dy_eqb (m, e) (m', e')
  | PDatetime w t, PDatetime w' t' =>        (* same wall clock, same offset at that wall clock *)
      (w =? w') && opt_eqb Z.eqb (option_map (fun f => f w) t) (option_map (fun f => f w') t')
  | PStr x, PStr y | PBytes x, PBytes y | PByteArray x, PByteArray y | PInet x, PInet y => zlist_eqb x y
  | PDecimal n c e, PDecimal n' c' e' => Bool.eqb n n' && (c =? c') && (e =? e')
  | PDuration a1 a2 a3, PDuration b1 b2 b3 => (a1 =? b1) && (a2 =? b2) && (a3 =? b3)
  | PList x, PList y | PTuple x, PTuple y | PUdt x, PUdt y => list_eqb (fun u w => pyval_eqb u w) x y
  | PSet x, PSet y =>
      forallb (fun u => existsb (fun w => pyval_eqb u w) y) x &&
      forallb (fun w => existsb (fun u => pyval_eqb u w) x) y
  | PDict x, PDict y =>
      forallb (fun u => existsb (fun w => pyval_eqb (fst u) (fst w) && pyval_eqb (snd u) (snd w)) y) x &&
      forallb (fun w => existsb (fun u => pyval_eqb (fst u) (fst w) && pyval_eqb (snd u) (snd w)) x) y
  | _, _ => false
  end.

Fixpoint lit_eqb (a b : lit) {struct a} : bool :=
  match a, b with
  | LNull, LNull => true
  | LInt x, LInt y | LFloatSpec x, LFloatSpec y | LUuid x, LUuid y | LTime x, LTime y => x =? y
  | LFloat m e, LFloat m' e' => dy_eqb (m, e) (m', e')
  | LStr x, LStr y | LHex x, LHex y | LInet x, LInet y => zlist_eqb x y
  | LBool x, LBool y => Bool.eqb x y
  | LDecimal n c e, LDecimal n' c' e' => Bool.eqb n n' && (c =? c') && (e =? e')
  | LDuration n a1 a2 a3, LDuration n' b1 b2 b3 => Bool.eqb n n' && (a1 =? b1) && (a2 =? b2) && (a3 =? b3)
  | LList x, LList y | LSet x, LSet y | LTuple x, LTuple y | LUdt x, LUdt y => list_eqb (fun u w => lit_eqb u w) x y
  | LMap x, LMap y => list_eqb (fun u w => lit_eqb (fst u) (fst w) && lit_eqb (snd u) (snd w)) x y
  | _, _ => false
  end.

(* executable twin of the property at one input (set-aware comparison) *)
Definition same_value (c : col) (v : pyval) : bool :=
  match to_database c v with
  | Some x => match denote (cql_type c) x, prepared_value (cql_type c) v with
              | Some a, Some b => value_eqb a b
              | _, _ => false
              end
  | None => false
  end.

(* harness zones (the same rules are implemented by the harness' tzinfo subclasses) *)
Definition zone_dst (wall : Z) : Z :=          (* +01:00, +02:00 on days 80..299 of each 365-day cycle *)
  let day := wall / US_DAY in
  if in_range 80 300 (day mod 365) then 7200000000 else 3600000000.
Definition zone_west (wall : Z) : Z :=         (* -05:00, -04:00 on days 60..309 of each 365-day cycle *)
  let day := wall / US_DAY in
  if in_range 60 310 (day mod 365) then -14400000000 else -18000000000.
Definition zone_fixed (wall : Z) : Z := 19800000000.   (* +05:30 *)
