(* C03 -- driver-shaped model of request encoding: the *Message.send_body methods and
   _ProtocolHandler.encode_message / _write_header of cassandra/protocol.py.
   One Gallina function per Python method, statement order preserved; None = the Python code raised.
   ProtocolVersion predicates (Gen/ReqPV.v) and flag/opcode constants (Gen/ReqConsts.v) are REGENERATED from source.
   No proofs here. *)
From Coq Require Import ZArith List Bool.
From Verif Require Import PyBase ReqPV ReqConsts ReqWire.
Import ListNotations.
Local Open Scope Z_scope.

Record cpopts := { cp_unit_bytes : bool; cp_max_pages : Z; cp_pps : Z; cp_queue : Z }.

(* attributes of _QueryMessage *)
Record qmsg := {
  q_params : option (list value);      (* query_params (None for QueryMessage) *)
  q_cl : Z;
  q_serial : option Z;
  q_fetch : option Z;
  q_paging_state : option bytes;
  q_timestamp : option Z;
  q_skip_meta : bool;
  q_cpo : option cpopts;
  q_keyspace : option bytes }.

Inductive bquery := BQ (prepared : bool) (string_or_id : bytes) (params : list value).

Inductive request :=
| Startup (cqlversion : bytes) (options : list (bytes * bytes))
| Options
| AuthResponse (response : bytes)
| Credentials (creds : list (bytes * bytes))
| Query (query : bytes) (m : qmsg)
| Prepare (query : bytes) (keyspace : option bytes)
| Execute (query_id : bytes) (result_metadata_id : option bytes) (m : qmsg)
| Batch (batch_type : Z) (queries : list bquery) (cl : Z) (serial : option Z) (timestamp : option Z) (keyspace : option bytes)
| Register (event_list : list bytes)
| Revise (op_type op_id next_pages : Z).

(* what encode_message reads from the message object / its arguments besides the body fields *)
Record envelope := { e_tracing : bool; e_payload : list (bytes * option bytes); e_beta : bool; e_stream : Z }.

Definition opcode (r : request) : Z :=
  match r with
  | Startup _ _ => op_STARTUP | Options => op_OPTIONS | AuthResponse _ => op_AUTH_RESPONSE
  | Credentials _ => op_CREDENTIALS | Query _ _ => op_QUERY | Prepare _ _ => op_PREPARE
  | Execute _ _ _ => op_EXECUTE | Batch _ _ _ _ _ _ => op_BATCH | Register _ => op_REGISTER
  | Revise _ _ _ => op_REVISE_REQUEST
  end.

Definition CQL_VERSION : bytes := [67; 81; 76; 95; 86; 69; 82; 83; 73; 79; 78].

(* optmap = self.options.copy(); optmap['CQL_VERSION'] = self.cqlversion   (dict: insertion order, keys unique) *)
Fixpoint upsert (k v : bytes) (l : list (bytes * bytes)) : list (bytes * bytes) :=
  match l with
  | [] => [(k, v)]
  | (k', v') :: t => if bytes_eqb k k' then (k', v) :: t else (k', v') :: upsert k v t
  end.

Definition write_values (l : list value) : W := write_short (len l) +++ write_seq write_value l.

(* _QueryMessage._write_paging_options *)
Definition write_paging_options (pv : Z) (o : cpopts) : W :=
  write_int (cp_max_pages o) +++ write_int (cp_pps o) +++
  (if pv_has_continuous_paging_next_pages pv then write_int (cp_queue o) else wnil).

Definition query_flags (vals serial fetch pstate ts cpo cpo_bytes ks : bool) : Z :=
  Z.lor (Z.lor (Z.lor (Z.lor (Z.lor (Z.lor (Z.lor (flag_if vals c_VALUES_FLAG) (flag_if serial c_WITH_SERIAL_CONSISTENCY_FLAG))
    (flag_if fetch c_PAGE_SIZE_FLAG)) (flag_if pstate c_WITH_PAGING_STATE_FLAG)) (flag_if ts c_PROTOCOL_TIMESTAMP_FLAG))
    (flag_if cpo c_PAGING_OPTIONS_FLAG)) (flag_if cpo_bytes c_PAGE_SIZE_BYTES_FLAG)) (flag_if ks c_WITH_KEYSPACE_FLAG).

(* continuous_paging_options.page_unit_bytes() of the options object, when there is one *)
Definition cpo_unit_bytes (o : option cpopts) : bool := match o with Some c => cp_unit_bytes c | None => false end.

(* _QueryMessage._write_query_params *)
Definition write_query_params (pv : Z) (m : qmsg) : W :=
  let serial := truthy_z (q_serial m) in
  let fetch := truthy_z (q_fetch m) in
  let pstate := truthy_b (q_paging_state m) in
  if is_some serial && negb (pv >=? 2) then None else
  if is_some fetch && negb (pv >=? 2) then None else
  if is_some pstate && negb (pv >=? 2) then None else
  if is_some (q_cpo m) && negb (pv_has_continuous_paging_support pv) then None else
  if is_some (q_keyspace m) && negb (pv_uses_keyspace_flag pv) then None else
  let flags := query_flags (is_some (q_params m)) (is_some serial) (is_some fetch) (is_some pstate)
                           (is_some (q_timestamp m)) (is_some (q_cpo m)) (cpo_unit_bytes (q_cpo m)) (is_some (q_keyspace m)) in
  write_consistency_level (q_cl m) +++
  (if pv_uses_int_query_flags pv then write_uint flags
   else if pv >=? 2 then write_byte flags
   else if flags =? 0 then wnil else None) +++       (* v1 QUERY has no flags byte *)
  w_opt (q_params m) write_values +++
  w_opt fetch write_int +++
  w_opt pstate write_longstring +++
  w_opt serial write_consistency_level +++
  w_opt (q_timestamp m) write_long +++
  w_opt (q_keyspace m) write_string +++
  w_opt (q_cpo m) (write_paging_options pv).

(* ExecuteMessage._write_query_params *)
Definition execute_write_query_params (pv : Z) (m : qmsg) : W :=
  if pv =? 1 then
    if is_some (truthy_z (q_serial m)) then None else
    if is_some (truthy_z (q_fetch m)) || is_some (truthy_b (q_paging_state m)) then None else
    if is_some (q_cpo m) then None else
    match q_params m with
    | None => None                                  (* len(None): TypeError *)
    | Some ps => write_values ps +++ write_consistency_level (q_cl m)
    end
  else write_query_params pv m.

(* write_string(f, None) -> TypeError *)
Definition write_string_req (o : option bytes) : W := match o with Some s => write_string s | None => None end.

Definition write_bquery (q : bquery) : W :=
  match q with
  | BQ false s ps => write_byte 0 +++ write_longstring s +++ write_values ps
  | BQ true id ps => write_byte 1 +++ write_short (len id) +++ raw id +++ write_values ps
  end.

Definition batch_flags (serial ts ks : bool) : Z :=
  Z.lor (Z.lor (flag_if serial c_WITH_SERIAL_CONSISTENCY_FLAG) (flag_if ts c_PROTOCOL_TIMESTAMP_FLAG))
        (flag_if ks c_WITH_KEYSPACE_FLAG).

Definition send_body (pv : Z) (r : request) : W :=
  match r with
  | Startup cqlv opts => write_stringmap (upsert CQL_VERSION cqlv opts)
  | Options => wnil
  | AuthResponse resp => write_longstring resp
  | Credentials creds =>
      if pv >? 1 then None
      else write_short (len creds) +++ write_seq (fun kv => write_string (fst kv) +++ write_string (snd kv)) creds
  | Query q m => write_longstring q +++ write_query_params pv m
  | Execute id rmid m =>
      write_string id +++
      (if pv_uses_prepared_metadata pv then write_string_req rmid else wnil) +++
      execute_write_query_params pv m
  | Prepare q ks =>
      if is_some ks && negb (pv_uses_keyspace_flag pv) then None else
      let flags := flag_if (is_some ks) c_PREPARED_WITH_KEYSPACE_FLAG in
      write_longstring q +++
      (if pv_uses_prepare_flags pv then write_uint flags else if flags =? 0 then wnil else None) +++
      (if pv_uses_keyspace_flag pv then w_opt ks write_string else wnil)
  | Batch ty qs cl serial ts ks =>
      write_byte ty +++ write_short (len qs) +++ write_seq write_bquery qs +++
      write_consistency_level cl +++
      (if pv >=? 3 then
         let serial' := truthy_z serial in
         if is_some ks && negb (pv_uses_keyspace_flag pv) then None else
         let flags := batch_flags (is_some serial') (is_some ts) (is_some ks) in
         (if pv_uses_int_query_flags pv then write_int flags else write_byte flags) +++
         w_opt serial' write_consistency_level +++
         w_opt ts write_long +++
         (if pv_uses_keyspace_flag pv then w_opt ks write_string else wnil)
       else if is_some (truthy_z serial) || is_some ts || is_some ks then None     (* v2 BATCH has no flags byte *)
       else wnil)
  | Register evs => write_stringlist evs
  | Revise op id next =>
      write_int op +++ write_int id +++
      (if op =? 2 (* RevisionType.PAGING_BACKPRESSURE *) then
         if next <=? 0 then None
         else if negb (pv_has_continuous_paging_next_pages pv) then None
         else write_int next
       else wnil)
  end.

(* _ProtocolHandler._write_header *)
Definition write_header (pv flags stream op length : Z) : W :=
  (if pv >=? 3
   then write_byte pv +++ write_byte flags +++ pack_s 2 stream +++ write_byte op     (* '>BBhB' *)
   else write_byte pv +++ write_byte flags +++ pack_s 1 stream +++ write_byte op)    (* '>BBbB' *)
  +++ write_int length.

(* _ProtocolHandler.encode_message(msg, stream_id, protocol_version, compressor, allow_beta_protocol_version) *)
Definition encode_message (pv : Z) (compressor : option (bytes -> bytes)) (e : envelope) (r : request) : W :=
  let has_payload := negb (is_nil (e_payload e)) in
  if has_payload && (pv <? 4) then None else
  match (if has_payload then write_bytesmap (e_payload e) else wnil) +++ send_body pv r with
  | None => None
  | Some body =>
      let compress := negb (pv_has_checksumming_support pv) && is_some compressor && negb (is_nil body) in
      let body' := match compressor with Some c => if compress then c body else body | None => body end in
      let flags := Z.lor (Z.lor (Z.lor (flag_if has_payload c_CUSTOM_PAYLOAD_FLAG) (flag_if compress c_COMPRESSED_FLAG))
                                (flag_if (e_tracing e) c_TRACING_FLAG)) (flag_if (e_beta e) c_USE_BETA_FLAG) in
      write_header pv flags (e_stream e) (opcode r) (len body') +++ raw body'
  end.
