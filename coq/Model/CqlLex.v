(* CQL3 lexical model shared by C27 and C29.  Strings are lists of Unicode code points (Z).
   Part 1: an independent lexer for identifiers / string literals / integers (transcribed from Cassandra's Lexer.g:
           IDENT = LETTER (LETTER|DIGIT|'_')*, folded to lower case; QUOTED_NAME = 'dq' (~'dq' | 'dqdq')* 'dq';
           STRING_LITERAL = '\'' (~'\'' | '\'\'')* '\''; INTEGER = '-'? DIGIT+).
           Reading fixed for the empty name: Lexer.g writes QUOTED_NAME with `+`; this lexer accepts `dqdq` as the empty
           name (permissive toward the driver, see docs/C27.md).
   Part 2: the driver's functions (cassandra/metadata.py, cassandra/encoder.py, cassandra/connection.py), mirrored.
   No proofs in this file. *)
From Coq Require Import String Ascii.
From Coq Require Import ZArith List Bool.
From Verif Require Import CqlKeywords.
Import ListNotations.
Local Open Scope Z_scope.

Definition str := list Z.

(* ---------- character classes ---------- *)
Definition DQ : Z := 34.   (* dq *)
Definition SQ : Z := 39.   (* ' *)
Definition NL : Z := 10.
Definition is_upper (c : Z) : bool := (65 <=? c) && (c <=? 90).
Definition is_lower (c : Z) : bool := (97 <=? c) && (c <=? 122).
Definition is_digit (c : Z) : bool := (48 <=? c) && (c <=? 57).
Definition is_letter (c : Z) : bool := is_upper c || is_lower c.
Definition is_ident_char (c : Z) : bool := is_letter c || is_digit c || (c =? 95).
Definition to_lower (c : Z) : Z := if is_upper c then c + 32 else c.
Definition is_space (c : Z) : bool := (c =? 32) || (c =? 9) || (c =? 10) || (c =? 13).

Fixpoint str_eqb (a b : str) : bool :=
  match a, b with
  | [], [] => true
  | x :: a', y :: b' => (x =? y) && str_eqb a' b'
  | _, _ => false
  end.

Definition codes (s : string) : str := map (fun a => Z.of_N (N_of_ascii a)) (list_ascii_of_string s).

Definition mem_str (w : str) (l : list str) : bool := existsb (str_eqb w) l.

(* the reserved words: REGENERATED from cassandra/metadata.py (Gen/CqlKeywords.v) *)
Definition driver_reserved_words : list str := Eval vm_compute in map codes cql_keywords_reserved.
Definition driver_reserved (w : str) : bool := mem_str w driver_reserved_words.
(* independent transcription: words reserved in every Cassandra release.  The lexer reserves them whatever the driver
   table says, so a word dropped from the driver table is still not an identifier when left bare. *)
Definition core_reserved_words : list str := Eval vm_compute in map codes
  ["add"; "allow"; "alter"; "and"; "apply"; "asc"; "authorize"; "batch"; "begin"; "by"; "columnfamily"; "create"; "delete"; "desc"; "describe"; "drop"; "entries"; "execute"; "from"; "full"; "grant"; "if"; "in"; "index"; "infinity"; "insert"; "into"; "is"; "keyspace"; "limit"; "materialized"; "modify"; "nan"; "norecursive"; "not"; "null"; "of"; "on"; "or"; "order"; "primary"; "rename"; "replace"; "revoke"; "schema"; "select"; "set"; "table"; "to"; "token"; "truncate"; "unlogged"; "update"; "use"; "using"; "view"; "where"; "with"]%string.
(* what the CQL lexer treats as a keyword: the driver table (DESIGN 4.0) and the core list *)
Definition reserved (w : str) : bool := driver_reserved w || mem_str w core_reserved_words.

(* longest prefix satisfying p *)
Fixpoint span (p : Z -> bool) (s : str) : str * str :=
  match s with
  | c :: s' => if p c then let (a, b) := span p s' in (c :: a, b) else ([], s)
  | [] => ([], [])
  end.

(* ---------- Part 1: the lexer ---------- *)
(* body of a quoted token, after the opening quote q: q q stands for q, a single q ends the token *)
Fixpoint lex_quoted_body (q : Z) (s : str) : option (str * str) :=
  match s with
  | [] => None
  | c :: s' =>
      if c =? q then
        match s' with
        | c2 :: s'' =>
            if c2 =? q
            then match lex_quoted_body q s'' with Some (v, r) => Some (q :: v, r) | None => None end
            else Some ([], s')
        | [] => Some ([], [])
        end
      else match lex_quoted_body q s' with Some (v, r) => Some (c :: v, r) | None => None end
  end.

(* one identifier at the head of s: (name as Cassandra reads it, remaining input).
   A bare word that is a reserved keyword is a keyword token, not an identifier. *)
Definition lex_ident (s : str) : option (str * str) :=
  match s with
  | [] => None
  | c :: s' =>
      if c =? DQ then lex_quoted_body DQ s'
      else if is_letter c then
        let (w, r) := span is_ident_char s in
        let lw := map to_lower w in
        if reserved lw then None else Some (lw, r)
      else None
  end.

Definition lex_string (s : str) : option (str * str) :=
  match s with
  | c :: s' => if c =? SQ then lex_quoted_body SQ s' else None
  | [] => None
  end.

(* decimal digits, big-endian *)
Definition digits_value (ds : str) : Z := fold_left (fun a c => a * 10 + (c - 48)) ds 0.

(* INTEGER = '-'? DIGIT+ *)
Definition lex_integer (s : str) : option (Z * str) :=
  match s with
  | c :: s' =>
      if c =? 45 then
        let (ds, r) := span is_digit s' in
        match ds with [] => None | _ => Some (- digits_value ds, r) end
      else
        let (ds, r) := span is_digit s in
        match ds with [] => None | _ => Some (digits_value ds, r) end
  | [] => None
  end.

(* a bare word read case-insensitively *)
Definition lex_word (s : str) : str * str :=
  let (w, r) := span is_ident_char s in (map to_lower w, r).

Definition skip_spaces (s : str) : str := snd (span is_space s).

(* `USE <identifier>` : the keyspace name Cassandra switches to *)
Definition lex_use (s : str) : option str :=
  let (w, r) := lex_word s in
  if str_eqb w (codes "use") then
    match r with
    | c :: _ => if is_space c then
                  match lex_ident (skip_spaces r) with
                  | Some (n, []) => Some n
                  | _ => None
                  end
                else None
    | [] => None
    end
  else None.

(* whole-statement tokenizer (schema export): identifiers (bare, folded; quoted), keywords (reserved bare words), string
   literals, unsigned integers, every other non-blank character as punctuation.  One unit of fuel per token or blank. *)
Inductive tok := TId (n : str) | TKw (w : str) | TStrLit (s : str) | TNum (z : Z) | TP (c : Z).

Definition pre (t : tok) (o : option (list tok)) : option (list tok) :=
  match o with Some l => Some (t :: l) | None => None end.

Fixpoint tokenize (fuel : nat) (s : str) : option (list tok) :=
  match fuel with
  | O => None
  | S f =>
    match s with
    | [] => Some []
    | c :: s' =>
      if is_space c then tokenize f s'
      else if c =? SQ then match lex_quoted_body SQ s' with Some (v, r) => pre (TStrLit v) (tokenize f r) | None => None end
      else if c =? DQ then match lex_quoted_body DQ s' with Some (v, r) => pre (TId v) (tokenize f r) | None => None end
      else if is_letter c then
        let (w, r) := span is_ident_char s in
        let lw := map to_lower w in
        pre (if reserved lw then TKw lw else TId lw) (tokenize f r)
      else if is_digit c then
        let (d, r) := span is_digit s in pre (TNum (digits_value d)) (tokenize f r)
      else pre (TP c) (tokenize f s')
    end
  end.

Definition tokenize_all (s : str) : option (list tok) := tokenize (S (length s)) s.

(* ---------- Part 2: the driver ---------- *)
(* str.replace(q, q q) *)
Definition double_q (q : Z) (s : str) : str := flat_map (fun c => if c =? q then [q; q] else [c]) s.

(* metadata.escape_name:  'dq%sdq' % (name.replace('dq', 'dqdq'),) *)
Definition escape_name (n : str) : str := DQ :: double_q DQ n ++ [DQ].

(* encoder.cql_quote on a str:  dq'%s'dq % str(term).replace(dq'dq, dq''dq) *)
Definition cql_quote (s : str) : str := SQ :: double_q SQ s ++ [SQ].

(* the regular expression valid_cql3_word_re, as regenerated from source:
   ^ [first] [rest]* END   where END is `$` (end, or just before a final newline) or `\Z`/fullmatch (end only) *)
Definition in_ranges (rs : list (Z * Z)) (c : Z) : bool := existsb (fun r => (fst r <=? c) && (c <=? snd r)) rs.

Definition re_end_ok (dollar : bool) (r : str) : bool :=
  match r with
  | [] => true
  | [c] => dollar && (c =? NL)
  | _ => false
  end.

Definition word_re_match_d (dollar : bool) (n : str) : bool :=
  match n with
  | c :: n' => in_ranges word_re_first c && re_end_ok dollar (snd (span (in_ranges word_re_rest) n'))
  | [] => false
  end.

(* str.lower(): exact on ASCII; identity elsewhere.  Python lowers some non-ASCII letters to ASCII (KELVIN SIGN),
   which can only turn is_valid_name from dqregex says nodq into dqreserved says nodq: same result (docs/C27.md). *)
Definition py_lower (s : str) : str := map to_lower s.

(* metadata.is_valid_name (name is not None) *)
Definition is_valid_name_d (dollar : bool) (n : str) : bool :=
  if driver_reserved (py_lower n) then false else word_re_match_d dollar n.

Definition maybe_escape_name_d (dollar : bool) (n : str) : str := if is_valid_name_d dollar n then n else escape_name n.

(* the functions as they are in the working tree (word_re_dollar is regenerated from the regex source) *)
Definition is_valid_name := is_valid_name_d word_re_dollar.
Definition maybe_escape_name := maybe_escape_name_d word_re_dollar.
Definition protect_name := maybe_escape_name.
Definition protect_names (ns : list str) : list str := map protect_name ns.

(* ', '.join(protect_names(names)) and the producers of cassandra/metadata.py built from it *)
Definition join (sep : str) (l : list str) : str :=
  match l with [] => [] | x :: l' => x ++ flat_map (fun y => sep ++ y) l' end.
Definition names_joined (ns : list str) : str := join [44; 32] (map protect_name ns).

(* TableMetadataDSE68._export_edge_as_cql(label_name, partition_keys, clustering_columns, keyword):
     " KW label(" + (pk | "(" pk, pk ")") + [", " cc, cc] + ")"  -- every name through protect_name *)
Definition export_edge (keyword label : str) (pks ccs : list str) : str :=
  32 :: keyword ++ 32 :: protect_name label ++ 40 ::
  (match pks with [k] => protect_name k | _ => 40 :: names_joined pks ++ [41] end) ++
  (match ccs with [] => [] | _ => 44 :: 32 :: names_joined ccs end) ++ [41].

(* a dict of str -> str through the Encoder (IndexMetadata.as_cql_query, WITH OPTIONS = ...): {'k': 'v', ...} with cql_quote *)
Definition string_map (kvs : list (str * str)) : str :=
  123 :: join [44; 32] (map (fun kv => cql_quote (fst kv) ++ 58 :: 32 :: cql_quote (snd kv)) kvs) ++ [125].

(* decimal printing of Python ints *)
Fixpoint le_digits (fuel : nat) (n : Z) : list Z :=
  match fuel with
  | O => []
  | S f => (n mod 10) :: (if n <? 10 then [] else le_digits f (n / 10))
  end.
Definition str_nat (n : Z) : str := map (fun d => 48 + d) (rev (le_digits (S (Z.to_nat (Z.log2 n))) n)).
Definition str_int (z : Z) : str := if z <? 0 then 45 :: str_nat (- z) else str_nat z.

(* metadata.protect_value; float omitted (str(float).lower() is Python's printing) *)
Inductive pvalue := PVNone | PVBool (b : bool) | PVInt (z : Z) | PVStr (s : str).

Definition protect_value (v : pvalue) : str :=
  match v with
  | PVNone => codes "NULL"
  | PVBool b => if b then codes "true" else codes "false"
  | PVInt z => str_int z
  | PVStr s => SQ :: double_q SQ s ++ [SQ]
  end.

(* connection.set_keyspace_blocking / set_keyspace_async: the USE statement text.
   use_escapes is regenerated from the source: does the argument of `USE dq%sdq` double embedded quotes? *)
Definition use_keyspace_e (esc : bool) (ks : str) : str :=
  codes "USE " ++ (if esc then escape_name ks else DQ :: ks ++ [DQ]).
Definition use_keyspace := use_keyspace_e use_escapes.
