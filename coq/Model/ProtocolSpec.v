(* C03 -- INDEPENDENT parser of request frames, written from the native protocol specifications
   (native_protocol_v1 .. v5.spec; v6 = v5 layout; DSE_V1 = 0x41, DSE_V2 = 0x42 private extensions),
   not from the driver.  It shares nothing with Model/Request.v except the byte type: its own readers,
   its own literal constants, its own result types.  Part of the trusted base (DESIGN 2.5); kept short.

   Frame:   v1/v2  <version:1><flags:1><stream:1 signed><opcode:1><length:4>  body
            v3+    <version:1><flags:1><stream:2 signed><opcode:1><length:4>  body
   Header flags: 0x01 compressed body, 0x02 tracing, 0x04 custom payload (v4+; body starts with a [bytes map]),
            0x10 use-beta (v5+).  "The rest of the flags is currently unused and ignored."
   Notations: [short] u16, [int] i32, [long] i64, [string] = [short] n + n bytes, [long string] = [int] n + n bytes,
            [bytes] = [int] n + n bytes, n < 0 -> null, [short bytes] = [short] n + n bytes,
            [value] (v4+) = [int] n: n >= 0 bytes, -1 null, -2 not set, n < -2 invalid,
            [string list], [string map], [bytes map] = [short] n + n entries.
   No proofs here. *)
From Coq Require Import ZArith List Bool.
Import ListNotations.
Local Open Scope Z_scope.

Definition parser (A : Type) := list Z -> option (A * list Z).
Definition ret {A} (a : A) : parser A := fun bs => Some (a, bs).
Definition fail {A} : parser A := fun _ => None.
Definition bind {A B} (p : parser A) (f : A -> parser B) : parser B :=
  fun bs => match p bs with Some (a, r) => f a r | None => None end.
Notation "x <- p ;; q" := (bind p (fun x => q)) (at level 61, p at next level, right associativity).

Fixpoint take (n : nat) (bs : list Z) : option (list Z * list Z) :=
  match n with
  | O => Some ([], bs)
  | S k => match bs with
           | [] => None
           | b :: r => match take k r with Some (l, r') => Some (b :: l, r') | None => None end
           end
  end.

Definition p_take (n : Z) : parser (list Z) := fun bs => take (Z.to_nat n) bs.

(* big-endian unsigned / two's-complement signed integers of n bytes *)
Definition be_value (l : list Z) : Z := fold_left (fun acc b => acc * 256 + b) l 0.
Definition p_uint (n : nat) : parser Z := l <- (fun bs => take n bs) ;; ret (be_value l).
Definition p_sint (n : nat) : parser Z :=
  u <- p_uint n ;; ret (if u <? 256 ^ Z.of_nat n / 2 then u else u - 256 ^ Z.of_nat n).

Definition p_byte := p_uint 1.
Definition p_short := p_uint 2.
Definition p_int := p_sint 4.
Definition p_long := p_sint 8.

Definition p_string : parser (list Z) := n <- p_short ;; p_take n.          (* also [short bytes] *)
Definition p_longstring : parser (list Z) := n <- p_int ;; if n <? 0 then fail else p_take n.
Definition p_bytes : parser (option (list Z)) :=
  n <- p_int ;; if n <? 0 then ret None else (b <- p_take n ;; ret (Some b)).

Inductive svalue := SNull | SNotSet | SBytes (b : list Z).

(* bound values: [bytes] before v4 (any negative length is null), [value] from v4 on *)
Definition p_value (pv : Z) : parser svalue :=
  n <- p_int ;;
  if 0 <=? n then (b <- p_take n ;; ret (SBytes b))
  else if pv <? 4 then ret SNull
  else if n =? -1 then ret SNull
  else if n =? -2 then ret SNotSet
  else fail.

Fixpoint p_count {A} (n : nat) (p : parser A) : parser (list A) :=
  match n with
  | O => ret []
  | S k => x <- p ;; l <- p_count k p ;; ret (x :: l)
  end.

Definition p_list {A} (p : parser A) : parser (list A) := n <- p_short ;; p_count (Z.to_nat n) p.
Definition p_pair {A B} (pa : parser A) (pb : parser B) : parser (A * B) := a <- pa ;; b <- pb ;; ret (a, b).
Definition p_stringlist := p_list p_string.
Definition p_stringmap := p_list (p_pair p_string p_string).
Definition p_bytesmap := p_list (p_pair p_string p_bytes).
Definition p_if {A} (b : bool) (p : parser A) : parser (option A) :=
  if b then (x <- p ;; ret (Some x)) else ret None.

Definition bit (flags : Z) (k : Z) : bool := Z.testbit flags k.
(* every set bit of flags is one the version defines *)
Definition only_bits (flags mask : Z) : bool := Z.land flags mask =? flags.

Definition is_dse (pv : Z) : bool := (pv =? 65) || (pv =? 66).
Definition known_version (pv : Z) : bool := ((1 <=? pv) && (pv <=? 6)) || is_dse pv.
(* v5/v6 and DSE_V2 (not DSE_V1) carry: [int] flags in PREPARE, result_metadata_id in EXECUTE, per-request keyspace *)
Definition v5_features (pv : Z) : bool := (pv =? 5) || (pv =? 6) || (pv =? 66).
Definition int_flags (pv : Z) : bool := 5 <=? pv.

(* continuous paging options (DSE): <max_pages:int><pages_per_second:int>, DSE_V2 adds <next_pages:int> *)
Record scpo := { s_max_pages : Z; s_pps : Z; s_next_pages : option Z }.
Definition p_cpo (pv : Z) : parser scpo :=
  a <- p_int ;; b <- p_int ;; c <- p_if (pv =? 66) p_int ;; ret {| s_max_pages := a; s_pps := b; s_next_pages := c |}.

(* <query_parameters> of QUERY / EXECUTE, v2+:
   <consistency><flags>[<n>[value_1..n]][<result_page_size>][<paging_state>][<serial_consistency>][<timestamp>]
   [<keyspace>][<now_in_seconds>]           DSE: [...][<keyspace>][<continuous paging options>]
   flags: 0x01 values, 0x02 skip_metadata, 0x04 page_size, 0x08 paging state, 0x10 serial consistency,
          0x20 default timestamp (v3+), 0x40 names for values (not parsed here: reported as unparseable),
          0x80 keyspace (v5+, DSE_V2), 0x100 now_in_seconds (v5+),
          0x40000000 page size in bytes (DSE), 0x80000000 continuous paging (DSE).  [byte] before v5, [int] from v5 on. *)
Record sparams := {
  s_cl : Z; s_values : option (list svalue); s_skip_metadata : bool; s_page_size : option Z;
  s_paging_state : option (list Z); s_serial : option Z; s_timestamp : option Z; s_keyspace : option (list Z);
  s_now : option Z; s_page_bytes : bool; s_cpo : option scpo }.

Definition query_mask (pv : Z) : Z :=
  if pv =? 2 then 31                          (* 0x1F *)
  else if (pv =? 3) || (pv =? 4) then 63      (* 0x3F *)
  else if (pv =? 5) || (pv =? 6) then 447     (* 0x1BF *)
  else if pv =? 65 then 63 + 1073741824 + 2147483648
  else if pv =? 66 then 191 + 1073741824 + 2147483648
  else 0.

Definition p_paging_state : parser (list Z) :=
  o <- p_bytes ;; match o with Some b => ret b | None => fail end.

Definition p_qparams (pv : Z) : parser sparams :=
  cl <- p_short ;;
  fl <- (if int_flags pv then p_uint 4 else p_byte) ;;
  if negb (only_bits fl (query_mask pv)) then fail else
  vals <- p_if (bit fl 0) (p_list (p_value pv)) ;;
  psz <- p_if (bit fl 2) p_int ;;
  pst <- p_if (bit fl 3) p_paging_state ;;
  ser <- p_if (bit fl 4) p_short ;;
  ts <- p_if (bit fl 5) p_long ;;
  ks <- p_if (bit fl 7) p_string ;;
  now <- p_if (bit fl 8) p_int ;;
  cp <- p_if (bit fl 31) (p_cpo pv) ;;
  ret {| s_cl := cl; s_values := vals; s_skip_metadata := bit fl 1; s_page_size := psz; s_paging_state := pst;
         s_serial := ser; s_timestamp := ts; s_keyspace := ks; s_now := now; s_page_bytes := bit fl 30; s_cpo := cp |}.

Definition v1_params (cl : Z) (vals : option (list svalue)) : sparams :=
  {| s_cl := cl; s_values := vals; s_skip_metadata := false; s_page_size := None; s_paging_state := None;
     s_serial := None; s_timestamp := None; s_keyspace := None; s_now := None; s_page_bytes := false; s_cpo := None |}.

(* one statement of a BATCH: <kind:byte><string_or_id><n><value_1..n>; kind 0 = [long string], kind 1 = [short bytes] id *)
Inductive sbquery := SBQuery (q : list Z) (vals : list svalue) | SBPrepared (id : list Z) (vals : list svalue).
Definition p_bquery (pv : Z) : parser sbquery :=
  k <- p_byte ;;
  if k =? 0 then (q <- p_longstring ;; vs <- p_list (p_value pv) ;; ret (SBQuery q vs))
  else if k =? 1 then (id <- p_string ;; vs <- p_list (p_value pv) ;; ret (SBPrepared id vs))
  else fail.

Definition batch_mask (pv : Z) : Z :=
  if (pv =? 3) || (pv =? 4) || (pv =? 65) then 48     (* 0x10 | 0x20 *)
  else if (pv =? 5) || (pv =? 6) then 48 + 128 + 256
  else if pv =? 66 then 48 + 128
  else 0.

Inductive srequest :=
| SStartup (options : list (list Z * list Z))
| SOptions
| SAuthResponse (token : option (list Z))
| SCredentials (creds : list (list Z * list Z))
| SQuery (query : list Z) (p : sparams)
| SPrepare (query : list Z) (keyspace : option (list Z))
| SExecute (id : list Z) (result_metadata_id : option (list Z)) (p : sparams)
| SBatch (type : Z) (queries : list sbquery) (cl : Z) (serial : option Z) (timestamp : option Z)
         (keyspace : option (list Z)) (now : option Z)
| SRegister (events : list (list Z))
| SRevise (op_type op_id : Z) (next_pages : option Z).

Definition p_body (pv opcode : Z) : parser srequest :=
  if opcode =? 1 then (m <- p_stringmap ;; ret (SStartup m))
  else if opcode =? 5 then ret SOptions
  else if opcode =? 15 then (if pv <? 2 then fail else t <- p_bytes ;; ret (SAuthResponse t))
  else if opcode =? 4 then (if pv =? 1 then m <- p_stringmap ;; ret (SCredentials m) else fail)
  else if opcode =? 7 then
    q <- p_longstring ;;
    (if pv =? 1 then cl <- p_short ;; ret (SQuery q (v1_params cl None))
     else p <- p_qparams pv ;; ret (SQuery q p))
  else if opcode =? 9 then
    q <- p_longstring ;;
    (if v5_features pv then
       fl <- p_uint 4 ;;
       if negb (only_bits fl 1) then fail else ks <- p_if (bit fl 0) p_string ;; ret (SPrepare q ks)
     else ret (SPrepare q None))
  else if opcode =? 10 then
    id <- p_string ;;
    (if pv =? 1 then vs <- p_list (p_value pv) ;; cl <- p_short ;; ret (SExecute id None (v1_params cl (Some vs)))
     else rm <- p_if (v5_features pv) p_string ;; p <- p_qparams pv ;; ret (SExecute id rm p))
  else if opcode =? 13 then
    if pv <? 2 then fail else
    ty <- p_byte ;; qs <- p_list (p_bquery pv) ;; cl <- p_short ;;
    (if pv =? 2 then ret (SBatch ty qs cl None None None None)
     else fl <- (if int_flags pv then p_uint 4 else p_byte) ;;
          if negb (only_bits fl (batch_mask pv)) then fail else
          ser <- p_if (bit fl 4) p_short ;; ts <- p_if (bit fl 5) p_long ;;
          ks <- p_if (bit fl 7) p_string ;; now <- p_if (bit fl 8) p_int ;;
          ret (SBatch ty qs cl ser ts ks now))
  else if opcode =? 11 then (l <- p_stringlist ;; ret (SRegister l))
  else if opcode =? 255 then
    if negb (is_dse pv) then fail else
    op <- p_int ;; id <- p_int ;;
    (if op =? 2 then (if pv =? 66 then n <- p_int ;; ret (SRevise op id (Some n)) else fail)
     else ret (SRevise op id None))
  else fail.

Record sframe := {
  f_version : Z; f_compressed : bool; f_tracing : bool; f_beta : bool; f_stream : Z;
  f_payload : option (list (list Z * option (list Z))); f_request : srequest }.

Record sheader := { h_version : Z; h_flags : Z; h_stream : Z; h_opcode : Z; h_length : Z }.

Definition p_header : parser sheader :=
  v <- p_byte ;;
  if negb (known_version v) then fail else     (* also rejects the response direction bit 0x80 *)
  fl <- p_byte ;;
  st <- (if v <? 3 then p_sint 1 else p_sint 2) ;;
  op <- p_byte ;;
  n <- p_int ;;
  if n <? 0 then fail else
  ret {| h_version := v; h_flags := fl; h_stream := st; h_opcode := op; h_length := n |}.

(* the whole input must be exactly one frame: header, then exactly <length> body bytes; the body (after
   decompression when flagged) must be consumed exactly by [payload] + message *)
Definition spec_parse (decompress : list Z -> option (list Z)) (bs : list Z) : option sframe :=
  match p_header bs with
  | None => None
  | Some (h, body) =>
      if negb (Z.of_nat (length body) =? h_length h) then None else
      let pv := h_version h in
      let compressed := bit (h_flags h) 0 in
      (* v5/v6 compress at the segment layer: the per-frame flag must not be used *)
      if compressed && ((pv =? 5) || (pv =? 6)) then None else
      match (if compressed then decompress body else Some body) with
      | None => None
      | Some body' =>
          let with_payload := bit (h_flags h) 2 && (4 <=? pv) in
          match (pl <- p_if with_payload p_bytesmap ;; r <- p_body pv (h_opcode h) ;; ret (pl, r)) body' with
          | Some ((pl, r), []) =>
              Some {| f_version := pv; f_compressed := compressed; f_tracing := bit (h_flags h) 1;
                      f_beta := bit (h_flags h) 4 && (5 <=? pv); f_stream := h_stream h;
                      f_payload := pl; f_request := r |}
          | _ => None
          end
      end
  end.
